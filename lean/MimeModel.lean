-- This module serves as the root of the `MimeModel` library.
-- Import modules here that should be built as part of the library.
import MimeModel.Basic
