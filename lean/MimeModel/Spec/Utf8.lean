import MimeModel.Basic
/-
  RFC 3629 UTF-8, written from the definition (decode a scalar value, then require the
  shortest form, no surrogates, at most U+10FFFF) — independent of the table-driven model
  of Go's `utf8.Valid` in Model/Charset.lean.
-/
namespace Mime.Spec.U
open Mime

def cont (b : Nat) : Bool := 0x80 ≤ b && b ≤ 0xBF

/-- one well-formed character at the head of the input: its length -/
def charLen : Bytes → Option Nat
  | [] => none
  | b0 :: rest =>
    if b0 < 0x80 then some 1
    else if 0xC0 ≤ b0 && b0 ≤ 0xDF then
      match rest with
      | b1 :: _ =>
        let cp := (b0 % 32) * 64 + b1 % 64
        if cont b1 && cp ≥ 0x80 then some 2 else none
      | _ => none
    else if 0xE0 ≤ b0 && b0 ≤ 0xEF then
      match rest with
      | b1 :: b2 :: _ =>
        let cp := ((b0 % 16) * 64 + b1 % 64) * 64 + b2 % 64
        if cont b1 && cont b2 && cp ≥ 0x800 && !(0xD800 ≤ cp && cp ≤ 0xDFFF) then some 3 else none
      | _ => none
    else if 0xF0 ≤ b0 && b0 ≤ 0xF7 then
      match rest with
      | b1 :: b2 :: b3 :: _ =>
        let cp := (((b0 % 8) * 64 + b1 % 64) * 64 + b2 % 64) * 64 + b3 % 64
        if cont b1 && cont b2 && cont b3 && cp ≥ 0x10000 && cp ≤ 0x10FFFF then some 4 else none
      | _ => none
    else none

/-- the whole input is a sequence of well-formed characters -/
def valid : Nat → Bytes → Bool
  | _, [] => true
  | 0, _ => false
  | fuel + 1, b =>
    match charLen b with
    | some k => valid fuel (b.drop k)
    | none => false

def validUtf8 (b : Bytes) : Bool := valid (b.length + 1) b

/-- does the input contain a complete non-ASCII character (given it is valid) -/
def hasNonAscii (b : Bytes) : Bool := b.any (fun c => c ≥ 0x80)

/-- `s` is a non-empty proper prefix of some well-formed multi-byte character -/
def truncSeq (s : Bytes) : Bool :=
  match s with
  | [b0] => 0xC2 ≤ b0 && b0 ≤ 0xF4
  | [b0, b1] =>
    cont b1 &&
    ((b0 == 0xE0 && b1 ≥ 0xA0) || (0xE1 ≤ b0 && b0 ≤ 0xEC) || (b0 == 0xED && b1 ≤ 0x9F) || b0 == 0xEE || b0 == 0xEF ||
     (b0 == 0xF0 && b1 ≥ 0x90) || (0xF1 ≤ b0 && b0 ≤ 0xF3) || (b0 == 0xF4 && b1 ≤ 0x8F))
  | [b0, b1, b2] =>
    cont b1 && cont b2 &&
    ((b0 == 0xF0 && b1 ≥ 0x90) || (0xF1 ≤ b0 && b0 ≤ 0xF3) || (b0 == 0xF4 && b1 ≤ 0x8F))
  | _ => false

/-- valid UTF-8 apart from a multi-byte sequence cut off at the very end; returns the
    valid part -/
def validUpToCut (x : Bytes) : Option Bytes :=
  if validUtf8 x then some x
  else
    let tryK := fun (k : Nat) =>
      let p := x.take (x.length - k)
      let s := x.drop (x.length - k)
      if k ≤ x.length && truncSeq s && validUtf8 p then some p else none
    match tryK 1 with
    | some p => some p
    | none => match tryK 2 with
      | some p => some p
      | none => tryK 3

end Mime.Spec.U
