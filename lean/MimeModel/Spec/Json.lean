import MimeModel.Basic
/-
  Independent executable specifications for the JSON properties (C08, C09, C10):
  * `strictDoc`  — RFC 8259 object/array documents (recursive descent, builds the AST);
  * `relaxedDoc` — the structural grammar with exactly the leniencies C09 names
    (liberal numbers, raw control bytes in strings, one trailing comma);
  * `viable`     — is the input a prefix of some relaxed document;
  * sub-type predicates on the AST (GeoJSON / HAR / glTF).
  Written without reference to the scanner model (Model/Json.lean).
-/
namespace Mime.Spec.J
open Mime

inductive JVal
  | null | bool (b : Bool) | num | str (s : Bytes)
  | arr (items : List JVal)
  | obj (members : List (Bytes × JVal))
  deriving Repr

def ws (c : Nat) : Bool := c == 0x20 || c == 0x09 || c == 0x0A || c == 0x0D
def digit (c : Nat) : Bool := 0x30 ≤ c && c ≤ 0x39
def hexd (c : Nat) : Bool := digit c || (0x61 ≤ c && c ≤ 0x66) || (0x41 ≤ c && c ≤ 0x46)

def skipWs : Bytes → Bytes
  | [] => []
  | c :: cs => if ws c then skipWs cs else c :: cs

/-- three-valued outcome of a recogniser on a possibly truncated input -/
inductive R (α : Type)
  | ok (v : α) (rest : Bytes)     -- recognised, `rest` follows
  | more                           -- input ended inside the construct (still viable)
  | bad                            -- cannot be (a prefix of) the construct
  deriving Repr

/-- string body after the opening quote; `strict` forbids raw control bytes.
    Returns the raw body (escapes kept literally). -/
def str (strict : Bool) : Bytes → Bytes → R Bytes
  | [], _ => .more
  | c :: cs, acc =>
    if c == 0x22 then .ok acc.reverse cs
    else if c == 0x5C then
      match cs with
      | [] => .more
      | e :: es =>
        if e == 0x22 || e == 0x5C || e == 0x2F || e == 0x62 || e == 0x66 || e == 0x6E || e == 0x72 || e == 0x74 then
          str strict es (e :: c :: acc)
        else if e == 0x75 then
          match es with
          | h1 :: h2 :: h3 :: h4 :: r =>
            if hexd h1 && hexd h2 && hexd h3 && hexd h4 then str strict r (h4 :: h3 :: h2 :: h1 :: e :: c :: acc) else .bad
          | l => if l.all hexd then .more else .bad
        else .bad
    else if strict && c < 0x20 then .bad
    else str strict cs (c :: acc)

def digits : Bytes → Nat × Bytes
  | [] => (0, [])
  | c :: cs => if digit c then let (n, r) := digits cs; (n + 1, r) else (0, c :: cs)

def isExpChar (c : Nat) : Bool := c == 0x65 || c == 0x45
def dropMinus (b : Bytes) : Bytes := match b with | 0x2D :: r => r | _ => b
def dropSign (b : Bytes) : Bytes := match b with | s :: t => if s == 0x2B || s == 0x2D then t else s :: t | [] => []

/-- `digits+` with the three-valued outcome: nothing but end of input is `more` -/
def digits1 (b : Bytes) : R Unit :=
  let (n, r) := digits b
  if n == 0 then (if r.isEmpty then .more else .bad) else .ok () r

/-- optional exponent `[eE] [+-]? [0-9]+` -/
def expPart (r : Bytes) : R Unit :=
  match r with
  | e :: t => if isExpChar e then digits1 (dropSign t) else .ok () r
  | [] => .ok () []

/-- optional fraction `. [0-9]+` -/
def fracStrict (r : Bytes) : R Unit :=
  match r with
  | 0x2E :: t => digits1 t
  | _ => .ok () r

def andThen (x : R Unit) (f : Bytes → R Unit) : R Unit :=
  match x with
  | .ok _ r => f r
  | .more => .more
  | .bad => .bad

/-- RFC 8259 number: `-? (0 | [1-9][0-9]*) (. [0-9]+)? ([eE] [+-]? [0-9]+)?` -/
def numStrict (b : Bytes) : R Unit :=
  match dropMinus b with
  | [] => .more
  | c :: cs =>
    if !digit c then .bad else
    let afterInt := if c == 0x30 then cs else (digits cs).2
    andThen (fracStrict afterInt) expPart

/-- the scanner's liberal number: `-? ( [0-9]+ .? [0-9]* | . [0-9]+ ) ([eE] [+-]? [0-9]+)?` -/
def numRelaxed (b : Bytes) : R Unit :=
  let b1 := dropMinus b
  let (n1, r1) := digits b1
  let (dot, r2) := match r1 with | 0x2E :: r => (true, r) | _ => (false, r1)
  let (n2, r3) := if dot then digits r2 else (0, r2)
  if n1 + n2 == 0 then (if r3.isEmpty then .more else .bad) else expPart r3

def lit (word : Bytes) (b : Bytes) : R Unit :=
  if word.isPrefixOf b then .ok () (b.drop word.length)
  else if b.isPrefixOf word then .more else .bad

mutual
/-- a value (leading white space allowed); `strict` selects RFC 8259 vs the relaxed grammar -/
def value (strict : Bool) : Nat → Bytes → R JVal
  | 0, _ => .bad
  | fuel + 1, b =>
    match skipWs b with
    | [] => .more
    | c :: cs =>
      if c == 0x22 then
        match str strict cs [] with
        | .ok s r => .ok (.str s) r
        | .more => .more
        | .bad => .bad
      else if c == 0x5B then items strict fuel cs [] true
      else if c == 0x7B then members strict fuel cs [] true
      else if c == 0x74 then (match lit [0x74, 0x72, 0x75, 0x65] (c :: cs) with | .ok _ r => .ok (.bool true) r | .more => .more | .bad => .bad)
      else if c == 0x66 then (match lit [0x66, 0x61, 0x6C, 0x73, 0x65] (c :: cs) with | .ok _ r => .ok (.bool false) r | .more => .more | .bad => .bad)
      else if c == 0x6E then (match lit [0x6E, 0x75, 0x6C, 0x6C] (c :: cs) with | .ok _ r => .ok .null r | .more => .more | .bad => .bad)
      else match (if strict then numStrict (c :: cs) else numRelaxed (c :: cs)) with
        | .ok _ r => .ok .num r
        | .more => .more
        | .bad => .bad

/-- array items after `[` (or after a comma); `first`: nothing consumed yet since `[` -/
def items (strict : Bool) : Nat → Bytes → List JVal → Bool → R JVal
  | 0, _, _, _ => .bad
  | fuel + 1, b, acc, first =>
    match skipWs b with
    | [] => .more
    | c :: cs =>
      if c == 0x5D && (first || !strict) then .ok (.arr acc.reverse) cs   -- `[]`, or a trailing comma when relaxed
      else
        match value strict fuel (c :: cs) with
        | .bad => .bad
        | .more => .more
        | .ok v r =>
          match skipWs r with
          | [] => .more
          | d :: ds =>
            if d == 0x2C then items strict fuel ds (v :: acc) false
            else if d == 0x5D then .ok (.arr (v :: acc).reverse) ds
            else .bad

/-- object members after `{` (or after a comma) -/
def members (strict : Bool) : Nat → Bytes → List (Bytes × JVal) → Bool → R JVal
  | 0, _, _, _ => .bad
  | fuel + 1, b, acc, first =>
    match skipWs b with
    | [] => .more
    | c :: cs =>
      if c == 0x7D && (first || !strict) then .ok (.obj acc.reverse) cs
      else if c != 0x22 then .bad
      else
        match str strict cs [] with
        | .bad => .bad
        | .more => .more
        | .ok k r =>
          match skipWs r with
          | [] => .more
          | d :: ds =>
            if d != 0x3A then .bad else
            match value strict fuel ds with
            | .bad => .bad
            | .more => .more
            | .ok v r2 =>
              match skipWs r2 with
              | [] => .more
              | e :: es =>
                if e == 0x2C then members strict fuel es ((k, v) :: acc) false
                else if e == 0x7D then .ok (.obj ((k, v) :: acc).reverse) es
                else .bad
end

def fuelFor (b : Bytes) : Nat := 2 * b.length + 4

def firstNonWs (b : Bytes) : Option Nat := (skipWs b).head?

/-- a complete document: white space, one object or array, white space -/
def doc (strict : Bool) (b : Bytes) : Option JVal :=
  match firstNonWs b with
  | some c =>
    if c != 0x7B && c != 0x5B then none else
    match value strict (fuelFor b) b with
    | .ok v r => if (skipWs r).isEmpty then some v else none
    | _ => none
  | none => none

def strictDoc (b : Bytes) : Bool := (doc true b).isSome
def relaxedDoc (b : Bytes) : Bool := (doc false b).isSome

/-- is `b` a prefix of some relaxed document (with its opening bracket inside `b`) -/
def viable (b : Bytes) : Bool :=
  match firstNonWs b with
  | some c =>
    if c != 0x7B && c != 0x5B then false else
    match value false (fuelFor b) b with
    | .ok _ r => (skipWs r).isEmpty
    | .more => true
    | .bad => false
  | none => false

mutual
def depth : JVal → Nat
  | .arr xs => depthList xs + 1
  | .obj ms => depthMembers ms + 1
  | _ => 0
def depthList : List JVal → Nat
  | [] => 0
  | x :: xs => max (depth x) (depthList xs)
def depthMembers : List (Bytes × JVal) → Nat
  | [] => 0
  | (_, v) :: ms => max (depth v) (depthMembers ms)
end

def geoNames : List Bytes :=
  ["Feature", "FeatureCollection", "Point", "LineString", "Polygon", "MultiPoint", "MultiLineString",
   "MultiPolygon", "GeometryCollection"].map ofString

def member? (ms : List (Bytes × JVal)) (k : String) : List JVal :=
  (ms.filter (fun p => p.1 == ofString k)).map (·.2)

/-- C10: GeoJSON iff a top-level "type" member is one of the nine RFC 7946 names -/
def isGeo : JVal → Bool
  | .obj ms => (member? ms "type").any fun v => match v with | .str s => geoNames.contains s | _ => false
  | _ => false

/-- HAR iff a top-level "log" object has a version, creator or entries member -/
def isHar : JVal → Bool
  | .obj ms => (member? ms "log").any fun v => match v with
    | .obj ls => !(member? ls "version").isEmpty || !(member? ls "creator").isEmpty || !(member? ls "entries").isEmpty
    | _ => false
  | _ => false

/-- glTF iff top-level asset.version is "1.0" or "2.0" -/
def isGltf : JVal → Bool
  | .obj ms => (member? ms "asset").any fun v => match v with
    | .obj ls => (member? ls "version").any fun w => match w with
      | .str s => s == ofString "1.0" || s == ofString "2.0"
      | _ => false
    | _ => false
  | _ => false

end Mime.Spec.J
