import MimeModel.Model.Prims
/-
  Layout specification of the leading part of a zip archive, as a zip *writer* produces it:
  a sequence of local entries (signature PK\x03\x04, 26 fixed header bytes, name, extra field,
  stored data, optional data descriptor) followed by a tail (central directory, end record…).

  Independent of `zipContains`: nothing here mentions the walk of zip.go.  The only shared
  definitions are the byte primitives (`Bytes`, `u32le`, `indexOf`) and the constant `pk34`.
-/
namespace Mime.Spec.Zip
open Mime

/-- one local entry of a zip archive -/
structure Entry where
  /-- the 26 bytes of the local header after the signature: version(2) flags(2) method(2)
      time(2) date(2) crc(4) csize(4) usize(4) name length(2) extra length(2) -/
  fixed : Bytes
  name  : Bytes
  extra : Bytes
  /-- the (compressed) file data as stored -/
  data  : Bytes
  /-- optional data descriptor (empty, or 12/16/24 bytes) -/
  desc  : Bytes
  deriving Repr, DecidableEq

/-- everything after the signature -/
def Entry.body (e : Entry) : Bytes := e.fixed ++ e.name ++ e.extra ++ e.data ++ e.desc
/-- the bytes of the entry in the file -/
def Entry.image (e : Entry) : Bytes := pk34 ++ e.body
/-- the file: the entries' images in order, then `tail` (central directory etc.) -/
def archive (es : List Entry) (tail : Bytes) : Bytes := (es.map Entry.image).flatten ++ tail

/-- the "compressed size" field of the local header (offset 18 of the image, 14 of `fixed`) -/
def Entry.csizeField (e : Entry) : Nat := u32le e.fixed 14

/-- well-formed: the fixed part has its 26 bytes, and all elements are real bytes -/
def Entry.WF (e : Entry) : Prop := e.fixed.length = 26 ∧ (∀ b ∈ e.body, b < 256)
/-- "bodies free of embedded zip signatures" -/
def Entry.Clean (e : Entry) : Prop := indexOf pk34 e.body = none
/-- "entries of realistic length": at least 26 bytes follow the 30-byte header -/
def Entry.Realistic (e : Entry) : Prop :=
  26 ≤ e.name.length + e.extra.length + e.data.length + e.desc.length

instance (e : Entry) : Decidable e.WF := by unfold Entry.WF; infer_instance
instance (e : Entry) : Decidable e.Clean := by unfold Entry.Clean; infer_instance
instance (e : Entry) : Decidable e.Realistic := by unfold Entry.Realistic; infer_instance

theorem Entry.body_length (e : Entry) :
    e.body.length = e.fixed.length + e.name.length + e.extra.length + e.data.length + e.desc.length := by
  simp only [Entry.body, List.length_append]

theorem Entry.image_length (e : Entry) :
    e.image.length = 4 + (e.fixed.length + e.name.length + e.extra.length + e.data.length + e.desc.length) := by
  simp only [Entry.image, List.length_append, Entry.body_length]; rfl

end Mime.Spec.Zip
