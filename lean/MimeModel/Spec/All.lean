import MimeModel.Model.Detect
import MimeModel.Model.MediaType
import MimeModel.Spec.Utf8
import MimeModel.Spec.Json
/-
  Executable specification oracles used by the driver on the *implementation's*
  results (independent of the hand model).  Each returns "" when the clause holds
  and "SPEC <property>:<clause>" otherwise.
-/
namespace Mime.Spec
open Mime

def binaryBytes : List Nat :=
  [0, 1, 2, 3, 4, 5, 6, 7, 8, 0x0B, 0x0E, 0x0F, 0x10, 0x11, 0x12, 0x13, 0x14, 0x15, 0x16, 0x17,
   0x18, 0x19, 0x1A, 0x1C, 0x1D, 0x1E, 0x1F]

def fiveBOMs : List Bytes :=
  [[0xEF, 0xBB, 0xBF], [0x00, 0x00, 0xFE, 0xFF], [0xFF, 0xFE, 0x00, 0x00], [0xFE, 0xFF], [0xFF, 0xFE]]

def startsWithBOM (h : Bytes) : Bool := fiveBOMs.any (fun b => hasPrefix h b)
def noBinary (h : Bytes) : Bool := h.all (fun b => !binaryBytes.contains b)

/-- clauses decidable from one detection result of the implementation
    (`chain`: (mime, extension) pairs, leaf first; `leafStr`: the leaf's String()) -/
def walkSpec (raw : Bytes) (lim : Nat) (chain : List (Bytes × Bytes)) (_leafStr : Bytes) : String :=
  let h := header raw lim
  let textual := startsWithBOM h || noBinary h
  let hasText := chain.any (fun i => i.1 == mimeTextPlain)
  if hasText && !textual then "SPEC C07:text-without-bom-or-binary-free"
  else if textual && chain.length < 2 then "SPEC C07:textual-header-not-classified"
  else if chain.isEmpty then "SPEC C02:empty-chain"
  else if (chain.getLast?.map (·.1)) != some mimeOctet then "SPEC C02:chain-not-rooted"
  else ""

/-- C18: the root formats that outrank tar ("tar sits after exe/elf/ar and before the remaining root
    formats"): tree.go's root children in front of `tar`, by node name -/
def tarOutrankers : List String :=
  ["xpm", "sevenZ", "zip", "pdf", "fdf", "ole", "ps", "psd", "p7s", "ogg", "png", "jpg", "jxl", "jp2", "jpx",
   "jpm", "jxs", "gif", "webp", "exe", "elf", "ar"]

def startsWithS (b : Bytes) (s : String) : Bool := hasPrefix b (ofString s)

/-- the OpenDocument and EPUB media types (the property's "OpenDocument or EPUB type") -/
def odfTypes : List String :=
  ["application/vnd.oasis.opendocument.text", "application/vnd.oasis.opendocument.text-template",
   "application/vnd.oasis.opendocument.spreadsheet", "application/vnd.oasis.opendocument.spreadsheet-template",
   "application/vnd.oasis.opendocument.presentation", "application/vnd.oasis.opendocument.presentation-template",
   "application/vnd.oasis.opendocument.graphics", "application/vnd.oasis.opendocument.graphics-template",
   "application/vnd.oasis.opendocument.formula", "application/vnd.oasis.opendocument.chart",
   "application/epub+zip"]

/-- C19 oracle, OpenDocument / EPUB clause: the first entry is the stored file `mimetype` whose
    content `c` names one of those types ⇒ that type is reported, below application/zip -/
def odfSpec (chain : List (Bytes × Bytes)) (names : List Bytes) (c : Bytes) : String :=
  let leaf := (chain.head?.map (·.1)).getD []
  if names.head? == some (ofString "mimetype") && odfTypes.any (fun t => ofString t == c) then
    if leaf != c then "SPEC C19:opendocument-or-epub-type-not-reported"
    else if !(chain.any (fun e => e.1 == ofString "application/zip")) then "SPEC C19:parent-not-zip"
    else ""
  else ""

/-- C19 oracle: the implementation's verdict against the entry names read back with archive/zip -/
def zipSpec (chain : List (Bytes × Bytes)) (names : List Bytes) : String :=
  let leaf := (chain.head?.map (·.1)).getD []
  let parent := ((chain.drop 1).head?.map (·.1)).getD []
  let docx := ofString "application/vnd.openxmlformats-officedocument.wordprocessingml.document"
  let xlsx := ofString "application/vnd.openxmlformats-officedocument.spreadsheetml.sheet"
  let pptx := ofString "application/vnd.openxmlformats-officedocument.presentationml.presentation"
  let jar := ofString "application/jar"
  let apk := ofString "application/vnd.android.package-archive"
  let zip := ofString "application/zip"
  let six := names.take 6
  let fam6 := fun (p : String) => six.any (fun n => startsWithS n p)
  let famAll := fun (p : String) => names.any (fun n => startsWithS n p)
  let apkMarkers := ["AndroidManifest.xml", "META-INF/com/android/build/gradle/app-metadata.properties", "classes.dex", "resources.arsc", "res/drawable"]
  let first := names.head?.getD []
  let expectO : Option Bytes := if fam6 "xl/" then some xlsx else if fam6 "word/" then some docx else if fam6 "ppt/" then some pptx else none
  if first == ofString "[Content_Types].xml" && expectO.isSome && some leaf != expectO then "SPEC C19:ooxml-marker-among-first-six-not-reported"
  else if first == ofString "META-INF/MANIFEST.MF" && !(apkMarkers.any fam6) && leaf != jar then "SPEC C19:jar-not-reported"
  else if first == ofString "META-INF/MANIFEST.MF" && (apkMarkers.any fam6) && leaf != apk then "SPEC C19:apk-priority"
  else if leaf == docx && !famAll "word/" then "SPEC C19:docx-without-marker"
  else if leaf == xlsx && !famAll "xl/" then "SPEC C19:xlsx-without-marker"
  else if leaf == pptx && !famAll "ppt/" then "SPEC C19:pptx-without-marker"
  else if leaf == jar && !famAll "META-INF/MANIFEST.MF" then "SPEC C19:jar-without-marker"
  else if leaf == apk && !(apkMarkers.any famAll) then "SPEC C19:apk-without-marker"
  else if (leaf == docx || leaf == xlsx || leaf == pptx || leaf == jar || leaf == apk) && parent != zip then "SPEC C19:parent-not-zip"
  else if !(famAll "word/" || famAll "xl/" || famAll "ppt/" || famAll "META-INF/MANIFEST.MF" || apkMarkers.any famAll)
          && first != ofString "mimetype" && leaf != zip then "SPEC C19:no-marker-not-plain-zip"
  else ""

/-- split on LF, dropping one trailing CR per line -/
def splitLines (b : Bytes) : List Bytes :=
  let rec go : Bytes → Bytes → List Bytes → List Bytes
    | [], cur, acc => (cur.reverse :: acc).reverse
    | c :: cs, cur, acc => if c == 0x0A then go cs [] (cur.reverse :: acc) else go cs (c :: cur) acc
  (go b [] []).map (fun l => if l.getLast? == some 0x0D then l.dropLast else l)

/-- the complete lines of the examined header: in truncated mode the text after the last
    newline is an incomplete line and does not count; a final empty piece is no line -/
def completeLines (h : Bytes) (truncated : Bool) : List Bytes :=
  let ls := splitLines h
  let ls := if truncated then ls.dropLast else (if ls.getLast? == some [] then ls.dropLast else ls)
  ls

def isBlankLine (l : Bytes) : Bool := l.all J.ws

/-- a complete JSON value with nothing but white space around it -/
def lineValue (l : Bytes) : Option J.JVal :=
  match J.value false (J.fuelFor l) l with
  | .ok v r => if (J.skipWs r).isEmpty then some v else none
  | _ => none

def isContainer : J.JVal → Bool
  | .arr _ => true | .obj _ => true | _ => false

/-- C13 oracle for NDJSON -/
def ndjsonSpec (kind : String) (raw : Bytes) (lim : Nat) (nd : Bool) (leafIsNd : Bool) (earlier : Bool) : String :=
  let h := header raw lim
  let truncated := lim != 0 && h.length ≥ lim
  let ls := completeLines h truncated
  let vals := ls.map lineValue
  let allOk := (ls.zip vals).all (fun p => isBlankLine p.1 || p.2.isSome)
  let hasCont := vals.any (fun v => match v with | some x => isContainer x | none => false)
  if nd && !(ls.length ≥ 2 && allOk && hasCont) then "SPEC C13:ndjson-reported-for-malformed-stream"
  else if kind == "nd-ok" && (ls.filter (fun l => !isBlankLine l)).length ≥ 2 && allOk && hasCont && !earlier && !leafIsNd then "SPEC C13:ndjson-stream-not-reported"
  else ""

def countFields (l : Bytes) (delim : Nat) : Nat := (l.filter (· == delim)).length + 1

/-- C13 oracle for quote-free CSV/TSV -/
def svSpec (kind : String) (want : String) (raw : Bytes) (lim : Nat) (verdict : Bool) (leafIs : Bool) (earlier : Bool) (delim : Nat) : String :=
  let h := header raw lim
  let truncated := lim != 0 && h.length ≥ lim
  let ls := (completeLines h truncated).filter (fun l => !l.isEmpty && l.head? != some 0x23)
  let quoteFree := !(h.contains 0x22)
  let counts := ls.map (fun l => countFields l delim)
  let rect := match counts with
    | [] => false
    | c :: cs => c ≥ 2 && cs.all (· == c)
  if quoteFree && verdict && !(rect && ls.length ≥ 2) then s!"SPEC C13:{want}-reported-for-ragged-table"
  else if kind == want ++ "-ok" && quoteFree && rect && ls.length ≥ 2 && !earlier && !leafIs then s!"SPEC C13:{want}-table-not-reported"
  else ""

def asciiTextByte (b : Nat) : Bool :=
  b == 7 || b == 8 || b == 9 || b == 10 || b == 11 || b == 12 || b == 13 || b == 27 || (0x20 ≤ b && b ≤ 0x7E)

def bomCharset (x : Bytes) : Option String :=
  if hasPrefix x [0xEF, 0xBB, 0xBF] then some "utf-8"
  else if hasPrefix x [0x00, 0x00, 0xFE, 0xFF] then some "utf-32be"
  else if hasPrefix x [0xFF, 0xFE, 0x00, 0x00] then some "utf-32le"
  else if hasPrefix x [0xFE, 0xFF] then some "utf-16be"
  else if hasPrefix x [0xFF, 0xFE] then some "utf-16le"
  else none

/-- C11 oracle on the implementation's `FromPlain` result (`goRes` = hex of the label) -/
def charsetSpec (x : Bytes) (goRes : String) : String :=
  let cs := match unhex goRes with
    | some b => String.ofList (b.map (fun n => Char.ofNat n))
    | none => "?"
  if x.isEmpty then "" else
  match bomCharset x with
  | some c => if cs == c then "" else "SPEC C11:bom-charset-not-reported"
  | none =>
    let vc := U.validUpToCut x
    let c1 := x.any (fun b => 0x80 ≤ b && b ≤ 0x9F)
    if cs == "utf-8" && vc.isNone then "SPEC C11:utf-8-reported-for-invalid-utf-8"
    else if cs != "utf-8" && (match vc with
        | some p => x.all asciiTextByte || U.hasNonAscii p
        | none => false) then "SPEC C11:utf-8-not-reported-for-utf-8-text"
    else if cs == "windows-1252" && !c1 then "SPEC C11:windows-1252-without-c1-byte"
    else if cs == "iso-8859-1" && c1 then "SPEC C11:iso-8859-1-with-c1-byte"
    else ""

end Mime.Spec
