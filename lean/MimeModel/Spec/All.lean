import MimeModel.Model.Detect
import MimeModel.Model.MediaType
/-
  Executable specification oracles used by the driver on the *implementation's*
  results (independent of the hand model).  Each returns "" when the clause holds
  and "SPEC <property>:<clause>" otherwise.
-/
namespace Mime.Spec
open Mime

def binaryBytes : List Nat :=
  [0, 1, 2, 3, 4, 5, 6, 7, 8, 0x0B, 0x0E, 0x0F, 0x10, 0x11, 0x12, 0x13, 0x14, 0x15, 0x16, 0x17,
   0x18, 0x19, 0x1A, 0x1C, 0x1D, 0x1E, 0x1F]

def fiveBOMs : List Bytes :=
  [[0xEF, 0xBB, 0xBF], [0x00, 0x00, 0xFE, 0xFF], [0xFF, 0xFE, 0x00, 0x00], [0xFE, 0xFF], [0xFF, 0xFE]]

def startsWithBOM (h : Bytes) : Bool := fiveBOMs.any (fun b => hasPrefix h b)
def noBinary (h : Bytes) : Bool := h.all (fun b => !binaryBytes.contains b)

/-- clauses decidable from one detection result of the implementation
    (`chain`: (mime, extension) pairs, leaf first; `leafStr`: the leaf's String()) -/
def walkSpec (raw : Bytes) (lim : Nat) (chain : List (Bytes × Bytes)) (_leafStr : Bytes) : String :=
  let h := header raw lim
  let textual := startsWithBOM h || noBinary h
  let hasText := chain.any (fun i => i.1 == mimeTextPlain)
  if hasText && !textual then "SPEC C07:text-without-bom-or-binary-free"
  else if textual && chain.length < 2 then "SPEC C07:textual-header-not-classified"
  else if chain.isEmpty then "SPEC C02:empty-chain"
  else if (chain.getLast?.map (·.1)) != some mimeOctet then "SPEC C02:chain-not-rooted"
  else ""

def charsetSpec (_raw : Bytes) (_goRes : String) : String := ""

end Mime.Spec
