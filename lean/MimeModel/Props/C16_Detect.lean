import MimeModel.Props.C16_Depth
import MimeModel.Props.C09_Detect
import MimeModel.Lemmas.DetectSound
import MimeModel.Lemmas.JsonDeepPrefix
import MimeModel.Model.Closed
/-
  C16, second sentence, through `Detect`: "inputs … are simply not reported as JSON once their
  nesting exceeds the cap."

  `Props/C16_Depth.lean` has it for the checks (`over_cap_never_reported`,
  `bracket_tower_not_reported`, `object_tower_not_reported`: `jsonHelper … = false`).  Here it is
  stated about what a caller of `mimetype.Detect` gets: the reported leaf is outside the JSON
  family (application/json incl. HAR, application/geo+json, model/gltf+json; `C09.JsonFamily`).

  * general form (`over_cap_not_json`): the examined header is a document of the relaxed grammar
    whose tree is deeper than cap + 1 ⇒ not reported as JSON, at any limit;
  * the towers `[`ⁿ `]`ⁿ (n > cap + 1) and (`{"k":`)ⁿ `{}` `}`ⁿ (n > cap), examined in full;
  * more than the check-level theorems give (`Lemmas/JsonDeepPrefix.lean`, read off the scanner):
    an input that merely *begins* with cap + 2 opening brackets — whatever follows them, whether
    or not they are ever closed — is not reported as JSON at limit 0 or any limit ≥ cap + 2;
    likewise an input that begins with cap + 1 times `{"k":` and one more `{`.

  The limit matters at `Detect` level in a way it does not at check level: `Detect` cuts the input
  before the checks see it, and the first `lim ≤ cap + 1` bytes of a bracket tower are an
  unfinished but viable array, which IS reported as JSON (example at the end; this is C09's
  "viable prefix" reading, not a defect).  Hence the hypotheses on `lim` below.
-/
namespace Mime.C16
open Mime Mime.Json Mime.Spec Mime.Tree Mime.DetectSound Mime.JsonDepth
open Mime.C09 (mimeJson mimeGeoJson mimeGltfJson JsonFamily)

abbrev cap : Nat := Gen.Json.maxRecursion

theorem not_family_spelled (m : Bytes) (h : ¬ JsonFamily m) :
    m ≠ mimeJson ∧ m ≠ mimeGeoJson ∧ m ≠ mimeGltfJson := by
  unfold JsonFamily at h
  exact ⟨fun e => h (Or.inl e), fun e => h (Or.inr (Or.inl e)), fun e => h (Or.inr (Or.inr e))⟩

/-- the lifting step: if every JSON-family check refuses the examined header, the leaf is outside
    the JSON family (regenerated fact `C09.family_nodes` inside `C09.json_leaf_helper`) -/
theorem not_json_of_refused (ext : Ext) (x : Bytes) (lim : Nat) (leaf : Info)
    (hleaf : (detect ext Gen.builtin x lim).chain.head? = some leaf)
    (href : ∀ qs w, jsonHelper (header x lim) lim qs w = false) : ¬ JsonFamily leaf.mime := by
  intro hm
  obtain ⟨qs, w, hh⟩ := C09.json_leaf_helper ext x lim leaf hleaf hm
  rw [href qs w] at hh
  cases hh

/-- **C16 through `Detect`, general form**: if the examined header is a document of the relaxed
    grammar whose syntax tree is nested deeper than cap + 1, the reported leaf is not of the JSON
    family — for every `ext`, input and limit -/
theorem over_cap_not_json (ext : Ext) (x : Bytes) (lim : Nat) (leaf : Info)
    (hleaf : (detect ext Gen.builtin x lim).chain.head? = some leaf) (v : J.JVal)
    (hdoc : J.doc false (header x lim) = some v) (hdeep : cap + 1 < J.depth v) :
    ¬ JsonFamily leaf.mime :=
  not_json_of_refused ext x lim leaf hleaf
    (fun qs w => over_cap_never_reported (header x lim) lim qs w v hdoc hdeep)

/-- the same for a whole input: a relaxed document deeper than cap + 1, examined in full -/
theorem over_cap_not_json_whole (ext : Ext) (x : Bytes) (lim : Nat) (leaf : Info)
    (hleaf : (detect ext Gen.builtin x lim).chain.head? = some leaf) (v : J.JVal)
    (hdoc : J.doc false x = some v) (hdeep : cap + 1 < J.depth v) (hw : lim = 0 ∨ x.length ≤ lim) :
    leaf.mime ≠ mimeJson ∧ leaf.mime ≠ mimeGeoJson ∧ leaf.mime ≠ mimeGltfJson := by
  apply not_family_spelled
  apply over_cap_not_json ext x lim leaf hleaf v _ hdeep
  rwa [header_whole x lim hw]

/-- **the bracket tower** `[`ⁿ `]`ⁿ with n > cap + 1, examined in full, is not reported as JSON -/
theorem bracket_tower_not_json (ext : Ext) (n : Nat) (hn : cap + 1 < n) (lim : Nat) (leaf : Info)
    (hw : lim = 0 ∨ 2 * n ≤ lim)
    (hleaf : (detect ext Gen.builtin (List.replicate n 0x5B ++ List.replicate n 0x5D) lim).chain.head? = some leaf) :
    leaf.mime ≠ mimeJson ∧ leaf.mime ≠ mimeGeoJson ∧ leaf.mime ≠ mimeGltfJson := by
  apply not_family_spelled
  apply not_json_of_refused ext _ lim leaf hleaf
  intro qs w
  rw [header_whole _ lim (by rcases hw with h | h; exact Or.inl h; right; simp; omega)]
  exact bracket_tower_not_reported n hn lim qs w

/-- **the object tower** (`{"k":`)ⁿ `{}` `}`ⁿ with n > cap, examined in full, is not reported as JSON -/
theorem object_tower_not_json (ext : Ext) (n : Nat) (hn : cap < n) (lim : Nat) (leaf : Info)
    (hw : lim = 0 ∨ 6 * n + 2 ≤ lim)
    (hleaf : (detect ext Gen.builtin
      ((List.replicate n okey).flatten ++ [0x7B, 0x7D] ++ List.replicate n 0x7D) lim).chain.head? = some leaf) :
    leaf.mime ≠ mimeJson ∧ leaf.mime ≠ mimeGeoJson ∧ leaf.mime ≠ mimeGltfJson := by
  apply not_family_spelled
  apply not_json_of_refused ext _ lim leaf hleaf
  intro qs w
  have hlen : ((List.replicate n okey).flatten ++ [0x7B, 0x7D] ++ List.replicate n 0x7D).length = 6 * n + 2 := by
    have := otower_length n []
    rw [otower_eq, List.append_nil] at this
    simpa using this
  rw [header_whole _ lim (by rcases hw with h | h; exact Or.inl h; right; rw [hlen]; exact h)]
  exact object_tower_not_reported n hn lim qs w

/-! ### whatever follows: inputs that begin with cap + 2 opening brackets -/

/-- the examined header keeps a prefix that lies within the limit -/
theorem header_keeps_prefix (p rest : Bytes) (lim : Nat) (h : lim = 0 ∨ p.length ≤ lim) :
    ∃ rest', header (p ++ rest) lim = p ++ rest' := by
  by_cases h0 : lim = 0
  · exact ⟨rest, by simp [header, h0]⟩
  · refine ⟨rest.take (lim - p.length), ?_⟩
    have hl : p.length ≤ lim := by rcases h with h | h; exact absurd h h0; exact h
    simp only [header, h0, ↓reduceIte, List.take_append]
    rw [List.take_of_length_le hl]

/-- **deep beginnings**: if the examined header begins with cap + 2 opening brackets, the leaf is
    not of the JSON family — whatever follows the brackets, at every limit -/
theorem deep_header_not_json (ext : Ext) (x : Bytes) (lim : Nat) (leaf : Info)
    (hleaf : (detect ext Gen.builtin x lim).chain.head? = some leaf) (rest : Bytes)
    (hx : header x lim = List.replicate (cap + 2) 0x5B ++ rest) : ¬ JsonFamily leaf.mime := by
  apply not_json_of_refused ext x lim leaf hleaf
  intro qs w
  rw [hx]
  exact JsonDeep.deep_prefix_refused_real rest lim qs w

/-- **an input that begins with cap + 2 = 4098 opening brackets is not reported as JSON**,
    whatever follows, with no limit or any limit of at least cap + 2 -/
theorem deep_input_not_json (ext : Ext) (rest : Bytes) (lim : Nat) (leaf : Info)
    (hlim : lim = 0 ∨ cap + 2 ≤ lim)
    (hleaf : (detect ext Gen.builtin (List.replicate (cap + 2) 0x5B ++ rest) lim).chain.head? = some leaf) :
    leaf.mime ≠ mimeJson ∧ leaf.mime ≠ mimeGeoJson ∧ leaf.mime ≠ mimeGltfJson := by
  apply not_family_spelled
  obtain ⟨rest', hh⟩ := header_keeps_prefix (List.replicate (cap + 2) 0x5B) rest lim (by simpa using hlim)
  exact deep_header_not_json ext _ lim leaf hleaf rest' hh

/-- the bracket tower again, now **whatever follows it and for every limit that does not cut
    inside the first cap + 2 brackets** (in particular cut anywhere inside the tower beyond them) -/
theorem bracket_tower_then_anything_not_json (ext : Ext) (n : Nat) (hn : cap + 1 < n) (rest : Bytes)
    (lim : Nat) (leaf : Info) (hlim : lim = 0 ∨ cap + 2 ≤ lim)
    (hleaf : (detect ext Gen.builtin
      (List.replicate n 0x5B ++ List.replicate n 0x5D ++ rest) lim).chain.head? = some leaf) :
    leaf.mime ≠ mimeJson ∧ leaf.mime ≠ mimeGeoJson ∧ leaf.mime ≠ mimeGltfJson := by
  obtain ⟨m, rfl⟩ : ∃ m, n = (cap + 2) + m := ⟨n - (cap + 2), by omega⟩
  have hx : List.replicate (cap + 2 + m) 0x5B ++ List.replicate (cap + 2 + m) 0x5D ++ rest =
      List.replicate (cap + 2) 0x5B ++ (List.replicate m 0x5B ++ List.replicate (cap + 2 + m) 0x5D ++ rest) := by
    have e : List.replicate (cap + 2 + m) (0x5B : Nat) = List.replicate (cap + 2) 0x5B ++ List.replicate m 0x5B :=
      List.replicate_append_replicate.symm
    rw [e]; simp only [List.append_assoc]
  rw [hx] at hleaf
  exact deep_input_not_json ext _ lim leaf hlim hleaf

/-- **deep beginnings, objects**: if the examined header begins with cap + 1 times `{"k":` and one
    more `{`, the leaf is not of the JSON family — whatever follows, at every limit -/
theorem deep_object_header_not_json (ext : Ext) (x : Bytes) (lim : Nat) (leaf : Info)
    (hleaf : (detect ext Gen.builtin x lim).chain.head? = some leaf) (rest : Bytes)
    (hx : header x lim = (List.replicate (cap + 1) okey).flatten ++ 0x7B :: rest) : ¬ JsonFamily leaf.mime := by
  apply not_json_of_refused ext x lim leaf hleaf
  intro qs w
  rw [hx]
  exact JsonDeep.deep_object_prefix_refused_real rest lim qs w

/-- the object tower again, **whatever follows it and for every limit that does not cut inside its
    first cap + 1 keys and the next brace** (5 (cap + 1) + 1 = 20486 bytes) -/
theorem object_tower_then_anything_not_json (ext : Ext) (n : Nat) (hn : cap < n) (rest : Bytes)
    (lim : Nat) (leaf : Info) (hlim : lim = 0 ∨ 5 * (cap + 1) + 1 ≤ lim)
    (hleaf : (detect ext Gen.builtin
      ((List.replicate n okey).flatten ++ [0x7B, 0x7D] ++ List.replicate n 0x7D ++ rest) lim).chain.head? = some leaf) :
    leaf.mime ≠ mimeJson ∧ leaf.mime ≠ mimeGeoJson ∧ leaf.mime ≠ mimeGltfJson := by
  apply not_family_spelled
  obtain ⟨m, rfl⟩ : ∃ m, n = (cap + 1) + m := ⟨n - (cap + 1), by omega⟩
  obtain ⟨t, ht⟩ : ∃ t, (List.replicate m okey).flatten ++ [0x7B, 0x7D] ++ List.replicate (cap + 1 + m) 0x7D ++ rest =
      0x7B :: t := by
    cases m with
    | zero => exact ⟨_, rfl⟩
    | succ m => exact ⟨_, rfl⟩
  have hx : (List.replicate (cap + 1 + m) okey).flatten ++ [0x7B, 0x7D] ++ List.replicate (cap + 1 + m) 0x7D ++ rest =
      ((List.replicate (cap + 1) okey).flatten ++ [0x7B]) ++ t := by
    have e : List.replicate (cap + 1 + m) okey = List.replicate (cap + 1) okey ++ List.replicate m okey :=
      List.replicate_append_replicate.symm
    rw [e, List.flatten_append]
    simp only [List.append_assoc] at ht ⊢
    rw [ht]; rfl
  rw [hx] at hleaf
  obtain ⟨rest', hh⟩ := header_keeps_prefix ((List.replicate (cap + 1) okey).flatten ++ [0x7B]) t lim
    (by
      have : ((List.replicate (cap + 1) okey).flatten ++ [0x7B]).length = 5 * (cap + 1) + 1 := by simp [okey]; omega
      rw [this]; exact hlim)
  exact deep_object_header_not_json ext _ lim leaf hleaf rest' (by rw [hh]; simp)

/-! ### the closed model -/

theorem closed_over_cap_not_json (x : Bytes) (lim : Nat) (leaf : Info)
    (hleaf : (Closed.detect x lim).chain.head? = some leaf) (v : J.JVal)
    (hdoc : J.doc false (header x lim) = some v) (hdeep : cap + 1 < J.depth v) :
    ¬ JsonFamily leaf.mime :=
  over_cap_not_json Closed.ext x lim leaf hleaf v hdoc hdeep

theorem closed_bracket_tower_not_json (n : Nat) (hn : cap + 1 < n) (lim : Nat) (leaf : Info)
    (hw : lim = 0 ∨ 2 * n ≤ lim)
    (hleaf : (Closed.detect (List.replicate n 0x5B ++ List.replicate n 0x5D) lim).chain.head? = some leaf) :
    leaf.mime ≠ mimeJson ∧ leaf.mime ≠ mimeGeoJson ∧ leaf.mime ≠ mimeGltfJson :=
  bracket_tower_not_json Closed.ext n hn lim leaf hw hleaf

theorem closed_object_tower_not_json (n : Nat) (hn : cap < n) (lim : Nat) (leaf : Info)
    (hw : lim = 0 ∨ 6 * n + 2 ≤ lim)
    (hleaf : (Closed.detect
      ((List.replicate n okey).flatten ++ [0x7B, 0x7D] ++ List.replicate n 0x7D) lim).chain.head? = some leaf) :
    leaf.mime ≠ mimeJson ∧ leaf.mime ≠ mimeGeoJson ∧ leaf.mime ≠ mimeGltfJson :=
  object_tower_not_json Closed.ext n hn lim leaf hw hleaf

theorem closed_deep_input_not_json (rest : Bytes) (lim : Nat) (leaf : Info)
    (hlim : lim = 0 ∨ cap + 2 ≤ lim)
    (hleaf : (Closed.detect (List.replicate (cap + 2) 0x5B ++ rest) lim).chain.head? = some leaf) :
    leaf.mime ≠ mimeJson ∧ leaf.mime ≠ mimeGeoJson ∧ leaf.mime ≠ mimeGltfJson :=
  deep_input_not_json Closed.ext rest lim leaf hlim hleaf

/-! ### non-vacuity / the role of the limit (the closed model evaluated by the kernel)

  Towers beyond the real cap (4096) are too big to evaluate.  What can be evaluated is why the
  hypothesis on `lim` is there: a tower cut inside its opening brackets is a viable array prefix. -/

/-- `[[[[[[]]]]]]` examined in full: JSON; the same input examined with limit 3 (`[[[`): JSON too,
    as the viable prefix of a document — the check never sees the nesting behind the cut -/
example : ((Closed.detect (List.replicate 6 0x5B ++ List.replicate 6 0x5D) 0).chain.map (·.mime)) =
      [mimeJson, mimeTextPlain, mimeOctet] ∧
    ((Closed.detect (List.replicate 6 0x5B ++ List.replicate 6 0x5D) 3).chain.map (·.mime)) =
      [mimeJson, mimeTextPlain, mimeOctet] := by decide +kernel

/- **the default limit**: `mimetype.go` examines 3072 bytes unless `SetLimit` is called, and
   3072 < cap + 2 = 4098.  So with the default limit the cap is never reached by `Detect`: a tower
   of 5000 brackets (deeper than the cap) is cut to `[`³⁰⁷², a viable array prefix, and IS reported
   as application/json.  The theorems above therefore need `lim = 0 ∨ cap + 2 ≤ lim`; with the
   default limit the sentence of C16 holds only vacuously (no examined header exceeds the cap). -/
set_option maxRecDepth 1000000 in
example : ((Closed.detect (List.replicate 5000 0x5B ++ List.replicate 5000 0x5D) 3072).chain.map (·.mime)) =
      [mimeJson, mimeTextPlain, mimeOctet] := by decide +kernel

end Mime.C16
