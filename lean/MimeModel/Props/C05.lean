import MimeModel.Model.Reader
import MimeModel.Model.Detect
/-
  C05 — bytes, reader and file entry points agree; reads stop at the limit; errors surface.
  Quantified over every reader script: any chunking (including zero-length reads), data
  returned together with EOF, an injected sentinel error at any offset.
-/
namespace Mime.C05
open Mime Mime.Reader

theorem read_le (s : Script) (st : RState) (k : Nat) : (Reader.read s st k).1 ≤ k := by
  unfold Reader.read
  split
  · simp
  · split
    · simp
    · simp only [readD]; omega

/-- **reads stop at the limit**: `io.ReadFull` into a `limit`-sized buffer never takes
    more than `limit` bytes from the reader, for every script -/
theorem readFullLoop_le (s : Script) (l : Nat) : ∀ (fuel : Nat) (st : RState) (n : Nat), n ≤ l →
    (readFullLoop s fuel st n l).1 ≤ l := by
  intro fuel
  induction fuel with
  | zero => intro st n h; simpa [readFullLoop] using h
  | succ f ih =>
    intro st n h
    simp only [readFullLoop]
    split
    · exact h
    · rename_i hn
      have hk := read_le s st (l - n)
      split
      · rename_i d e st' heq
        have : d ≤ l - n := by rw [heq] at hk; exact hk
        simp; omega
      · rename_i d st' heq
        have : d ≤ l - n := by rw [heq] at hk; exact hk
        exact ih st' (n + d) (by omega)

theorem reader_consumes_le (s : Script) (lim : Nat) (h : lim ≠ 0) :
    (detectReaderInput s lim).2 ≤ lim := by
  unfold detectReaderInput
  have h0 : (lim == 0) = false := by simpa using h
  simp only [h0, Bool.false_eq_true, ↓reduceIte]
  have hle : (readFull s lim).1 ≤ lim := by
    unfold readFull
    have := readFullLoop_le s lim (s.chunks.length + s.content.length + 2) { pos := 0, chunks := s.chunks } 0 (Nat.zero_le _)
    generalize readFullLoop s _ _ 0 lim = r at this
    obtain ⟨n, e⟩ := r
    simp only
    split <;> simpa using this
  generalize readFull s lim = r at hle
  obtain ⟨n, e⟩ := r
  cases e with
  | none => simpa using hle
  | some e => cases e <;> simpa using hle

/-- one `Read` on an error-free script: delivers `d` bytes starting at `pos`, consumes one
    chunk entry (if any), and either makes progress or shortens the chunk list -/
theorem read_noerr (s : Script) (hs : s.errAt = none) (st : RState) (k : Nat) (hk : 0 < k)
    (hp : st.pos < s.content.length) :
    ∃ d st', (Reader.read s st k = (d, none, st') ∨ (Reader.read s st k = (d, some .eof, st') ∧ st'.pos = s.content.length)) ∧
      st'.pos = st.pos + d ∧ st'.pos ≤ s.content.length ∧ d ≤ k ∧
      st'.chunks.length + (s.content.length - st'.pos) < st.chunks.length + (s.content.length - st.pos) := by
  have hav : avail s st.pos = s.content.length - st.pos := by simp [avail, hs]
  have hd1 : readD s st k ≤ k := by simp only [readD]; omega
  have hd2 : readD s st k ≤ s.content.length - st.pos := by simp only [readD, hav]; omega
  have hmeas : (chunkOf st k).2.length + (s.content.length - (st.pos + readD s st k)) <
      st.chunks.length + (s.content.length - st.pos) := by
    cases hc : st.chunks with
    | nil =>
      have : readD s st k = min k (s.content.length - st.pos) := by simp [readD, chunkOf, hc, hav]
      simp only [chunkOf, hc, List.length_nil]; omega
    | cons c cs => simp only [chunkOf, hc, List.length_cons]; omega
  unfold Reader.read
  have h1 : (s.errAt == some st.pos) = false := by simp [hs]
  have h2 : ¬ (st.pos ≥ s.content.length) := by omega
  simp only [h1, Bool.false_eq_true, ↓reduceIte, h2]
  by_cases hc : (s.eofWithData && decide (readD s st k > 0) && (st.pos + readD s st k == s.content.length) &&
      (s.errAt != some (st.pos + readD s st k))) = true
  · refine ⟨readD s st k, { pos := st.pos + readD s st k, chunks := (chunkOf st k).2 }, Or.inr ⟨?_, ?_⟩, rfl, ?_, hd1, hmeas⟩
    · simp only [hc, ↓reduceIte]
    · simp only [Bool.and_eq_true, beq_iff_eq] at hc; exact hc.1.2
    · simp only; omega
  · refine ⟨readD s st k, { pos := st.pos + readD s st k, chunks := (chunkOf st k).2 }, Or.inl ?_, rfl, ?_, hd1, hmeas⟩
    · simp only [hc, Bool.false_eq_true, ↓reduceIte]
    · simp only; omega

/-- **any chunking delivers the header**: on an error-free script `io.ReadFull` ends
    with exactly `min limit len` bytes and no error other than (unexpected) EOF -/
theorem readFullLoop_noerr (s : Script) (hs : s.errAt = none) (l : Nat) :
    ∀ (fuel : Nat) (st : RState), st.pos ≤ s.content.length → st.pos ≤ l →
      st.chunks.length + (s.content.length - st.pos) + 2 ≤ fuel →
      (readFullLoop s fuel st st.pos l).1 = min l s.content.length ∧
      (readFullLoop s fuel st st.pos l).2 ≠ some .sentinel := by
  intro fuel
  induction fuel with
  | zero => intro st _ _ h; omega
  | succ f ih =>
    intro st hp hl hf
    simp only [readFullLoop]
    by_cases hn : st.pos ≥ l
    · simp only [hn, ↓reduceIte]
      exact ⟨by omega, by simp⟩
    · simp only [hn, ↓reduceIte]
      by_cases hend : st.pos ≥ s.content.length
      · -- at end of input: the reader reports EOF
        have hr : read s st (l - st.pos) = (0, some .eof, st) := by
          unfold Reader.read; simp [hs, hend]
        rw [hr]
        exact ⟨by simp; omega, by simp⟩
      · obtain ⟨d, st', hr, hpos, hle, hdk, hmeas⟩ := read_noerr s hs st (l - st.pos) (by omega) (by omega)
        cases hr with
        | inl h1 =>
          rw [h1]
          simp only
          have := ih st' hle (by omega) (by omega)
          rw [hpos] at this
          exact this
        | inr h2 =>
          rw [h2.1]
          simp only
          refine ⟨?_, by simp⟩
          have := h2.2
          omega

theorem readFull_noerr (s : Script) (hs : s.errAt = none) (l : Nat) :
    (readFull s l).1 = min l s.content.length ∧ (readFull s l).2 ≠ some .sentinel := by
  unfold readFull
  have := readFullLoop_noerr s hs l (s.chunks.length + s.content.length + 2) { pos := 0, chunks := s.chunks }
    (Nat.zero_le _) (Nat.zero_le _) (by simp)
  simp only at this
  generalize readFullLoop s _ _ 0 l = r at this
  obtain ⟨n, e⟩ := r
  simp only at this ⊢
  split
  · exact ⟨this.1, by simp⟩
  · exact this

theorem readAllLoop_noerr (s : Script) (hs : s.errAt = none) :
    ∀ (fuel : Nat) (st : RState), st.pos ≤ s.content.length →
      st.chunks.length + (s.content.length - st.pos) + 2 ≤ fuel →
      readAllLoop s fuel st st.pos = (s.content.length, none) := by
  intro fuel
  induction fuel with
  | zero => intro st _ h; omega
  | succ f ih =>
    intro st hp hf
    simp only [readAllLoop]
    by_cases hend : st.pos ≥ s.content.length
    · have hr : read s st (s.content.length + 1) = (0, some .eof, st) := by
        unfold Reader.read; simp [hs, hend]
      rw [hr]; simp; omega
    · obtain ⟨d, st', hr, hpos, hle, hdk, hmeas⟩ := read_noerr s hs st (s.content.length + 1) (by omega) (by omega)
      cases hr with
      | inl h1 =>
        rw [h1]
        simp only
        have := ih st' hle (by omega)
        rw [hpos] at this
        exact this
      | inr h2 =>
        rw [h2.1]
        simp only
        have := h2.2
        congr 1; omega

/-- **C05 (agreement)**: for every error-free reader script — any chunking, short and
    zero-length reads, data returned together with EOF — `DetectReader` hands `match`
    exactly the bytes `Detect` would examine, so both report the same hierarchy -/
theorem reader_agrees (s : Script) (hs : s.errAt = none) (lim : Nat) :
    (detectReaderInput s lim).1 = some (header s.content lim) := by
  unfold detectReaderInput header
  by_cases h0 : lim = 0
  · subst h0
    simp only [beq_self_eq_true, ↓reduceIte]
    have := readAllLoop_noerr s hs (s.chunks.length + s.content.length + 2) { pos := 0, chunks := s.chunks }
      (Nat.zero_le _) (by simp)
    unfold readAll
    simp only at this
    rw [this]
    simp
  · have hb : (lim == 0) = false := by simpa using h0
    simp only [hb, Bool.false_eq_true, ↓reduceIte, h0]
    have := readFull_noerr s hs lim
    generalize readFull s lim = r at this
    obtain ⟨n, e⟩ := r
    simp only at this
    obtain ⟨hn, he⟩ := this
    subst hn
    cases e with
    | none => simp [List.take_take]
    | some e =>
      cases e with
      | sentinel => exact absurd rfl he
      | eof => simp [List.take_take]

/-- same hierarchy through the reader as through the byte slice, for every tree and
    detector family -/
theorem reader_same_result (ext : Ext) (T : Tree Info) (s : Script) (hs : s.errAt = none) (lim : Nat) :
    ∃ h, (detectReaderInput s lim).1 = some h ∧
      (detect ext T h lim).chain = (detect ext T s.content lim).chain := by
  refine ⟨header s.content lim, reader_agrees s hs lim, ?_⟩
  simp [detect, header_idem]

/-- **C05 (errors surface)**: a sentinel error at offset `k` before the header is
    complete (`k < len` and, with a limit, `k < limit`) makes the very first failing
    `Read` end the loop with that error, after exactly `k` bytes -/
theorem read_at_error (s : Script) (k : Nat) (hs : s.errAt = some k) (st : RState) (hp : st.pos = k) (n : Nat) :
    read s st n = (0, some .sentinel, st) := by
  unfold Reader.read; simp [hs, hp]

/-- one `Read` strictly before the failure offset: no error yet, never past the offset -/
theorem read_before_err (s : Script) (k : Nat) (hs : s.errAt = some k) (hk : k < s.content.length)
    (st : RState) (req : Nat) (hreq : 0 < req) (hp : st.pos < k) :
    ∃ d st', Reader.read s st req = (d, none, st') ∧ st'.pos = st.pos + d ∧ st'.pos ≤ k ∧ d ≤ req ∧
      st'.chunks.length + (k - st'.pos) < st.chunks.length + (k - st.pos) := by
  have hav : avail s st.pos = k - st.pos := by
    simp only [avail, hs]
    rw [if_pos (by omega)]
    omega
  have hd1 : readD s st req ≤ req := by simp only [readD]; omega
  have hd2 : readD s st req ≤ k - st.pos := by simp only [readD, hav]; omega
  have hmeas : (chunkOf st req).2.length + (k - (st.pos + readD s st req)) < st.chunks.length + (k - st.pos) := by
    cases hc : st.chunks with
    | nil =>
      have : readD s st req = min req (k - st.pos) := by simp [readD, chunkOf, hc, hav]
      simp only [chunkOf, hc, List.length_nil]; omega
    | cons c cs => simp only [chunkOf, hc, List.length_cons]; omega
  unfold Reader.read
  have h1 : (s.errAt == some st.pos) = false := by
    rw [hs]; simp; omega
  have h2 : ¬ (st.pos ≥ s.content.length) := by omega
  simp only [h1, Bool.false_eq_true, ↓reduceIte, h2]
  have hc : (s.eofWithData && decide (readD s st req > 0) && (st.pos + readD s st req == s.content.length) &&
      (s.errAt != some (st.pos + readD s st req))) = false := by
    have : (st.pos + readD s st req == s.content.length) = false := by simp; omega
    simp [this]
  refine ⟨readD s st req, { pos := st.pos + readD s st req, chunks := (chunkOf st req).2 }, ?_, rfl, ?_, hd1, hmeas⟩
  · simp only [hc, Bool.false_eq_true, ↓reduceIte]
  · simp only; omega

theorem readFullLoop_err (s : Script) (k : Nat) (hs : s.errAt = some k) (hk : k < s.content.length) (l : Nat) (hl : k < l) :
    ∀ (fuel : Nat) (st : RState), st.pos ≤ k → st.chunks.length + (k - st.pos) + 2 ≤ fuel →
      readFullLoop s fuel st st.pos l = (k, some .sentinel) := by
  intro fuel
  induction fuel with
  | zero => intro st _ h; omega
  | succ f ih =>
    intro st hp hf
    simp only [readFullLoop]
    rw [if_neg (by omega)]
    by_cases he : st.pos = k
    · rw [read_at_error s k hs st he]
      simp [he]
    · obtain ⟨d, st', hr, hpos, hle, _, hmeas⟩ := read_before_err s k hs hk st (l - st.pos) (by omega) (by omega)
      rw [hr]
      simp only
      have := ih st' hle (by omega)
      rw [hpos] at this
      exact this

theorem readAllLoop_err (s : Script) (k : Nat) (hs : s.errAt = some k) (hk : k < s.content.length) :
    ∀ (fuel : Nat) (st : RState), st.pos ≤ k → st.chunks.length + (k - st.pos) + 2 ≤ fuel →
      readAllLoop s fuel st st.pos = (k, some .sentinel) := by
  intro fuel
  induction fuel with
  | zero => intro st _ h; omega
  | succ f ih =>
    intro st hp hf
    simp only [readAllLoop]
    by_cases he : st.pos = k
    · rw [read_at_error s k hs st he]
      simp [he]
    · obtain ⟨d, st', hr, hpos, hle, _, hmeas⟩ := read_before_err s k hs hk st (s.content.length + 1) (by omega) (by omega)
      rw [hr]
      simp only
      have := ih st' hle (by omega)
      rw [hpos] at this
      exact this

/-- **C05 (errors surface)**: if the reader fails with an error other than end of input at
    offset `k`, before the end of the data and before the header is complete (no limit, or
    `k < limit`), then `DetectReader` returns `application/octet-stream` with that error
    (`none`), having consumed exactly the `k` bytes delivered before the failure — for every
    chunking of those bytes -/
theorem reader_error (s : Script) (k : Nat) (hs : s.errAt = some k) (hk : k < s.content.length) (lim : Nat)
    (hl : lim = 0 ∨ k < lim) : detectReaderInput s lim = (none, k) := by
  unfold detectReaderInput
  by_cases h0 : lim = 0
  · subst h0
    simp only [beq_self_eq_true, ↓reduceIte]
    have := readAllLoop_err s k hs hk (s.chunks.length + s.content.length + 2) { pos := 0, chunks := s.chunks }
      (Nat.zero_le _) (by simp; omega)
    unfold readAll
    simp only at this
    rw [this]
  · have hb : (lim == 0) = false := by simpa using h0
    have hkl : k < lim := by rcases hl with h | h; exact absurd h h0; exact h
    simp only [hb, Bool.false_eq_true, ↓reduceIte]
    have := readFullLoop_err s k hs hk lim hkl (s.chunks.length + s.content.length + 2) { pos := 0, chunks := s.chunks }
      (Nat.zero_le _) (by simp; omega)
    unfold readFull
    simp only at this
    rw [this]
    simp only
    rw [if_neg (by omega)]

/- non-vacuity: a script with zero-length reads, one-byte reads and EOF-with-data -/
example : detectReaderInput { content := [1, 2, 3, 4, 5], chunks := [0, 1, 0, 2], eofWithData := true, errAt := none } 4
    = (some [1, 2, 3, 4], 4) := by decide
example : detectReaderInput { content := [1, 2, 3, 4, 5], chunks := [2], eofWithData := false, errAt := some 3 } 0
    = (none, 3) := by decide

end Mime.C05
