import MimeModel.Props.C06
/-
  C06, "each detection returns a result that a sequential execution would have returned for the
  set of extensions in force at some instant during the call": in the protocol model a thread
  that holds the read lock excludes every tree write, so all the tree reads of one detection (the
  whole walk happens between `RLock` and the deferred `RUnlock`: `api_events`) see one and the same
  state of the tree — the state at the instant the lock was acquired, an instant during the call.
-/
namespace Mime.C06
open Mime Mime.Sync

theorem cntR_pos_of_mem (ts : List Thread) (t : Thread) (h : t ∈ ts) (hr : t.holdsR = true) : 0 < cntR ts := by
  unfold cntR
  exact List.length_pos_iff.mpr (List.ne_nil_of_mem (List.mem_filter.mpr ⟨h, hr⟩))

theorem cntW_pos_of_mem (ts : List Thread) (t : Thread) (h : t ∈ ts) (hw : t.holdsW = true) : 0 < cntW ts := by
  unfold cntW
  exact List.length_pos_iff.mpr (List.ne_nil_of_mem (List.mem_filter.mpr ⟨h, hw⟩))

/-- **snapshot**: in every reachable state, if some thread holds the read lock then no thread's
    next step is a tree write (whoever is about to write must hold the write lock, and the write
    lock is never held together with a read lock) -/
theorem reader_excludes_writes (σ : State) (hI : Inv σ) (i j : Nat) (a b : Thread)
    (ha : σ.threads[i]? = some a) (hb : σ.threads[j]? = some b) (hr : a.holdsR = true)
    (x : Step) (xs : List Step) (hp : b.prog = x :: xs) : isTreeWrite x = false := by
  cases x with
  | treeWrite =>
    exfalso
    have hamem : a ∈ σ.threads := List.mem_of_getElem? ha
    have hbmem : b ∈ σ.threads := List.mem_of_getElem? hb
    have hokb := hI.ok b hbmem
    rw [hp] at hokb
    simp only [okProg, Bool.and_eq_true] at hokb
    have hw : b.holdsW = true := hokb.1
    have hcw : cntW σ.threads = 1 := by
      have := cntW_pos_of_mem σ.threads b hbmem hw
      have := hI.atMostOne
      omega
    have hwr : σ.writer = true := hI.writer.mpr hcw
    have h0 := hI.excl hwr
    have := cntR_pos_of_mem σ.threads a hamem hr
    rw [← hI.readers] at this
    omega
  | _ => rfl

/-- the same along any schedule from the initial state of well-locked programs -/
theorem reader_excludes_writes_reachable (progs : List (List Step)) (h : ∀ p ∈ progs, okProg p false false = true)
    (sched : List Nat) (σ' : State)
    (hr : run { readers := 0, writer := false, threads := progs.map (fun p => Thread.mk p false false) } sched = some σ')
    (i j : Nat) (a b : Thread) (ha : σ'.threads[i]? = some a) (hb : σ'.threads[j]? = some b) (hra : a.holdsR = true)
    (x : Step) (xs : List Step) (hp : b.prog = x :: xs) : isTreeWrite x = false :=
  reader_excludes_writes σ' (inv_run _ σ' sched (inv_init progs h) hr) i j a b ha hb hra x xs hp

/-- regenerated: the whole tree walk of `Detect` / `DetectReader` / `Lookup` lies between acquiring the
    read lock and the deferred release (nothing touches the tree outside it) -/
theorem walk_inside_read_lock :
    (["Detect", "DetectReader", "Lookup"].all fun n =>
      match Gen.Sync.progs.lookup n with
      | some evs =>
        let steps := compile evs
        -- after dropping everything up to and including the rlock, and everything from the runlock on,
        -- the tree reads are all there are
        (steps.filter isTreeAccess).length == ((steps.dropWhile (· != .rlock)).takeWhile (· != .runlock) |>.filter isTreeAccess).length &&
        steps.contains .rlock && steps.getLast? == some .runlock
      | none => false) = true := by decide

end Mime.C06
