import MimeModel.Props.C12_Html
import MimeModel.Props.C08
import MimeModel.Lemmas.WalkPath
import MimeModel.Model.Closed
import MimeModel.Props.C01
import MimeModel.Lemmas.HtmlUnescape
/-
  C12 through `Detect`, with the closed model (no oracle): a document `<html> P <meta charset=qLq> rest`
  that contains no binary-data byte and is examined in full is reported as `text/html` with the
  charset parameter `L` in lower case (utf-8 for utf-16 labels) — unless one of the root formats
  consulted before text/plain accepts it.
-/
namespace Mime.C12
open Mime Mime.Charset Mime.HtmlTok Mime.HtmlTokLemmas Mime.Tree Mime.WalkPath Mime.Cust

abbrev isNamed := C08.isNamed

def kHtml : Bytes := [0x68, 0x74, 0x6D, 0x6C]
def sigHTML : Bytes := [60, 72, 84, 77, 76]          -- "<HTML", as in the regenerated table

def htmlNode : Tree Info := (C08.textNode.children.find? (isNamed "html")).getD Gen.builtin
def htmlPath : List (Tree Info → Bool) := [isNamed "text", isNamed "html"]

theorem html_found : C08.textNode.children.find? (isNamed "html") = some htmlNode := by
  unfold htmlNode
  have : (C08.textNode.children.find? (isNamed "html")).isSome = true := by decide
  cases h : C08.textNode.children.find? (isNamed "html") with
  | none => rw [h] at this; cases this
  | some c => rfl

/-- regenerated: the html node is the first child of text/plain, a leaf, of type text/html, and its
    check is the `markup` combinator over a table that contains `<HTML` -/
theorem html_node_facts :
    (C08.textNode.children.takeWhile (fun x => !isNamed "html" x)) = [] ∧ htmlNode.children = [] ∧
    htmlNode.info.mime = mimeTextHtml ∧
    (∃ sigs, htmlNode.info.det = .markup sigs ∧ sigHTML ∈ sigs) := by
  refine ⟨by decide, by decide, by decide, ?_⟩
  have hd : htmlNode.info.det = Gen.d_HTML := by decide
  exact ⟨_, hd, by decide⟩

theorem lower_byte_cases (c r : Nat) (hr : 0x61 ≤ r ∧ r ≤ 0x7A)
    (h : (if (0x41 ≤ c && c ≤ 0x5A) = true then c + 0x20 else c) = r) : c = r ∨ c + 0x20 = r := by
  split at h
  · exact Or.inr h
  · exact Or.inl h

/-- the case-insensitive comparison accepts every letter-case variant of `html` after `<` -/
theorem ciMatch_html (nm tail : Bytes) (h : lowerASCII nm = kHtml) :
    ciMatch sigHTML (0x3C :: nm ++ tail) = some true := by
  have hlen : nm.length = 4 := by
    have := congrArg List.length h
    simpa [lowerASCII, kHtml] using this
  unfold lowerASCII kHtml at h
  match nm, hlen, h with
  | [a, b, c, d], _, h =>
    simp only [List.map_cons, List.map_nil, List.cons.injEq, and_true] at h
    obtain ⟨h1, h2, h3, h4⟩ := h
    have e1 := lower_byte_cases a 0x68 (by omega) h1
    have e2 := lower_byte_cases b 0x74 (by omega) h2
    have e3 := lower_byte_cases c 0x6D (by omega) h3
    have e4 := lower_byte_cases d 0x6C (by omega) h4
    have f1 : a = 0x68 ∨ a = 0x48 := by omega
    have f2 : b = 0x74 ∨ b = 0x54 := by omega
    have f3 : c = 0x6D ∨ c = 0x4D := by omega
    have f4 : d = 0x6C ∨ d = 0x4C := by omega
    rcases f1 with rfl | rfl <;> rcases f2 with rfl | rfl <;> rcases f3 with rfl | rfl <;> rcases f4 with rfl | rfl <;>
      simp [sigHTML, ciMatch]

theorem anyG_true {α} (f : α → Option Bool) (l : List α) (htot : ∀ a ∈ l, ∃ v, f a = some v)
    (a : α) (ha : a ∈ l) (hf : f a = some true) : anyG f l = some true := by
  induction l with
  | nil => cases ha
  | cons x xs ih =>
    simp only [anyG]
    obtain ⟨v, hv⟩ := htot x (by simp)
    rw [hv]
    cases v with
    | true => rfl
    | false =>
      simp only
      rcases List.mem_cons.mp ha with rfl | hm
      · rw [hf] at hv; cases hv
      · exact ih (fun y hy => htot y (by simp [hy])) hm

/-- the `HTML` check accepts a document that starts with `<html>` or `<html ` in any letter case -/
theorem html_accepts (ext : Ext) (nm tail : Bytes) (c : Nat) (lim : Nat)
    (hnm : lowerASCII nm = kHtml) (hc : c = 0x3E ∨ c = 0x20) :
    accepts ext (0x3C :: nm ++ c :: tail) lim htmlNode.info = true := by
  obtain ⟨_, _, _, sigs, hdet, hmem⟩ := html_node_facts
  have hlen : nm.length = 4 := by
    have := congrArg List.length hnm
    simpa [lowerASCII, kHtml] using this
  unfold accepts Cust.detEval
  rw [hdet]
  simp only [Det.evalWith]
  have hbom : hasPrefix (0x3C :: nm ++ c :: tail) utf8BOM = false := by simp [hasPrefix, utf8BOM, List.isPrefixOf]
  have htrim : trimLWS (0x3C :: nm ++ c :: tail) = 0x3C :: nm ++ c :: tail := by
    simp [trimLWS, isWS]
  simp only [hbom, Bool.false_eq_true, ↓reduceIte, htrim, List.isEmpty_cons]
  have hone : markupCheck sigHTML (0x3C :: nm ++ c :: tail) = some true := by
    unfold markupCheck
    have hl : ¬ (0x3C :: nm ++ c :: tail).length < sigHTML.length + 1 := by
      simp [sigHTML, hlen]; omega
    rw [if_neg hl]
    have := ciMatch_html nm (c :: tail) hnm
    simp only [List.cons_append] at this ⊢
    rw [this]
    have hg : getB (0x3C :: (nm ++ c :: tail)) sigHTML.length = some c := by
      match nm, hlen with
      | [a, b, d, e], _ => simp [getB, sigHTML]
    rw [hg]
    rcases hc with rfl | rfl <;> rfl
  rw [anyG_true _ sigs (fun a _ => C01.markupCheck_total a _) sigHTML hmem hone]
  rfl

/-- **C12 through `Detect`** (closed model): `<html> P <meta charset=qLq> rest`, free of binary-data
    bytes, examined in full (character references anywhere outside the label are decoded by the tokenizer
    model and do not reach the answer): the result is `text/html` with
    `charset = L` lower-cased (utf-8 for utf-16 labels), unless a root format in front of
    text/plain accepts the document -/
theorem html_charset_detected (htmlNm P nm cs : Bytes) (form : ValForm) (L rest : Bytes) (lim : Nat)
    (hh : lowerASCII htmlNm = kHtml) (hP : Prologue P)
    (hnm : lowerASCII nm = kMeta) (hcs : lowerASCII cs = kwCharset)
    (hL : L ≠ []) (htok : ∀ c ∈ L, tokenChar c = true)
    (htext : Cust.text (tagText htmlNm [] [] ++ P ++ tagText nm [0x20] [charsetAttr cs form L []] ++ rest) = true)
    (hwhole : lim = 0 ∨ (tagText htmlNm [] [] ++ P ++ tagText nm [0x20] [charsetAttr cs form L []] ++ rest).length < lim) :
    let doc := tagText htmlNm [] [] ++ P ++ tagText nm [0x20] [charsetAttr cs form L []] ++ rest
    ((Mime.detect Closed.ext Gen.builtin doc lim).chain.head? = some htmlNode.info ∧
      (Mime.detect Closed.ext Gen.builtin doc lim).charset = norm L) ∨
    (∃ d ∈ rivals htmlPath Gen.builtin, accepts Closed.ext doc lim d.info = true) := by
  intro doc
  have hwhole' : lim = 0 ∨ doc.length < lim := hwhole
  have hhdr : header doc lim = doc := by
    unfold header
    rcases hwhole' with h | h
    · simp [h]
    · split
      · rfl
      · exact List.take_of_length_le (by omega)
  -- the document as the tokenizer theorem wants it
  have hletters := letters_of_lower htmlNm kHtml hh (by decide)
  have hne : htmlNm ≠ [] := by intro e; subst e; simp [lowerASCII, kHtml] at hh
  have hP' : Prologue (tagText htmlNm [] [] ++ P) :=
    Prologue.startTag htmlNm [] [] P hne hletters (by rw [hh]; decide) (by rw [hh]; decide)
      (by intro x hx; cases hx) (fun _ => rfl) (by simp [attrsWf]) hP
  have hdocShape : doc = 0x3C :: htmlNm ++ 0x3E :: (P ++ tagText nm [0x20] [charsetAttr cs form L []] ++ rest) := by
    simp [doc, tagText, attrsText]
  have hbom : fromBOM doc = csNone := by rw [hdocShape]; exact fromBOM_lt _
  have hb := Mime.HtmlUnescapeLemmas.charset_value_unescaped_simple (tagText htmlNm [] [] ++ P) nm cs form L rest hP' hnm hcs hL htok
    (by simpa [doc, List.append_assoc] using hbom)
  have hb' : fromHTMLBytesFull doc = norm L := by simpa [doc, List.append_assoc] using hb
  -- acceptance along the path root → text → html
  have hacc_text : accepts Closed.ext doc lim C08.textNode.info = true := by
    rw [C08.accepts_text Closed.ext _ lim _ C08.node_dets.1]; exact htext
  have hacc_html : accepts Closed.ext doc lim htmlNode.info = true := by
    rw [hdocShape]; exact html_accepts Closed.ext htmlNm _ 0x3E lim hh (Or.inl rfl)
  have hd : descend htmlPath Gen.builtin = some htmlNode := by
    simp only [htmlPath, descend, C08.text_found, html_found]
  have hp : pathNodes htmlPath Gen.builtin = [C08.textNode, htmlNode] := by
    simp only [htmlPath, pathNodes, C08.text_found, html_found]
  rcases walk_ends (accepts Closed.ext doc lim) htmlPath Gen.builtin htmlNode hd
      (by rw [hp]; intro m hm; simp at hm; rcases hm with rfl | rfl <;> assumption)
      (by rw [html_node_facts.2.1]; intro c hc; cases hc) with h | h
  · left
    have hleaf : (Mime.detect Closed.ext Gen.builtin doc lim).chain.head? = some htmlNode.info := by
      simp only [Mime.detect, hhdr, List.head?_reverse]; exact h
    refine ⟨hleaf, ?_⟩
    -- the charset parameter of the leaf
    have hchain : ∃ tl, (Mime.detect Closed.ext Gen.builtin doc lim).chain = htmlNode.info :: tl := by
      cases hc : (Mime.detect Closed.ext Gen.builtin doc lim).chain with
      | nil => rw [hc] at hleaf; cases hleaf
      | cons x xs => rw [hc] at hleaf; simp at hleaf; exact ⟨xs, by rw [hleaf]⟩
    obtain ⟨tl, htl⟩ := hchain
    have hcs' : (Mime.detect Closed.ext Gen.builtin doc lim).charset = charsetFor Closed.ext htmlNode.info.mime doc := by
      have : (Mime.detect Closed.ext Gen.builtin doc lim).charset =
          (match (Mime.detect Closed.ext Gen.builtin doc lim).chain with
           | [] => []
           | leaf :: _ => charsetFor Closed.ext leaf.mime (header doc lim)) := rfl
      rw [this, htl, hhdr]
    rw [hcs', html_node_facts.2.2.1]
    unfold charsetFor
    have hne1 : (mimeTextHtml == mimeTextPlain) = false := by decide
    simp only [hne1, Bool.false_eq_true, ↓reduceIte, beq_self_eq_true]
    exact hb'
  · exact Or.inr (by simpa [hhdr] using h)

end Mime.C12
