import MimeModel.Props.C03
/-
  C14 — extensions take priority, stay inside their parent, disturb nothing else.
  Generic in the tree, in the verdict function and in the extension nodes.
  `Tree.extendAt e path T` is the model of `Extend` on the node reached by `path`.
-/
namespace Mime.C14
open Mime Mime.Tree
variable {α : Type}

/-- **shape**: `Extend` on a node puts the new sub-format in front of the existing ones
    and changes nothing else of that node -/
theorem extend_shape_here (e : Tree α) (a : α) (cs : List (Tree α)) :
    extendAt e [] (.node a cs) = some (.node a (e :: cs)) := by simp [extendAt]

/-- `Extend` deeper in the tree rewrites exactly one child and keeps the node's payload
    and the order of its children -/
theorem extend_shape_below (e : Tree α) (a : α) (i : Nat) (is : List Nat) (cs : List (Tree α)) (T' : Tree α)
    (h : extendAt e (i :: is) (.node a cs) = some T') :
    ∃ cs', T' = .node a cs' ∧ extendAtList e i is cs = some cs' ∧ cs'.length = cs.length := by
  simp only [extendAt, Option.map_eq_some_iff] at h
  obtain ⟨cs', h1, h2⟩ := h
  refine ⟨cs', h2.symm, h1, ?_⟩
  clear h2
  induction cs generalizing i cs' with
  | nil => simp [extendAtList] at h1
  | cons c cs ih =>
    cases i with
    | zero =>
      simp only [extendAtList, Option.map_eq_some_iff] at h1
      obtain ⟨c', _, hc⟩ := h1
      subst hc; simp
    | succ i =>
      simp only [extendAtList, Option.map_eq_some_iff] at h1
      obtain ⟨r, hr, hc⟩ := h1
      subst hc; simp [ih i r hr]

theorem extend_info :
    (∀ (is : List Nat) (e T T' : Tree α), extendAt e is T = some T' → T'.info = T.info) := by
  intro is e T T' h
  cases T with
  | node a cs =>
    cases is with
    | nil => simp [extendAt] at h; subst h; rfl
    | cons i is =>
      simp only [extendAt, Option.map_eq_some_iff] at h
      obtain ⟨cs', _, h2⟩ := h
      subst h2; rfl

/-- **non-interference (one call)**: an extension whose detector rejects the header
    changes nothing, wherever it was attached -/
theorem extend_miss (acc : α → Bool) (e : Tree α) (he : acc e.info = false) :
    ∀ (is : List Nat) (T T' : Tree α), extendAt e is T = some T' → walk acc T' = walk acc T := by
  intro is
  induction is with
  | nil =>
    intro T T' h
    cases T with
    | node a cs =>
      simp [extendAt] at h; subst h
      simp [walk, walkList, he]
  | cons i is ih =>
    intro T T' h
    cases T with
    | node a cs =>
      simp only [extendAt, Option.map_eq_some_iff] at h
      obtain ⟨cs', h1, h2⟩ := h
      subst h2
      simp only [walk]
      congr 1
      clear a
      induction cs generalizing i cs' with
      | nil => simp [extendAtList] at h1
      | cons c cs ihc =>
        cases i with
        | zero =>
          simp only [extendAtList, Option.map_eq_some_iff] at h1
          obtain ⟨c', hc', hcs⟩ := h1
          subst hcs
          simp only [walkList, extend_info is e c c' hc', ih c c' hc']
        | succ i =>
          simp only [extendAtList, Option.map_eq_some_iff] at h1
          obtain ⟨r, hr, hcs⟩ := h1
          subst hcs
          simp only [walkList, ihc i r hr]

/-- a sequence of Extend calls: (path, new leaf node) pairs applied left to right -/
def applyAll : List (List Nat × α) → Tree α → Option (Tree α)
  | [], T => some T
  | (is, a) :: ops, T =>
    match extendAt (.node a []) is T with
    | none => none
    | some T' => applyAll ops T'

/-- **non-interference (any history)**: after any sequence of Extend calls — on the root,
    on built-ins at any depth, on earlier extensions — an input that every extension
    detector rejects is classified exactly as before the calls -/
theorem extend_miss_all (acc : α → Bool) (ops : List (List Nat × α)) (T T' : Tree α)
    (hrej : ∀ op ∈ ops, acc op.2 = false) (h : applyAll ops T = some T') :
    walk acc T' = walk acc T := by
  induction ops generalizing T with
  | nil => simp [applyAll] at h; subst h; rfl
  | cons op ops ih =>
    obtain ⟨is, a⟩ := op
    simp only [applyAll] at h
    cases h1 : extendAt (.node a []) is T with
    | none => simp [h1] at h
    | some T1 =>
      simp only [h1] at h
      rw [ih T1 (fun o ho => hrej o (List.mem_cons_of_mem _ ho)) h]
      exact extend_miss acc (.node a []) (by simpa [info] using hrej (is, a) (List.mem_cons_self ..)) is T T1 h1

/-- `is` is the path actually walked: at every level the named child is the first one,
    in order, whose detector accepts -/
def OnWalk (acc : α → Bool) : List Nat → Tree α → Prop
  | [], _ => True
  | i :: is, .node _ cs =>
    ∃ pre c post, cs = pre ++ c :: post ∧ pre.length = i ∧ (∀ d ∈ pre, acc d.info = false) ∧
      acc c.info = true ∧ OnWalk acc is c

theorem extendAtList_at (e : Tree α) (pre : List (Tree α)) (c : Tree α) (post : List (Tree α)) (is : List Nat) (cs' : List (Tree α))
    (h : extendAtList e pre.length is (pre ++ c :: post) = some cs') :
    ∃ c', extendAt e is c = some c' ∧ cs' = pre ++ c' :: post := by
  induction pre generalizing cs' with
  | nil =>
    simp only [List.length_nil, List.nil_append, extendAtList, Option.map_eq_some_iff] at h
    obtain ⟨c', h1, h2⟩ := h
    exact ⟨c', h1, by simp [h2]⟩
  | cons d ds ih =>
    simp only [List.length_cons, List.cons_append, extendAtList, Option.map_eq_some_iff] at h
    obtain ⟨r, h1, h2⟩ := h
    obtain ⟨c', hc, hr⟩ := ih r h1
    exact ⟨c', hc, by simp [← h2, hr]⟩

/-- **priority / hit**: if the walk reaches the node an extension was attached to and
    the extension's detector accepts the header, the result is classified under the
    extension — in front of every older sibling — with the parent's chain as ancestors:
    the walked path of the extended tree is the old path down to the extended node
    (`anc`, a prefix of the old path), followed by the walk inside the extension -/
theorem extend_hit_path (acc : α → Bool) (e : Tree α) (he : acc e.info = true) :
    ∀ (is : List Nat) (T T' : Tree α), OnWalk acc is T → extendAt e is T = some T' →
      ∃ anc : List α, anc.length = is.length + 1 ∧ anc.head? = some T.info ∧
        walk acc T' = anc ++ walk acc e ∧ anc <+: walk acc T := by
  intro is
  induction is with
  | nil =>
    intro T T' _ h
    cases T with
    | node a cs =>
      simp [extendAt] at h; subst h
      refine ⟨[a], rfl, rfl, ?_, ?_⟩
      · simp [walk, walkList, he]
      · simp [walk]
  | cons i is ih =>
    intro T T' hw h
    cases T with
    | node a cs =>
      simp only [OnWalk] at hw
      obtain ⟨pre, c, post, hcs, hlen, hpre, hc, hrest⟩ := hw
      subst hcs
      simp only [extendAt, Option.map_eq_some_iff] at h
      obtain ⟨cs', h1, h2⟩ := h
      subst h2
      rw [← hlen] at h1
      obtain ⟨c', hc', hcs'⟩ := extendAtList_at e pre c post is cs' h1
      subst hcs'
      obtain ⟨anc, hal, hah, hwk, hpf⟩ := ih c c' hrest hc'
      have hinfo : c'.info = c.info := extend_info is e c c' hc'
      refine ⟨a :: anc, by simp [hal], rfl, ?_, ?_⟩
      · rw [walk_eq, C03.walkList_skip acc pre c' post hpre (by rw [hinfo]; exact hc), hwk]; rfl
      · rw [walk_eq, C03.walkList_skip acc pre c post hpre hc]
        exact List.cons_prefix_cons.mpr ⟨rfl, hpf⟩

/-- **lookup keeps old names**: attaching a node that does not carry the looked-up name
    leaves every lookup result unchanged (same node, same ancestors) -/
theorem lookup_old (p : α → Bool) (e : Tree α) (he : lookup p e = none) :
    ∀ (is : List Nat) (T T' : Tree α), extendAt e is T = some T' → lookup p T' = lookup p T := by
  intro is
  induction is with
  | nil =>
    intro T T' h
    cases T with
    | node a cs =>
      simp [extendAt] at h; subst h
      simp [lookup, lookupList, he]
  | cons i is ih =>
    intro T T' h
    cases T with
    | node a cs =>
      simp only [extendAt, Option.map_eq_some_iff] at h
      obtain ⟨cs', h1, h2⟩ := h
      subst h2
      simp only [lookup]
      have : lookupList p cs' = lookupList p cs := by
        clear a
        induction cs generalizing i cs' with
        | nil => simp [extendAtList] at h1
        | cons c cs ihc =>
          cases i with
          | zero =>
            simp only [extendAtList, Option.map_eq_some_iff] at h1
            obtain ⟨c', hc', hcs⟩ := h1
            subst hcs
            simp only [lookupList, ih c c' hc']
          | succ i =>
            simp only [extendAtList, Option.map_eq_some_iff] at h1
            obtain ⟨r, hr, hcs⟩ := h1
            subst hcs
            simp only [lookupList, ihc i r hr]
      rw [this]

/-- **lookup finds the extension**: a name carried by no node of the old tree resolves,
    after `Extend`, to the new node — whose parent (the entry before it in the returned
    ancestor list) is the node it was registered on -/
theorem lookup_new_here (p : α → Bool) (a b : α) (cs : List (Tree α))
    (hfresh : lookup p (.node a cs) = none) (hb : p b = true) :
    lookup p (.node a (.node b [] :: cs)) = some [a, b] := by
  have ha : p a = false := by
    cases hp : p a with
    | false => rfl
    | true => simp [lookup, hp] at hfresh
  simp [lookup, lookupList, ha, hb]

/- non-vacuity -/
example : extendAt (.node 9 []) [1] (.node 1 [.node 2 [], .node 4 [.node 6 []]])
    = some (.node 1 [.node 2 [], .node 4 [.node 9 [], .node 6 []]]) := by simp [extendAt, extendAtList]
example : OnWalk (fun n => n % 2 == 0) [1] (.node 1 [.node 3 [], .node 4 [.node 6 []]]) := by
  refine ⟨[.node 3 []], .node 4 [.node 6 []], [], rfl, rfl, ?_, rfl, trivial⟩
  intro d hd; simp at hd; subst hd; rfl

end Mime.C14
