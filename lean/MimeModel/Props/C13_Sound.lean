import MimeModel.Props.C13
import MimeModel.Props.C13_Detect
import MimeModel.Lemmas.DetectSound
import MimeModel.Model.Closed
/-
  C13, converse clauses, through `Detect`: "CSV/TSV is reported only if all complete non-comment
  lines have the same number (at least two) of fields, and NDJSON only if there are at least two
  lines, every complete line is blank or a complete JSON value, and at least one is an object or
  array."

  `Props/C13.lean` has these for the checks (`ndjson_sound`, `sv_iff`, `sv_converse_quoteFree`);
  `Props/C13_Detect.lean` is the forward direction through `Detect`.  Here the converse is stated
  about what a caller of `mimetype.Detect` gets: whenever the reported leaf of
  `detect ext Gen.builtin x lim` has type application/x-ndjson, text/csv or
  text/tab-separated-values, the corresponding check said yes on the examined header, with the
  limit `Detect` was run with — hence the conclusions of the check-level theorems hold of
  `header x lim`, `lim`.  For every behaviour of the external parameters `ext`.

  Route: leaf ∈ tree (`chain_mem_tree`) of type X ⇒ (regenerated fact `line_nodes`: exactly one
  node carries each of the three types, with detector NdJSON / Csv / Tsv; the root carries none)
  its detector is that check and it is not the root ⇒ it accepted the header (`leaf_accepted`).
-/
namespace Mime.C13
open Mime Mime.Cust Mime.Spec Mime.Tree Mime.Csv Mime.CsvLemmas Mime.DetectSound
open Mime.C13Base (lines LineOK ContainerLine)

def mimeNdjson : Bytes :=
  [97, 112, 112, 108, 105, 99, 97, 116, 105, 111, 110, 47, 120, 45, 110, 100, 106, 115, 111, 110]
def mimeCsv : Bytes := [116, 101, 120, 116, 47, 99, 115, 118]
def mimeTsv : Bytes :=
  [116, 101, 120, 116, 47, 116, 97, 98, 45, 115, 101, 112, 97, 114, 97, 116, 101, 100, 45, 118, 97, 108, 117, 101, 115]

example : mimeNdjson = ofString "application/x-ndjson" ∧ mimeCsv = ofString "text/csv" ∧
    mimeTsv = ofString "text/tab-separated-values" := by decide +kernel

/-- **regenerated fact** about tree.go: each of the three types is carried by exactly one node —
    `ndJSON` checked by NdJSON, `csv` by Csv, `tsv` by Tsv —; stated also in the form used below
    (every node of the type has that detector); the root carries none of them -/
theorem line_nodes :
    (Gen.builtin.flatten.filter (fun i => i.mime == mimeNdjson)).map (fun i => (i.name, i.det)) =
      [("ndJSON", .custom .ndjson)] ∧
    (Gen.builtin.flatten.filter (fun i => i.mime == mimeCsv)).map (fun i => (i.name, i.det)) =
      [("csv", .custom .csv)] ∧
    (Gen.builtin.flatten.filter (fun i => i.mime == mimeTsv)).map (fun i => (i.name, i.det)) =
      [("tsv", .custom .tsv)] ∧
    Gen.builtin.flatten.all (fun i => !(i.mime == mimeNdjson) || decide (i.det = .custom .ndjson)) = true ∧
    Gen.builtin.flatten.all (fun i => !(i.mime == mimeCsv) || decide (i.det = .custom .csv)) = true ∧
    Gen.builtin.flatten.all (fun i => !(i.mime == mimeTsv) || decide (i.det = .custom .tsv)) = true ∧
    (Gen.builtin.info.mime == mimeNdjson) = false ∧ (Gen.builtin.info.mime == mimeCsv) = false ∧
    (Gen.builtin.info.mime == mimeTsv) = false := by
  refine ⟨by decide, by decide, by decide, by decide, by decide, by decide, by decide, by decide, by decide⟩

/-- the generic step: a leaf whose type `m` is carried only by nodes with the custom detector `c`,
    and not by the root, was accepted by the model `f` of `c` on the examined header -/
theorem leaf_custom_accepted (ext : Ext) (x : Bytes) (lim : Nat) (leaf : Info) (m : Bytes) (c : Custom)
    (f : Bytes → Nat → Option Bool)
    (hleaf : (detect ext Gen.builtin x lim).chain.head? = some leaf) (hm : leaf.mime = m)
    (hall : Gen.builtin.flatten.all (fun i => !(i.mime == m) || decide (i.det = .custom c)) = true)
    (hroot : (Gen.builtin.info.mime == m) = false) (hf : Cust.customModel c = some f) :
    f (header x lim) lim = some true := by
  obtain ⟨hmem, hcase⟩ := leaf_cases ext Gen.builtin x lim leaf hleaf
  rw [List.all_eq_true] at hall
  have hdet : leaf.det = .custom c := by
    have := hall leaf hmem
    simpa [hm] using this
  rcases hcase with he | hacc
  · rw [he] at hm; rw [hm] at hroot; simp at hroot
  · rw [accepts_custom ext _ lim leaf c f hdet hf] at hacc
    simpa using hacc

/-! ### NDJSON -/

/-- a leaf of type application/x-ndjson ⇒ `NdJSON` said yes on the examined header -/
theorem ndjson_leaf_accepted (ext : Ext) (x : Bytes) (lim : Nat) (leaf : Info)
    (hleaf : (detect ext Gen.builtin x lim).chain.head? = some leaf) (hm : leaf.mime = mimeNdjson) :
    ndjson (header x lim) lim = true := by
  have := leaf_custom_accepted ext x lim leaf mimeNdjson .ndjson _ hleaf hm line_nodes.2.2.2.1
    line_nodes.2.2.2.2.2.2.1 rfl
  simpa using this

/-- **C13 (NDJSON) through `Detect`, converse**: if the reported leaf has type
    application/x-ndjson then among the complete lines of the examined header (everything when the
    whole input was examined; up to the last line feed when it was cut at the limit) there are at
    least two, each is blank or one complete JSON value of the relaxed grammar with only white
    space around it, and at least one is an object or array.  For every `ext`, input, limit. -/
theorem ndjson_verdict_sound (ext : Ext) (x : Bytes) (lim : Nat) (leaf : Info)
    (hleaf : (detect ext Gen.builtin x lim).chain.head? = some leaf) (hm : leaf.mime = mimeNdjson) :
    let ls := lines (dropLastLine (header x lim) lim)
    2 ≤ ls.length ∧ (∀ l ∈ ls, LineOK l) ∧ ∃ l ∈ ls, ContainerLine l :=
  ndjson_sound (header x lim) lim (ndjson_leaf_accepted ext x lim leaf hleaf hm)

/-! ### CSV / TSV -/

/-- what `sv` saying yes gives: the csv reader's records of the complete lines are at least two,
    all with the same number k ≥ 2 of fields; and when the header has no double quote these records
    are the non-empty non-comment lines, fields counted by the delimiter -/
def SvSound (h : Bytes) (lim comma : Nat) : Prop :=
  sv h lim comma = true ∧
  (∃ k, 2 ≤ k ∧ 2 ≤ (records comma (dropLastLine h lim)).length ∧
      ∀ c ∈ records comma (dropLastLine h lim), c = k) ∧
  (0x22 ∉ h →
    let cs := specCounts comma (dropLastLine h lim)
    2 ≤ cs.length ∧ ∃ k, 2 ≤ k ∧ ∀ c ∈ cs, c = k)

theorem svSound_of (h : Bytes) (lim comma : Nat) (hs : sv h lim comma = true) : SvSound h lim comma :=
  ⟨hs, ((sv_iff h lim comma).1 hs).2, fun hq => sv_converse_quoteFree h lim comma hq hs⟩

/-- a leaf of type text/csv ⇒ `Csv` said yes on the examined header -/
theorem csv_leaf_accepted (ext : Ext) (x : Bytes) (lim : Nat) (leaf : Info)
    (hleaf : (detect ext Gen.builtin x lim).chain.head? = some leaf) (hm : leaf.mime = mimeCsv) :
    sv (header x lim) lim 0x2C = true := by
  have := leaf_custom_accepted ext x lim leaf mimeCsv .csv _ hleaf hm line_nodes.2.2.2.2.1
    line_nodes.2.2.2.2.2.2.2.1 rfl
  simpa using this

/-- a leaf of type text/tab-separated-values ⇒ `Tsv` said yes on the examined header -/
theorem tsv_leaf_accepted (ext : Ext) (x : Bytes) (lim : Nat) (leaf : Info)
    (hleaf : (detect ext Gen.builtin x lim).chain.head? = some leaf) (hm : leaf.mime = mimeTsv) :
    sv (header x lim) lim 0x09 = true := by
  have := leaf_custom_accepted ext x lim leaf mimeTsv .tsv _ hleaf hm line_nodes.2.2.2.2.2.1
    line_nodes.2.2.2.2.2.2.2.2 rfl
  simpa using this

/-- **C13 (CSV) through `Detect`, converse**: if the reported leaf has type text/csv then `sv` with
    ',' accepted the examined header: the records the csv reader returns for its complete lines are
    at least two and all have the same number k ≥ 2 of fields; when the header contains no double
    quote, these records are exactly its non-empty lines not starting with '#', each with (number
    of commas + 1) fields.  For every `ext`, input, limit. -/
theorem csv_verdict_sound (ext : Ext) (x : Bytes) (lim : Nat) (leaf : Info)
    (hleaf : (detect ext Gen.builtin x lim).chain.head? = some leaf) (hm : leaf.mime = mimeCsv) :
    SvSound (header x lim) lim 0x2C :=
  svSound_of _ _ _ (csv_leaf_accepted ext x lim leaf hleaf hm)

/-- **C13 (TSV) through `Detect`, converse** -/
theorem tsv_verdict_sound (ext : Ext) (x : Bytes) (lim : Nat) (leaf : Info)
    (hleaf : (detect ext Gen.builtin x lim).chain.head? = some leaf) (hm : leaf.mime = mimeTsv) :
    SvSound (header x lim) lim 0x09 :=
  svSound_of _ _ _ (tsv_leaf_accepted ext x lim leaf hleaf hm)

/-- contrapositive, quote-free: an input examined in full without a double quote whose non-empty
    non-comment lines do not all have the same number of fields, or fewer than two fields, or are
    fewer than two, is not reported as text/csv -/
theorem ragged_not_csv (ext : Ext) (x : Bytes) (lim : Nat) (leaf : Info)
    (hleaf : (detect ext Gen.builtin x lim).chain.head? = some leaf) (hq : 0x22 ∉ header x lim)
    (hbad : ¬ (2 ≤ (specCounts 0x2C (dropLastLine (header x lim) lim)).length ∧
      ∃ k, 2 ≤ k ∧ ∀ c ∈ specCounts 0x2C (dropLastLine (header x lim) lim), c = k)) :
    leaf.mime ≠ mimeCsv :=
  fun hm => hbad ((csv_verdict_sound ext x lim leaf hleaf hm).2.2 hq)

theorem ragged_not_tsv (ext : Ext) (x : Bytes) (lim : Nat) (leaf : Info)
    (hleaf : (detect ext Gen.builtin x lim).chain.head? = some leaf) (hq : 0x22 ∉ header x lim)
    (hbad : ¬ (2 ≤ (specCounts 0x09 (dropLastLine (header x lim) lim)).length ∧
      ∃ k, 2 ≤ k ∧ ∀ c ∈ specCounts 0x09 (dropLastLine (header x lim) lim), c = k)) :
    leaf.mime ≠ mimeTsv :=
  fun hm => hbad ((tsv_verdict_sound ext x lim leaf hleaf hm).2.2 hq)

/-! ### the closed model -/

theorem closed_ndjson_verdict_sound (x : Bytes) (lim : Nat) (leaf : Info)
    (hleaf : (Closed.detect x lim).chain.head? = some leaf) (hm : leaf.mime = mimeNdjson) :
    let ls := lines (dropLastLine (header x lim) lim)
    2 ≤ ls.length ∧ (∀ l ∈ ls, LineOK l) ∧ ∃ l ∈ ls, ContainerLine l :=
  ndjson_verdict_sound Closed.ext x lim leaf hleaf hm

theorem closed_csv_verdict_sound (x : Bytes) (lim : Nat) (leaf : Info)
    (hleaf : (Closed.detect x lim).chain.head? = some leaf) (hm : leaf.mime = mimeCsv) :
    SvSound (header x lim) lim 0x2C :=
  csv_verdict_sound Closed.ext x lim leaf hleaf hm

theorem closed_tsv_verdict_sound (x : Bytes) (lim : Nat) (leaf : Info)
    (hleaf : (Closed.detect x lim).chain.head? = some leaf) (hm : leaf.mime = mimeTsv) :
    SvSound (header x lim) lim 0x09 :=
  tsv_verdict_sound Closed.ext x lim leaf hleaf hm

/-! ### non-vacuity (the closed model evaluated by the kernel) -/

/-- `a,b⏎1,2⏎` -/
def exCsv : Bytes := [0x61, 0x2C, 0x62, 0x0A, 0x31, 0x2C, 0x32, 0x0A]
/-- `a,b⏎1⏎` (ragged) -/
def exRagged : Bytes := [0x61, 0x2C, 0x62, 0x0A, 0x31, 0x0A]
/-- `a⇥b⏎1⇥2⏎` -/
def exTsv : Bytes := [0x61, 0x09, 0x62, 0x0A, 0x31, 0x09, 0x32, 0x0A]
/-- `{"a":1}⏎[2]⏎` -/
def exNd : Bytes := [0x7B, 0x22, 0x61, 0x22, 0x3A, 0x31, 0x7D, 0x0A, 0x5B, 0x32, 0x5D, 0x0A]
/-- `1⏎2⏎`: two lines, both JSON values, neither an object or array -/
def exNdScalars : Bytes := [0x31, 0x0A, 0x32, 0x0A]

example : ((Closed.detect exCsv 0).chain.map (·.mime)) = [mimeCsv, mimeTextPlain, mimeOctet] := by
  decide +kernel
example : ((Closed.detect exRagged 0).chain.map (·.mime)) = [mimeTextPlain, mimeOctet] := by
  decide +kernel
example : ((Closed.detect exTsv 0).chain.map (·.mime)) = [mimeTsv, mimeTextPlain, mimeOctet] := by
  decide +kernel
example : ((Closed.detect exNd 0).chain.map (·.mime)) = [mimeNdjson, mimeTextPlain, mimeOctet] := by
  decide +kernel
example : ((Closed.detect exNdScalars 0).chain.map (·.mime)) = [mimeTextPlain, mimeOctet] := by
  decide +kernel

/-- the theorem applied to the concrete CSV: its conclusion, and the reference's own count -/
example : specCounts 0x2C (dropLastLine (header exCsv 0) 0) = [2, 2] ∧
    specCounts 0x2C (dropLastLine (header exRagged 0) 0) = [2, 1] := by decide +kernel
example : SvSound (header exCsv 0) 0 0x2C := by
  have hl : ∃ leaf, (Closed.detect exCsv 0).chain.head? = some leaf ∧ leaf.mime = mimeCsv := by
    have h : ((Closed.detect exCsv 0).chain.head?.map (·.mime)) = some mimeCsv := by decide +kernel
    cases hc : (Closed.detect exCsv 0).chain.head? with
    | none => rw [hc] at h; cases h
    | some l => rw [hc] at h; exact ⟨l, rfl, by simpa using h⟩
  obtain ⟨leaf, h1, h2⟩ := hl
  exact closed_csv_verdict_sound exCsv 0 leaf h1 h2

/-- `a,b⏎1,2⏎33` (10 bytes) examined with limit 9: the header is `a,b⏎1,2⏎3`, its incomplete last
    line is dropped and not counted -/
example : ((Closed.detect [0x61, 0x2C, 0x62, 0x0A, 0x31, 0x2C, 0x32, 0x0A, 0x33, 0x33] 9).chain.map (·.mime)) =
      [mimeCsv, mimeTextPlain, mimeOctet] ∧
    specCounts 0x2C (dropLastLine (header [0x61, 0x2C, 0x62, 0x0A, 0x31, 0x2C, 0x32, 0x0A, 0x33, 0x33] 9) 9) = [2, 2] := by
  decide +kernel

end Mime.C13
