import MimeModel.Model.Detect
import MimeModel.Gen.Tree
/-
  C08 — well-formed JSON is recognised, whole or truncated.
-/
namespace Mime.C08
open Mime Mime.Json

/-- regenerated facts about tree.go: `application/json` is a child of `text/plain`, tried
    after html, svg, xml, php and the shebang languages; its detector is `JSON` -/
theorem tree_facts :
    ((Gen.builtin.children.filter (fun c => c.info.name == "text")).map
      (fun c => (c.children.map (·.info.name)).take 9)) =
      [["html", "svg", "xml", "php", "js", "lua", "perl", "python", "json"]] ∧
    (Gen.builtin.flatten.filter (fun i => i.name == "json")).map (·.det) = [.custom .json] := by
  constructor <;> decide

end Mime.C08
