import MimeModel.Gen.Writes
import MimeModel.Model.Detect
import MimeModel.Gen.Tree
import MimeModel.Lemmas.JsonForward
import MimeModel.Lemmas.JsonFuel
import MimeModel.Lemmas.JsonClean
import MimeModel.Lemmas.Tree
import MimeModel.Lemmas.DetectTie
/-
  C08 — well-formed JSON is recognised, whole or truncated.

  "Well-formed" is the reference RFC 8259 recogniser `Spec.J.doc true` (Spec/Json.lean):
  white space, one object or array, white space; it also returns the syntax tree, whose
  nesting depth is `Spec.J.depth`.
-/
namespace Mime.C08
open Mime Mime.Json Mime.Spec Mime.JsonLeaf Mime.JsonForward Mime.JsonPrefix

/-- regenerated facts about tree.go: `application/json` is a child of `text/plain`, tried
    after html, svg, xml, php and the shebang languages; its detector is `JSON` -/
theorem tree_facts :
    ((Gen.builtin.children.filter (fun c => c.info.name == "text")).map
      (fun c => (c.children.map (·.info.name)).take 9)) =
      [["html", "svg", "xml", "php", "js", "lua", "perl", "python", "json"]] ∧
    (Gen.builtin.flatten.filter (fun i => i.name == "json")).map (·.det) = [.custom .json] := by
  constructor <;> decide

theorem looksLike_of_firstNonWs (b : Bytes) (c : Nat) (h : J.firstNonWs b = some c)
    (hc : c = 0x7B ∨ c = 0x5B) : looksLikeObjectOrArray b = true := by
  induction b with
  | nil => simp [J.firstNonWs, J.skipWs] at h
  | cons x xs ih =>
    simp only [looksLikeObjectOrArray, isSpace_eq_ws]
    simp only [J.firstNonWs, J.skipWs] at h
    split
    · rename_i hw
      simp only [hw, ↓reduceIte] at h
      exact ih h
    · rename_i hw
      simp only [hw, Bool.false_eq_true, ↓reduceIte, List.head?_cons, Option.some.injEq] at h
      subst h
      rcases hc with rfl | rfl <;> simp

theorem finishAny_flags (t : Nat) (res : Option Bytes × PState) :
    (finishAny true 0 t res).2.firstToken = t ∧ (finishAny true 0 t res).2.querySatisfied = true := by
  obtain ⟨rv, s2⟩ := res
  simp only [finishAny]
  cases rv with
  | none => simp [PState.setQ, PState.setFirst]
  | some r => simp [consumeSpace_spec, PState.setQ, PState.setFirst, PState.bump]

/-- flags after the top-level call on an input whose first non-space byte is `c` -/
theorem top_flags (cap fuel : Nat) (b : Bytes) (s : PState) (c : Nat) (cs : Bytes) (hsk : J.skipWs b = c :: cs)
    (hcap : (cap != 0 && decide (0 > cap)) = false) :
    (consumeAny [] cap (fuel + 1) 0 b s).2.firstToken = (classify c).tok ∧
    (consumeAny [] cap (fuel + 1) 0 b s).2.querySatisfied = true := by
  have hcs := consumeSpace_spec b (s.enter 0)
  rw [hsk] at hcs
  simp only [consumeAny, hcap, Bool.false_eq_true, ↓reduceIte, hcs, List.isEmpty_nil]
  exact finishAny_flags _ _

/-- **C08 (whole)**: every RFC 8259 object or array document of nesting depth at most the cap
    is accepted when examined in full (limit 0, or shorter than the limit) -/
theorem strict_accepts_whole (D : Bytes) (v : J.JVal) (lim : Nat)
    (hdoc : J.doc true D = some v) (hdepth : J.depth v ≤ Gen.Json.maxRecursion)
    (hwhole : lim = 0 ∨ D.length < lim) :
    jsonHelper D lim Gen.Json.q_json (tokObject ||| tokArray) = true := by
  unfold J.doc at hdoc
  cases hf : J.firstNonWs D with
  | none => simp [hf] at hdoc
  | some c =>
    simp only [hf] at hdoc
    split at hdoc
    · cases hdoc
    · rename_i hc
      have hc' : c = 0x7B ∨ c = 0x5B := by
        simp only [Bool.and_eq_true, bne_iff_ne, ne_eq, not_and, Decidable.not_not] at hc
        by_cases h1 : c = 0x7B
        · exact Or.inl h1
        · exact Or.inr (hc h1)
      cases hval : J.value true (J.fuelFor D) D with
      | more => simp [hval] at hdoc
      | bad => simp [hval] at hdoc
      | ok v' r =>
        simp only [hval] at hdoc
        split at hdoc
        · rename_i hws
          simp only [Option.some.injEq] at hdoc
          subst hdoc
          have hlook := looksLike_of_firstNonWs D c hf hc'
          have hfw := (forward_all Gen.Json.q_json Gen.Json.maxRecursion (J.fuelFor D)).1 0 D v' r PState.fresh.reset hval
            (delim_of_ws_only r hws) (Or.inr (by omega))
          obtain ⟨f1, f2, f3⟩ := hfw
          have hrnil : J.skipWs r = [] := by simpa using hws
          rw [hrnil] at f1 f2
          -- first non-space byte
          have hsk : ∃ cs, J.skipWs D = c :: cs := by
            simp only [J.firstNonWs] at hf
            cases hs : J.skipWs D with
            | nil => simp [hs] at hf
            | cons x xs => simp [hs] at hf; exact ⟨xs, by rw [hf]⟩
          obtain ⟨cs, hsk⟩ := hsk
          have hfuel : J.fuelFor D = (2 * D.length + 3) + 1 := by simp [J.fuelFor]
          have hflags := top_flags Gen.Json.maxRecursion (2 * D.length + 3) D PState.fresh.reset c cs hsk (by decide)
          unfold jsonHelper parse parseWith
          simp only [hlook, Bool.not_true, Bool.false_eq_true, ↓reduceIte]
          have hff : fuelFor D = J.fuelFor D := by simp [fuelFor, J.fuelFor]
          rw [hff]
          generalize hres : consumeAny Gen.Json.q_json Gen.Json.maxRecursion (J.fuelFor D) 0 D PState.fresh.reset = res at f1 f2
          rw [hfuel] at hres
          have hq : Gen.Json.q_json = [] := rfl
          rw [hq] at hres
          rw [hres] at hflags
          obtain ⟨rv, s'⟩ := res
          simp only at f1 f2 hflags ⊢
          subst f1
          obtain ⟨ht, hqs⟩ := hflags
          simp only [hqs, Bool.not_true, Bool.false_or, ht]
          have htok : ((classify c).tok &&& (tokObject ||| tokArray) == 0) = false := by
            rcases hc' with rfl | rfl <;> decide
          simp only [htok, Bool.false_eq_true, ↓reduceIte, List.length_nil, Nat.sub_zero]
          rcases hwhole with h | h
          · simp [h]
          · simp [h]
        · cases hdoc

/-- what `J.doc true D = some v` says, unfolded -/
theorem doc_inv (D : Bytes) (v : J.JVal) (hdoc : J.doc true D = some v) :
    ∃ c cs r, J.skipWs D = c :: cs ∧ (c = 0x7B ∨ c = 0x5B) ∧
      J.value true (J.fuelFor D) D = .ok v r ∧ J.skipWs r = [] := by
  unfold J.doc at hdoc
  cases hf : J.firstNonWs D with
  | none => simp [hf] at hdoc
  | some c =>
    simp only [hf] at hdoc
    split at hdoc
    · cases hdoc
    · rename_i hc
      have hc' : c = 0x7B ∨ c = 0x5B := by
        simp only [Bool.and_eq_true, bne_iff_ne, ne_eq, not_and, Decidable.not_not] at hc
        by_cases h1 : c = 0x7B
        · exact Or.inl h1
        · exact Or.inr (hc h1)
      cases hval : J.value true (J.fuelFor D) D with
      | more => simp [hval] at hdoc
      | bad => simp [hval] at hdoc
      | ok v' r =>
        simp only [hval] at hdoc
        split at hdoc
        · rename_i hws
          simp only [Option.some.injEq] at hdoc
          subst hdoc
          have hsk : ∃ cs, J.skipWs D = c :: cs := by
            simp only [J.firstNonWs] at hf
            cases hs : J.skipWs D with
            | nil => simp [hs] at hf
            | cons x xs => simp [hs] at hf; exact ⟨xs, by rw [hf]⟩
          obtain ⟨cs, hsk⟩ := hsk
          exact ⟨c, cs, r, hsk, hc', rfl, by simpa using hws⟩
        · cases hdoc

theorem looksLike_of_skipWs (b : Bytes) (c : Nat) (cs : Bytes) (h : J.skipWs b = c :: cs)
    (hc : c = 0x7B ∨ c = 0x5B) : looksLikeObjectOrArray b = true :=
  looksLike_of_firstNonWs b c (by simp [J.firstNonWs, h]) hc

/-- the scanner's run on a whole RFC 8259 document: everything consumed, every byte counted -/
theorem run_on_doc (D : Bytes) (v : J.JVal) (hdoc : J.doc true D = some v) (hdepth : J.depth v ≤ Gen.Json.maxRecursion) :
    ∃ s', consumeAny Gen.Json.q_json Gen.Json.maxRecursion (J.fuelFor D) 0 D PState.fresh.reset = (some [], s') ∧
      s'.ib = D.length := by
  obtain ⟨c, cs, r, hsk, hc, hval, hr⟩ := doc_inv D v hdoc
  have hfw := (forward_all Gen.Json.q_json Gen.Json.maxRecursion (J.fuelFor D)).1 0 D v r PState.fresh.reset hval
    (delim_of_ws_only r (by simp [hr])) (Or.inr (by omega))
  obtain ⟨f1, f2, _⟩ := hfw
  rw [hr] at f1 f2
  generalize consumeAny Gen.Json.q_json Gen.Json.maxRecursion (J.fuelFor D) 0 D PState.fresh.reset = res at f1 f2
  obtain ⟨o, s'⟩ := res
  simp only at f1 f2
  subst f1
  exact ⟨s', rfl, by rw [f2]; simp [PState.reset, PState.fresh]⟩

/-- **C08 (truncated)**: when only the first `lim` bytes of an RFC 8259 document are examined
    (`lim` no larger than the document, and past the opening bracket), they are accepted:
    wherever the cut falls -/
theorem strict_accepts_truncated (D : Bytes) (v : J.JVal) (lim : Nat)
    (hdoc : J.doc true D = some v) (hdepth : J.depth v ≤ Gen.Json.maxRecursion)
    (hopen : D.length - (J.skipWs D).length < lim) (hlim : lim ≤ D.length) :
    jsonHelper (D.take lim) lim Gen.Json.q_json (tokObject ||| tokArray) = true := by
  obtain ⟨c, cs, r, hsk, hc, _, _⟩ := doc_inv D v hdoc
  obtain ⟨s', hrun, hib⟩ := run_on_doc D v hdoc hdepth
  -- the cut keeps the opening bracket
  have hskP : J.skipWs (D.take lim) = c :: cs.take (lim - (D.length - (J.skipWs D).length) - 1) := by
    have := ((skipWs_take D lim).2 (by omega)).1
    rw [this, hsk]
    obtain ⟨j, hj⟩ : ∃ j, lim - (D.length - (J.skipWs D).length) = j + 1 := ⟨lim - (D.length - (J.skipWs D).length) - 1, by omega⟩
    rw [hsk] at hj
    rw [hj]
    simp
  have hlenP : (D.take lim).length = lim := by simp; omega
  have hlook := looksLike_of_skipWs _ _ _ hskP hc
  -- the scanner on the cut, with the document's fuel
  have law := (prefix_all Gen.Json.q_json Gen.Json.maxRecursion (J.fuelFor D)).1 0 D PState.fresh.reset [] s' hrun
  have hibP : (consumeAny Gen.Json.q_json Gen.Json.maxRecursion (J.fuelFor D) 0 (D.take lim) PState.fresh.reset).2.ib = lim := by
    obtain ⟨_, _, l3⟩ := law
    simp only [List.length_nil, Nat.sub_zero] at l3
    by_cases hk : lim < D.length
    · have := ((l3 lim).1 hk).1
      rw [this]; simp [PState.reset, PState.fresh]
    · have := (l3 lim).2 (by omega)
      rw [this, hib]; omega
  -- with the fuel `parse` supplies
  have hfuel := consumeAny_fuel Gen.Json.q_json Gen.Json.maxRecursion 0 (D.take lim) PState.fresh.reset
    (fuelFor (D.take lim)) (J.fuelFor D) (by simp [fuelFor]) (by simp only [J.fuelFor, hlenP]; omega)
  have hflags := top_flags Gen.Json.maxRecursion (2 * (D.take lim).length + 3) (D.take lim) PState.fresh.reset c _ hskP (by decide)
  have hff : fuelFor (D.take lim) = 2 * (D.take lim).length + 3 + 1 := by simp [fuelFor]
  have hq : Gen.Json.q_json = [] := rfl
  unfold jsonHelper parse parseWith
  simp only [hlook, Bool.not_true, Bool.false_eq_true, ↓reduceIte]
  rw [← hfuel] at hibP
  rw [hff, hq] at hibP ⊢
  generalize consumeAny [] Gen.Json.maxRecursion (2 * (D.take lim).length + 3 + 1) 0 (D.take lim) PState.fresh.reset = res at hibP hflags
  obtain ⟨rv, sP⟩ := res
  simp only at hibP hflags ⊢
  obtain ⟨ht, hqs⟩ := hflags
  have htok : ((classify c).tok &&& (tokObject ||| tokArray) == 0) = false := by
    rcases hc with rfl | rfl <;> decide
  simp only [hqs, Bool.not_true, Bool.false_or, ht, htok, Bool.false_eq_true, ↓reduceIte, hlenP, hibP]
  have h0 : lim ≠ 0 := by omega
  simp [h0]
  omega

/-- **C08**: an RFC 8259 document of depth at most the cap is accepted at every read limit
    past its opening bracket: `raw` is what the reader hands over, the document itself or
    its first `lim` bytes -/
theorem strict_accepts (D : Bytes) (v : J.JVal) (lim : Nat)
    (hdoc : J.doc true D = some v) (hdepth : J.depth v ≤ Gen.Json.maxRecursion)
    (hopen : lim = 0 ∨ D.length - (J.skipWs D).length < lim) :
    jsonHelper (if lim = 0 then D else D.take lim) lim Gen.Json.q_json (tokObject ||| tokArray) = true := by
  by_cases h0 : lim = 0
  · simp only [h0, ↓reduceIte]
    exact strict_accepts_whole D v 0 hdoc hdepth (Or.inl rfl)
  · simp only [h0, ↓reduceIte]
    by_cases hl : lim ≤ D.length
    · exact strict_accepts_truncated D v lim hdoc hdepth (by omega) hl
    · rw [List.take_of_length_le (by omega)]
      exact strict_accepts_whole D v lim hdoc hdepth (Or.inr (by omega))

/- non-vacuity: a document with every kind of token -/
example : (J.doc true [0x7B, 0x22, 0x61, 0x22, 0x3A, 0x5B, 0x31, 0x2C, 0x74, 0x72, 0x75, 0x65, 0x5D, 0x7D]).isSome = true := by
  decide

/-! ### from the detector's verdict to `Detect`'s result -/
section
open Mime.Tree Mime.JsonClean

theorem walkList_first {α : Type} (acc : α → Bool) (p : Tree α → Bool) : ∀ (cs : List (Tree α)) (c : Tree α),
    cs.find? p = some c → acc c.info = true →
    (∃ d ∈ cs.takeWhile (fun x => !p x), acc d.info = true) ∨ walkList acc cs = walk acc c := by
  intro cs
  induction cs with
  | nil => intro c h; simp at h
  | cons x xs ih =>
    intro c h hacc
    simp only [List.find?] at h
    cases hp : p x with
    | true =>
      simp only [hp, Option.some.injEq] at h
      subst h
      right
      simp [walkList, hacc]
    | false =>
      simp only [hp] at h
      by_cases hx : acc x.info = true
      · left
        exact ⟨x, by simp [List.takeWhile, hp], hx⟩
      · have hx' : acc x.info = false := by simpa using hx
        rcases ih c h hacc with ⟨d, hd, hda⟩ | hw
        · left
          exact ⟨d, by simp [List.takeWhile, hp, hd], hda⟩
        · right
          simp [walkList, hx', hw]

def isNamed (n : String) (t : Tree Info) : Bool := t.info.name == n

/-- the `text` node of the built-in tree and its `json` child -/
def textNode : Tree Info := (Gen.builtin.children.find? (isNamed "text")).getD Gen.builtin
def jsonNode : Tree Info := (textNode.children.find? (isNamed "json")).getD Gen.builtin

theorem text_found : Gen.builtin.children.find? (isNamed "text") = some textNode := by
  unfold textNode
  have : (Gen.builtin.children.find? (isNamed "text")).isSome = true := by decide
  cases h : Gen.builtin.children.find? (isNamed "text") with
  | none => rw [h] at this; cases this
  | some c => rfl

theorem json_found : textNode.children.find? (isNamed "json") = some jsonNode := by
  unfold jsonNode
  have : (textNode.children.find? (isNamed "json")).isSome = true := by decide
  cases h : textNode.children.find? (isNamed "json") with
  | none => rw [h] at this; cases this
  | some c => rfl

theorem node_dets : textNode.info.det = .custom .text ∧ jsonNode.info.det = .custom .json := by
  constructor <;> decide

theorem json_priority :
    (textNode.children.takeWhile (fun x => !isNamed "json" x)).map (·.info.name) =
      ["html", "svg", "xml", "php", "js", "lua", "perl", "python"] := by decide

theorem accepts_text (ext : Ext) (h : Bytes) (lim : Nat) (i : Info) (hd : i.det = .custom .text) :
    accepts ext h lim i = Cust.text h := by
  unfold accepts Cust.detEval
  rw [hd]
  simp [Det.evalWith, Cust.custEval, Cust.customModel]

theorem accepts_json (ext : Ext) (h : Bytes) (lim : Nat) (i : Info) (hd : i.det = .custom .json) :
    accepts ext h lim i = jsonHelper h lim Gen.Json.q_json (tokObject ||| tokArray) := by
  unfold accepts Cust.detEval
  rw [hd]
  simp [Det.evalWith, Cust.custEval, Cust.customModel]

theorem text_of_good (x : Bytes) (h : GoodL x) : Cust.text x = true := by
  unfold Cust.text
  split
  · rfl
  · have : x.any Cust.binaryByte = false := by
      rw [List.any_eq_false]
      intro c hc
      simp [good_not_binary c (h c hc)]
    simp [this]

theorem goodL_take (x : Bytes) (h : GoodL x) (k : Nat) : GoodL (x.take k) :=
  fun c hc => h c (List.mem_of_mem_take hc)


/-- **C08 through `Detect`**: for every RFC 8259 object/array document of depth within the cap, every
    limit past the opening bracket and every behaviour of the unmodelled detectors, the path
    reported by the walk over the built-in tree passes through `application/json` (so the result
    is json or one of its sub-types) — unless a format with priority accepts the same header: a
    child of the root in front of `text/plain`, or one of html, svg, xml, php and the shebang
    languages in front of json -/
theorem detect_json (ext : Ext) (D : Bytes) (v : J.JVal) (lim : Nat)
    (hdoc : J.doc true D = some v) (hdepth : J.depth v ≤ Gen.Json.maxRecursion)
    (hopen : lim = 0 ∨ D.length - (J.skipWs D).length < lim) :
    jsonNode.info ∈ (detect ext Gen.builtin D lim).chain ∨
    (∃ d ∈ Gen.builtin.children.takeWhile (fun x => !isNamed "text" x), accepts ext (header D lim) lim d.info = true) ∨
    (∃ d ∈ textNode.children.takeWhile (fun x => !isNamed "json" x), accepts ext (header D lim) lim d.info = true) := by
  have hhdr : header D lim = if lim = 0 then D else D.take lim := rfl
  have hgood : GoodL (header D lim) := by
    rw [hhdr]
    split
    · exact doc_good D v hdoc
    · exact goodL_take D (doc_good D v hdoc) lim
  have hacc_text : accepts ext (header D lim) lim textNode.info = true := by
    rw [accepts_text ext _ lim _ node_dets.1]; exact text_of_good _ hgood
  have hacc_json : accepts ext (header D lim) lim jsonNode.info = true := by
    rw [accepts_json ext _ lim _ node_dets.2, hhdr]
    exact strict_accepts D v lim hdoc hdepth hopen
  simp only [detect, List.mem_reverse]
  generalize accepts ext (header D lim) lim = acc at hacc_text hacc_json ⊢
  -- root → text
  have hroot : Gen.builtin = .node Gen.builtin.info Gen.builtin.children := by cases Gen.builtin; rfl
  have htext : textNode = .node textNode.info textNode.children := by cases textNode; rfl
  rw [hroot, walk_eq]
  rcases walkList_first acc (isNamed "text") _ _ text_found hacc_text with h1 | h1
  · right; left; exact h1
  · rw [h1, htext, walk_eq]
    rcases walkList_first acc (isNamed "json") _ _ json_found hacc_json with h2 | h2
    · right; right; exact h2
    · left
      rw [h2]
      have hw : ∀ t : Tree Info, walk acc t = t.info :: walkList acc t.children := by
        intro t; cases t; simp [walk, Tree.info, Tree.children]
      rw [hw jsonNode]
      simp

end

/-- regenerated tie: the pooled parser is handed back only in a `defer`, after `Parse` has read its
    results out of it (otherwise a concurrent detection could reset it in between and a valid document
    would be judged by another parse's flags) -/
theorem tie_pool_put_deferred :
    Gen.Writes.poolCalls = ["magic.newReader:readerPool.Get:direct", "magic.sv:readerPool.Put:deferred",
      "json.Parse:parserPool.Get:direct", "json.Parse:parserPool.Put:deferred"] := by decide

/-- regenerated tie: `Detect` / `DetectReader` load the limit once, atomically (see Lemmas/DetectTie.lean) -/
theorem tie_single_limit : Mime.DetectTie.SingleLimit := Mime.DetectTie.single_limit

end Mime.C08
