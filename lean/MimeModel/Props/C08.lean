import MimeModel.Model.Detect
import MimeModel.Gen.Tree
import MimeModel.Lemmas.JsonForward
/-
  C08 — well-formed JSON is recognised, whole or truncated.

  "Well-formed" is the reference RFC 8259 recogniser `Spec.J.doc true` (Spec/Json.lean):
  white space, one object or array, white space; it also returns the syntax tree, whose
  nesting depth is `Spec.J.depth`.
-/
namespace Mime.C08
open Mime Mime.Json Mime.Spec Mime.JsonLeaf Mime.JsonForward

/-- regenerated facts about tree.go: `application/json` is a child of `text/plain`, tried
    after html, svg, xml, php and the shebang languages; its detector is `JSON` -/
theorem tree_facts :
    ((Gen.builtin.children.filter (fun c => c.info.name == "text")).map
      (fun c => (c.children.map (·.info.name)).take 9)) =
      [["html", "svg", "xml", "php", "js", "lua", "perl", "python", "json"]] ∧
    (Gen.builtin.flatten.filter (fun i => i.name == "json")).map (·.det) = [.custom .json] := by
  constructor <;> decide

theorem looksLike_of_firstNonWs (b : Bytes) (c : Nat) (h : J.firstNonWs b = some c)
    (hc : c = 0x7B ∨ c = 0x5B) : looksLikeObjectOrArray b = true := by
  induction b with
  | nil => simp [J.firstNonWs, J.skipWs] at h
  | cons x xs ih =>
    simp only [looksLikeObjectOrArray, isSpace_eq_ws]
    simp only [J.firstNonWs, J.skipWs] at h
    split
    · rename_i hw
      simp only [hw, ↓reduceIte] at h
      exact ih h
    · rename_i hw
      simp only [hw, Bool.false_eq_true, ↓reduceIte, List.head?_cons, Option.some.injEq] at h
      subst h
      rcases hc with rfl | rfl <;> simp

theorem finishAny_flags (t : Nat) (res : Option Bytes × PState) :
    (finishAny true 0 t res).2.firstToken = t ∧ (finishAny true 0 t res).2.querySatisfied = true := by
  obtain ⟨rv, s2⟩ := res
  simp only [finishAny]
  cases rv with
  | none => simp [PState.setQ, PState.setFirst]
  | some r => simp [consumeSpace_spec, PState.setQ, PState.setFirst, PState.bump]

/-- flags after the top-level call on an input whose first non-space byte is `c` -/
theorem top_flags (cap fuel : Nat) (b : Bytes) (s : PState) (c : Nat) (cs : Bytes) (hsk : J.skipWs b = c :: cs)
    (hcap : (cap != 0 && decide (0 > cap)) = false) :
    (consumeAny [] cap (fuel + 1) 0 b s).2.firstToken = (classify c).tok ∧
    (consumeAny [] cap (fuel + 1) 0 b s).2.querySatisfied = true := by
  have hcs := consumeSpace_spec b (s.enter 0)
  rw [hsk] at hcs
  simp only [consumeAny, hcap, Bool.false_eq_true, ↓reduceIte, hcs, List.isEmpty_nil]
  exact finishAny_flags _ _

/-- **C08 (whole)**: every RFC 8259 object or array document of nesting depth at most the cap
    is accepted when examined in full (limit 0, or shorter than the limit) -/
theorem strict_accepts_whole (D : Bytes) (v : J.JVal) (lim : Nat)
    (hdoc : J.doc true D = some v) (hdepth : J.depth v ≤ Gen.Json.maxRecursion)
    (hwhole : lim = 0 ∨ D.length < lim) :
    jsonHelper D lim Gen.Json.q_json (tokObject ||| tokArray) = true := by
  unfold J.doc at hdoc
  cases hf : J.firstNonWs D with
  | none => simp [hf] at hdoc
  | some c =>
    simp only [hf] at hdoc
    split at hdoc
    · cases hdoc
    · rename_i hc
      have hc' : c = 0x7B ∨ c = 0x5B := by
        simp only [Bool.and_eq_true, bne_iff_ne, ne_eq, not_and, Decidable.not_not] at hc
        by_cases h1 : c = 0x7B
        · exact Or.inl h1
        · exact Or.inr (hc h1)
      cases hval : J.value true (J.fuelFor D) D with
      | more => simp [hval] at hdoc
      | bad => simp [hval] at hdoc
      | ok v' r =>
        simp only [hval] at hdoc
        split at hdoc
        · rename_i hws
          simp only [Option.some.injEq] at hdoc
          subst hdoc
          have hlook := looksLike_of_firstNonWs D c hf hc'
          have hfw := (forward_all Gen.Json.q_json Gen.Json.maxRecursion (J.fuelFor D)).1 0 D v' r PState.fresh.reset hval
            (delim_of_ws_only r hws) (Or.inr (by omega))
          obtain ⟨f1, f2, f3⟩ := hfw
          have hrnil : J.skipWs r = [] := by simpa using hws
          rw [hrnil] at f1 f2
          -- first non-space byte
          have hsk : ∃ cs, J.skipWs D = c :: cs := by
            simp only [J.firstNonWs] at hf
            cases hs : J.skipWs D with
            | nil => simp [hs] at hf
            | cons x xs => simp [hs] at hf; exact ⟨xs, by rw [hf]⟩
          obtain ⟨cs, hsk⟩ := hsk
          have hfuel : J.fuelFor D = (2 * D.length + 3) + 1 := by simp [J.fuelFor]
          have hflags := top_flags Gen.Json.maxRecursion (2 * D.length + 3) D PState.fresh.reset c cs hsk (by decide)
          unfold jsonHelper parse parseWith
          simp only [hlook, Bool.not_true, Bool.false_eq_true, ↓reduceIte]
          have hff : fuelFor D = J.fuelFor D := by simp [fuelFor, J.fuelFor]
          rw [hff]
          generalize hres : consumeAny Gen.Json.q_json Gen.Json.maxRecursion (J.fuelFor D) 0 D PState.fresh.reset = res at f1 f2
          rw [hfuel] at hres
          have hq : Gen.Json.q_json = [] := rfl
          rw [hq] at hres
          rw [hres] at hflags
          obtain ⟨rv, s'⟩ := res
          simp only at f1 f2 hflags ⊢
          subst f1
          obtain ⟨ht, hqs⟩ := hflags
          simp only [hqs, Bool.not_true, Bool.false_or, ht]
          have htok : ((classify c).tok &&& (tokObject ||| tokArray) == 0) = false := by
            rcases hc' with rfl | rfl <;> decide
          simp only [htok, Bool.false_eq_true, ↓reduceIte, List.length_nil, Nat.sub_zero]
          rcases hwhole with h | h
          · simp [h]
          · simp [h]
        · cases hdoc

/- non-vacuity: a document with every kind of token -/
example : (J.doc true [0x7B, 0x22, 0x61, 0x22, 0x3A, 0x5B, 0x31, 0x2C, 0x74, 0x72, 0x75, 0x65, 0x5D, 0x7D]).isSome = true := by
  decide

end Mime.C08
