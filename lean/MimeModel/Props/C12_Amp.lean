import MimeModel.Lemmas.HtmlUnescape
/-
  C12, HTML clause, with character references modelled.  `Tokenizer.TagAttr` of x/net/html returns
  `unescape(convertNewlines(val), true)`; `Model/HtmlUnescape.lean` transcribes `unescape` /
  `unescapeEntity` of escape.go (named references from the regenerated tables of the x/net version
  /repo builds against — `Model/HtmlEntities.lean`, rewritten by `./check prepare` —, numeric
  references with the Windows-1252 replacement table, the attribute-mode rule for `&name=`, 32-bit
  wrap-around of the numeric value), validated against the real tokenizer on 6.6 million inputs and
  compared on every `walk`, `cs html` and `decl` operation of every run.  The tokenizer model is now
  total (`startTagsFull`), the closed model of `Detect` uses it, and the side condition "no `&` in a
  reported attribute value" of the earlier theorems is gone: only the declared label itself must be
  free of `&`.  Proofs: Lemmas/HtmlUnescape.lean.
-/
namespace Mime.C12
open Mime Mime.Charset Mime.HtmlTok Mime.HtmlEnt Mime.HtmlTokLemmas Mime.HtmlUnescapeLemmas

/-- without `&` a value is returned as it is (the fast path of `unescape`) -/
theorem unescape_noAmp (a : Bool) (b : Bytes) (h : b.contains 0x26 = false) : unescape a b = b :=
  HtmlUnescapeLemmas.unescape_noAmp a b h

/-- `&` in front of a byte that cannot start a reference stays `&` -/
theorem unescape_amp_only (a : Bool) (c : Nat) (rest : Bytes) (h1 : c ≠ 0x23) (h2 : isAlnum c = false) :
    unescape a (0x26 :: c :: rest) = 0x26 :: unescape a (c :: rest) :=
  HtmlUnescapeLemmas.unescape_amp_only a c rest h1 h2

/-- the total tokenizer model extends the partial one: nothing claimed before changes -/
theorem startTagsFull_extends (c : Bytes) (ts : List Tag) (h : startTags c = some ts) : startTagsFull c = ts :=
  startTagsFull_of_startTags c ts h

/-- `FromHTML` reads three attribute values of `meta` tags and no others: references anywhere else
    (other attributes, other tags, keys, text) do not change its answer -/
theorem fromHTML_values_unescaped (c : Bytes)
    (h : ∀ t ∈ rawTags c, t.name = kMeta → ∀ kv ∈ t.attrs, readKey kv.1 = true → kv.2.contains 0x26 = false) :
    fromHTMLBytesFull c = Charset.fromHTML c ((rawTags c).map finishTag) :=
  HtmlUnescapeLemmas.fromHTML_values_unescaped c h

/-- **C12 (HTML, `<meta charset>`), no side condition on the rest of the document**: a `meta` tag
    after a prologue of other tags, carrying a `charset` attribute (any letter case, any quoting)
    whose label has no `&` and no CR, among attributes with inert keys and ARBITRARY values, in a
    document without BOM: `FromHTML` answers the normalised label, whatever the prologue, the other
    values and the rest of the document contain -/
theorem charset_value_unescaped (P nm ws0 : Bytes) (pre post : List AttrSrc)
    (cs : Bytes) (form : ValForm) (L sep rest : Bytes)
    (hP : Prologue P) (hnm : lowerASCII nm = kMeta)
    (hws : ∀ x ∈ ws0, isWS x = true) (hws0 : ws0 ≠ [])
    (hcs : lowerASCII cs = kwCharset)
    (hwf : attrsWf (pre ++ charsetAttr cs form L sep :: post))
    (hpre : ∀ a ∈ pre, inertKey a.key) (hpost : ∀ a ∈ post, inertKey a.key)
    (hL : L ≠ []) (hcr : ∀ c ∈ L, c ≠ 0x0D) (hamp : L.contains 0x26 = false)
    (hbom : fromBOM (P ++ tagText nm ws0 (pre ++ charsetAttr cs form L sep :: post) ++ rest) = csNone) :
    fromHTMLBytesFull (P ++ tagText nm ws0 (pre ++ charsetAttr cs form L sep :: post) ++ rest) = norm L :=
  HtmlUnescapeLemmas.charset_value_unescaped P nm ws0 pre post cs form L sep rest hP hnm hws hws0 hcs hwf hpre hpost hL hcr hamp hbom

/-- the plain form `P <meta charset=qLq> rest` with a token label -/
theorem charset_value_unescaped_simple (P nm cs : Bytes) (form : ValForm) (L rest : Bytes)
    (hP : Prologue P) (hnm : lowerASCII nm = kMeta) (hcs : lowerASCII cs = kwCharset)
    (hL : L ≠ []) (htok : ∀ c ∈ L, tokenChar c = true)
    (hbom : fromBOM (P ++ tagText nm [0x20] [charsetAttr cs form L []] ++ rest) = csNone) :
    fromHTMLBytesFull (P ++ tagText nm [0x20] [charsetAttr cs form L []] ++ rest) = norm L :=
  HtmlUnescapeLemmas.charset_value_unescaped_simple P nm cs form L rest hP hnm hcs hL htok hbom

/-- a label written with character references is the decoded label: `<meta charset="utf&#45;8">`
    declares utf-8 (the partial model gave no answer here) -/
example : fromHTMLBytes (ofString "<meta charset=\"utf&#45;8\">") = none ∧
    fromHTMLBytesFull (ofString "<meta charset=\"utf&#45;8\">") = ofString "utf-8" := by decide +kernel

end Mime.C12
