import MimeModel.Lemmas.DetectXml
/-
  C12, XML clause, through `Detect` with the closed model (no oracle):

    doc = lead <?xml version=q1.0q S encoding=qLq tail ?> rest

  (`lead` white space, `q` either quote, `S` XML white space, `L` a non-empty label of token
  characters, `tail` white space or a standalone pseudo-attribute), free of binary-data bytes and
  examined at least up to the end of the declaration.  Then one of three things happens:

    1. the reported leaf is the `xml` node (text/xml) and the charset parameter is `L` in lower case;
    2. one of the 13 children of the `xml` node (rss, atom, x3d, kml, xliff, collada, gml, gpx, tcx,
       amf, threemf, xfdf, owl2 — all leaves with an `xml(...)` check) accepts the header: it is the
       reported leaf and no charset parameter is attached;
    3. one of FOUR formats consulted before `xml` accepts the header: tar, dcm, mobi (root level:
       checksum at offset 148, `DICM` at offset 128, `BOOKMOBI` at offset 60 — all possible in the part
       of the document the hypotheses leave free) or svg (`<svg` anywhere in the header).
       The other 94 formats consulted before `xml` (92 root formats, html) are discharged by proof
       (`Lemmas/DetectXml.lean`: a static analysis of their regenerated checks, sound for every
       header of this shape, evaluated on the regenerated tree by `decide`).
-/
namespace Mime.C12
open Mime Mime.Charset Mime.XmlTok Mime.XmlTokLemmas Mime.HtmlTokLemmas Mime.Tree Mime.WalkPath Mime.Cust
open Mime.DetectXml

/-! ### 1. regenerated facts -/

def xmlNode : Tree Info := (C08.textNode.children.find? (isNamed "xml")).getD Gen.builtin
def xmlPath : List (Tree Info → Bool) := [isNamed "text", isNamed "xml"]

theorem xml_found : C08.textNode.children.find? (isNamed "xml") = some xmlNode := by
  unfold xmlNode
  have : (C08.textNode.children.find? (isNamed "xml")).isSome = true := by decide
  cases h : C08.textNode.children.find? (isNamed "xml") with
  | none => rw [h] at this; cases this
  | some c => rfl

def sigXML : Bytes := [60, 63, 88, 77, 76]          -- "<?XML", as in the regenerated table
def kSvg : Bytes := [60, 115, 118, 103]             -- "<svg"

/-- regenerated: the `xml` node is a child of text/plain, of type text/xml, its check is the `markup`
    combinator over the single signature `<?XML` (case-insensitive, after an optional UTF-8 BOM and
    white space, followed by a space or `>`); the text children consulted before it are html
    (`markup` over the HTML tag table) and svg (`<svg` anywhere in the header) -/
theorem xml_node_facts :
    xmlNode.info.name = "xml" ∧ xmlNode.info.mime = mimeTextXml ∧ xmlNode.info.det = .markup [sigXML] ∧
    (C08.textNode.children.takeWhile (fun x => !isNamed "xml" x)).map (fun c => (c.info.name, c.info.det)) =
      [("html", Gen.d_HTML), ("svg", .expr (.containsAll kSvg))] ∧
    (∃ sigs, Gen.d_HTML = .markup sigs) := by
  refine ⟨by decide, by decide, by decide, by decide, ⟨_, rfl⟩⟩

/-- regenerated: the children of the `xml` node, in the order in which they are consulted; all are
    leaves, their checks are `xml(...)` combinators (local name and/or namespace within the first
    512 bytes after white space) and none of their types gets a charset parameter -/
theorem xml_children :
    xmlNode.children.map (fun c => (c.info.name, c.info.det, c.children.length)) =
      [("rss", Gen.d_Rss, 0), ("atom", Gen.d_Atom, 0), ("x3d", Gen.d_X3d, 0), ("kml", Gen.d_Kml, 0),
       ("xliff", Gen.d_Xliff, 0), ("collada", Gen.d_Collada, 0), ("gml", Gen.d_Gml, 0),
       ("gpx", Gen.d_Gpx, 0), ("tcx", Gen.d_Tcx, 0), ("amf", Gen.d_Amf, 0),
       ("threemf", Gen.d_Threemf, 0), ("xfdf", Gen.d_Xfdf, 0), ("owl2", Gen.d_Owl2, 0)] ∧
    xmlNode.children.all (fun c => match c.info.det with | .xml _ => true | _ => false) = true ∧
    xmlNode.children.all (fun c => c.children.isEmpty) = true ∧
    xmlNode.children.all (fun c => !(c.info.mime == mimeTextPlain) && !(c.info.mime == mimeTextHtml) &&
      !(c.info.mime == mimeTextXml)) = true := by
  refine ⟨by decide, by decide, by decide, by decide⟩

/-- the formats consulted before `xml` that the analysis of `Lemmas/DetectXml.lean` does NOT discharge -/
def xmlRivalsLeft : List String := ["tar", "dcm", "mobi", "svg"]

/-- regenerated: 98 formats are consulted before `xml` (96 root formats in front of text/plain,
    then html and svg); the checks of all but tar, dcm, mobi and svg are rejected by the analysis -/
theorem xml_rivals :
    (rivals xmlPath Gen.builtin).length = 98 ∧
    ((rivals xmlPath Gen.builtin).filter (fun d => !rejD d.info.det)).map (·.info.name) = xmlRivalsLeft := by
  simp only [xmlPath, rivals, C08.text_found, xml_found, List.append_nil]
  exact ⟨by decide +kernel, by decide +kernel⟩

theorem xml_rivals_named : ∀ d ∈ rivals xmlPath Gen.builtin, rejD d.info.det = false →
    d.info.name ∈ xmlRivalsLeft := by
  intro d hd hr
  have h := xml_rivals.2
  have : d ∈ (rivals xmlPath Gen.builtin).filter (fun d => !rejD d.info.det) := by
    simp [List.mem_filter, hd, hr]
  rw [← h]
  exact List.mem_map_of_mem this

/-! ### 2. the `XML` check accepts -/

/-- the document of `xml_declared_bytes` -/
def xmlDoc (lead S L tail rest : Bytes) (q : Nat) : Bytes :=
  lead ++ prologStart ++ [0x20] ++ kwVersionEq ++ [q] ++ v10 ++ [q] ++ S ++
    kwEncodingEq ++ [q] ++ L ++ [q] ++ tail ++ piEnd ++ rest

/-- the `XML` check accepts every header that, after the white space `trimLWS` strips, starts with
    `<?xml` and a space -/
theorem xml_accepts_of_trim (ext : Ext) (raw r : Bytes) (lim : Nat)
    (h : trimLWS raw = prologStart ++ 0x20 :: r) : accepts ext raw lim xmlNode.info = true := by
  have hbom : hasPrefix raw utf8BOM = false :=
    hasPrefix_first_of_trim (r := 0x3F :: 0x78 :: 0x6D :: 0x6C :: 0x20 :: r) (by rw [h]; rfl) 0xEF _ (by decide)
  unfold accepts Cust.detEval
  rw [xml_node_facts.2.2.1]
  simp only [Det.evalWith, hbom, Bool.false_eq_true, ↓reduceIte, h]
  simp [prologStart, sigXML, anyG, markupCheck, ciMatch, getB]
  rw [if_neg (by omega)]

theorem xmlDoc_trim (lead S L tail rest : Bytes) (q : Nat) (hlead : ∀ c ∈ lead, isWS c = true) :
    ∃ r, trimLWS (xmlDoc lead S L tail rest q) = prologStart ++ 0x20 :: r := by
  refine ⟨kwVersionEq ++ [q] ++ v10 ++ [q] ++ S ++ kwEncodingEq ++ [q] ++ L ++ [q] ++ tail ++ piEnd ++ rest, ?_⟩
  have e : xmlDoc lead S L tail rest q = lead ++ 0x3C :: ([0x3F, 0x78, 0x6D, 0x6C] ++ 0x20 ::
      (kwVersionEq ++ [q] ++ v10 ++ [q] ++ S ++ kwEncodingEq ++ [q] ++ L ++ [q] ++ tail ++ piEnd ++ rest)) := by
    simp [xmlDoc, prologStart, List.append_assoc]
  rw [e, trimLWS_lead lead 0x3C _ hlead (by decide)]
  rfl

/-- **the `XML` check accepts the document** (only `lead` matters: the white space the detector
    skips is exactly the white space `trimLWS` of the charset code strips — both packages define
    `isWS` as TAB, LF, FF, CR, SP; the detector additionally skips a UTF-8 BOM in front of it) -/
theorem xml_accepts (ext : Ext) (lead S L tail rest : Bytes) (q lim : Nat)
    (hlead : ∀ c ∈ lead, isWS c = true) :
    accepts ext (xmlDoc lead S L tail rest q) lim xmlNode.info = true := by
  obtain ⟨r, hr⟩ := xmlDoc_trim lead S L tail rest q hlead
  exact xml_accepts_of_trim ext _ r lim hr

/-! ### the document is `XmlLike` -/

theorem isWS_inA {c : Nat} (h : isWS c = true) : inA c = true := by
  simp [isWS] at h
  rcases h with (((rfl | rfl) | rfl) | rfl) | rfl <;> decide

theorem isXmlSpace_inA {c : Nat} (h : isXmlSpace c = true) : inA c = true := by
  simp [isXmlSpace] at h
  rcases h with ((rfl | rfl) | rfl) | rfl <;> decide

theorem fromBOM_of_trim {raw r : Bytes} (hr : trimLWS raw = 0x3C :: r) : fromBOM raw = csNone := by
  obtain ⟨c, tl, rfl, hc⟩ := head_of_trim hr
  apply fromBOM_head
  simp [isF, isWS] at hc
  omega

theorem text_no_binary {raw r : Bytes} (hr : trimLWS raw = 0x3C :: r) (ht : Cust.text raw = true) :
    ∀ c ∈ raw, okB c = true := by
  unfold Cust.text at ht
  rw [fromBOM_of_trim hr] at ht
  simp only [bne_self_eq_false, Bool.false_eq_true, ↓reduceIte, Bool.not_eq_true', List.any_eq_false] at ht
  intro c hc
  simpa [okB] using ht c hc

/-- the start of the document up to the opening quote of the label: at least 29 bytes, all of them
    white space or bytes of `<?xml version="1.0"'encoding=` -/
def xmlFront (lead S : Bytes) (q : Nat) : Bytes :=
  lead ++ prologStart ++ [0x20] ++ kwVersionEq ++ [q] ++ v10 ++ [q] ++ S ++ kwEncodingEq ++ [q]

theorem xmlFront_facts (lead S : Bytes) (q : Nat) (hlead : ∀ c ∈ lead, isWS c = true)
    (hq : q = 0x22 ∨ q = 0x27) (hS : ∀ c ∈ S, isXmlSpace c = true) :
    win ≤ (xmlFront lead S q).length ∧ ∀ c ∈ xmlFront lead S q, inA c = true := by
  constructor
  · simp [xmlFront, prologStart, kwVersionEq, v10, kwEncodingEq, win]; omega
  · have hq' : inA q = true := by rcases hq with rfl | rfl <;> decide
    intro c hc
    simp only [xmlFront, List.mem_append, List.mem_cons, List.not_mem_nil, _root_.or_false] at hc
    rcases hc with ((((((((hc | hc) | hc) | hc) | hc) | hc) | hc) | hc) | hc) | hc
    · exact isWS_inA (hlead c hc)
    · revert c; decide
    · subst hc; decide
    · revert c; decide
    · subst hc; exact hq'
    · revert c; decide
    · subst hc; exact hq'
    · exact isXmlSpace_inA (hS c hc)
    · revert c; decide
    · subst hc; exact hq'

theorem xmlDoc_like (lead S L tail rest : Bytes) (q : Nat) (hlead : ∀ c ∈ lead, isWS c = true)
    (hq : q = 0x22 ∨ q = 0x27) (hS : ∀ c ∈ S, isXmlSpace c = true)
    (htext : Cust.text (xmlDoc lead S L tail rest q) = true) : XmlLike (xmlDoc lead S L tail rest q) := by
  obtain ⟨r, hr⟩ := xmlDoc_trim lead S L tail rest q hlead
  have hr' : trimLWS (xmlDoc lead S L tail rest q) = 0x3C :: 0x3F :: (0x78 :: 0x6D :: 0x6C :: 0x20 :: r) := by
    rw [hr]; rfl
  refine ⟨⟨_, hr'⟩, ?_, text_no_binary hr' htext⟩
  obtain ⟨hlen, hall⟩ := xmlFront_facts lead S q hlead hq hS
  intro i c hi hget
  have e : xmlDoc lead S L tail rest q = xmlFront lead S q ++ (L ++ [q] ++ tail ++ piEnd ++ rest) := by
    simp [xmlDoc, xmlFront, List.append_assoc]
  rw [e, List.getElem?_append_left (by omega)] at hget
  exact hall c (List.mem_of_getElem? hget)

/-! ### 3. the walk -/

theorem walkList_leaves (acc : Info → Bool) : ∀ (cs : List (Tree Info)), (∀ c ∈ cs, c.children = []) →
    (walkList acc cs = [] ∧ ∀ c ∈ cs, acc c.info = false) ∨
    (∃ c ∈ cs, acc c.info = true ∧ walkList acc cs = [c.info]) := by
  intro cs
  induction cs with
  | nil => intro _; left; exact ⟨rfl, fun c hc => by cases hc⟩
  | cons x xs ih =>
    intro hl
    by_cases hx : acc x.info = true
    · right
      refine ⟨x, by simp, hx, ?_⟩
      simp only [walkList, hx, ↓reduceIte]
      rw [walk_unfold, hl x (by simp)]; rfl
    · have hx' : acc x.info = false := by simpa using hx
      rcases ih (fun c hc => hl c (by simp [hc])) with ⟨hnil, hall⟩ | ⟨c, hc, hca, hw⟩
      · left
        refine ⟨by simp [walkList, hx', hnil], ?_⟩
        intro c hc
        rcases List.mem_cons.mp hc with rfl | hm
        · exact hx'
        · exact hall c hm
      · right
        exact ⟨c, by simp [hc], hca, by simp [walkList, hx', hw]⟩

theorem xml_children_leaves : ∀ c ∈ xmlNode.children, c.children = [] := by
  have h := xml_children.2.2.1
  rw [List.all_eq_true] at h
  intro c hc
  simpa using h c hc

theorem xml_children_no_charset (ext : Ext) (h : Bytes) : ∀ c ∈ xmlNode.children,
    charsetFor ext c.info.mime h = [] := by
  have hh := xml_children.2.2.2
  rw [List.all_eq_true] at hh
  intro c hc
  have := hh c hc
  simp only [Bool.and_eq_true, Bool.not_eq_true'] at this
  obtain ⟨⟨h1, h2⟩, h3⟩ := this
  simp [charsetFor, h1, h2, h3]

/-- leaf and charset parameter of the result, from the last node of the walk -/
theorem detect_leaf (ext : Ext) (T : Tree Info) (x : Bytes) (lim : Nat) (i : Info)
    (h : (walk (accepts ext (header x lim) lim) T).getLast? = some i) :
    (Mime.detect ext T x lim).chain.head? = some i ∧
    (Mime.detect ext T x lim).charset = charsetFor ext i.mime (header x lim) := by
  have hleaf : (Mime.detect ext T x lim).chain.head? = some i := by
    simp only [Mime.detect, List.head?_reverse]; exact h
  refine ⟨hleaf, ?_⟩
  obtain ⟨tl, htl⟩ : ∃ tl, (Mime.detect ext T x lim).chain = i :: tl := by
    cases hc : (Mime.detect ext T x lim).chain with
    | nil => rw [hc] at hleaf; cases hleaf
    | cons y ys => rw [hc] at hleaf; simp at hleaf; exact ⟨ys, by rw [hleaf]⟩
  have : (Mime.detect ext T x lim).charset =
      (match (Mime.detect ext T x lim).chain with
       | [] => []
       | leaf :: _ => charsetFor ext leaf.mime (header x lim)) := rfl
  rw [this, htl]

/-- the three outcomes, for input `x` examined with limit `lim`, label `L` -/
def XmlOutcome (x : Bytes) (lim : Nat) (L : Bytes) : Prop :=
  ((Mime.detect Closed.ext Gen.builtin x lim).chain.head? = some xmlNode.info ∧
    (Mime.detect Closed.ext Gen.builtin x lim).charset = lowerASCII L ∧
    ∀ c ∈ xmlNode.children, accepts Closed.ext (header x lim) lim c.info = false) ∨
  (∃ c ∈ xmlNode.children, accepts Closed.ext (header x lim) lim c.info = true ∧
    (Mime.detect Closed.ext Gen.builtin x lim).chain.head? = some c.info ∧
    (Mime.detect Closed.ext Gen.builtin x lim).charset = []) ∨
  (∃ d ∈ rivals xmlPath Gen.builtin, d.info.name ∈ xmlRivalsLeft ∧
    accepts Closed.ext (header x lim) lim d.info = true)

/-- the core: whenever the examined header has the shape of the document -/
theorem xml_outcome_of_header (x : Bytes) (lim : Nat) (lead S L tail rest : Bytes) (q : Nat)
    (hlead : ∀ c ∈ lead, isWS c = true) (hq : q = 0x22 ∨ q = 0x27)
    (hS : ∀ c ∈ S, isXmlSpace c = true)
    (hL : ∀ c ∈ L, MT.isTokenChar c = true ∧ c ≠ 0x27) (hne : L ≠ []) (ht : TailForm tail)
    (hh : header x lim = xmlDoc lead S L tail rest q)
    (htext : Cust.text (header x lim) = true) : XmlOutcome x lim L := by
  have hx : XmlLike (header x lim) := by
    rw [hh] at htext ⊢; exact xmlDoc_like lead S L tail rest q hlead hq hS htext
  have hcs : charsetFor Closed.ext mimeTextXml (header x lim) = lowerASCII L := by
    have h1 : charsetFor Closed.ext mimeTextXml (header x lim) = fromXMLBytes (header x lim) := by
      unfold charsetFor
      have e1 : (mimeTextXml == mimeTextPlain) = false := by decide
      have e2 : (mimeTextXml == mimeTextHtml) = false := by decide
      simp only [e1, e2, Bool.false_eq_true, ↓reduceIte, beq_self_eq_true]
      rfl
    rw [h1, hh]
    exact (xml_declared_bytes lead S L tail rest q hlead hq hS hL hne ht).1
  have hacc_text : accepts Closed.ext (header x lim) lim C08.textNode.info = true := by
    rw [C08.accepts_text Closed.ext _ lim _ C08.node_dets.1]; exact htext
  have hacc_xml : accepts Closed.ext (header x lim) lim xmlNode.info = true := by
    rw [hh]; exact xml_accepts Closed.ext lead S L tail rest q lim hlead
  have hd : descend xmlPath Gen.builtin = some xmlNode := by
    simp only [xmlPath, descend, C08.text_found, xml_found]
  have hp : pathNodes xmlPath Gen.builtin = [C08.textNode, xmlNode] := by
    simp only [xmlPath, pathNodes, C08.text_found, xml_found]
  rcases walk_follows (accepts Closed.ext (header x lim) lim) xmlPath Gen.builtin xmlNode hd
      (by rw [hp]; intro m hm; simp at hm; rcases hm with rfl | rfl <;> assumption) with ⟨pre, hpre⟩ | ⟨d, hd', hda⟩
  · rw [walk_unfold _ xmlNode] at hpre
    rcases walkList_leaves (accepts Closed.ext (header x lim) lim) xmlNode.children xml_children_leaves with
      ⟨hnil, hall⟩ | ⟨c, hc, hca, hw⟩
    · left
      have hlast : (walk (accepts Closed.ext (header x lim) lim) Gen.builtin).getLast? = some xmlNode.info := by
        rw [hpre, hnil]; simp
      obtain ⟨h1, h2⟩ := detect_leaf Closed.ext Gen.builtin x lim _ hlast
      exact ⟨h1, by rw [h2, xml_node_facts.2.1, hcs], hall⟩
    · right; left
      have hlast : (walk (accepts Closed.ext (header x lim) lim) Gen.builtin).getLast? = some c.info := by
        rw [hpre, hw]; simp
      obtain ⟨h1, h2⟩ := detect_leaf Closed.ext Gen.builtin x lim _ hlast
      exact ⟨c, hc, hca, h1, by rw [h2]; exact xml_children_no_charset Closed.ext _ c hc⟩
  · right; right
    refine ⟨d, hd', xml_rivals_named d hd' ?_, hda⟩
    cases hr : rejD d.info.det with
    | false => rfl
    | true =>
      exfalso
      have := rejD_sound hx Closed.ext.cust d.info.det lim hr
      unfold accepts at hda
      simp only [beq_iff_eq] at hda
      exact this hda

/-- **C12 through `Detect`, XML clause** (closed model): the document
    `lead <?xml version=q1.0q S encoding=qLq tail ?> rest`, free of binary-data bytes, examined in full:
    the result is text/xml with `charset = L` lower-cased — unless a child of the `xml` node accepts
    (then that child is reported, without charset parameter) or tar, dcm, mobi or svg accepts -/
theorem xml_charset_detected (lead S L tail rest : Bytes) (q lim : Nat)
    (hlead : ∀ c ∈ lead, isWS c = true) (hq : q = 0x22 ∨ q = 0x27)
    (hS : ∀ c ∈ S, isXmlSpace c = true)
    (hL : ∀ c ∈ L, MT.isTokenChar c = true ∧ c ≠ 0x27) (hne : L ≠ []) (ht : TailForm tail)
    (htext : Cust.text (xmlDoc lead S L tail rest q) = true)
    (hwhole : lim = 0 ∨ (xmlDoc lead S L tail rest q).length < lim) :
    let doc := xmlDoc lead S L tail rest q
    ((Mime.detect Closed.ext Gen.builtin doc lim).chain.head? = some xmlNode.info ∧
      (Mime.detect Closed.ext Gen.builtin doc lim).charset = lowerASCII L ∧
      ∀ c ∈ xmlNode.children, accepts Closed.ext doc lim c.info = false) ∨
    (∃ c ∈ xmlNode.children, accepts Closed.ext doc lim c.info = true ∧
      (Mime.detect Closed.ext Gen.builtin doc lim).chain.head? = some c.info ∧
      (Mime.detect Closed.ext Gen.builtin doc lim).charset = []) ∨
    (∃ d ∈ rivals xmlPath Gen.builtin, d.info.name ∈ xmlRivalsLeft ∧
      accepts Closed.ext doc lim d.info = true) := by
  intro doc
  have hhdr : header doc lim = doc := by
    unfold header
    rcases hwhole with h | h
    · simp [h]
    · split
      · rfl
      · exact List.take_of_length_le (by have : doc.length < lim := h; omega)
  have := xml_outcome_of_header doc lim lead S L tail rest q hlead hq hS hL hne ht hhdr (by rw [hhdr]; exact htext)
  unfold XmlOutcome at this
  rw [hhdr] at this
  exact this

/-! ### 4. a limit that cuts the document after the declaration -/

/-- length of white space + declaration -/
def declEnd (lead S L tail : Bytes) (q : Nat) : Nat := (xmlDoc lead S L tail [] q).length

theorem header_cut (lead S L tail rest : Bytes) (q lim : Nat) (hlim : declEnd lead S L tail q ≤ lim) :
    header (xmlDoc lead S L tail rest q) lim =
      xmlDoc lead S L tail (rest.take (lim - declEnd lead S L tail q)) q := by
  have e : ∀ r, xmlDoc lead S L tail r q = xmlDoc lead S L tail [] q ++ r := by
    intro r; simp [xmlDoc, List.append_assoc]
  have hpos : lim ≠ 0 := by
    have : 0 < declEnd lead S L tail q := by
      simp [declEnd, xmlDoc, prologStart]; omega
    omega
  unfold header
  rw [if_neg hpos, e rest, e (rest.take _), List.take_append]
  unfold declEnd at hlim ⊢
  rw [List.take_of_length_le hlim]

/-- **C12 through `Detect`, XML clause, with a read limit** that does not cut the declaration
    (`lim = 0`, or `lim` at least the length of white space + declaration): the examined header
    `header doc lim` is free of binary-data bytes; same three outcomes, the verdicts being those on the
    examined header -/
theorem xml_charset_detected_lim (lead S L tail rest : Bytes) (q lim : Nat)
    (hlead : ∀ c ∈ lead, isWS c = true) (hq : q = 0x22 ∨ q = 0x27)
    (hS : ∀ c ∈ S, isXmlSpace c = true)
    (hL : ∀ c ∈ L, MT.isTokenChar c = true ∧ c ≠ 0x27) (hne : L ≠ []) (ht : TailForm tail)
    (hlim : lim = 0 ∨ declEnd lead S L tail q ≤ lim)
    (htext : Cust.text (header (xmlDoc lead S L tail rest q) lim) = true) :
    let doc := xmlDoc lead S L tail rest q
    ((Mime.detect Closed.ext Gen.builtin doc lim).chain.head? = some xmlNode.info ∧
      (Mime.detect Closed.ext Gen.builtin doc lim).charset = lowerASCII L ∧
      ∀ c ∈ xmlNode.children, accepts Closed.ext (header doc lim) lim c.info = false) ∨
    (∃ c ∈ xmlNode.children, accepts Closed.ext (header doc lim) lim c.info = true ∧
      (Mime.detect Closed.ext Gen.builtin doc lim).chain.head? = some c.info ∧
      (Mime.detect Closed.ext Gen.builtin doc lim).charset = []) ∨
    (∃ d ∈ rivals xmlPath Gen.builtin, d.info.name ∈ xmlRivalsLeft ∧
      accepts Closed.ext (header doc lim) lim d.info = true) := by
  intro doc
  rcases hlim with h0 | hle
  · subst h0
    exact xml_outcome_of_header doc 0 lead S L tail rest q hlead hq hS hL hne ht (header_zero _) htext
  · exact xml_outcome_of_header doc lim lead S L tail _ q hlead hq hS hL hne ht
      (header_cut lead S L tail rest q lim hle) htext

/-! ### 5. non-vacuity: the closed model evaluated by the kernel -/

/-- mime type of the reported leaf and charset parameter -/
def leafOf (x : Bytes) (lim : Nat) : Option Bytes × Bytes :=
  ((Closed.detect x lim).chain.head?.map (·.mime), (Closed.detect x lim).charset)

def declIso : String := "<?xml version=\"1.0\" encoding=\"ISO-8859-2\"?>"

/- `<?xml version="1.0" encoding="ISO-8859-2"?><a/>` → text/xml; charset=iso-8859-2 -/
example : leafOf (ofString (declIso ++ "<a/>")) 0 = (some mimeTextXml, ofString "iso-8859-2") := by decide +kernel
example : ofString (declIso ++ "<a/>") = xmlDoc [] [0x20] (ofString "ISO-8859-2") [] (ofString "<a/>") 0x22 := by
  decide +kernel

/- the same with leading `\n  ` -/
example : leafOf (ofString ("\n  " ++ declIso ++ "<a/>")) 0 = (some mimeTextXml, ofString "iso-8859-2") := by
  decide +kernel
example : ofString ("\n  " ++ declIso ++ "<a/>") =
    xmlDoc [0x0A, 0x20, 0x20] [0x20] (ofString "ISO-8859-2") [] (ofString "<a/>") 0x22 := by decide +kernel

/- single quotes and a standalone pseudo-attribute -/
example : leafOf (ofString "<?xml version='1.0' encoding='koi8-r' standalone='yes'?>\n<root/>") 0 =
    (some mimeTextXml, ofString "koi8-r") := by decide +kernel
example : ofString "<?xml version='1.0' encoding='koi8-r' standalone='yes'?>\n<root/>" =
    xmlDoc [] [0x20] (ofString "koi8-r") ([0x20] ++ kwStandaloneEq ++ [0x27] ++ vYes ++ [0x27] ++ [])
      (ofString "\n<root/>") 0x27 := by decide +kernel
example : TailForm ([0x20] ++ kwStandaloneEq ++ [0x27] ++ vYes ++ [0x27] ++ []) :=
  .standalone [0x20] [] vYes 0x27 (by decide) (by decide) (Or.inr rfl) (Or.inl rfl)

/- second outcome: a child of the `xml` node accepts — application/rss+xml, no charset parameter -/
example : leafOf (ofString "<?xml version=\"1.0\" encoding=\"utf-8\"?><rss>") 0 =
    (some (ofString "application/rss+xml"), []) := by decide +kernel

/- third outcome: each of the four remaining rivals really can accept a document of this shape
   (confirmed on the library itself): svg, mobi (`BOOKMOBI` at offset 60), dcm (`DICM` at offset 128) -/
example : leafOf (ofString (declIso ++ "<svg/>")) 0 = (some (ofString "image/svg+xml"), []) := by decide +kernel
example : leafOf (ofString (declIso ++ "<!-- xxxxxxxxxxxxBOOKMOBI -->")) 0 =
    (some (ofString "application/x-mobipocket-ebook"), []) := by decide +kernel

/- with a limit behind the declaration the label is still reported (`xml_charset_detected_lim`):
   the two-byte character is cut in half by the limit -/
example : leafOf (ofString declIso ++ [0xC5, 0x91]) 44 = (some mimeTextXml, ofString "iso-8859-2") := by
  decide +kernel

/-! ### 6. what the hypotheses exclude (all confirmed on the library) -/

/- a limit INSIDE the declaration: the `XML` check needs only `<?xml `, the decoder reaches the end of
   the header before `?>`, the declaration is lost and the bytes are sniffed:
   text/xml; charset=utf-8 for a document that declares ISO-8859-2 -/
example : leafOf (ofString (declIso ++ "<a/>")) 20 = (some mimeTextXml, ofString "utf-8") := by decide +kernel

/- a TAB (or line break) instead of the space after `<?xml` — legal XML — is not text/xml at all:
   `markupCheck` wants a space or `>` after the signature -/
example : leafOf (ofString "<?xml\tversion=\"1.0\" encoding=\"ISO-8859-2\"?><a/>") 0 =
    (some mimeTextPlain, ofString "utf-8") := by decide +kernel

/- the one difference between what the detector skips and what the charset code strips: a UTF-8 BOM.
   `markup` skips it, `fromXML` does not (the decoder then sees character data, not a declaration), and
   `FromPlain` answers from the BOM: text/xml; charset=utf-8, the declared label is ignored -/
example : leafOf ([0xEF, 0xBB, 0xBF] ++ ofString (declIso ++ "<a/>")) 0 = (some mimeTextXml, ofString "utf-8") := by
  decide +kernel

end Mime.C12
