import MimeModel.Lemmas.Sig
import MimeModel.Lemmas.JsonFuel
import MimeModel.Lemmas.Tree
import MimeModel.Model.Detect
import MimeModel.Gen.Tree
/-
  C01 — detection never crashes and always answers.

  In the model every Go index / slice expression of a signature check is a *checked*
  operation (`none` = the Go code would panic).  The theorems below show that no
  signature check of the current tree can evaluate to `none`, for every input and every
  limit, and that `Detect` always yields a non-empty hierarchy.  Termination is the
  totality of the Lean definitions (structural recursion; the JSON scanner recurses on
  fuel, see `json_fuel_*`).
-/
namespace Mime.C01
open Mime Mime.Cust

/-- static bounds check of a descriptor: translated expressions are analysed, the
    hand-modelled kinds are covered by the lemmas below -/
def Det.staticSafe : Det → Bool
  | .expr e => e.safe 0
  | .custom .unknown => false
  | _ => true

/-- **regenerated obligation**: every signature check extracted from internal/magic
    passes the static bounds analysis, and none is left unmodelled -/
theorem all_detectors_static_safe : Gen.dets.all (fun d => Det.staticSafe d.2) = true := by decide

/-- **regenerated obligation**: every node of tree.go uses a modelled detector -/
theorem coverage_complete :
    Gen.builtin.flatten.all (fun i => Det.staticSafe i.det) = true := by decide

theorem ciMatch_total (sig raw : Bytes) (h : sig.length ≤ raw.length) : ∃ v, ciMatch sig raw = some v := by
  induction sig generalizing raw with
  | nil => exact ⟨_, rfl⟩
  | cons b bs ih =>
    cases raw with
    | nil => simp at h
    | cons d ds =>
      simp only [ciMatch]
      repeat' split
      all_goals first | exact ⟨_, rfl⟩ | exact ih ds (by simpa using h)

theorem ciCheck_total (sig raw : Bytes) : ∃ v, ciCheck sig raw = some v := by
  unfold ciCheck
  split
  · exact ⟨_, rfl⟩
  · exact ciMatch_total sig raw (by omega)

theorem markupCheck_total (sig raw : Bytes) : ∃ v, markupCheck sig raw = some v := by
  unfold markupCheck
  split
  · exact ⟨_, rfl⟩
  · rename_i h
    obtain ⟨v, hv⟩ := ciMatch_total sig raw (by omega)
    rw [hv]
    cases v with
    | false => exact ⟨_, rfl⟩
    | true =>
      simp only
      rw [getB_isSome (by omega)]
      exact ⟨_, rfl⟩

theorem shebangCheck_total (sig raw : Bytes) : ∃ v, shebangCheck sig raw = some v := by
  unfold shebangCheck
  split
  · exact ⟨_, rfl⟩
  · rw [getB_isSome (by omega), getB_isSome (by omega)]
    simp only
    split <;> exact ⟨_, rfl⟩

theorem anyG_total {α} (f : α → Option Bool) (l : List α) (h : ∀ a ∈ l, ∃ v, f a = some v) :
    ∃ v, anyG f l = some v := by
  induction l with
  | nil => exact ⟨_, rfl⟩
  | cons a as ih =>
    obtain ⟨v, hv⟩ := h a (List.mem_cons_self ..)
    simp only [anyG, hv]
    cases v with
    | true => exact ⟨_, rfl⟩
    | false => exact ih (fun b hb => h b (List.mem_cons_of_mem _ hb))

/-- regenerated fact: `Zip` (called by `CRX` on a suffix) is a safe expression -/
theorem zip_is_safe_expr : ∃ e, Gen.d_Zip = .expr e ∧ e.safe 0 = true := ⟨_, rfl, by decide⟩

theorem crx_total (raw : Bytes) : ∃ v, crx raw = some v := by
  unfold crx
  split
  · exact ⟨_, rfl⟩
  · rename_i h
    have hl : 16 ≤ raw.length := by
      simp only [Bool.or_eq_true, decide_eq_true_eq, not_or, Nat.not_lt] at h; exact h.1
    rw [getU32le_isSome (by omega), getU32le_isSome (by omega)]
    simp only
    split
    · exact ⟨_, rfl⟩
    · rename_i h2
      have : (16 + u32le raw 8 + u32le raw 12) % 4294967296 ≤ raw.length := by
        have := Nat.mod_le raw.length 4294967296
        omega
      rw [if_pos this]
      obtain ⟨e, he, hs⟩ := zip_is_safe_expr
      rw [he]
      exact BExp.safe_sound e 0 _ hs (Nat.zero_le _)

theorem matroska_total (raw fl : Bytes) : ∃ v, matroska raw fl = some v := by
  unfold matroska
  split
  · exact ⟨_, rfl⟩
  · split
    · exact ⟨_, rfl⟩
    · rename_i ind _
      split
      · rename_i h
        simp only [Bool.and_eq_true, decide_eq_true_eq] at h
        rw [getB_isSome (by omega)]
        simp only
        split
        · rename_i h3
          rw [if_pos (by omega)]; exact ⟨_, rfl⟩
        · exact ⟨_, rfl⟩
      · exact ⟨_, rfl⟩

/-- every combinator kind is panic-free, for every table (so for whatever `Gen/Sigs`
    contains now), and every hand-modelled custom check is panic-free -/
theorem evalWith_total (ext : Custom → Bytes → Nat → Bool) (d : Det) (hs : Det.staticSafe d = true)
    (raw : Bytes) (lim : Nat) : ∃ v, detEval ext d raw lim = some v := by
  unfold detEval
  cases d with
  | expr e => exact BExp.safe_sound e 0 raw (by simpa [Det.staticSafe] using hs) (Nat.zero_le _)
  | ciPrefix sigs => exact anyG_total _ _ (fun s _ => ciCheck_total s raw)
  | markup sigs =>
    simp only [Det.evalWith]
    repeat' split
    all_goals first | exact ⟨_, rfl⟩ | exact anyG_total _ _ (fun s _ => markupCheck_total s _)
  | xml sigs =>
    simp only [Det.evalWith]
    split <;> exact ⟨_, rfl⟩
  | shebang sigs => exact anyG_total _ _ (fun s _ => shebangCheck_total s _)
  | custom c =>
    simp only [Det.evalWith, custEval]
    cases c with
    | unknown => simp [Det.staticSafe] at hs
    | text | json | geojson | har | gltf | ndjson | tar => exact ⟨_, rfl⟩
    | srt | csv | tsv => exact ⟨_, rfl⟩
    | crx => exact crx_total raw
    | webm => exact matroska_total raw kWebm
    | mkv => exact matroska_total raw kMatroska
    | php =>
      simp only [customModel]
      obtain ⟨v, hv⟩ : ∃ v, Gen.d_phpPageF.evalWith noCustom raw lim = some v :=
        anyG_total _ _ (fun s _ => ciCheck_total s raw)
      rw [hv]
      cases v with
      | true => exact ⟨_, rfl⟩
      | false => exact anyG_total _ _ (fun s _ => shebangCheck_total s _)

/-- **C01 (a)**: every registered signature check, called directly with any
    (header, limit) pair, returns without panicking -/
theorem magic_safe (ext : Custom → Bytes → Nat → Bool) :
    ∀ d ∈ Gen.dets, ∀ (raw : Bytes) (lim : Nat), ∃ v, detEval ext d.2 raw lim = some v := by
  intro d hd raw lim
  have := all_detectors_static_safe
  rw [List.all_eq_true] at this
  exact evalWith_total ext d.2 (this d hd) raw lim

/-- **C01 (b)**: every detector attached to a node of the current tree is panic-free -/
theorem tree_detectors_safe (ext : Custom → Bytes → Nat → Bool) :
    ∀ i ∈ Gen.builtin.flatten, ∀ (raw : Bytes) (lim : Nat), ∃ v, detEval ext i.det raw lim = some v := by
  intro i hi raw lim
  have := coverage_complete
  rw [List.all_eq_true] at this
  exact evalWith_total ext i.det (this i hi) raw lim

/-- **C01 (c)**: `Detect` always answers: the reported hierarchy is never empty (for
    every tree, input and limit) -/
theorem detect_total (ext : Ext) (T : Tree Info) (x : Bytes) (lim : Nat) :
    (detect ext T x lim).chain ≠ [] := by
  simp only [detect]
  intro h
  exact Tree.walk_ne_nil (accepts ext (header x lim) lim) T (by simpa using h)

/- non-vacuity: the zip walk with an attacker-controlled compressed size that wraps
   around uint32 is evaluated, not skipped -/
example : zipContains ([0x50, 0x4B, 3, 4] ++ List.replicate 14 0 ++ [0xCF, 0xFF, 0xFF, 0xFF] ++ List.replicate 40 0x41)
    [0x78, 0x6C, 0x2F] false = some false := by decide

/-- the fuel of the JSON scanner model is a modelling device only: any two fuels above `2·len + 1`
    give the same run, so the unbounded recursion of the Go code terminates with the result the
    model computes with the fuel `parse` supplies -/
theorem json_fuel_irrelevant (qs : List Gen.Json.Query) (cap lvl : Nat) (b : Bytes) (s : Json.PState) (f g : Nat)
    (hf : 2 * b.length + 1 ≤ f) (hg : 2 * b.length + 1 ≤ g) :
    Json.consumeAny qs cap f lvl b s = Json.consumeAny qs cap g lvl b s :=
  JsonPrefix.consumeAny_fuel qs cap lvl b s f g hf hg

end Mime.C01
