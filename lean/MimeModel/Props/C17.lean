import MimeModel.Props.C03
import MimeModel.Lemmas.DetectTie
import MimeModel.Lemmas.Sig
import MimeModel.Gen.Tree
/-
  C17 — raising the read limit never loses a binary identification (built-in tree).

  Every root-level signature check except `text` (tried last) and `ttf` is *monotone*:
  once it accepts a header it accepts every extension of that header.  For translated
  checks this is the static analysis `BExp.pT` (proved sound in Lemmas/Sig.lean); for the
  four hand-modelled ones it is proved here.  `ttf` hands over to the Access formats.
-/
namespace Mime.C17
open Mime Mime.Tree Mime.Cust

/-- monotonicity certificate of a root-level detector -/
def monoCert : Det → Bool
  | .expr e => e.safe 0 && e.pT
  | .custom .tar => true
  | .custom .crx => true
  | .custom .webm => true
  | .custom .mkv => true
  | _ => false

theorem tar_mono (p s : Bytes) (h : tar p = true) : tar (p ++ s) = true := by
  unfold tar at h ⊢
  by_cases hl : p.length < 512
  · simp [hl] at h
  · have hl2 : ¬ (p ++ s).length < 512 := by simp; omega
    simp only [hl, ↓reduceIte] at h
    simp only [hl2, ↓reduceIte]
    rw [List.take_append_of_le_length (by omega)]
    exact h

theorem getB_append (p s : Bytes) (i : Nat) (v : Nat) (h : getB p i = some v) : getB (p ++ s) i = some v := by
  unfold getB at h ⊢
  split at h
  · rename_i hi
    have : i < (p ++ s).length := by simp; omega
    simp only [this, ↓reduceIte]
    rw [getD_append_left p s i hi]; exact h
  · cases h

theorem u32le_append (p s : Bytes) (o : Nat) (h : o + 4 ≤ p.length) : u32le (p ++ s) o = u32le p o := by
  simp only [u32le]
  rw [getD_append_left p s o (by omega), getD_append_left p s (o+1) (by omega),
    getD_append_left p s (o+2) (by omega), getD_append_left p s (o+3) (by omega)]

/-- regenerated fact: `Zip` is a safe, monotone expression -/
theorem zip_expr_mono : ∃ e, Gen.d_Zip = .expr e ∧ e.safe 0 = true ∧ e.pT = true := ⟨_, rfl, by decide, by decide⟩

theorem crx_mono (p s : Bytes) (hlen : (p ++ s).length < 4294967296) (h : crx p = some true) :
    crx (p ++ s) = some true := by
  unfold crx at h ⊢
  by_cases hg : (decide (p.length < 16) || !hasPrefix p [0x43, 0x72, 0x32, 0x34]) = true
  · simp [hg] at h
  · simp only [hg, Bool.false_eq_true, ↓reduceIte] at h
    have hg' : p.length ≥ 16 ∧ hasPrefix p [0x43, 0x72, 0x32, 0x34] = true := by
      simp only [Bool.or_eq_true, decide_eq_true_eq, Bool.not_eq_true', not_or, Nat.not_lt, Bool.not_eq_false] at hg
      exact hg
    have hg2 : (decide ((p ++ s).length < 16) || !hasPrefix (p ++ s) [0x43, 0x72, 0x32, 0x34]) = false := by
      simp only [Bool.or_eq_false_iff, decide_eq_false_iff_not, Nat.not_lt, Bool.not_eq_false']
      exact ⟨by simp; omega, hasPrefix_append s hg'.2⟩
    simp only [hg2, Bool.false_eq_true, ↓reduceIte]
    rw [getU32le_isSome (by omega), getU32le_isSome (by omega)] at h
    rw [getU32le_isSome (by simp; omega), getU32le_isSome (by simp; omega),
      u32le_append p s 8 (by omega), u32le_append p s 12 (by omega)]
    simp only at h ⊢
    generalize (16 + u32le p 8 + u32le p 12) % 4294967296 = off at h ⊢
    by_cases h1 : p.length % 4294967296 < off
    · simp [h1] at h
    · simp only [h1, ↓reduceIte] at h
      have hoff : off ≤ p.length := by have := Nat.mod_le p.length 4294967296; omega
      have h2 : ¬ ((p ++ s).length % 4294967296 < off) := by
        rw [Nat.mod_eq_of_lt hlen]; simp; omega
      simp only [h2, ↓reduceIte]
      simp only [hoff, ↓reduceIte] at h
      have h3 : off ≤ (p ++ s).length := by simp; omega
      simp only [h3, ↓reduceIte]
      rw [List.drop_append_of_le_length hoff]
      obtain ⟨e, he, hs, hp⟩ := zip_expr_mono
      rw [he] at h ⊢
      simp only [evalExpr] at h ⊢
      exact (BExp.preserve e 0 _ s hs (Nat.zero_le _)).1 hp h

theorem indexOf_bound (sep : Bytes) : ∀ (b : Bytes) (k : Nat), indexOf sep b = some k → k + sep.length ≤ b.length := by
  intro b
  induction b with
  | nil =>
    intro k h
    simp only [indexOf] at h
    split at h
    · rename_i he
      have : sep = [] := by simpa using he
      subst this; cases h; simp
    · cases h
  | cons a as ih =>
    intro k h
    simp only [indexOf] at h
    split at h
    · rename_i hp
      cases h
      have := (List.isPrefixOf_iff_prefix.mp hp).length_le
      simpa using this
    · cases hi : indexOf sep as with
      | none => simp [hi] at h
      | some j =>
        simp only [hi, Option.some.injEq] at h
        subst h
        have := ih j hi
        simp; omega

theorem isPrefixOf_of_append (sep b t : Bytes) (h : sep.isPrefixOf (b ++ t) = true) (hl : sep.length ≤ b.length) :
    sep.isPrefixOf b = true := by
  rw [List.isPrefixOf_iff_prefix] at h ⊢
  exact List.prefix_of_prefix_length_le h (List.prefix_append b t) hl

/-- the first occurrence of `sep` in `b` is still the first occurrence in `b ++ t` -/
theorem indexOf_append_some (sep : Bytes) : ∀ (b t : Bytes) (k : Nat), indexOf sep b = some k →
    indexOf sep (b ++ t) = some k := by
  intro b
  induction b with
  | nil =>
    intro t k h
    simp only [indexOf] at h
    split at h
    · rename_i he
      have : sep = [] := by simpa using he
      subst this; cases h
      cases t <;> simp [indexOf]
    · cases h
  | cons a as ih =>
    intro t k h
    simp only [indexOf, List.cons_append] at h ⊢
    split at h
    · rename_i hp
      cases h
      have hp' : sep.isPrefixOf (a :: (as ++ t)) = true := by
        rw [List.isPrefixOf_iff_prefix] at hp ⊢
        have := List.IsPrefix.trans hp (List.prefix_append (a :: as) t)
        simpa using this
      simp [hp']
    · rename_i hnp
      cases hi : indexOf sep as with
      | none => simp [hi] at h
      | some j =>
        simp only [hi, Option.some.injEq] at h
        subst h
        have hb := indexOf_bound sep as j hi
        have hnp' : ¬ sep.isPrefixOf (a :: (as ++ t)) = true := by
          intro hc
          apply hnp
          have : sep.isPrefixOf ((a :: as) ++ t) = true := by simpa using hc
          exact isPrefixOf_of_append sep (a :: as) t this (by simp; omega)
        simp [hnp', ih t j hi]

theorem matroska_mono (fl p s : Bytes) (h : matroska p fl = some true) : matroska (p ++ s) fl = some true := by
  unfold matroska at h ⊢
  by_cases hp : hasPrefix p [0x1A, 0x45, 0xDF, 0xA3] = true
  · have hp2 := hasPrefix_append s hp
    simp only [hp, Bool.not_true, Bool.false_eq_true, ↓reduceIte] at h
    simp only [hp2, Bool.not_true, Bool.false_eq_true, ↓reduceIte]
    cases hi : indexOf [0x42, 0x82] (p.take 4096) with
    | none => simp [hi] at h
    | some ind =>
      simp only [hi] at h
      have hi2 : indexOf [0x42, 0x82] ((p ++ s).take 4096) = some ind := by
        rw [List.take_append]
        exact indexOf_append_some _ _ _ _ hi
      simp only [hi2]
      by_cases hc : (decide (ind > 0) && decide (p.length > ind + 2)) = true
      · simp only [hc, ↓reduceIte] at h
        have hc' : ind > 0 ∧ p.length > ind + 2 := by simpa using hc
        have hc2 : (decide (ind > 0) && decide ((p ++ s).length > ind + 2)) = true := by
          simp; omega
        simp only [hc2, ↓reduceIte]
        cases hg : getB p (ind + 2) with
        | none => simp [hg] at h
        | some v =>
          simp only [hg] at h
          rw [getB_append p s (ind + 2) v hg]
          simp only
          by_cases hn : p.length > ind + 2 + vintWidth v
          · simp only [hn, ↓reduceIte] at h
            have hn2 : (p ++ s).length > ind + 2 + vintWidth v := by simp; omega
            simp only [hn2, ↓reduceIte]
            have h1 : ind + 2 + vintWidth v ≤ p.length := by omega
            have h2 : ind + 2 + vintWidth v ≤ (p ++ s).length := by omega
            simp only [h1, ↓reduceIte, Option.some.injEq] at h
            simp only [h2, ↓reduceIte, Option.some.injEq]
            rw [List.drop_append_of_le_length h1]
            exact hasPrefix_append s h
          · simp [hn] at h
      · simp [hc] at h
  · simp [hp] at h

/-- **monotone root checks**: a certified root-level check that accepts `p` accepts every
    extension `p ++ s` (headers are shorter than 4 GiB: the limit is a `uint32`) -/
theorem accepts_mono (ext : Ext) (d : Det) (hc : monoCert d = true) (p s : Bytes) (l1 l2 : Nat)
    (hlen : (p ++ s).length < 4294967296)
    (h : detEval ext.cust d p l1 = some true) : detEval ext.cust d (p ++ s) l2 = some true := by
  unfold detEval at h ⊢
  cases d with
  | expr e =>
    simp only [monoCert, Bool.and_eq_true] at hc
    exact (BExp.preserve e 0 p s hc.1 (Nat.zero_le _)).1 hc.2 h
  | custom c =>
    cases c with
    | tar =>
      simp only [Det.evalWith, custEval, customModel, Option.some.injEq] at h ⊢
      exact tar_mono p s h
    | crx =>
      simp only [Det.evalWith, custEval, customModel] at h ⊢
      exact crx_mono p s hlen h
    | webm =>
      simp only [Det.evalWith, custEval, customModel] at h ⊢
      exact matroska_mono kWebm p s h
    | mkv =>
      simp only [Det.evalWith, custEval, customModel] at h ⊢
      exact matroska_mono kMatroska p s h
    | text | php | json | geojson | har | gltf | ndjson | srt | csv | tsv | unknown => simp [monoCert] at hc
  | ciPrefix _ | markup _ | xml _ | shebang _ => simp [monoCert] at hc

/-- **regenerated obligation**: every root child of tree.go except the last (`text`) is
    either certified monotone or is `ttf`; a new or edited root format without a
    certificate breaks this -/
theorem root_binary_list :
    Gen.builtin.children.dropLast.all (fun c => monoCert c.info.det || c.info.name == "ttf") = true := by
  decide

/-- **the one non-monotone check hands over**: when `ttf` accepts `p`, then for every
    extension either `ttf` still accepts or one of the Access formats does -/
theorem ttf_hands_over (p s : Bytes) (h : evalExpr Gen.d_Ttf p = some true) :
    evalExpr Gen.d_Ttf (p ++ s) = some true ∨ evalExpr Gen.d_MsAccessAce (p ++ s) = some true ∨
    evalExpr Gen.d_MsAccessMdb (p ++ s) = some true := by
  have hsafe : ∀ raw, ∃ a b c, evalExpr Gen.d_Ttf raw = some a ∧ evalExpr Gen.d_MsAccessAce raw = some b ∧
      evalExpr Gen.d_MsAccessMdb raw = some c ∧ (a = (hasPrefix raw [0, 1, 0, 0] && !b && !c)) := by
    intro raw
    simp only [evalExpr, Gen.d_Ttf, Gen.d_MsAccessAce, Gen.d_MsAccessMdb, BExp.eval, Nat.zero_le, ↓reduceIte,
      List.drop_zero]
    by_cases h5 : 5 ≤ raw.length
    · have h4 : 4 ≤ raw.length := by omega
      simp only [h5, h4, decide_true, ↓reduceIte]
      cases hasPrefix raw [0, 1, 0, 0] <;> cases hasPrefix (List.drop 4 raw) _ <;> cases hasPrefix (List.drop 4 raw) _ <;> simp
    · simp only [h5, decide_false]
      cases hasPrefix raw [0, 1, 0, 0] <;> simp
  obtain ⟨a, b, c, ha, hb, hc, habc⟩ := hsafe (p ++ s)
  obtain ⟨a0, b0, c0, ha0, _, _, habc0⟩ := hsafe p
  rw [ha0] at h
  cases h
  rw [ha, hb, hc]
  have hpre : hasPrefix (p ++ s) [0, 1, 0, 0] = true := by
    have : hasPrefix p [0, 1, 0, 0] = true := by
      cases hq : hasPrefix p [0, 1, 0, 0] <;> simp [hq] at habc0
      rfl
    exact hasPrefix_append s this
  cases b <;> cases c <;> simp [habc, hpre]

/-- regenerated facts used by the lifting theorem -/
theorem tree_facts :
    -- `ttf`, `mdb`, `accdb` are root children in front of `text`, with these detectors
    (Gen.builtin.children.dropLast.any (fun c => c.info.name == "ttf" && decide (c.info.det = Gen.d_Ttf))) = true ∧
    (Gen.builtin.children.dropLast.all (fun c => !(c.info.name == "ttf") || decide (c.info.det = Gen.d_Ttf))) = true ∧
    (Gen.builtin.children.dropLast.any (fun c => decide (c.info.det = Gen.d_MsAccessAce))) = true ∧
    (Gen.builtin.children.dropLast.any (fun c => decide (c.info.det = Gen.d_MsAccessMdb))) = true ∧
    -- no node in front of `text` (at any depth), nor the root, is called text/plain
    (Tree.flattenList Gen.builtin.children.dropLast).all (fun i => !(i.mime == mimeTextPlain)) = true ∧
    (Gen.builtin.info.mime == mimeTextPlain) = false ∧
    -- the last root child is text/plain
    (Gen.builtin.children.getLast?.map (fun c => c.info.mime == mimeTextPlain)) = some true ∧
    -- the three detectors are expressions
    (∃ e, Gen.d_Ttf = .expr e) ∧ (∃ e, Gen.d_MsAccessAce = .expr e) ∧ (∃ e, Gen.d_MsAccessMdb = .expr e) := by
  refine ⟨by decide, by decide, by decide, by decide, by decide, by decide, by decide, ⟨_, rfl⟩, ⟨_, rfl⟩, ⟨_, rfl⟩⟩

/-- "identified as some non-text format": classified below the root, and text/plain
    nowhere in the hierarchy -/
def isBinary (chain : List Info) : Prop := 2 ≤ chain.length ∧ ∀ i ∈ chain, i.mime ≠ mimeTextPlain

theorem detEval_expr (ext : Ext) (d : Det) (e : BExp) (hd : d = .expr e) (raw : Bytes) (l : Nat) :
    detEval ext.cust d raw l = evalExpr d raw := by
  subst hd; rfl

/-- some root child in front of `text` accepts the longer header -/
theorem some_binary_root_accepts (ext : Ext) (p s : Bytes) (l1 l2 : Nat) (hlen : (p ++ s).length < 4294967296)
    (c : Tree Info) (hc : c ∈ Gen.builtin.children.dropLast) (hacc : accepts ext p l1 c.info = true) :
    ∃ j ∈ Gen.builtin.children.dropLast, accepts ext (p ++ s) l2 j.info = true := by
  have hcert := root_binary_list
  rw [List.all_eq_true] at hcert
  have hcc := hcert c hc
  simp only [Bool.or_eq_true] at hcc
  simp only [accepts, beq_iff_eq] at hacc ⊢
  cases hcc with
  | inl hm => exact ⟨c, hc, by simpa using accepts_mono ext c.info.det hm p s l1 l2 hlen hacc⟩
  | inr httf =>
    obtain ⟨f1, f2, f3, f4, _, _, _, ⟨et, het⟩, ⟨ea, hea⟩, ⟨em, hem⟩⟩ := tree_facts
    rw [List.all_eq_true] at f2
    have hdet : c.info.det = Gen.d_Ttf := by
      have := f2 c hc
      simpa [httf] using this
    rw [hdet, detEval_expr ext _ et het] at hacc
    rcases ttf_hands_over p s hacc with h | h | h
    · exact ⟨c, hc, by rw [hdet, detEval_expr ext _ et het]; simpa using h⟩
    · rw [List.any_eq_true] at f3
      obtain ⟨j, hj, hjd⟩ := f3
      have hjd' : j.info.det = Gen.d_MsAccessAce := by simpa using hjd
      exact ⟨j, hj, by rw [hjd', detEval_expr ext _ ea hea]; simpa using h⟩
    · rw [List.any_eq_true] at f4
      obtain ⟨j, hj, hjd⟩ := f4
      have hjd' : j.info.det = Gen.d_MsAccessMdb := by simpa using hjd
      exact ⟨j, hj, by rw [hjd', detEval_expr ext _ em hem]; simpa using h⟩

theorem mem_flattenList_of_mem {α} (l : List (Tree α)) (c : Tree α) (i : α) (hc : c ∈ l) (hi : i ∈ flatten c) :
    i ∈ flattenList l := by
  induction l with
  | nil => cases hc
  | cons x xs ih =>
    simp only [flattenList, List.mem_append]
    cases hc with
    | head => left; exact hi
    | tail _ h' => right; exact ih h'

theorem mem_dropLast_of_ne_last {α} (l : List α) (x t : α) (hl : l.getLast? = some t) (hx : x ∈ l) (hne : x ≠ t) :
    x ∈ l.dropLast := by
  induction l with
  | nil => cases hx
  | cons a as ih =>
    cases as with
    | nil =>
      simp at hl hx
      subst hl; exact absurd hx hne
    | cons b bs =>
      simp only [List.dropLast_cons_cons, List.mem_cons]
      cases hx with
      | head => left; rfl
      | tail _ h' =>
        right
        exact ih (by simpa [List.getLast?_cons_cons] using hl) h'

/-- **C17**: if the first `L` bytes are identified as a non-text format then every longer
    header of the same file (`p ++ s`, any limits) is identified as a non-text format too —
    never as unknown and never as text -/
theorem limit_growth (ext : Ext) (p s : Bytes) (l1 l2 : Nat) (hlen : (p ++ s).length < 4294967296)
    (h : isBinary ((Gen.builtin.walk (accepts ext p l1)))) :
    isBinary (Gen.builtin.walk (accepts ext (p ++ s) l2)) := by
  obtain ⟨_, _, _, _, fnt, froot, flast, _⟩ := tree_facts
  cases hb : Gen.builtin with
  | node a cs =>
    rw [hb] at h fnt froot flast
    simp only [children] at fnt flast
    simp only [info] at froot
    rw [walk_eq] at h ⊢
    obtain ⟨hlen1, hnt1⟩ := h
    -- the root child chosen for `p`
    have hne : walkList (accepts ext p l1) cs ≠ [] := by
      intro he; simp [he] at hlen1
    rcases C03.walkList_split (accepts ext p l1) cs with ⟨_, hnil⟩ | ⟨pre, c, post, hcs, hpre, hc⟩
    · exact absurd hnil hne
    · -- `c` is not the last child (that one is text/plain)
      cases hl : cs.getLast? with
      | none => simp [hl] at flast
      | some t =>
        have htm : (t.info.mime == mimeTextPlain) = true := by simpa [hl] using flast
        have hcmem : c ∈ cs := by rw [hcs]; simp
        have hcw : c.info ∈ a :: walkList (accepts ext p l1) cs := by
          rw [hcs, C03.walkList_skip _ pre c post hpre hc]
          right
          cases c with
          | node ci cc => simp only [walk, info]; exact List.mem_cons_self ..
        have hcne : c ≠ t := by
          intro heq
          have := hnt1 c.info hcw
          rw [heq] at this
          exact this (by simpa using htm)
        have hcd : c ∈ cs.dropLast := mem_dropLast_of_ne_last cs c t hl hcmem hcne
        have hcd' : c ∈ Gen.builtin.children.dropLast := by rw [hb]; exact hcd
        obtain ⟨j, hj, hjacc⟩ := some_binary_root_accepts ext p s l1 l2 hlen c hcd' hc
        rw [hb] at hj
        simp only [children] at hj
        -- the root child chosen for `p ++ s`
        have hjcs : j ∈ cs := List.dropLast_subset cs hj
        rcases C03.walkList_split (accepts ext (p ++ s) l2) cs with ⟨hall, _⟩ | ⟨pre2, c2, post2, hcs2, hpre2, hc2⟩
        · have := hall j hjcs
          rw [this] at hjacc; cases hjacc
        · have hc2d : c2 ∈ cs.dropLast := by
            -- otherwise `c2` is the last child and `j`, in front of it, was rejected
            cases post2 with
            | cons q qs =>
              rw [hcs2]
              have : (pre2 ++ c2 :: q :: qs).dropLast = pre2 ++ c2 :: (q :: qs).dropLast := by
                rw [List.dropLast_append_of_ne_nil (by simp)]
                simp [List.dropLast_cons_cons]
              rw [this]; simp
            | nil =>
              exfalso
              have hd : cs.dropLast = pre2 := by rw [hcs2]; simp
              rw [hd] at hj
              have := hpre2 j hj
              rw [this] at hjacc; cases hjacc
          rw [hcs2, C03.walkList_skip _ pre2 c2 post2 hpre2 hc2]
          refine ⟨?_, ?_⟩
          · have := walk_ne_nil (accepts ext (p ++ s) l2) c2
            cases hw : walk (accepts ext (p ++ s) l2) c2 with
            | nil => exact absurd hw this
            | cons y ys => simp
          · intro i hi
            simp only [List.mem_cons] at hi
            rcases hi with rfl | hi
            · intro hm; simp [hm, mimeTextPlain] at froot
            · have hfl := (walk_sub_flatten (accepts ext (p ++ s) l2)).1 c2 i hi
              have hin : i ∈ flattenList cs.dropLast := mem_flattenList_of_mem _ c2 i hc2d hfl
              rw [List.all_eq_true] at fnt
              have := fnt i hin
              intro hm; simp [hm] at this

/- non-vacuity: a PNG header is identified as binary at limit 8 -/
example : isBinary (Gen.builtin.walk (accepts ⟨fun _ _ _ => false, fun _ => [], fun _ => none⟩
    [0x89, 0x50, 0x4E, 0x47, 0x0D, 0x0A, 0x1A, 0x0A] 8)) := by
  constructor
  · decide
  · decide

/-- regenerated tie: `Detect` / `DetectReader` load the limit once, atomically (see Lemmas/DetectTie.lean) -/
theorem tie_single_limit : Mime.DetectTie.SingleLimit := Mime.DetectTie.single_limit

end Mime.C17
