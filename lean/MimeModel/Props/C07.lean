import MimeModel.Props.C03
import MimeModel.Lemmas.DetectTie
import MimeModel.Spec.All
import MimeModel.Gen.Tree
/-
  C07 — text versus binary is decided by binary-data bytes (built-in tree).
-/
namespace Mime.C07
open Mime Mime.Tree Mime.Cust Mime.Spec

/-- the model's byte test is exactly the WHATWG list of 28 binary data bytes -/
theorem binaryByte_eq_list (b : Nat) : binaryByte b = binaryBytes.contains b := by
  by_cases h : b < 32
  · have : ∀ b < 32, binaryByte b = binaryBytes.contains b := by decide
    exact this b h
  · have h1 : binaryByte b = false := by
      simp [binaryByte]; omega
    have h2 : binaryBytes.contains b = false := by
      simp [binaryBytes]; omega
    rw [h1, h2]

theorem noBinary_eq (raw : Bytes) : (!raw.any binaryByte) = noBinary raw := by
  unfold noBinary
  induction raw with
  | nil => rfl
  | cons a as ih =>
    simp only [List.any_cons, List.all_cons, Bool.not_or, ih, binaryByte_eq_list]

/-- regenerated fact: the BOM table of charset.go is the five Unicode byte-order marks,
    each with a non-empty charset name -/
theorem boms_are_the_five :
    Gen.Charset.boms.map (·.1) = fiveBOMs ∧ Gen.Charset.boms.all (fun p => !p.2.isEmpty) = true := by
  decide

theorem fromBOMIn_ne_nil_iff (tbl : List (Bytes × Bytes)) (h : tbl.all (fun p => !p.2.isEmpty) = true) (raw : Bytes) :
    (Charset.fromBOMIn tbl raw != Charset.csNone) = (tbl.map (·.1)).any (fun b => hasPrefix raw b) := by
  induction tbl with
  | nil => simp [Charset.fromBOMIn, Charset.csNone]
  | cons p rest ih =>
    obtain ⟨bom, enc⟩ := p
    simp only [List.all_cons, Bool.and_eq_true] at h
    simp only [Charset.fromBOMIn, List.map_cons, List.any_cons]
    by_cases hp : hasPrefix raw bom = true
    · simp only [hp, ↓reduceIte, Bool.true_or]
      have : enc ≠ [] := by
        intro he; simp [he] at h
      simp [Charset.csNone, this]
    · have hp' : hasPrefix raw bom = false := by simpa using hp
      simp only [hp', Bool.false_eq_true, ↓reduceIte, Bool.false_or]
      exact ih h.2

/-- **C07 (a)**: `Text` accepts exactly the headers that start with a BOM or contain no
    binary data byte -/
theorem text_eq_spec (raw : Bytes) : Cust.text raw = (startsWithBOM raw || noBinary raw) := by
  have hb : (Charset.fromBOM raw != Charset.csNone) = startsWithBOM raw := by
    unfold Charset.fromBOM startsWithBOM
    rw [fromBOMIn_ne_nil_iff _ boms_are_the_five.2, boms_are_the_five.1]
  unfold Cust.text
  by_cases h : (Charset.fromBOM raw != Charset.csNone) = true
  · rw [if_pos h, ← hb, h]; rfl
  · have h' : (Charset.fromBOM raw != Charset.csNone) = false := by simpa using h
    rw [if_neg h, ← hb, h', Bool.false_or]
    exact noBinary_eq raw

/-- regenerated facts about tree.go: `text/plain` names exactly one node, it is the last
    child of the root, its detector is `Text`, and the root itself is not `text/plain` -/
theorem tree_facts :
    (Gen.builtin.flatten.filter (fun i => i.mime == mimeTextPlain)).map (·.name) = ["text"] ∧
    (Gen.builtin.children.getLast?.map (·.info.name)) = some "text" ∧
    Gen.builtin.flatten.all (fun i => !(i.mime == mimeTextPlain) || decide (i.det = .custom .text)) = true ∧
    (Gen.builtin.info.mime == mimeTextPlain) = false := by
  decide

/-- **C07 (b)**: `text/plain` anywhere in the reported hierarchy ⇒ the examined header
    starts with a BOM or has no binary data byte.  (Unmodelled detectors are arbitrary.) -/
theorem text_in_chain_only_if (ext : Ext) (x : Bytes) (lim : Nat)
    (h : ∃ i ∈ (detect ext Gen.builtin x lim).chain, i.mime = mimeTextPlain) :
    startsWithBOM (header x lim) = true ∨ noBinary (header x lim) = true := by
  obtain ⟨i, hi, hm⟩ := h
  simp only [detect, List.mem_reverse] at hi
  have hflat := (walk_sub_flatten (accepts ext (header x lim) lim)).1 Gen.builtin i hi
  have hdet : i.det = .custom .text := by
    have := tree_facts.2.2.1
    rw [List.all_eq_true] at this
    have := this i hflat
    simpa [hm] using this
  -- `i` is not the root, hence it is on the tail of the path and was accepted
  have htail : i ∈ (walk (accepts ext (header x lim) lim) Gen.builtin).tail := by
    have hroot := tree_facts.2.2.2
    cases hb : Gen.builtin with
    | node a cs =>
      rw [hb] at hi hroot
      simp only [walk, List.mem_cons] at hi
      simp only [walk, List.tail_cons]
      cases hi with
      | inl h1 => subst h1; simp [info, hm] at hroot
      | inr h2 => exact h2
  have hacc := C03.ancestors_accept _ Gen.builtin i htail
  simp only [accepts, detEval, hdet, Det.evalWith, custEval, customModel, beq_iff_eq, Option.some.injEq] at hacc
  rw [text_eq_spec] at hacc
  simpa [Bool.or_eq_true] using hacc

/-- regenerated fact: the last child of the root is the `Text` check -/
theorem last_root_child_is_text :
    (Gen.builtin.children.getLast?.map (·.info.det)) = some (.custom .text) := by decide

/-- **C07 (c)**: every header that starts with a BOM or has no binary data byte
    (including the empty one) is classified below the root. -/
theorem textual_is_specific (ext : Ext) (x : Bytes) (lim : Nat)
    (h : startsWithBOM (header x lim) = true ∨ noBinary (header x lim) = true) :
    2 ≤ (detect ext Gen.builtin x lim).chain.length := by
  simp only [detect, List.length_reverse]
  have hlast := last_root_child_is_text
  cases hb : Gen.builtin with
  | node a cs =>
    rw [hb] at hlast
    simp only [children] at hlast
    cases hl : cs.getLast? with
    | none => simp [hl] at hlast
    | some t =>
      have htmem : t ∈ cs := List.mem_of_getLast? hl
      have hdet : t.info.det = .custom .text := by simpa [hl] using hlast
      have hacc : accepts ext (header x lim) lim t.info = true := by
        simp only [accepts, detEval, hdet, Det.evalWith, custEval, customModel, beq_iff_eq, Option.some.injEq]
        rw [text_eq_spec]
        simpa [Bool.or_eq_true] using h
      have hne := walkList_ne_nil_of_exists (accepts ext (header x lim) lim) cs ⟨t, htmem, hacc⟩
      rw [walk_eq]
      cases hw : walkList (accepts ext (header x lim) lim) cs with
      | nil => exact absurd hw hne
      | cons y ys => simp

/- non-vacuity: the empty header and a BOM-prefixed header with NUL bytes are textual;
   a lone NUL is not -/
example : (startsWithBOM [] || noBinary []) = true ∧
    (startsWithBOM [0xFF, 0xFE, 0, 0] || noBinary [0xFF, 0xFE, 0, 0]) = true ∧
    (startsWithBOM [0] || noBinary [0]) = false := by decide

/-- regenerated tie: `Detect` / `DetectReader` load the limit once, atomically (see Lemmas/DetectTie.lean) -/
theorem tie_single_limit : Mime.DetectTie.SingleLimit := Mime.DetectTie.single_limit

end Mime.C07
