import MimeModel.Lemmas.JsonDepth
/-
  C16, second sentence: "inputs nested beyond the cap are simply not reported as JSON".
  Lemmas/JsonDepth.lean: a third simulation between the scanner and the reference grammar, this
  time tracking depth: whenever the scanner succeeds at level `lvl`, the syntax tree of what it
  read has `lvl + depth ≤ cap + 1` (tight: `[[]]` is accepted at cap 1, `[[[]]]` is not).
-/
namespace Mime.C16
open Mime Mime.Json Mime.Spec Mime.JsonDepth

/-- every fully examined input that one of the four JSON detectors reports is a (relaxed) document
    whose nesting depth is at most cap + 1 -/
theorem reported_depth_le (raw : Bytes) (lim : Nat) (qs : List Gen.Json.Query) (w : Nat)
    (h : jsonHelper raw lim qs w = true) (hw : lim = 0 ∨ raw.length < lim) :
    ∃ v, J.doc false raw = some v ∧ J.depth v ≤ Gen.Json.maxRecursion + 1 :=
  reported_depth_le_real raw lim qs w h hw

/-- **C16**: a document nested deeper than the cap is not reported as JSON — at any limit, by any of
    the four detectors -/
theorem over_cap_never_reported (raw : Bytes) (lim : Nat) (qs : List Gen.Json.Query) (w : Nat) (v : J.JVal)
    (hdoc : J.doc false raw = some v) (hdeep : Gen.Json.maxRecursion + 1 < J.depth v) :
    jsonHelper raw lim qs w = false :=
  over_cap_never_reported_real raw lim qs w v hdoc hdeep

/-- the same for an arbitrary non-zero cap (the scanner is generic in it) -/
theorem over_cap_never_reported_cap (cap : Nat) (hc : cap ≠ 0) (raw : Bytes) (lim : Nat) (qs : List Gen.Json.Query) (w : Nat)
    (v : J.JVal) (hdoc : J.doc false raw = some v) (hdeep : cap + 1 < J.depth v) :
    jsonHelperCap cap raw lim qs w = false :=
  JsonDepth.over_cap_never_reported cap hc raw lim qs w v hdoc hdeep

/-- "millions of nested brackets": the tower `[`ⁿ `]`ⁿ is not reported once n exceeds cap + 1 —
    for EVERY n, i.e. any input size, and every limit -/
theorem bracket_tower_not_reported (n : Nat) (hn : Gen.Json.maxRecursion + 1 < n) (lim : Nat)
    (qs : List Gen.Json.Query) (w : Nat) :
    jsonHelper (List.replicate n 0x5B ++ List.replicate n 0x5D) lim qs w = false :=
  tower_not_reported_real n hn lim qs w

/-- the same for `{"k":` towers around `{}` -/
theorem object_tower_not_reported (n : Nat) (hn : Gen.Json.maxRecursion < n) (lim : Nat)
    (qs : List Gen.Json.Query) (w : Nat) :
    jsonHelper ((List.replicate n okey).flatten ++ [0x7B, 0x7D] ++ List.replicate n 0x7D) lim qs w = false :=
  otower_not_reported_real n hn lim qs w

/- tightness at cap 1: depth 2 is reported, depth 3 is not -/
example : jsonHelperCap 1 [0x5B, 0x5B, 0x5D, 0x5D] 0 Gen.Json.q_json (tokObject ||| tokArray) = true := by decide
example : jsonHelperCap 1 [0x5B, 0x5B, 0x5B, 0x5D, 0x5D, 0x5D] 0 Gen.Json.q_json (tokObject ||| tokArray) = false := by decide

end Mime.C16
