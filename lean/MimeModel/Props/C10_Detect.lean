import MimeModel.Props.C10
import MimeModel.Lemmas.WalkPath
/-
  C10 through `Detect`: on a whole RFC 8259 document the *reported leaf* is GeoJSON, HAR, glTF or
  plain JSON according to isGeo / isHar / isGltf of the syntax tree, with the precedence
  geo > har > gltf — unless a format with priority over `application/json` accepts the header.
-/
namespace Mime.C10
open Mime Mime.Json Mime.Gen.Json Mime.Spec Mime.Tree Mime.WalkPath Mime.JsonClean

abbrev isNamed := C08.isNamed

/-- root → text/plain → application/json -/
def jsonPath : List (Tree Info → Bool) := [isNamed "text", isNamed "json"]

theorem json_descend : descend jsonPath Gen.builtin = some C08.jsonNode := by
  simp only [jsonPath, descend, C08.text_found, C08.json_found]

theorem json_pathNodes : pathNodes jsonPath Gen.builtin = [C08.textNode, C08.jsonNode] := by
  simp only [jsonPath, pathNodes, C08.text_found, C08.json_found]

/-- regenerated: the formats consulted before `application/json`, by node name: the root formats
    in front of text/plain, then html, svg, xml, php and the shebang languages -/
theorem json_rivals :
    (rivals jsonPath Gen.builtin).map (·.info.name) =
      (Gen.builtin.children.takeWhile (fun x => !isNamed "text" x)).map (·.info.name) ++
      ["html", "svg", "xml", "php", "js", "lua", "perl", "python"] := by
  simp only [jsonPath, rivals, C08.text_found, C08.json_found, List.append_nil, List.map_append]
  congr 1

/-- regenerated: the children of `json` are the three leaves geoJSON, har, gltf, in this order -/
theorem json_children :
    C08.jsonNode.children.map (fun c => (c.info.name, c.info.det, c.children.length)) =
      [("geoJSON", .custom .geojson, 0), ("har", .custom .har, 0), ("gltf", .custom .gltf, 0)] := by decide

theorem accepts_custom (ext : Ext) (h : Bytes) (lim : Nat) (i : Info) (c : Custom) (f : Bytes → Nat → Option Bool)
    (hd : i.det = .custom c) (hm : Cust.customModel c = some f) :
    accepts ext h lim i = (f h lim == some true) := by
  unfold accepts Cust.detEval
  rw [hd]
  simp [Det.evalWith, Cust.custEval, hm]

/-- which leaf the three verdicts select below `json` -/
def pick (g h t : Bool) (json geo har gltf : Info) : Info :=
  if g then geo else if h then har else if t then gltf else json

/-- the walk below `json`, for a node with three leaf children -/
theorem walk_three (acc : Info → Bool) (j : Info) (a b c : Info) :
    (walk acc (.node j [.node a [], .node b [], .node c []])).getLast? =
      some (pick (acc a) (acc b) (acc c) j a b c) := by
  simp only [walk, walkList, Tree.info, pick]
  by_cases h1 : acc a = true
  · simp [h1]
  · by_cases h2 : acc b = true
    · simp [h1, h2]
    · by_cases h3 : acc c = true
      · simp [h1, h2, h3]
      · simp [h1, h2, h3]

/-- **C10 through `Detect` (whole documents)**: the leaf reported for an RFC 8259 document examined
    in full is the GeoJSON / HAR / glTF / JSON node chosen by isGeo, isHar, isGltf of its syntax
    tree in this order of precedence, for every behaviour of the unmodelled detectors — unless a
    format consulted before `application/json` (`json_rivals`) accepts the document -/
theorem detect_subtype_whole (ext : Ext) (D : Bytes) (v : J.JVal) (lim : Nat)
    (hdoc : J.doc true D = some v) (hdepth : J.depth v ≤ maxRecursion) (hwhole : lim = 0 ∨ D.length < lim) :
    (∃ geo har gltf : Info,
        C08.jsonNode.children.map (·.info) = [geo, har, gltf] ∧
        (detect ext Gen.builtin D lim).chain.head? =
          some (pick (J.isGeo v) (J.isHar v) (J.isGltf v) C08.jsonNode.info geo har gltf)) ∨
    (∃ d ∈ rivals jsonPath Gen.builtin, accepts ext D lim d.info = true) := by
  have hhdr : header D lim = D := by
    unfold header
    rcases hwhole with h | h
    · simp [h]
    · split
      · rfl
      · exact List.take_of_length_le (by omega)
  have hgood : GoodL D := doc_good D v hdoc
  have hacc_text : accepts ext D lim C08.textNode.info = true := by
    rw [C08.accepts_text ext _ lim _ C08.node_dets.1]; exact C08.text_of_good _ hgood
  have hacc_json : accepts ext D lim C08.jsonNode.info = true := by
    rw [C08.accepts_json ext _ lim _ C08.node_dets.2]
    exact C08.strict_accepts_whole D v lim hdoc hdepth hwhole
  obtain ⟨sg, sh, st⟩ := C10Base.subtypes_whole D v lim hdoc hdepth hwhole
  -- the shape of the json node
  have hch := json_children
  obtain ⟨j, cs, hj⟩ : ∃ j cs, C08.jsonNode = .node j cs := by cases C08.jsonNode; exact ⟨_, _, rfl⟩
  simp only [hj, Tree.children] at hch
  match cs, hch with
  | [.node a ca, .node b cb, .node c cc], hch =>
    simp only [List.map_cons, List.map_nil, Tree.info, Tree.children, List.cons.injEq, Prod.mk.injEq,
      List.length_eq_zero_iff, and_true] at hch
    obtain ⟨⟨_, ha, rfl⟩, ⟨_, hb, rfl⟩, ⟨_, hc, rfl⟩⟩ := hch
    have e1 : accepts ext D lim a = J.isGeo v := by
      rw [accepts_custom ext D lim a .geojson _ ha rfl, ← sg]; simp
    have e2 : accepts ext D lim b = J.isHar v := by
      rw [accepts_custom ext D lim b .har _ hb rfl, ← sh]; simp
    have e3 : accepts ext D lim c = J.isGltf v := by
      rw [accepts_custom ext D lim c .gltf _ hc rfl, ← st]; simp
    rcases walk_follows (accepts ext D lim) jsonPath Gen.builtin C08.jsonNode json_descend
        (by rw [json_pathNodes]; intro n hn; simp at hn; rcases hn with rfl | rfl <;> assumption) with ⟨pre, hpre⟩ | hr
    · left
      refine ⟨a, b, c, by simp [hj, Tree.children, Tree.info], ?_⟩
      simp only [detect, hhdr, List.head?_reverse, hpre]
      rw [List.getLast?_append, hj, walk_three, e1, e2, e3]
      simp [Tree.info]
    · exact Or.inr hr

end Mime.C10
