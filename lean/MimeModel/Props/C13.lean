import MimeModel.Model.Custom
/-
  C13 — line-oriented formats survive truncation and require well-formed lines.
-/
namespace Mime.C13
open Mime Mime.Cust

/-- whole input (limit 0, or shorter than the limit): nothing is dropped -/
theorem dropLastLine_whole (b : Bytes) (lim : Nat) (h : lim = 0 ∨ b.length < lim) : dropLastLine b lim = b := by
  unfold dropLastLine
  rcases h with h | h
  · simp [h]
  · simp [h]

/-- truncated input: the result is a prefix of the input -/
theorem dropLastLine_prefix (b : Bytes) (lim : Nat) : dropLastLine b lim <+: b := by
  unfold dropLastLine
  split
  · exact List.prefix_refl _
  · split
    · exact List.prefix_refl _
    · split
      · exact List.take_prefix _ _
      · exact List.prefix_refl _

end Mime.C13
