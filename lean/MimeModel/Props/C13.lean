import MimeModel.Lemmas.C13Base
import MimeModel.Lemmas.Csv
/-
  C13 — line-oriented formats survive truncation and require well-formed lines.

  Only the property theorems live here.  Lemmas/C13Base.lean: `dropLastLine`, NDJSON in both
  directions (uses the JSON simulations of C08/C09).  Model/Csv.lean: a byte-level model of Go's
  `encoding/csv` reader in the configuration `sv` uses (LazyQuotes, Comment '#', ReuseRecord,
  FieldsPerRecord 0), validated against the real package (3.1 M generated inputs when written,
  the `det Csv|Tsv` and `lines` ops on every run); Lemmas/Csv.lean: what it computes.
-/
namespace Mime.C13
open Mime Mime.Cust Mime.Json Mime.Spec Mime.Csv Mime.CsvLemmas
open Mime.C13Base (lines LineOK ContainerLine joinLF NoLF RecordOK RecordContainer)

/-! ### dropLastLine -/

theorem dropLastLine_whole (b : Bytes) (lim : Nat) (h : lim = 0 ∨ b.length < lim) : dropLastLine b lim = b :=
  C13Base.dropLastLine_whole b lim h

theorem dropLastLine_prefix (b : Bytes) (lim : Nat) : dropLastLine b lim <+: b := C13Base.dropLastLine_prefix b lim

/-- in truncated mode everything from the last newline on is dropped: complete lines remain -/
theorem dropLastLine_cut (a p : Bytes) (lim : Nat) (ha : a ≠ []) (hp : NoLF p) (hl : lim ≠ 0)
    (hlen : lim ≤ (a ++ 0x0A :: p).length) : dropLastLine (a ++ 0x0A :: p) lim = a :=
  C13Base.dropLastLine_cut a p lim ha hp hl hlen

/-! ### NDJSON -/

/-- **converse**: NDJSON reported ⇒ among the complete lines of the examined bytes there are at
    least two, each is blank or one complete JSON value (relaxed grammar) with only white space
    around it, and at least one is an object or array -/
theorem ndjson_sound (raw : Bytes) (lim : Nat) (h : ndjson raw lim = true) :
    let ls := lines (dropLastLine raw lim)
    2 ≤ ls.length ∧ (∀ l ∈ ls, LineOK l) ∧ ∃ l ∈ ls, ContainerLine l :=
  C13Base.ndjson_sound raw lim h

/-- **forward**: ≥ 2 records, one RFC 8259 value per line, at least one object/array ⇒ reported
    when examined whole (with or without a final newline) and when the limit cuts anywhere after
    these lines -/
theorem ndjson_complete (ls : List Bytes) (h2 : 2 ≤ ls.length) (hall : ∀ l ∈ ls, NoLF l ∧ RecordOK l)
    (hcont : ∃ l ∈ ls, RecordContainer l) :
    (∀ tail lim, (tail = [] ∨ tail = [0x0A]) → (lim = 0 ∨ (joinLF ls ++ tail).length < lim) →
      ndjson (joinLF ls ++ tail) lim = true) ∧
    (∀ part lim, NoLF part → lim ≠ 0 → lim ≤ (joinLF ls ++ 0x0A :: part).length →
      ndjson (joinLF ls ++ 0x0A :: part) lim = true) :=
  C13Base.ndjson_complete ls h2 hall hcont

/-! ### CSV / TSV -/

/-- regenerated tie: the `Csv` and `Tsv` nodes of tree.go run `sv` with ',' and TAB -/
theorem csv_wiring :
    Gen.d_Csv = .custom .csv ∧ Gen.d_Tsv = .custom .tsv ∧
    (∀ raw lim, (Cust.customModel .csv).map (fun f => f raw lim) = some (some (sv raw lim 0x2C))) ∧
    (∀ raw lim, (Cust.customModel .tsv).map (fun f => f raw lim) = some (some (sv raw lim 0x09))) ∧
    validComma 0x2C = true ∧ validComma 0x09 = true :=
  ⟨by decide, by decide, fun _ _ => rfl, fun _ _ => rfl, by decide, by decide⟩

/-- what the `for { r.Read() }` loop and the final test of `sv` compute: at least two records,
    all with the same number k ≥ 2 of fields -/
theorem sv_iff (raw : Bytes) (lim comma : Nat) :
    sv raw lim comma = true ↔
      validComma comma = true ∧ ∃ k, 2 ≤ k ∧ 2 ≤ (records comma (dropLastLine raw lim)).length ∧
        ∀ c ∈ records comma (dropLastLine raw lim), c = k :=
  CsvLemmas.sv_iff raw lim comma

/-- on input without a double quote the csv reader is a plain line/delimiter counter: the records
    are the non-empty lines not starting with '#' (LF-separated, one CR before the LF or at the
    very end removed), each with (number of delimiters + 1) fields -/
theorem records_quoteFree (comma : Nat) (b : Bytes) (hl : comma ≠ 0x0A) (hq : 0x22 ∉ b) :
    records comma b = specCounts comma b :=
  CsvLemmas.records_quoteFree comma b hl hq

/-- **converse (quote-free input)**: CSV/TSV reported ⇒ the complete lines of the examined bytes
    contain at least two record lines, all with the same number (≥ 2) of fields -/
theorem sv_converse_quoteFree (raw : Bytes) (lim comma : Nat) (hq : 0x22 ∉ raw) (h : sv raw lim comma = true) :
    let cs := specCounts comma (dropLastLine raw lim)
    2 ≤ cs.length ∧ ∃ k, 2 ≤ k ∧ ∀ c ∈ cs, c = k :=
  CsvLemmas.sv_converse_quoteFree raw lim comma hq h

/-- **forward (plain cells, LF)**: a rectangular table (≥ 2 rows, ≥ 2 columns; cells free of
    delimiter, quote, CR, LF; no row empty or starting with '#') is reported when examined whole
    (with or without the final newline) and when the limit cuts anywhere after these rows -/
theorem sv_forward (comma : Nat) (hv : validComma comma = true) (rows : List (List Bytes)) (k : Nat)
    (h2 : 2 ≤ rows.length) (hk : 2 ≤ k) (hall : ∀ r ∈ rows, PlainRow comma r ∧ r.length = k) :
    (∀ tail lim, (tail = [] ∨ tail = [0x0A]) → (lim = 0 ∨ (table comma rows ++ tail).length < lim) →
      sv (table comma rows ++ tail) lim comma = true) ∧
    (∀ part lim, NoLF part → lim ≠ 0 → lim ≤ (table comma rows ++ 0x0A :: part).length →
      sv (table comma rows ++ 0x0A :: part) lim comma = true) :=
  CsvLemmas.sv_forward comma hv rows k h2 hk hall

/-- **forward (plain cells, CRLF)** -/
theorem sv_forward_crlf (comma : Nat) (hv : validComma comma = true) (rows : List (List Bytes)) (k : Nat)
    (h2 : 2 ≤ rows.length) (hk : 2 ≤ k) (hall : ∀ r ∈ rows, PlainRow comma r ∧ r.length = k) :
    (∀ tail lim, (tail = [] ∨ tail = [0x0A]) → (lim = 0 ∨ (tableCRLF comma rows ++ tail).length < lim) →
      sv (tableCRLF comma rows ++ tail) lim comma = true) ∧
    (∀ part lim, NoLF part → lim ≠ 0 → lim ≤ (tableCRLF comma rows ++ 0x0A :: part).length →
      sv (tableCRLF comma rows ++ 0x0A :: part) lim comma = true) :=
  CsvLemmas.sv_forward_crlf comma hv rows k h2 hk hall

/-- **forward (RFC 4180 quoted cells)**: cells may be quoted (`"` doubled inside; the body may
    contain delimiters, newlines, quotes, '#').  The cut must fall after a row-ending newline: a
    cut inside a quoted cell that spans lines is not covered (`dropLastLine` cuts at the last LF
    even inside quotes, and such input can be refused: `sv_cut_inside_quoted_cell` below) -/
theorem sv_forward_rfc4180 (comma : Nat) (hv : validComma comma = true) (rows : List (List Cell)) (k : Nat)
    (h2 : 2 ≤ rows.length) (hk : 2 ≤ k) (hall : ∀ r ∈ rows, QRow comma r ∧ r.length = k) :
    (∀ tail lim, (tail = [] ∨ tail = [0x0A]) → (lim = 0 ∨ (qtable comma rows ++ tail).length < lim) →
      sv (qtable comma rows ++ tail) lim comma = true) ∧
    (∀ part lim, NoLF part → lim ≠ 0 → lim ≤ (qtable comma rows ++ 0x0A :: part).length →
      sv (qtable comma rows ++ 0x0A :: part) lim comma = true) :=
  CsvLemmas.sv_forward_rfc4180 comma hv rows k h2 hk hall

/- non-vacuity / documented boundary: `a,b,c⏎d,"e⏎f",g⏎` is CSV when whole, but cut inside the
   quoted two-line cell (limit = 13 = length of the cut) it is refused: records of 3 and 2 fields -/
example : sv [0x61, 0x2C, 0x62, 0x2C, 0x63, 0x0A, 0x64, 0x2C, 0x22, 0x65, 0x0A, 0x66, 0x22, 0x2C, 0x67, 0x0A] 0 0x2C = true := by decide
theorem sv_cut_inside_quoted_cell :
    sv [0x61, 0x2C, 0x62, 0x2C, 0x63, 0x0A, 0x64, 0x2C, 0x22, 0x65, 0x0A, 0x66, 0x22] 13 0x2C = false := by decide
example : sv [0x61, 0x2C, 0x62, 0x0A, 0x31, 0x2C, 0x32, 0x0A] 0 0x2C = true := by decide
example : sv [0x61, 0x2C, 0x62, 0x0A, 0x31, 0x0A] 0 0x2C = false := by decide

/-- regenerated tie: `Detect` / `DetectReader` load the limit once, atomically (see Lemmas/DetectTie.lean) -/
theorem tie_single_limit : Mime.DetectTie.SingleLimit := Mime.DetectTie.single_limit

end Mime.C13
