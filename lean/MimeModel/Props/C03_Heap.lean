import MimeModel.Lemmas.Heap
import MimeModel.Lemmas.HeapAbs
import MimeModel.Lemmas.HeapBuild
/-
  C03 at the level of pointers.  mime.go works with `*MIME` nodes linked by `children` slices and
  `parent` pointers; `match` descends through `children` and `cloneHierarchy` builds the result by
  following `parent` upwards.  Model/Heap.lean transcribes those functions over a heap (a list of
  nodes, addresses = indices, explicit fuel, faults distinguished from running out of fuel);
  `Rep h root none t` says the heap at `root` represents the inductive tree `t` (parent pointers
  agree with the children lists, no node reachable twice).  Under that invariant — decidable, and
  decided at run time on the heaps the harness dumps from the real code (`abs_iff`) — the
  pointer-level `match` terminates without fault, leaves the tree alone, returns fresh nodes, and
  what a caller sees through `Parent()` is the first-match path of the value-level model.
  Proofs: Lemmas/Heap.lean, Lemmas/HeapAbs.lean.
-/
namespace Mime.C03
open Mime Mime.Heap Mime.HeapLemmas Mime.Tree

variable {α : Type}

/-- **`match` refines `walk`**: with fuel ≥ the size of the heap, `match` succeeds (no nil
    dereference, no endless parent loop), the old heap is a prefix of the new one and still
    represents the same tree, the result and all its ancestors are newly allocated addresses, and
    the `Parent()` chain from the result is the first-match path (leaf first), the leaf altered by
    the parameter step -/
theorem match_refines {h : Heap α} {root : Ptr} {t : Tree α} (acc : α → Bool) (leafF : α → α)
    (hrep : Rep h root none t) (fuel : Nat) (hfuel : h.length ≤ fuel) :
    ∃ h' r ps,
      matchH acc leafF h root fuel = .ok (h', r) ∧
      (∃ ext, h' = h ++ ext) ∧
      Rep h' root none t ∧
      r = h.length ∧ ps = List.range' h.length (walk acc t).length ∧
      (∀ x ∈ ps, h.length ≤ x ∧ x < h'.length) ∧
      Chain h' (some r) ps (applyHead leafF (walk acc t).reverse) ∧
      ∀ f, ps.length ≤ f → parentChain h' r f = some (applyHead leafF (walk acc t).reverse) :=
  match_refines_heapsize acc leafF hrep fuel hfuel

/-- the result shares no node with the tree -/
theorem result_disjoint {h : Heap α} {root : Ptr} {t : Tree α} {fp : List Ptr} (hrep : RepF h root none t fp)
    (x : Nat) (hx : h.length ≤ x) : x ∉ fp := match_result_disjoint hrep x hx

/-- **the pointer-level `Detect` computes `Mime.detect`'s chain** (any tree, built-in or extended;
    any input, limit and external behaviour) -/
theorem heap_detect {h : Heap Info} {root : Ptr} {T : Tree Info} (ext : Ext) (x : Bytes) (lim : Nat)
    (leafF : Info → Info) (hrep : Rep h root none T) (fuel : Nat) (hfuel : h.length ≤ fuel) :
    ∃ h' r, matchH (accepts ext (header x lim) lim) leafF h root fuel = .ok (h', r) ∧
      ∀ f, (detect ext T x lim).chain.length ≤ f →
        parentChain h' r f = some (applyHead leafF (detect ext T x lim).chain) :=
  match_refines_detect ext x lim leafF hrep fuel hfuel

/-- **`cloneHierarchy` terminates** from every tree node: the parent chain of the node at depth
    `path.length` has `path.length + 1` nodes, and `path.length` iterations suffice -/
theorem cloneHierarchy_terminates {h : Heap α} {root : Ptr} {t : Tree α} (hrep : Rep h root none t)
    (path : List Nat) (m : Ptr) (hm : nodeAt h root path = some m) (leafF : α → α) :
    ∃ qs b bs, Chain h (some m) qs (b :: bs) ∧ qs.length = path.length + 1 ∧
      (∀ fuel, path.length + 1 ≤ fuel → parentChain h m fuel = some (b :: bs)) ∧
      (∀ fuel, path.length ≤ fuel →
        cloneHierarchy h m leafF fuel = .ok (h ++ cloneNodes h.length (leafF b :: bs), h.length)) :=
  HeapLemmas.cloneHierarchy_terminates hrep path m hm leafF

/-- the invariant is needed: on a heap with a parent cycle the loop of `cloneHierarchy` runs out
    of every fuel -/
theorem cycle_never_ends (leafF : Nat → Nat) (fuel : Nat) : cloneHierarchy cycleHeap 0 leafF fuel = .oof :=
  cloneHierarchy_cycle_oof leafF fuel

/-- **the invariant is decidable**: the executable abstraction function answers `some t` exactly
    on the heaps that represent `t` (run on every heap the harness dumps from the real code) -/
theorem abs_iff {h : Heap α} {root : Ptr} {t : Tree α} : HeapAbs.abs h root = some t ↔ Rep h root none t :=
  HeapAbs.abs_iff

/-- **tree.go's construction, in any order**: whatever the order of the `newMIME` calls (Go
    initialises the package-level node variables in dependency order, and allocates `errMIME`, a
    node outside the tree, in between), every node that has not yet been handed to a call as a
    child represents its tree, with no parent — in particular the root, when everything else is used -/
theorem construction_order_free {h : Heap α} {avail : List (Ptr × Tree α)} {p : Ptr} {t : Tree α}
    (hs : HeapBuild.Sched h avail) (hm : (p, t) ∈ avail) : Rep h p none t := HeapBuild.sched_rep hs hm

/-- the post-order construction (children first, left to right) is one such order, and the heap it
    builds for the regenerated tree represents that tree -/
theorem builtin_rep : Rep HeapBuild.builtinHeap.1 HeapBuild.builtinHeap.2 none Mime.Gen.builtin :=
  HeapBuild.builtin_rep

/-- **`Detect` on the heap built for the regenerated tree**: the pointer-level `match` from the
    root with the heap size as fuel succeeds, and the `Parent()` chain of its result is the chain
    of `Mime.detect` — for every input, limit and external behaviour -/
theorem builtin_detect (ext : Ext) (x : Bytes) (lim : Nat) (leafF : Info → Info) :
    ∃ h' r, matchH (accepts ext (header x lim) lim) leafF HeapBuild.builtinHeap.1 HeapBuild.builtinHeap.2
        HeapBuild.builtinHeap.1.length = .ok (h', r) ∧
      ∀ f, (detect ext Gen.builtin x lim).chain.length ≤ f →
        parentChain h' r f = some (applyHead leafF (detect ext Gen.builtin x lim).chain) :=
  HeapBuild.builtin_detect ext x lim leafF

/-- non-vacuity: a root with two children and a grandchild, built bottom-up by `newMIME` -/
example : ∃ t : Tree Nat, Rep exHeap 3 none t := ⟨_, HeapAbs.abs_sound (by decide : HeapAbs.abs exHeap 3 = some exTree)⟩

end Mime.C03
