import MimeModel.Model.Closed
import MimeModel.Props.C01
/-
  The model of `Detect` over the current tree is *closed*: its result does not depend on the
  oracle for unmodelled signature checks, because there is none left.
-/
namespace Mime.C01
open Mime Mime.Cust

/-- regenerated: every signature check of the tree is of a kind that has a model -/
theorem every_check_modelled :
    Gen.builtin.flatten.all (fun i => match i.det with
      | .custom c => (customModel c).isSome
      | _ => true) = true := by decide

theorem custEval_closed (e1 e2 : Custom → Bytes → Nat → Bool) (c : Custom) (h : (customModel c).isSome = true) :
    custEval e1 c = custEval e2 c := by
  funext raw lim
  unfold custEval
  cases hm : customModel c with
  | none => rw [hm] at h; cases h
  | some f => rfl

theorem detEval_closed (e1 e2 : Custom → Bytes → Nat → Bool) (d : Det)
    (h : match d with | .custom c => (customModel c).isSome = true | _ => True) (raw : Bytes) (lim : Nat) :
    detEval e1 d raw lim = detEval e2 d raw lim := by
  unfold detEval
  cases d with
  | custom c => simp only [Det.evalWith]; rw [custEval_closed e1 e2 c h]
  | _ => rfl

/-- **the verdict of every node of the current tree is independent of the oracle for unmodelled checks** -/
theorem accepts_closed (ext ext' : Ext) (i : Info) (hi : i ∈ Gen.builtin.flatten) (h : Bytes) (lim : Nat) :
    accepts ext h lim i = accepts ext' h lim i := by
  unfold accepts
  have hall := every_check_modelled
  rw [List.all_eq_true] at hall
  have := hall i hi
  rw [detEval_closed ext.cust ext'.cust i.det (by
    cases hd : i.det with
    | custom c => simp only [hd] at this; exact this
    | _ => trivial) h lim]

end Mime.C01
