import MimeModel.Lemmas.C19Odf
/-
  C19, the OpenDocument / EPUB clause, from the zip layout (Spec/Zip.lean), through `Detect`
  (limit 0): "one whose first entry is the stored 'mimetype' file naming an OpenDocument or EPUB
  type is reported as that type … every such verdict has application/zip as its parent."

  `StoredMimetype e ty`: the entry `e` is well-formed, named `mimetype`, has no extra field and its
  (stored) data begin with `ty`.  Nothing is asked of the other entries or of the tail: since the
  repair recorded in known_findings.txt (0e067d6: the OpenDocument nodes are consulted before apk
  and jar) every detector consulted before the format rejects such an archive **by proof** (xpm,
  7z: a prefix that is not `PK`; xlsx, docx, pptx: the first entry is not one of their bookkeeping
  parts; epub and the earlier OpenDocument nodes: a different string at offset 30).
  Proofs: Lemmas/ZipOdf.lean, Lemmas/C19Odf.lean.
-/
namespace Mime.C19
open Mime Mime.Spec.Zip Mime.ZipOdf Mime.C19Odf

/-- regenerated: the order of the zip children — OOXML, EPUB, OpenDocument, then apk before jar -/
theorem zip_children_order : zipNode.children.map (·.info.name) =
    ["xlsx", "docx", "pptx", "epub", "odt", "ods", "odp", "odg", "odf", "odc", "sxc", "apk", "jar"] :=
  C19Odf.zip_children_order

/-- regenerated: each of the twelve nodes tests offset 30 for `mimetype` followed by its own
    registered type — the obligation a rewrite of these detectors has to keep -/
theorem odf_dets : ∀ t ∈ odfNodes, t.info.det = .expr (.and (.lenGe 31) (.prefixAt 30 (ofString "mimetype" ++ t.info.mime))) :=
  C19Odf.odf_dets

theorem odf_names : odfNodes.map (·.info.name) = ["epub", "odt", "ott", "ods", "ots", "odp", "otp", "odg", "otg", "odf", "odc", "sxc"] :=
  C19Odf.odf_names

/-- the layout: in an archive whose first entry is the stored `mimetype` file, `mimetype` and the
    type sit at offset 30 -/
theorem mimetype_at_30 {e : Entry} {ty : Bytes} (h : StoredMimetype e ty) (es : List Entry) (tail : Bytes) :
    hasPrefix ((archive (e :: es) tail).drop 30) (ofString "mimetype" ++ ty) = true ∧
    31 ≤ (archive (e :: es) tail).length := ZipOdf.mimetype_at_30 h es tail

/-- **EPUB**: reported as application/epub+zip below application/zip, unconditionally -/
theorem epub_detected (ext : Ext) (e : Entry) (es : List Entry) (tail : Bytes)
    (h : StoredMimetype e (ofString "application/epub+zip")) :
    (detect ext Gen.builtin (archive (e :: es) tail) 0).chain =
      [(zipChild "epub").info, zipNode.info, Gen.builtin.info] := C19Odf.epub_detected ext e es tail h

/-- **OpenDocument documents** (odt ods odp odg odf odc, and sxc): reported as that type below
    application/zip when the file's content is exactly the type (stored, no descriptor, another
    entry follows: the next byte is `P`, not the `-` of `…-template`) -/
theorem odf_reported (ext : Ext) (n : String) (hn : n ∈ odfDocs) (e : Entry) (es : List Entry)
    (tail : Bytes) (h : StoredMimetype e (zipChild n).info.mime)
    (hdata : e.data = (zipChild n).info.mime) (hdesc : e.desc = []) (hes : es ≠ []) :
    (detect ext Gen.builtin (archive (e :: es) tail) 0).chain =
      [(zipChild n).info, zipNode.info, Gen.builtin.info] :=
  C19Odf.odf_reported ext n hn e es tail h hdata hdesc hes

/-- the same with the side condition in its general form: the bytes at offset 30 do not go on to
    spell a template's type -/
theorem odf_detected (ext : Ext) (n : String) (hn : n ∈ odfDocs) (e : Entry) (es : List Entry)
    (tail : Bytes) (h : StoredMimetype e (zipChild n).info.mime)
    (hkids : ∀ c ∈ (zipChild n).children,
      hasPrefix ((archive (e :: es) tail).drop 30) (ofString "mimetype" ++ c.info.mime) = false) :
    (detect ext Gen.builtin (archive (e :: es) tail) 0).chain =
      [(zipChild n).info, zipNode.info, Gen.builtin.info] :=
  C19Odf.odf_detected ext n hn e es tail h hkids

/-- **OpenDocument templates** (ott ots otp otg): reported as the template type, below its
    document type, below application/zip -/
theorem template_reported (ext : Ext) (d t : String) (hdt : (d, t) ∈ odfTemplates) (e : Entry)
    (es : List Entry) (tail : Bytes) (h : StoredMimetype e (tplChild d t).info.mime) :
    (detect ext Gen.builtin (archive (e :: es) tail) 0).chain =
      [(tplChild d t).info, (zipChild d).info, zipNode.info, Gen.builtin.info] :=
  C19Odf.template_reported ext d t hdt e es tail h

/-- the OOXML checks reject an archive whose first entry is the `mimetype` file (proved, not assumed) -/
theorem ooxml_rejects (e : Entry) (es : List Entry) (tail sig : Bytes) (hwf : e.WF)
    (hname : e.name = ofString "mimetype") (hsig : sig ∈ ooxmlMarkers) :
    zipContains (archive (e :: es) tail) sig true = some false :=
  C19Odf.ooxml_rejects e es tail sig hwf hname hsig

/-- parent clause: the node above is application/zip, the root application/octet-stream -/
theorem zip_parent : zipNode.info.mime = ofString "application/zip" ∧ Gen.builtin.info.mime = ofString "application/octet-stream" :=
  C19Odf.zip_parent

end Mime.C19
