import MimeModel.Props.C09
import MimeModel.Props.C10_Detect
import MimeModel.Lemmas.DetectSound
import MimeModel.Model.Closed
/-
  C09 through `Detect`: malformed JSON is not *reported* as JSON.

  `Props/C09.lean` proves the property for the check (`family_sound` about `jsonHelper`).  Here it
  is stated about what a caller of `mimetype.Detect` gets: whenever the reported leaf of
  `detect ext Gen.builtin x lim` is of the JSON family — application/json (the `json` node and the
  `har` node, whose type is application/json with extension .har), application/geo+json,
  model/gltf+json — the examined header is a document of the relaxed grammar (whole input
  examined) or a viable, completable prefix of one (input cut at the limit).  For every behaviour
  of the external parameters `ext`.

  Route: the leaf is a node of the tree (`chain_mem_tree`) whose type is one of the three ⇒
  (regenerated fact `family_nodes`, decided over the ≈190 nodes of `Gen.builtin`) its detector is
  one of the four checks JSON / GeoJSON / HAR / GLTF, and it is not the root ⇒ the detector
  accepted the header (`leaf_accepted`) ⇒ `jsonHelper h lim q w = true` for that check's query and
  wanted token ⇒ `family_sound`.
-/
namespace Mime.C09
open Mime Mime.Json Mime.Spec Mime.Tree Mime.DetectSound

def mimeJson : Bytes := [97, 112, 112, 108, 105, 99, 97, 116, 105, 111, 110, 47, 106, 115, 111, 110]
def mimeGeoJson : Bytes :=
  [97, 112, 112, 108, 105, 99, 97, 116, 105, 111, 110, 47, 103, 101, 111, 43, 106, 115, 111, 110]
def mimeGltfJson : Bytes := [109, 111, 100, 101, 108, 47, 103, 108, 116, 102, 43, 106, 115, 111, 110]

example : mimeJson = ofString "application/json" ∧ mimeGeoJson = ofString "application/geo+json" ∧
    mimeGltfJson = ofString "model/gltf+json" := by decide +kernel

/-- the three types of the JSON family (HAR is application/json with extension .har) -/
def JsonFamily (m : Bytes) : Prop := m = mimeJson ∨ m = mimeGeoJson ∨ m = mimeGltfJson

instance (m : Bytes) : Decidable (JsonFamily m) := by unfold JsonFamily; infer_instance

def isFamilyMime (m : Bytes) : Bool := m == mimeJson || m == mimeGeoJson || m == mimeGltfJson

def isFamilyDet (d : Det) : Bool :=
  decide (d = .custom .json) || decide (d = .custom .geojson) || decide (d = .custom .har) ||
    decide (d = .custom .gltf)

/-- **regenerated fact** about tree.go: the nodes whose type is in the JSON family are exactly
    json, geoJSON, har, gltf; each of them is checked by one of the four JSON-family detectors;
    the root is not one of them -/
theorem family_nodes :
    (Gen.builtin.flatten.filter (fun i => isFamilyMime i.mime)).map (fun i => (i.name, i.det)) =
      [("json", .custom .json), ("geoJSON", .custom .geojson), ("har", .custom .har), ("gltf", .custom .gltf)] ∧
    Gen.builtin.flatten.all (fun i => !isFamilyMime i.mime || isFamilyDet i.det) = true ∧
    isFamilyMime Gen.builtin.info.mime = false := by
  refine ⟨by decide, by decide, by decide⟩

theorem isFamilyMime_of (m : Bytes) (h : JsonFamily m) : isFamilyMime m = true := by
  unfold isFamilyMime
  rcases h with rfl | rfl | rfl <;> decide

/-- what the four detectors are: each runs `jsonHelper` with its own query and wanted token -/
theorem family_det_accepts (ext : Ext) (h : Bytes) (lim : Nat) (i : Info) (hd : isFamilyDet i.det = true)
    (hacc : accepts ext h lim i = true) : ∃ qs w, jsonHelper h lim qs w = true := by
  simp only [isFamilyDet, Bool.or_eq_true, decide_eq_true_eq] at hd
  rcases hd with ((hd | hd) | hd) | hd
  · rw [C10.accepts_custom ext h lim i .json _ hd rfl] at hacc
    exact ⟨Gen.Json.q_json, tokObject ||| tokArray, by simpa using hacc⟩
  · rw [C10.accepts_custom ext h lim i .geojson _ hd rfl] at hacc
    exact ⟨Gen.Json.q_geo, tokObject, by simpa using hacc⟩
  · rw [C10.accepts_custom ext h lim i .har _ hd rfl] at hacc
    exact ⟨Gen.Json.q_har, tokObject, by simpa using hacc⟩
  · rw [C10.accepts_custom ext h lim i .gltf _ hd rfl] at hacc
    exact ⟨Gen.Json.q_gltf, tokObject, by simpa using hacc⟩

/-- a leaf of the JSON family ⇒ one of the four checks accepted the examined header -/
theorem json_leaf_helper (ext : Ext) (x : Bytes) (lim : Nat) (leaf : Info)
    (hleaf : (detect ext Gen.builtin x lim).chain.head? = some leaf) (hm : JsonFamily leaf.mime) :
    ∃ qs w, jsonHelper (header x lim) lim qs w = true := by
  obtain ⟨hmem, hcase⟩ := leaf_cases ext Gen.builtin x lim leaf hleaf
  have hfm := isFamilyMime_of _ hm
  obtain ⟨_, hall, hroot⟩ := family_nodes
  rw [List.all_eq_true] at hall
  have hdet : isFamilyDet leaf.det = true := by
    have := hall leaf hmem
    simpa [hfm] using this
  rcases hcase with he | hacc
  · rw [he, hroot] at hfm; cases hfm
  · exact family_det_accepts ext _ lim leaf hdet hacc

/-- **C09 through `Detect`**: if the reported leaf is of the JSON family (application/json incl.
    HAR, application/geo+json, model/gltf+json) then the examined header `header x lim` is
    — when the whole input was examined (limit 0, or input shorter than the limit) — a document
    of the relaxed JSON grammar, and — when the input was cut at the limit — a viable prefix of
    such a document, one that some continuation completes to a document.  For every `ext`. -/
theorem json_verdict_sound (ext : Ext) (x : Bytes) (lim : Nat) (leaf : Info)
    (hleaf : (detect ext Gen.builtin x lim).chain.head? = some leaf) (hm : JsonFamily leaf.mime) :
    (lim = 0 ∨ x.length < lim → J.relaxedDoc (header x lim) = true) ∧
    (lim ≠ 0 → lim ≤ x.length →
      J.viable (header x lim) = true ∧ ∃ rest : Bytes, J.relaxedDoc (header x lim ++ rest) = true) := by
  obtain ⟨qs, w, hh⟩ := json_leaf_helper ext x lim leaf hleaf hm
  obtain ⟨f1, f2⟩ := family_sound (header x lim) lim qs w hh
  refine ⟨fun hw => f1 ?_, fun h0 hl => f2 h0 ?_⟩
  · rcases hw with h | h
    · exact Or.inl h
    · right
      rw [header_whole x lim (Or.inr (by omega))]
      exact h
  · rw [header_cut_length x lim h0 hl]
    exact Nat.le_refl _

/-- the same with the whole input in place of the header when everything was examined -/
theorem json_verdict_whole (ext : Ext) (x : Bytes) (lim : Nat) (leaf : Info)
    (hleaf : (detect ext Gen.builtin x lim).chain.head? = some leaf) (hm : JsonFamily leaf.mime)
    (hw : lim = 0 ∨ x.length < lim) : J.relaxedDoc x = true := by
  have := (json_verdict_sound ext x lim leaf hleaf hm).1 hw
  rwa [header_whole x lim (by rcases hw with h | h; exact Or.inl h; exact Or.inr (by omega))] at this

/-- **malformed JSON is not reported as JSON**: an input examined in full that is not a document
    of the relaxed grammar is reported with a leaf outside the JSON family -/
theorem malformed_not_json (ext : Ext) (x : Bytes) (lim : Nat) (leaf : Info)
    (hleaf : (detect ext Gen.builtin x lim).chain.head? = some leaf)
    (hw : lim = 0 ∨ x.length < lim) (hbad : J.relaxedDoc x = false) :
    leaf.mime ≠ mimeJson ∧ leaf.mime ≠ mimeGeoJson ∧ leaf.mime ≠ mimeGltfJson := by
  have hn : ¬ JsonFamily leaf.mime := by
    intro hm
    have := json_verdict_whole ext x lim leaf hleaf hm hw
    rw [hbad] at this; cases this
  unfold JsonFamily at hn
  exact ⟨fun h => hn (Or.inl h), fun h => hn (Or.inr (Or.inl h)), fun h => hn (Or.inr (Or.inr h))⟩

/-- … and a cut input whose examined prefix is not viable is not reported as JSON either -/
theorem unviable_not_json (ext : Ext) (x : Bytes) (lim : Nat) (leaf : Info)
    (hleaf : (detect ext Gen.builtin x lim).chain.head? = some leaf)
    (h0 : lim ≠ 0) (hl : lim ≤ x.length) (hbad : J.viable (x.take lim) = false) :
    leaf.mime ≠ mimeJson ∧ leaf.mime ≠ mimeGeoJson ∧ leaf.mime ≠ mimeGltfJson := by
  have hn : ¬ JsonFamily leaf.mime := by
    intro hm
    have := ((json_verdict_sound ext x lim leaf hleaf hm).2 h0 hl).1
    have hh : header x lim = x.take lim := by simp [header, h0]
    rw [hh, hbad] at this; cases this
  unfold JsonFamily at hn
  exact ⟨fun h => hn (Or.inl h), fun h => hn (Or.inr (Or.inl h)), fun h => hn (Or.inr (Or.inr h))⟩

/-- the JSON family never sits anywhere else in the hierarchy than below text/plain: every element
    of the chain of the JSON family accepted the header too (so the clause also holds for the
    *parent* application/json of a GeoJSON / HAR / glTF leaf) -/
theorem json_in_chain_sound (ext : Ext) (x : Bytes) (lim : Nat) (i : Info)
    (hi : i ∈ (detect ext Gen.builtin x lim).chain) (hm : JsonFamily i.mime) :
    ∃ qs w, jsonHelper (header x lim) lim qs w = true := by
  have hmem := chain_mem_tree ext Gen.builtin x lim i hi
  have hfm := isFamilyMime_of _ hm
  obtain ⟨_, hall, hroot⟩ := family_nodes
  rw [List.all_eq_true] at hall
  have hdet : isFamilyDet i.det = true := by
    have := hall i hmem
    simpa [hfm] using this
  -- `i` is not the last element (the root)
  have hacc : accepts ext (header x lim) lim i = true := by
    have hlast := chain_last ext Gen.builtin x lim
    have hdl := leaf_accepted ext Gen.builtin x lim
    generalize (detect ext Gen.builtin x lim).chain = c at hi hlast hdl
    rcases List.eq_nil_or_concat c with rfl | ⟨l, r, rfl⟩
    · cases hi
    · simp only [List.concat_eq_append, List.getLast?_append, List.getLast?_singleton, Option.some_or,
        Option.some.injEq] at hlast
      subst hlast
      simp only [List.concat_eq_append, List.mem_append, List.mem_singleton] at hi
      rcases hi with hi | rfl
      · exact hdl i (by simpa using hi)
      · rw [hroot] at hfm; cases hfm
  exact family_det_accepts ext _ lim i hdet hacc

/-! ### the closed model (`Closed.detect`: no parameter left) -/

theorem closed_json_verdict_sound (x : Bytes) (lim : Nat) (leaf : Info)
    (hleaf : (Closed.detect x lim).chain.head? = some leaf) (hm : JsonFamily leaf.mime) :
    (lim = 0 ∨ x.length < lim → J.relaxedDoc (header x lim) = true) ∧
    (lim ≠ 0 → lim ≤ x.length →
      J.viable (header x lim) = true ∧ ∃ rest : Bytes, J.relaxedDoc (header x lim ++ rest) = true) :=
  json_verdict_sound Closed.ext x lim leaf hleaf hm

theorem closed_malformed_not_json (x : Bytes) (lim : Nat) (leaf : Info)
    (hleaf : (Closed.detect x lim).chain.head? = some leaf)
    (hw : lim = 0 ∨ x.length < lim) (hbad : J.relaxedDoc x = false) :
    leaf.mime ≠ mimeJson ∧ leaf.mime ≠ mimeGeoJson ∧ leaf.mime ≠ mimeGltfJson :=
  malformed_not_json Closed.ext x lim leaf hleaf hw hbad

/-! ### non-vacuity (the closed model evaluated by the kernel) -/

/-- `{"a":[1,true]}` -/
def exDoc : Bytes := [0x7B, 0x22, 0x61, 0x22, 0x3A, 0x5B, 0x31, 0x2C, 0x74, 0x72, 0x75, 0x65, 0x5D, 0x7D]

/-- a whole document at limit 0: the leaf is application/json, the hypothesis of the first clause
    holds, and the conclusion is what the reference recogniser says -/
example : ((Closed.detect exDoc 0).chain.map (·.mime)) = [mimeJson, mimeTextPlain, mimeOctet] := by
  decide +kernel
example : J.relaxedDoc (header exDoc 0) = true := by
  have hl : ∃ leaf, (Closed.detect exDoc 0).chain.head? = some leaf ∧ JsonFamily leaf.mime := by
    have h : ((Closed.detect exDoc 0).chain.head?.map (·.mime)) = some mimeJson := by decide +kernel
    cases hc : (Closed.detect exDoc 0).chain.head? with
    | none => rw [hc] at h; cases h
    | some l => rw [hc] at h; exact ⟨l, rfl, Or.inl (by simpa using h)⟩
  obtain ⟨leaf, h1, h2⟩ := hl
  exact (closed_json_verdict_sound exDoc 0 leaf h1 h2).1 (Or.inl rfl)
example : J.relaxedDoc exDoc = true := by decide +kernel

/-- `[1,` cut at limit 3 (the input goes on: `[1,2]`): reported as application/json; the examined
    prefix is viable and not a document -/
example : ((Closed.detect [0x5B, 0x31, 0x2C, 0x32, 0x5D] 3).chain.map (·.mime)) =
      [mimeJson, mimeTextPlain, mimeOctet] ∧
    header [0x5B, 0x31, 0x2C, 0x32, 0x5D] 3 = [0x5B, 0x31, 0x2C] ∧
    J.viable [0x5B, 0x31, 0x2C] = true ∧ J.relaxedDoc [0x5B, 0x31, 0x2C] = false ∧
    J.relaxedDoc ([0x5B, 0x31, 0x2C] ++ [0x5D]) = true := by
  decide +kernel

/-- the same three bytes as a *whole* input (limit 0) are malformed — and reported as text/plain -/
example : J.relaxedDoc [0x5B, 0x31, 0x2C] = false ∧
    ((Closed.detect [0x5B, 0x31, 0x2C] 0).chain.map (·.mime)) = [mimeTextPlain, mimeOctet] := by
  decide +kernel

/-- a relaxed (trailing comma, liberal number) document is reported as JSON: the bound is the
    relaxed grammar, not RFC 8259 -/
example : ((Closed.detect [0x5B, 0x31, 0x2E, 0x2C, 0x5D] 0).chain.map (·.mime)) =
      [mimeJson, mimeTextPlain, mimeOctet] ∧
    J.relaxedDoc [0x5B, 0x31, 0x2E, 0x2C, 0x5D] = true ∧ J.strictDoc [0x5B, 0x31, 0x2E, 0x2C, 0x5D] = false := by
  decide +kernel

/-- a GeoJSON leaf: `{"type":"Point"}` -/
example : ((Closed.detect (ofString "{\"type\":\"Point\"}") 0).chain.map (·.mime)) =
      [mimeGeoJson, mimeJson, mimeTextPlain, mimeOctet] := by
  decide +kernel

end Mime.C09
