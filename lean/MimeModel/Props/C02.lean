import MimeModel.Model.Detect
import MimeModel.Lemmas.MediaType
import MimeModel.Model.MediaType
import MimeModel.Props.C03
import MimeModel.Gen.Tree
import MimeModel.Gen.Sync
/-
  C02 — the result is always a valid, registered MIME type with a rooted hierarchy.
-/
namespace Mime.C02
open Mime Mime.Tree Mime.MT

/-- **regenerated obligation**: every registered type is a lower-case `token/token` that
    `ParseMediaType` accepts unchanged and without parameters -/
theorem static_names_valid :
    Gen.builtin.flatten.all (fun i => decide (parse i.mime = (i.mime, [], .none))) = true := by
  decide +kernel

/-- the root and the error value are application/octet-stream -/
theorem builtin_root : Gen.builtin.info.mime = mimeOctet ∧ Gen.n_errMIME.info.mime = mimeOctet := by decide

/-- regenerated fact: the charset parameter is attached for exactly the three text types -/
theorem needs_charset_keys :
    Gen.Sync.needsCharset = ["text/html=charset.FromHTML", "text/plain=charset.FromPlain", "text/xml=charset.FromXML"] := by
  decide

/-- **only the three text types carry a parameter** (for every tree, input and limit) -/
theorem charset_only_on_three (ext : Ext) (mime h : Bytes)
    (hne : charsetFor ext mime h ≠ []) : mime = mimeTextPlain ∨ mime = mimeTextHtml ∨ mime = mimeTextXml := by
  unfold charsetFor at hne
  by_cases h1 : (mime == mimeTextPlain) = true
  · left; simpa using h1
  · by_cases h2 : (mime == mimeTextHtml) = true
    · right; left; simpa using h2
    · by_cases h3 : (mime == mimeTextXml) = true
      · right; right; simpa using h3
      · simp [h1, h2, h3] at hne

/-- **the hierarchy is rooted and registered**: the chain of a detection result is the walked
    path reversed — it ends at the root of the tree and consists of nodes of the tree -/
theorem chain_rooted (ext : Ext) (T : Tree Info) (x : Bytes) (lim : Nat) :
    (detect ext T x lim).chain.getLast? = some T.info ∧
    ∀ i ∈ (detect ext T x lim).chain, i ∈ T.flatten := by
  constructor
  · simp only [detect, List.getLast?_reverse]
    exact walk_head _ T
  · intro i hi
    simp only [detect, List.mem_reverse] at hi
    exact (walk_sub_flatten _).1 T i hi

/- non-vacuity -/
example : format1 mimeTextHtml kCharset [0x61, 0x3B, 0x62] =
    mimeTextHtml ++ [0x3B, 0x20] ++ kCharset ++ [0x3D, 0x22, 0x61, 0x3B, 0x62, 0x22] := by decide
example : parse (format1 mimeTextHtml kCharset [0x61, 0x3B, 0x62]) = (mimeTextHtml, [(kCharset, [0x61, 0x3B, 0x62])], .none) := by
  decide +kernel

/-- the three text types are `major/sub` pairs of lower-case tokens -/
theorem three_typeOK :
    MT.TypeOK mimeTextPlain [116, 101, 120, 116] [112, 108, 97, 105, 110] ∧
    MT.TypeOK mimeTextHtml [116, 101, 120, 116] [104, 116, 109, 108] ∧
    MT.TypeOK mimeTextXml [116, 101, 120, 116] [120, 109, 108] := by
  refine ⟨⟨?_, ?_, ?_, ?_, ?_⟩, ⟨?_, ?_, ?_, ?_, ?_⟩, ⟨?_, ?_, ?_, ?_, ?_⟩⟩ <;> decide

/-- **the result string always parses**: whatever charset label detection attaches to one of
    the three text types — a token, something that has to be quoted, or arbitrary bytes that
    have to be RFC 2231-encoded — `String()` is read back by `mime.ParseMediaType` as that type
    with the single parameter `charset` = the label, and without error -/
theorem text_result_parses (mime cs : Bytes) (hm : mime = mimeTextPlain ∨ mime = mimeTextHtml ∨ mime = mimeTextXml)
    (hb : AllBytes cs) :
    MT.parse (MT.withCharset mime cs) = (mime, if cs.isEmpty then [] else [(MT.kCharset, cs)], .none) := by
  unfold MT.withCharset
  by_cases he : cs.isEmpty = true
  · simp only [he, ↓reduceIte]
    rcases hm with rfl | rfl | rfl <;> decide +kernel
  · have hne : cs ≠ [] := by intro e; subst e; exact he rfl
    simp only [he, Bool.false_eq_true, ↓reduceIte]
    obtain ⟨h1, h2, h3⟩ := three_typeOK
    rcases hm with rfl | rfl | rfl
    · exact MT.format_parse_roundtrip _ _ _ cs h1 hne hb
    · exact MT.format_parse_roundtrip _ _ _ cs h2 hne hb
    · exact MT.format_parse_roundtrip _ _ _ cs h3 hne hb

/-- **C02 (String of every detection result over the built-in tree)**: it parses, its type is the
    registered type of the reported leaf, and it carries a parameter — `charset` — only when
    the leaf is one of the three text types -/
theorem result_string (ext : Ext) (x : Bytes) (lim : Nat) (leaf : Info) (rest : List Info)
    (hchain : (detect ext Gen.builtin x lim).chain = leaf :: rest)
    (hb : AllBytes (detect ext Gen.builtin x lim).charset) :
    ∃ ps, MT.parse (MT.withCharset leaf.mime (detect ext Gen.builtin x lim).charset) = (leaf.mime, ps, .none) ∧
      (ps = [] ∨ (ps = [(MT.kCharset, (detect ext Gen.builtin x lim).charset)] ∧
        (leaf.mime = mimeTextPlain ∨ leaf.mime = mimeTextHtml ∨ leaf.mime = mimeTextXml))) := by
  have hmem : leaf ∈ Gen.builtin.flatten := (chain_rooted ext Gen.builtin x lim).2 leaf (by rw [hchain]; exact List.mem_cons_self ..)
  have hcs : (detect ext Gen.builtin x lim).charset = charsetFor ext leaf.mime (header x lim) := by
    simp only [detect] at hchain ⊢
    rw [hchain]
  by_cases hne : (detect ext Gen.builtin x lim).charset = []
  · rw [hne]
    refine ⟨[], ?_, Or.inl rfl⟩
    have hs := static_names_valid
    rw [List.all_eq_true] at hs
    have := hs leaf hmem
    simp only [decide_eq_true_eq] at this
    simpa [MT.withCharset] using this
  · have h3 := charset_only_on_three ext leaf.mime (header x lim) (by rw [← hcs]; exact hne)
    refine ⟨[(MT.kCharset, (detect ext Gen.builtin x lim).charset)], ?_, Or.inr ⟨rfl, h3⟩⟩
    have := text_result_parses leaf.mime _ h3 hb
    have he : (detect ext Gen.builtin x lim).charset.isEmpty = false := by
      cases h : (detect ext Gen.builtin x lim).charset with
      | nil => exact absurd h hne
      | cons _ _ => rfl
    rw [he] at this
    simpa using this

end Mime.C02
