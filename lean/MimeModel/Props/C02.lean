import MimeModel.Model.Detect
import MimeModel.Model.MediaType
import MimeModel.Props.C03
import MimeModel.Gen.Tree
import MimeModel.Gen.Sync
/-
  C02 — the result is always a valid, registered MIME type with a rooted hierarchy.
-/
namespace Mime.C02
open Mime Mime.Tree Mime.MT

/-- **regenerated obligation**: every registered type is a lower-case `token/token` that
    `ParseMediaType` accepts unchanged and without parameters -/
theorem static_names_valid :
    Gen.builtin.flatten.all (fun i => decide (parse i.mime = (i.mime, [], .none))) = true := by
  decide +kernel

/-- the root and the error value are application/octet-stream -/
theorem builtin_root : Gen.builtin.info.mime = mimeOctet ∧ Gen.n_errMIME.info.mime = mimeOctet := by decide

/-- regenerated fact: the charset parameter is attached for exactly the three text types -/
theorem needs_charset_keys :
    Gen.Sync.needsCharset = ["text/html=charset.FromHTML", "text/plain=charset.FromPlain", "text/xml=charset.FromXML"] := by
  decide

/-- **only the three text types carry a parameter** (for every tree, input and limit) -/
theorem charset_only_on_three (ext : Ext) (mime h : Bytes)
    (hne : charsetFor ext mime h ≠ []) : mime = mimeTextPlain ∨ mime = mimeTextHtml ∨ mime = mimeTextXml := by
  unfold charsetFor at hne
  by_cases h1 : (mime == mimeTextPlain) = true
  · left; simpa using h1
  · by_cases h2 : (mime == mimeTextHtml) = true
    · right; left; simpa using h2
    · by_cases h3 : (mime == mimeTextXml) = true
      · right; right; simpa using h3
      · simp [h1, h2, h3] at hne

/-- **the hierarchy is rooted and registered**: the chain of a detection result is the walked
    path reversed — it ends at the root of the tree and consists of nodes of the tree -/
theorem chain_rooted (ext : Ext) (T : Tree Info) (x : Bytes) (lim : Nat) :
    (detect ext T x lim).chain.getLast? = some T.info ∧
    ∀ i ∈ (detect ext T x lim).chain, i ∈ T.flatten := by
  constructor
  · simp only [detect, List.getLast?_reverse]
    exact walk_head _ T
  · intro i hi
    simp only [detect, List.mem_reverse] at hi
    exact (walk_sub_flatten _).1 T i hi

/- non-vacuity -/
example : format1 mimeTextHtml kCharset [0x61, 0x3B, 0x62] =
    mimeTextHtml ++ [0x3B, 0x20] ++ kCharset ++ [0x3D, 0x22, 0x61, 0x3B, 0x62, 0x22] := by decide
example : parse (format1 mimeTextHtml kCharset [0x61, 0x3B, 0x62]) = (mimeTextHtml, [(kCharset, [0x61, 0x3B, 0x62])], .none) := by
  decide +kernel

end Mime.C02
