import MimeModel.Props.C18
import MimeModel.Props.C18_Detect
import MimeModel.Lemmas.DetectSound
import MimeModel.Model.Closed
/-
  C18, converse, through `Detect`: application/x-tar is *reported* only if the first 512-byte
  block of the examined header has a valid checksum.

  `Props/C18_Detect.lean` is the forward direction (a conforming block is reported as tar unless a
  format in front of tar accepts it).  Here: whenever the reported leaf of
  `detect ext Gen.builtin x lim` has type application/x-tar, the check `Tar` (archive.go) said yes
  on the examined header, and what that means is spelled out from the definition of the model:
  at least 512 bytes examined, no Gentoo gpkg marker in the name field, the checksum field
  (bytes 148..155) parses as octal and equals the unsigned or the signed byte sum of the block with
  the field itself counted as eight spaces.  For every behaviour of the external parameters.

  Route: leaf ∈ tree (`chain_mem_tree`) with type application/x-tar ⇒ (regenerated fact
  `tar_nodes`) its detector is `Tar` and it is not the root ⇒ it accepted (`leaf_accepted`).
-/
namespace Mime.C18
open Mime Mime.Cust Mime.Tree Mime.DetectSound

example : mimeTar = ofString "application/x-tar" := by decide +kernel

/-- **regenerated fact** about tree.go: exactly one node has type application/x-tar, the node
    `tar`, checked by `Tar`; every node of that type is checked by `Tar`; the root is not one -/
theorem tar_nodes :
    (Gen.builtin.flatten.filter (fun i => i.mime == mimeTar)).map (fun i => (i.name, i.det)) =
      [("tar", .custom .tar)] ∧
    Gen.builtin.flatten.all (fun i => !(i.mime == mimeTar) || decide (i.det = .custom .tar)) = true ∧
    (Gen.builtin.info.mime == mimeTar) = false := by
  refine ⟨by decide, by decide, by decide⟩

/-- what `Tar` saying yes means, read off the definition -/
structure ValidChecksum (h : Bytes) : Prop where
  /-- a whole first block was examined -/
  len : 512 ≤ h.length
  /-- the name field does not carry the Gentoo gpkg marker -/
  notGpkg : containsSub ((h.take 512).take 100) gpkgMarker = false
  /-- the checksum field is an octal number equal to the unsigned or to the signed sum of the
      block, the field itself counted as spaces (`tarByte`) -/
  chk : ∃ rec, tarParseOctal (slice (h.take 512) 148 156) = some rec ∧
      (rec = tarSumU 0 (h.take 512) ∨ (rec : Int) = tarSumS 0 (h.take 512))

/-- **the spelling-out**: the model of `Tar` says yes exactly when the checksum is valid -/
theorem tar_iff (h : Bytes) : tar h = true ↔ ValidChecksum h := by
  unfold tar
  constructor
  · intro ht
    by_cases hl : h.length < 512
    · simp [hl] at ht
    · simp only [hl, ↓reduceIte] at ht
      by_cases hg : containsSub ((h.take 512).take 100) gpkgMarker = true
      · simp [hg] at ht
      · simp only [hg, Bool.false_eq_true, ↓reduceIte] at ht
        cases hp : tarParseOctal (slice (h.take 512) 148 156) with
        | none => rw [hp] at ht; cases ht
        | some rec =>
          rw [hp] at ht
          simp only [Bool.or_eq_true, beq_iff_eq] at ht
          exact ⟨by omega, by simpa using hg, rec, hp, ht⟩
  · rintro ⟨hl, hg, rec, hp, hs⟩
    have hl' : ¬ h.length < 512 := by omega
    simp only [hl', ↓reduceIte, hg, Bool.false_eq_true, hp, Bool.or_eq_true, beq_iff_eq]
    exact hs

/-- a leaf of type application/x-tar ⇒ `Tar` accepted the examined header -/
theorem tar_leaf_accepted (ext : Ext) (x : Bytes) (lim : Nat) (leaf : Info)
    (hleaf : (detect ext Gen.builtin x lim).chain.head? = some leaf) (hm : leaf.mime = mimeTar) :
    tar (header x lim) = true := by
  obtain ⟨hmem, hcase⟩ := leaf_cases ext Gen.builtin x lim leaf hleaf
  obtain ⟨_, hall, hroot⟩ := tar_nodes
  rw [List.all_eq_true] at hall
  have hdet : leaf.det = .custom .tar := by
    have := hall leaf hmem
    simpa [hm] using this
  rcases hcase with he | hacc
  · rw [he] at hm; rw [hm] at hroot; simp at hroot
  · rwa [accepts_tar ext _ lim leaf hdet] at hacc

/-- **C18 through `Detect`, converse**: if the reported leaf has type application/x-tar then the
    examined header holds a whole first block whose checksum field is valid (unsigned or signed
    sum, the field counted as spaces) and whose name field has no gpkg marker.  For every `ext`,
    input and limit. -/
theorem tar_verdict_sound (ext : Ext) (x : Bytes) (lim : Nat) (leaf : Info)
    (hleaf : (detect ext Gen.builtin x lim).chain.head? = some leaf) (hm : leaf.mime = mimeTar) :
    tar (header x lim) = true ∧ ValidChecksum (header x lim) := by
  have h := tar_leaf_accepted ext x lim leaf hleaf hm
  exact ⟨h, (tar_iff _).1 h⟩

/-- the first block of the examined header is the first block of the input -/
theorem header_block (x : Bytes) (lim : Nat) (h : 512 ≤ (header x lim).length) :
    (header x lim).take 512 = x.take 512 ∧ 512 ≤ x.length ∧ (lim = 0 ∨ 512 ≤ lim) := by
  by_cases h0 : lim = 0
  · subst h0
    have hh : header x 0 = x := by simp [header]
    rw [hh] at h ⊢
    exact ⟨rfl, h, Or.inl rfl⟩
  · have hh : header x lim = x.take lim := by simp [header, h0]
    rw [hh] at h ⊢
    simp only [List.length_take] at h
    refine ⟨?_, by omega, Or.inr (by omega)⟩
    rw [List.take_take]
    congr 1
    omega

/-- … the same about the input itself: tar reported ⇒ the input has at least 512 bytes, the limit
    is 0 or at least 512, and the first block *of the input* has a valid checksum -/
theorem tar_verdict_input (ext : Ext) (x : Bytes) (lim : Nat) (leaf : Info)
    (hleaf : (detect ext Gen.builtin x lim).chain.head? = some leaf) (hm : leaf.mime = mimeTar) :
    512 ≤ x.length ∧ (lim = 0 ∨ 512 ≤ lim) ∧ ValidChecksum (x.take 512) := by
  obtain ⟨_, hl, hg, hc⟩ := tar_verdict_sound ext x lim leaf hleaf hm
  obtain ⟨hb, hx, hlim⟩ := header_block x lim hl
  rw [hb] at hg hc
  refine ⟨hx, hlim, ?_, ?_, ?_⟩
  · simp only [List.length_take]; omega
  · simpa [List.take_take] using hg
  · simpa [List.take_take] using hc

/-- **corruption through `Detect`**: a conforming first block in which one byte outside the
    checksum field was changed is not reported as application/x-tar — whatever follows the block,
    whatever the limit, whatever the external parameters -/
theorem corrupted_not_tar (ext : Ext) (B rest : Bytes) (lim : Nat) (hc : Conforming B) (i v : Nat)
    (hi : i < 512) (hout : ¬ (148 ≤ i ∧ i < 156)) (hv : v < 256) (hne : v ≠ B.getD i 0) (leaf : Info)
    (hleaf : (detect ext Gen.builtin (B.set i v ++ rest) lim).chain.head? = some leaf) :
    leaf.mime ≠ mimeTar := by
  intro hm
  obtain ⟨hx, _, hvc⟩ := tar_verdict_input ext _ lim leaf hleaf hm
  have hlen : (B.set i v).length = 512 := by simp [hc.len]
  rw [take_append_len _ rest 512 hlen] at hvc
  have hrej := corruption_rejected B [] hc i v hi hout hv hne
  rw [List.append_nil] at hrej
  rw [(tar_iff _).2 hvc] at hrej
  cases hrej

/-- an input shorter than one block, or examined with a limit below 512, is never reported as tar -/
theorem short_not_tar (ext : Ext) (x : Bytes) (lim : Nat) (leaf : Info)
    (hleaf : (detect ext Gen.builtin x lim).chain.head? = some leaf)
    (hs : x.length < 512 ∨ (lim ≠ 0 ∧ lim < 512)) : leaf.mime ≠ mimeTar := by
  intro hm
  obtain ⟨hx, hlim, _⟩ := tar_verdict_input ext x lim leaf hleaf hm
  omega

/-! ### the closed model -/

theorem closed_tar_verdict_sound (x : Bytes) (lim : Nat) (leaf : Info)
    (hleaf : (Closed.detect x lim).chain.head? = some leaf) (hm : leaf.mime = mimeTar) :
    tar (header x lim) = true ∧ ValidChecksum (header x lim) :=
  tar_verdict_sound Closed.ext x lim leaf hleaf hm

theorem closed_corrupted_not_tar (B rest : Bytes) (lim : Nat) (hc : Conforming B) (i v : Nat)
    (hi : i < 512) (hout : ¬ (148 ≤ i ∧ i < 156)) (hv : v < 256) (hne : v ≠ B.getD i 0) (leaf : Info)
    (hleaf : (Closed.detect (B.set i v ++ rest) lim).chain.head? = some leaf) :
    leaf.mime ≠ mimeTar :=
  corrupted_not_tar Closed.ext B rest lim hc i v hi hout hv hne leaf hleaf

/-! ### non-vacuity (the closed model evaluated by the kernel) -/

/-- an all-zero block with the right checksum field (8 spaces = 256 = 000400 octal) -/
def exBlock : Bytes := List.replicate 148 0 ++ [0x30, 0x30, 0x30, 0x34, 0x30, 0x30, 0, 0x20] ++ List.replicate 356 0

set_option maxRecDepth 100000 in
example : ((Closed.detect exBlock 0).chain.map (·.mime)) = [mimeTar, mimeOctet] := by decide +kernel

/- one byte changed: application/octet-stream -/
set_option maxRecDepth 100000 in
example : ((Closed.detect (exBlock.set 5 1) 0).chain.map (·.mime)) = [mimeOctet] := by decide +kernel

end Mime.C18
