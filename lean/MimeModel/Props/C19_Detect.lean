import MimeModel.Props.C19
import MimeModel.Lemmas.WalkPath
/-
  C19 through `Detect` (limit 0): when the zip walk finds the marker of docx / xlsx / pptx / jar,
  the reported leaf is that format with application/zip as its parent and the root above —
  unless a format consulted before it accepts (regenerated lists: xpm, 7z before zip; the zip
  children in front of the format).
-/
namespace Mime.C19
open Mime Mime.Cust Mime.Tree Mime.WalkPath

def isNamed (n : String) (t : Tree Info) : Bool := t.info.name == n

def zipNode : Tree Info := (Gen.builtin.children.find? (isNamed "zip")).getD Gen.builtin
def zipChild (n : String) : Tree Info := (zipNode.children.find? (isNamed n)).getD Gen.builtin
def zipPath (n : String) : List (Tree Info → Bool) := [isNamed "zip", isNamed n]

theorem zip_found : Gen.builtin.children.find? (isNamed "zip") = some zipNode := by
  unfold zipNode
  have : (Gen.builtin.children.find? (isNamed "zip")).isSome = true := by decide
  cases h : Gen.builtin.children.find? (isNamed "zip") with
  | none => rw [h] at this; cases this
  | some c => rfl

theorem child_found (n : String) (h : (zipNode.children.find? (isNamed n)).isSome = true) :
    zipNode.children.find? (isNamed n) = some (zipChild n) := by
  unfold zipChild
  cases hf : zipNode.children.find? (isNamed n) with
  | none => rw [hf] at h; cases h
  | some c => rfl

/-- regenerated: the four marker formats, their checks (marker and the OOXML first-entry rule) and
    that they are leaves -/
theorem child_facts :
    (zipChild "docx").info.det = .expr (.prim (.zipContains [119, 111, 114, 100, 47] true)) ∧ (zipChild "docx").children = [] ∧
    (zipChild "xlsx").info.det = .expr (.prim (.zipContains [120, 108, 47] true)) ∧ (zipChild "xlsx").children = [] ∧
    (zipChild "pptx").info.det = .expr (.prim (.zipContains [112, 112, 116, 47] true)) ∧ (zipChild "pptx").children = [] ∧
    (zipChild "jar").info.det = .expr (.prim (.zipContains C19Base.kManifest false)) ∧ (zipChild "jar").children = [] := by
  refine ⟨by decide, by decide, by decide, by decide, by decide, by decide, by decide, by decide⟩

/-- regenerated: what is consulted before zip at the root, and before each format below zip -/
theorem zip_rivals :
    (Gen.builtin.children.takeWhile (fun x => !isNamed "zip" x)).map (·.info.name) = ["xpm", "sevenZ"] ∧
    (zipNode.children.takeWhile (fun x => !isNamed "xlsx" x)).map (·.info.name) = [] ∧
    (zipNode.children.takeWhile (fun x => !isNamed "docx" x)).map (·.info.name) = ["xlsx"] ∧
    (zipNode.children.takeWhile (fun x => !isNamed "pptx" x)).map (·.info.name) = ["xlsx", "docx"] ∧
    (zipNode.children.takeWhile (fun x => !isNamed "jar" x)).map (·.info.name) = ["xlsx", "docx", "pptx", "epub", "odt", "ods", "odp", "odg", "odf", "odc", "sxc", "apk"] := by
  refine ⟨by decide, by decide, by decide, by decide, by decide⟩

/-- the `Zip` check (regenerated expression) accepts everything that starts with a local header -/
theorem zip_accepts (ext : Ext) (r : Bytes) (lim : Nat) :
    accepts ext (pk34 ++ r) lim zipNode.info = true := by
  have hd : zipNode.info.det = Gen.d_Zip := by decide
  unfold accepts Cust.detEval
  rw [hd]
  simp [Gen.d_Zip, Det.evalWith, BExp.eval, IExp.eval, Cmp.eval, pk34, getB]

theorem accepts_zipContains (ext : Ext) (raw : Bytes) (lim : Nat) (i : Info) (sig : Bytes) (mso : Bool)
    (hd : i.det = .expr (.prim (.zipContains sig mso))) :
    accepts ext raw lim i = (zipContains raw sig mso == some true) := by
  unfold accepts Cust.detEval
  rw [hd]
  simp [Det.evalWith, BExp.eval, Prim.eval]

/-- generic step -/
theorem child_detected (ext : Ext) (r : Bytes) (n : String) (sig : Bytes) (mso : Bool)
    (hfound : zipNode.children.find? (isNamed n) = some (zipChild n))
    (hdet : (zipChild n).info.det = .expr (.prim (.zipContains sig mso))) (hleaf : (zipChild n).children = [])
    (h : zipContains (pk34 ++ r) sig mso = some true) :
    (detect ext Gen.builtin (pk34 ++ r) 0).chain = [(zipChild n).info, zipNode.info, Gen.builtin.info] ∨
    (∃ d ∈ rivals (zipPath n) Gen.builtin, accepts ext (pk34 ++ r) 0 d.info = true) := by
  have hhdr : header (pk34 ++ r) 0 = pk34 ++ r := rfl
  have hacc : accepts ext (pk34 ++ r) 0 (zipChild n).info = true := by
    rw [accepts_zipContains ext _ 0 _ sig mso hdet, h]; rfl
  have hz := zip_accepts ext r 0
  simp only [detect, hhdr]
  generalize accepts ext (pk34 ++ r) 0 = acc at hacc hz ⊢
  rcases walkList_first acc (isNamed "zip") _ _ zip_found hz with ⟨d, hd', hda⟩ | hw1
  · right; exact ⟨d, by simp [zipPath, rivals, zip_found, hd'], hda⟩
  · rcases walkList_first acc (isNamed n) _ _ hfound hacc with ⟨d, hd', hda⟩ | hw2
    · right; exact ⟨d, by simp [zipPath, rivals, zip_found, hfound, hd'], hda⟩
    · left
      have e3 : walk acc (zipChild n) = [(zipChild n).info] := by rw [walk_unfold, hleaf]; rfl
      rw [walk_unfold acc Gen.builtin, hw1, walk_unfold acc zipNode, hw2, e3]
      rfl

/-- **docx through `Detect`**: the `word/` marker found by the zip walk (e.g. under the layout
    hypotheses of `layout_forward`) ⇒ reported as docx below application/zip, unless xpm, 7z or
    xlsx accept -/
theorem docx_detected (ext : Ext) (r : Bytes) (h : zipContains (pk34 ++ r) [119, 111, 114, 100, 47] true = some true) :
    (detect ext Gen.builtin (pk34 ++ r) 0).chain = [(zipChild "docx").info, zipNode.info, Gen.builtin.info] ∨
    (∃ d ∈ rivals (zipPath "docx") Gen.builtin, accepts ext (pk34 ++ r) 0 d.info = true) :=
  child_detected ext r "docx" _ true (child_found _ (by decide)) child_facts.1 child_facts.2.1 h

theorem xlsx_detected (ext : Ext) (r : Bytes) (h : zipContains (pk34 ++ r) [120, 108, 47] true = some true) :
    (detect ext Gen.builtin (pk34 ++ r) 0).chain = [(zipChild "xlsx").info, zipNode.info, Gen.builtin.info] ∨
    (∃ d ∈ rivals (zipPath "xlsx") Gen.builtin, accepts ext (pk34 ++ r) 0 d.info = true) :=
  child_detected ext r "xlsx" _ true (child_found _ (by decide)) child_facts.2.2.1 child_facts.2.2.2.1 h

theorem pptx_detected (ext : Ext) (r : Bytes) (h : zipContains (pk34 ++ r) [112, 112, 116, 47] true = some true) :
    (detect ext Gen.builtin (pk34 ++ r) 0).chain = [(zipChild "pptx").info, zipNode.info, Gen.builtin.info] ∨
    (∃ d ∈ rivals (zipPath "pptx") Gen.builtin, accepts ext (pk34 ++ r) 0 d.info = true) :=
  child_detected ext r "pptx" _ true (child_found _ (by decide)) child_facts.2.2.2.2.1 child_facts.2.2.2.2.2.1 h

theorem jar_detected (ext : Ext) (r : Bytes) (h : zipContains (pk34 ++ r) C19Base.kManifest false = some true) :
    (detect ext Gen.builtin (pk34 ++ r) 0).chain = [(zipChild "jar").info, zipNode.info, Gen.builtin.info] ∨
    (∃ d ∈ rivals (zipPath "jar") Gen.builtin, accepts ext (pk34 ++ r) 0 d.info = true) :=
  child_detected ext r "jar" _ false (child_found _ (by decide)) child_facts.2.2.2.2.2.2.1 child_facts.2.2.2.2.2.2.2 h

end Mime.C19
