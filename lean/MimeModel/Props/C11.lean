import MimeModel.Model.Charset
import MimeModel.Spec.All
import MimeModel.Lemmas.Utf8
/-
  C11 — sniffed charset is truthful for undeclared text.
-/
namespace Mime.C11
open Mime Mime.Charset Mime.Spec Mime.Utf8

/-- **BOM wins**: when the content starts with a byte-order mark of the (regenerated) table,
    `FromPlain` reports exactly the charset `FromBOM` gives -/
theorem bom_wins (x : Bytes) (h : fromBOM x ≠ csNone) : fromPlain x = fromBOM x := by
  unfold fromPlain
  have hne : x.isEmpty = false := by
    cases x with
    | nil => exact absurd (by decide : fromBOM [] = csNone) h
    | cons a as => rfl
  simp only [hne, Bool.false_eq_true, ↓reduceIte]
  have : (fromBOM x != csNone) = true := by simpa using h
  simp [this]

/-- the BOM table in priority order: UTF-32LE (FF FE 00 00) is tested before UTF-16LE (FF FE) -/
theorem bom_order : Gen.Charset.boms.map (·.1) =
    [[0xEF, 0xBB, 0xBF], [0x00, 0x00, 0xFE, 0xFF], [0xFF, 0xFE, 0x00, 0x00], [0xFE, 0xFF], [0xFF, 0xFE]] := by decide

/-- **single-byte split**: windows-1252 is reported exactly when a byte in 0x80–0x9F occurs -/
theorem latin_split (x : Bytes) :
    (latin x = csWin1252 → ∃ b ∈ x, 0x80 ≤ b ∧ b ≤ 0x9F) ∧
    (latin x = csLatin1 → ∀ b ∈ x, ¬ (0x80 ≤ b ∧ b ≤ 0x9F)) := by
  unfold latin
  constructor
  · intro h
    split at h
    · split at h
      · rename_i hany
        rw [List.any_eq_true] at hany
        obtain ⟨b, hb, hc⟩ := hany
        exact ⟨b, hb, by simpa using hc⟩
      · exact absurd h (by decide)
    · exact absurd h (by decide)
  · intro h b hb hc
    split at h
    · split at h
      · exact absurd h (by decide)
      · rename_i hany
        apply hany
        rw [List.any_eq_true]
        exact ⟨b, hb, by simpa using hc⟩
    · exact absurd h (by decide)

/-- **`utf8.Valid` is RFC 3629**: the model of Go's table-driven validator accepts exactly the
    sequences of well-formed characters of the reference (decode the scalar value; shortest
    form, no surrogates, at most U+10FFFF) -/
theorem utf8Valid_is_rfc3629 (b : Bytes) : utf8Valid b = U.validUtf8 b := utf8Valid_eq_spec b

theorem fromPlain_noBOM (x : Bytes) (hbom : fromBOM x = csNone) :
    fromPlain x = if x.isEmpty then csNone
      else if (stripPartial x).any (fun b => b ≥ 0x80) && utf8Valid (stripPartial x) then csUtf8
      else if ascii x then csUtf8 else latin x := by
  unfold fromPlain
  simp [hbom]

theorem latin_ne_utf8 (x : Bytes) : latin x ≠ csUtf8 := by
  unfold latin
  repeat' split
  all_goals decide

/-- **utf-8 is reported only for UTF-8**: without a BOM, `charset=utf-8` implies the examined
    bytes are well-formed UTF-8 followed, at most, by the cut-off start of one more character -/
theorem utf8_sound (x : Bytes) (hbom : fromBOM x = csNone) (h : fromPlain x = csUtf8) :
    ∃ p s, x = p ++ s ∧ U.validUtf8 p = true ∧ (s = [] ∨ U.truncSeq s = true) := by
  rw [fromPlain_noBOM x hbom] at h
  split at h
  · cases h
  split at h
  · rename_i hc
    simp only [Bool.and_eq_true] at hc
    have hv : U.validUtf8 (stripPartial x) = true := by rw [← utf8Valid_eq_spec]; exact hc.2
    rcases strip_spec x with e | ⟨s, e, hs⟩
    · exact ⟨x, [], by simp, by rw [← e]; exact hv, Or.inl rfl⟩
    · exact ⟨stripPartial x, s, e, hv, Or.inr hs⟩
  split at h
  · rename_i ha
    refine ⟨x, [], by simp, ?_, Or.inl rfl⟩
    rw [← utf8Valid_eq_spec]
    apply ascii_valid
    intro b hb
    simp only [ascii, List.all_eq_true, Bool.and_eq_true, Bool.not_eq_true', decide_eq_false_iff_not] at ha
    have := (ha b hb).1
    omega
  · exact absurd h (latin_ne_utf8 x)

/-- **utf-8 is always reported for UTF-8 text**: well-formed UTF-8 (possibly with the start of
    one more character cut off at the very end) that is all ASCII text, or contains at least one
    complete non-ASCII character, is reported as utf-8 -/
theorem utf8_complete (x p s : Bytes) (hne : x ≠ []) (hbom : fromBOM x = csNone) (hx : x = p ++ s)
    (hp : U.validUtf8 p = true) (hs : s = [] ∨ U.truncSeq s = true)
    (h : ascii x = true ∨ U.hasNonAscii p = true) : fromPlain x = csUtf8 := by
  rw [fromPlain_noBOM x hbom]
  have hne' : x.isEmpty = false := by
    cases x with
    | nil => exact absurd rfl hne
    | cons _ _ => rfl
  simp only [hne', Bool.false_eq_true, ↓reduceIte]
  rcases h with ha | hn
  · simp only [ha, ↓reduceIte]
    split <;> rfl
  · have hpv : utf8Valid p = true := by rw [utf8Valid_eq_spec]; exact hp
    have hstrip : stripPartial x = p := by
      rcases hs with rfl | hs
      · simp only [List.append_nil] at hx; rw [hx]; exact valid_strip p hpv
      · rw [hx]; exact strip_trunc p s hs
    rw [hstrip]
    have : (p.any (fun b => decide (b ≥ 0x80)) && utf8Valid p) = true := by
      simp only [Bool.and_eq_true]; exact ⟨hn, hpv⟩
    simp only [this, ↓reduceIte]

/-- the single-byte verdicts of `FromPlain` come from `latin` -/
theorem plain_latin_split (x : Bytes) (hbom : fromBOM x = csNone) :
    (fromPlain x = csWin1252 → ∃ b ∈ x, 0x80 ≤ b ∧ b ≤ 0x9F) ∧
    (fromPlain x = csLatin1 → ∀ b ∈ x, ¬ (0x80 ≤ b ∧ b ≤ 0x9F)) := by
  rw [fromPlain_noBOM x hbom]
  constructor
  · intro h
    split at h
    · exact absurd h (by decide)
    split at h
    · exact absurd h (by decide)
    split at h
    · exact absurd h (by decide)
    · exact (latin_split x).1 h
  · intro h
    split at h
    · exact absurd h (by decide)
    split at h
    · exact absurd h (by decide)
    split at h
    · exact absurd h (by decide)
    · exact (latin_split x).2 h

/- non-vacuity -/
example : fromPlain [0x63, 0x61, 0x66, 0xC3, 0xA9] = csUtf8 := by decide           -- "café"
example : fromPlain [0x63, 0x61, 0x66, 0xC3] = csLatin1 := by decide               -- "caf" + cut "é": neither clause of completeness applies
example : fromPlain [0xC3, 0xA9, 0xE2, 0x82] = csUtf8 := by decide                 -- "é" + cut "€"
example : U.truncSeq [0xE2, 0x82] = true := by decide
example : fromPlain [0x63, 0x61, 0x66, 0xE9] = csLatin1 := by decide               -- latin-1 "café"

end Mime.C11
