import MimeModel.Model.Charset
import MimeModel.Spec.All
/-
  C11 — sniffed charset is truthful for undeclared text.
-/
namespace Mime.C11
open Mime Mime.Charset

/-- **BOM wins**: when the content starts with a byte-order mark of the (regenerated) table,
    `FromPlain` reports exactly the charset `FromBOM` gives -/
theorem bom_wins (x : Bytes) (h : fromBOM x ≠ csNone) : fromPlain x = fromBOM x := by
  unfold fromPlain
  have hne : x.isEmpty = false := by
    cases x with
    | nil => exact absurd (by decide : fromBOM [] = csNone) h
    | cons a as => rfl
  simp only [hne, Bool.false_eq_true, ↓reduceIte]
  have : (fromBOM x != csNone) = true := by simpa using h
  simp [this]

/-- the BOM table in priority order: UTF-32LE (FF FE 00 00) is tested before UTF-16LE (FF FE) -/
theorem bom_order : Gen.Charset.boms.map (·.1) =
    [[0xEF, 0xBB, 0xBF], [0x00, 0x00, 0xFE, 0xFF], [0xFF, 0xFE, 0x00, 0x00], [0xFE, 0xFF], [0xFF, 0xFE]] := by decide

/-- **single-byte split**: windows-1252 is reported exactly when a byte in 0x80–0x9F occurs -/
theorem latin_split (x : Bytes) :
    (latin x = csWin1252 → ∃ b ∈ x, 0x80 ≤ b ∧ b ≤ 0x9F) ∧
    (latin x = csLatin1 → ∀ b ∈ x, ¬ (0x80 ≤ b ∧ b ≤ 0x9F)) := by
  unfold latin
  constructor
  · intro h
    split at h
    · split at h
      · rename_i hany
        rw [List.any_eq_true] at hany
        obtain ⟨b, hb, hc⟩ := hany
        exact ⟨b, hb, by simpa using hc⟩
      · exact absurd h (by decide)
    · exact absurd h (by decide)
  · intro h b hb hc
    split at h
    · split at h
      · exact absurd h (by decide)
      · rename_i hany
        apply hany
        rw [List.any_eq_true]
        exact ⟨b, hb, by simpa using hc⟩
    · exact absurd h (by decide)

end Mime.C11
