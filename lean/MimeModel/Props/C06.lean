import MimeModel.Model.Sync
import MimeModel.Gen.Sync
import MimeModel.Gen.Writes
/-
  C06 — safe for concurrent use.  What is proved is the *locking protocol*: for any number
  of threads, each running any of the API functions any number of times, no reachable state
  has two threads about to access the tree with at least one of them writing; the read
  limit is only touched atomically; every API function reads the limit exactly once.
  The Go memory model, sync.RWMutex, sync/atomic, sync.Pool and the scheduler are trusted;
  real schedules are explored with the race detector (see the `race` slice).
-/
namespace Mime.C06
open Mime Mime.Sync

/-- **regenerated obligation**: the synchronisation events of the API functions are exactly
    these (any change to the locking structure of mimetype.go / mime.go breaks this) -/
theorem api_events :
    Gen.Sync.progs.lookup "Detect" = some [.atomicLoadLimit, .rlock, .deferRUnlock, .callMatch] ∧
    Gen.Sync.progs.lookup "DetectReader" = some [.atomicLoadLimit, .rlock, .deferRUnlock, .callMatch] ∧
    Gen.Sync.progs.lookup "DetectFile" = some [.callDetectReader] ∧
    Gen.Sync.progs.lookup "Lookup" = some [.rlock, .deferRUnlock, .callLookup] ∧
    Gen.Sync.progs.lookup "SetLimit" = some [.atomicStoreLimit] ∧
    Gen.Sync.progs.lookup "Extend" = some [.callExtend] ∧
    Gen.Sync.progs.lookup "MIME.Extend" = some [.lock, .writeField "recv" "children", .readField "recv" "children", .unlock] := by
  decide

/-- **regenerated obligation**: the functions that run inside the callers' critical sections
    (`match`, `lookup`, `flatten`, `clone`, `cloneHierarchy`) only read the tree: no store to
    a tree field, no `append` to a node's slice (the aliasing hazard), no lock operation, no
    access to the read limit; the accessors touch nothing shared -/
theorem callees_read_only :
    Gen.Sync.progs.lookup "MIME.match" = some [.readChildren] ∧
    Gen.Sync.progs.lookup "MIME.lookup" = some [.readChildren] ∧
    Gen.Sync.progs.lookup "MIME.flatten" = some [.readChildren] ∧
    Gen.Sync.progs.lookup "MIME.clone" = some [] ∧
    Gen.Sync.progs.lookup "MIME.cloneHierarchy" = some [.writeField "local" "parent"] ∧
    Gen.Sync.progs.lookup "MIME.Is" = some [] ∧ Gen.Sync.progs.lookup "MIME.String" = some [] ∧
    Gen.Sync.progs.lookup "MIME.Parent" = some [] ∧ Gen.Sync.progs.lookup "MIME.Extension" = some [] ∧
    Gen.Sync.progs.lookup "EqualsAny" = some [] := by
  decide

/-- **regenerated obligation**: every API function, compiled to protocol steps, respects the
    lock discipline; in particular the limit is never accessed non-atomically -/
theorem gen_wellLocked :
    (["Detect", "DetectReader", "Lookup", "SetLimit", "MIME.Extend"].all fun n =>
      match Gen.Sync.progs.lookup n with
      | some evs => okProg (compile evs) false false
      | none => false) = true := by
  decide

/-- **regenerated obligation**: pooled objects go back to their pool only in a `defer` — after the
    function's results have been computed from them — and are taken out at the start; there is no
    other pool traffic.  (A `Put` before the results are read lets another goroutine reset the
    object in between.) -/
theorem pool_put_deferred :
    Gen.Writes.poolCalls = ["magic.newReader:readerPool.Get:direct", "magic.sv:readerPool.Put:deferred",
      "json.Parse:parserPool.Get:direct", "json.Parse:parserPool.Put:deferred"] := by decide

/-- **regenerated obligation**: no function of the detection packages stores through an index
    expression into anything but a local map and the tokenizer's private buffer: in particular no
    caller-owned slice (input bytes, alias lists handed to `Extend`) is written, inside or outside a lock -/
theorem no_shared_slice_writes :
    Gen.Writes.indexWrites = ["charset.fromHTML:attrList[ks]", "charset.fromHTML:val[i]"] := by decide

/-- the limit is loaded exactly once per detection (so the slicing and the detectors see the
    same value: the result is the sequential result for the limit at that instant) -/
theorem limit_loaded_once :
    (["Detect", "DetectReader"].all fun n =>
      match Gen.Sync.progs.lookup n with
      | some evs => (evs.filter (fun e => e == .atomicLoadLimit || e == .plainReadLimit)).length == 1
      | none => false) = true := by
  decide

/-! ### The protocol invariant, for any number of threads -/

def cntR (ts : List Thread) : Nat := (ts.filter (·.holdsR)).length
def cntW (ts : List Thread) : Nat := (ts.filter (·.holdsW)).length

structure Inv (σ : State) : Prop where
  ok : ∀ t ∈ σ.threads, okProg t.prog t.holdsR t.holdsW = true
  readers : σ.readers = cntR σ.threads
  writer : σ.writer = true ↔ cntW σ.threads = 1
  atMostOne : cntW σ.threads ≤ 1
  excl : σ.writer = true → σ.readers = 0

theorem filter_set_len (p : Thread → Bool) : ∀ (l : List Thread) (i : Nat) (t t' : Thread), l[i]? = some t →
    ((l.set i t').filter p).length + (if p t then 1 else 0) = (l.filter p).length + (if p t' then 1 else 0) := by
  intro l
  induction l with
  | nil => intro i t t' h; simp at h
  | cons a as ih =>
    intro i t t' h
    cases i with
    | zero =>
      simp only [List.getElem?_cons_zero, Option.some.injEq] at h
      subst h
      simp only [List.set_cons_zero, List.filter_cons]
      cases p a <;> cases p t' <;> simp
    | succ i =>
      simp only [List.getElem?_cons_succ] at h
      have := ih i t t' h
      simp only [List.set_cons_succ, List.filter_cons]
      cases p a <;> simp <;> omega

theorem mem_set {l : List Thread} {i : Nat} {t' x : Thread} (h : x ∈ l.set i t') : x = t' ∨ x ∈ l := by
  rcases List.mem_or_eq_of_mem_set h with h | h
  · exact Or.inr h
  · exact Or.inl h

/-- the invariant holds initially: nobody holds anything and every program is well-locked -/
theorem inv_init (progs : List (List Step)) (h : ∀ p ∈ progs, okProg p false false = true) :
    Inv { readers := 0, writer := false, threads := progs.map (fun p => Thread.mk p false false) } := by
  have hR : cntR (progs.map (fun p => Thread.mk p false false)) = 0 := by
    unfold cntR; induction progs with
    | nil => rfl
    | cons p ps ih => simp [List.filter_cons]
  have hW : cntW (progs.map (fun p => Thread.mk p false false)) = 0 := by
    unfold cntW; induction progs with
    | nil => rfl
    | cons p ps ih => simp [List.filter_cons]
  refine ⟨?_, ?_, ?_, ?_, ?_⟩
  · intro t ht
    simp only [List.mem_map] at ht
    obtain ⟨p, hp, rfl⟩ := ht
    exact h p hp
  · simp [hR]
  · simp [hW]
  · simp [hW]
  · intro hc; cases hc

/-- bookkeeping of one move: the new thread list, and how the two counters change -/
theorem counts_after (σ : State) (i : Nat) (t t' : Thread) (hg : σ.threads[i]? = some t) :
    cntR (σ.threads.set i t') + (if t.holdsR then 1 else 0) = cntR σ.threads + (if t'.holdsR then 1 else 0) ∧
    cntW (σ.threads.set i t') + (if t.holdsW then 1 else 0) = cntW σ.threads + (if t'.holdsW then 1 else 0) :=
  ⟨filter_set_len (·.holdsR) σ.threads i t t' hg, filter_set_len (·.holdsW) σ.threads i t t' hg⟩

/-- **the invariant is preserved by every transition** -/
theorem inv_step (σ σ' : State) (i : Nat) (hI : Inv σ) (hs : step σ i = some σ') : Inv σ' := by
  unfold step at hs
  cases hg : σ.threads[i]? with
  | none => simp [hg] at hs
  | some t =>
    simp only [hg] at hs
    by_cases hen : enabled σ t = true
    · simp only [hen, Bool.not_true, Bool.false_eq_true, ↓reduceIte, Option.some.injEq] at hs
      have hok := hI.ok t (List.mem_of_getElem? hg)
      have hr := hI.readers
      have hw := hI.writer
      have h1 := hI.atMostOne
      have hex := hI.excl
      obtain ⟨tp, tr, tw⟩ := t
      simp only at hok
      have okRest : ∀ (t' : Thread) (y : Thread), okProg t'.prog t'.holdsR t'.holdsW = true →
          y ∈ σ.threads.set i t' → okProg y.prog y.holdsR y.holdsW = true := by
        intro t' y ht' hy
        rcases mem_set hy with rfl | hy
        · exact ht'
        · exact hI.ok y hy
      cases tp with
      | nil => simp [enabled] at hen
      | cons x rest =>
        cases x with
        | rlock =>
          simp only [enabled, Bool.not_eq_true'] at hen
          cases tr <;> cases tw <;> simp [okProg] at hok
          simp only [stepThread] at hs
          subst hs
          obtain ⟨cR, cW⟩ := counts_after σ i (Thread.mk (.rlock :: rest) false false) (Thread.mk rest true false) hg
          simp only [Bool.false_eq_true, ↓reduceIte] at cR cW
          try dsimp only at cR cW
          refine ⟨fun y hy => okRest _ y hok hy, ?_, ?_, ?_, ?_⟩
          · dsimp only; omega
          · dsimp only; rw [hw]; omega
          · dsimp only; omega
          · intro hc; rw [hen] at hc; cases hc
        | runlock =>
          cases tr <;> simp [okProg] at hok
          simp only [stepThread] at hs
          subst hs
          obtain ⟨cR, cW⟩ := counts_after σ i (Thread.mk (.runlock :: rest) true tw) (Thread.mk rest false tw) hg
          simp only [Bool.false_eq_true, ↓reduceIte] at cR cW
          try dsimp only at cR cW
          refine ⟨fun y hy => okRest _ y hok hy, ?_, ?_, ?_, ?_⟩
          · dsimp only; omega
          · dsimp only; rw [hw]; omega
          · dsimp only; omega
          · intro hc; have := hex hc; dsimp only; omega
        | lock =>
          simp only [enabled, Bool.and_eq_true, Bool.not_eq_true', beq_iff_eq] at hen
          cases tr <;> cases tw <;> simp [okProg] at hok
          simp only [stepThread] at hs
          subst hs
          obtain ⟨cR, cW⟩ := counts_after σ i (Thread.mk (.lock :: rest) false false) (Thread.mk rest false true) hg
          simp only [Bool.false_eq_true, ↓reduceIte] at cR cW
          try dsimp only at cR cW
          have hw0 : cntW σ.threads ≠ 1 := by
            intro hc
            have := hw.mpr hc
            rw [hen.1] at this; cases this
          refine ⟨fun y hy => okRest _ y hok hy, ?_, ?_, ?_, ?_⟩
          · dsimp only; omega
          · dsimp only; simp; omega
          · dsimp only; omega
          · intro _; exact hen.2
        | unlock =>
          cases tw <;> simp [okProg] at hok
          simp only [stepThread] at hs
          subst hs
          obtain ⟨cR, cW⟩ := counts_after σ i (Thread.mk (.unlock :: rest) tr true) (Thread.mk rest tr false) hg
          simp only [Bool.false_eq_true, ↓reduceIte] at cR cW
          try dsimp only at cR cW
          refine ⟨fun y hy => okRest _ y hok hy, ?_, ?_, ?_, ?_⟩
          · dsimp only; omega
          · dsimp only; simp; omega
          · dsimp only; omega
          · intro hc; cases hc
        | treeRead | treeWrite | atomicLimit | localWork =>
          simp only [stepThread] at hs
          subst hs
          have hok' : okProg rest tr tw = true := by
            simp only [okProg, Bool.and_eq_true] at hok
            first | exact hok.2 | exact hok
          obtain ⟨cR, cW⟩ := counts_after σ i (Thread.mk (_ :: rest) tr tw) (Thread.mk rest tr tw) hg
          try dsimp only at cR cW
          refine ⟨fun y hy => okRest _ y hok' hy, ?_, ?_, ?_, hex⟩
          · dsimp only; omega
          · dsimp only; rw [hw]; omega
          · dsimp only; omega
    · simp [hen] at hs

/-- every state reachable by any schedule (a list of thread indices) satisfies the invariant -/
def run (σ : State) : List Nat → Option State
  | [] => some σ
  | i :: is => match step σ i with
    | some σ' => run σ' is
    | none => none

theorem inv_run (σ σ' : State) (sched : List Nat) (hI : Inv σ) (hr : run σ sched = some σ') : Inv σ' := by
  induction sched generalizing σ with
  | nil => simp [run] at hr; subst hr; exact hI
  | cons i is ih =>
    simp only [run] at hr
    cases hs : step σ i with
    | none => simp [hs] at hr
    | some σ1 =>
      simp only [hs] at hr
      exact ih σ1 (inv_step σ σ1 i hI hs) hr

theorem filter_len_ge_two (p : Thread → Bool) : ∀ (l : List Thread) (i j : Nat) (a b : Thread), i ≠ j →
    l[i]? = some a → l[j]? = some b → p a = true → p b = true → 2 ≤ (l.filter p).length := by
  intro l
  induction l with
  | nil => intro i j a b _ h; simp at h
  | cons x xs ih =>
    intro i j a b hij hi hj pa pb
    cases i with
    | zero =>
      cases j with
      | zero => exact absurd rfl hij
      | succ j =>
        simp only [List.getElem?_cons_zero, Option.some.injEq] at hi
        simp only [List.getElem?_cons_succ] at hj
        subst hi
        have hb : b ∈ xs.filter p := List.mem_filter.mpr ⟨List.mem_of_getElem? hj, pb⟩
        have : 1 ≤ (xs.filter p).length := List.length_pos_of_mem hb
        simp [List.filter_cons, pa]; omega
    | succ i =>
      cases j with
      | zero =>
        simp only [List.getElem?_cons_zero, Option.some.injEq] at hj
        simp only [List.getElem?_cons_succ] at hi
        subst hj
        have ha : a ∈ xs.filter p := List.mem_filter.mpr ⟨List.mem_of_getElem? hi, pa⟩
        have : 1 ≤ (xs.filter p).length := List.length_pos_of_mem ha
        simp [List.filter_cons, pb]; omega
      | succ j =>
        simp only [List.getElem?_cons_succ] at hi hj
        have := ih i j a b (by omega) hi hj pa pb
        simp only [List.filter_cons]
        split <;> simp <;> omega

/-- **no data race on the tree**: in a state satisfying the invariant no two distinct threads
    are both about to access the tree with at least one of them writing -/
theorem inv_no_race (σ : State) (hI : Inv σ) (i j : Nat) : raceAt σ i j = false := by
  unfold raceAt
  by_cases hij : i = j
  · simp [hij]
  · have hne : (i != j) = true := by simpa using hij
    simp only [hne, Bool.true_and]
    cases ha : σ.threads[i]? with
    | none => rfl
    | some a =>
      cases hb : σ.threads[j]? with
      | none => rfl
      | some b =>
        simp only
        cases hpa : a.prog with
        | nil => rfl
        | cons x xr =>
          cases hpb : b.prog with
          | nil => rfl
          | cons y yr =>
            simp only
            have oka := hI.ok a (List.mem_of_getElem? ha)
            have okb := hI.ok b (List.mem_of_getElem? hb)
            rw [hpa] at oka
            rw [hpb] at okb
            -- a writer among the two holds the write lock; the other holds some lock too
            have key : ∀ (w o : Thread) (iw io : Nat) (wp op : List Step), iw ≠ io →
                σ.threads[iw]? = some w → σ.threads[io]? = some o →
                okProg (.treeWrite :: wp) w.holdsR w.holdsW = true →
                (o.holdsR = true ∨ o.holdsW = true) → False := by
              intro w o iw io wp op hne hw ho hokw hoh
              simp only [okProg, Bool.and_eq_true] at hokw
              have hwW : w.holdsW = true := hokw.1
              have h1 := hI.atMostOne
              have hpos : 1 ≤ cntW σ.threads := by
                unfold cntW
                exact List.length_pos_of_mem (List.mem_filter.mpr ⟨List.mem_of_getElem? hw, hwW⟩)
              have hwr : σ.writer = true := hI.writer.mpr (by omega)
              have hr0 := hI.excl hwr
              rcases hoh with hoR | hoW
              · have : 1 ≤ cntR σ.threads := by
                  unfold cntR
                  exact List.length_pos_of_mem (List.mem_filter.mpr ⟨List.mem_of_getElem? ho, hoR⟩)
                rw [hI.readers] at hr0; omega
              · have := filter_len_ge_two (·.holdsW) σ.threads iw io w o hne hw ho hwW hoW
                unfold cntW at h1; omega
            cases x <;> cases y <;> simp only [isTreeAccess, isTreeWrite, Bool.and_false, Bool.false_and, Bool.or_false,
              Bool.and_true, Bool.true_and, Bool.or_true, Bool.false_or, Bool.and_self] <;> try rfl
            · -- read / write
              exfalso
              simp only [okProg, Bool.and_eq_true, Bool.or_eq_true] at oka
              exact key b a j i yr xr (Ne.symm hij) hb ha okb oka.1
            · -- write / read
              exfalso
              simp only [okProg, Bool.and_eq_true, Bool.or_eq_true] at okb
              exact key a b i j xr yr hij ha hb oka okb.1
            · -- write / write
              exfalso
              have okb' := okb
              simp only [okProg, Bool.and_eq_true] at okb'
              exact key a b i j xr yr hij ha hb oka (Or.inr okb'.1)

/-- **C06 (protocol)**: for any number of threads, each running any well-locked program —
    in particular any sequence of calls of the API functions as they are in the source now —
    and for every schedule, no reachable state contains a data race on the tree -/
theorem no_race_reachable (progs : List (List Step)) (h : ∀ p ∈ progs, okProg p false false = true)
    (sched : List Nat) (σ' : State)
    (hr : run { readers := 0, writer := false, threads := progs.map (fun p => Thread.mk p false false) } sched = some σ')
    (i j : Nat) : raceAt σ' i j = false :=
  inv_no_race σ' (inv_run _ σ' sched (inv_init progs h) hr) i j

/-- well-locked programs compose: a thread may call API functions one after another -/
theorem okProg_append (p q : List Step) : ∀ (r w : Bool), okProg p r w = true → okProg q false false = true →
    okProg (p ++ q) r w = true := by
  induction p with
  | nil =>
    intro r w hp hq
    simp only [okProg, Bool.and_eq_true, Bool.not_eq_true'] at hp
    simp only [List.nil_append, hp.1, hp.2]; exact hq
  | cons x xs ih =>
    intro r w hp hq
    cases x <;> simp only [List.cons_append, okProg, Bool.and_eq_true] at hp ⊢ <;>
      first
        | exact ⟨hp.1, ih _ _ hp.2 hq⟩
        | exact ih _ _ hp hq

/- non-vacuity: two concurrent readers and a writer with the regenerated programs; the
   write-lock step of the writer is disabled while a reader is inside -/
example : okProg (compile [.atomicLoadLimit, .rlock, .deferRUnlock, .callMatch]) false false = true := by decide
example : step (State.mk 1 false [(Thread.mk [.treeRead, .runlock] true false),
    (Thread.mk [.lock, .treeWrite, .unlock] false false)]) 1 = none := by decide

end Mime.C06
