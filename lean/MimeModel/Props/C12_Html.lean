import MimeModel.Lemmas.HtmlTok
/-
  C12, HTML clause, at *byte level*: the tokenizer step that Props/C12.lean takes as a parameter
  (the start tags x/net/html reports) is computed here by `HtmlTok.startTags`, a one-byte-per-step
  state machine (35 states) modelling the tokenizer: text, tag open, tag names with ASCII case
  folding, attributes in the three quoting styles, duplicate attributes, self-closing tags,
  comments with all their odd endings, bogus comments and doctype, end tags, the raw-text elements
  (iframe, noembed, noframes, noscript, plaintext, script with its escaped / double-escaped states,
  style, textarea, title, xmp), CR/CRLF conversion in values, NUL, end of input.  One deliberate
  exclusion: an attribute value containing `&` (character references; the 2231-entry entity table
  is not modelled) makes the model answer `none`.  The model agreed with the real tokenizer on
  10.5 M generated inputs when written (60 hand-written mutants of the model were all detected)
  and is compared with it on every `walk` / `cs html` op of every run.
-/
namespace Mime.C12
open Mime Mime.Charset Mime.HtmlTok Mime.HtmlTokLemmas

/-- **C12 (HTML `<meta charset>`, byte level)**: `doc = P <meta charset=qLq> rest` — `P` a prologue of
    text, comments, a doctype and other (non-raw-text, non-meta) start and end tags; `meta` / `charset`
    in any letter case; any of the three quoting styles; `L` a non-empty label of token characters;
    no byte-order mark; no `&` in `P` and `rest`: `FromHTML` reports the label in lower case
    (utf-8 for utf-16 labels), whatever follows -/
theorem html_meta_charset_bytes (P nm cs : Bytes) (form : ValForm) (L rest : Bytes)
    (hP : Prologue P) (hnm : lowerASCII nm = kMeta) (hcs : lowerASCII cs = kwCharset)
    (hL : L ≠ []) (htok : ∀ c ∈ L, tokenChar c = true)
    (hbom : fromBOM (P ++ tagText nm [0x20] [charsetAttr cs form L []] ++ rest) = csNone)
    (hamp : ∀ c ∈ P ++ rest, c ≠ 0x26) :
    fromHTMLBytes (P ++ tagText nm [0x20] [charsetAttr cs form L []] ++ rest) = some (norm L) :=
  declared_charset_simple P nm cs form L rest hP hnm hcs hL htok hbom hamp

/-- the general form: the `charset` attribute anywhere among inert attributes of the first `meta` -/
theorem html_meta_charset_general (P nm ws0 : Bytes) (pre post : List AttrSrc)
    (cs : Bytes) (form : ValForm) (L sep rest : Bytes)
    (hP : Prologue P) (hnm : lowerASCII nm = kMeta)
    (hws : ∀ x ∈ ws0, isWS x = true) (hws0 : ws0 ≠ [])
    (hcs : lowerASCII cs = kwCharset)
    (hwf : attrsWf (pre ++ charsetAttr cs form L sep :: post))
    (hpre : ∀ a ∈ pre, inertKey a.key) (hpost : ∀ a ∈ post, inertKey a.key)
    (hL : L ≠ []) (hcr : ∀ c ∈ L, c ≠ 0x0D)
    (hbom : fromBOM (P ++ tagText nm ws0 (pre ++ charsetAttr cs form L sep :: post) ++ rest) = csNone)
    (hcov : startTags (P ++ tagText nm ws0 (pre ++ charsetAttr cs form L sep :: post) ++ rest) ≠ none) :
    fromHTMLBytes (P ++ tagText nm ws0 (pre ++ charsetAttr cs form L sep :: post) ++ rest) = some (norm L) :=
  declared_charset_reported P nm ws0 pre post cs form L sep rest hP hnm hws hws0 hcs hwf hpre hpost hL hcr hbom hcov

/-- the `http-equiv=Content-Type` pragma, in either attribute order -/
theorem html_pragma_bytes (P nm ws0 : Bytes) (a1 a2 : AttrSrc) (post : List AttrSrc) (rest : Bytes)
    (hP : Prologue P) (hnm : lowerASCII nm = kMeta)
    (hws : ∀ x ∈ ws0, isWS x = true) (hws0 : ws0 ≠ [])
    (hk : (lowerASCII a1.key = kHttpEquiv ∧ lowerASCII a2.key = kContent ∧
            lowerASCII a1.val = kContentType ∧ fromMetaElement (lowerASCII a2.val) ≠ [] ∧
            (∀ c ∈ a1.val, c ≠ 0x0D) ∧ (∀ c ∈ a2.val, c ≠ 0x0D)))
    (hwf : attrsWf (a1 :: a2 :: post) ∧ attrsWf (a2 :: a1 :: post))
    (hpost : ∀ a ∈ post, inertKey a.key) :
    (fromBOM (P ++ tagText nm ws0 (a1 :: a2 :: post) ++ rest) = csNone →
     startTags (P ++ tagText nm ws0 (a1 :: a2 :: post) ++ rest) ≠ none →
     fromHTMLBytes (P ++ tagText nm ws0 (a1 :: a2 :: post) ++ rest) =
       some (C12.finalLabel (fromMetaElement (lowerASCII a2.val)))) ∧
    (fromBOM (P ++ tagText nm ws0 (a2 :: a1 :: post) ++ rest) = csNone →
     startTags (P ++ tagText nm ws0 (a2 :: a1 :: post) ++ rest) ≠ none →
     fromHTMLBytes (P ++ tagText nm ws0 (a2 :: a1 :: post) ++ rest) =
       some (C12.finalLabel (fromMetaElement (lowerASCII a2.val)))) :=
  declared_pragma_reported P nm ws0 a1 a2 post rest hP hnm hws hws0 hk hwf hpost

/-- "scripts containing fake metas": a `<meta …>` spelled inside `<script>…</script>` is no tag -/
theorem html_script_hides_meta (nm ws0 : Bytes) (as : List AttrSrc) (body cnm cws rest : Bytes)
    (hnm : lowerASCII nm = kScript) (hws : ∀ x ∈ ws0, isWS x = true) (hws0 : ws0 = [] → as = [])
    (hwf : attrsWf as) (hbody : scriptBodyOk body = true)
    (hcnm : lowerASCII cnm = kScript) (hcws : ∀ x ∈ cws, isWS x = true) :
    rawTags (tagText nm ws0 as ++ body ++ endTagText cnm cws ++ rest) =
      { name := kScript, attrs := parsed as } :: rawTags rest :=
  script_hides_meta nm ws0 as body cnm cws rest hnm hws hws0 hwf hbody hcnm hcws

/-- the same for title, style, textarea, iframe, noembed, noframes, noscript, xmp -/
theorem html_rawtext_hides_meta (tag nm ws0 : Bytes) (as : List AttrSrc) (body cnm cws rest : Bytes)
    (htag : tag ∈ rawNames)
    (hnm : lowerASCII nm = tag) (hws : ∀ x ∈ ws0, isWS x = true) (hws0 : ws0 = [] → as = [])
    (hwf : attrsWf as) (hbody : rawBodyOk tag body = true)
    (hcnm : lowerASCII cnm = tag) (hcws : ∀ x ∈ cws, isWS x = true) :
    rawTags (tagText nm ws0 as ++ body ++ endTagText cnm cws ++ rest) =
      { name := tag, attrs := parsed as } :: rawTags rest :=
  rawtext_hides_meta tag nm ws0 as body cnm cws rest htag hnm hws hws0 hwf hbody hcnm hcws

/-- and for comments -/
theorem html_comment_hides_meta (c rest : Bytes) (h : commentBodyOk c = true) :
    rawTags (commentText c ++ rest) = rawTags rest := comment_hides_meta c rest h

/-- coverage of the model: every input without `&` is covered -/
theorem html_model_covers (doc : Bytes) (h : ∀ c ∈ doc, c ≠ 0x26) : startTags doc ≠ none := startTags_covered doc h

/-- truncation: the tags reported for a cut header are a prefix of the tags of the whole document,
    and a start tag cut off before its `>` is not reported -/
theorem html_truncation (a b : Bytes) : ∃ more, rawTags (a ++ b) = rawTags a ++ more := rawTags_prefix a b
theorem html_no_tag_without_gt (w : Bytes) (h : ∀ c ∈ w, c ≠ 0x3E) (st : St) : run st w = [] := no_tag_without_gt w h st

/- non-vacuity: a comment with a fake meta, then the real one in mixed case with single quotes -/
example : fromHTMLBytes (ofString "<!--<meta charset=fake>--><MeTa CHARSET='Latin1'><body>x") = some (ofString "latin1") := by
  decide +kernel

end Mime.C12
