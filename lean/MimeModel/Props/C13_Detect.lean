import MimeModel.Props.C13
import MimeModel.Props.C08
import MimeModel.Lemmas.WalkPath
/-
  C13 through `Detect`: when the NDJSON / CSV / TSV check accepts a header that text/plain accepts
  (no binary-data byte), the walk reports that format as the leaf — unless a format consulted
  before it accepts the same header.  The rivals are listed by name (regenerated).
-/
namespace Mime.C13
open Mime Mime.Cust Mime.Spec Mime.Tree Mime.WalkPath Mime.Csv

abbrev isNamed := C08.isNamed

def linePath (n : String) : List (Tree Info → Bool) := [isNamed "text", isNamed n]
def lineNode (n : String) : Tree Info := (C08.textNode.children.find? (isNamed n)).getD Gen.builtin

theorem line_found (n : String) (h : (C08.textNode.children.find? (isNamed n)).isSome = true) :
    C08.textNode.children.find? (isNamed n) = some (lineNode n) := by
  unfold lineNode
  cases hf : C08.textNode.children.find? (isNamed n) with
  | none => rw [hf] at h; cases h
  | some c => rfl

theorem nd_found : C08.textNode.children.find? (isNamed "ndJSON") = some (lineNode "ndJSON") := line_found _ (by decide)
theorem csv_found : C08.textNode.children.find? (isNamed "csv") = some (lineNode "csv") := line_found _ (by decide)
theorem tsv_found : C08.textNode.children.find? (isNamed "tsv") = some (lineNode "tsv") := line_found _ (by decide)

/-- regenerated: detectors and (absent) children of the three nodes -/
theorem line_node_facts :
    (lineNode "ndJSON").info.det = .custom .ndjson ∧ (lineNode "ndJSON").children = [] ∧
    (lineNode "csv").info.det = .custom .csv ∧ (lineNode "csv").children = [] ∧
    (lineNode "tsv").info.det = .custom .tsv ∧ (lineNode "tsv").children = [] := by
  refine ⟨by decide, by decide, by decide, by decide, by decide, by decide⟩

/-- regenerated: what is consulted before each of the three formats below text/plain -/
theorem line_rivals :
    (C08.textNode.children.takeWhile (fun x => !isNamed "ndJSON" x)).map (·.info.name) =
      ["html", "svg", "xml", "php", "js", "lua", "perl", "python", "json"] ∧
    (C08.textNode.children.takeWhile (fun x => !isNamed "csv" x)).map (·.info.name) =
      ["html", "svg", "xml", "php", "js", "lua", "perl", "python", "json", "ndJSON", "rtf", "srt", "tcl"] ∧
    (C08.textNode.children.takeWhile (fun x => !isNamed "tsv" x)).map (·.info.name) =
      ["html", "svg", "xml", "php", "js", "lua", "perl", "python", "json", "ndJSON", "rtf", "srt", "tcl", "csv"] := by
  refine ⟨by decide, by decide, by decide⟩

theorem accepts_custom (ext : Ext) (h : Bytes) (lim : Nat) (i : Info) (c : Custom) (f : Bytes → Nat → Option Bool)
    (hd : i.det = .custom c) (hm : Cust.customModel c = some f) :
    accepts ext h lim i = (f h lim == some true) := by
  unfold accepts Cust.detEval
  rw [hd]
  simp [Det.evalWith, Cust.custEval, hm]

/-- the generic step: a childless node `n` below text/plain whose check accepts a header that
    text/plain accepts is the reported leaf, unless a rival accepts -/
theorem line_detected (ext : Ext) (x : Bytes) (lim : Nat) (n : String)
    (hfound : C08.textNode.children.find? (isNamed n) = some (lineNode n))
    (hleaf : (lineNode n).children = [])
    (htext : Cust.text (header x lim) = true)
    (hacc : accepts ext (header x lim) lim (lineNode n).info = true) :
    (detect ext Gen.builtin x lim).chain.head? = some (lineNode n).info ∨
    (∃ d ∈ rivals (linePath n) Gen.builtin, accepts ext (header x lim) lim d.info = true) := by
  have hd : descend (linePath n) Gen.builtin = some (lineNode n) := by
    simp only [linePath, descend, C08.text_found, hfound]
  have hp : pathNodes (linePath n) Gen.builtin = [C08.textNode, lineNode n] := by
    simp only [linePath, pathNodes, C08.text_found, hfound]
  have hacc_text : accepts ext (header x lim) lim C08.textNode.info = true := by
    rw [C08.accepts_text ext _ lim _ C08.node_dets.1]; exact htext
  rcases walk_ends (accepts ext (header x lim) lim) (linePath n) Gen.builtin (lineNode n) hd
      (by rw [hp]; intro m hm; simp at hm; rcases hm with rfl | rfl <;> assumption)
      (by rw [hleaf]; intro c hc; cases hc) with h | h
  · left
    simp only [detect, List.head?_reverse]
    exact h
  · exact Or.inr h

/-- **NDJSON through `Detect`** -/
theorem ndjson_detected (ext : Ext) (x : Bytes) (lim : Nat) (htext : Cust.text (header x lim) = true)
    (h : ndjson (header x lim) lim = true) :
    (detect ext Gen.builtin x lim).chain.head? = some (lineNode "ndJSON").info ∨
    (∃ d ∈ rivals (linePath "ndJSON") Gen.builtin, accepts ext (header x lim) lim d.info = true) := by
  apply line_detected ext x lim "ndJSON" nd_found line_node_facts.2.1 htext
  rw [accepts_custom ext _ lim _ .ndjson _ line_node_facts.1 rfl, h]; rfl

/-- **CSV through `Detect`** -/
theorem csv_detected (ext : Ext) (x : Bytes) (lim : Nat) (htext : Cust.text (header x lim) = true)
    (h : sv (header x lim) lim 0x2C = true) :
    (detect ext Gen.builtin x lim).chain.head? = some (lineNode "csv").info ∨
    (∃ d ∈ rivals (linePath "csv") Gen.builtin, accepts ext (header x lim) lim d.info = true) := by
  apply line_detected ext x lim "csv" csv_found line_node_facts.2.2.2.1 htext
  rw [accepts_custom ext _ lim _ .csv _ line_node_facts.2.2.1 rfl, h]; rfl

/-- **TSV through `Detect`** -/
theorem tsv_detected (ext : Ext) (x : Bytes) (lim : Nat) (htext : Cust.text (header x lim) = true)
    (h : sv (header x lim) lim 0x09 = true) :
    (detect ext Gen.builtin x lim).chain.head? = some (lineNode "tsv").info ∨
    (∃ d ∈ rivals (linePath "tsv") Gen.builtin, accepts ext (header x lim) lim d.info = true) := by
  apply line_detected ext x lim "tsv" tsv_found line_node_facts.2.2.2.2.2 htext
  rw [accepts_custom ext _ lim _ .tsv _ line_node_facts.2.2.2.2.1 rfl, h]; rfl

end Mime.C13
