import MimeModel.Props.C11
import MimeModel.Props.C02
import MimeModel.Props.C07
import MimeModel.Lemmas.DetectSound
import MimeModel.Model.Closed
/-
  C11 through `Detect`: the sniffed charset is truthful for undeclared text.

  `Props/C11.lean` proves the property for `Charset.fromPlain`.  Here it is stated about the
  `charset` parameter of the result of `detect`: for a result whose leaf is text/plain the
  parameter *is* `fromPlain` of the examined header (`plain_charset`), hence every clause of C11
  holds of it (`plain_bom`, `plain_utf8_sound`, `plain_utf8_complete`, `plain_latin_split`,
  `plain_never_utf8_for_invalid`); and a parameter is attached only to text/plain, text/html and
  text/xml leaves (`charset_only_on_three_detect`).  `plain_charset` and the corollaries hold for
  every tree and every `ext`; the statements about the built-in tree add what the text/plain
  leaf is there (`plain_leaf_is_text`: the node `text`, whose check accepted the header).
-/
namespace Mime.C11
open Mime Mime.Charset Mime.Spec Mime.Utf8 Mime.Tree Mime.DetectSound

/-- **C11 through `Detect`**: the charset parameter of a text/plain result is `FromPlain` of the
    examined header.  For every tree, every `ext`, every input and limit. -/
theorem plain_charset_gen (ext : Ext) (T : Tree Info) (x : Bytes) (lim : Nat) (leaf : Info)
    (hleaf : (detect ext T x lim).chain.head? = some leaf) (hm : leaf.mime = mimeTextPlain) :
    (detect ext T x lim).charset = fromPlain (header x lim) := by
  rw [charset_of_leaf ext T x lim leaf hleaf, hm]
  simp [charsetFor]

/-- … on the built-in tree -/
theorem plain_charset (ext : Ext) (x : Bytes) (lim : Nat) (leaf : Info)
    (hleaf : (detect ext Gen.builtin x lim).chain.head? = some leaf) (hm : leaf.mime = mimeTextPlain) :
    (detect ext Gen.builtin x lim).charset = fromPlain (header x lim) :=
  plain_charset_gen ext Gen.builtin x lim leaf hleaf hm

/-- on the built-in tree a text/plain leaf is the node `text`, and its check `Text` accepted the
    examined header: it starts with a BOM or contains no binary data byte -/
theorem plain_leaf_is_text (ext : Ext) (x : Bytes) (lim : Nat) (leaf : Info)
    (hleaf : (detect ext Gen.builtin x lim).chain.head? = some leaf) (hm : leaf.mime = mimeTextPlain) :
    leaf.det = .custom .text ∧
    (startsWithBOM (header x lim) = true ∨ noBinary (header x lim) = true) := by
  obtain ⟨hmem, _⟩ := leaf_cases ext Gen.builtin x lim leaf hleaf
  refine ⟨?_, C07.text_in_chain_only_if ext x lim ⟨leaf, ?_, hm⟩⟩
  · have := C07.tree_facts.2.2.1
    rw [List.all_eq_true] at this
    have := this leaf hmem
    simpa [hm] using this
  · exact List.mem_of_mem_head? hleaf

/-- **BOM wins**: a text/plain result on a header that starts with a byte-order mark carries the
    BOM's charset -/
theorem plain_bom (ext : Ext) (x : Bytes) (lim : Nat) (leaf : Info)
    (hleaf : (detect ext Gen.builtin x lim).chain.head? = some leaf) (hm : leaf.mime = mimeTextPlain)
    (hbom : fromBOM (header x lim) ≠ csNone) :
    (detect ext Gen.builtin x lim).charset = fromBOM (header x lim) := by
  rw [plain_charset ext x lim leaf hleaf hm]
  exact bom_wins _ hbom

/-- **utf-8 is reported only for UTF-8**: a text/plain result without BOM whose parameter is
    `utf-8` ⇒ the examined header is well-formed UTF-8 followed, at most, by the cut-off start of
    one more character (the form of `utf8_sound`) -/
theorem plain_utf8_sound (ext : Ext) (x : Bytes) (lim : Nat) (leaf : Info)
    (hleaf : (detect ext Gen.builtin x lim).chain.head? = some leaf) (hm : leaf.mime = mimeTextPlain)
    (hbom : fromBOM (header x lim) = csNone) (h : (detect ext Gen.builtin x lim).charset = csUtf8) :
    ∃ p s, header x lim = p ++ s ∧ U.validUtf8 p = true ∧ (s = [] ∨ U.truncSeq s = true) := by
  rw [plain_charset ext x lim leaf hleaf hm] at h
  exact utf8_sound _ hbom h

/-- **never utf-8 for invalid input**: the contrapositive, in the property's words -/
theorem plain_never_utf8_for_invalid (ext : Ext) (x : Bytes) (lim : Nat) (leaf : Info)
    (hleaf : (detect ext Gen.builtin x lim).chain.head? = some leaf) (hm : leaf.mime = mimeTextPlain)
    (hbom : fromBOM (header x lim) = csNone)
    (hinv : ¬ ∃ p s, header x lim = p ++ s ∧ U.validUtf8 p = true ∧ (s = [] ∨ U.truncSeq s = true)) :
    (detect ext Gen.builtin x lim).charset ≠ csUtf8 :=
  fun h => hinv (plain_utf8_sound ext x lim leaf hleaf hm hbom h)

/-- **utf-8 is always reported for UTF-8 text**: a text/plain result on a non-empty header without
    BOM that is well-formed UTF-8 (possibly with the start of one more character cut off at the
    end) and is all ASCII text or contains a complete non-ASCII character carries `utf-8`
    (the form of `utf8_complete`) -/
theorem plain_utf8_complete (ext : Ext) (x : Bytes) (lim : Nat) (leaf : Info)
    (hleaf : (detect ext Gen.builtin x lim).chain.head? = some leaf) (hm : leaf.mime = mimeTextPlain)
    (p s : Bytes) (hne : header x lim ≠ []) (hbom : fromBOM (header x lim) = csNone)
    (hx : header x lim = p ++ s) (hp : U.validUtf8 p = true) (hs : s = [] ∨ U.truncSeq s = true)
    (h : ascii (header x lim) = true ∨ U.hasNonAscii p = true) :
    (detect ext Gen.builtin x lim).charset = csUtf8 := by
  rw [plain_charset ext x lim leaf hleaf hm]
  exact utf8_complete _ p s hne hbom hx hp hs h

/-- **single-byte split**: windows-1252 is reported exactly when a byte in 0x80–0x9F occurs in the
    examined header, iso-8859-1 only when none does -/
theorem plain_latin_split_detect (ext : Ext) (x : Bytes) (lim : Nat) (leaf : Info)
    (hleaf : (detect ext Gen.builtin x lim).chain.head? = some leaf) (hm : leaf.mime = mimeTextPlain)
    (hbom : fromBOM (header x lim) = csNone) :
    ((detect ext Gen.builtin x lim).charset = csWin1252 → ∃ b ∈ header x lim, 0x80 ≤ b ∧ b ≤ 0x9F) ∧
    ((detect ext Gen.builtin x lim).charset = csLatin1 → ∀ b ∈ header x lim, ¬ (0x80 ≤ b ∧ b ≤ 0x9F)) := by
  rw [plain_charset ext x lim leaf hleaf hm]
  exact plain_latin_split _ hbom

/-- **the parameter is attached only to the three text types**: a non-empty charset parameter ⇒
    the reported leaf is text/plain, text/html or text/xml.  Every tree. -/
theorem charset_only_on_three_detect (ext : Ext) (T : Tree Info) (x : Bytes) (lim : Nat)
    (hne : (detect ext T x lim).charset ≠ []) :
    ∃ leaf, (detect ext T x lim).chain.head? = some leaf ∧
      (leaf.mime = mimeTextPlain ∨ leaf.mime = mimeTextHtml ∨ leaf.mime = mimeTextXml) := by
  obtain ⟨leaf, hleaf⟩ := leaf_exists ext T x lim
  refine ⟨leaf, hleaf, ?_⟩
  rw [charset_of_leaf ext T x lim leaf hleaf] at hne
  exact C02.charset_only_on_three ext leaf.mime (header x lim) hne

/-- the same, read the other way: any other leaf has no parameter -/
theorem no_charset_elsewhere (ext : Ext) (T : Tree Info) (x : Bytes) (lim : Nat) (leaf : Info)
    (hleaf : (detect ext T x lim).chain.head? = some leaf)
    (h1 : leaf.mime ≠ mimeTextPlain) (h2 : leaf.mime ≠ mimeTextHtml) (h3 : leaf.mime ≠ mimeTextXml) :
    (detect ext T x lim).charset = [] := by
  apply Classical.byContradiction
  intro hne
  obtain ⟨l, hl, hm⟩ := charset_only_on_three_detect ext T x lim hne
  rw [hleaf] at hl
  simp only [Option.some.injEq] at hl
  subst hl
  rcases hm with h | h | h
  · exact h1 h
  · exact h2 h
  · exact h3 h

/-! ### the closed model -/

theorem closed_plain_charset (x : Bytes) (lim : Nat) (leaf : Info)
    (hleaf : (Closed.detect x lim).chain.head? = some leaf) (hm : leaf.mime = mimeTextPlain) :
    (Closed.detect x lim).charset = fromPlain (header x lim) :=
  plain_charset Closed.ext x lim leaf hleaf hm

theorem closed_plain_bom (x : Bytes) (lim : Nat) (leaf : Info)
    (hleaf : (Closed.detect x lim).chain.head? = some leaf) (hm : leaf.mime = mimeTextPlain)
    (hbom : fromBOM (header x lim) ≠ csNone) :
    (Closed.detect x lim).charset = fromBOM (header x lim) :=
  plain_bom Closed.ext x lim leaf hleaf hm hbom

theorem closed_plain_utf8_sound (x : Bytes) (lim : Nat) (leaf : Info)
    (hleaf : (Closed.detect x lim).chain.head? = some leaf) (hm : leaf.mime = mimeTextPlain)
    (hbom : fromBOM (header x lim) = csNone) (h : (Closed.detect x lim).charset = csUtf8) :
    ∃ p s, header x lim = p ++ s ∧ U.validUtf8 p = true ∧ (s = [] ∨ U.truncSeq s = true) :=
  plain_utf8_sound Closed.ext x lim leaf hleaf hm hbom h

theorem closed_plain_utf8_complete (x : Bytes) (lim : Nat) (leaf : Info)
    (hleaf : (Closed.detect x lim).chain.head? = some leaf) (hm : leaf.mime = mimeTextPlain)
    (p s : Bytes) (hne : header x lim ≠ []) (hbom : fromBOM (header x lim) = csNone)
    (hx : header x lim = p ++ s) (hp : U.validUtf8 p = true) (hs : s = [] ∨ U.truncSeq s = true)
    (h : ascii (header x lim) = true ∨ U.hasNonAscii p = true) :
    (Closed.detect x lim).charset = csUtf8 :=
  plain_utf8_complete Closed.ext x lim leaf hleaf hm p s hne hbom hx hp hs h

theorem closed_plain_latin_split (x : Bytes) (lim : Nat) (leaf : Info)
    (hleaf : (Closed.detect x lim).chain.head? = some leaf) (hm : leaf.mime = mimeTextPlain)
    (hbom : fromBOM (header x lim) = csNone) :
    ((Closed.detect x lim).charset = csWin1252 → ∃ b ∈ header x lim, 0x80 ≤ b ∧ b ≤ 0x9F) ∧
    ((Closed.detect x lim).charset = csLatin1 → ∀ b ∈ header x lim, ¬ (0x80 ≤ b ∧ b ≤ 0x9F)) :=
  plain_latin_split_detect Closed.ext x lim leaf hleaf hm hbom

theorem closed_charset_only_on_three (x : Bytes) (lim : Nat) (hne : (Closed.detect x lim).charset ≠ []) :
    ∃ leaf, (Closed.detect x lim).chain.head? = some leaf ∧
      (leaf.mime = mimeTextPlain ∨ leaf.mime = mimeTextHtml ∨ leaf.mime = mimeTextXml) :=
  charset_only_on_three_detect Closed.ext Gen.builtin x lim hne

/-! ### non-vacuity (the closed model evaluated by the kernel) -/

/-- "café" in UTF-8: text/plain; charset=utf-8 -/
example : ((Closed.detect [0x63, 0x61, 0x66, 0xC3, 0xA9] 0).chain.map (·.mime)) = [mimeTextPlain, mimeOctet] ∧
    (Closed.detect [0x63, 0x61, 0x66, 0xC3, 0xA9] 0).charset = csUtf8 ∧
    fromBOM (header [0x63, 0x61, 0x66, 0xC3, 0xA9] 0) = csNone ∧
    U.validUtf8 [0x63, 0x61, 0x66, 0xC3, 0xA9] = true := by
  decide +kernel

/-- "café" in Latin-1: text/plain; charset=iso-8859-1 (not UTF-8: 0xE9 starts a three-byte
    character that never comes) -/
example : ((Closed.detect [0x63, 0x61, 0x66, 0xE9] 0).chain.map (·.mime)) = [mimeTextPlain, mimeOctet] ∧
    (Closed.detect [0x63, 0x61, 0x66, 0xE9] 0).charset = csLatin1 ∧
    U.validUtf8 [0x63, 0x61, 0x66, 0xE9] = false := by
  decide +kernel

/-- a byte of 0x80–0x9F that the text table allows (0x85, "…" in cp1252): windows-1252; another
    one (0x80) is in no class of the table: text/plain without a parameter -/
example : ((Closed.detect [0x85, 0x35] 0).chain.map (·.mime)) = [mimeTextPlain, mimeOctet] ∧
    (Closed.detect [0x85, 0x35] 0).charset = csWin1252 ∧
    ((Closed.detect [0x80, 0x35] 0).chain.map (·.mime)) = [mimeTextPlain, mimeOctet] ∧
    (Closed.detect [0x80, 0x35] 0).charset = [] := by
  decide +kernel

/-- "é€" cut inside "€" by the limit (limit 4 of 5 bytes): still utf-8 — the incomplete trailing
    character is not held against the text -/
example : ((Closed.detect [0xC3, 0xA9, 0xE2, 0x82, 0xAC] 4).chain.map (·.mime)) = [mimeTextPlain, mimeOctet] ∧
    (Closed.detect [0xC3, 0xA9, 0xE2, 0x82, 0xAC] 4).charset = csUtf8 ∧
    header [0xC3, 0xA9, 0xE2, 0x82, 0xAC] 4 = [0xC3, 0xA9] ++ [0xE2, 0x82] ∧
    U.validUtf8 [0xC3, 0xA9] = true ∧ U.truncSeq [0xE2, 0x82] = true := by
  decide +kernel

/-- a UTF-16LE BOM in front of bytes that are binary otherwise: text/plain; charset=utf-16le -/
example : ((Closed.detect [0xFF, 0xFE, 0x61, 0x00] 0).chain.map (·.mime)) = [mimeTextPlain, mimeOctet] ∧
    (Closed.detect [0xFF, 0xFE, 0x61, 0x00] 0).charset = fromBOM [0xFF, 0xFE, 0x61, 0x00] ∧
    fromBOM [0xFF, 0xFE, 0x61, 0x00] ≠ csNone := by
  decide +kernel

/-- a leaf that is not one of the three text types carries no parameter: `[1]` is application/json -/
example : ((Closed.detect [0x5B, 0x31, 0x5D] 0).chain.head?.map (·.mime)) =
      some [97, 112, 112, 108, 105, 99, 97, 116, 105, 111, 110, 47, 106, 115, 111, 110] ∧
    (Closed.detect [0x5B, 0x31, 0x5D] 0).charset = [] := by
  decide +kernel

/-- the theorem applied: the hypotheses of `closed_plain_utf8_sound` are satisfiable -/
example : ∃ p s, header [0x63, 0x61, 0x66, 0xC3, 0xA9] 0 = p ++ s ∧ U.validUtf8 p = true ∧
    (s = [] ∨ U.truncSeq s = true) := by
  have h : ((Closed.detect [0x63, 0x61, 0x66, 0xC3, 0xA9] 0).chain.head?.map (·.mime)) = some mimeTextPlain := by
    decide +kernel
  cases hc : (Closed.detect [0x63, 0x61, 0x66, 0xC3, 0xA9] 0).chain.head? with
  | none => rw [hc] at h; cases h
  | some l =>
    rw [hc] at h
    exact closed_plain_utf8_sound _ 0 l hc (by simpa using h) (by decide +kernel) (by decide +kernel)

end Mime.C11
