import MimeModel.Lemmas.JsonIdx
import MimeModel.Gen.Writes
/-
  C01 for the JSON scanner: `Model/JsonIdx.lean` transliterates internal/json/parser.go statement
  by statement with the Go index arithmetic (the cursor `n`, `b[n]`, `b[n:]`, `b[n:n+keyLen-1]`,
  `b[n:n+valLen]`, `qs[queryMatched]`, the path-stack pops `p.currPath[:len(p.currPath)-1]`), the
  `complete` flag and Go's return conventions; every index and slice goes through a checked
  primitive (`panic` = the Go program would panic), every loop and the recursion run on explicit
  fuel (`fuel` = did not finish).  `parseIdx_refines`: for every query list, cap and input the
  outcome is `ok` with exactly the result of the list model `Json.parseWith` that all other JSON
  theorems are about.  So: no index or slice of the scanner is ever out of range (the path stack is
  never popped when empty), and the scanner terminates within `2·len + 4` levels of fuel.
-/
namespace Mime.C01
open Mime Mime.Json Mime.JsonIdxLemmas

/-- **the JSON scanner never panics, terminates, and computes what the list model computes** -/
theorem json_scanner_refines (qs : List Gen.Json.Query) (cap : Nat) (raw : Bytes) :
    JsonIdx.parseIdx qs cap raw = .ok (Json.parseWith PState.fresh cap qs raw) :=
  parseIdx_refines qs cap raw

theorem json_scanner_no_panic (qs : List Gen.Json.Query) (cap : Nat) (raw : Bytes) :
    JsonIdx.parseIdx qs cap raw ≠ .panic := parseIdx_no_panic qs cap raw

theorem json_scanner_terminates (qs : List Gen.Json.Query) (cap : Nat) (raw : Bytes) :
    JsonIdx.parseIdx qs cap raw ≠ .fuel := parseIdx_terminates qs cap raw

set_option maxRecDepth 8000 in
/-- **regenerated tie**: the index and slice expressions of every function of parser.go in the current
    source, in source order, are the ones `Model/JsonIdx.lean` transliterates -/
theorem json_index_expressions_as_modelled :
    Gen.Writes.indexExprsJson = [
  "json.LooksLikeObjectOrArray: raw[i] | raw[i] | raw[i]",
  "json.Parse: queries[queryType]",
  "json.consumeAny: b[n:] | b[n] | b[n:] | b[n:] | b[n:] | b[n:] | b[n:] | b[n:] | b[n:] | b[n:]",
  "json.consumeArray: b[n:] | b[n:] | b[n] | p.currPath[:len(p.currPath)-1] | b[n:] | b[n:] | b[n] | p.currPath[:len(p.currPath)-1]",
  "json.consumeConst: b[i]",
  "json.consumeNumber: b[0] | b[1:] | b[0] | b[1:] | b[0] | b[1:] | b[0] | b[1:] | b[0] | b[0] | b[1:] | b[0] | b[0] | b[1:] | b[0] | b[1:]",
  "json.consumeObject: b[n:] | b[n:] | b[n] | b[n] | b[n:] | b[n:n+keyLen-1] | b[n:] | b[n:] | b[n] | b[n:] | b[n:] | b[n:] | qs[queryMatched] | b[n:n+valLen] | b[n:] | b[n] | p.currPath[:len(p.currPath)-1] | p.currPath[:len(p.currPath)-1]",
  "json.consumeSpace: b[0] | b[1:]",
  "json.consumeString: b[n:] | b[n] | b[n:] | b[n] | b[n:] | b[n]",
  "json.eq: path1[i] | path2[i]",
  "json.queryPathMatch: qs[i]",
  "json.reset: p.currPath[0:0]"] := by decide

end Mime.C01
