import MimeModel.Lemmas.JsonIdx
import MimeModel.Gen.Writes
/-
  C01 for the JSON scanner: `Model/JsonIdx.lean` transliterates internal/json/parser.go statement
  by statement with the Go index arithmetic (the cursor `n`, `b[n]`, `b[n:]`, `b[n:n+keyLen-1]`,
  `b[n:n+valLen]`, `qs[queryMatched]`, the path-stack pops `p.currPath[:len(p.currPath)-1]`), the
  `complete` flag and Go's return conventions; every index and slice goes through a checked
  primitive (`panic` = the Go program would panic), every loop and the recursion run on explicit
  fuel (`fuel` = did not finish).  `parseIdx_refines`: for every query list, cap and input the
  outcome is `ok` with exactly the result of the list model `Json.parseWith` that all other JSON
  theorems are about.  So: no index or slice of the scanner is ever out of range (the path stack is
  never popped when empty), and the scanner terminates within `2·len + 4` levels of fuel.
-/
namespace Mime.C01
open Mime Mime.Json Mime.JsonIdxLemmas

/-- **the JSON scanner never panics, terminates, and computes what the list model computes** -/
theorem json_scanner_refines (qs : List Gen.Json.Query) (cap : Nat) (raw : Bytes) :
    JsonIdx.parseIdx qs cap raw = .ok (Json.parseWith PState.fresh cap qs raw) :=
  parseIdx_refines qs cap raw

theorem json_scanner_no_panic (qs : List Gen.Json.Query) (cap : Nat) (raw : Bytes) :
    JsonIdx.parseIdx qs cap raw ≠ .panic := parseIdx_no_panic qs cap raw

theorem json_scanner_terminates (qs : List Gen.Json.Query) (cap : Nat) (raw : Bytes) :
    JsonIdx.parseIdx qs cap raw ≠ .fuel := parseIdx_terminates qs cap raw

set_option maxRecDepth 8000 in
/-- what `Model/JsonIdx.lean` transliterates: per function of parser.go, the index and slice expressions it may
    evaluate (as a set; the names of variables are written `_`, as the extractor writes them) -/
def modelledJsonIndexSets : List (String × List String) := [
  ("json.LooksLikeObjectOrArray", ["_[_]"]),
  ("json.Parse", ["_[_]"]),
  ("json.consumeAny", ["_[_:]", "_[_]"]),
  ("json.consumeArray", ["_.currPath[:len(_.currPath)-1]", "_[_:]", "_[_]"]),
  ("json.consumeConst", ["_[_]"]),
  ("json.consumeNumber", ["_[0]", "_[1:]"]),
  ("json.consumeObject", ["_.currPath[:len(_.currPath)-1]", "_[_ : _+_-1]", "_[_ : _+_]", "_[_:]", "_[_]"]),
  ("json.consumeSpace", ["_[0]", "_[1:]"]),
  ("json.consumeString", ["_[_:]", "_[_]"]),
  ("json.eq", ["_[_]"]),
  ("json.queryPathMatch", ["_[_]"]),
  ("json.reset", ["_.currPath[0:0]"])]

/-- every index / slice expression of `found` is one the model knows for that function; a function the model
    does not know must not index at all -/
def withinModelled (modelled found : List (String × List String)) : Bool :=
  found.all fun fe =>
    match modelled.lookup fe.1 with
    | some xs => fe.2.all (fun e => xs.contains e)
    | none => fe.2.isEmpty

/-- **regenerated tie**: every index and slice expression of every function of parser.go in the current source
    is one of those `Model/JsonIdx.lean` transliterates for that function.  (A set inclusion, not an equality: an
    expression that was dropped, repeated or moved — `len(b[n:]) > 0` rewritten as `n < len(b)` — needs no new
    reading; a new expression, or any indexing in a new function, does.) -/
theorem json_index_expressions_within_modelled :
    withinModelled modelledJsonIndexSets Gen.Writes.indexSetsJson = true := by decide

end Mime.C01
