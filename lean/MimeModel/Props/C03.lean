import MimeModel.Lemmas.Tree
import MimeModel.Model.Detect
/-
  C03 — the reported hierarchy is the first-match deepest path of the detector tree.
  All statements are generic in the tree (built-in or enlarged by Extend) and in the
  detectors (`acc` is an arbitrary verdict function on nodes).
-/
namespace Mime.C03
open Mime Mime.Tree
variable {α : Type}

/-- Specification: the first-match deepest path.  `stop`: no sub-format accepts.
    `descend`: `c` is the first sub-format, in priority order, that accepts. -/
inductive Path (acc : α → Bool) : Tree α → List α → Prop
  | stop (a : α) (cs : List (Tree α)) :
      (∀ c ∈ cs, acc c.info = false) → Path acc (.node a cs) [a]
  | descend (a : α) (pre : List (Tree α)) (c : Tree α) (post : List (Tree α)) (p : List α) :
      (∀ d ∈ pre, acc d.info = false) → acc c.info = true → Path acc c p →
      Path acc (.node a (pre ++ c :: post)) (a :: p)

theorem walkList_skip (acc : α → Bool) (pre : List (Tree α)) (c : Tree α) (post : List (Tree α))
    (hpre : ∀ d ∈ pre, acc d.info = false) (hc : acc c.info = true) :
    walkList acc (pre ++ c :: post) = walk acc c := by
  induction pre with
  | nil => simp [walkList, hc]
  | cons d ds ih =>
    have hd := hpre d (List.mem_cons_self ..)
    simp only [List.cons_append, walkList, hd, Bool.false_eq_true, ↓reduceIte]
    exact ih (fun e he => hpre e (List.mem_cons_of_mem _ he))

theorem walkList_split (acc : α → Bool) (cs : List (Tree α)) :
    ((∀ c ∈ cs, acc c.info = false) ∧ walkList acc cs = []) ∨
    (∃ pre c post, cs = pre ++ c :: post ∧ (∀ d ∈ pre, acc d.info = false) ∧ acc c.info = true) := by
  induction cs with
  | nil => left; simp [walkList]
  | cons c cs ih =>
    by_cases hc : acc c.info = true
    · right; exact ⟨[], c, cs, rfl, by simp, hc⟩
    · have hc' : acc c.info = false := by simpa using hc
      cases ih with
      | inl h =>
        left
        refine ⟨?_, ?_⟩
        · intro d hd
          cases hd with
          | head => exact hc'
          | tail _ h' => exact h.1 d h'
        · simp [walkList, hc', h.2]
      | inr h =>
        right
        obtain ⟨pre, d, post, he, hp, hd⟩ := h
        refine ⟨c :: pre, d, post, by simp [he], ?_, hd⟩
        intro e hee
        cases hee with
        | head => exact hc'
        | tail _ h' => exact hp e h'

theorem sizeOf_mem_lt {c : Tree α} {pre post : List (Tree α)} (a : α) :
    sizeOf c < sizeOf (Tree.node a (pre ++ c :: post)) := by
  have : sizeOf c < sizeOf (pre ++ c :: post) + 1 := by
    induction pre with
    | nil => simp; omega
    | cons d ds ih => simp; omega
  simp; omega

/-- **C03 (1)**: the walk of `match` produces the first-match deepest path. -/
theorem walk_spec (acc : α → Bool) (t : Tree α) : Path acc t (walk acc t) := by
  have key : ∀ n : Nat, ∀ t : Tree α, sizeOf t ≤ n → Path acc t (walk acc t) := by
    intro n
    induction n with
    | zero => intro t h; cases t; simp at h
    | succ n ih =>
      intro t h
      cases t with
      | node a cs =>
        rw [walk_eq]
        cases walkList_split acc cs with
        | inl hnone =>
          rw [hnone.2]; exact Path.stop a cs hnone.1
        | inr hsome =>
          obtain ⟨pre, c, post, he, hp, hc⟩ := hsome
          subst he
          rw [walkList_skip acc pre c post hp hc]
          have hlt := sizeOf_mem_lt (c := c) (pre := pre) (post := post) a
          exact Path.descend a pre c post _ hp hc (ih c (by omega))
  exact key (sizeOf t) t (Nat.le_refl _)

/-- **C03 (2)**: that path is unique — the specification determines the answer. -/
theorem path_unique (acc : α → Bool) (t : Tree α) (p : List α) (h : Path acc t p) : p = walk acc t := by
  induction h with
  | stop a cs hnone => rw [walk_eq, walkList_eq_nil_of_none acc cs hnone]
  | descend a pre c post p hp hc _ ih => rw [walk_eq, walkList_skip acc pre c post hp hc, ih]

/-- **C03 (3)**: every ancestor of the reported type (every node on the path below the
    root) genuinely accepted the header. -/
theorem ancestors_accept (acc : α → Bool) (t : Tree α) : ∀ i ∈ (walk acc t).tail, acc i = true :=
  (walk_accepted acc).1 t

/-- **C03 (4)**: a path ends exactly where no sub-format accepts, and at every level all
    higher-priority siblings of the chosen sub-format rejected (read off the spec). -/
theorem path_last_children_reject (acc : α → Bool) (t : Tree α) (p : List α) (h : Path acc t p) :
    ∃ leaf : Tree α, p.getLast? = some leaf.info ∧ ∀ c ∈ leaf.children, acc c.info = false := by
  induction h with
  | stop a cs hnone => exact ⟨.node a cs, by simp [info], by simpa [children] using hnone⟩
  | descend a pre c post p _ _ hpath ih =>
    obtain ⟨leaf, hl, hr⟩ := ih
    refine ⟨leaf, ?_, hr⟩
    cases p with
    | nil => cases hpath
    | cons x xs => simpa [List.getLast?_cons_cons] using hl

/-- **C03 (5)**: the model of `Detect` returns exactly that path (leaf first), for every
    tree, every detector family, every input and every limit. -/
theorem detect_chain_is_path (ext : Ext) (T : Tree Info) (x : Bytes) (lim : Nat) :
    Path (accepts ext (header x lim) lim) T (detect ext T x lim).chain.reverse := by
  simp only [detect, List.reverse_reverse]
  exact walk_spec _ T

/-- detectors only ever see the examined header -/
theorem detect_uses_header_only (ext : Ext) (T : Tree Info) (x y : Bytes) (lim : Nat)
    (h : header x lim = header y lim) : (detect ext T x lim).chain = (detect ext T y lim).chain := by
  simp [detect, h]

/- non-vacuity: a three-level tree where the second child matches and descends -/
example : Path (fun n => n % 2 == 0) (.node 1 [.node 3 [], .node 4 [.node 5 [], .node 6 []], .node 8 []]) [1, 4, 6] := by
  have := walk_spec (fun n => n % 2 == 0) (.node 1 [.node 3 [], .node 4 [.node 5 [], .node 6 []], .node 8 []])
  simpa [walk, walkList, info] using this

end Mime.C03
