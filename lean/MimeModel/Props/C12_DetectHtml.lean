import MimeModel.Lemmas.DetectHtml
/-
  C12, HTML clause, on the result of `Detect` (closed model `Closed.ext`, total tokenizer model
  `HtmlTok.startTagsFull`), completed:

  1. `html_detected_header` (Lemmas/DetectHtml.lean), `html_detected_core`, `html_detected_core_whole`
        the walk root → text/plain → text/html and the charset parameter = `FromHTML` of the header
  2. `html_charset_detected_refs`, `html_charset_detected_general`
        `<meta … charset=L …>`, the attribute anywhere among inert attributes with arbitrary values
  3. `html_pragma_detected_refs`, `html_pragma_detected`
        `<meta … http-equiv=Content-Type … content="…charset=L…" …>`, either order, inert attributes
        in front of, between and behind the two
  4. `html_bom_detected`, `html_bom_beats_meta`, `html_bom16_not_html`
        a UTF-8 BOM wins over the meta declaration; behind a UTF-16 / UTF-32 BOM nothing is text/html
  5. `html_fake_meta_ignored_detected`
        fake declarations inside a comment, a `<script>` and a `<title>` in front of the real one
  6. non-vacuity: `Closed.detect` evaluated by the kernel
  7. what the hypotheses exclude

  The document starts with an OPENING `O` (`DetectHtml.HtmlOpen`): leading white space, then `<html>` /
  `<html` SPACE attributes `>` in any letter case (`htmlOpen_html`: the plain `<html>`), the same for
  head, body, div, font, table, a, b, br, p, or `<!DOCTYPE html>` / `<!DOCTYPE html` SPACE … `>`.

  Every theorem is about the EXAMINED HEADER (`header doc lim`: the whole input when `lim = 0` or the
  input is not longer than `lim`, its first `lim` bytes otherwise), so "located inside the examined
  header" is literal: the `<meta …>` tag up to its `>` lies inside the header, `rest` is whatever of
  the input is left inside the header behind it.  `header_whole` turns this into the statement about
  the whole document.
-/
namespace Mime.C12
open Mime Mime.Charset Mime.HtmlTok Mime.HtmlTokLemmas Mime.HtmlUnescapeLemmas Mime.HtmlEnt
open Mime.Tree Mime.WalkPath Mime.Cust Mime.DetectHtml

/-- the outcome all the theorems below have: `Detect(doc)` with read limit `lim` is `text/html` with
    the charset parameter `cs` — unless a format that `match` consults before `text/html` accepts the
    examined header.  `rivals htmlPath Gen.builtin` are the children of the root in front of
    text/plain (`html` is the FIRST child of text/plain: `html_node_facts`) -/
def HtmlOutcome (doc : Bytes) (lim : Nat) (cs : Bytes) : Prop :=
  ((Mime.detect Closed.ext Gen.builtin doc lim).chain.head? = some htmlNode.info ∧
    (Mime.detect Closed.ext Gen.builtin doc lim).charset = cs) ∨
  (∃ d ∈ rivals htmlPath Gen.builtin, accepts Closed.ext (header doc lim) lim d.info = true)

/-- the header is the whole document when there is no limit or the limit is not exceeded -/
theorem header_whole (doc : Bytes) (lim : Nat) (h : lim = 0 ∨ doc.length ≤ lim) : header doc lim = doc :=
  DetectSound.header_whole doc lim h

/-! ### 1. the core -/

/-- **html_detected_core**.  The examined header is `O body` with `O` an opening the `HTML` check
    recognises (`HtmlOpen`: white space, then `<html>` / `<html` SPACE attributes `>` in any letter
    case — or head, body, div, font, table, a, b, br, p — or `<!DOCTYPE html …>`), it contains no
    binary-data byte, and `FromHTML` (BOM check, meta prescan over the tokenizer model in full,
    plain-text guess) answers `result`: then the result of `Detect` is `text/html; charset=result`,
    unless a rival accepts.
    (`charsetFor` of `text/html` IS `fromHTMLBytesFull` of the header — the BOM check is inside — so
    no separate BOM hypothesis is needed.) -/
theorem html_detected_core (doc : Bytes) (lim : Nat) (O body result : Bytes)
    (hshape : header doc lim = O ++ body)
    (hO : HtmlOpen O)
    (htext : Cust.text (header doc lim) = true)
    (hres : fromHTMLBytesFull (header doc lim) = result) :
    HtmlOutcome doc lim result := by
  have hacc : accepts Closed.ext (header doc lim) lim htmlNode.info = true := by
    have := hO.accepts Closed.ext false body lim
    rw [hshape]
    simpa using this
  rcases html_detected_header doc lim htext hacc with ⟨h1, h2⟩ | h
  · exact Or.inl ⟨h1, by rw [h2, hres]⟩
  · exact Or.inr h

/-- the core in the form of `html_charset_detected`: the whole document `<html> body`, examined in full -/
theorem html_detected_core_whole (htmlNm body result : Bytes) (lim : Nat)
    (hh : lowerASCII htmlNm = kHtml)
    (htext : Cust.text (tagText htmlNm [] [] ++ body) = true)
    (hwhole : lim = 0 ∨ (tagText htmlNm [] [] ++ body).length < lim)
    (hres : fromHTMLBytesFull (tagText htmlNm [] [] ++ body) = result) :
    let doc := tagText htmlNm [] [] ++ body
    ((Mime.detect Closed.ext Gen.builtin doc lim).chain.head? = some htmlNode.info ∧
      (Mime.detect Closed.ext Gen.builtin doc lim).charset = result) ∨
    (∃ d ∈ rivals htmlPath Gen.builtin, accepts Closed.ext doc lim d.info = true) := by
  intro doc
  have hhdr : header doc lim = doc := header_whole doc lim (by
    rcases hwhole with h | h
    · exact Or.inl h
    · exact Or.inr (Nat.le_of_lt h))
  have := html_detected_core doc lim (tagText htmlNm [] []) body result (by rw [hhdr]) (htmlOpen_html htmlNm hh)
    (by rw [hhdr]; exact htext) (by rw [hhdr]; exact hres)
  unfold HtmlOutcome at this
  rw [hhdr] at this
  exact this

/-- the common step of sections 2, 3 and 5: behind `O P` (an opening and a prologue), a `<meta …>` tag
    with the attributes `as` whose (finished) attribute list makes the prescan answer a non-empty
    `result` whatever tags follow -/
theorem html_meta_detected (doc : Bytes) (lim : Nat) (O P M : Bytes) (as : List AttrSrc) (rest result : Bytes)
    (hshape : header doc lim = O ++ P ++ M ++ rest)
    (hO : HtmlOpen O)
    (hP : PrologueR P) (hM : MetaSrc M as)
    (hres : ∀ more, fromHTMLToks (finishTagFull { name := kMeta, attrs := parsed as } :: more) = result)
    (hne : result ≠ [])
    (htext : Cust.text (header doc lim) = true) :
    HtmlOutcome doc lim result := by
  refine html_detected_core doc lim O (P ++ M ++ rest) _
    (by rw [hshape]; simp [List.append_assoc]) hO htext ?_
  rw [hshape]
  refine fromHTMLBytesFull_meta_decides_src (O ++ P) M as rest result
    (hO.skips.append hP.skips) hM hres hne ?_
  have := hO.noBOM (P ++ M ++ rest)
  simpa [List.append_assoc] using this

/-! ### 2. `<meta charset>`: any attribute position, any values around it -/

/-- **html_charset_detected_refs** (the most general form).  The examined header is
    `O P <meta ws pre… charset = L post… > rest`:
    * `O` an opening (`HtmlOpen`: `ws <html …>` or `ws <!DOCTYPE html …>`, …, any letter case);
    * `meta`, `charset` in any letter case; `L` double-quoted, single-quoted or bare;
      white space around the `=` of any attribute (`tagTextW`, `EqWs`);
    * `P` a prologue: text, comments, doctype, ordinary start and end tags, complete `<script>` and
      raw-text elements (`PrologueR`);
    * `pre`, `post`: attributes with any keys other than `content`, `charset`, `http-equiv` and
      ARBITRARY values (character references included);
    * no binary-data byte in the header.
    Then `Detect` answers `text/html` with the charset parameter = the DECODED attribute value
    (`attrVal L`: character references replaced, CR / CR LF → LF) in lower case, utf-8 for utf-16
    labels — unless a rival accepts.  No hypothesis about `&` anywhere. -/
theorem html_charset_detected_refs (doc : Bytes) (lim : Nat) (O P nm ws0 : Bytes) (pre post : List (AttrSrc × EqWs)) (cs : Bytes) (form : ValForm) (L sep : Bytes) (e : EqWs)
    (rest : Bytes)
    (hshape : header doc lim = O ++ P ++
      tagTextW nm ws0 (pre ++ (charsetAttr cs form L sep, e) :: post) ++ rest)
    (hO : HtmlOpen O)
    (hP : PrologueR P) (hnm : lowerASCII nm = kMeta)
    (hws : ∀ x ∈ ws0, isWS x = true) (hws0 : ws0 ≠ [])
    (hcs : lowerASCII cs = kwCharset)
    (hwf : attrsWf (plainAttrs (pre ++ (charsetAttr cs form L sep, e) :: post)))
    (hw : ∀ p ∈ pre ++ (charsetAttr cs form L sep, e) :: post, p.2.ok)
    (hpre : ∀ p ∈ pre, inertKey p.1.key) (hpost : ∀ p ∈ post, inertKey p.1.key)
    (hL : attrVal L ≠ [])
    (htext : Cust.text (header doc lim) = true) :
    HtmlOutcome doc lim (norm (attrVal L)) := by
  refine html_meta_detected doc lim O P _ _ rest _ hshape hO hP
    (metaSrc_tagTextW nm ws0 _ hnm hws (fun h => absurd h hws0) hwf hw) ?_ (norm_ne_nil _ hL) htext
  intro more
  rw [plainAttrs_append_cons]
  exact charset_toks (plainAttrs pre) (plainAttrs post) cs form L sep hcs (inert_plainAttrs pre hpre)
    (inert_plainAttrs post hpost) more

/-- **html_charset_detected_general**: no white space around `=`, a label free of `&` and CR — the
    reported charset is the label as written, in lower case (utf-8 for utf-16 labels).  Still: the
    `charset` attribute at any position, the other attributes with arbitrary values (character
    references included), any quoting, any letter case -/
theorem html_charset_detected_general (doc : Bytes) (lim : Nat) (O P nm ws0 : Bytes) (pre post : List AttrSrc) (cs : Bytes) (form : ValForm) (L sep rest : Bytes)
    (hshape : header doc lim = O ++ P ++
      tagText nm ws0 (pre ++ charsetAttr cs form L sep :: post) ++ rest)
    (hO : HtmlOpen O)
    (hP : PrologueR P) (hnm : lowerASCII nm = kMeta)
    (hws : ∀ x ∈ ws0, isWS x = true) (hws0 : ws0 ≠ [])
    (hcs : lowerASCII cs = kwCharset)
    (hwf : attrsWf (pre ++ charsetAttr cs form L sep :: post))
    (hpre : ∀ a ∈ pre, inertKey a.key) (hpost : ∀ a ∈ post, inertKey a.key)
    (hL : L ≠ []) (hcr : ∀ c ∈ L, c ≠ 0x0D) (hamp : L.contains 0x26 = false)
    (htext : Cust.text (header doc lim) = true) :
    HtmlOutcome doc lim (norm L) := by
  have e := attrVal_plain L hcr hamp
  have hres := fun more => charset_toks pre post cs form L sep hcs hpre hpost more
  rw [e] at hres
  exact html_meta_detected doc lim O P _ _ rest _ hshape hO hP
    (metaSrc_tagText nm ws0 _ hnm hws (fun h => absurd h hws0) hwf) hres (norm_ne_nil _ hL) htext

/-! ### 3. the `http-equiv` pragma -/

/-- **html_pragma_detected_refs** (the most general form).  The examined header is
    `O P <meta ws pre… A mid… B post… > rest` where `O` is an opening and `{A, B}` are `http-equiv = V1` and
    `content = V2` in either order (`order = true`: `http-equiv` first), keys in any letter case, any
    quoting, white space around `=`, `pre` / `mid` / `post` inert attributes with arbitrary values.
    With the decoded values `v1 = attrVal V1`, `v2 = attrVal V2`: if `v1` is `content-type` in any
    letter case and `fromMetaElement` finds a label in the lower-cased `v2`, `Detect` answers
    `text/html` with that label (utf-8 for utf-16 labels) — unless a rival accepts -/
theorem html_pragma_detected_refs (order : Bool) (doc : Bytes) (lim : Nat) (O P nm ws0 : Bytes) (p1 p2 : AttrSrc × EqWs) (pre mid post : List (AttrSrc × EqWs)) (rest : Bytes)
    (hshape : header doc lim = O ++ P ++
      tagTextW nm ws0 (pragmaAttrs order p1 p2 pre mid post) ++ rest)
    (hO : HtmlOpen O)
    (hP : PrologueR P) (hnm : lowerASCII nm = kMeta)
    (hws : ∀ x ∈ ws0, isWS x = true) (hws0 : ws0 ≠ [])
    (hk1 : lowerASCII p1.1.key = kHttpEquiv) (hk2 : lowerASCII p2.1.key = kContent)
    (hv1 : lowerASCII (attrVal p1.1.val) = kContentType)
    (hv2 : fromMetaElement (lowerASCII (attrVal p2.1.val)) ≠ [])
    (hwf : attrsWf (plainAttrs (pragmaAttrs order p1 p2 pre mid post)))
    (hw : ∀ p ∈ pragmaAttrs order p1 p2 pre mid post, p.2.ok)
    (hpre : ∀ p ∈ pre, inertKey p.1.key) (hmid : ∀ p ∈ mid, inertKey p.1.key) (hpost : ∀ p ∈ post, inertKey p.1.key)
    (htext : Cust.text (header doc lim) = true) :
    HtmlOutcome doc lim (finalLabel (fromMetaElement (lowerASCII (attrVal p2.1.val)))) := by
  refine html_meta_detected doc lim O P _ _ rest _ hshape hO hP
    (metaSrc_tagTextW nm ws0 _ hnm hws (fun h => absurd h hws0) hwf hw) ?_ (finalLabel_ne_nil _ hv2) htext
  intro more
  rw [plainAttrs_pragma]
  exact pragma_toks order p1.1 p2.1 _ _ _ hk1 hk2 hv1 hv2 (inert_plainAttrs pre hpre) (inert_plainAttrs mid hmid)
    (inert_plainAttrs post hpost) more

/-- **html_pragma_detected**: no white space around `=`; the two values that are read contain no `&`
    and no CR (nothing is assumed about any other value):
    `<meta http-equiv=Content-Type content="text/html; charset=L">` in both attribute orders
    (`order = true`: `http-equiv` first), any letter case of `http-equiv` / `content` /
    `Content-Type`, inert attributes anywhere; the label is
    `finalLabel (fromMetaElement (lowerASCII content))` — utf-16* ↦ utf-8
    (`fromMetaElement_spec` says what `fromMetaElement` extracts) -/
theorem html_pragma_detected (order : Bool) (doc : Bytes) (lim : Nat) (O P nm ws0 : Bytes) (a1 a2 : AttrSrc) (pre mid post : List AttrSrc) (rest : Bytes)
    (hshape : header doc lim = O ++ P ++
      tagText nm ws0 (pragmaAttrs order a1 a2 pre mid post) ++ rest)
    (hO : HtmlOpen O)
    (hP : PrologueR P) (hnm : lowerASCII nm = kMeta)
    (hws : ∀ x ∈ ws0, isWS x = true) (hws0 : ws0 ≠ [])
    (hk1 : lowerASCII a1.key = kHttpEquiv) (hk2 : lowerASCII a2.key = kContent)
    (hv1 : lowerASCII a1.val = kContentType)
    (hv2 : fromMetaElement (lowerASCII a2.val) ≠ [])
    (hcr1 : ∀ c ∈ a1.val, c ≠ 0x0D) (hamp1 : a1.val.contains 0x26 = false)
    (hcr2 : ∀ c ∈ a2.val, c ≠ 0x0D) (hamp2 : a2.val.contains 0x26 = false)
    (hwf : attrsWf (pragmaAttrs order a1 a2 pre mid post))
    (hpre : ∀ a ∈ pre, inertKey a.key) (hmid : ∀ a ∈ mid, inertKey a.key) (hpost : ∀ a ∈ post, inertKey a.key)
    (htext : Cust.text (header doc lim) = true) :
    HtmlOutcome doc lim (finalLabel (fromMetaElement (lowerASCII a2.val))) := by
  have e1 := attrVal_plain a1.val hcr1 hamp1
  have e2 := attrVal_plain a2.val hcr2 hamp2
  have hres := fun more => pragma_toks order a1 a2 pre mid post hk1 hk2 (by rw [e1]; exact hv1) (by rw [e2]; exact hv2)
    hpre hmid hpost more
  rw [e2] at hres
  exact html_meta_detected doc lim O P _ _ rest _ hshape hO hP
    (metaSrc_tagText nm ws0 _ hnm hws (fun h => absurd h hws0) hwf) hres (finalLabel_ne_nil _ hv2) htext

/-! ### 4. a byte-order mark takes precedence -/

/-- **html_bom_detected**.  The examined header is `EF BB BF O body` (`O` an opening): the `HTML` check
    skips the UTF-8 BOM (and only that one), text/plain accepts because of the BOM (binary-data bytes
    or not), and the charset parameter is `utf-8` WHATEVER `body` declares — unless a rival accepts -/
theorem html_bom_detected (doc : Bytes) (lim : Nat) (O body : Bytes)
    (hshape : header doc lim = utf8BOM ++ O ++ body)
    (hO : HtmlOpen O) :
    HtmlOutcome doc lim csUtf8 := by
  have hshape' : header doc lim = utf8BOM ++ (O ++ body) := by
    rw [hshape]; simp [List.append_assoc]
  have hbom : fromBOM (header doc lim) = csUtf8 := by rw [hshape']; exact fromBOM_utf8 _
  have htext : Cust.text (header doc lim) = true := by
    unfold Cust.text
    rw [hbom]
    rfl
  have hacc : accepts Closed.ext (header doc lim) lim htmlNode.info = true := by
    have := hO.accepts Closed.ext true body lim
    rw [hshape']
    simpa using this
  rcases html_detected_header doc lim htext hacc with ⟨h1, h2⟩ | h
  · refine Or.inl ⟨h1, ?_⟩
    rw [h2]
    show fromHTML (header doc lim) _ = csUtf8
    rw [html_bom_first _ _ (by rw [hbom]; decide), hbom]
  · exact Or.inr h

/-- the instance the property sentence is about: behind the UTF-8 BOM a `<meta charset=L>` with any
    label: the answer is `utf-8`, not `L` -/
theorem html_bom_beats_meta (doc : Bytes) (lim : Nat) (htmlNm P nm cs : Bytes) (form : ValForm) (L rest : Bytes)
    (hshape : header doc lim = utf8BOM ++ tagText htmlNm [] [] ++
      (P ++ tagText nm [0x20] [charsetAttr cs form L []] ++ rest))
    (hh : lowerASCII htmlNm = kHtml) :
    HtmlOutcome doc lim csUtf8 :=
  html_bom_detected doc lim (tagText htmlNm [] []) _ hshape (htmlOpen_html htmlNm hh)

/-- every node of the built-in tree whose type is `text/html` carries the `HTML` check -/
theorem html_nodes : ∀ i ∈ Gen.builtin.flatten, i.mime = mimeTextHtml → i.det = Gen.d_HTML := by decide +kernel

theorem header_cons (c : Nat) (r : Bytes) (lim : Nat) : ∃ r', header (c :: r) lim = c :: r' := by
  unfold header
  split
  · exact ⟨r, rfl⟩
  · rename_i h
    cases lim with
    | zero => exact absurd rfl h
    | succ n => exact ⟨r.take n, rfl⟩

/-- **html_bom16_not_html**.  An input whose first byte is not white space, `<` or 0xEF — in
    particular one that starts with a UTF-16 BOM (FE FF / FF FE) or a UTF-32 BOM (00 00 FE FF /
    FF FE 00 00) — is never reported as `text/html`, whatever the limit: the `HTML` check skips the
    UTF-8 BOM only.  So for these BOMs the clause "a byte-order mark takes precedence over an HTML
    meta declaration" says nothing about the result of `Detect`: the meta declaration is not consulted
    because the document is not HTML for the library (it is `text/plain; charset=utf-16be` …, see the
    examples) -/
theorem html_bom16_not_html (c : Nat) (r : Bytes) (lim : Nat) (leaf : Info)
    (hws : isWS c = false) (hlt : c ≠ 0x3C) (hef : c ≠ 0xEF)
    (hleaf : (Mime.detect Closed.ext Gen.builtin (c :: r) lim).chain.head? = some leaf) :
    leaf.mime ≠ mimeTextHtml := by
  intro hm
  obtain ⟨hmem, hcase⟩ := DetectSound.leaf_cases Closed.ext Gen.builtin (c :: r) lim leaf hleaf
  rcases hcase with h | h
  · rw [h] at hm
    exact absurd hm (by decide)
  · obtain ⟨r', hr'⟩ := header_cons c r lim
    rw [hr', html_rejects_head Closed.ext leaf (html_nodes leaf hmem hm) c r' lim hws hlt hef] at h
    cases h

/-! ### 5. fake declarations in front of the real one -/

/-- **html_fake_meta_ignored_detected**.  `<html>`, then a comment `c`, a `<script>` with text `s`
    and a `<title>` with text `t` — each of which may spell any number of `<meta charset=…>` tags —
    then the real `<meta charset="L">`: the real one is reported.  (An instance of
    `html_charset_detected_general`: the three containers are a `PrologueR`.)
    `c` contains no `--` and does not start with `>` / `->`; `s` contains neither `</script` nor
    `<!--`; `t` does not contain `</title` -/
theorem html_fake_meta_ignored_detected (doc : Bytes) (lim : Nat) (htmlNm c s t L rest : Bytes)
    (hshape : header doc lim = tagText htmlNm [] [] ++
      (commentText c ++ (tagText kScript [] [] ++ s ++ endTagText kScript [] ++
        (tagText kTitle [] [] ++ t ++ endTagText kTitle []))) ++
      tagText kMeta [0x20] [charsetAttr kwCharset .dq L []] ++ rest)
    (hh : lowerASCII htmlNm = kHtml)
    (hc : commentBodyOk c = true) (hs : scriptBodyOk s = true) (ht : rawBodyOk kTitle t = true)
    (hL : L ≠ []) (htok : ∀ x ∈ L, tokenChar x = true)
    (htext : Cust.text (header doc lim) = true) :
    HtmlOutcome doc lim (norm L) := by
  have htok' : ∀ x ∈ L, x ≠ 0x0D ∧ x ≠ 0x22 ∧ x ≠ 0x26 := by
    intro x hx
    have := htok x hx
    simp only [tokenChar, Bool.not_eq_true', Bool.or_eq_false_iff, beq_eq_false_iff_ne, ne_eq] at this
    refine ⟨?_, this.1.1.2, this.2⟩
    intro e; subst e
    exact absurd this.1.1.1.1 (by decide)
  have hP : PrologueR (commentText c ++ (tagText kScript [] [] ++ s ++ endTagText kScript [] ++
      (tagText kTitle [] [] ++ t ++ endTagText kTitle []))) := by
    have h3 := PrologueR.rawtext kTitle kTitle [] [] t kTitle [] [] (by decide) (by decide) (by intro x hx; cases hx)
      (fun _ => rfl) trivial ht (by decide) (by intro x hx; cases hx) .nil
    have h2 := PrologueR.script kScript [] [] s kScript [] _ (by decide) (by intro x hx; cases hx)
      (fun _ => rfl) trivial hs (by decide) (by intro x hx; cases hx) h3
    have h1 := PrologueR.plain (commentText c ++ []) _ (.comment c [] hc .nil) h2
    simpa using h1
  refine html_charset_detected_general doc lim (tagText htmlNm [] []) _ kMeta [0x20] [] [] kwCharset .dq L [] rest
    (by rw [hshape]; simp) (htmlOpen_html htmlNm hh) hP (by decide) (by decide) (by decide) (by decide)
    ?_ (by intro a ha; cases ha) (by intro a ha; cases ha) hL (fun x hx => (htok' x hx).1)
    ((noAmp_iff L).mpr (fun x hx => (htok' x hx).2.2)) htext
  refine ⟨⟨?_, ?_, ?_, fun x hx => (htok' x hx).2.1⟩, by simp, trivial⟩
  · show kwCharset ≠ []
    decide
  · show ∀ c ∈ kwCharset, keyChar c = true
    decide
  · intro x hx; cases hx

/-! ### 6. non-vacuity: every theorem instantiated on a concrete document, and `Closed.detect` evaluated
    by the kernel on the same document (all outputs below agree with the library itself) -/

/-- mime type of the reported leaf and charset parameter -/
def leafOfH (x : Bytes) (lim : Nat) : Option Bytes × Bytes :=
  ((Closed.detect x lim).chain.head?.map (·.mime), (Closed.detect x lim).charset)

/-- no format consulted before `text/html` accepts the examined header (the second disjunct of
    `HtmlOutcome` is false) -/
def noRival (x : Bytes) (lim : Nat) : Bool :=
  (rivals htmlPath Gen.builtin).all (fun d => !accepts Closed.ext (header x lim) lim d.info)

/- (2) `html_charset_detected_general`: `<html lang=en>`, a prologue of text and a comment, mixed letter
   case, the `charset` attribute in the MIDDLE, single quotes, a character reference in ANOTHER
   attribute, an unquoted last attribute -/
def doc1 : Bytes := ofString "<HtMl lang=en>\n<!-- c --><MeTa name=\"a&amp;b\" CharSet='KOI8-R' x=y>tail"

example : HtmlOutcome doc1 0 (ofString "koi8-r") := by
  have h := html_charset_detected_general doc1 0
    ([] ++ tagText (ofString "HtMl") [0x20] [⟨ofString "lang", .bare, ofString "en", []⟩])
    (([0x0A] ++ (commentText (ofString " c ") ++ [])) ++ []) (ofString "MeTa") [0x20]
    [⟨ofString "name", .dq, ofString "a&amp;b", [0x20]⟩] [⟨ofString "x", .bare, ofString "y", []⟩]
    (ofString "CharSet") .sq (ofString "KOI8-R") [0x20] (ofString "tail")
    (by decide +kernel) (.tag _ _ _ _ (by decide) (by decide +kernel) (by decide +kernel))
    (.plain _ _ (.text _ _ (by decide) (.comment _ _ (by decide +kernel) .nil)) .nil)
    (by decide +kernel) (by decide) (by decide) (by decide +kernel) (by decide +kernel) (by decide +kernel) (by decide +kernel)
    (by decide +kernel) (by decide +kernel) (by decide +kernel) (by decide +kernel)
  have e : norm (ofString "KOI8-R") = ofString "koi8-r" := by decide +kernel
  rwa [e] at h
example : leafOfH doc1 0 = (some mimeTextHtml, ofString "koi8-r") := by decide +kernel
example : noRival doc1 0 = true := by decide +kernel

/- (2) `html_charset_detected_refs`: leading white space, white space around `=`, a character
   reference INSIDE the label (`ko&#105;8-r` declares `koi8-r`) -/
def doc2 : Bytes := ofString " \n<html><meta charset = \"ko&#105;8-r\" >"

example : HtmlOutcome doc2 0 (ofString "koi8-r") := by
  have h := html_charset_detected_refs doc2 0 ([0x20, 0x0A] ++ tagText (ofString "html") [] []) [] (ofString "meta") [0x20]
    [] [] (ofString "charset") .dq (ofString "ko&#105;8-r") [0x20] ⟨[0x20], [0x20]⟩ []
    (by decide +kernel) (.tag _ _ _ _ (by decide) (by decide +kernel) htmlTagOk_nil) .nil
    (by decide +kernel) (by decide) (by decide) (by decide +kernel) (by decide +kernel) (by decide +kernel)
    (by decide) (by decide) (by decide +kernel) (by decide +kernel)
  have e : norm (attrVal (ofString "ko&#105;8-r")) = ofString "koi8-r" := by decide +kernel
  rwa [e] at h
example : leafOfH doc2 0 = (some mimeTextHtml, ofString "koi8-r") := by decide +kernel
example : noRival doc2 0 = true := by decide +kernel

/- (2) a realistic head: `<!DOCTYPE html>` is the opening, `<html lang="en">` and `<head>` are prologue -/
def doc9 : Bytes := ofString "<!DOCTYPE html>\n<html lang=\"en\">\n<head>\n<meta charset=\"windows-1251\">\n<title>x</title>"

example : HtmlOutcome doc9 0 (ofString "windows-1251") := by
  have h := html_charset_detected_general doc9 0 ([] ++ declText (ofString "DOCTYPE html" ++ []))
    ([0x0A] ++ (tagText (ofString "html") [0x20] [⟨ofString "lang", .dq, ofString "en", []⟩] ++
      ([0x0A] ++ (tagText (ofString "head") [] [] ++ ([0x0A] ++ [])))))
    (ofString "meta") [0x20] [] [] (ofString "charset") .dq (ofString "windows-1251") [] (ofString "\n<title>x</title>")
    (by decide +kernel) (.doctype _ _ _ (by decide) (by decide +kernel) (by decide) (by decide))
    (.of_prologue (.text _ _ (by decide) (.startTag _ _ _ _ (by decide +kernel) (by decide +kernel) (by decide +kernel)
      (by decide +kernel) (by decide) (by decide) (by decide +kernel)
      (.text _ _ (by decide) (.startTag _ _ _ _ (by decide +kernel) (by decide +kernel) (by decide +kernel)
        (by decide +kernel) (by decide) (by decide) (by decide) (.text _ _ (by decide) .nil))))))
    (by decide +kernel) (by decide) (by decide) (by decide +kernel) (by decide +kernel) (by decide) (by decide)
    (by decide +kernel) (by decide +kernel) (by decide +kernel) (by decide +kernel)
  have e : norm (ofString "windows-1251") = ofString "windows-1251" := by decide +kernel
  rwa [e] at h
example : leafOfH doc9 0 = (some mimeTextHtml, ofString "windows-1251") := by decide +kernel
example : noRival doc9 0 = true := by decide +kernel

/- (3) `html_pragma_detected`, REVERSED order (`content` first), upper-case keys, an inert attribute
   with a character reference between the two, single quotes -/
def doc3 : Bytes :=
  ofString "<html><META CONTENT=\"text/html; charset=Shift_JIS\" data-x=\"&lt;\" HTTP-EQUIV='Content-Type'>"

example : HtmlOutcome doc3 0 (ofString "shift_jis") := by
  have h := html_pragma_detected false doc3 0 (tagText (ofString "html") [] []) [] (ofString "META") [0x20]
    ⟨ofString "HTTP-EQUIV", .sq, ofString "Content-Type", []⟩
    ⟨ofString "CONTENT", .dq, ofString "text/html; charset=Shift_JIS", [0x20]⟩
    [] [⟨ofString "data-x", .dq, ofString "&lt;", [0x20]⟩] [] []
    (by decide +kernel) (htmlOpen_html _ (by decide +kernel)) .nil
    (by decide +kernel) (by decide) (by decide) (by decide +kernel) (by decide +kernel) (by decide +kernel)
    (by decide +kernel) (by decide +kernel) (by decide +kernel) (by decide +kernel) (by decide +kernel)
    (by decide +kernel) (by decide) (by decide +kernel) (by decide) (by decide +kernel)
  have e : finalLabel (fromMetaElement (lowerASCII (ofString "text/html; charset=Shift_JIS"))) = ofString "shift_jis" := by
    decide +kernel
  exact e ▸ h
example : leafOfH doc3 0 = (some mimeTextHtml, ofString "shift_jis") := by decide +kernel
example : noRival doc3 0 = true := by decide +kernel

/- (3) `html_pragma_detected`, `http-equiv` first, unquoted lower-case `content-type`, a utf-16 label:
   utf-8 is reported, as WHATWG prescribes -/
def doc4 : Bytes := ofString "<html><meta http-equiv=content-type content='text/html;charset=UTF-16LE'>"

example : HtmlOutcome doc4 0 (ofString "utf-8") := by
  have h := html_pragma_detected true doc4 0 (tagText (ofString "html") [] []) [] (ofString "meta") [0x20]
    ⟨ofString "http-equiv", .bare, ofString "content-type", [0x20]⟩
    ⟨ofString "content", .sq, ofString "text/html;charset=UTF-16LE", []⟩
    [] [] [] []
    (by decide +kernel) (htmlOpen_html _ (by decide +kernel)) .nil
    (by decide +kernel) (by decide) (by decide) (by decide +kernel) (by decide +kernel) (by decide +kernel)
    (by decide +kernel) (by decide +kernel) (by decide +kernel) (by decide +kernel) (by decide +kernel)
    (by decide +kernel) (by decide) (by decide) (by decide) (by decide +kernel)
  have e : finalLabel (fromMetaElement (lowerASCII (ofString "text/html;charset=UTF-16LE"))) = ofString "utf-8" := by
    decide +kernel
  exact e ▸ h
example : leafOfH doc4 0 = (some mimeTextHtml, ofString "utf-8") := by decide +kernel

/- (3) `html_pragma_detected_refs`: character references in BOTH values that are read, white space
   around one `=`: `Content&#45;Type`, `text/html&semi; charset&equals;koi8-u` -/
def doc5 : Bytes :=
  ofString "<html><meta http-equiv=\"Content&#45;Type\" content = \"text/html&semi; charset&equals;koi8-u\">"

example : HtmlOutcome doc5 0 (ofString "koi8-u") := by
  have h := html_pragma_detected_refs true doc5 0 (tagText (ofString "html") [] []) [] (ofString "meta") [0x20]
    (⟨ofString "http-equiv", .dq, ofString "Content&#45;Type", [0x20]⟩, EqWs.none)
    (⟨ofString "content", .dq, ofString "text/html&semi; charset&equals;koi8-u", []⟩, ⟨[0x20], [0x20]⟩)
    [] [] [] []
    (by decide +kernel) (htmlOpen_html _ (by decide +kernel)) .nil
    (by decide +kernel) (by decide) (by decide) (by decide +kernel) (by decide +kernel) (by decide +kernel)
    (by decide +kernel) (by decide +kernel) (by decide +kernel) (by decide) (by decide) (by decide) (by decide +kernel)
  have e : finalLabel (fromMetaElement (lowerASCII (attrVal (ofString "text/html&semi; charset&equals;koi8-u")))) =
      ofString "koi8-u" := by decide +kernel
  exact e ▸ h
example : leafOfH doc5 0 = (some mimeTextHtml, ofString "koi8-u") := by decide +kernel

/- (4) `html_bom_beats_meta`: behind a UTF-8 BOM the declared koi8-r is ignored -/
def doc6 : Bytes := [0xEF, 0xBB, 0xBF] ++ ofString "<html><meta charset=koi8-r>"

example : HtmlOutcome doc6 0 csUtf8 :=
  html_bom_beats_meta doc6 0 (ofString "html") [] (ofString "meta") (ofString "charset") .bare (ofString "koi8-r") []
    (by decide +kernel) (by decide +kernel)
example : csUtf8 = ofString "utf-8" := by decide +kernel
example : leafOfH doc6 0 = (some mimeTextHtml, ofString "utf-8") := by decide +kernel
example : noRival doc6 0 = true := by decide +kernel
/- without the BOM: koi8-r -/
example : leafOfH (ofString "<html><meta charset=koi8-r>") 0 = (some mimeTextHtml, ofString "koi8-r") := by decide +kernel

/- (4) `html_bom16_not_html`: the same document behind a UTF-16 / UTF-32 BOM, and a genuine UTF-16LE
   `<html>`: text/plain with the BOM's charset — the library never calls them HTML -/
example : leafOfH ([0xFE, 0xFF] ++ ofString "<html><meta charset=koi8-r>") 0 = (some mimeTextPlain, ofString "utf-16be") := by
  decide +kernel
example : leafOfH ([0xFF, 0xFE] ++ ofString "<html><meta charset=koi8-r>") 0 = (some mimeTextPlain, ofString "utf-16le") := by
  decide +kernel
example : leafOfH ([0, 0, 0xFE, 0xFF] ++ ofString "<html><meta charset=koi8-r>") 0 = (some mimeTextPlain, ofString "utf-32be") := by
  decide +kernel
example : leafOfH [0xFF, 0xFE, 60, 0, 104, 0, 116, 0, 109, 0, 108, 0, 62, 0] 0 = (some mimeTextPlain, ofString "utf-16le") := by
  decide +kernel
example (r : Bytes) (lim : Nat) (leaf : Info) (h : (Mime.detect Closed.ext Gen.builtin (0xFE :: 0xFF :: r) lim).chain.head? = some leaf) :
    leaf.mime ≠ mimeTextHtml :=
  html_bom16_not_html 0xFE _ lim leaf (by decide) (by decide) (by decide) h

/- (5) `html_fake_meta_ignored_detected`: three fake declarations, then the real one -/
def doc7 : Bytes := ofString
  "<html><!--<meta charset=f1>--><script><meta charset=f2></script><title><meta charset=f3></title><meta charset=\"koi8-r\">"

example : HtmlOutcome doc7 0 (ofString "koi8-r") := by
  have h := html_fake_meta_ignored_detected doc7 0 (ofString "html") (ofString "<meta charset=f1>")
    (ofString "<meta charset=f2>") (ofString "<meta charset=f3>") (ofString "koi8-r") []
    (by decide +kernel) (by decide +kernel) (by decide +kernel) (by decide +kernel) (by decide +kernel)
    (by decide +kernel) (by decide +kernel) (by decide +kernel)
  have e : norm (ofString "koi8-r") = ofString "koi8-r" := by decide +kernel
  rwa [e] at h
example : leafOfH doc7 0 = (some mimeTextHtml, ofString "koi8-r") := by decide +kernel
example : noRival doc7 0 = true := by decide +kernel

/- "located inside the examined header": with the limit right behind the `>` of the meta tag the theorem
   applies to the 27-byte header (`rest = []`) … -/
def doc8 : Bytes := ofString "<html><meta charset=koi8-r>" ++ [0xC5, 0x91] ++ ofString "xxxxxxxx"

example : HtmlOutcome doc8 27 (ofString "koi8-r") := by
  have h := html_charset_detected_general doc8 27 (tagText (ofString "html") [] []) [] (ofString "meta") [0x20]
    [] [] (ofString "charset") .bare (ofString "koi8-r") [] []
    (by decide +kernel) (htmlOpen_html _ (by decide +kernel)) .nil
    (by decide +kernel) (by decide) (by decide) (by decide +kernel) (by decide +kernel) (by decide) (by decide)
    (by decide +kernel) (by decide +kernel) (by decide +kernel) (by decide +kernel)
  have e : norm (ofString "koi8-r") = ofString "koi8-r" := by decide +kernel
  rwa [e] at h
example : leafOfH doc8 27 = (some mimeTextHtml, ofString "koi8-r") := by decide +kernel
/- … and one byte earlier the tag is cut off, not reported by the tokenizer, and the bytes are sniffed -/
example : leafOfH doc8 26 = (some mimeTextHtml, ofString "utf-8") := by decide +kernel

/- (1) `html_detected_core` with a document that declares nothing: the plain-text guess -/
example : HtmlOutcome (ofString "<html><p>\xC5\x91") 0 (ofString "utf-8") :=
  html_detected_core (ofString "<html><p>\xC5\x91") 0 (tagText (ofString "html") [] []) (ofString "<p>\xC5\x91")
    (ofString "utf-8") (by decide +kernel) (htmlOpen_html _ (by decide +kernel)) (by decide +kernel) (by decide +kernel)

/-! ### 7. what the hypotheses exclude (every output below agrees with the library itself) -/

/- `HtmlTagOk`: the byte behind `<html` must be `>` or a SPACE.  `<html` followed by a line break or a
   TAB — legal HTML, and what a formatter produces for a long attribute list — is not text/html for
   the library, and the declared charset is lost: text/plain; charset=utf-8 for a koi8-r document -/
example : leafOfH (ofString "<html\n lang=en><meta charset=koi8-r>") 0 = (some mimeTextPlain, ofString "utf-8") := by
  decide +kernel
example : leafOfH (ofString "<html\tlang=en><meta charset=koi8-r>") 0 = (some mimeTextPlain, ofString "utf-8") := by
  decide +kernel
example : leafOfH (ofString "<html lang=en><meta charset=koi8-r>") 0 = (some mimeTextHtml, ofString "koi8-r") := by
  decide +kernel

/- "surrounding whitespace": white space around `=` is covered (doc2, doc5).  White space INSIDE the
   quotes is part of the value: `html_charset_detected_general` applies (`L = " utf-8 "`) and says the
   reported parameter is `" utf-8 "` with the blanks — the library does not strip them (WHATWG's "get an
   encoding" strips leading and trailing ASCII white space from the label).  Same in the pragma form
   when the label is quoted inside `content` -/
example : leafOfH (ofString "<html><meta charset=\" utf-8 \">") 0 = (some mimeTextHtml, ofString " utf-8 ") := by
  decide +kernel
example : norm (ofString " utf-8 ") = ofString " utf-8 " := by decide +kernel
example : leafOfH (ofString "<html><meta http-equiv=Content-Type content=\"text/html; charset=' utf-8 '\">") 0 =
    (some mimeTextHtml, ofString " utf-8 ") := by decide +kernel
/- an unquoted label inside `content` is delimited by white space, so there it is stripped -/
example : leafOfH (ofString "<html><meta http-equiv=Content-Type content=\"text/html; charset = utf-8 \">") 0 =
    (some mimeTextHtml, ofString "utf-8") := by decide +kernel

/- `hL`: an empty label declares nothing, the bytes are sniffed -/
example : leafOfH (ofString "<html><meta charset=\"\">") 0 = (some mimeTextHtml, ofString "utf-8") := by decide +kernel

/- `htext`: one binary-data byte anywhere in the header and the document is not text at all … -/
example : leafOfH (ofString "<html><meta charset=koi8-r>" ++ [0]) 0 = (some mimeOctet, []) := by decide +kernel
/- … unless it starts with a BOM: `Text` returns true on a BOM without looking further
   (`html_bom_detected` has no `htext` hypothesis) -/
example : leafOfH ([0xEF, 0xBB, 0xBF] ++ ofString "<html><meta charset=koi8-r>" ++ [0]) 0 = (some mimeTextHtml, ofString "utf-8") := by
  decide +kernel

/- the rival disjunct is real: `BOOKMOBI` at offset 60 of an HTML document -/
example : leafOfH (ofString "<html><meta charset=koi8-r><!-- xxxxxxxxxxxxxxxxxxxxxxxxxxxxBOOKMOBI -->") 0 =
    (some (ofString "application/x-mobipocket-ebook"), []) := by decide +kernel
example : noRival (ofString "<html><meta charset=koi8-r><!-- xxxxxxxxxxxxxxxxxxxxxxxxxxxxBOOKMOBI -->") 0 = false := by
  decide +kernel

end Mime.C12
