import MimeModel.Lemmas.MediaTypeU
import MimeModel.Lemmas.MediaTypeUB
import MimeModel.Props.C15
/-
  C15 for ARBITRARY byte strings: `(*MIME).Is` / `EqualsAny` call `mime.ParseMediaType`, which
  trims *Unicode* white space, lower-cases with *Unicode* rules (U+212A -> k, U+0130 -> i are the only
  runes >= 0x80 that matter) and replaces invalid UTF-8 by U+FFFD.  `Mime.MTU.typeOfU` models the
  first return value for every byte string (validated against go1.23.5 on 9.7 million inputs, see
  tools/mediatype_unicode_validation_test.go.txt); the theorems below lift C15 to it.
-/
namespace Mime.C15
open Mime Mime.Tree Mime.MT Mime.MTU

/-- model of `(*MIME).Is` on arbitrary bytes (mirror of `isM`) -/
def isMU (i : Info) (s : Bytes) : Bool := typeOfU s == typeOfU i.mime || i.aliases.contains (typeOfU s)
/-- model of `EqualsAny` on arbitrary bytes -/
def equalsAnyU (s : Bytes) (ms : List Bytes) : Bool := ms.any (fun m => typeOfU s == typeOfU m)

/-! ### the old model is the restriction to ASCII -/

theorem typeOfU_ascii (v : Bytes) (h : ∀ b ∈ v, b < 0x80) : typeOfU v = typeOf v := by
  unfold typeOfU typeOf
  rw [parseU_ascii v h]

theorem errU_ascii (v : Bytes) (h : ∀ b ∈ v, b < 0x80) : errU v = (parse v).2.2 := by
  unfold errU
  rw [parseU_ascii v h]

theorem isMU_ascii (i : Info) (s : Bytes) (hi : ∀ b ∈ i.mime, b < 0x80) (hs : ∀ b ∈ s, b < 0x80) :
    isMU i s = isM i s := by
  unfold isMU isM
  rw [typeOfU_ascii s hs, typeOfU_ascii i.mime hi]

/-! ### Unicode white space, U+212A, U+0130, everything else -/

/-- **Unicode white space around the type is ignored**: `w1`, `w2` are arbitrary concatenations of
    the UTF-8 encodings of the 25 `unicode.IsSpace` runes (`spaceEncodings`: U+0009..U+000D, U+0020,
    U+0085, U+00A0, U+1680, U+2000..U+200A, U+2028, U+2029, U+202F, U+205F, U+3000), `t` is ANY byte
    string without `;` (valid UTF-8 or not), `rest` is empty or a parameter list -/
theorem typeOfU_trim_unicode (w1 t w2 rest : Bytes) (h1 : WS w1) (h2 : WS w2) (ht : ∀ c ∈ t, c ≠ 0x3B)
    (hrest : rest = [] ∨ ∃ r, rest = 0x3B :: r) : typeOfU (w1 ++ t ++ w2 ++ rest) = typeOfU (t ++ rest) := by
  unfold typeOfU
  rw [parseU_trim_unicode w1 t w2 rest h1 h2 ht hrest]

theorem errU_trim_unicode (w1 t w2 rest : Bytes) (h1 : WS w1) (h2 : WS w2) (ht : ∀ c ∈ t, c ≠ 0x3B)
    (hrest : rest = [] ∨ ∃ r, rest = 0x3B :: r) : errU (w1 ++ t ++ w2 ++ rest) = errU (t ++ rest) := by
  unfold errU
  rw [parseU_trim_unicode w1 t w2 rest h1 h2 ht hrest]

/-- **`E2 84 AA` (U+212A KELVIN SIGN) in front of the first `;` counts as `k`** — whatever
    surrounds it (`a` has no `;`; `a`, `b` arbitrary bytes otherwise) -/
theorem typeOfU_kelvin (a b : Bytes) (ha : ∀ c ∈ a, c ≠ 0x3B) :
    typeOfU (a ++ [0xE2, 0x84, 0xAA] ++ b) = typeOfU (a ++ [0x6B] ++ b) := by
  unfold typeOfU
  rw [parseU_kelvin a b ha]

/-- **`C4 B0` (U+0130) in front of the first `;` counts as `i`** -/
theorem typeOfU_idot (a b : Bytes) (ha : ∀ c ∈ a, c ≠ 0x3B) :
    typeOfU (a ++ [0xC4, 0xB0] ++ b) = typeOfU (a ++ [0x69] ++ b) := by
  unfold typeOfU
  rw [parseU_idot a b ha]

/-- **any other non-ASCII rune in the type part makes the result empty**: if decoding the part of
    `v` in front of the first `;` the way `for _, r := range` does (`runes`: every byte that does
    not start a shortest-form encoding of a scalar value yields U+FFFD) produces a rune `r >= 0x80`
    that is neither white space nor U+212A nor U+0130, then `ParseMediaType` returns
    `"", nil, "mime: …"` (one of the `checkMediaTypeDisposition` errors) -/
theorem typeOfU_nonascii_invalid (v : Bytes) (r : Nat) (hr : r ∈ runes (cutSemi v).1) (h80 : 0x80 ≤ r)
    (hk : r ≠ 0x212A) (hi : r ≠ 0x130) (hsp : isSpaceRune r = false) : typeOfU v = [] ∧ errU v = .noType := by
  unfold typeOfU errU
  rw [parseU_nonascii_invalid v r hr h80 hk hi hsp]
  exact ⟨rfl, rfl⟩

/-- a byte that occurs in no UTF-8 encoding at all (`C0`, `C1`, `F5`..`FF`) anywhere in front of the
    first `;` makes the result empty, whatever surrounds it.  (For continuation bytes and lead
    bytes it depends on the neighbours — `C2` followed by `A0` is a NBSP — and
    `typeOfU_nonascii_invalid` / `typeOfU_clean` are the precise statements.) -/
theorem typeOfU_invalid_byte (a b : Bytes) (c : Nat) (ha : ∀ x ∈ a, x ≠ 0x3B)
    (hc : c = 0xC0 ∨ c = 0xC1 ∨ 0xF5 ≤ c) : typeOfU (a ++ c :: b) = [] := by
  have hc3 : c ≠ 0x3B := by omega
  have hd : ∀ t, decode1 c t = (0xFFFD, t) := by
    intro t
    unfold decode1
    have h1 : ¬ c < 0x80 := by omega
    have h2 : (decide (0xC2 ≤ c) && decide (c ≤ 0xDF)) = false := by
      rw [Bool.eq_false_iff]; simp only [Bool.and_eq_true, decide_eq_true_eq, ne_eq]; omega
    have h3 : (decide (0xE0 ≤ c) && decide (c ≤ 0xEF)) = false := by
      rw [Bool.eq_false_iff]; simp only [Bool.and_eq_true, decide_eq_true_eq, ne_eq]; omega
    have h4 : (decide (0xF0 ≤ c) && decide (c ≤ 0xF4)) = false := by
      rw [Bool.eq_false_iff]; simp only [Bool.and_eq_true, decide_eq_true_eq, ne_eq]; omega
    simp [h1, h2, h3, h4]
  have hcut : (cutSemi (a ++ c :: b)).1 = a ++ c :: (cutSemi b).1 := by
    have : a ++ c :: b = (a ++ [c]) ++ b := by simp
    rw [this, cutSemi_app2 (a ++ [c]) b]
    · simp
    · intro x hx
      rcases List.mem_append.mp hx with hx | hx
      · exact ha x hx
      · simp at hx; subst hx; exact hc3
  refine (typeOfU_nonascii_invalid (a ++ c :: b) 0xFFFD ?_ (by decide) (by decide) (by decide) (by decide)).1
  rw [hcut]
  have hs : StartOK (c :: (cutSemi b).1) := by
    apply startOK_cons
    unfold isCont
    rw [Bool.eq_false_iff]
    simp only [Bool.and_eq_true, decide_eq_true_eq, ne_eq]
    omega
  rw [runes_append' a _ hs, runes_cons, hd]
  simp

/-- byte-level converse of `typeOfU_nonascii_invalid`: whenever a media type comes back, the part of
    the argument in front of the first `;` consists only of ASCII bytes, `E2 84 AA`, `C4 B0` and
    encodings of white-space runes (`Clean`) -/
theorem typeOfU_clean (v : Bytes) (h : typeOfU v ≠ []) : Clean (cutSemi v).1 := parseU_clean v h

/-! ### the equality helpers -/

/-- `Is` depends on its argument only through the normalised type — for ALL byte strings -/
theorem is_by_type_U (i : Info) (s s' : Bytes) (h : typeOfU s = typeOfU s') : isMU i s = isMU i s' := by
  simp [isMU, h]

theorem equalsAny_by_type_U (s s' : Bytes) (ms : List Bytes) (h : typeOfU s = typeOfU s') :
    equalsAnyU s ms = equalsAnyU s' ms := by
  simp [equalsAnyU, h]

/-- `m.Is(s)` ⇔ the normalised `s` is m's type or one of its aliases, for every byte string `s`
    (for nodes whose own type is normalised) -/
theorem is_iff_U (i : Info) (hn : typeOfU i.mime = i.mime) (s : Bytes) :
    isMU i s = true ↔ typeOfU s = i.mime ∨ typeOfU s ∈ i.aliases := by
  simp [isMU, hn]

/-- `EqualsAny(s, ms...)` ⇔ some `m` has the same normalised type -/
theorem equalsAny_U (s : Bytes) (ms : List Bytes) :
    equalsAnyU s ms = true ↔ ∃ m ∈ ms, typeOfU s = typeOfU m := by
  simp [equalsAnyU]

/-- **regenerated obligation**: every registered type and alias is pure ASCII -/
theorem registered_ascii :
    Gen.builtin.flatten.all (fun i => (i.mime :: i.aliases).all (fun n => n.all (fun b => decide (b < 0x80)))) = true := by
  decide +kernel

theorem registered_asc (i : Info) (hi : i ∈ Gen.builtin.flatten) (n : Bytes) (hn : n ∈ i.mime :: i.aliases) :
    ∀ b ∈ n, b < 0x80 := by
  have h := registered_ascii
  rw [List.all_eq_true] at h
  have h1 := h i hi
  rw [List.all_eq_true] at h1
  have h2 := h1 n hn
  rw [List.all_eq_true] at h2
  intro b hb
  simpa using h2 b hb

/-- every registered type and alias is a fixed point of the Unicode-aware normalisation -/
theorem registered_typeOfU (i : Info) (hi : i ∈ Gen.builtin.flatten) (n : Bytes) (hn : n ∈ i.mime :: i.aliases) :
    typeOfU n = n := by
  rw [typeOfU_ascii n (registered_asc i hi n hn)]
  have h := registered_resolve
  rw [List.all_eq_true] at h
  have h1 := h i hi
  rw [List.all_eq_true] at h1
  have h2 := h1 n hn
  simp only [Bool.and_eq_true, decide_eq_true_eq] at h2
  exact h2.1

/-- **C15 for all byte strings**: for a registered node, `Is(s)` holds exactly when the first result
    of `mime.ParseMediaType(s)` is the node's type or one of its aliases -/
theorem registered_is_iff_U (i : Info) (hi : i ∈ Gen.builtin.flatten) (s : Bytes) :
    isMU i s = true ↔ typeOfU s ∈ i.mime :: i.aliases := by
  rw [is_iff_U i (registered_typeOfU i hi i.mime (List.mem_cons_self ..)) s, List.mem_cons]

/-- on ASCII arguments the registered nodes answer as the ASCII model says -/
theorem registered_isMU_ascii (i : Info) (hi : i ∈ Gen.builtin.flatten) (s : Bytes) (hs : ∀ b ∈ s, b < 0x80) :
    isMU i s = isM i s :=
  isMU_ascii i s (registered_asc i hi i.mime (List.mem_cons_self ..)) hs

/-- **decorations, Unicode version**: for a registered type or alias `n`, any `t` whose normalised
    form (`normType`: decode, lower-case — including U+212A / U+0130 —, trim) is `n`, Unicode white
    space on both sides and any parameter list: the type that comes back is `n`, unless the
    parameter list has a duplicate (then `ParseMediaType` returns "" and an error) -/
theorem registered_decorated_U (i : Info) (hi : i ∈ Gen.builtin.flatten) (n : Bytes) (hn : n ∈ i.mime :: i.aliases)
    (t w1 w2 rest : Bytes) (ht : normType t = n) (hts : ∀ c ∈ t, c ≠ 0x3B) (h1 : WS w1) (h2 : WS w2)
    (hrest : rest = [] ∨ ∃ r, rest = 0x3B :: r) :
    typeOfU (w1 ++ t ++ w2 ++ rest) = n ∨ errU (w1 ++ t ++ w2 ++ rest) = .duplicate := by
  have hall := registered_typeOK
  rw [List.all_eq_true] at hall
  have h1' := hall i hi
  rw [List.all_eq_true] at h1'
  obtain ⟨maj, sub, hok⟩ := typeOK_of_b n (h1' n hn)
  have hct := checkType_ok n maj sub hok
  unfold typeOfU errU
  rw [parseU_trim_unicode w1 t w2 rest h1 h2 hts hrest, parseU_eq, cutSemi_split t rest hts hrest]
  simp only [ht]
  unfold parseCore
  simp only [hct, Bool.not_true, Bool.false_eq_true, ↓reduceIte]
  generalize parseParamsU semiOnlyU _ _ _ = e
  cases e with
  | none => left; rfl
  | invalidParam => left; rfl
  | noType => left; rfl
  | duplicate => right; rfl

/-! ### examples (`decide`) -/

-- "VİDEO/QUİCKTİME" (U+0130 three times, U+212A once) is video/quicktime
example : typeOfU [86, 196, 176, 68, 69, 79, 47, 81, 85, 196, 176, 67, 226, 132, 170, 84, 196, 176, 77, 69]
    = [118, 105, 100, 101, 111, 47, 113, 117, 105, 99, 107, 116, 105, 109, 101] := by decide
-- U+3000 "video/x-matros" U+212A "a" U+00A0 U+2003 `; codecs="a, b"` is video/x-matroska
example : typeOfU [227, 128, 128, 118, 105, 100, 101, 111, 47, 120, 45, 109, 97, 116, 114, 111, 115, 226, 132, 170, 97, 194, 160,
    226, 128, 131, 59, 32, 99, 111, 100, 101, 99, 115, 61, 34, 97, 44, 32, 98, 34]
    = [118, 105, 100, 101, 111, 47, 120, 45, 109, 97, 116, 114, 111, 115, 107, 97] := by decide
-- the QuickTime node `Is` "VİDEO/QUİCKTİME"
example : (Gen.builtin.lookup (fun j => j.mime == [118, 105, 100, 101, 111, 47, 113, 117, 105, 99, 107, 116, 105, 109, 101])).map
    (fun p => p.getLast?.map (fun j => isMU j [86, 196, 176, 68, 69, 79, 47, 81, 85, 196, 176, 67, 226, 132, 170, 84, 196, 176, 77, 69]))
    = some (some true) := by decide +kernel
-- "text/html" + U+00A0 (NBSP) is text/html
example : typeOfU [116, 101, 120, 116, 47, 104, 116, 109, 108, 194, 160] = [116, 101, 120, 116, 47, 104, 116, 109, 108] := by decide
-- "text/html" + U+200B (ZERO WIDTH SPACE: not white space): ""
example : typeOfU [116, 101, 120, 116, 47, 104, 116, 109, 108, 226, 128, 139] = [] := by decide
-- U+FEFF (BOM) + "text/html": ""
example : typeOfU [239, 187, 191, 116, 101, 120, 116, 47, 104, 116, 109, 108] = [] := by decide
-- "text/html" + U+180E (MONGOLIAN VOWEL SEPARATOR, white space until Unicode 6.3): ""
example : typeOfU [116, 101, 120, 116, 47, 104, 116, 109, 108, 225, 160, 142] = [] := by decide
-- a lone 0xFF: ""
example : typeOfU [0xFF] = [] ∧ errU [0xFF] = .noType := by decide
-- "text/html" + a truncated NBSP (C2): ""
example : typeOfU [116, 101, 120, 116, 47, 104, 116, 109, 108, 194] = [] := by decide
-- "text/html" + an overlong space (C0 A0): ""
example : typeOfU [116, 101, 120, 116, 47, 104, 116, 109, 108, 192, 160] = [] := by decide
-- "application/x-m" U+017F "-shortcut": LATIN SMALL LETTER LONG S is already lower case (only
-- `strings.EqualFold` / upper-casing would identify it with `s`): ""
example : typeOfU [97, 112, 112, 108, 105, 99, 97, 116, 105, 111, 110, 47, 120, 45, 109, 197, 191, 45, 115, 104, 111, 114, 116, 99, 117, 116]
    = [] := by decide
-- "appl" U+0131 "cation/json": dotless i stays dotless: ""
example : typeOfU [97, 112, 112, 108, 196, 177, 99, 97, 116, 105, 111, 110, 47, 106, 115, 111, 110] = [] := by decide
-- "text/" U+FF48 "tml" (full-width h): ""
example : typeOfU [116, 101, 120, 116, 47, 239, 189, 136, 116, 109, 108] = [] := by decide
-- "text/html" U+2028 ";" U+00A0 "charset": the type comes back with ErrInvalidMediaParameter
example : typeOfU [116, 101, 120, 116, 47, 104, 116, 109, 108, 226, 128, 168, 59, 194, 160, 99, 104, 97, 114, 115, 101, 116]
      = [116, 101, 120, 116, 47, 104, 116, 109, 108] ∧
    errU [116, 101, 120, 116, 47, 104, 116, 109, 108, 226, 128, 168, 59, 194, 160, 99, 104, 97, 114, 115, 101, 116] = .invalidParam := by decide
-- "text/html" U+2029 ";a=1;" U+2003 "A=2": duplicate parameter, ""
example : typeOfU [116, 101, 120, 116, 47, 104, 116, 109, 108, 226, 128, 169, 59, 97, 61, 49, 59, 226, 128, 131, 65, 61, 50] = [] ∧
    errU [116, 101, 120, 116, 47, 104, 116, 109, 108, 226, 128, 169, 59, 97, 61, 49, 59, 226, 128, 131, 65, 61, 50] = .duplicate := by decide
-- "text/html;" U+00A0 U+3000: a trailing semicolon followed by Unicode white space is fine
example : errU [116, 101, 120, 116, 47, 104, 116, 109, 108, 59, 194, 160, 227, 128, 128] = .none := by decide
-- "text/html;" U+200B: not white space, invalid parameter (the type still comes back)
example : typeOfU [116, 101, 120, 116, 47, 104, 116, 109, 108, 59, 226, 128, 139] = [116, 101, 120, 116, 47, 104, 116, 109, 108] ∧
    errU [116, 101, 120, 116, 47, 104, 116, 109, 108, 59, 226, 128, 139] = .invalidParam := by decide
-- "text/html;" U+212A "=1": attribute names are NOT Unicode-lower-cased into ASCII (the token ends at the first byte >= 0x80)
example : errU [116, 101, 120, 116, 47, 104, 116, 109, 108, 59, 226, 132, 170, 61, 49] = .invalidParam := by decide

/-- **the rune-level model is the literal transcription**: `typeOfB` follows Go's code byte by byte
    (`strings.ToLower` with its ASCII fast path and `strings.Map`, `strings.TrimSpace` with its fast paths and
    backward decoding, the parameter loop); it equals `typeOfU`, the model the theorems above speak of, on
    every byte string, valid UTF-8 or not (Lemmas/MediaTypeUB.lean) -/
theorem transcription_eq_model (v : Bytes) : MTU.typeOfB v = MTU.typeOfU v ∧ MTU.errB v = MTU.errU v :=
  ⟨MTU.typeOfB_eq_typeOfU v, MTU.errB_eq_errU v⟩

end Mime.C15
