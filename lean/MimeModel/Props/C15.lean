import MimeModel.Model.MediaType
import MimeModel.Model.Tree
import MimeModel.Gen.Tree
/-
  C15 — equality helpers ignore case, white space and parameters and know aliases.
-/
namespace Mime.C15
open Mime Mime.Tree Mime.MT

/-- model of `(*MIME).Is` -/
def isM (i : Info) (s : Bytes) : Bool := typeOf s == typeOf i.mime || i.aliases.contains (typeOf s)
/-- model of `EqualsAny` -/
def equalsAny (s : Bytes) (ms : List Bytes) : Bool := ms.any (fun m => typeOf s == typeOf m)

/-- **regenerated obligation**: every registered type and alias is normalised (lower case,
    no parameters: `typeOf` is the identity on it) and resolves through `lookup` to a node that
    `Is` that name -/
theorem registered_resolve :
    Gen.builtin.flatten.all (fun i => (i.mime :: i.aliases).all (fun n =>
      decide (typeOf n = n) &&
      (match Gen.builtin.lookup (fun j => j.mime == n || j.aliases.contains n) with
       | some path => (path.getLast?.map (fun j => isM j n)) == some true
       | none => false))) = true := by
  decide +kernel

/-- `Is` depends on its argument only through the normalised type -/
theorem is_by_type (i : Info) (s s' : Bytes) (h : typeOf s = typeOf s') : isM i s = isM i s' := by
  simp [isM, h]

theorem equalsAny_by_type (s s' : Bytes) (ms : List Bytes) (h : typeOf s = typeOf s') :
    equalsAny s ms = equalsAny s' ms := by
  simp [equalsAny, h]

/-- `m.Is(s)` holds exactly when the normalised `s` is m's type or one of its aliases
    (for nodes whose own type is normalised, which `registered_resolve` establishes) -/
theorem is_iff (i : Info) (hn : typeOf i.mime = i.mime) (s : Bytes) :
    isM i s = true ↔ typeOf s = i.mime ∨ typeOf s ∈ i.aliases := by
  simp [isM, hn]

end Mime.C15
