import MimeModel.Model.MediaType
import MimeModel.Lemmas.MediaType
import MimeModel.Model.Tree
import MimeModel.Gen.Tree
/-
  C15 — equality helpers ignore case, white space and parameters and know aliases.
-/
namespace Mime.C15
open Mime Mime.Tree Mime.MT

/-- model of `(*MIME).Is` -/
def isM (i : Info) (s : Bytes) : Bool := typeOf s == typeOf i.mime || i.aliases.contains (typeOf s)
/-- model of `EqualsAny` -/
def equalsAny (s : Bytes) (ms : List Bytes) : Bool := ms.any (fun m => typeOf s == typeOf m)

/-- **regenerated obligation**: every registered type and alias is normalised (lower case,
    no parameters: `typeOf` is the identity on it) and resolves through `lookup` to a node that
    `Is` that name -/
theorem registered_resolve :
    Gen.builtin.flatten.all (fun i => (i.mime :: i.aliases).all (fun n =>
      decide (typeOf n = n) &&
      (match Gen.builtin.lookup (fun j => j.mime == n || j.aliases.contains n) with
       | some path => (path.getLast?.map (fun j => isM j n)) == some true
       | none => false))) = true := by
  decide +kernel

/-- `Is` depends on its argument only through the normalised type -/
theorem is_by_type (i : Info) (s s' : Bytes) (h : typeOf s = typeOf s') : isM i s = isM i s' := by
  simp [isM, h]

theorem equalsAny_by_type (s s' : Bytes) (ms : List Bytes) (h : typeOf s = typeOf s') :
    equalsAny s ms = equalsAny s' ms := by
  simp [equalsAny, h]

/-- `m.Is(s)` holds exactly when the normalised `s` is m's type or one of its aliases
    (for nodes whose own type is normalised, which `registered_resolve` establishes) -/
theorem is_iff (i : Info) (hn : typeOf i.mime = i.mime) (s : Bytes) :
    isM i s = true ↔ typeOf s = i.mime ∨ typeOf s ∈ i.aliases := by
  simp [isM, hn]

/-! ### decorations -/

theorem lower_append (a b : Bytes) : lower (a ++ b) = lower a ++ lower b := by simp [lower]

theorem lower_sp (w : Bytes) (h : ∀ c ∈ w, isSp c = true) : lower w = w := by
  apply lower_id
  intro c hc hcase
  have := h c hc
  simp only [isSp, Bool.or_eq_true, beq_iff_eq] at this
  omega

theorem trim_pad (w1 m w2 : Bytes) (h1 : ∀ c ∈ w1, isSp c = true) (h2 : ∀ c ∈ w2, isSp c = true) (hne : m ≠ [])
    (hh : ∀ c ∈ m.head?, isSp c = false) (hl : ∀ c ∈ m.getLast?, isSp c = false) :
    trim (w1 ++ m ++ w2) = m := by
  unfold trim
  rw [List.append_assoc, List.dropWhile_append_of_pos h1]
  have e1 : (m ++ w2).dropWhile isSp = m ++ w2 := by
    apply dropWhile_none
    intro c hc
    cases m with
    | nil => exact absurd rfl hne
    | cons x xs => simp at hc; subst hc; exact hh _ (by simp)
  rw [e1, List.reverse_append, List.dropWhile_append_of_pos (fun c hc => h2 c (List.mem_reverse.mp hc))]
  rw [dropWhile_none isSp m.reverse (by simpa using hl)]
  simp

/-- the type part of a decorated name: optional blanks, the name in any letter case, optional blanks -/
theorem no_semi_of_lower (t m : Bytes) (h : lower t = m) (hm : ∀ c ∈ m, c ≠ 0x3B) : ∀ c ∈ t, c ≠ 0x3B := by
  intro c hc e
  subst e
  have : (0x3B : Nat) ∈ m := by
    rw [← h]
    simp only [lower, List.mem_map]
    exact ⟨0x3B, hc, by decide⟩
  exact hm _ this rfl

theorem sp_not_semi (w : Bytes) (h : ∀ c ∈ w, isSp c = true) : ∀ c ∈ w, c ≠ 0x3B := by
  intro c hc e
  subst e
  have := h _ hc
  simp [isSp] at this

/-- **decorations do not matter**: blanks around the name, any letter case, and any parameter
    list that `ParseMediaType` does not reject as a duplicate leave the normalised type unchanged -/
theorem typeOf_decorated (m maj sub t w1 w2 rest : Bytes) (hm : TypeOK m maj sub) (ht : lower t = m)
    (h1 : ∀ c ∈ w1, isSp c = true) (h2 : ∀ c ∈ w2, isSp c = true)
    (hrest : rest = [] ∨ ∃ r, rest = 0x3B :: r) :
    typeOf (w1 ++ t ++ w2 ++ rest) = m ∨ (parse (w1 ++ t ++ w2 ++ rest)).2.2 = .duplicate := by
  obtain ⟨n1, t1⟩ := token_chars maj hm.tmaj
  obtain ⟨n2, t2⟩ := token_chars sub hm.tsub
  have hmj := cutSlash_join m maj sub hm.cut
  have hsemi : ∀ c ∈ m, c ≠ 0x3B := by
    intro c hc e
    subst e
    rw [hmj] at hc
    rcases List.mem_append.mp hc with h | h
    · exact absurd (t1 _ h) (by decide)
    · rcases List.mem_cons.mp h with h | h
      · cases h
      · exact absurd (t2 _ h) (by decide)
  have hmne : m ≠ [] := by rw [hmj]; cases maj <;> simp_all
  have hhead : ∀ c ∈ m.head?, isSp c = false := by
    intro c hc
    rw [hmj] at hc
    cases maj with
    | nil => exact absurd rfl n1
    | cons x xs => simp at hc; subst hc; exact isTokenChar_not_sp _ (t1 _ (List.mem_cons_self ..))
  have hlast : ∀ c ∈ m.getLast?, isSp c = false := by
    intro c hc
    rw [hmj] at hc
    have hs : sub.getLast? = some c := by
      cases sub with
      | nil => exact absurd rfl n2
      | cons y ys => simpa [List.getLast?_append, List.getLast?_cons_cons] using hc
    exact isTokenChar_not_sp _ (t2 _ (List.mem_of_getLast? hs))
  have hbase : ∀ c ∈ w1 ++ t ++ w2, c ≠ 0x3B := by
    intro c hc
    simp only [List.mem_append] at hc
    rcases hc with (hc | hc) | hc
    · exact sp_not_semi w1 h1 c hc
    · exact no_semi_of_lower t m ht hsemi c hc
    · exact sp_not_semi w2 h2 c hc
  have hmt : trim (lower (w1 ++ t ++ w2)) = m := by
    rw [lower_append, lower_append, lower_sp w1 h1, lower_sp w2 h2, ht]
    exact trim_pad w1 m w2 h1 h2 hmne hhead hlast
  unfold typeOf parse
  rcases hrest with rfl | ⟨r, rfl⟩
  · -- no parameters
    have hcut : cutSemi (w1 ++ t ++ w2 ++ []) = (w1 ++ t ++ w2, []) := by
      rw [List.append_nil]
      generalize w1 ++ t ++ w2 = a at hbase
      induction a with
      | nil => rfl
      | cons c cs ih =>
        have hc : (c == 0x3B) = false := by simpa using hbase c (List.mem_cons_self ..)
        simp only [cutSemi, hc, Bool.false_eq_true, ↓reduceIte, ih (fun x hx => hbase x (List.mem_cons_of_mem _ hx))]
    rw [hcut]
    simp only [hmt, checkType_ok m maj sub hm, Bool.not_true, Bool.false_eq_true, ↓reduceIte, parseParams_nil]
    left; trivial
  · rw [cutSemi_app _ _ hbase]
    simp only [hmt, checkType_ok m maj sub hm, Bool.not_true, Bool.false_eq_true, ↓reduceIte]
    generalize parseParams _ (0x3B :: r) [] = pp
    obtain ⟨e, ps⟩ := pp
    cases e with
    | none => left; rfl
    | invalidParam => left; rfl
    | noType => left; rfl
    | duplicate => right; rfl

/-- Bool version of `TypeOK` -/
def typeOKb (m : Bytes) : Bool :=
  match cutSlash m with
  | some (a, b) => isToken a && isToken b && lower a == a && lower b == b
  | none => false

theorem typeOK_of_b (m : Bytes) (h : typeOKb m = true) : ∃ maj sub, TypeOK m maj sub := by
  unfold typeOKb at h
  cases hc : cutSlash m with
  | none => simp [hc] at h
  | some p =>
    obtain ⟨a, b⟩ := p
    simp only [hc, Bool.and_eq_true, beq_iff_eq] at h
    exact ⟨a, b, ⟨hc, h.1.1.1, h.1.1.2, h.1.2, h.2⟩⟩

/-- **regenerated obligation**: every registered type and alias is a lower-case `token/token` -/
theorem registered_typeOK :
    Gen.builtin.flatten.all (fun i => (i.mime :: i.aliases).all typeOKb) = true := by
  decide +kernel

/-- **C15 (decorations)**: for every registered type or alias `n`: surrounding blanks, any letter
    case of the name and any parameter list that `ParseMediaType` does not reject as a duplicate
    normalise to `n`, so `Is` / `EqualsAny` answer as for the bare name -/
theorem registered_decorated (i : Info) (hi : i ∈ Gen.builtin.flatten) (n : Bytes) (hn : n ∈ i.mime :: i.aliases)
    (t w1 w2 rest : Bytes) (ht : lower t = n)
    (h1 : ∀ c ∈ w1, isSp c = true) (h2 : ∀ c ∈ w2, isSp c = true) (hrest : rest = [] ∨ ∃ r, rest = 0x3B :: r) :
    typeOf (w1 ++ t ++ w2 ++ rest) = n ∨ (parse (w1 ++ t ++ w2 ++ rest)).2.2 = .duplicate := by
  have hall := registered_typeOK
  rw [List.all_eq_true] at hall
  have h1' := hall i hi
  rw [List.all_eq_true] at h1'
  obtain ⟨maj, sub, hok⟩ := typeOK_of_b n (h1' n hn)
  exact typeOf_decorated n maj sub t w1 w2 rest hok ht h1 h2 hrest

end Mime.C15
