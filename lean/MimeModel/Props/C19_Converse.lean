import MimeModel.Props.C19
import MimeModel.Lemmas.ZipConverse
/-
  C19, converse clause, from the layout specification (Spec/Zip.lean): in an archive written as
  local entries followed by a tail (central directory, end record, comment) whose entry bodies and
  tail hold no embedded `PK\x03\x04`, the occurrences of the signature are exactly the starts of
  the entries; a positive verdict therefore shows the marker at the name position of an entry, and
  — when no name is a proper prefix of the marker — at the beginning of an entry *name*.  An
  archive without entries (it starts with the end record) gets no sub-format verdict at all.
  Proofs: Lemmas/ZipConverse.lean.
-/
namespace Mime.C19
open Mime Mime.Spec.Zip Mime.ZipConverse

/-- in a clean archive the signature `PK\x03\x04` occurs at offset `k` iff an entry starts at `k` -/
theorem pk34_occurrences_iff (es : List Entry) (tail : Bytes)
    (hclean : ∀ e ∈ es, e.Clean) (htail : CleanTail tail) (k : Nat) :
    hasPrefix ((archive es tail).drop k) pk34 = true ↔
      ∃ pre e post, es = pre ++ e :: post ∧ k = ((pre.map Entry.image).flatten).length :=
  ZipConverse.pk34_occurrences_iff es tail hclean htail k

/-- **C19 (converse, from the layout)**: a positive verdict on a clean archive shows the marker at
    the name position of one of its entries -/
theorem layout_converse (es : List Entry) (tail sig : Bytes) (mso : Bool)
    (hwf : ∀ e ∈ es, e.WF) (hclean : ∀ e ∈ es, e.Clean) (htail : CleanTail tail)
    (h : zipContains (archive es tail) sig mso = some true) :
    ∃ pre e post, es = pre ++ e :: post ∧
      hasPrefix (e.name ++ (e.extra ++ e.data ++ e.desc ++ archive post tail)) sig = true :=
  ZipConverse.layout_converse es tail sig mso hwf hclean htail h

/-- **C19 (converse, entry names)**: … and when no entry name is a proper prefix of the marker,
    the marker is the beginning of an entry name -/
theorem layout_converse_name (es : List Entry) (tail sig : Bytes) (mso : Bool)
    (hwf : ∀ e ∈ es, e.WF) (hclean : ∀ e ∈ es, e.Clean) (htail : CleanTail tail)
    (hshort : ∀ e ∈ es, ¬ ProperPrefix e.name sig)
    (h : zipContains (archive es tail) sig mso = some true) :
    ∃ e ∈ es, hasPrefix e.name sig = true :=
  ZipConverse.layout_converse_name es tail sig mso hwf hclean htail hshort h

/-- **a plain zip stays a plain zip**: no entry name comparable with the marker ⇒ the walk answers
    `false` (it neither accepts nor fails) -/
theorem no_marker_plain_zip (es : List Entry) (tail sig : Bytes) (mso : Bool)
    (hwf : ∀ e ∈ es, e.WF) (hclean : ∀ e ∈ es, e.Clean) (htail : CleanTail tail)
    (hno : ∀ e ∈ es, hasPrefix e.name sig = false ∧ hasPrefix sig e.name = false) :
    zipContains (archive es tail) sig mso = some false :=
  ZipConverse.no_marker_plain_zip' es tail sig mso hwf hclean htail hno

/-- **no local file header at offset 0, no sub-format** (any input, any marker): in particular an
    archive without entries, whatever its comment says -/
theorem no_header_no_subformat (raw sig : Bytes) (mso : Bool) (h : hasPrefix raw pk34 = false) :
    zipContains raw sig mso = some false := by
  obtain ⟨v, hv⟩ := zipContains_total raw sig mso
  cases v with
  | false => exact hv
  | true => rw [(zipContains_true raw sig mso hv).2.1] at h; cases h

/-- an archive without entries: the tail alone, clean, is never a sub-format -/
theorem empty_archive_plain (tail sig : Bytes) (mso : Bool) (htail : CleanTail tail) :
    zipContains (archive [] tail) sig mso = some false :=
  ZipConverse.no_marker_plain_zip [] tail sig mso (by simp) (by simp) htail (by simp) (by simp)

/-- non-vacuity: the end record with the comment `12345678META-INF/MANIFEST.MF` (the 50 bytes
    archive/zip writes for an empty archive with that comment) is a clean tail, the marker sits at
    offset 30, and the verdict is `false` -/
example :
    let t : Bytes := [0x50, 0x4B, 5, 6] ++ List.replicate 16 0 ++ [28, 0] ++
      [49, 50, 51, 52, 53, 54, 55, 56] ++ C19Base.kManifest
    CleanTail t ∧ t.length = 50 ∧ hasPrefix (t.drop 30) C19Base.kManifest = true ∧
    zipContains (archive [] t) C19Base.kManifest false = some false := by decide +kernel

end Mime.C19
