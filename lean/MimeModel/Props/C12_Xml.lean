import MimeModel.Lemmas.XmlTok
/-
  C12, XML clause, at *byte level*: the decoder step that Props/C12.lean takes as a parameter
  (`inst`: the first raw token of encoding/xml when it is a processing instruction) is computed
  here by `XmlTok.firstProcInst`, a model of `(*xml.Decoder).RawToken` for the first token of a
  fresh decoder with a pass-through CharsetReader (Model/XmlTok.lean: `<?` target, name check
  with the library's name tables, white space, instruction up to `?>`, the version check for
  target `xml`).  The model is compared with the installed library on every run (`xmlinst` in the
  walk / cs ops) and agreed with it on 1.9 M generated inputs when written.
-/
namespace Mime.C12
open Mime Mime.Charset Mime.XmlTok Mime.XmlTokLemmas

/-- **C12 (XML 1.0 declaration, byte level)**: `doc = lead <?xml version=q1.0q S encoding=qLq tail ?> rest`
    — `lead` white space that `trimLWS` strips, `q` either quote, `S` XML white space, `L` a
    non-empty label of ASCII token characters, `tail` white space or a standalone
    pseudo-attribute: the charset reported by `FromXML` (and by the unexported `fromXML`) is
    `L` in lower case, whatever follows the declaration -/
theorem xml_declared_bytes (lead S L tail rest : Bytes) (q : Nat)
    (hlead : ∀ c ∈ lead, isWS c = true) (hq : q = 0x22 ∨ q = 0x27)
    (hS : ∀ c ∈ S, isXmlSpace c = true)
    (hL : ∀ c ∈ L, MT.isTokenChar c = true ∧ c ≠ 0x27) (hne : L ≠ [])
    (ht : TailForm tail) :
    fromXMLBytes (lead ++ prologStart ++ [0x20] ++ kwVersionEq ++ [q] ++ v10 ++ [q] ++ S ++
        kwEncodingEq ++ [q] ++ L ++ [q] ++ tail ++ piEnd ++ rest) = lowerASCII L ∧
    fromXMLDecl (lead ++ prologStart ++ [0x20] ++ kwVersionEq ++ [q] ++ v10 ++ [q] ++ S ++
        kwEncodingEq ++ [q] ++ L ++ [q] ++ tail ++ piEnd ++ rest) = lowerASCII L :=
  declared_encoding_reported lead S L tail rest q hlead hq hS hL hne ht

/-- what the decoder hands over for a prolog: the instruction without its leading white space -/
theorem xml_prolog_inst (ws : Nat) (inst rest : Bytes) (hws : isXmlSpace ws = true) (hno : ¬ piEnd <:+: inst)
    (hver : procInst kwVersionEq (inst.dropWhile isXmlSpace) = [] ∨ procInst kwVersionEq (inst.dropWhile isXmlSpace) = v10) :
    firstProcInst (prologStart ++ [ws] ++ inst ++ piEnd ++ rest) = some (inst.dropWhile isXmlSpace) :=
  prolog_inst ws inst rest hws hno hver

/-- a declaration with a version other than 1.0 is an error of the decoder: the declaration is
    not used (the property is about XML 1.0) -/
theorem xml_other_version_ignored (ws : Nat) (inst rest : Bytes) (hws : isXmlSpace ws = true)
    (hno : ¬ piEnd <:+: inst) (hver : versionOk (inst.dropWhile isXmlSpace) = false) :
    firstProcInst (prologStart ++ [ws] ++ inst ++ piEnd ++ rest) = none :=
  prolog_bad_version ws inst rest hws hno hver

/-- input that does not start (after white space) with `<?` has no declaration: the bytes are sniffed -/
theorem xml_no_prolog (content : Bytes)
    (h : (trimLWS content)[0]? ≠ some 0x3C ∨ (trimLWS content)[1]? ≠ some 0x3F) :
    fromXMLBytes content = fromPlain content ∧ fromXMLDecl content = [] :=
  not_prolog_fromPlain content h

/-- soundness of the decoder model: a reported processing instruction is really there -/
theorem xml_inst_sound (b target inst : Bytes) (h : firstPI b = some (target, inst)) :
    ∃ ws rest, b = ltQ ++ target ++ ws ++ inst ++ piEnd ++ rest ∧
      isName target = true ∧ (∀ c ∈ target, nameStop c = false) ∧
      (∀ c ∈ ws, isXmlSpace c = true) ∧ (∀ x, inst.head? = some x → isXmlSpace x = false) ∧
      ¬ piEnd <:+: inst ∧ (target = tXml → versionOk inst = true) :=
  firstPI_sound b target inst h

/- non-vacuity: <?xml version="1.0" encoding="Shift_JIS"?><a/> -/
example : fromXMLBytes (ofString "<?xml version=\"1.0\" encoding=\"Shift_JIS\"?><a/>") = ofString "shift_jis" := by
  decide +kernel

end Mime.C12
