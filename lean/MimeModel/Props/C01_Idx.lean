import MimeModel.Lemmas.Idx
import MimeModel.Gen.Writes
/-
  C01 for the hand-coded byte scanners outside the translated signature expressions: charset.go
  (FromBOM, FromPlain with its backwards loop over the last three bytes, latin, ascii,
  fromMetaElement, xmlEncoding, trimLWS), text_csv.go (dropLastLine), text.go (scanLine, the loop
  of NdJSON, Text, trimRWS), archive.go (Tar, tarParseOctal, tarChksum).

  `Model/Idx.lean` transliterates each of them statement by statement *with the Go index
  arithmetic*: every `b[i]`, `b[i:]`, `b[:i]`, `b[lo:hi]`, `textChars[b]` goes through a checked
  primitive whose outcome `panic` means "the Go program would panic here"; every loop runs on
  explicit fuel with the separate outcome `fuel`.  The theorems below say: the outcome is always
  `ok` — no index or slice expression is ever out of range, no loop runs forever — and the value
  is the one the list model (used by all other properties) computes.  (`AllBytes`: the list
  elements are bytes, needed where Go indexes the 256-entry table with a byte.)
-/
namespace Mime.C01
open Mime Mime.Charset Mime.Cust Mime.Idx Mime.IdxLemmas

theorem fromBOM_no_panic (content : Bytes) : fromBOMIdx content = .ok (fromBOM content) := fromBOMIdx_refines content
theorem ascii_no_panic (content : Bytes) : asciiIdx content = .ok (ascii content) := asciiIdx_refines content
theorem latin_no_panic (content : Bytes) (h : AllBytes content) : latinIdx content = .ok (latin content) := latinIdx_refines content h

/-- `FromPlain`: the backwards loop touches only `content[i]`, `content[i:]`, `content[:i]` with
    `len-4 < i < len`, `i ≥ 0` -/
theorem fromPlain_no_panic (content : Bytes) (h : AllBytes content) : fromPlainIdx content = .ok (fromPlain content) :=
  fromPlainIdx_refines content h

/-- `fromMetaElement`: the `for s != ""` loop terminates within `len(s)+1` iterations and its six
    slicing expressions are in range -/
theorem fromMetaElement_no_panic (s : Bytes) : fromMetaElementIdx (fuel := s.length + 1) s = .ok (fromMetaElement s) :=
  fromMetaElementIdx_refines s

theorem xmlEncoding_no_panic (s : Bytes) : xmlEncodingIdx s = .ok (xmlEncoding s) := xmlEncodingIdx_refines s
theorem trimLWS_no_panic (inp : Bytes) : trimLWSIdx inp = .ok (trimLWS inp) := trimLWSIdx_refines inp
theorem trimRWS_no_panic (inp : Bytes) : trimRWSIdx inp = .ok (trimRWS inp) := trimRWSIdx_refines inp

/-- `dropLastLine` on any examined header (the limit is a uint32, so the header is shorter than 4 GiB
    unless the limit is 0; the Go code compares `uint32(len(b))`) -/
theorem dropLastLine_no_panic (x : Bytes) (lim : Nat) (hl : lim < 4294967296) :
    dropLastLineIdx (header x lim) lim = .ok (dropLastLine (header x lim) lim) := dropLastLineIdx_header x lim hl

theorem scanLine_no_panic (b : Bytes) : scanLineIdx b = .ok (scanLine b) := scanLineIdx_refines b

theorem ndjson_no_panic (x : Bytes) (lim : Nat) (hl : lim < 4294967296) :
    ndjsonIdx (header x lim) lim = .ok (ndjson (header x lim) lim) := ndjsonIdx_header x lim hl

theorem text_no_panic (raw : Bytes) : textIdx raw = .ok (text raw) := textIdx_refines raw

/-- `Tar`: `raw[:512]`, `raw[:100]`, `raw[148:156]` are guarded by the length test -/
theorem tar_no_panic (raw : Bytes) (h : AllBytes raw) : tarIdx raw = .ok (tar raw) := tarIdx_refines raw h

/-- what `Model/Idx.lean` transliterates: per function, the index and slice expressions it may evaluate (as a set; the names of variables are written `_`, as the extractor writes them) -/
def modelledIndexSets : List (String × List String) := [
  ("charset.FromPlain", ["_[:_]", "_[_:]", "_[_]"]),
  ("charset.ascii", ["_[_]"]),
  ("charset.fromMetaElement", ["_[0]", "_[1:]", "_[:_]", "_[_+len(\"_\"):]"]),
  ("charset.latin", ["_[_]"]),
  ("charset.trimLWS", ["_[_:]", "_[_]"]),
  ("charset.xmlEncoding", ["_[0]", "_[1 : _+1]", "_[1:]", "_[_+len(_):]"]),
  ("magic.Tar", ["_[148:156]", "_[:100]", "_[:_]"]),
  ("magic.dropCR", ["_[0 : len(_)-1]", "_[len(_)-1]"]),
  ("magic.dropLastLine", ["_[:_]", "_[_]"]),
  ("magic.trimLWS", ["_[_:]", "_[_]"]),
  ("magic.trimRWS", ["_[:_+1]", "_[_]"])]

/-- **regenerated tie**: every index and slice expression of these functions in the current source is one of
    those `Model/Idx.lean` transliterates for that function (a set inclusion: dropped, repeated or moved
    expressions need no new reading; a new expression does) -/
theorem index_expressions_within_modelled :
    (Gen.Writes.indexSets.all fun fe =>
      match modelledIndexSets.lookup fe.1 with
      | some xs => fe.2.all (fun e => xs.contains e)
      | none => fe.2.isEmpty) = true := by decide

/- the checked primitives do panic when asked to (the model can express the failure it excludes) -/
example : elemAt [1, 2, 3] 3 = (Out.panic : Out Nat) := by decide
example : sliceFrom [1, 2, 3] 4 = (Out.panic : Out Bytes) := by decide

end Mime.C01
