import MimeModel.Model.Detect
import MimeModel.Lemmas.DetectTie
import MimeModel.Gen.Writes
/-
  C04 — detection is a pure function of the examined header.
-/
namespace Mime.C04
open Mime Mime.Json Mime.Gen.Json

/-- **regenerated obligation**: every field of the pooled parser state is re-initialised
    by `reset`, except the recursion cap, which is installed once by the pool constructor
    and never assigned again (`capWrites = []`: no assignment to the field and no store through a
    `*parserState` pointer), and no parser state is built outside the pool constructor
    (`parserStateLiterals = 1`): every pooled state carries the cap, whatever its history -/
theorem reset_clears_all :
    parserFields.all (fun f => (resetAssigns.map (·.1)).contains f || f == "maxRecursion") = true ∧
    resetAssigns = [("ib", "0"), ("currPath", "p.currPath[0:0]"), ("firstToken", "TokInvalid"),
                    ("querySatisfied", "false"), ("complete", "false")] ∧
    capWrites = [] ∧ parserStateLiterals = 1 ∧ poolCtor = [("maxRecursion", "maxRecursion")] := by decide

/-- **pool independence**: whatever state a pooled parser was left in by earlier
    detections (any counters, any path stack, any flags), `Parse` gives the same result
    as on a fresh one -/
theorem parse_pool_independent (s : PState) (cap : Nat) (qs : List Query) (raw : Bytes) :
    parseWith s cap qs raw = parseWith PState.fresh cap qs raw := rfl

/-- a pool: the states that were put back.  `Get` may return any of them or a new one;
    the choice is made by an arbitrary oracle. -/
def runHistory (choose : List PState → Nat → PState) (cap : Nat) :
    List (List Query × Bytes) → List PState → Nat → List ParseResult
  | [], _, _ => []
  | (qs, raw) :: rest, pool, k =>
    let s := choose pool k
    parseWith s cap qs raw :: runHistory choose cap rest (s :: pool) (k + 1)

/-- **history independence**: for every finite sequence of earlier parses and every
    behaviour of the pool, each result equals the result of a parse on a fresh state -/
theorem pool_history (choose : List PState → Nat → PState) (cap : Nat) (calls : List (List Query × Bytes))
    (pool : List PState) (k : Nat) :
    runHistory choose cap calls pool k = calls.map (fun c => parseWith PState.fresh cap c.1 c.2) := by
  induction calls generalizing pool k with
  | nil => rfl
  | cons c cs ih =>
    obtain ⟨qs, raw⟩ := c
    simp only [runHistory, List.map_cons, ih]
    rfl

/-- **only the header counts**: bytes beyond the limit never change the answer -/
theorem detect_prefix (ext : Ext) (T : Tree Info) (x : Bytes) (lim : Nat) :
    (detect ext T x lim).chain = (detect ext T (header x lim) lim).chain ∧
    (detect ext T x lim).charset = (detect ext T (header x lim) lim).charset := by
  simp [detect, header_idem]

theorem detect_beyond_limit (ext : Ext) (T : Tree Info) (x y : Bytes) (lim : Nat) (hl : lim ≠ 0)
    (h : x.take lim = y.take lim) :
    (detect ext T x lim).chain = (detect ext T y lim).chain ∧ (detect ext T x lim).charset = (detect ext T y lim).charset := by
  simp [detect, header, hl, h]

/-- **regenerated obligation**: the only stores through an index expression in the four
    detection packages are `attrList[ks] = true` (a local map) and `val[i] = c + 0x20` in
    `fromHTML`, where `val` is the tokenizer's private copy of the attribute value — no
    function writes through `raw` / `in` / `content`, and there is no `copy()` -/
theorem no_input_writes :
    Gen.Writes.indexWrites = ["charset.fromHTML:attrList[ks]", "charset.fromHTML:val[i]"] := by decide

/-- **regenerated obligation**: the only package-level variables of the four detection packages
    that are not node / signature constructions — i.e. the only places where anything could
    survive from one detection to the next — are the two read-only tables of charset.go, the
    query table, the limit with its default, the tree lock, and the two pools (whose contents are
    re-initialised on every use: `reset_clears_all`, `bufio.Reader.Reset`).  A new cache, memo
    table or pooled buffer shows up here -/
theorem no_hidden_state :
    Gen.Writes.stateVars = ["charset.boms=composite:<*ast.ArrayType>", "charset.textChars=composite:<*ast.ArrayType>",
      "json.parserPool=composite:sync.Pool", "json.queries=composite:<*ast.MapType>", "magic.readerPool=composite:sync.Pool",
      "mimetype.defaultLimit=value", "mimetype.mu=composite:sync.RWMutex", "mimetype.readLimit=value"] := by decide

/- non-vacuity: a dirty pooled state (deep path, satisfied query) gives the fresh answer -/
example : parseWith { ib := 99, currPath := [[1], [2]], firstToken := 128, querySatisfied := true }
    4096 q_geo [0x7B, 0x7D] = parseWith PState.fresh 4096 q_geo [0x7B, 0x7D] := rfl

/-- regenerated tie: `Detect` / `DetectReader` load the limit once, atomically (see Lemmas/DetectTie.lean) -/
theorem tie_single_limit : Mime.DetectTie.SingleLimit := Mime.DetectTie.single_limit

end Mime.C04
