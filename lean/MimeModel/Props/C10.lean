import MimeModel.Lemmas.C10Base
import MimeModel.Lemmas.JsonTrunc
/-
  C10 — JSON sub-types are decided by top-level members, wherever they appear.

  Only the property theorems live here; the lemmas are in Lemmas/C10Base.lean (queries of
  parser.go evaluated on a syntax tree = the three specifications; whole documents) and
  Lemmas/JsonTrunc.lean (truncated headers).

  Whole documents: the verdicts of GeoJSON / HAR / GLTF on an RFC 8259 document examined in
  full are `isGeo` / `isHar` / `isGltf` of its syntax tree (Spec/Json.lean), for every layout,
  member order and sibling content.

  Truncated headers: when only the first `lim` bytes are examined and the deciding member
  lies inside them, the sub-type is still reported, wherever the cut falls after that member.
  "The deciding member lies inside the header" is the byte-level grammar `Decided`
  (Lemmas/JsonTrunc.lean): after the opening brace, complete members each followed by a comma
  (`Members`), then the deciding member (for HAR / glTF: `"log" : {` / `"asset" : {`, complete
  members, then the deciding member), then ANYTHING — with one caveat that the proof forced and
  the real code shares: a deciding value that is a *number* must be followed by a delimiter
  (a number that runs into the cut is not yet a value; `{"log":{"version":01e+x` is not HAR).
-/
namespace Mime.C10
open Mime Mime.Json Mime.Gen.Json Mime.Spec Mime.JsonQuery Mime.JsonTrunc

/-- regenerated facts: the sub-types are the children of `json` in the priority order
    geojson, har, gltf, with the detectors GeoJSON, HAR, GLTF -/
theorem tree_facts :
    (Gen.builtin.flatten.filter (fun i => i.name == "geoJSON" || i.name == "har" || i.name == "gltf")).map
      (fun i => (i.name, i.det)) = [("geoJSON", .custom .geojson), ("har", .custom .har), ("gltf", .custom .gltf)] :=
  C10Base.tree_facts

/-- regenerated facts: the queries of parser.go are the ones the property names -/
theorem query_facts :
    q_geo.map (·.path) = [[[116, 121, 112, 101]]] ∧ (q_geo.map (fun q => q.vals.length)) = [9] ∧
    q_har.map (·.path) = [[[108, 111, 103], [118, 101, 114, 115, 105, 111, 110]],
                          [[108, 111, 103], [99, 114, 101, 97, 116, 111, 114]],
                          [[108, 111, 103], [101, 110, 116, 114, 105, 101, 115]]] ∧
    q_har.all (fun q => q.vals.isEmpty) = true ∧
    q_gltf = [{ path := [[97, 115, 115, 101, 116], [118, 101, 114, 115, 105, 111, 110]],
                vals := [[34, 49, 46, 48, 34], [34, 50, 46, 48, 34]] }] :=
  C10Base.query_facts

/-- the regenerated queries, evaluated on a syntax tree, are the three specifications -/
theorem geo_spec (v : J.JVal) : qsatV q_geo [] v = J.isGeo v := C10Base.geo_spec v
theorem har_spec (v : J.JVal) : qsatV q_har [] v = J.isHar v := C10Base.har_spec v
theorem gltf_spec (v : J.JVal) : qsatV q_gltf [] v = J.isGltf v := C10Base.gltf_spec v

/-- **C10 (whole documents)**, for any non-empty list of queries with quoted values -/
theorem helper_whole (qs : List Gen.Json.Query) (hne : qs.isEmpty = false) (hq : ValsQuoted qs) (D : Bytes) (v : J.JVal) (lim : Nat)
    (hdoc : J.doc true D = some v) (hdepth : J.depth v ≤ maxRecursion) (hwhole : lim = 0 ∨ D.length < lim) :
    jsonHelper D lim qs tokObject = (C10Base.isObj v && qsatV qs [] v) :=
  C10Base.helper_whole qs hne hq D v lim hdoc hdepth hwhole

/-- **C10 (whole documents)**: the verdicts of the three sub-type detectors on a whole RFC 8259
    document are the three specifications evaluated on its syntax tree -/
theorem subtypes_whole (D : Bytes) (v : J.JVal) (lim : Nat)
    (hdoc : J.doc true D = some v) (hdepth : J.depth v ≤ maxRecursion) (hwhole : lim = 0 ∨ D.length < lim) :
    jsonHelper D lim q_geo tokObject = J.isGeo v ∧
    jsonHelper D lim q_har tokObject = J.isHar v ∧
    jsonHelper D lim q_gltf tokObject = J.isGltf v :=
  C10Base.subtypes_whole D v lim hdoc hdepth hwhole

/-- the satisfied-query flag is never reset during a run, whatever the input -/
theorem flag_monotone (qs : List Gen.Json.Query) (cap : Nat) (f lvl : Nat) (b : Bytes) (s : PState)
    (h : s.querySatisfied = true) : (consumeAny qs cap f lvl b s).2.querySatisfied = true :=
  (flag_mono qs cap f).1 lvl b s h

/-- **C10 (truncated headers)**, for any non-empty list of queries with quoted values: the
    first `lim` bytes of an RFC 8259 document (depth within the cap) start, after white space,
    with `{`, and the member that decides a query lies inside them ⇒ the detector answers yes -/
theorem subtype_truncated (qs : List Gen.Json.Query) (hne : qs.isEmpty = false) (hq : ValsQuoted qs)
    (D : Bytes) (v : J.JVal) (lim : Nat) (b : Bytes) (n : Nat)
    (hdoc : J.doc true D = some v) (hdepth : J.depth v ≤ maxRecursion)
    (hlim : lim ≤ D.length) (hlim0 : lim ≠ 0)
    (hopen : J.skipWs (D.take lim) = 0x7B :: b)
    (hdec : Decided qs n [] b) (hn : n < maxRecursion) :
    jsonHelper (D.take lim) lim qs tokObject = true :=
  JsonTrunc.subtype_truncated qs hne hq D v lim b n hdoc hdepth hlim hlim0 hopen hdec hn

/-- **GeoJSON, truncated**: complete members, then `"type" : "<one of the nine names>"`, then anything -/
theorem geo_truncated (D : Bytes) (v : J.JVal) (lim : Nat) (b b' name r2 : Bytes) (n : Nat)
    (hdoc : J.doc true D = some v) (hdepth : J.depth v ≤ maxRecursion) (hlim : lim ≤ D.length) (hlim0 : lim ≠ 0)
    (hopen : J.skipWs (D.take lim) = 0x7B :: b) (hn : n < maxRecursion)
    (hm : Members n b b') (ht : IsMember b' (ofString "type") (.str name) r2) (hname : name ∈ J.geoNames) :
    jsonHelper (D.take lim) lim q_geo tokObject = true :=
  JsonTrunc.geo_truncated D v lim b n hdoc hdepth hlim hlim0 hopen (decided_geo n b b' name r2 hm ht hname) hn

/-- **glTF, truncated**: complete members, `"asset" : {`, complete members, `"version" : "1.0"|"2.0"`, then anything -/
theorem gltf_truncated (D : Bytes) (v : J.JVal) (lim : Nat) (b b1 b2 b3 ver r2 : Bytes) (n : Nat)
    (hdoc : J.doc true D = some v) (hdepth : J.depth v ≤ maxRecursion) (hlim : lim ≤ D.length) (hlim0 : lim ≠ 0)
    (hopen : J.skipWs (D.take lim) = 0x7B :: b) (hn : n + 1 < maxRecursion)
    (hm : Members (n + 1) b b1) (ho : OpensObject b1 (ofString "asset") b2) (hm2 : Members n b2 b3)
    (ht : IsMember b3 (ofString "version") (.str ver) r2) (hver : ver = ofString "1.0" ∨ ver = ofString "2.0") :
    jsonHelper (D.take lim) lim q_gltf tokObject = true :=
  JsonTrunc.gltf_truncated D v lim b (n + 1) hdoc hdepth hlim hlim0 hopen
    (decided_gltf n b b1 b2 b3 ver r2 hm ho hm2 ht hver) hn

/-- **HAR, truncated**: complete members, `"log" : {`, complete members, a member named `version`,
    `creator` or `entries` with a complete value (a number: followed by a delimiter), then anything -/
theorem har_truncated (D : Bytes) (v : J.JVal) (lim : Nat) (b b1 b2 b3 key : Bytes) (w : J.JVal) (r2 : Bytes) (n : Nat)
    (hdoc : J.doc true D = some v) (hdepth : J.depth v ≤ maxRecursion) (hlim : lim ≤ D.length) (hlim0 : lim ≠ 0)
    (hopen : J.skipWs (D.take lim) = 0x7B :: b) (hn : n + 1 < maxRecursion)
    (hm : Members (n + 1) b b1) (ho : OpensObject b1 (ofString "log") b2) (hm2 : Members n b2 b3)
    (ht : IsMember b3 key w r2)
    (hkey : key = ofString "version" ∨ key = ofString "creator" ∨ key = ofString "entries")
    (hdep : J.depth w ≤ n) (hnum : w = .num → JsonLeaf.Delim r2) :
    jsonHelper (D.take lim) lim q_har tokObject = true :=
  JsonTrunc.har_truncated D v lim b (n + 1) hdoc hdepth hlim hlim0 hopen
    (decided_har n b b1 b2 b3 key w r2 hm ho hm2 ht hkey hdep hnum) hn

/- non-vacuity: a GeoJSON header cut inside a later member; the deciding member is preceded by a
   non-empty array (the shape the unrepaired code got wrong, D3) -/
example : jsonHelper
    [0x7B, 0x22, 0x61, 0x22, 0x3A, 0x5B, 0x31, 0x5D, 0x2C, 0x22, 0x74, 0x79, 0x70, 0x65, 0x22, 0x3A, 0x22, 0x46, 0x65, 0x61,
     0x74, 0x75, 0x72, 0x65, 0x22, 0x2C, 0x22, 0x67] 28 q_geo tokObject = true := by decide

/-- regenerated tie: `Detect` / `DetectReader` load the limit once, atomically (see Lemmas/DetectTie.lean) -/
theorem tie_single_limit : Mime.DetectTie.SingleLimit := Mime.DetectTie.single_limit

end Mime.C10
