import MimeModel.Model.Detect
import MimeModel.Gen.Tree
/-
  C10 — JSON sub-types are decided by top-level members, wherever they appear.
-/
namespace Mime.C10
open Mime Mime.Json Mime.Gen.Json

/-- regenerated facts: the sub-types are the children of `json` in the priority order
    geojson, har, gltf, with the detectors GeoJSON, HAR, GLTF -/
theorem tree_facts :
    (Gen.builtin.flatten.filter (fun i => i.name == "geoJSON" || i.name == "har" || i.name == "gltf")).map
      (fun i => (i.name, i.det)) = [("geoJSON", .custom .geojson), ("har", .custom .har), ("gltf", .custom .gltf)] := by
  decide

/-- regenerated facts: the queries of parser.go are the ones the property names -/
theorem query_facts :
    q_geo.map (·.path) = [[[116, 121, 112, 101]]] ∧ (q_geo.map (fun q => q.vals.length)) = [9] ∧
    q_har.map (·.path) = [[[108, 111, 103], [118, 101, 114, 115, 105, 111, 110]],
                          [[108, 111, 103], [99, 114, 101, 97, 116, 111, 114]],
                          [[108, 111, 103], [101, 110, 116, 114, 105, 101, 115]]] ∧
    q_har.all (fun q => q.vals.isEmpty) = true ∧
    q_gltf = [{ path := [[97, 115, 115, 101, 116], [118, 101, 114, 115, 105, 111, 110]],
                vals := [[34, 49, 46, 48, 34], [34, 50, 46, 48, 34]] }] := by
  decide

end Mime.C10
