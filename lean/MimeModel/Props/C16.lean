import MimeModel.Model.Json
/-
  C16 — nesting bombs cannot exhaust the stack.

  The Go scanner recurses only through consumeAny → consumeArray/consumeObject →
  consumeAny, incrementing `lvl` by one per nested container, and consumeAny returns at
  once when `lvl` exceeds the cap.  The model records (ghost field `maxLvl`) every `lvl`
  with which consumeAny is entered; `depth_bounded` shows it never exceeds cap+1,
  whatever the input and its length.  The remaining recursion of detection is the tree
  walk, bounded by the height of the tree.
-/
namespace Mime.C16
open Mime Mime.Json Mime.Gen.Json

/-- **regenerated obligation**: the pooled parser state is built with the cap installed,
    the cap is the constant 4096, nothing else ever assigns the field, and no parser
    state is constructed outside the pool constructor -/
theorem cap_installed :
    poolCtor = [("maxRecursion", "maxRecursion")] ∧ maxRecursion = 4096 ∧ capWrites = [] ∧
    parserStateLiterals = 1 := by decide

@[simp] theorem bump_ml (s : PState) (k : Nat) : (s.bump k).maxLvl = s.maxLvl := rfl
@[simp] theorem push_ml (s : PState) (k : Bytes) : (s.push k).maxLvl = s.maxLvl := rfl
@[simp] theorem pop_ml (s : PState) : s.pop.maxLvl = s.maxLvl := rfl
@[simp] theorem setFirst_ml (s : PState) (l t : Nat) : (s.setFirst l t).maxLvl = s.maxLvl := by
  unfold PState.setFirst; split <;> rfl
@[simp] theorem setQ_ml (s : PState) (q : Bool) : (s.setQ q).maxLvl = s.maxLvl := by
  unfold PState.setQ; split <;> rfl


theorem consumeSpace_ml (b : Bytes) (s : PState) : (consumeSpace b s).2.maxLvl = s.maxLvl := by
  induction b generalizing s with
  | nil => rfl
  | cons c cs ih => simp only [consumeSpace]; split <;> simp [ih]

theorem consumeConst_ml (b c : Bytes) (s : PState) : (consumeConst b c s).2.maxLvl = s.maxLvl := by
  induction c generalizing b s with
  | nil => cases b <;> rfl
  | cons x xs ih =>
    cases b with
    | nil => rfl
    | cons y ys => simp only [consumeConst]; split <;> simp [ih]

theorem consumeString_ml (b : Bytes) : ∀ (m : SMode) (s : PState), (consumeString m b s).2.maxLvl = s.maxLvl := by
  induction b with
  | nil => intro m s; cases m <;> rfl
  | cons c cs ih =>
    intro m s
    cases m with
    | norm =>
      simp only [consumeString]
      split
      · simp [ih]
      · split <;> simp [ih]
    | esc =>
      simp only [consumeString]
      split
      · simp [ih]
      · split <;> simp [ih]
    | hex k =>
      simp only [consumeString]
      split
      · split <;> simp [ih]
      · simp

theorem consumeNumber_ml (b : Bytes) : ∀ (m : NMode) (s : PState), (consumeNumber m b s).2.maxLvl = s.maxLvl := by
  induction b with
  | nil => intro m s; rfl
  | cons c cs ih =>
    intro m s
    simp only [consumeNumber]
    split <;> simp [ih]

theorem applyQuery_ml (q : Option Query) (v : Bytes) (s : PState) : (applyQuery q v s).maxLvl = s.maxLvl := by
  unfold applyQuery
  split
  · rfl
  · split <;> split <;> rfl

theorem finishAny_ml (q : Bool) (lvl t : Nat) (res : Option Bytes × PState) (M : Nat) (h : res.2.maxLvl ≤ M) :
    (finishAny q lvl t res).2.maxLvl ≤ M := by
  unfold finishAny
  split
  · simpa using h
  · simp only [consumeSpace_ml]; simpa using h

/-- all four mutually recursive scanner functions keep `maxLvl` below any bound `M ≥ cap+1`,
    provided they are entered with `lvl ≤ cap+1` -/
theorem depth_inv (qs : List Query) (cap : Nat) (hc : cap ≠ 0) (M : Nat) (hM : cap + 1 ≤ M) : ∀ fuel : Nat,
    (∀ lvl b s, lvl ≤ cap + 1 → s.maxLvl ≤ M → (consumeAny qs cap fuel lvl b s).2.maxLvl ≤ M) ∧
    (∀ lvl b s, lvl ≤ cap + 1 → s.maxLvl ≤ M → (arrayLoop qs cap fuel lvl b s).2.maxLvl ≤ M) ∧
    (∀ lvl b s, lvl ≤ cap + 1 → s.maxLvl ≤ M → (objectLoop qs cap fuel lvl b s).2.maxLvl ≤ M) := by
  intro fuel
  induction fuel with
  | zero =>
    refine ⟨?_, ?_, ?_⟩ <;> intro lvl b s _ hs <;> simpa [consumeAny, arrayLoop, objectLoop] using hs
  | succ f ih =>
    obtain ⟨ihA, ihL, ihO⟩ := ih
    refine ⟨?_, ?_, ?_⟩
    · intro lvl b s hl hs
      simp only [consumeAny]
      have hent : (s.enter lvl).maxLvl ≤ M := by simp only [PState.enter]; omega
      by_cases hover : (cap != 0 && decide (lvl > cap)) = true
      · simp only [hover, ↓reduceIte]; exact hent
      · simp only [hover, Bool.false_eq_true, ↓reduceIte]
        have hlt : lvl ≤ cap := by
          simp only [Bool.and_eq_true, bne_iff_ne, ne_eq, decide_eq_true_eq, not_and, Nat.not_lt] at hover
          exact hover hc
        have hsp := consumeSpace_ml b (s.enter lvl)
        split
        · rename_i s1 heq
          have : s1.maxLvl = (s.enter lvl).maxLvl := by rw [← hsp, heq]
          simp only; omega
        · rename_i c cs s1 heq
          have h1 : s1.maxLvl ≤ M := by
            have : s1.maxLvl = (s.enter lvl).maxLvl := by rw [← hsp, heq]
            omega
          -- the dispatched scanner keeps the bound; so does the tail
          apply finishAny_ml
          cases classify c with
          | str => simp only; rw [consumeString_ml]; simpa using h1
          | arr =>
            simp only
            split
            · simpa using h1
            · exact ihL (lvl + 1) cs _ (by omega) (by simpa using h1)
          | obj => exact ihO (lvl + 1) cs s1.bump (by omega) (by simpa using h1)
          | litT => simp only; rw [consumeConst_ml]; exact h1
          | litF => simp only; rw [consumeConst_ml]; exact h1
          | litN => simp only; rw [consumeConst_ml]; exact h1
          | num => simp only; rw [consumeNumber_ml]; exact h1
    · intro lvl b s hl hs
      simp only [arrayLoop]
      have hsp := consumeSpace_ml b s
      split
      · rename_i s1 heq
        have : s1.maxLvl = s.maxLvl := by rw [← hsp, heq]
        simp only; omega
      · rename_i c cs s1 heq
        have h1 : s1.maxLvl ≤ M := by
          have : s1.maxLvl = s.maxLvl := by rw [← hsp, heq]
          omega
        split
        · simpa using h1
        · have hA := ihA lvl (c :: cs) s1 hl h1
          split
          · rename_i s2 heq2; rw [heq2] at hA; exact hA
          · rename_i s2 heq2; rw [heq2] at hA; exact hA
          · rename_i d ds s2 heq2
            rw [heq2] at hA
            simp only at hA
            split
            · exact ihL lvl _ _ hl (by simpa using hA)
            · split
              · simpa using hA
              · exact hA
    · intro lvl b s hl hs
      simp only [objectLoop]
      have hsp := consumeSpace_ml b s
      split
      · rename_i s1 heq
        have : s1.maxLvl = s.maxLvl := by rw [← hsp, heq]
        simp only; omega
      · rename_i c cs s1 heq
        have h1 : s1.maxLvl ≤ M := by
          have : s1.maxLvl = s.maxLvl := by rw [← hsp, heq]
          omega
        split
        · simpa using h1
        · split
          · exact h1
          · have hstr := consumeString_ml cs .norm s1.bump
            split
            · rename_i s2 heq2
              have : s2.maxLvl = s1.maxLvl := by rw [← bump_ml s1 1, ← hstr, heq2]
              simp only; omega
            · rename_i r s2 heq2
              have h2 : s2.maxLvl ≤ M := by
                have : s2.maxLvl = s1.maxLvl := by rw [← bump_ml s1 1, ← hstr, heq2]
                omega
              have hsp3 := consumeSpace_ml r (s2.push ((consumed cs r).dropLast))
              split
              · rename_i s4 heq4
                have : s4.maxLvl = s2.maxLvl := by
                  have := hsp3; rw [heq4] at this; simpa using this
                simp only; omega
              · rename_i d ds s4 heq4
                have h4 : s4.maxLvl ≤ M := by
                  have : s4.maxLvl = s2.maxLvl := by
                    have := hsp3; rw [heq4] at this; simpa using this
                  omega
                split
                · exact h4
                · have hsp5 := consumeSpace_ml ds s4.bump
                  split
                  · rename_i s5 heq5
                    have : s5.maxLvl = s4.maxLvl := by rw [heq5] at hsp5; simpa using hsp5
                    simp only; omega
                  · rename_i e es s5 heq5
                    have h5 : s5.maxLvl ≤ M := by
                      have : s5.maxLvl = s4.maxLvl := by rw [heq5] at hsp5; simpa using hsp5
                      omega
                    have hA := ihA lvl (e :: es) s5 hl h5
                    split
                    · rename_i s6 heq6; rw [heq6] at hA; exact hA
                    · rename_i r2 s6 heq6
                      rw [heq6] at hA
                      simp only at hA
                      have h7 : (applyQuery (if (s2.push ((consumed cs r).dropLast)).querySatisfied = true then none
                          else queryPathMatch qs (s2.push ((consumed cs r).dropLast)).currPath) (consumed (e :: es) r2) s6).maxLvl ≤ M := by
                        rw [applyQuery_ml]; exact hA
                      split
                      · exact h7
                      · split
                        · exact ihO lvl _ _ hl (by simpa using h7)
                        · split
                          · simpa using h7
                          · exact h7

/-- **C16 (depth bound)**: with a non-zero cap, `consumeAny` is never entered with `lvl`
    above cap+1 — for every input, of any length, with any query and from any state.  Each
    unit of `lvl` is two Go frames (consumeAny, consumeArray/consumeObject), so the stack
    used by the scanner is bounded by a constant that does not grow with the input. -/
theorem depth_bounded (qs : List Query) (cap : Nat) (hc : cap ≠ 0) (fuel : Nat) (raw : Bytes) (s0 : PState) :
    (consumeAny qs cap fuel 0 raw s0.reset).2.maxLvl ≤ cap + 1 := by
  have := (depth_inv qs cap hc (cap + 1) (Nat.le_refl _) fuel).1 0 raw s0.reset (Nat.zero_le _)
    (by simp [PState.reset, PState.fresh])
  exact this

/-- an entry above the cap returns at once: nothing is consumed, nothing is inspected -/
theorem over_cap_entry (qs : List Query) (cap : Nat) (hc : cap ≠ 0) (fuel lvl : Nat) (b : Bytes) (s : PState)
    (h : lvl > cap) : (consumeAny qs cap (fuel + 1) lvl b s).1 = none ∧ (consumeAny qs cap (fuel + 1) lvl b s).2.ib = s.ib := by
  simp only [consumeAny]
  have : (cap != 0 && decide (lvl > cap)) = true := by simp [hc, h]
  simp [this, PState.enter]

/- non-vacuity: at cap 2 a tower of three brackets enters level 3 = cap+1 and no more -/
example : (consumeAny [] 2 40 0 [0x5B, 0x5B, 0x5B, 0x5B, 0x5B, 0x5D, 0x5D, 0x5D, 0x5D, 0x5D] PState.fresh).2.maxLvl = 3 := by
  decide

end Mime.C16
