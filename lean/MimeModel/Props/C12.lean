import MimeModel.Model.Charset
/-
  C12 — declared charsets are honoured.  The byte → token step (x/net/html tokenizer,
  encoding/xml.RawToken) is a parameter: the theorems are about the prescan over the
  token stream and the two string extractors.
-/
namespace Mime.C12
open Mime Mime.Charset

/-- **BOM first**: a byte-order mark takes precedence over any HTML meta declaration -/
theorem html_bom_first (content : Bytes) (toks : List Tag) (h : fromBOM content ≠ csNone) :
    fromHTML content toks = fromBOM content := by
  unfold fromHTML
  have : (fromBOM content != csNone) = true := by simpa using h
  simp [this]

/-- tags other than `meta` in front of the declaration are skipped -/
theorem prescan_skips_non_meta (t : Tag) (ts : List Tag) (h : t.name ≠ kMeta) :
    fromHTMLToks (t :: ts) = fromHTMLToks ts := by
  simp only [fromHTMLToks]
  have : (t.name != kMeta) = true := by simpa using h
  simp [this]

/-- **meta charset**: the first `<meta>` whose first attribute is `charset=ℓ` decides:
    the result is ℓ in lower case, or utf-8 for utf-16 labels -/
theorem meta_charset_first (label : Bytes) (rest : List (Bytes × Bytes)) (ts : List Tag)
    (hrest : ∀ p ∈ rest, p.1 ≠ kContent ∧ p.1 ≠ kwCharset ∧ p.1 ≠ kHttpEquiv) :
    fromHTMLToks ({ name := kMeta, attrs := (kwCharset, label) :: rest } :: ts) =
      (if hasPrefix (lowerASCII label) kUtf16 then csUtf8 else lowerASCII label) := by
  have key : ∀ (rest : List (Bytes × Bytes)) (seen : List Bytes) (g : Bool) (n : Need) (name : Bytes),
      (∀ p ∈ rest, p.1 ≠ kContent ∧ p.1 ≠ kwCharset ∧ p.1 ≠ kHttpEquiv) →
      metaAttrs rest seen g n name = (g, n, name) := by
    intro rest
    induction rest with
    | nil => intros; rfl
    | cons p ps ih =>
      intro seen g n name hp
      obtain ⟨k, v⟩ := p
      have h1 := hp (k, v) (List.mem_cons_self ..)
      simp only at h1
      simp only [metaAttrs]
      split
      · exact ih _ _ _ _ (fun q hq => hp q (List.mem_cons_of_mem _ hq))
      · have a1 : (k == kHttpEquiv) = false := by simpa using h1.2.2
        have a2 : (k == kContent) = false := by simpa using h1.1
        have a3 : (k == kwCharset) = false := by simpa using h1.2.1
        simp only [a1, a2, a3, Bool.false_eq_true, ↓reduceIte]
        exact ih _ _ _ _ (fun q hq => hp q (List.mem_cons_of_mem _ hq))
  simp only [fromHTMLToks, bne_self_eq_false, Bool.false_eq_true, ↓reduceIte, metaAttrs, List.contains_nil]
  have e1 : (kwCharset == kHttpEquiv) = false := by decide
  have e2 : (kwCharset == kContent) = false := by decide
  simp only [e1, e2, Bool.false_eq_true, ↓reduceIte, beq_self_eq_true]
  rw [key rest _ _ _ _ hrest]
  simp

/-! ### the two string extractors -/

theorem dropWhile_ws (ws : Bytes) (x : Nat) (r : Bytes) (hws : ∀ c ∈ ws, isMetaWS c = true) (hx : isMetaWS x = false) :
    (ws ++ x :: r).dropWhile isMetaWS = x :: r := by
  induction ws with
  | nil => simp [List.dropWhile, hx]
  | cons c cs ih =>
    have hc := hws c (List.mem_cons_self ..)
    simp only [List.cons_append, List.dropWhile, hc]
    exact ih (fun y hy => hws y (List.mem_cons_of_mem _ hy))

theorem indexByte_first (q : Nat) (label tail : Bytes) (h : ∀ c ∈ label, c ≠ q) :
    indexByte q (label ++ q :: tail) = some label.length := by
  induction label with
  | nil => simp [indexByte]
  | cons c cs ih =>
    have hc : (c == q) = false := by simpa using h c (List.mem_cons_self ..)
    simp only [List.cons_append, indexByte, hc, Bool.false_eq_true, ↓reduceIte, List.length_cons]
    rw [ih (fun y hy => h y (List.mem_cons_of_mem _ hy))]
    rfl

theorem takeUntil_label (p : Nat → Bool) (label tail : Bytes) (h : ∀ c ∈ label, p c = false)
    (ht : tail = [] ∨ ∃ t ts, tail = t :: ts ∧ p t = true) : takeUntil p (label ++ tail) = label := by
  induction label with
  | nil =>
    rcases ht with rfl | ⟨t, ts, rfl, hp⟩
    · rfl
    · simp [takeUntil, hp]
  | cons c cs ih =>
    have hc := h c (List.mem_cons_self ..)
    simp only [List.cons_append, takeUntil, hc, Bool.false_eq_true, ↓reduceIte]
    rw [ih (fun y hy => h y (List.mem_cons_of_mem _ hy))]

/-- the forms a declared label can take after `charset` `=` -/
inductive LabelForm (label : Bytes) : Bytes → Prop
  | dquoted (tail : Bytes) : (∀ c ∈ label, c ≠ 0x22) → LabelForm label (0x22 :: label ++ 0x22 :: tail)
  | squoted (tail : Bytes) : (∀ c ∈ label, c ≠ 0x27) → LabelForm label (0x27 :: label ++ 0x27 :: tail)
  | bare (c : Nat) (cs tail : Bytes) : label = c :: cs → c ≠ 0x22 → c ≠ 0x27 →
      (∀ x ∈ label, x ≠ 0x3B ∧ isMetaWS x = false) →
      (tail = [] ∨ ∃ t ts, tail = t :: ts ∧ (t == 0x3B || isMetaWS t) = true) → LabelForm label (label ++ tail)

/-- **`fromMetaElement`** (the WHATWG "extract a character encoding from a meta element"
    algorithm): if the first `charset` in the content string is followed by optional white
    space, `=`, optional white space and a label — double-quoted, single-quoted, or bare up to
    `;` / white space / the end — the result is that label -/
theorem fromMetaElement_spec (s : Bytes) (loc : Nat) (ws1 ws2 label V : Bytes)
    (hloc : indexOf kwCharset s = some loc)
    (hafter : s.drop (loc + 7) = ws1 ++ 0x3D :: (ws2 ++ V))
    (h1 : ∀ c ∈ ws1, isMetaWS c = true) (h2 : ∀ c ∈ ws2, isMetaWS c = true)
    (hV : LabelForm label V) : fromMetaElement s = label := by
  have hne : s.isEmpty = false := by
    cases s with
    | nil => simp [indexOf, kwCharset] at hloc
    | cons _ _ => rfl
  unfold fromMetaElement
  rw [fromMetaElementF]
  simp only [hne, Bool.false_eq_true, ↓reduceIte, hloc, hafter]
  rw [dropWhile_ws ws1 0x3D _ h1 (by decide)]
  simp only [bne_self_eq_false, Bool.false_eq_true, ↓reduceIte]
  cases hV with
  | dquoted tail hq =>
    simp only [List.cons_append]
    rw [dropWhile_ws ws2 0x22 _ h2 (by decide)]
    simp only [beq_self_eq_true, Bool.true_or, ↓reduceIte]
    rw [indexByte_first 0x22 label tail hq]
    simp
  | squoted tail hq =>
    simp only [List.cons_append]
    rw [dropWhile_ws ws2 0x27 _ h2 (by decide)]
    simp only [beq_self_eq_true, Bool.or_true, ↓reduceIte]
    rw [indexByte_first 0x27 label tail hq]
    simp
  | bare c cs tail hl hn1 hn2 hall ht =>
    subst hl
    have hcw : isMetaWS c = false := (hall c (List.mem_cons_self ..)).2
    simp only [List.cons_append]
    rw [dropWhile_ws ws2 c _ h2 hcw]
    have e1 : (c == 0x22) = false := by simpa using hn1
    have e2 : (c == 0x27) = false := by simpa using hn2
    simp only [e1, e2, Bool.or_self, Bool.false_eq_true, ↓reduceIte]
    have := takeUntil_label (fun x => x == 0x3B || isMetaWS x) (c :: cs) tail
      (fun x hx => by have := hall x hx; simp [this.1, this.2]) ht
    simpa using this

/-- **`xmlEncoding`**: the label between matching quotes after the first `encoding=` -/
theorem xmlEncoding_spec (s : Bytes) (idx q : Nat) (label tail : Bytes)
    (hidx : indexOf kwEncodingEq s = some idx) (hq : q = 0x22 ∨ q = 0x27)
    (hafter : s.drop (idx + 9) = q :: label ++ q :: tail) (hl : ∀ c ∈ label, c ≠ q) :
    xmlEncoding s = label := by
  unfold xmlEncoding
  simp only [hidx, hafter]
  have : (q != 0x27 && q != 0x22) = false := by rcases hq with rfl | rfl <;> decide
  simp only [List.cons_append, this, Bool.false_eq_true, ↓reduceIte]
  rw [indexByte_first q label tail hl]
  simp

/-- XML: a declared encoding is reported in lower case -/
theorem xml_declared (content inst : Bytes) (idx q : Nat) (label tail : Bytes)
    (hidx : indexOf kwEncodingEq inst = some idx) (hq : q = 0x22 ∨ q = 0x27)
    (hafter : inst.drop (idx + 9) = q :: label ++ q :: tail) (hl : ∀ c ∈ label, c ≠ q) (hne : label ≠ []) :
    fromXML content (some inst) = lowerASCII label := by
  unfold fromXML
  simp only [xmlEncoding_spec inst idx q label tail hidx hq hafter hl]
  have : (lowerASCII label != []) = true := by
    cases label with
    | nil => exact absurd rfl hne
    | cons _ _ => simp [lowerASCII]
  simp [this]

/-! ### the pragma: `http-equiv="Content-Type"` + `content="…charset=ℓ"`, either order -/

theorem metaAttrs_inert : ∀ (rest : List (Bytes × Bytes)) (seen : List Bytes) (g : Bool) (n : Need) (name : Bytes),
    (∀ p ∈ rest, p.1 ≠ kContent ∧ p.1 ≠ kwCharset ∧ p.1 ≠ kHttpEquiv) →
    metaAttrs rest seen g n name = (g, n, name) := by
  intro rest
  induction rest with
  | nil => intros; rfl
  | cons p ps ih =>
    intro seen g n name hp
    obtain ⟨k, v⟩ := p
    have h1 := hp (k, v) (List.mem_cons_self ..)
    simp only at h1
    simp only [metaAttrs]
    split
    · exact ih _ _ _ _ (fun q hq => hp q (List.mem_cons_of_mem _ hq))
    · have a1 : (k == kHttpEquiv) = false := by simpa using h1.2.2
      have a2 : (k == kContent) = false := by simpa using h1.1
      have a3 : (k == kwCharset) = false := by simpa using h1.2.1
      simp only [a1, a2, a3, Bool.false_eq_true, ↓reduceIte]
      exact ih _ _ _ _ (fun q hq => hp q (List.mem_cons_of_mem _ hq))

def finalLabel (n : Bytes) : Bytes := if hasPrefix n kUtf16 then csUtf8 else n

/-- **pragma**: a `<meta>` carrying `http-equiv` = Content-Type (any letter case) and a
    `content` whose extracted label `ℓ` is non-empty decides, whichever attribute comes first
    and whatever other attributes follow; the result is `ℓ` (utf-16 labels map to utf-8) -/
theorem meta_pragma (v1 v2 : Bytes) (rest : List (Bytes × Bytes)) (ts : List Tag)
    (hct : lowerASCII v1 = kContentType) (hl : fromMetaElement (lowerASCII v2) ≠ [])
    (hrest : ∀ p ∈ rest, p.1 ≠ kContent ∧ p.1 ≠ kwCharset ∧ p.1 ≠ kHttpEquiv) :
    fromHTMLToks ({ name := kMeta, attrs := (kHttpEquiv, v1) :: (kContent, v2) :: rest } :: ts) =
      finalLabel (fromMetaElement (lowerASCII v2)) ∧
    fromHTMLToks ({ name := kMeta, attrs := (kContent, v2) :: (kHttpEquiv, v1) :: rest } :: ts) =
      finalLabel (fromMetaElement (lowerASCII v2)) := by
  have hl' : (fromMetaElement (lowerASCII v2) != []) = true := by simpa using hl
  have e1 : (kContent == kHttpEquiv) = false := by decide
  have e2 : (kHttpEquiv == kContent) = false := by decide
  constructor
  · simp only [fromHTMLToks, bne_self_eq_false, Bool.false_eq_true, ↓reduceIte, metaAttrs, List.contains_nil,
      beq_self_eq_true, hct, List.contains_cons, e1, Bool.or_false, hl']
    rw [metaAttrs_inert rest _ _ _ _ hrest]
    simp [finalLabel]
  · simp only [fromHTMLToks, bne_self_eq_false, Bool.false_eq_true, ↓reduceIte, metaAttrs, List.contains_nil,
      beq_self_eq_true, hct, List.contains_cons, e1, e2, Bool.or_false, hl']
    rw [metaAttrs_inert rest _ _ _ _ hrest]
    simp [finalLabel]

/-- **meta charset, any attribute position**: inert attributes may come before and after -/
theorem meta_charset_anywhere (label : Bytes) (pre post : List (Bytes × Bytes)) (ts : List Tag)
    (hpre : ∀ p ∈ pre, p.1 ≠ kContent ∧ p.1 ≠ kwCharset ∧ p.1 ≠ kHttpEquiv)
    (hpost : ∀ p ∈ post, p.1 ≠ kContent ∧ p.1 ≠ kwCharset ∧ p.1 ≠ kHttpEquiv) :
    fromHTMLToks ({ name := kMeta, attrs := pre ++ (kwCharset, label) :: post } :: ts) = finalLabel (lowerASCII label) := by
  have key : ∀ (pre : List (Bytes × Bytes)) (seen : List Bytes), (∀ k ∈ seen, k ≠ kwCharset) →
      (∀ p ∈ pre, p.1 ≠ kContent ∧ p.1 ≠ kwCharset ∧ p.1 ≠ kHttpEquiv) →
      metaAttrs (pre ++ (kwCharset, label) :: post) seen false .dontKnow [] = (false, .doNot, lowerASCII label) := by
    intro pre
    induction pre with
    | nil =>
      intro seen hs _
      simp only [List.nil_append, metaAttrs]
      have hc : seen.contains kwCharset = false := by
        rw [List.contains_eq_any_beq, List.any_eq_false]
        intro x hx
        have := hs x hx
        simpa using fun e => this e.symm
      have e1 : (kwCharset == kHttpEquiv) = false := by decide
      have e2 : (kwCharset == kContent) = false := by decide
      simp only [hc, Bool.false_eq_true, ↓reduceIte, e1, e2, beq_self_eq_true]
      exact metaAttrs_inert post _ _ _ _ hpost
    | cons p ps ih =>
      intro seen hs hp
      obtain ⟨k, v⟩ := p
      have h1 := hp (k, v) (List.mem_cons_self ..)
      simp only at h1
      simp only [List.cons_append, metaAttrs]
      split
      · exact ih seen hs (fun q hq => hp q (List.mem_cons_of_mem _ hq))
      · have a1 : (k == kHttpEquiv) = false := by simpa using h1.2.2
        have a2 : (k == kContent) = false := by simpa using h1.1
        have a3 : (k == kwCharset) = false := by simpa using h1.2.1
        simp only [a1, a2, a3, Bool.false_eq_true, ↓reduceIte]
        exact ih (k :: seen) (by
          intro x hx
          cases hx with
          | head => exact h1.2.1
          | tail _ h => exact hs x h) (fun q hq => hp q (List.mem_cons_of_mem _ hq))
  simp only [fromHTMLToks, bne_self_eq_false, Bool.false_eq_true, ↓reduceIte]
  rw [key pre [] (by simp) hpre]
  simp [finalLabel]

/- non-vacuity -/
example : fromMetaElement [116, 101, 120, 116, 47, 104, 116, 109, 108, 59, 32, 99, 104, 97, 114, 115, 101, 116, 61, 107, 111, 105, 56, 45, 114]
    = [107, 111, 105, 56, 45, 114] := by decide   -- "text/html; charset=koi8-r"

end Mime.C12
