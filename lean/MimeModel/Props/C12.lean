import MimeModel.Model.Charset
/-
  C12 — declared charsets are honoured.  The byte → token step (x/net/html tokenizer,
  encoding/xml.RawToken) is a parameter: the theorems are about the prescan over the
  token stream and the two string extractors.
-/
namespace Mime.C12
open Mime Mime.Charset

/-- **BOM first**: a byte-order mark takes precedence over any HTML meta declaration -/
theorem html_bom_first (content : Bytes) (toks : List Tag) (h : fromBOM content ≠ csNone) :
    fromHTML content toks = fromBOM content := by
  unfold fromHTML
  have : (fromBOM content != csNone) = true := by simpa using h
  simp [this]

/-- tags other than `meta` in front of the declaration are skipped -/
theorem prescan_skips_non_meta (t : Tag) (ts : List Tag) (h : t.name ≠ kMeta) :
    fromHTMLToks (t :: ts) = fromHTMLToks ts := by
  simp only [fromHTMLToks]
  have : (t.name != kMeta) = true := by simpa using h
  simp [this]

/-- **meta charset**: the first `<meta>` whose first attribute is `charset=ℓ` decides:
    the result is ℓ in lower case, or utf-8 for utf-16 labels -/
theorem meta_charset_first (label : Bytes) (rest : List (Bytes × Bytes)) (ts : List Tag)
    (hrest : ∀ p ∈ rest, p.1 ≠ kContent ∧ p.1 ≠ kwCharset ∧ p.1 ≠ kHttpEquiv) :
    fromHTMLToks ({ name := kMeta, attrs := (kwCharset, label) :: rest } :: ts) =
      (if hasPrefix (lowerASCII label) kUtf16 then csUtf8 else lowerASCII label) := by
  have key : ∀ (rest : List (Bytes × Bytes)) (seen : List Bytes) (g : Bool) (n : Need) (name : Bytes),
      (∀ p ∈ rest, p.1 ≠ kContent ∧ p.1 ≠ kwCharset ∧ p.1 ≠ kHttpEquiv) →
      metaAttrs rest seen g n name = (g, n, name) := by
    intro rest
    induction rest with
    | nil => intros; rfl
    | cons p ps ih =>
      intro seen g n name hp
      obtain ⟨k, v⟩ := p
      have h1 := hp (k, v) (List.mem_cons_self ..)
      simp only at h1
      simp only [metaAttrs]
      split
      · exact ih _ _ _ _ (fun q hq => hp q (List.mem_cons_of_mem _ hq))
      · have a1 : (k == kHttpEquiv) = false := by simpa using h1.2.2
        have a2 : (k == kContent) = false := by simpa using h1.1
        have a3 : (k == kwCharset) = false := by simpa using h1.2.1
        simp only [a1, a2, a3, Bool.false_eq_true, ↓reduceIte]
        exact ih _ _ _ _ (fun q hq => hp q (List.mem_cons_of_mem _ hq))
  simp only [fromHTMLToks, bne_self_eq_false, Bool.false_eq_true, ↓reduceIte, metaAttrs, List.contains_nil]
  have e1 : (kwCharset == kHttpEquiv) = false := by decide
  have e2 : (kwCharset == kContent) = false := by decide
  simp only [e1, e2, Bool.false_eq_true, ↓reduceIte, beq_self_eq_true]
  rw [key rest _ _ _ _ hrest]
  simp

end Mime.C12
