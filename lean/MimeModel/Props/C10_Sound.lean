import MimeModel.Props.C10
import MimeModel.Props.C10_Detect
import MimeModel.Props.C09_Detect
import MimeModel.Lemmas.DetectSound
import MimeModel.Lemmas.WalkLeaf
import MimeModel.Model.Closed
/-
  C10, the "only if" half of "reported as GeoJSON / HAR / glTF exactly when …", through `Detect`.

  `Props/C10_Detect.lean` (`detect_subtype_whole`) says which leaf is reported for an RFC 8259
  document — unless a format with priority over application/json accepts it (a rival disjunct).
  Here the leaf is *given*, so no rival hypothesis is needed: for an RFC 8259 document `D`
  (`J.doc true D = some v`, depth within the cap) examined in full,

    leaf is the geoJSON node (type application/geo+json)  ⇒  isGeo v
    leaf is the har node (application/json, .har)         ⇒  isHar v ∧ ¬ isGeo v
    leaf is the gltf node (model/gltf+json)               ⇒  isGltf v ∧ ¬ isGeo v ∧ ¬ isHar v
    leaf is the json node (application/json, .json)       ⇒  ¬ isGeo v ∧ ¬ isHar v ∧ ¬ isGltf v

  and, since these four are the only nodes of the JSON family: when the leaf is of the JSON family,
  it is the geoJSON node exactly when isGeo v, the har node exactly when isHar v ∧ ¬ isGeo v, ….

  Route: `subtypes_whole` (the verdict of each of the three checks on `D` is the specification
  evaluated on `v`) + first-match order read off the leaf (`Tree.detect_leaf`: the leaf accepted,
  its older siblings and its children rejected) + regenerated facts about tree.go, decided over
  the tables `Tree.kids` / `Tree.older` of `Gen.builtin`.
-/
namespace Mime.C10
open Mime Mime.Json Mime.Gen.Json Mime.Spec Mime.Tree Mime.DetectSound
open Mime.C09 (mimeJson mimeGeoJson mimeGltfJson JsonFamily)

def extJson : Bytes := [46, 106, 115, 111, 110]
def extHar : Bytes := [46, 104, 97, 114]

example : extJson = ofString ".json" ∧ extHar = ofString ".har" := by decide +kernel

/-- the four nodes of the JSON family, identified by what a caller sees: type and extension -/
def isGeoNode (i : Info) : Bool := i.mime == mimeGeoJson
def isHarNode (i : Info) : Bool := i.mime == mimeJson && i.ext == extHar
def isGltfNode (i : Info) : Bool := i.mime == mimeGltfJson
def isJsonNode (i : Info) : Bool := i.mime == mimeJson && i.ext == extJson

def hasDet (c : Custom) (l : List Info) : Bool := l.any (fun d => decide (d.det = .custom c))

/-- **regenerated facts** about tree.go:
    each of the four identifications picks exactly one node, with its detector;
    every node of the JSON family is one of the four; the root is none;
    whatever is the har node has a GeoJSON-checked node among its older siblings; the gltf node a
    GeoJSON-checked and a HAR-checked one; the json node has children checked by all three -/
theorem subtype_nodes :
    (Gen.builtin.flatten.filter isGeoNode).map (fun i => (i.name, i.det)) = [("geoJSON", .custom .geojson)] ∧
    (Gen.builtin.flatten.filter isHarNode).map (fun i => (i.name, i.det)) = [("har", .custom .har)] ∧
    (Gen.builtin.flatten.filter isGltfNode).map (fun i => (i.name, i.det)) = [("gltf", .custom .gltf)] ∧
    (Gen.builtin.flatten.filter isJsonNode).map (fun i => (i.name, i.det)) = [("json", .custom .json)] ∧
    Gen.builtin.flatten.all (fun i => !C09.isFamilyMime i.mime ||
      (isGeoNode i || isHarNode i || isGltfNode i || isJsonNode i)) = true ∧
    (isGeoNode Gen.builtin.info || isHarNode Gen.builtin.info || isGltfNode Gen.builtin.info ||
      isJsonNode Gen.builtin.info) = false := by
  refine ⟨by decide, by decide, by decide, by decide, by decide, by decide⟩

theorem subtype_dets :
    Gen.builtin.flatten.all (fun i => !isGeoNode i || decide (i.det = .custom .geojson)) = true ∧
    Gen.builtin.flatten.all (fun i => !isHarNode i || decide (i.det = .custom .har)) = true ∧
    Gen.builtin.flatten.all (fun i => !isGltfNode i || decide (i.det = .custom .gltf)) = true := by
  refine ⟨by decide, by decide, by decide⟩

theorem subtype_order :
    (older Gen.builtin).all (fun p => !isHarNode p.1 || hasDet .geojson p.2) = true ∧
    (older Gen.builtin).all (fun p => !isGltfNode p.1 || (hasDet .geojson p.2 && hasDet .har p.2)) = true ∧
    (kids Gen.builtin).all (fun p => !isJsonNode p.1 ||
      (hasDet .geojson p.2 && hasDet .har p.2 && hasDet .gltf p.2)) = true := by
  refine ⟨by decide, by decide, by decide⟩

/-- the three checks on a node with that detector -/
theorem accepts_geo (ext : Ext) (h : Bytes) (lim : Nat) (i : Info) (hd : i.det = .custom .geojson) :
    accepts ext h lim i = jsonHelper h lim q_geo tokObject := by
  rw [accepts_custom ext h lim i .geojson _ hd rfl]; simp
theorem accepts_har (ext : Ext) (h : Bytes) (lim : Nat) (i : Info) (hd : i.det = .custom .har) :
    accepts ext h lim i = jsonHelper h lim q_har tokObject := by
  rw [accepts_custom ext h lim i .har _ hd rfl]; simp
theorem accepts_gltf (ext : Ext) (h : Bytes) (lim : Nat) (i : Info) (hd : i.det = .custom .gltf) :
    accepts ext h lim i = jsonHelper h lim q_gltf tokObject := by
  rw [accepts_custom ext h lim i .gltf _ hd rfl]; simp

/-- a list of rejected nodes containing one checked by `c`: that check rejected -/
theorem rejected_of_hasDet (ext : Ext) (h : Bytes) (lim : Nat) (c : Custom) (l : List Info)
    (hl : hasDet c l = true) (hrej : ∀ d ∈ l, accepts ext h lim d = false) :
    ∃ d, d.det = .custom c ∧ accepts ext h lim d = false := by
  simp only [hasDet, List.any_eq_true, decide_eq_true_eq] at hl
  obtain ⟨d, hd, hdet⟩ := hl
  exact ⟨d, hdet, hrej d hd⟩

/-- the verdicts behind a reported leaf, in terms of the three checks on the examined header, for
    every input and limit (no assumption that the input is JSON): read off first-match order -/
theorem leaf_checks (ext : Ext) (x : Bytes) (lim : Nat) (leaf : Info)
    (hleaf : (detect ext Gen.builtin x lim).chain.head? = some leaf) :
    (isGeoNode leaf = true → jsonHelper (header x lim) lim q_geo tokObject = true) ∧
    (isHarNode leaf = true → jsonHelper (header x lim) lim q_har tokObject = true ∧
      jsonHelper (header x lim) lim q_geo tokObject = false) ∧
    (isGltfNode leaf = true → jsonHelper (header x lim) lim q_gltf tokObject = true ∧
      jsonHelper (header x lim) lim q_geo tokObject = false ∧
      jsonHelper (header x lim) lim q_har tokObject = false) ∧
    (isJsonNode leaf = true → jsonHelper (header x lim) lim q_geo tokObject = false ∧
      jsonHelper (header x lim) lim q_har tokObject = false ∧
      jsonHelper (header x lim) lim q_gltf tokObject = false) := by
  obtain ⟨hmem, _⟩ := leaf_cases ext Gen.builtin x lim leaf hleaf
  obtain ⟨⟨cs, hk, hkrej⟩, hcase⟩ := detect_leaf ext Gen.builtin x lim leaf hleaf
  obtain ⟨dg, dh, dt⟩ := subtype_dets
  obtain ⟨oh, ot, kj⟩ := subtype_order
  obtain ⟨_, _, _, _, _, hroot⟩ := subtype_nodes
  rw [List.all_eq_true] at dg dh dt oh ot kj
  -- the leaf is not the root when it is one of the four
  have hnr : (isGeoNode leaf || isHarNode leaf || isGltfNode leaf || isJsonNode leaf) = true →
      ∃ pre, (leaf, pre) ∈ older Gen.builtin ∧
        (∀ d ∈ pre, accepts ext (header x lim) lim d = false) ∧ accepts ext (header x lim) lim leaf = true := by
    intro h4
    rcases hcase with he | h
    · rw [he, hroot] at h4; cases h4
    · exact h
  refine ⟨?_, ?_, ?_, ?_⟩
  · intro hn
    obtain ⟨_, _, _, hacc⟩ := hnr (by simp [hn])
    have hd : leaf.det = .custom .geojson := by simpa [hn] using dg leaf hmem
    rwa [accepts_geo ext _ lim leaf hd] at hacc
  · intro hn
    obtain ⟨pre, ho, hrej, hacc⟩ := hnr (by simp [hn])
    have hd : leaf.det = .custom .har := by simpa [hn] using dh leaf hmem
    have hpre : hasDet .geojson pre = true := by simpa [hn] using oh _ ho
    obtain ⟨g, hgd, hgr⟩ := rejected_of_hasDet ext _ lim _ pre hpre hrej
    rw [accepts_geo ext _ lim g hgd] at hgr
    rw [accepts_har ext _ lim leaf hd] at hacc
    exact ⟨hacc, hgr⟩
  · intro hn
    obtain ⟨pre, ho, hrej, hacc⟩ := hnr (by simp [hn])
    have hd : leaf.det = .custom .gltf := by simpa [hn] using dt leaf hmem
    have hpre : hasDet .geojson pre = true ∧ hasDet .har pre = true := by simpa [hn] using ot _ ho
    obtain ⟨g, hgd, hgr⟩ := rejected_of_hasDet ext _ lim _ pre hpre.1 hrej
    obtain ⟨a, had, har⟩ := rejected_of_hasDet ext _ lim _ pre hpre.2 hrej
    rw [accepts_geo ext _ lim g hgd] at hgr
    rw [accepts_har ext _ lim a had] at har
    rw [accepts_gltf ext _ lim leaf hd] at hacc
    exact ⟨hacc, hgr, har⟩
  · intro hn
    have hcs : (hasDet .geojson cs = true ∧ hasDet .har cs = true) ∧ hasDet .gltf cs = true := by
      simpa [hn] using kj _ hk
    obtain ⟨g, hgd, hgr⟩ := rejected_of_hasDet ext _ lim _ cs hcs.1.1 hkrej
    obtain ⟨a, had, har⟩ := rejected_of_hasDet ext _ lim _ cs hcs.1.2 hkrej
    obtain ⟨t, htd, htr⟩ := rejected_of_hasDet ext _ lim _ cs hcs.2 hkrej
    rw [accepts_geo ext _ lim g hgd] at hgr
    rw [accepts_har ext _ lim a had] at har
    rw [accepts_gltf ext _ lim t htd] at htr
    exact ⟨hgr, har, htr⟩

theorem header_of_whole (D : Bytes) (lim : Nat) (hwhole : lim = 0 ∨ D.length < lim) : header D lim = D :=
  header_whole D lim (by rcases hwhole with h | h; exact Or.inl h; exact Or.inr (by omega))

/-- **C10 through `Detect`, "only if"** (whole documents): for an RFC 8259 document examined in
    full, the reported leaf determines the specifications on its syntax tree:
    the geoJSON node ⇒ isGeo; the har node ⇒ isHar and not isGeo; the gltf node ⇒ isGltf and
    neither isGeo nor isHar; the json node itself ⇒ none of the three.  For every `ext`; no
    hypothesis about the formats consulted before application/json. -/
theorem subtype_verdict_sound (ext : Ext) (D : Bytes) (v : J.JVal) (lim : Nat)
    (hdoc : J.doc true D = some v) (hdepth : J.depth v ≤ maxRecursion) (hwhole : lim = 0 ∨ D.length < lim)
    (leaf : Info) (hleaf : (detect ext Gen.builtin D lim).chain.head? = some leaf) :
    (isGeoNode leaf = true → J.isGeo v = true) ∧
    (isHarNode leaf = true → J.isHar v = true ∧ J.isGeo v = false) ∧
    (isGltfNode leaf = true → J.isGltf v = true ∧ J.isGeo v = false ∧ J.isHar v = false) ∧
    (isJsonNode leaf = true → J.isGeo v = false ∧ J.isHar v = false ∧ J.isGltf v = false) := by
  have h := leaf_checks ext D lim leaf hleaf
  rw [header_of_whole D lim hwhole] at h
  obtain ⟨sg, sh, st⟩ := subtypes_whole D v lim hdoc hdepth hwhole
  rw [sg, sh, st] at h
  exact h

/-- the headline clause in the caller's terms: reported as application/geo+json ⇒ GeoJSON -/
theorem geojson_verdict_sound (ext : Ext) (D : Bytes) (v : J.JVal) (lim : Nat)
    (hdoc : J.doc true D = some v) (hdepth : J.depth v ≤ maxRecursion) (hwhole : lim = 0 ∨ D.length < lim)
    (leaf : Info) (hleaf : (detect ext Gen.builtin D lim).chain.head? = some leaf)
    (hm : leaf.mime = mimeGeoJson) : J.isGeo v = true :=
  (subtype_verdict_sound ext D v lim hdoc hdepth hwhole leaf hleaf).1 (by simp [isGeoNode, hm])

theorem gltf_verdict_sound (ext : Ext) (D : Bytes) (v : J.JVal) (lim : Nat)
    (hdoc : J.doc true D = some v) (hdepth : J.depth v ≤ maxRecursion) (hwhole : lim = 0 ∨ D.length < lim)
    (leaf : Info) (hleaf : (detect ext Gen.builtin D lim).chain.head? = some leaf)
    (hm : leaf.mime = mimeGltfJson) : J.isGltf v = true ∧ J.isGeo v = false ∧ J.isHar v = false :=
  (subtype_verdict_sound ext D v lim hdoc hdepth hwhole leaf hleaf).2.2.1 (by simp [isGltfNode, hm])

theorem har_verdict_sound (ext : Ext) (D : Bytes) (v : J.JVal) (lim : Nat)
    (hdoc : J.doc true D = some v) (hdepth : J.depth v ≤ maxRecursion) (hwhole : lim = 0 ∨ D.length < lim)
    (leaf : Info) (hleaf : (detect ext Gen.builtin D lim).chain.head? = some leaf)
    (hm : leaf.mime = mimeJson) (he : leaf.ext = extHar) : J.isHar v = true ∧ J.isGeo v = false :=
  (subtype_verdict_sound ext D v lim hdoc hdepth hwhole leaf hleaf).2.1 (by simp [isHarNode, hm, he])

/-- a leaf of the JSON family is one of the four nodes -/
theorem family_leaf_cases (ext : Ext) (x : Bytes) (lim : Nat) (leaf : Info)
    (hleaf : (detect ext Gen.builtin x lim).chain.head? = some leaf) (hm : JsonFamily leaf.mime) :
    isGeoNode leaf = true ∨ isHarNode leaf = true ∨ isGltfNode leaf = true ∨ isJsonNode leaf = true := by
  have hmem := (leaf_cases ext Gen.builtin x lim leaf hleaf).1
  obtain ⟨_, _, _, _, hall, _⟩ := subtype_nodes
  rw [List.all_eq_true] at hall
  have := hall leaf hmem
  simpa [C09.isFamilyMime_of _ hm, or_assoc] using this

/-- **"exactly when"** (whole documents, leaf of the JSON family): among the reports of the JSON
    family, the leaf is the geoJSON node exactly when isGeo, the har node exactly when isHar and
    not isGeo, the gltf node exactly when isGltf and neither, the json node exactly when none -/
theorem subtype_verdict_iff (ext : Ext) (D : Bytes) (v : J.JVal) (lim : Nat)
    (hdoc : J.doc true D = some v) (hdepth : J.depth v ≤ maxRecursion) (hwhole : lim = 0 ∨ D.length < lim)
    (leaf : Info) (hleaf : (detect ext Gen.builtin D lim).chain.head? = some leaf) (hm : JsonFamily leaf.mime) :
    (isGeoNode leaf = true ↔ J.isGeo v = true) ∧
    (isHarNode leaf = true ↔ (J.isHar v = true ∧ J.isGeo v = false)) ∧
    (isGltfNode leaf = true ↔ (J.isGltf v = true ∧ J.isGeo v = false ∧ J.isHar v = false)) ∧
    (isJsonNode leaf = true ↔ (J.isGeo v = false ∧ J.isHar v = false ∧ J.isGltf v = false)) := by
  obtain ⟨s1, s2, s3, s4⟩ := subtype_verdict_sound ext D v lim hdoc hdepth hwhole leaf hleaf
  have hc := family_leaf_cases ext D lim leaf hleaf hm
  refine ⟨⟨s1, fun h => ?_⟩, ⟨s2, fun h => ?_⟩, ⟨s3, fun h => ?_⟩, ⟨s4, fun h => ?_⟩⟩
  · rcases hc with c | c | c | c
    · exact c
    · have := (s2 c).2; rw [h] at this; cases this
    · have := (s3 c).2.1; rw [h] at this; cases this
    · have := (s4 c).1; rw [h] at this; cases this
  · rcases hc with c | c | c | c
    · have := s1 c; rw [h.2] at this; cases this
    · exact c
    · have := (s3 c).2.2; rw [h.1] at this; cases this
    · have := (s4 c).2.1; rw [h.1] at this; cases this
  · rcases hc with c | c | c | c
    · have := s1 c; rw [h.2.1] at this; cases this
    · have := (s2 c).1; rw [h.2.2] at this; cases this
    · exact c
    · have := (s4 c).2.2; rw [h.1] at this; cases this
  · rcases hc with c | c | c | c
    · have := s1 c; rw [h.1] at this; cases this
    · have := (s2 c).1; rw [h.2.1] at this; cases this
    · have := (s3 c).1; rw [h.2.2] at this; cases this
    · exact c

/-! ### the closed model -/

theorem closed_subtype_verdict_sound (D : Bytes) (v : J.JVal) (lim : Nat)
    (hdoc : J.doc true D = some v) (hdepth : J.depth v ≤ maxRecursion) (hwhole : lim = 0 ∨ D.length < lim)
    (leaf : Info) (hleaf : (Closed.detect D lim).chain.head? = some leaf) :
    (isGeoNode leaf = true → J.isGeo v = true) ∧
    (isHarNode leaf = true → J.isHar v = true ∧ J.isGeo v = false) ∧
    (isGltfNode leaf = true → J.isGltf v = true ∧ J.isGeo v = false ∧ J.isHar v = false) ∧
    (isJsonNode leaf = true → J.isGeo v = false ∧ J.isHar v = false ∧ J.isGltf v = false) :=
  subtype_verdict_sound Closed.ext D v lim hdoc hdepth hwhole leaf hleaf

theorem closed_geojson_verdict_sound (D : Bytes) (v : J.JVal) (lim : Nat)
    (hdoc : J.doc true D = some v) (hdepth : J.depth v ≤ maxRecursion) (hwhole : lim = 0 ∨ D.length < lim)
    (leaf : Info) (hleaf : (Closed.detect D lim).chain.head? = some leaf)
    (hm : leaf.mime = mimeGeoJson) : J.isGeo v = true :=
  geojson_verdict_sound Closed.ext D v lim hdoc hdepth hwhole leaf hleaf hm

/-! ### non-vacuity (the closed model evaluated by the kernel) -/

/-- `{"type":"Point"}` -/
def exGeo : Bytes := ofString "{\"type\":\"Point\"}"
/-- `{"log":{"version":1}}` -/
def exHar : Bytes := ofString "{\"log\":{\"version\":1}}"
/-- `{"asset":{"version":"2.0"}}` -/
def exGltf : Bytes := ofString "{\"asset\":{\"version\":\"2.0\"}}"
/-- both: `{"log":{"version":1},"type":"Point"}` — GeoJSON wins, wherever the member stands -/
def exBoth : Bytes := ofString "{\"log\":{\"version\":1},\"type\":\"Point\"}"

example : (Closed.detectChain exGeo 0).head? = some (mimeGeoJson, ofString ".geojson") := by decide +kernel
example : (Closed.detectChain exHar 0).head? = some (mimeJson, extHar) := by decide +kernel
example : (Closed.detectChain exGltf 0).head? = some (mimeGltfJson, ofString ".gltf") := by decide +kernel
example : (Closed.detectChain exBoth 0).head? = some (mimeGeoJson, ofString ".geojson") := by decide +kernel
example : (Closed.detectChain (ofString "{\"type\":\"point\"}") 0).head? = some (mimeJson, extJson) := by
  decide +kernel

/-- the hypotheses hold of the examples, and the specifications say what the theorem concludes -/
example : (J.doc true exHar).map (fun v => (decide (J.depth v ≤ maxRecursion), J.isHar v, J.isGeo v)) =
    some (true, true, false) := by decide +kernel
example : (J.doc true exBoth).map (fun v => (decide (J.depth v ≤ maxRecursion), J.isHar v, J.isGeo v)) =
    some (true, true, true) := by decide +kernel

end Mime.C10
