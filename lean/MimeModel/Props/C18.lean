import MimeModel.Props.C03
import MimeModel.Gen.Tree
import MimeModel.Spec.All
/-
  C18 — tar detection tracks header checksum validity.

  `Conforming B`: a 512-byte first block whose checksum field (bytes 148..155) holds the
  unsigned byte sum of the block (field counted as spaces) written the way `archive/tar`,
  GNU and BSD tar write it: six octal digits, NUL, space.
-/
namespace Mime.C18
open Mime Mime.Tree Mime.Cust

/-- the `k` low octal digits of `n`, most significant first, as ASCII -/
def octDigits : Nat → Nat → Bytes
  | 0, _ => []
  | k + 1, n => octDigits k (n / 8) ++ [0x30 + n % 8]

def oct6 (n : Nat) : Bytes := octDigits 6 n

structure Conforming (B : Bytes) : Prop where
  len : B.length = 512
  bytes : AllBytes B
  chk : slice B 148 156 = oct6 (tarSumU 0 B) ++ [0, 0x20]

theorem octDigits_length (k n : Nat) : (octDigits k n).length = k := by
  induction k generalizing n with
  | zero => rfl
  | succ k ih => simp [octDigits, ih]

theorem octalLoop_append_digit (ds : Bytes) (d acc : Nat) (hd : d < 8)
    (hds : ∀ x ∈ ds, 0x30 ≤ x ∧ x ≤ 0x37) :
    octalLoop (ds ++ [0x30 + d]) acc = (octalLoop ds acc).map (fun v => v * 8 + d) := by
  induction ds generalizing acc with
  | nil =>
    simp only [List.nil_append, octalLoop]
    have h1 : ¬ (0x30 + d = 0) := by omega
    have h2 : ¬ (0x30 + d < 0x30 ∨ 0x30 + d > 0x37) := by omega
    simp [h1, h2]
  | cons x xs ih =>
    have hx := hds x (List.mem_cons_self ..)
    simp only [List.cons_append, octalLoop]
    have h1 : ¬ (x = 0) := by omega
    have h2 : ¬ (x < 0x30 ∨ x > 0x37) := by omega
    simp only [beq_iff_eq, h1, ↓reduceIte, Bool.or_eq_true, decide_eq_true_eq, h2]
    exact ih _ (fun y hy => hds y (List.mem_cons_of_mem _ hy))

theorem octDigits_range (k n : Nat) : ∀ x ∈ octDigits k n, 0x30 ≤ x ∧ x ≤ 0x37 := by
  induction k generalizing n with
  | zero => intro x hx; cases hx
  | succ k ih =>
    intro x hx
    simp only [octDigits, List.mem_append, List.mem_singleton] at hx
    cases hx with
    | inl h => exact ih _ x h
    | inr h => subst h; omega

theorem octalLoop_octDigits (k n : Nat) (h : n < 8 ^ k) : octalLoop (octDigits k n) 0 = some n := by
  induction k generalizing n with
  | zero => simp at h; subst h; rfl
  | succ k ih =>
    simp only [octDigits]
    rw [octalLoop_append_digit _ _ _ (Nat.mod_lt _ (by omega)) (octDigits_range k _)]
    have : n / 8 < 8 ^ k := by
      rw [Nat.pow_succ] at h
      exact Nat.div_lt_of_lt_mul (by omega)
    rw [ih _ this]
    simp only [Option.map_some, Option.some.injEq]
    omega

theorem dropWhile_none {α} (p : α → Bool) (l : List α) (h : ∀ x ∈ l.head?, p x = false) : l.dropWhile p = l := by
  cases l with
  | nil => rfl
  | cons a as => simp [List.dropWhile, h a (by simp)]

theorem trimTar_oct6 (n : Nat) : trimTar (oct6 n ++ [0, 0x20]) = oct6 n := by
  have hr := octDigits_range 6 n
  have hlen := octDigits_length 6 n
  -- no leading blank: the first byte is a digit
  have h1 : (oct6 n ++ [0, 0x20]).dropWhile (fun c => c == 0x20 || c == 0) = oct6 n ++ [0, 0x20] := by
    apply dropWhile_none
    intro x hx
    have : x ∈ oct6 n := by
      unfold oct6 at hx ⊢
      cases hq : octDigits 6 n with
      | nil => simp [hq] at hlen
      | cons a as => simp [hq] at hx; simp [hx]
    have := hr x this
    simp; omega
  have h2 : ((oct6 n ++ [0, 0x20]).reverse.dropWhile (fun c => c == 0x20 || c == 0)).reverse = oct6 n := by
    simp only [List.reverse_append, List.reverse_cons, List.reverse_nil, List.nil_append, List.cons_append,
      List.dropWhile]
    simp only [beq_self_eq_true, Bool.true_or, Bool.or_true]
    have : (oct6 n).reverse.dropWhile (fun c => c == 0x20 || c == 0) = (oct6 n).reverse := by
      apply dropWhile_none
      intro x hx
      have hm : x ∈ oct6 n := by
        have : x ∈ (oct6 n).reverse := List.mem_of_mem_head? hx
        simpa using this
      have := hr x hm
      simp; omega
    simp [this]
  simp only [trimTar]
  rw [h1, h2]

/-- **octal round trip**: the writer's encoding of any sum below 8^6 is read back exactly -/
theorem octal_roundtrip (n : Nat) (h : n < 8 ^ 6) : tarParseOctal (oct6 n ++ [0, 0x20]) = some n := by
  have hlen := octDigits_length 6 n
  simp only [tarParseOctal, trimTar_oct6]
  have hne : (oct6 n).isEmpty = false := by
    cases hq : oct6 n with
    | nil => unfold oct6 at hq; simp [hq] at hlen
    | cons a as => rfl
  simp only [hne, Bool.false_eq_true, ↓reduceIte]
  exact octalLoop_octDigits 6 n h

theorem tarByte_le (i c : Nat) (hc : c < 256) : tarByte i c ≤ 255 := by
  unfold tarByte; split <;> omega

theorem tarSumU_le (l : Bytes) (h : AllBytes l) : ∀ i, tarSumU i l ≤ 255 * l.length := by
  induction l with
  | nil => intro i; simp [tarSumU]
  | cons c cs ih =>
    intro i
    simp only [tarSumU, List.length_cons]
    have := tarByte_le i c (h c (List.mem_cons_self ..))
    have := ih (fun x hx => h x (List.mem_cons_of_mem _ hx)) (i + 1)
    omega

/-- number of bytes counted as negative by the signed (Sun) checksum -/
def negCount : Nat → Bytes → Nat
  | _, [] => 0
  | i, c :: cs => (if tarByte i c ≥ 128 then 1 else 0) + negCount (i + 1) cs

theorem signed_eq (l : Bytes) (h : AllBytes l) : ∀ i, tarSumS i l = (tarSumU i l : Int) - 256 * (negCount i l : Int) := by
  induction l with
  | nil => intro i; simp [tarSumS, tarSumU, negCount]
  | cons c cs ih =>
    intro i
    simp only [tarSumS, tarSumU, negCount]
    rw [ih (fun x hx => h x (List.mem_cons_of_mem _ hx)) (i + 1)]
    have hb := tarByte_le i c (h c (List.mem_cons_self ..))
    unfold int8
    split <;> split <;> omega

/-- the checksum field itself never contributes to the sums -/
theorem tarSumU_set (l : Bytes) : ∀ (i k v : Nat), k < l.length → ¬ (148 ≤ i + k ∧ i + k < 156) →
    tarSumU i (l.set k v) + l.getD k 0 = tarSumU i l + v := by
  induction l with
  | nil => intro i k v hk; simp at hk
  | cons c cs ih =>
    intro i k v hk hout
    cases k with
    | zero =>
      simp only [List.set_cons_zero, tarSumU, List.getD_cons_zero]
      have : tarByte i v = v ∧ tarByte i c = c := by
        unfold tarByte
        have : (decide (148 ≤ i) && decide (i < 156)) = false := by simp; omega
        simp [this]
      omega
    | succ k =>
      simp only [List.set_cons_succ, tarSumU, List.getD_cons_succ]
      have := ih (i + 1) k v (by simpa using hk) (by omega)
      omega

theorem slice_set_outside (l : Bytes) (k v lo hi : Nat) (h : k < lo ∨ hi ≤ k) :
    slice (l.set k v) lo hi = slice l lo hi := by
  unfold slice
  apply List.ext_getElem?
  intro n
  simp only [List.getElem?_drop, List.getElem?_take]
  split
  · rw [List.getElem?_set_ne (by omega)]
  · rfl

theorem take_append_len (B rest : Bytes) (n : Nat) (h : B.length = n) : (B ++ rest).take n = B := by
  rw [List.take_append_of_le_length (by omega), List.take_of_length_le (by omega)]

/-- **C18 (forward)**: every conforming first block — any member name other than a
    Gentoo gpkg name, any modes, ids, sizes, types — is accepted, whatever follows it -/
theorem tar_accepts (B rest : Bytes) (hc : Conforming B)
    (hg : containsSub (B.take 100) gpkgMarker = false) : tar (B ++ rest) = true := by
  unfold tar
  have hl : ¬ (B ++ rest).length < 512 := by simp [hc.len]
  simp only [hl, ↓reduceIte]
  rw [take_append_len B rest 512 hc.len]
  simp only [hg, Bool.false_eq_true, ↓reduceIte]
  rw [hc.chk]
  have hsum : tarSumU 0 B < 8 ^ 6 := by
    have := tarSumU_le B hc.bytes 0
    rw [hc.len] at this
    omega
  rw [octal_roundtrip _ hsum]
  simp

/-- **C18 (corruption)**: changing any single byte of a conforming first block outside the
    checksum field makes `Tar` reject it.  (The recorded sum is unchanged, the unsigned sum
    moves by a non-zero amount below 256, and the signed sum differs from it by a multiple
    of 256.) -/
theorem corruption_rejected (B rest : Bytes) (hc : Conforming B) (i v : Nat)
    (hi : i < 512) (hout : ¬ (148 ≤ i ∧ i < 156)) (hv : v < 256) (hne : v ≠ B.getD i 0) :
    tar (B.set i v ++ rest) = false := by
  unfold tar
  have hlen : (B.set i v).length = 512 := by simp [hc.len]
  have hl : ¬ (B.set i v ++ rest).length < 512 := by simp [hc.len]
  simp only [hl, ↓reduceIte]
  rw [take_append_len _ rest 512 hlen]
  by_cases hg : containsSub ((B.set i v).take 100) gpkgMarker = true
  · simp [hg]
  · simp only [hg, Bool.false_eq_true, ↓reduceIte]
    rw [slice_set_outside B i v 148 156 (by omega), hc.chk]
    have hsum : tarSumU 0 B < 8 ^ 6 := by
      have := tarSumU_le B hc.bytes 0
      rw [hc.len] at this
      omega
    rw [octal_roundtrip _ hsum]
    simp only
    have hset := tarSumU_set B 0 i v (by rw [hc.len]; exact hi) (by simpa using hout)
    have hb' : AllBytes (B.set i v) := by
      intro x hx
      rcases List.mem_or_eq_of_mem_set hx with h | h
      · exact hc.bytes x h
      · subst h; exact hv
    have hs := signed_eq (B.set i v) hb' 0
    have hbi : B.getD i 0 < 256 := by
      have : i < B.length := by rw [hc.len]; exact hi
      have hm : B.getD i 0 ∈ B := by
        simp only [List.getD_eq_getElem?_getD, List.getElem?_eq_getElem this, Option.getD_some]
        exact List.getElem_mem this
      exact hc.bytes _ hm
    simp only [Bool.or_eq_false_iff, beq_eq_false_iff_ne, ne_eq]
    constructor
    · omega
    · rw [hs]; omega

def mimeTar : Bytes := [97, 112, 112, 108, 105, 99, 97, 116, 105, 111, 110, 47, 120, 45, 116, 97, 114]

/-- regenerated facts about tree.go: `application/x-tar` names exactly one node, a root
    child without sub-formats, whose detector is `Tar` -/
theorem tree_facts :
    (Gen.builtin.flatten.filter (fun i => i.mime == mimeTar)).length = 1 ∧
    Gen.builtin.children.any (fun c => c.info.name == "tar" && decide (c.info.det = .custom .tar) &&
      c.children.isEmpty && c.info.mime == mimeTar) = true := by
  constructor <;> decide

/-- regenerated fact: the root formats consulted before tar are exactly the ones the property
    lists ("tar sits after exe/elf/ar and before the remaining root formats"); the oracle excuses a
    conforming archive only when one of these accepts it -/
theorem tar_priority :
    (Gen.builtin.children.map (·.info.name)).takeWhile (· != "tar") = Spec.tarOutrankers ∧
    ((Gen.builtin.children.map (·.info.name)).dropWhile (· != "tar")).take 2 = ["tar", "xar"] := by
  constructor <;> decide

/- non-vacuity: an all-zero block with the right checksum (8 spaces = 256 = 000400) conforms -/
set_option maxRecDepth 100000 in
example : tar (List.replicate 148 0 ++ [0x30, 0x30, 0x30, 0x34, 0x30, 0x30, 0, 0x20] ++ List.replicate 356 0) = true := by
  decide
set_option maxRecDepth 100000 in
example : tar ((List.replicate 148 0 ++ [0x30, 0x30, 0x30, 0x34, 0x30, 0x30, 0, 0x20] ++ List.replicate 356 0).set 5 1) = false := by
  decide

end Mime.C18
