import MimeModel.Props.C18
import MimeModel.Lemmas.WalkPath
/-
  C18 through `Detect`: a conforming first block is *reported* as application/x-tar (leaf tar,
  parent root) unless one of the formats in front of tar (`Spec.tarOutrankers`) accepts the header.
-/
namespace Mime.C18
open Mime Mime.Cust Mime.Spec Mime.Tree Mime.WalkPath

def isNamed (n : String) (t : Tree Info) : Bool := t.info.name == n

def tarPath : List (Tree Info → Bool) := [isNamed "tar"]
def tarNode : Tree Info := (Gen.builtin.children.find? (isNamed "tar")).getD Gen.builtin

theorem tar_found : Gen.builtin.children.find? (isNamed "tar") = some tarNode := by
  unfold tarNode
  have : (Gen.builtin.children.find? (isNamed "tar")).isSome = true := by decide
  cases h : Gen.builtin.children.find? (isNamed "tar") with
  | none => rw [h] at this; cases this
  | some c => rfl

theorem tar_node_facts : tarNode.info.det = .custom .tar ∧ tarNode.children = [] ∧ tarNode.info.mime = mimeTar := by
  refine ⟨by decide, by decide, by decide⟩

/-- regenerated: the formats consulted before tar are the anchored list -/
theorem tar_rivals : (rivals tarPath Gen.builtin).map (·.info.name) = Spec.tarOutrankers := by
  simp only [tarPath, rivals, tar_found, List.append_nil]
  decide

theorem accepts_tar (ext : Ext) (h : Bytes) (lim : Nat) (i : Info) (hd : i.det = .custom .tar) :
    accepts ext h lim i = tar h := by
  unfold accepts Cust.detEval
  rw [hd]
  simp [Det.evalWith, Cust.custEval, Cust.customModel]

/-- **C18 through `Detect`**: an input whose first 512 bytes are a conforming tar header (not a
    gpkg name), examined with no limit or a limit of at least one block, is reported as
    `application/x-tar` directly below the root — unless a format the property lists in front of
    tar accepts the same header -/
theorem tar_detected (ext : Ext) (B rest : Bytes) (lim : Nat) (hc : Conforming B)
    (hg : containsSub (B.take 100) gpkgMarker = false) (hlim : lim = 0 ∨ 512 ≤ lim) :
    (detect ext Gen.builtin (B ++ rest) lim).chain = [tarNode.info, Gen.builtin.info] ∨
    (∃ d ∈ rivals tarPath Gen.builtin, accepts ext (header (B ++ rest) lim) lim d.info = true) := by
  -- the examined header still starts with the whole block
  obtain ⟨rest', hh⟩ : ∃ rest', header (B ++ rest) lim = B ++ rest' := by
    unfold header
    rcases hlim with h | h
    · exact ⟨rest, by simp [h]⟩
    · by_cases h0 : lim = 0
      · exact ⟨rest, by simp [h0]⟩
      · refine ⟨rest.take (lim - 512), ?_⟩
        simp only [h0, ↓reduceIte, List.take_append, hc.len]
        rw [List.take_of_length_le (by rw [hc.len]; omega)]
  have hacc : accepts ext (header (B ++ rest) lim) lim tarNode.info = true := by
    rw [accepts_tar ext _ lim _ tar_node_facts.1, hh]
    exact tar_accepts B rest' hc hg
  have hw : walk (accepts ext (header (B ++ rest) lim) lim) tarNode = [tarNode.info] := by
    rw [walk_unfold, tar_node_facts.2.1]; rfl
  have hroot := walk_unfold (accepts ext (header (B ++ rest) lim) lim) Gen.builtin
  rcases walkList_first (accepts ext (header (B ++ rest) lim) lim) (isNamed "tar") _ _ tar_found hacc with ⟨d, hd', hda⟩ | hwl
  · right
    exact ⟨d, by simp [tarPath, rivals, tar_found, hd'], hda⟩
  · left
    simp only [detect, hroot, hwl, hw, List.reverse_cons, List.reverse_nil, List.nil_append, List.singleton_append]

end Mime.C18
