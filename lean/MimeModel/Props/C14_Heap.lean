import MimeModel.Lemmas.Heap
import MimeModel.Lemmas.HeapAbs
import MimeModel.Lemmas.HeapBuild
import MimeModel.Gen.Writes
/-
  C14 at the level of pointers (Model/Heap.lean): `(*MIME).Extend` allocates a node with
  `parent: m` and stores `m.children = append([]*MIME{c}, m.children...)`.  Under the
  representation invariant the heap after any history of `Extend` calls represents the value-level
  tree after the same calls (`Tree.extendAt`, `C14.applyAll`), only the extended node's children
  list changes, and a value returned by an earlier detection — a chain of fresh nodes — shows the
  same `Parent()` chain whatever is called afterwards, `Extend` on the result itself included.
  Proofs: Lemmas/Heap.lean.
-/
namespace Mime.C14
open Mime Mime.Heap Mime.HeapLemmas Mime.Tree

variable {α : Type}

/-- **`Extend` refines `extendAt`, with its frame**: the new heap represents the tree with the new
    leaf prepended at `path`; the new node sits at the next free address with `parent = m`; every
    old node keeps its payload and parent pointer, and only `m`'s children list changes -/
theorem extend_rep {h h' : Heap α} {root m c : Ptr} {t : Tree α} {path : List Nat} {a : α}
    (hrep : Rep h root none t) (hnode : nodeAt h root path = some m) (he : extend h m a = some (h', c)) :
    ∃ t', Tree.extendAt (.node a []) path t = some t' ∧ Rep h' root none t' ∧
      c = h.length ∧ h'.length = h.length + 1 ∧ h'[c]? = some ⟨a, some m, []⟩ ∧
      ∀ x n, h[x]? = some n → ∃ n', h'[x]? = some n' ∧ n'.info = n.info ∧ n'.parent = n.parent ∧
        (x ≠ m → n' = n) ∧ (x = m → n'.children = c :: n.children) :=
  HeapLemmas.extend_rep hrep hnode he

/-- **any history of `Extend` calls refines `applyAll`** -/
theorem extend_history_rep {root : Ptr} (ops : List (List Nat × α)) {h h' : Heap α} {t : Tree α}
    (hrep : Rep h root none t) (hr : runExt root ops h = some h') :
    ∃ t', C14.applyAll ops t = some t' ∧ Rep h' root none t' ∧ Steps h h' :=
  runExt_rep ops hrep hr

/-- `Extend` on a node outside the tree — a detection result, one of its ancestors — leaves the
    represented tree as it is -/
theorem extend_outside {h h' : Heap α} {root m c : Ptr} {t : Tree α} {fp : List Ptr} {a : α}
    (hrep : RepF h root none t fp) (hout : m ∉ fp) (he : extend h m a = some (h', c)) :
    RepF h' root none t fp := extend_outside_preserves_rep hrep hout he

/-- **values returned earlier are unaffected**: after any sequence of later `Extend` calls (on any
    allocated node, results included) and detections (from any node), the `Parent()` chain of an
    earlier result is what it was: the first-match path of the tree at the time of its detection -/
theorem results_stable {h0 h1 h2 : Heap α} {root r : Ptr} {t : Tree α} {acc : α → Bool} {leafF : α → α}
    {fuel : Nat} (hrep : Rep h0 root none t) (hfuel : t.height ≤ fuel)
    (hm : matchH acc leafF h0 root fuel = .ok (h1, r)) (hs : Steps h1 h2) :
    (∀ f, parentChain h2 r f = parentChain h1 r f) ∧
    (∀ f, (walk acc t).length ≤ f → parentChain h2 r f = some (applyHead leafF (walk acc t).reverse)) :=
  HeapLemmas.results_stable hrep hfuel hm hs

/-- **`lookup` refines `Tree.lookup`**: the pointer found carries the payload the value-level
    search stops at, and its parent chain is the path to it -/
theorem lookup_refines {h : Heap α} {root : Ptr} {t : Tree α} (q : α → Bool) (hrep : Rep h root none t)
    (fuel : Nat) (hfuel : t.height ≤ fuel) :
    match Tree.lookup q t with
    | none => lookupH q h root fuel = some none
    | some l => ∃ r n rs, lookupH q h root fuel = some (some r) ∧ h[r]? = some n ∧ some n.info = l.getLast? ∧
        q n.info = true ∧ Chain h (some r) rs l.reverse ∧
        ∀ f, l.length ≤ f → parentChain h r f = some l.reverse :=
  HeapLemmas.lookup_refines q hrep fuel hfuel

/-- **`newMIME` builds represented trees** (how tree.go builds the built-in tree bottom-up): over a
    represented, parentless forest it yields the tree `node a ts`, touching only the `parent`
    fields of the roots it is given -/
theorem newMIME_rep {h : Heap α} {cs : List Ptr} {ts : List (Tree α)} {fp : List Ptr} (a : α)
    (hf : RepListF h none cs ts fp) :
    (newMIME h a cs).2 = h.length ∧
    RepF (newMIME h a cs).1 h.length none (.node a ts) (h.length :: fp) ∧
    (newMIME h a cs).1.length = h.length + 1 ∧
    ∀ x n, h[x]? = some n → ∃ n', (newMIME h a cs).1[x]? = some n' ∧ n'.info = n.info ∧
      n'.children = n.children ∧ (x ∉ cs → n' = n) ∧ (x ∈ cs → n'.parent = some h.length) :=
  HeapLemmas.newMIME_rep a hf

/-- **everything composed, on the built-in tree**: after any history of `Extend` calls on tree
    nodes the heap represents the value-level tree after the same calls, and the pointer-level
    `match` computes `Mime.detect`'s chain on that tree -/
theorem extended_detect (ops : List (List Nat × Info)) {h1 : Heap Info}
    (hrun : runExt HeapBuild.builtinHeap.2 ops HeapBuild.builtinHeap.1 = some h1)
    (ext : Ext) (x : Bytes) (lim : Nat) (leafF : Info → Info) :
    ∃ T', C14.applyAll ops Gen.builtin = some T' ∧ Rep h1 HeapBuild.builtinHeap.2 none T' ∧
      ∃ h' r, matchH (accepts ext (header x lim) lim) leafF h1 HeapBuild.builtinHeap.2 h1.length = .ok (h', r) ∧
        ∀ f, (detect ext T' x lim).chain.length ≤ f →
          parentChain h' r f = some (applyHead leafF (detect ext T' x lim).chain) :=
  HeapBuild.extended_detect ops hrun ext x lim leafF

/-- … and a result handed out then reads the same after whatever `Extend` and detection calls follow -/
theorem builtin_result_stable (ops : List (List Nat × Info)) {h1 h2 h3 : Heap Info} {r : Ptr}
    (hrun : runExt HeapBuild.builtinHeap.2 ops HeapBuild.builtinHeap.1 = some h1)
    (ext : Ext) (x : Bytes) (lim : Nat) (leafF : Info → Info)
    (hm : matchH (accepts ext (header x lim) lim) leafF h1 HeapBuild.builtinHeap.2 h1.length = .ok (h2, r))
    (hs : Steps h2 h3) :
    ∃ T', C14.applyAll ops Gen.builtin = some T' ∧
      ∀ f, (detect ext T' x lim).chain.length ≤ f →
        parentChain h3 r f = some (applyHead leafF (detect ext T' x lim).chain) :=
  HeapBuild.builtin_result_stable ops hrun ext x lim leafF hm hs

/-- **regenerated tie: the stores of mime.go are the stores of the heap model** — every assignment
    to a field of a `MIME` node and every `MIME` composite literal of the package, per function, as
    the extractor reads them from the current source (names of variables and parameters replaced by `_`,
    so that a renamed local changes nothing): `newMIME` allocates with the children and
    sets each child's `parent` (`Heap.newMIME`), `clone` allocates without parent and children
    (`Heap.clone`), `cloneHierarchy` links the previous clone to the new one (`Heap.cloneLoop`),
    `Extend` allocates with `parent: m` and prepends to a *fresh* children slice (`Heap.extend`),
    `alias` is used during construction only.  Nothing else writes a node: `match`, `lookup`,
    `flatten`, `Parent` and the accessors only read (the frame the theorems above rely on). -/
theorem tie_node_stores :
    Gen.Writes.nodeStores =
      ["newMIME:MIME{mime: _, extension: _, detector: _, children: _}",
       "newMIME:_.parent = _",
       "alias:_.aliases = _",
       "clone:MIME{mime: _, aliases: _.aliases, extension: _.extension}",
       "cloneHierarchy:_.parent = _",
       "Extend:MIME{mime: _, extension: _, detector: _, parent: _, aliases: _}",
       "Extend:_.children = append([]*MIME{_}, _.children...)"] := by decide

/-- non-vacuity: extending node [0] of the example heap commutes with the abstraction -/
example : (extend exHeap 1 9).bind (fun r => HeapAbs.abs r.1 3) = Tree.extendAt (.node 9 []) [0] exTree := by
  decide

end Mime.C14
