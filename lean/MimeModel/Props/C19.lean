import MimeModel.Lemmas.C19Base
import MimeModel.Lemmas.ZipLayout
/-
  C19 — zip-based formats are identified from their leading entry names.

  Only the property theorems live here; the lemmas are in Lemmas/C19Base.lean (the walk of
  zip.go: every verdict comes from a name position; first-entry clauses; hop chains) and
  Lemmas/ZipLayout.lean (the hop chain derived from the archive layout Spec/Zip.lean).
-/
namespace Mime.C19
open Mime Mime.Tree Mime.Spec.Zip

/-- **C19 (converse)**: a positive `zipContains` verdict (hence an OOXML, JAR or APK verdict)
    implies that the marker occurs at a name position of the archive: at offset 30 of the
    file, or exactly 30 bytes after a local-header signature `PK\x03\x04` -/
theorem verdict_implies_marker (raw sig : Bytes) (mso : Bool) (h : zipContains raw sig mso = some true) :
    C19Base.AtNamePos raw sig := C19Base.verdict_implies_marker raw sig mso h

/-- **C19 (forward, first entry)** -/
theorem first_entry_marker (raw sig : Bytes) (mso : Bool) (hl : 30 ≤ raw.length)
    (hpk : hasPrefix raw pk34 = true)
    (h : hasPrefix (raw.drop 30) sig = true) : zipContains raw sig mso = some true :=
  C19Base.first_entry_marker raw sig mso hl hpk h

/-- JAR: first entry `META-INF/MANIFEST.MF` ⇒ the regenerated `Jar` check accepts -/
theorem jar_forward (raw : Bytes) (hl : 30 ≤ raw.length) (hpk : hasPrefix raw pk34 = true)
    (h : hasPrefix (raw.drop 30) C19Base.kManifest = true) :
    Cust.evalExpr Gen.d_Jar raw = some true := C19Base.jar_forward raw hl hpk h

/-- regenerated facts about tree.go: the zip children in priority order (apk before jar), the
    parent's type, and no node outside the zip subtree uses the zip walk -/
theorem tree_facts :
    (Gen.builtin.children.filter (fun c => c.info.name == "zip")).map (fun c => c.children.map (·.info.name)) =
      [["xlsx", "docx", "pptx", "epub", "odt", "ods", "odp", "odg", "odf", "odc", "sxc", "apk", "jar"]] ∧
    (Gen.builtin.children.filter (fun c => c.info.name == "zip")).map (·.info.mime) = [C19Base.mimeZip] ∧
    (Gen.builtin.children.filter (fun c => !(c.info.name == "zip"))).all (fun c =>
      (Tree.flatten c).all (fun i => match i.det with
        | .expr (.prim (.zipContains _ _)) => false
        | .expr (.or (.prim (.zipContains _ _)) _) => false
        | _ => true)) = true := C19Base.tree_facts

/-- every verdict of a zip child has `application/zip` as its parent -/
theorem zip_child_parent (acc : Info → Bool) (a : Info) (cs : List (Tree Info)) (i : Info)
    (h : i ∈ (walk acc (.node a cs)).tail) : acc i = true := C19Base.zip_child_parent acc a cs i h

/-- **C19 (forward, entries 2..6, offsets as hypotheses)** -/
theorem zipContains_forward (raw sig : Bytes) (mso : Bool) (nh : Nat)
    (hlen : 0x1E ≤ raw.length) (hpk : hasPrefix raw pk34 = true)
    (hmso : mso = true → msoSkipFiles.any (fun sf => hasPrefix (raw.drop 0x1E) sf) = true)
    (hso : 0x1E + (u32le raw 18 + 49) % 4294967296 + nh ≤ raw.length)
    (hidx : indexOf pk34 (raw.drop ((u32le raw 18 + 49) % 4294967296)) = some nh)
    (hfin : hasPrefix (raw.drop (0x1E + (u32le raw 18 + 49) % 4294967296 + nh)) sig = true ∨
      ∃ n, n ≤ 4 ∧ C19Base.Chain raw sig (0x1E + (u32le raw 18 + 49) % 4294967296 + nh) n) :
    zipContains raw sig mso = some true :=
  C19Base.zipContains_forward raw sig mso nh hlen hpk hmso hso hidx hfin

/-- **C19 (forward, from the layout)**: an archive is the concatenation of its local entries
    (`PK\x03\x04`, 26 fixed header bytes, name, extra field, stored data, optional data descriptor)
    followed by the central directory.  If the entries in front of the marker entry contain no
    embedded `PK\x03\x04` (`Clean`), entries 2..j-1 have at least 26 bytes after their header
    (`Realistic`, the property's "entries of realistic length"), the marker entry is among
    entries 2..6, and the first hop lands inside entry 1 (`hfirst`), then `zipContains` answers
    true.  Every hypothesis is a statement about the list of entries; the offsets, the
    `indexOf` results and the hop chain of `zipContains_forward` are derived. -/
theorem layout_forward (e1 : Entry) (mid : List Entry) (em : Entry) (rest : List Entry)
    (tail sig : Bytes) (mso : Bool)
    (hwf : ∀ e ∈ e1 :: mid ++ [em], e.WF)
    (hclean : ∀ e ∈ e1 :: mid, e.Clean)
    (hreal : ∀ e ∈ mid, e.Realistic)
    (hmid : mid.length ≤ 4)
    (hfirst : e1.csizeField + 49 ≤ 30 + e1.name.length + e1.extra.length + e1.data.length + e1.desc.length)
    (hsmall : (archive (e1 :: mid ++ em :: rest) tail).length < 4294967296)
    (hmso : mso = true → msoSkipFiles.any (fun sf => hasPrefix e1.name sf) = true)
    (hmark : hasPrefix em.name sig = true) :
    zipContains (archive (e1 :: mid ++ em :: rest) tail) sig mso = some true :=
  Mime.ZipLayout.layout_forward e1 mid em rest tail sig mso hwf hclean hreal hmid hfirst hsmall hmso hmark

/-- OOXML packages: first entry `[Content_Types].xml` (19 bytes) whose size field is the stored
    size ⇒ the first hop lands exactly on the second header; any `mso` -/
theorem ooxml_layout (e1 : Entry) (mid : List Entry) (em : Entry) (rest : List Entry)
    (tail sig : Bytes) (mso : Bool)
    (hwf : ∀ e ∈ e1 :: mid ++ [em], e.WF) (hclean : ∀ e ∈ e1 :: mid, e.Clean)
    (hreal : ∀ e ∈ mid, e.Realistic) (hmid : mid.length ≤ 4)
    (hname : e1.name = ofString "[Content_Types].xml") (hcsize : e1.csizeField = e1.data.length)
    (hsmall : (archive (e1 :: mid ++ em :: rest) tail).length < 4294967296)
    (hmark : hasPrefix em.name sig = true) :
    zipContains (archive (e1 :: mid ++ em :: rest) tail) sig mso = some true :=
  Mime.ZipLayout.ooxml_second_entry e1 mid em rest tail sig mso hwf hclean hreal hmid hname hcsize hsmall hmark

/-- streamed archives: size field 0 (sizes in a data descriptor) and at least 19 bytes of
    name + extra + data + descriptor in entry 1 -/
theorem descriptor_layout (e1 : Entry) (mid : List Entry) (em : Entry) (rest : List Entry)
    (tail sig : Bytes) (mso : Bool)
    (hwf : ∀ e ∈ e1 :: mid ++ [em], e.WF) (hclean : ∀ e ∈ e1 :: mid, e.Clean)
    (hreal : ∀ e ∈ mid, e.Realistic) (hmid : mid.length ≤ 4)
    (hcsize : e1.csizeField = 0)
    (hlen : 19 ≤ e1.name.length + e1.extra.length + e1.data.length + e1.desc.length)
    (hmso : mso = true → msoSkipFiles.any (fun sf => hasPrefix e1.name sf) = true)
    (hmark : hasPrefix em.name sig = true) :
    zipContains (archive (e1 :: mid ++ em :: rest) tail) sig mso = some true :=
  Mime.ZipLayout.descriptor_first_entry e1 mid em rest tail sig mso hwf hclean hreal hmid hcsize hlen hmso hmark

/- non-vacuity: the four-entry package of Lemmas/ZipLayout.lean ([Content_Types].xml, _rels/.rels,
   docProps/app.xml, word/document.xml + central directory) meets the hypotheses -/
example : zipContains (archive [ZipLayout.ex1, ZipLayout.ex2, ZipLayout.ex3, ZipLayout.ex4] ZipLayout.exTail)
    C19Base.exWord true = some true := by decide +kernel

end Mime.C19
