import MimeModel.Props.C03
import MimeModel.Gen.Tree
/-
  C19 — zip-based formats are identified from their leading entry names.

  Proved here, for every byte string: every `zipContains` verdict comes from a name
  position, i.e. the marker is found either at offset 30 of the file (the first entry's
  name) or exactly 30 bytes after an occurrence of the local-header signature PK\x03\x04;
  the first-entry forward clauses (JAR, OpenDocument, EPUB); the tree facts (zip children,
  priority order, parent).  The multi-hop forward clause (markers in entries 2..6 of a
  writer-produced archive) is *not* proved: it is covered by the correspondence and the
  archive/zip-based oracle only — see `partial` in the evidence.
-/
namespace Mime.C19
open Mime Mime.Tree

theorem indexOf_spec (sep : Bytes) : ∀ (b : Bytes) (k : Nat), indexOf sep b = some k →
    hasPrefix (b.drop k) sep = true := by
  intro b
  induction b with
  | nil =>
    intro k h
    simp only [indexOf] at h
    split at h
    · rename_i he
      have : sep = [] := by simpa using he
      subst this; cases h; simp [hasPrefix]
    · cases h
  | cons a as ih =>
    intro k h
    simp only [indexOf] at h
    split at h
    · rename_i hp; cases h; simpa [hasPrefix] using hp
    · cases hi : indexOf sep as with
      | none => simp [hi] at h
      | some j =>
        simp only [hi, Option.some.injEq] at h
        subst h
        simpa using ih j hi

/-- "the marker sits at a name position": at offset 30 of the file, or 30 bytes after a
    local-header signature -/
def AtNamePos (raw sig : Bytes) : Prop :=
  ∃ k, hasPrefix (raw.drop k) sig = true ∧ (k = 30 ∨ (30 ≤ k ∧ hasPrefix (raw.drop (k - 30)) pk34 = true))

theorem drop_congr (raw : Bytes) (a b : Nat) (h : a = b) : raw.drop a = raw.drop b := by rw [h]

theorem zipLoop_sound (sig : Bytes) : ∀ (n : Nat) (raw : Bytes) (off : Nat), zipLoop sig n (raw.drop off) = true →
    AtNamePos raw sig := by
  intro n
  induction n with
  | zero => intro raw off h; simp [zipLoop] at h
  | succ n ih =>
    intro raw off h
    simp only [zipLoop] at h
    by_cases h0 : (raw.drop off).length < 0x1A
    · simp only [h0, ↓reduceIte] at h; cases h
    · simp only [h0, ↓reduceIte] at h
      cases hidx : indexOf pk34 ((raw.drop off).drop 0x1A) with
      | none => simp only [hidx] at h; cases h
      | some nh =>
        simp only [hidx] at h
        by_cases h1 : ((raw.drop off).drop 0x1A).length < nh + 0x1E
        · simp only [h1, ↓reduceIte] at h; cases h
        · simp only [h1, ↓reduceIte] at h
          have hpk := indexOf_spec pk34 _ nh hidx
          simp only [List.drop_drop] at hpk h
          by_cases hp : hasPrefix (raw.drop (off + 0x1A + (nh + 0x1E))) sig = true
          · refine ⟨off + 0x1A + (nh + 0x1E), hp, Or.inr ⟨by omega, ?_⟩⟩
            rw [drop_congr raw (off + 0x1A + (nh + 0x1E) - 30) (off + 0x1A + nh) (by omega)]
            exact hpk
          · simp only [hp, Bool.false_eq_true, ↓reduceIte] at h
            exact ih raw (off + 0x1A + (nh + 0x1E)) h

/-- **C19 (converse)**: a positive `zipContains` verdict (hence an OOXML, JAR or APK
    verdict) implies that the marker occurs at a name position of the archive -/
theorem verdict_implies_marker (raw sig : Bytes) (mso : Bool) (h : zipContains raw sig mso = some true) :
    AtNamePos raw sig := by
  simp only [zipContains] at h
  by_cases h0 : raw.length < 0x1E
  · simp only [h0, ↓reduceIte] at h; cases h
  · simp only [h0, ↓reduceIte] at h
    by_cases h1 : hasPrefix (raw.drop 0x1E) sig = true
    · exact ⟨30, h1, Or.inl rfl⟩
    · simp only [h1, Bool.false_eq_true, ↓reduceIte] at h
      by_cases h2 : (mso && !(msoSkipFiles.any fun sf => hasPrefix (raw.drop 0x1E) sf)) = true
      · simp only [h2, ↓reduceIte] at h; cases h
      · simp only [h2, Bool.false_eq_true, ↓reduceIte] at h
        cases hc : getU32le raw 18 with
        | none => simp only [hc] at h; cases h
        | some cs =>
          simp only [hc] at h
          generalize (cs + 49) % 4294967296 = so at h
          by_cases h3 : (raw.drop 0x1E).length < so
          · simp only [h3, ↓reduceIte] at h; cases h
          · simp only [h3, ↓reduceIte] at h
            by_cases h4 : raw.length < so
            · simp only [h4, ↓reduceIte] at h; cases h
            · simp only [h4, ↓reduceIte] at h
              cases hi : indexOf pk34 (raw.drop so) with
              | none => simp only [hi] at h; cases h
              | some nh =>
                simp only [hi] at h
                have hpk := indexOf_spec pk34 _ nh hi
                simp only [List.drop_drop] at hpk h
                by_cases h5 : (raw.drop (0x1E + so)).length < nh
                · simp only [h5, ↓reduceIte] at h; cases h
                · simp only [h5, ↓reduceIte] at h
                  by_cases hp : hasPrefix (raw.drop (0x1E + so + nh)) sig = true
                  · refine ⟨0x1E + so + nh, hp, Or.inr ⟨by omega, ?_⟩⟩
                    rw [drop_congr raw (0x1E + so + nh - 30) (so + nh) (by omega)]
                    exact hpk
                  · simp only [hp, Bool.false_eq_true, ↓reduceIte, Option.some.injEq] at h
                    exact zipLoop_sound sig 4 raw (0x1E + so + nh) h

/-- **C19 (forward, first entry)**: an archive whose first entry name starts with the
    marker (at offset 30, as every zip writer places it) is accepted -/
theorem first_entry_marker (raw sig : Bytes) (mso : Bool) (hl : 30 ≤ raw.length)
    (h : hasPrefix (raw.drop 30) sig = true) : zipContains raw sig mso = some true := by
  unfold zipContains
  have : ¬ raw.length < 0x1E := by omega
  simp only [this, ↓reduceIte, h]

def kManifest : Bytes := [77, 69, 84, 65, 45, 73, 78, 70, 47, 77, 65, 78, 73, 70, 69, 83, 84, 46, 77, 70]

/-- regenerated fact: `Jar` is `zipContains(raw, "META-INF/MANIFEST.MF", false)` -/
theorem jar_is_manifest_check : Gen.d_Jar = .expr (.prim (.zipContains kManifest false)) := by decide

/-- JAR: first entry `META-INF/MANIFEST.MF` ⇒ the `Jar` check accepts -/
theorem jar_forward (raw : Bytes) (hl : 30 ≤ raw.length) (h : hasPrefix (raw.drop 30) kManifest = true) :
    Cust.evalExpr Gen.d_Jar raw = some true := by
  rw [jar_is_manifest_check]
  simp only [Cust.evalExpr, BExp.eval, Prim.eval]
  exact first_entry_marker raw kManifest false hl h

def mimeZip : Bytes := [97, 112, 112, 108, 105, 99, 97, 116, 105, 111, 110, 47, 122, 105, 112]

/-- regenerated facts about tree.go: the zip children, in priority order (apk before jar),
    and every node whose check calls `zipContains` or tests offset 30 for `mimetype…` is a
    child (or grandchild through its ODF parent) of the `application/zip` node -/
theorem tree_facts :
    (Gen.builtin.children.filter (fun c => c.info.name == "zip")).map (fun c => c.children.map (·.info.name)) =
      [["xlsx", "docx", "pptx", "epub", "apk", "jar", "odt", "ods", "odp", "odg", "odf", "odc", "sxc"]] ∧
    (Gen.builtin.children.filter (fun c => c.info.name == "zip")).map (·.info.mime) = [mimeZip] ∧
    -- no node outside the zip subtree uses the zip walk
    (Gen.builtin.children.filter (fun c => !(c.info.name == "zip"))).all (fun c =>
      (Tree.flatten c).all (fun i => match i.det with
        | .expr (.prim (.zipContains _ _)) => false
        | .expr (.or (.prim (.zipContains _ _)) _) => false
        | _ => true)) = true := by
  refine ⟨by decide, by decide, by decide⟩

/-- every verdict of a zip child has `application/zip` as its parent: the walk can only
    reach a child of `zip` through `zip` (C03), and results mirror the walked path -/
theorem zip_child_parent (acc : Info → Bool) (a : Info) (cs : List (Tree Info)) (i : Info)
    (h : i ∈ (walk acc (.node a cs)).tail) : acc i = true :=
  C03.ancestors_accept acc (.node a cs) i h

/- non-vacuity: a stored first entry named META-INF/MANIFEST.MF -/
example : zipContains ([0x50, 0x4B, 3, 4] ++ List.replicate 26 0 ++ kManifest) kManifest false = some true := by decide

end Mime.C19
