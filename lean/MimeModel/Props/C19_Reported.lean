import MimeModel.Lemmas.C19Reported
/-
  C19, the OOXML and JAR clauses, from the zip LAYOUT (Spec/Zip.lean) to the result of `Detect`
  (limit 0), the rivals excluded by proof:

    "For archives produced by a standard zip writer and examined in full: a package whose first
     entry is [Content_Types].xml and that has a word/, xl/ or ppt/ part among its first six entries
     is reported as docx, xlsx or pptx respectively; an archive whose first entry is
     META-INF/MANIFEST.MF is reported as JAR; … every such verdict has application/zip as its parent."

  The archive is `archive (e1 :: mid ++ em :: rest) tail`: the first entry, at most four entries,
  the marker entry (so it is one of the entries 2..6), the remaining entries, then the central
  directory.  Each theorem exists for the two ways a writer fills the first local header: sizes in
  the header (`hcsize : e1.csizeField = e1.data.length`, `hsmall`: below 4 GiB) and streamed
  (`…_streamed`, `hcsize : e1.csizeField = 0`, sizes in a data descriptor: `archive/zip`'s `Create`).

  Rivals, all excluded by proof (`C19Rep.rejN_sound`, `C19Rep.rival_names`):
    xpm, 7z            consulted before zip: want other first bytes than `PK`;
    xlsx, docx, pptx   in front of epub…jar: stopped by the first-entry rule of `zipContains`
                       when the first entry is `META-INF/MANIFEST.MF`;
    epub, odt … sxc    in front of apk, jar: want `mimetype…` at offset 30;
  and two that genuinely accept and therefore leave a hypothesis about ENTRY NAMES:
    the OOXML siblings in front of the format (xlsx before docx; xlsx, docx before pptx) accept when
      their marker is reachable: `hprio`;
    apk (in front of jar) accepts when one of its five marker names is reachable: `hapk`
      (and then the verdict IS apk: `apk_reported`).
  "Reachable" comes in two forms:
    * the main theorems look at the first six entries only — what the walk of zip.go visits when the
      entries it hops over are clean and of realistic length (`C19Rep.window_absent`); nothing is
      asked of the entries after the sixth;
    * `…_clean`: the whole archive is clean (all bodies and the tail free of `PK\x03\x04`) and no
      name anywhere is comparable with the earlier marker — no length condition after the marker
      entry, no condition on the size field for jar (`ZipConverse.no_marker_plain_zip'`).
  "Not comparable" (`incomp a b`): neither starts with the other.  The half "the name is not a
  proper beginning of the marker" (names ``, `x`, `xl`) is the side condition `hshort` of
  Props/C19_Converse.lean: the walk compares the marker with the bytes at the name position and
  reads past the end of a shorter name (counterexample below).

  Remaining hypotheses, per theorem, and the kernel-checked counterexamples: end of this file.
  Proofs: Lemmas/C19Reported.lean.
-/
namespace Mime.C19
open Mime Mime.Spec.Zip Mime.ZipLayout Mime.ZipConverse Mime.ZipOdf Mime.C19Odf Mime.C19Rep

/-- the five entry names the APK check looks for -/
theorem apk_markers : apkMarkers =
    [ofString "AndroidManifest.xml", ofString "META-INF/com/android/build/gradle/app-metadata.properties",
     ofString "classes.dex", ofString "resources.arsc", ofString "res/drawable"] := apkMarkers_eq

/-- regenerated: what is consulted before each of the five formats (at the root, then below zip),
    and which of these detectors do not reject by shape — the OOXML siblings, apk -/
theorem reported_rivals :
    (WalkPath.rivals (zipPath "xlsx") Gen.builtin).map (·.info.name) = ["xpm", "sevenZ"] ∧
    (WalkPath.rivals (zipPath "docx") Gen.builtin).map (·.info.name) = ["xpm", "sevenZ", "xlsx"] ∧
    (WalkPath.rivals (zipPath "pptx") Gen.builtin).map (·.info.name) = ["xpm", "sevenZ", "xlsx", "docx"] ∧
    (WalkPath.rivals (zipPath "apk") Gen.builtin).map (·.info.name) =
      ["xpm", "sevenZ", "xlsx", "docx", "pptx", "epub", "odt", "ods", "odp", "odg", "odf", "odc", "sxc"] ∧
    (WalkPath.rivals (zipPath "jar") Gen.builtin).map (·.info.name) =
      ["xpm", "sevenZ", "xlsx", "docx", "pptx", "epub", "odt", "ods", "odp", "odg", "odf", "odc", "sxc", "apk"] ∧
    ((WalkPath.rivals (zipPath "docx") Gen.builtin).filter (fun d => !rejN ctB d.info.det)).map (·.info.name) = ["xlsx"] ∧
    ((WalkPath.rivals (zipPath "pptx") Gen.builtin).filter (fun d => !rejN ctB d.info.det)).map (·.info.name) = ["xlsx", "docx"] ∧
    ((WalkPath.rivals (zipPath "jar") Gen.builtin).filter (fun d => !rejN mfB d.info.det)).map (·.info.name) = ["apk"] :=
  rival_names

/-- the registered types of the five formats -/
theorem reported_mimes :
    (zipChild "xlsx").info.mime = ofString "application/vnd.openxmlformats-officedocument.spreadsheetml.sheet" ∧
    (zipChild "docx").info.mime = ofString "application/vnd.openxmlformats-officedocument.wordprocessingml.document" ∧
    (zipChild "pptx").info.mime = ofString "application/vnd.openxmlformats-officedocument.presentationml.presentation" ∧
    (zipChild "apk").info.mime = ofString "application/vnd.android.package-archive" ∧
    (zipChild "jar").info.mime = ofString "application/jar" := by
  refine ⟨by decide +kernel, by decide +kernel, by decide +kernel, by decide +kernel, by decide +kernel⟩

/-! ### xlsx: no sibling in front — exactly the hypotheses of `ooxml_layout` / `descriptor_layout` -/

/-- **xlsx**: first entry `[Content_Types].xml`, an `xl/` part among entries 2..6 ⇒ reported as
    xlsx, parent application/zip -/
theorem xlsx_reported (ext : Ext) (e1 : Entry) (mid : List Entry) (em : Entry) (rest : List Entry) (tail : Bytes)
    (hwf : ∀ e ∈ e1 :: mid ++ [em], e.WF) (hclean : ∀ e ∈ e1 :: mid, e.Clean)
    (hreal : ∀ e ∈ mid, e.Realistic) (hmid : mid.length ≤ 4)
    (hname : e1.name = ofString "[Content_Types].xml") (hcsize : e1.csizeField = e1.data.length)
    (hsmall : (archive (e1 :: mid ++ em :: rest) tail).length < 4294967296)
    (hmark : hasPrefix em.name (ofString "xl/") = true) :
    (detect ext Gen.builtin (archive (e1 :: mid ++ em :: rest) tail) 0).chain =
      [(zipChild "xlsx").info, zipNode.info, Gen.builtin.info] ∧
    zipNode.info.mime = ofString "application/zip" := by
  rw [xlB_eq] at hmark
  have hf := ooxml_layout e1 mid em rest tail xlB true hwf hclean hreal hmid hname hcsize hsmall hmark
  rw [List.cons_append] at hf ⊢
  exact ⟨xlsx_core ext e1 _ tail (hwf e1 (by simp)) hname hf, zip_parent.1⟩

theorem xlsx_reported_streamed (ext : Ext) (e1 : Entry) (mid : List Entry) (em : Entry) (rest : List Entry) (tail : Bytes)
    (hwf : ∀ e ∈ e1 :: mid ++ [em], e.WF) (hclean : ∀ e ∈ e1 :: mid, e.Clean)
    (hreal : ∀ e ∈ mid, e.Realistic) (hmid : mid.length ≤ 4)
    (hname : e1.name = ofString "[Content_Types].xml") (hcsize : e1.csizeField = 0)
    (hmark : hasPrefix em.name (ofString "xl/") = true) :
    (detect ext Gen.builtin (archive (e1 :: mid ++ em :: rest) tail) 0).chain =
      [(zipChild "xlsx").info, zipNode.info, Gen.builtin.info] ∧
    zipNode.info.mime = ofString "application/zip" := by
  rw [xlB_eq] at hmark
  have hn : e1.name.length = 19 := by rw [hname, ctB_eq]; rfl
  have hf := descriptor_layout e1 mid em rest tail xlB true hwf hclean hreal hmid hcsize (by omega)
    (fun _ => by rw [hname]; exact ct_skip) hmark
  rw [List.cons_append] at hf ⊢
  exact ⟨xlsx_core ext e1 _ tail (hwf e1 (by simp)) hname hf, zip_parent.1⟩

/-! ### docx: xlsx is consulted first -/

/-- **docx**: first entry `[Content_Types].xml`, a `word/` part among entries 2..6, and none of the
    other names among the first six entries is comparable with `xl/` (`hprio`: sibling priority)
    ⇒ reported as docx, parent application/zip.  The first six entries are well-formed, the first
    five clean, entries 2..5 of realistic length; with fewer than six entries the tail is clean. -/
theorem docx_reported (ext : Ext) (e1 : Entry) (mid : List Entry) (em : Entry) (rest : List Entry) (tail : Bytes)
    (hwf : ∀ e ∈ e1 :: (mid ++ em :: rest).take 5, e.WF)
    (hclean : ∀ e ∈ e1 :: (mid ++ em :: rest).take 4, e.Clean)
    (hreal : ∀ e ∈ (mid ++ em :: rest).take 4, e.Realistic) (hmid : mid.length ≤ 4)
    (hend : 5 ≤ (mid ++ em :: rest).length ∨ CleanTail tail)
    (hname : e1.name = ofString "[Content_Types].xml") (hcsize : e1.csizeField = e1.data.length)
    (hsmall : (archive (e1 :: mid ++ em :: rest) tail).length < 4294967296)
    (hmark : hasPrefix em.name (ofString "word/") = true)
    (hprio : ∀ e ∈ mid ++ rest.take (4 - mid.length), incomp e.name (ofString "xl/") = true) :
    (detect ext Gen.builtin (archive (e1 :: mid ++ em :: rest) tail) 0).chain =
      [(zipChild "docx").info, zipNode.info, Gen.builtin.info] ∧
    zipNode.info.mime = ofString "application/zip" := by
  rw [wordB_eq] at hmark
  rw [xlB_eq] at hprio
  exact ⟨ooxml_reported_window ext ("docx", wordB, [xlB]) (by simp [ooxmlTable]) e1 mid em rest tail hwf hclean
    hreal hmid hend hname hcsize hsmall hmark (fun e he s hs => by
      simp only [List.mem_cons, List.not_mem_nil, or_false] at hs; subst hs; exact hprio e he), zip_parent.1⟩

theorem docx_reported_streamed (ext : Ext) (e1 : Entry) (mid : List Entry) (em : Entry) (rest : List Entry) (tail : Bytes)
    (hwf : ∀ e ∈ e1 :: (mid ++ em :: rest).take 5, e.WF)
    (hclean : ∀ e ∈ e1 :: (mid ++ em :: rest).take 4, e.Clean)
    (hreal : ∀ e ∈ (mid ++ em :: rest).take 4, e.Realistic) (hmid : mid.length ≤ 4)
    (hend : 5 ≤ (mid ++ em :: rest).length ∨ CleanTail tail)
    (hname : e1.name = ofString "[Content_Types].xml") (hcsize : e1.csizeField = 0)
    (hmark : hasPrefix em.name (ofString "word/") = true)
    (hprio : ∀ e ∈ mid ++ rest.take (4 - mid.length), incomp e.name (ofString "xl/") = true) :
    (detect ext Gen.builtin (archive (e1 :: mid ++ em :: rest) tail) 0).chain =
      [(zipChild "docx").info, zipNode.info, Gen.builtin.info] ∧
    zipNode.info.mime = ofString "application/zip" := by
  rw [wordB_eq] at hmark
  rw [xlB_eq] at hprio
  exact ⟨ooxml_reported_window_streamed ext ("docx", wordB, [xlB]) (by simp [ooxmlTable]) e1 mid em rest tail hwf
    hclean hreal hmid hend hname hcsize hmark (fun e he s hs => by
      simp only [List.mem_cons, List.not_mem_nil, or_false] at hs; subst hs; exact hprio e he), zip_parent.1⟩

/-- the whole-archive form: every entry well-formed and clean, clean tail, no name (other than the
    first and the marker entry's) comparable with `xl/`; realistic length only in front of the
    marker entry -/
theorem docx_reported_clean (ext : Ext) (e1 : Entry) (mid : List Entry) (em : Entry) (rest : List Entry) (tail : Bytes)
    (hwf : ∀ e ∈ e1 :: mid ++ em :: rest, e.WF)
    (hclean : ∀ e ∈ e1 :: mid ++ em :: rest, e.Clean) (htail : CleanTail tail)
    (hreal : ∀ e ∈ mid, e.Realistic) (hmid : mid.length ≤ 4)
    (hname : e1.name = ofString "[Content_Types].xml") (hcsize : e1.csizeField = e1.data.length)
    (hsmall : (archive (e1 :: mid ++ em :: rest) tail).length < 4294967296)
    (hmark : hasPrefix em.name (ofString "word/") = true)
    (hprio : ∀ e ∈ mid ++ rest, incomp e.name (ofString "xl/") = true) :
    (detect ext Gen.builtin (archive (e1 :: mid ++ em :: rest) tail) 0).chain =
      [(zipChild "docx").info, zipNode.info, Gen.builtin.info] ∧
    zipNode.info.mime = ofString "application/zip" := by
  rw [wordB_eq] at hmark
  rw [xlB_eq] at hprio
  exact ⟨ooxml_reported ext ("docx", wordB, [xlB]) (by simp [ooxmlTable]) e1 mid em rest tail hwf hclean htail
    hreal hmid hname hcsize hsmall hmark (fun e he s hs => by
      simp only [List.mem_cons, List.not_mem_nil, or_false] at hs; subst hs; exact hprio e he), zip_parent.1⟩

theorem docx_reported_clean_streamed (ext : Ext) (e1 : Entry) (mid : List Entry) (em : Entry) (rest : List Entry)
    (tail : Bytes)
    (hwf : ∀ e ∈ e1 :: mid ++ em :: rest, e.WF)
    (hclean : ∀ e ∈ e1 :: mid ++ em :: rest, e.Clean) (htail : CleanTail tail)
    (hreal : ∀ e ∈ mid, e.Realistic) (hmid : mid.length ≤ 4)
    (hname : e1.name = ofString "[Content_Types].xml") (hcsize : e1.csizeField = 0)
    (hmark : hasPrefix em.name (ofString "word/") = true)
    (hprio : ∀ e ∈ mid ++ rest, incomp e.name (ofString "xl/") = true) :
    (detect ext Gen.builtin (archive (e1 :: mid ++ em :: rest) tail) 0).chain =
      [(zipChild "docx").info, zipNode.info, Gen.builtin.info] ∧
    zipNode.info.mime = ofString "application/zip" := by
  rw [wordB_eq] at hmark
  rw [xlB_eq] at hprio
  exact ⟨ooxml_reported_streamed ext ("docx", wordB, [xlB]) (by simp [ooxmlTable]) e1 mid em rest tail hwf hclean
    htail hreal hmid hname hcsize hmark (fun e he s hs => by
      simp only [List.mem_cons, List.not_mem_nil, or_false] at hs; subst hs; exact hprio e he), zip_parent.1⟩

/-! ### pptx: xlsx and docx are consulted first -/

/-- **pptx**: first entry `[Content_Types].xml`, a `ppt/` part among entries 2..6, and none of the
    other names among the first six entries is comparable with `xl/` or `word/` -/
theorem pptx_reported (ext : Ext) (e1 : Entry) (mid : List Entry) (em : Entry) (rest : List Entry) (tail : Bytes)
    (hwf : ∀ e ∈ e1 :: (mid ++ em :: rest).take 5, e.WF)
    (hclean : ∀ e ∈ e1 :: (mid ++ em :: rest).take 4, e.Clean)
    (hreal : ∀ e ∈ (mid ++ em :: rest).take 4, e.Realistic) (hmid : mid.length ≤ 4)
    (hend : 5 ≤ (mid ++ em :: rest).length ∨ CleanTail tail)
    (hname : e1.name = ofString "[Content_Types].xml") (hcsize : e1.csizeField = e1.data.length)
    (hsmall : (archive (e1 :: mid ++ em :: rest) tail).length < 4294967296)
    (hmark : hasPrefix em.name (ofString "ppt/") = true)
    (hprio : ∀ e ∈ mid ++ rest.take (4 - mid.length),
      incomp e.name (ofString "xl/") = true ∧ incomp e.name (ofString "word/") = true) :
    (detect ext Gen.builtin (archive (e1 :: mid ++ em :: rest) tail) 0).chain =
      [(zipChild "pptx").info, zipNode.info, Gen.builtin.info] ∧
    zipNode.info.mime = ofString "application/zip" := by
  rw [pptB_eq] at hmark
  rw [xlB_eq, wordB_eq] at hprio
  exact ⟨ooxml_reported_window ext ("pptx", pptB, [xlB, wordB]) (by simp [ooxmlTable]) e1 mid em rest tail hwf
    hclean hreal hmid hend hname hcsize hsmall hmark (fun e he s hs => by
      simp only [List.mem_cons, List.not_mem_nil, or_false] at hs
      rcases hs with rfl | rfl
      · exact (hprio e he).1
      · exact (hprio e he).2), zip_parent.1⟩

theorem pptx_reported_streamed (ext : Ext) (e1 : Entry) (mid : List Entry) (em : Entry) (rest : List Entry) (tail : Bytes)
    (hwf : ∀ e ∈ e1 :: (mid ++ em :: rest).take 5, e.WF)
    (hclean : ∀ e ∈ e1 :: (mid ++ em :: rest).take 4, e.Clean)
    (hreal : ∀ e ∈ (mid ++ em :: rest).take 4, e.Realistic) (hmid : mid.length ≤ 4)
    (hend : 5 ≤ (mid ++ em :: rest).length ∨ CleanTail tail)
    (hname : e1.name = ofString "[Content_Types].xml") (hcsize : e1.csizeField = 0)
    (hmark : hasPrefix em.name (ofString "ppt/") = true)
    (hprio : ∀ e ∈ mid ++ rest.take (4 - mid.length),
      incomp e.name (ofString "xl/") = true ∧ incomp e.name (ofString "word/") = true) :
    (detect ext Gen.builtin (archive (e1 :: mid ++ em :: rest) tail) 0).chain =
      [(zipChild "pptx").info, zipNode.info, Gen.builtin.info] ∧
    zipNode.info.mime = ofString "application/zip" := by
  rw [pptB_eq] at hmark
  rw [xlB_eq, wordB_eq] at hprio
  exact ⟨ooxml_reported_window_streamed ext ("pptx", pptB, [xlB, wordB]) (by simp [ooxmlTable]) e1 mid em rest tail
    hwf hclean hreal hmid hend hname hcsize hmark (fun e he s hs => by
      simp only [List.mem_cons, List.not_mem_nil, or_false] at hs
      rcases hs with rfl | rfl
      · exact (hprio e he).1
      · exact (hprio e he).2), zip_parent.1⟩

theorem pptx_reported_clean (ext : Ext) (e1 : Entry) (mid : List Entry) (em : Entry) (rest : List Entry) (tail : Bytes)
    (hwf : ∀ e ∈ e1 :: mid ++ em :: rest, e.WF)
    (hclean : ∀ e ∈ e1 :: mid ++ em :: rest, e.Clean) (htail : CleanTail tail)
    (hreal : ∀ e ∈ mid, e.Realistic) (hmid : mid.length ≤ 4)
    (hname : e1.name = ofString "[Content_Types].xml") (hcsize : e1.csizeField = e1.data.length)
    (hsmall : (archive (e1 :: mid ++ em :: rest) tail).length < 4294967296)
    (hmark : hasPrefix em.name (ofString "ppt/") = true)
    (hprio : ∀ e ∈ mid ++ rest,
      incomp e.name (ofString "xl/") = true ∧ incomp e.name (ofString "word/") = true) :
    (detect ext Gen.builtin (archive (e1 :: mid ++ em :: rest) tail) 0).chain =
      [(zipChild "pptx").info, zipNode.info, Gen.builtin.info] ∧
    zipNode.info.mime = ofString "application/zip" := by
  rw [pptB_eq] at hmark
  rw [xlB_eq, wordB_eq] at hprio
  exact ⟨ooxml_reported ext ("pptx", pptB, [xlB, wordB]) (by simp [ooxmlTable]) e1 mid em rest tail hwf
    hclean htail hreal hmid hname hcsize hsmall hmark (fun e he s hs => by
      simp only [List.mem_cons, List.not_mem_nil, or_false] at hs
      rcases hs with rfl | rfl
      · exact (hprio e he).1
      · exact (hprio e he).2), zip_parent.1⟩

theorem pptx_reported_clean_streamed (ext : Ext) (e1 : Entry) (mid : List Entry) (em : Entry) (rest : List Entry)
    (tail : Bytes)
    (hwf : ∀ e ∈ e1 :: mid ++ em :: rest, e.WF)
    (hclean : ∀ e ∈ e1 :: mid ++ em :: rest, e.Clean) (htail : CleanTail tail)
    (hreal : ∀ e ∈ mid, e.Realistic) (hmid : mid.length ≤ 4)
    (hname : e1.name = ofString "[Content_Types].xml") (hcsize : e1.csizeField = 0)
    (hmark : hasPrefix em.name (ofString "ppt/") = true)
    (hprio : ∀ e ∈ mid ++ rest,
      incomp e.name (ofString "xl/") = true ∧ incomp e.name (ofString "word/") = true) :
    (detect ext Gen.builtin (archive (e1 :: mid ++ em :: rest) tail) 0).chain =
      [(zipChild "pptx").info, zipNode.info, Gen.builtin.info] ∧
    zipNode.info.mime = ofString "application/zip" := by
  rw [pptB_eq] at hmark
  rw [xlB_eq, wordB_eq] at hprio
  exact ⟨ooxml_reported_streamed ext ("pptx", pptB, [xlB, wordB]) (by simp [ooxmlTable]) e1 mid em rest tail hwf
    hclean htail hreal hmid hname hcsize hmark (fun e he s hs => by
      simp only [List.mem_cons, List.not_mem_nil, or_false] at hs
      rcases hs with rfl | rfl
      · exact (hprio e he).1
      · exact (hprio e he).2), zip_parent.1⟩

/-! ### JAR, and APK before JAR -/

/-- **JAR**: first entry `META-INF/MANIFEST.MF` ⇒ reported as JAR, parent application/zip — when
    the APK check, consulted first, finds none of its five marker names: here the first six
    entries are well-formed, the first five clean, entries 2..5 of realistic length, none of the
    names of entries 2..6 is comparable with an APK marker, and the manifest's header carries its
    stored size (or 0: streamed).  Nothing is asked of the entries after the sixth. -/
theorem jar_reported (ext : Ext) (e1 : Entry) (es : List Entry) (tail : Bytes)
    (hname : e1.name = ofString "META-INF/MANIFEST.MF")
    (hwf : ∀ e ∈ e1 :: es.take 5, e.WF)
    (hclean : ∀ e ∈ e1 :: es.take 4, e.Clean) (hreal : ∀ e ∈ es.take 4, e.Realistic)
    (hcsize : e1.csizeField = e1.data.length ∨ e1.csizeField = 0)
    (hsmall : (archive (e1 :: es) tail).length < 4294967296)
    (hend : 5 ≤ es.length ∨ CleanTail tail)
    (hapk : ∀ e ∈ es.take 5, ∀ s ∈ apkMarkers, incomp e.name s = true) :
    (detect ext Gen.builtin (archive (e1 :: es) tail) 0).chain =
      [(zipChild "jar").info, zipNode.info, Gen.builtin.info] ∧
    zipNode.info.mime = ofString "application/zip" :=
  ⟨jar_reported_window ext e1 es tail hname hwf hclean hreal hcsize hsmall hend hapk, zip_parent.1⟩

/-- the whole-archive form: every entry well-formed and clean, clean tail, no name comparable with
    an APK marker; nothing about lengths, nothing about the size field -/
theorem jar_reported_clean (ext : Ext) (e1 : Entry) (es : List Entry) (tail : Bytes)
    (hname : e1.name = ofString "META-INF/MANIFEST.MF")
    (hwf : ∀ e ∈ e1 :: es, e.WF) (hclean : ∀ e ∈ e1 :: es, e.Clean) (htail : CleanTail tail)
    (hapk : ∀ e ∈ es, ∀ s ∈ apkMarkers, incomp e.name s = true) :
    (detect ext Gen.builtin (archive (e1 :: es) tail) 0).chain =
      [(zipChild "jar").info, zipNode.info, Gen.builtin.info] ∧
    zipNode.info.mime = ofString "application/zip" :=
  ⟨C19Rep.jar_reported ext e1 es tail hname hwf hclean htail hapk, zip_parent.1⟩

/-- **APK before JAR**: manifest first and a name starting with one of the five APK markers among
    entries 2..6 ⇒ reported as APK, parent application/zip.  No rival hypothesis: everything
    consulted before apk rejects an archive whose first entry is the manifest. -/
theorem apk_reported (ext : Ext) (e1 : Entry) (mid : List Entry) (em : Entry) (rest : List Entry)
    (tail s : Bytes) (hs : s ∈ apkMarkers)
    (hwf : ∀ e ∈ e1 :: mid ++ [em], e.WF) (hclean : ∀ e ∈ e1 :: mid, e.Clean)
    (hreal : ∀ e ∈ mid, e.Realistic) (hmid : mid.length ≤ 4)
    (hname : e1.name = ofString "META-INF/MANIFEST.MF") (hcsize : e1.csizeField = e1.data.length)
    (hsmall : (archive (e1 :: mid ++ em :: rest) tail).length < 4294967296)
    (hmark : hasPrefix em.name s = true) :
    (detect ext Gen.builtin (archive (e1 :: mid ++ em :: rest) tail) 0).chain =
      [(zipChild "apk").info, zipNode.info, Gen.builtin.info] ∧
    zipNode.info.mime = ofString "application/zip" :=
  ⟨C19Rep.apk_reported ext e1 mid em rest tail s hs hwf hclean hreal hmid hname hcsize hsmall hmark, zip_parent.1⟩

theorem apk_reported_streamed (ext : Ext) (e1 : Entry) (mid : List Entry) (em : Entry) (rest : List Entry)
    (tail s : Bytes) (hs : s ∈ apkMarkers)
    (hwf : ∀ e ∈ e1 :: mid ++ [em], e.WF) (hclean : ∀ e ∈ e1 :: mid, e.Clean)
    (hreal : ∀ e ∈ mid, e.Realistic) (hmid : mid.length ≤ 4)
    (hname : e1.name = ofString "META-INF/MANIFEST.MF") (hcsize : e1.csizeField = 0)
    (hmark : hasPrefix em.name s = true) :
    (detect ext Gen.builtin (archive (e1 :: mid ++ em :: rest) tail) 0).chain =
      [(zipChild "apk").info, zipNode.info, Gen.builtin.info] ∧
    zipNode.info.mime = ofString "application/zip" :=
  ⟨C19Rep.apk_reported_streamed ext e1 mid em rest tail s hs hwf hclean hreal hmid hname hcsize hmark, zip_parent.1⟩

/-- **the walk sees only the first six entries** (what the main theorems rest on): the first six
    entries well-formed with names not comparable with the marker, the first five clean, entries
    2..5 of realistic length, the first hop inside entry 1, a clean tail if the archive ends
    earlier ⇒ `false`, whatever follows -/
theorem window_absent (e1 : Entry) (es : List Entry) (tail sig : Bytes) (mso : Bool)
    (hwf : ∀ e ∈ e1 :: es.take 5, e.WF)
    (hclean : ∀ e ∈ e1 :: es.take 4, e.Clean) (hreal : ∀ e ∈ es.take 4, e.Realistic)
    (hfirst : e1.csizeField + 49 ≤ 30 + e1.name.length + e1.extra.length + e1.data.length + e1.desc.length)
    (hnowrap : e1.csizeField + 49 < 4294967296)
    (hend : 5 ≤ es.length ∨ CleanTail tail)
    (hno : ∀ e ∈ e1 :: es.take 5, incomp e.name sig = true) :
    zipContains (archive (e1 :: es) tail) sig mso = some false :=
  C19Rep.window_absent e1 es tail sig mso hwf hclean hreal hfirst hnowrap hend hno

/-! ### non-vacuity: concrete archives, hypotheses checked by `decide`, and the closed model
    evaluated directly on the same bytes -/

namespace RepEx

/-- `xl/workbook.xml`, `ppt/presentation.xml`, `classes.dex`, `Main.class`: stored, 20/10/20/20 bytes -/
def exXl : Entry := ⟨exFixed 20 15, [120, 108, 47, 119, 111, 114, 107, 98, 111, 111, 107, 46, 120, 109, 108], [], List.replicate 20 120, []⟩
def exPpt : Entry := ⟨exFixed 10 20, [112, 112, 116, 47, 112, 114, 101, 115, 101, 110, 116, 97, 116, 105, 111, 110, 46, 120, 109, 108], [], List.replicate 10 120, []⟩
def exDex : Entry := ⟨exFixed 20 11, [99, 108, 97, 115, 115, 101, 115, 46, 100, 101, 120], [], List.replicate 20 120, []⟩
def exClass : Entry := ⟨exFixed 20 10, [77, 97, 105, 110, 46, 99, 108, 97, 115, 115], [], List.replicate 20 120, []⟩
/-- a 16-byte data descriptor -/
def exDesc : Bytes := [0x50, 0x4B, 7, 8, 0xDE, 0xAD, 0xBE, 0xEF, 5, 0, 0, 0, 5, 0, 0, 0]
/-- streamed first entries: size fields 0, descriptor after the data -/
def ex1s : Entry := ⟨exFixed 0 19, C19Base.exContentTypes, [], List.replicate 5 120, exDesc⟩
def exMfS : Entry := ⟨exFixed 0 20, C19Base.kManifest, [], List.replicate 5 120, exDesc⟩

example : exXl.name = ofString "xl/workbook.xml" ∧ exPpt.name = ofString "ppt/presentation.xml" ∧
    exDex.name = ofString "classes.dex" ∧ exClass.name = ofString "Main.class" ∧
    ex1.name = ofString "[Content_Types].xml" ∧ ex2.name = ofString "_rels/.rels" ∧
    ex3.name = ofString "docProps/app.xml" ∧ ex4.name = ofString "word/document.xml" ∧
    exManifest.name = ofString "META-INF/MANIFEST.MF" := by decide +kernel

def mimes (es : List Entry) (tail : Bytes) : List Bytes := (Closed.detect (archive es tail) 0).chain.map (·.mime)

def docxChain : List Bytes := [ofString "application/vnd.openxmlformats-officedocument.wordprocessingml.document",
  ofString "application/zip", ofString "application/octet-stream"]
def xlsxChain : List Bytes := [ofString "application/vnd.openxmlformats-officedocument.spreadsheetml.sheet",
  ofString "application/zip", ofString "application/octet-stream"]
def pptxChain : List Bytes := [ofString "application/vnd.openxmlformats-officedocument.presentationml.presentation",
  ofString "application/zip", ofString "application/octet-stream"]
def jarChain : List Bytes := [ofString "application/jar", ofString "application/zip", ofString "application/octet-stream"]
def apkChain : List Bytes := [ofString "application/vnd.android.package-archive", ofString "application/zip",
  ofString "application/octet-stream"]

/-- **docx**: `[Content_Types].xml, _rels/.rels, docProps/app.xml, word/document.xml` + central
    directory: all hypotheses of `docx_reported` hold … -/
example (ext : Ext) : (detect ext Gen.builtin (archive (ex1 :: [ex2, ex3] ++ ex4 :: []) exTail) 0).chain =
    [(zipChild "docx").info, zipNode.info, Gen.builtin.info] :=
  (docx_reported ext ex1 [ex2, ex3] ex4 [] exTail (by decide +kernel) (by decide +kernel) (by decide +kernel)
    (by decide) (by decide +kernel) (by decide +kernel) (by decide +kernel) (by decide +kernel)
    (by decide +kernel) (by decide +kernel)).1

/-- … of `docx_reported_clean` … -/
example (ext : Ext) : (detect ext Gen.builtin (archive (ex1 :: [ex2, ex3] ++ ex4 :: []) exTail) 0).chain =
    [(zipChild "docx").info, zipNode.info, Gen.builtin.info] :=
  (docx_reported_clean ext ex1 [ex2, ex3] ex4 [] exTail (by decide +kernel) (by decide +kernel) (by decide +kernel)
    (by decide +kernel) (by decide) (by decide +kernel) (by decide +kernel) (by decide +kernel)
    (by decide +kernel) (by decide +kernel)).1

/-- … and, streamed, of `docx_reported_streamed` … -/
example (ext : Ext) : (detect ext Gen.builtin (archive (ex1s :: [ex2, ex3] ++ ex4 :: []) exTail) 0).chain =
    [(zipChild "docx").info, zipNode.info, Gen.builtin.info] :=
  (docx_reported_streamed ext ex1s [ex2, ex3] ex4 [] exTail (by decide +kernel) (by decide +kernel) (by decide +kernel)
    (by decide) (by decide +kernel) (by decide +kernel) (by decide +kernel) (by decide +kernel)
    (by decide +kernel)).1

/-- … which direct evaluation of the closed model confirms -/
example : mimes [ex1, ex2, ex3, ex4] exTail = docxChain ∧ mimes [ex1s, ex2, ex3, ex4] exTail = docxChain := by
  decide +kernel

/-- **the window**: seven entries, an `xl/` part as the seventh — `docx_reported` applies (its
    `hprio` speaks of the first six entries only), `docx_reported_clean` does not; the closed
    model says docx -/
example (ext : Ext) : (detect ext Gen.builtin (archive (ex1 :: [ex2, ex3] ++ ex4 :: [ex2, ex3, exXl]) exTail) 0).chain =
    [(zipChild "docx").info, zipNode.info, Gen.builtin.info] :=
  (docx_reported ext ex1 [ex2, ex3] ex4 [ex2, ex3, exXl] exTail (by decide +kernel) (by decide +kernel)
    (by decide +kernel) (by decide) (by decide +kernel) (by decide +kernel) (by decide +kernel) (by decide +kernel)
    (by decide +kernel) (by decide +kernel)).1

example : mimes [ex1, ex2, ex3, ex4, ex2, ex3, exXl] exTail = docxChain ∧
    ¬ (∀ e ∈ [ex2, ex3] ++ [ex2, ex3, exXl], incomp e.name (ofString "xl/") = true) := by decide +kernel

/-- **xlsx** and **pptx** -/
example (ext : Ext) : (detect ext Gen.builtin (archive (ex1 :: [ex2, ex3] ++ exXl :: []) exTail) 0).chain =
    [(zipChild "xlsx").info, zipNode.info, Gen.builtin.info] :=
  (xlsx_reported ext ex1 [ex2, ex3] exXl [] exTail (by decide +kernel) (by decide +kernel) (by decide +kernel)
    (by decide) (by decide +kernel) (by decide +kernel) (by decide +kernel) (by decide +kernel)).1

example (ext : Ext) : (detect ext Gen.builtin (archive (ex1s :: [ex2, ex3] ++ exXl :: []) exTail) 0).chain =
    [(zipChild "xlsx").info, zipNode.info, Gen.builtin.info] :=
  (xlsx_reported_streamed ext ex1s [ex2, ex3] exXl [] exTail (by decide +kernel) (by decide +kernel)
    (by decide +kernel) (by decide) (by decide +kernel) (by decide +kernel) (by decide +kernel)).1

example (ext : Ext) : (detect ext Gen.builtin (archive (ex1 :: [ex2, ex3] ++ exPpt :: []) exTail) 0).chain =
    [(zipChild "pptx").info, zipNode.info, Gen.builtin.info] :=
  (pptx_reported ext ex1 [ex2, ex3] exPpt [] exTail (by decide +kernel) (by decide +kernel) (by decide +kernel)
    (by decide) (by decide +kernel) (by decide +kernel) (by decide +kernel) (by decide +kernel)
    (by decide +kernel) (by decide +kernel)).1

example (ext : Ext) : (detect ext Gen.builtin (archive (ex1s :: [ex2, ex3] ++ exPpt :: []) exTail) 0).chain =
    [(zipChild "pptx").info, zipNode.info, Gen.builtin.info] :=
  (pptx_reported_clean_streamed ext ex1s [ex2, ex3] exPpt [] exTail (by decide +kernel) (by decide +kernel)
    (by decide +kernel) (by decide +kernel) (by decide) (by decide +kernel) (by decide +kernel) (by decide +kernel)
    (by decide +kernel)).1

example : mimes [ex1, ex2, ex3, exXl] exTail = xlsxChain ∧ mimes [ex1s, ex2, ex3, exXl] exTail = xlsxChain ∧
    mimes [ex1, ex2, ex3, exPpt] exTail = pptxChain ∧ mimes [ex1s, ex2, ex3, exPpt] exTail = pptxChain := by
  decide +kernel

/-- **jar**: `META-INF/MANIFEST.MF, Main.class` + central directory (sizes in the header, and streamed) -/
example (ext : Ext) : (detect ext Gen.builtin (archive [exManifest, exClass] exTail) 0).chain =
    [(zipChild "jar").info, zipNode.info, Gen.builtin.info] :=
  (jar_reported ext exManifest [exClass] exTail (by decide +kernel) (by decide +kernel) (by decide +kernel)
    (by decide +kernel) (by decide +kernel) (by decide +kernel) (by decide +kernel) (by decide +kernel)).1

example (ext : Ext) : (detect ext Gen.builtin (archive [exMfS, exClass] exTail) 0).chain =
    [(zipChild "jar").info, zipNode.info, Gen.builtin.info] :=
  (jar_reported ext exMfS [exClass] exTail (by decide +kernel) (by decide +kernel) (by decide +kernel)
    (by decide +kernel) (by decide +kernel) (by decide +kernel) (by decide +kernel) (by decide +kernel)).1

example (ext : Ext) : (detect ext Gen.builtin (archive [exManifest, exClass] exTail) 0).chain =
    [(zipChild "jar").info, zipNode.info, Gen.builtin.info] :=
  (jar_reported_clean ext exManifest [exClass] exTail (by decide +kernel) (by decide +kernel) (by decide +kernel)
    (by decide +kernel) (by decide +kernel)).1

/-- **apk before jar**: `META-INF/MANIFEST.MF, Main.class, classes.dex` -/
example (ext : Ext) : (detect ext Gen.builtin (archive (exManifest :: [exClass] ++ exDex :: []) exTail) 0).chain =
    [(zipChild "apk").info, zipNode.info, Gen.builtin.info] :=
  (apk_reported ext exManifest [exClass] exDex [] exTail (ofString "classes.dex") (by decide +kernel)
    (by decide +kernel) (by decide +kernel) (by decide +kernel) (by decide) (by decide +kernel) (by decide +kernel)
    (by decide +kernel) (by decide +kernel)).1

example (ext : Ext) : (detect ext Gen.builtin (archive (exMfS :: [exClass] ++ exDex :: []) exTail) 0).chain =
    [(zipChild "apk").info, zipNode.info, Gen.builtin.info] :=
  (apk_reported_streamed ext exMfS [exClass] exDex [] exTail (ofString "classes.dex") (by decide +kernel)
    (by decide +kernel) (by decide +kernel) (by decide +kernel) (by decide) (by decide +kernel) (by decide +kernel)
    (by decide +kernel)).1

example : mimes [exManifest, exClass] exTail = jarChain ∧ mimes [exMfS, exClass] exTail = jarChain ∧
    mimes [exManifest, exClass, exDex] exTail = apkChain ∧ mimes [exMfS, exClass, exDex] exTail = apkChain := by
  decide +kernel

/-! ### the remaining hypotheses are needed: kernel-checked counterexamples

  Per theorem (⋆ = not needed for xlsx_reported / apk_reported, which have no accepting rival):

  | hypothesis                         | kind                        | why / counterexample                          |
  |------------------------------------|-----------------------------|-----------------------------------------------|
  | `hname`                            | the property's sentence     | first entry `[Content_Types].xml` / manifest  |
  | `hmark`, `hmid`                    | the property's sentence     | marker part among entries 2..6                |
  | `hcsize`, `hsmall`                 | "standard zip writer"       | first hop lands inside entry 1 (`ooxml_layout`, `descriptor_layout`; `hfirst` of `layout_forward`) |
  | `hwf`                              | modelling                   | 26-byte fixed part, elements are bytes        |
  | `hclean` on `e1 :: mid`            | cleanliness                 | `layout_forward` (ZipLayout)                  |
  | `hreal` on `mid`                   | realistic lengths           | `layout_forward` (ZipLayout, last example)    |
  | ⋆ `hprio` / `hapk`                 | sibling priority            | `cx_front`, `cx_behind`, `cx_apk`             |
  | ⋆ … its half "no proper beginning" | `hshort` of C19_Converse    | `cx_short`                                    |
  | ⋆ `hclean` on the marker entry and the window behind it | cleanliness | `cx_dirty`, `cx_nested`               |
  | ⋆ `hreal` on the marker entry and the window behind it  | realistic lengths | `cx_overshoot` (window form only) |
  | ⋆ `hend` / `htail`                 | cleanliness (of the tail)   | `cx_tail`                                     |

  No hypothesis outside the property's sentence, cleanliness, realistic lengths, the first-six
  window and sibling priority was forced by the proofs. -/

/-- `cx_front` (**sibling priority**, the DESIGN scope reading): a package with an `xl/` part in
    front of its `word/` part is reported as xlsx -/
example : mimes [ex1, exXl, ex4] exTail = xlsxChain ∧
    zipContains (archive [ex1, exXl, ex4] exTail) (ofString "word/") true = some true := by decide +kernel

/-- `cx_behind`: … and so is one with the `xl/` part *behind* the `word/` part, as long as it is
    among the first six entries: `hprio` has to cover `rest.take (4 - mid.length)` too.  All other
    hypotheses of `docx_reported` hold. -/
example : mimes [ex1, ex2, ex4, exXl] exTail = xlsxChain ∧
    (∀ e ∈ ex1 :: ([ex2] ++ ex4 :: [exXl]).take 5, e.WF) ∧ (∀ e ∈ ex1 :: ([ex2] ++ ex4 :: [exXl]).take 4, e.Clean) ∧
    (∀ e ∈ ([ex2] ++ ex4 :: [exXl]).take 4, e.Realistic) ∧ CleanTail exTail ∧
    (∀ e ∈ [ex2], incomp e.name (ofString "xl/") = true) := by decide +kernel

/-- an entry named `xl` whose stored data begin with `/` -/
def exXlShort : Entry := ⟨exFixed 24 2, [120, 108], [], [47] ++ List.replicate 23 120, []⟩

/-- `cx_short` (**names that are a proper beginning of the marker**, `hshort` of C19_Converse): no
    name starts with `xl/`, everything is clean and realistic — xlsx, because the walk reads
    `xl` + `/` across the end of the name -/
example : mimes [ex1, ex2, exXlShort, ex4] exTail = xlsxChain ∧
    (∀ e ∈ [ex1, ex2, exXlShort, ex4], e.WF ∧ e.Clean ∧ hasPrefix e.name (ofString "xl/") = false) ∧
    (∀ e ∈ [ex2, exXlShort, ex4], e.Realistic) ∧ CleanTail exTail ∧
    incomp exXlShort.name (ofString "xl/") = false := by decide +kernel

/-- `word/document.xml` whose stored data embed (after 30 bytes) the local header of `xl/workbook.xml` -/
def exWordDirty : Entry := ⟨exFixed 0 17, C19Base.exWordDoc, [], List.replicate 30 120 ++ exXl.image, []⟩

/-- `cx_dirty` (**cleanliness of the marker entry**, which `ooxml_layout` does not need): the xlsx
    walk goes on behind the `word/` part and finds the embedded header -/
example : mimes [ex1, ex2, exWordDirty] exTail = xlsxChain ∧
    (∀ e ∈ [ex1, ex2, exWordDirty], e.WF) ∧ incomp ex2.name (ofString "xl/") = true ∧
    hasPrefix exWordDirty.name (ofString "word/") = true ∧ (∀ e ∈ [ex1, ex2], e.Clean) ∧ ¬ exWordDirty.Clean ∧ CleanTail exTail := by decide +kernel

/-- a tail that embeds the image of `xl/workbook.xml` (say, in an archive comment) -/
def exTailDirty : Bytes :=
  [0x50, 0x4B, 1, 2] ++ List.replicate 42 0 ++ exXl.image ++ [0x50, 0x4B, 5, 6] ++ List.replicate 18 0

/-- `cx_tail` (**clean tail**, for archives of fewer than six entries): all entries clean, realistic,
    no `xl/` name — xlsx from the tail -/
example : mimes [ex1, ex2, ex4] exTailDirty = xlsxChain ∧
    (∀ e ∈ [ex1, ex2, ex4], e.WF ∧ e.Clean) ∧ (∀ e ∈ [ex2, ex4], e.Realistic ∧ incomp e.name (ofString "xl/") = true) ∧
    ¬ CleanTail exTailDirty := by decide +kernel

/-- a directory entry `word/`: no data, 5 bytes of name -/
def exWordShort : Entry := ⟨exFixed 0 5, [119, 111, 114, 100, 47], [], [], []⟩

/-- `cx_overshoot` (**realistic length of the marker entry**, window form): the `word/` part is the
    fourth entry and too short; the xlsx walk, going on behind it, skips the fifth entry and so
    reaches the *seventh*, `xl/workbook.xml`.  Everything is clean, no name among the first six is
    comparable with `xl/`. -/
example : mimes [ex1, ex2, ex3, exWordShort, ex2, ex3, exXl] exTail = xlsxChain ∧
    (∀ e ∈ [ex1, ex2, ex3, exWordShort, ex2, ex3, exXl], e.WF ∧ e.Clean) ∧
    (∀ e ∈ [ex2, ex3] ++ [ex2, ex3, exXl].take (4 - 2), incomp e.name (ofString "xl/") = true) ∧
    ¬ exWordShort.Realistic := by decide +kernel

/- `cx_apk` is `apk_reported` itself (manifest first, `classes.dex` third: apk, not jar). -/

/-- `lib.zip`, stored, embedding (after 30 bytes) the local header of `classes.dex` -/
def exNested : Entry := ⟨exFixed 0 7, [108, 105, 98, 46, 122, 105, 112], [], List.replicate 30 120 ++ exDex.image, []⟩

/-- `cx_nested` (**cleanliness**, jar): a jar that stores an archive holding `classes.dex` is
    reported as APK; no entry name of the jar is comparable with an APK marker -/
example : mimes [exManifest, exClass, exNested] exTail = apkChain ∧
    (∀ e ∈ [exClass, exNested], ∀ s ∈ apkMarkers, incomp e.name s = true) ∧
    (∀ e ∈ [exManifest, exClass, exNested], e.WF) ∧ ¬ exNested.Clean := by decide +kernel

/-- the directory entry `META-INF/` as the JDK's `jar` tool writes it (extra field `FE CA 00 00`) -/
def exMetaDir : Entry :=
  ⟨[20, 0, 0, 0, 0, 0, 0, 0, 0x21, 0x5A, 0, 0, 0, 0, 0, 0, 0, 0, 0, 0, 0, 0, 9, 0, 4, 0],
   [77, 69, 84, 65, 45, 73, 78, 70, 47], [0xFE, 0xCA, 0, 0], [], []⟩

/-- **outside the clause** (the sentence asks for the manifest as *first* entry), for the record:
    `META-INF/`, `META-INF/MANIFEST.MF`, `Main.class` — the manifest second, behind the directory
    entry — is a plain zip: entry 1 is shorter than 49 bytes, the first hop (`hfirst` of
    `layout_forward`) lands behind the signature of entry 2 and the walk never looks at its name -/
example : mimes [exMetaDir, exManifest, exClass] exTail = [ofString "application/zip", ofString "application/octet-stream"] ∧
    exMetaDir.name = ofString "META-INF/" ∧ (∀ e ∈ [exMetaDir, exManifest, exClass], e.WF ∧ e.Clean) ∧
    zipContains (archive [exMetaDir, exManifest, exClass] exTail) C19Base.kManifest false = some false := by
  decide +kernel

end RepEx

end Mime.C19
