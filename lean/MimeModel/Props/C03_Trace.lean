import MimeModel.Props.C03
/-
  C03, last clause: "a format is only ever consulted after all of its ancestors matched".
  `walkTrace` (Model/Tree.lean) is the walk instrumented with the detectors it consults, in
  order.  Every consulted node is a child of a node on the walked path — whose detectors all
  accepted (`ancestors_accept`) — and below each path node the consulted children are exactly
  the children up to and including the first accepting one, in priority order.
-/
namespace Mime.C03
open Mime Mime.Tree

variable {α : Type}

mutual
/-- the sub-trees along the walked path, root first (`walk` = their payloads) -/
def walkNodes (acc : α → Bool) : Tree α → List (Tree α)
  | .node a cs => .node a cs :: walkNodesList acc cs
def walkNodesList (acc : α → Bool) : List (Tree α) → List (Tree α)
  | [] => []
  | c :: cs => if acc c.info then walkNodes acc c else walkNodesList acc cs
end

mutual
theorem walkNodes_info (acc : α → Bool) : ∀ t : Tree α, (walkNodes acc t).map (·.info) = walk acc t
  | .node a cs => by
    have := walkNodesList_info acc cs
    simp only [walkNodes, walk, List.map_cons]
    rw [this]
    rfl
theorem walkNodesList_info (acc : α → Bool) : ∀ cs : List (Tree α), (walkNodesList acc cs).map (·.info) = walkList acc cs
  | [] => rfl
  | c :: cs => by
    simp only [walkNodesList, walkList]
    split
    · exact walkNodes_info acc c
    · exact walkNodesList_info acc cs
end

/-- the children consulted below a node: up to and including the first one that accepts -/
def consultedOf (acc : α → Bool) : List (Tree α) → List (α × Bool)
  | [] => []
  | c :: cs => if acc c.info then [(c.info, true)] else (c.info, false) :: consultedOf acc cs

mutual
/-- **the trace is the concatenation, along the walked path, of the children consulted below each
    path node** -/
theorem trace_eq (acc : α → Bool) : ∀ t : Tree α,
    walkTrace acc t = ((walkNodes acc t).map (fun p => consultedOf acc p.children)).flatten
  | .node a cs => by
    simp only [walkTrace, walkNodes, List.map_cons, List.flatten_cons, Tree.children]
    exact traceList_eq acc cs
theorem traceList_eq (acc : α → Bool) : ∀ cs : List (Tree α),
    walkTraceList acc cs = consultedOf acc cs ++ ((walkNodesList acc cs).map (fun p => consultedOf acc p.children)).flatten
  | [] => rfl
  | c :: cs => by
    simp only [walkTraceList, walkNodesList, consultedOf]
    split
    · rw [trace_eq acc c]; rfl
    · rw [traceList_eq acc cs]; rfl
end

theorem consultedOf_mem (acc : α → Bool) : ∀ (cs : List (Tree α)) (e : α × Bool), e ∈ consultedOf acc cs →
    ∃ c ∈ cs, c.info = e.1 ∧ acc c.info = e.2 := by
  intro cs
  induction cs with
  | nil => intro e h; simp [consultedOf] at h
  | cons c cs ih =>
    intro e h
    simp only [consultedOf] at h
    split at h
    · rename_i hc
      simp only [List.mem_singleton] at h
      subst h
      exact ⟨c, by simp, rfl, hc⟩
    · rename_i hc
      simp only [List.mem_cons] at h
      rcases h with rfl | h
      · exact ⟨c, by simp, rfl, by simpa using hc⟩
      · obtain ⟨d, hd, h1, h2⟩ := ih e h
        exact ⟨d, by simp [hd], h1, h2⟩

/-- **C03 (consulted only below the walked path)**: every detector call the walk makes is for a
    child of a node on the walked path (the root, or a node whose own detector accepted, as did
    all its ancestors: `ancestors_accept`), and the recorded verdict is that detector's verdict -/
theorem consulted_only_below_path (acc : α → Bool) (t : Tree α) (e : α × Bool) (h : e ∈ walkTrace acc t) :
    ∃ p ∈ walkNodes acc t, ∃ c ∈ p.children, c.info = e.1 ∧ acc c.info = e.2 := by
  rw [trace_eq] at h
  simp only [List.mem_flatten, List.mem_map] at h
  obtain ⟨l, ⟨p, hp, rfl⟩, he⟩ := h
  obtain ⟨c, hc, h1, h2⟩ := consultedOf_mem acc p.children e he
  exact ⟨p, hp, c, hc, h1, h2⟩

/-- below a path node the consulted children are a prefix of its children in priority order:
    everything before the first accepting child (all rejected) and then that child -/
theorem consultedOf_prefix (acc : α → Bool) : ∀ cs : List (Tree α),
    (consultedOf acc cs).map (·.1) = ((cs.takeWhile (fun c => !acc c.info)) ++ (cs.find? (fun c => acc c.info)).toList).map (·.info) := by
  intro cs
  induction cs with
  | nil => rfl
  | cons c cs ih =>
    simp only [consultedOf, List.takeWhile, List.find?]
    cases hc : acc c.info with
    | true => simp
    | false => simp [ih]

/-- the nodes on the walked path other than the start all accepted (restating `ancestors_accept`
    for the sub-trees) -/
theorem path_nodes_accept (acc : α → Bool) (t : Tree α) : ∀ p ∈ (walkNodes acc t).tail, acc p.info = true := by
  intro p hp
  have h1 : p.info ∈ ((walkNodes acc t).tail).map (·.info) := List.mem_map.mpr ⟨p, hp, rfl⟩
  rw [List.map_tail, walkNodes_info] at h1
  exact ancestors_accept acc t p.info h1

/- non-vacuity: a three-level tree; the accepted first child hides its sibling -/
example : walkTrace (fun n : Nat => n % 2 == 1) (.node 0 [.node 2 [.node 9 []], .node 3 [.node 4 [], .node 5 []], .node 7 []]) =
    [(2, false), (3, true), (4, false), (5, true)] := by decide

end Mime.C03
