import MimeModel.Model.Detect
/-
  C09 — malformed JSON is not reported as JSON.
-/
namespace Mime.C09
open Mime Mime.Json

/-- an accepted input starts, after white space, with `{` or `[` -/
theorem accepted_looks_like (cap : Nat) (raw : Bytes) (lim : Nat) (qs : List Gen.Json.Query) (w : Nat)
    (h : jsonHelperCap cap raw lim qs w = true) : looksLikeObjectOrArray raw = true := by
  unfold jsonHelperCap at h
  cases hl : looksLikeObjectOrArray raw with
  | true => rfl
  | false => simp [hl] at h

end Mime.C09
