import MimeModel.Model.Detect
import MimeModel.Lemmas.DetectTie
import MimeModel.Lemmas.JsonBackC
import MimeModel.Lemmas.SpecComplete
/-
  C09 — malformed JSON is not reported as JSON.

  The reference is the relaxed grammar `Spec.J.doc false` (Spec/Json.lean): the RFC 8259
  structure with exactly the three lexical leniencies the property names (liberal number
  spelling, raw control bytes in strings, one trailing comma), written as an independent
  recursive-descent recogniser that builds the syntax tree.  `Spec.J.viable b`: the
  recogniser, run on `b`, either accepts or reports that the input ended inside the
  document (outcome `more`).
-/
namespace Mime.C09
open Mime Mime.Json Mime.Spec Mime.JsonLeaf Mime.JsonBack

/-- an accepted input starts, after white space, with `{` or `[` -/
theorem accepted_looks_like (cap : Nat) (raw : Bytes) (lim : Nat) (qs : List Gen.Json.Query) (w : Nat)
    (h : jsonHelperCap cap raw lim qs w = true) : looksLikeObjectOrArray raw = true := by
  unfold jsonHelperCap at h
  cases hl : looksLikeObjectOrArray raw with
  | true => rfl
  | false => simp [hl] at h

theorem firstNonWs_of_looksLike (b : Bytes) (h : looksLikeObjectOrArray b = true) :
    ∃ c, J.firstNonWs b = some c ∧ (c != 0x7B && c != 0x5B) = false := by
  induction b with
  | nil => simp [looksLikeObjectOrArray] at h
  | cons x xs ih =>
    simp only [looksLikeObjectOrArray, isSpace_eq_ws] at h
    simp only [J.firstNonWs, J.skipWs]
    split at h
    · rename_i hw
      simp only [hw, ↓reduceIte]
      exact ih h
    · rename_i hw
      simp only [hw, Bool.false_eq_true, ↓reduceIte, List.head?_cons, Option.some.injEq, exists_eq_left']
      simp only [Bool.or_eq_true, beq_iff_eq] at h
      rcases h with rfl | rfl <;> decide

/-- what the helper's verdict says about the scanner's run -/
theorem helper_inv (cap : Nat) (raw : Bytes) (lim : Nat) (qs : List Gen.Json.Query) (w : Nat)
    (h : jsonHelperCap cap raw lim qs w = true) :
    looksLikeObjectOrArray raw = true ∧
    let run := consumeAny qs cap (fuelFor raw) 0 raw PState.fresh.reset
    (if lim == 0 || decide (raw.length < lim)
     then (match run.1 with | some rest => raw.length - rest.length | none => 0) = raw.length
     else run.2.ib = raw.length) := by
  have hl := accepted_looks_like cap raw lim qs w h
  refine ⟨hl, ?_⟩
  unfold jsonHelperCap parseWith at h
  simp only [hl, Bool.not_true, Bool.false_eq_true, ↓reduceIte] at h
  generalize consumeAny qs cap (fuelFor raw) 0 raw PState.fresh.reset = run at h ⊢
  obtain ⟨o, s'⟩ := run
  simp only at h ⊢
  split at h
  · cases h
  · split at h
    · rename_i hw
      rw [if_pos hw]
      cases o <;> simpa using h
    · rename_i hw
      rw [if_neg hw]
      simp only [Bool.and_eq_true, beq_iff_eq] at h
      exact h.1

/-- **C09 (whole)**: a positive verdict on a fully examined input (limit 0, or shorter than
    the limit) implies the input is one well-formed object or array of the relaxed grammar,
    with nothing but white space around it.  Any query, any recursion cap. -/
theorem sound_whole (cap : Nat) (raw : Bytes) (lim : Nat) (qs : List Gen.Json.Query) (w : Nat)
    (h : jsonHelperCap cap raw lim qs w = true) (hw : lim = 0 ∨ raw.length < lim) :
    J.relaxedDoc raw = true := by
  obtain ⟨hl, hrun⟩ := helper_inv cap raw lim qs w h
  simp only at hrun
  have hcond : (lim == 0 || decide (raw.length < lim)) = true := by
    rcases hw with h0 | h1
    · simp [h0]
    · simp [h1]
  rw [if_pos hcond] at hrun
  have hne : raw ≠ [] := by
    intro e; subst e; simp [looksLikeObjectOrArray] at hl
  have hpos : 0 < raw.length := List.length_pos_iff.mpr hne
  have hb := (back_all qs cap (fuelFor raw)).1 0 raw PState.fresh.reset (by simp [fuelFor])
  generalize consumeAny qs cap (fuelFor raw) 0 raw PState.fresh.reset = run at hrun hb
  obtain ⟨o, s'⟩ := run
  cases o with
  | none => simp only at hrun; omega
  | some rest =>
    simp only at hrun
    obtain ⟨⟨v, hv⟩, _, h3⟩ := hb
    have hrest : rest = [] := List.eq_nil_of_length_eq_zero (by omega)
    subst hrest
    obtain ⟨c, hc1, hc2⟩ := firstNonWs_of_looksLike raw hl
    unfold J.relaxedDoc J.doc
    simp only [hc1, hc2, Bool.false_eq_true, ↓reduceIte]
    have hff : J.fuelFor raw = fuelFor raw := rfl
    rw [hff]
    rcases valueWs_cases (fuelFor raw) raw with ⟨v', r0, e1, e2⟩ | ⟨e1, e2⟩ | ⟨e1, e2⟩
    · rw [e2] at hv
      simp only [J.R.ok.injEq] at hv
      rw [e1]
      simp [hv.2]
    · rw [e2] at hv; cases hv
    · rw [e2] at hv; cases hv

/-- **C09 (truncated)**: a positive verdict on a prefix (the input is at least as long as the
    limit) implies the examined bytes are viable: the relaxed recogniser accepts them or runs
    out of input inside the document -/
theorem sound_truncated (cap : Nat) (raw : Bytes) (lim : Nat) (qs : List Gen.Json.Query) (w : Nat)
    (h : jsonHelperCap cap raw lim qs w = true) (ht : lim ≠ 0) (hlen : lim ≤ raw.length) :
    J.viable raw = true := by
  obtain ⟨hl, hrun⟩ := helper_inv cap raw lim qs w h
  simp only at hrun
  have hcond : ¬ (lim == 0 || decide (raw.length < lim)) = true := by
    simp; omega
  rw [if_neg hcond] at hrun
  have hb := (back_all qs cap (fuelFor raw)).1 0 raw PState.fresh.reset (by simp [fuelFor])
  generalize consumeAny qs cap (fuelFor raw) 0 raw PState.fresh.reset = run at hrun hb
  obtain ⟨o, s'⟩ := run
  simp only at hrun
  obtain ⟨c, hc1, hc2⟩ := firstNonWs_of_looksLike raw hl
  unfold J.viable
  simp only [hc1, hc2, Bool.false_eq_true, ↓reduceIte]
  have hff : J.fuelFor raw = fuelFor raw := rfl
  rw [hff]
  have h0 : PState.fresh.reset.ib = 0 := rfl
  cases o with
  | none =>
    obtain ⟨_, h2⟩ := hb
    have := h2 (by rw [hrun, h0]; omega)
    rcases valueWs_cases (fuelFor raw) raw with ⟨v', r0, e1, e2⟩ | ⟨e1, e2⟩ | ⟨e1, e2⟩
    · rw [e2] at this; cases this
    · rw [e1]
    · rw [e2] at this; cases this
  | some rest =>
    obtain ⟨⟨v, hv⟩, h2, h3⟩ := hb
    have hrest : rest = [] := List.eq_nil_of_length_eq_zero (by rw [hrun, h0] at h2; omega)
    subst hrest
    rcases valueWs_cases (fuelFor raw) raw with ⟨v', r0, e1, e2⟩ | ⟨e1, e2⟩ | ⟨e1, e2⟩
    · rw [e2] at hv
      simp only [J.R.ok.injEq] at hv
      rw [e1]
      simp [hv.2]
    · rw [e2] at hv; cases hv
    · rw [e2] at hv; cases hv

/-- **C09 (truncated, full strength)**: a positive verdict on a prefix implies that the examined
    bytes can be continued to a well-formed document of the relaxed grammar: there is a suffix
    `rest` such that `raw ++ rest` is one object or array with only white space around it.
    (`Lemmas/SpecComplete.lean`: every viable prefix of the reference grammar has a completing
    suffix: open strings, escapes, literals, numbers, arrays and objects are closed in turn.) -/
theorem truncated_completable (cap : Nat) (raw : Bytes) (lim : Nat) (qs : List Gen.Json.Query) (w : Nat)
    (h : jsonHelperCap cap raw lim qs w = true) (ht : lim ≠ 0) (hlen : lim ≤ raw.length) :
    ∃ rest : Bytes, J.relaxedDoc (raw ++ rest) = true :=
  Mime.SpecComplete.viable_completable raw (sound_truncated cap raw lim qs w h ht hlen)

theorem jsonHelper_eq (raw : Bytes) (lim : Nat) (qs : List Gen.Json.Query) (w : Nat) :
    jsonHelper raw lim qs w = jsonHelperCap Gen.Json.maxRecursion raw lim qs w := rfl

/-- **C09** for the four detectors of the JSON family as they are wired in text.go -/
theorem family_sound (raw : Bytes) (lim : Nat) (qs : List Gen.Json.Query) (w : Nat)
    (h : jsonHelper raw lim qs w = true) :
    (lim = 0 ∨ raw.length < lim → J.relaxedDoc raw = true) ∧
    (lim ≠ 0 → lim ≤ raw.length → J.viable raw = true ∧ ∃ rest : Bytes, J.relaxedDoc (raw ++ rest) = true) := by
  rw [jsonHelper_eq] at h
  exact ⟨sound_whole _ raw lim qs w h,
    fun ht hlen => ⟨sound_truncated _ raw lim qs w h ht hlen, truncated_completable _ raw lim qs w h ht hlen⟩⟩

/- non-vacuity: an accepted truncated header and one of its completions -/
example : jsonHelper [0x5B, 0x7B, 0x22, 0x61] 4 Gen.Json.q_json (tokObject ||| tokArray) = true := by decide
example : J.relaxedDoc ([0x5B, 0x7B, 0x22, 0x61] ++ [0x22, 0x3A, 0x30, 0x7D, 0x5D]) = true := by decide

/- non-vacuity: an accepted relaxed document that is not RFC 8259 (trailing comma, liberal number) -/
example : jsonHelper [0x5B, 0x31, 0x2E, 0x2C, 0x5D] 0 Gen.Json.q_json (tokObject ||| tokArray) = true := by decide
example : J.strictDoc [0x5B, 0x31, 0x2E, 0x2C, 0x5D] = false := by decide

/-- regenerated tie: `Detect` / `DetectReader` load the limit once, atomically (see Lemmas/DetectTie.lean) -/
theorem tie_single_limit : Mime.DetectTie.SingleLimit := Mime.DetectTie.single_limit

end Mime.C09
