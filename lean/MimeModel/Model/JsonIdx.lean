import MimeModel.Model.Json
/-
  Index-level ("checked indexing") transliteration of internal/json/parser.go.

  `MimeModel/Model/Json.lean` models the scanner in suffix-passing style and therefore cannot
  express an out-of-range index.  This file follows the Go code statement by statement and keeps
  the Go index arithmetic:

  * every `b[i]`, `b[n:]`, `b[lo:hi]`, `p.currPath[:len-1]`, `qs[i]` goes through the checked
    primitives `elemAt` / `sliceFrom` / `slice` of the monad `G = Option`, in which `none` means
    "the Go program panics here" (index or slice bounds out of range);
  * every Go `for` loop is a recursion on an explicit fuel argument; running out of fuel is the
    third outcome `Out.fuel`, distinct from `Out.panic` and from a normal return `Out.ok`;
  * the Go variables are kept: the cursor `n`, the re-sliced `b`, `p.ib`, `p.currPath`,
    `p.firstToken`, `p.querySatisfied`, `p.complete`, `p.maxRecursion`, the argument `lvl`, and
    Go's return conventions (`0` = failure; `consumeAny` at `lvl == 0` returns the bytes consumed
    so far on failure and sets `p.complete` only when the top-level value completed).

  Go `int` values that are never decremented (cursors, counters, lengths, return values, `lvl`)
  are `Nat`; the two places where Go subtracts (`len(p.currPath)-1`, `n+keyLen-1`) and the
  sentinel `queryMatched := -1` are `Int`, so that a negative bound is a panic and not a silent 0.
  Library calls (`bytes.Equal`, `bytes.TrimSpace`, `append`) are not index arithmetic of
  parser.go; they are modelled by list equality, `Mime.Json.trimSpaces` and `++`.

  Not modelled here: `LooksLikeObjectOrArray` (a `range` loop reading `raw[i]` at the range
  index), the `sync.Pool` bookkeeping of `Parse` and `p.currPath[0:0]` in `reset` (a `[0:0]` slice
  of any slice, nil included, is in range).

  Lemmas/JsonIdx.lean proves that `parseIdx` never returns `panic` or `fuel` and equals the list
  model `Mime.Json.parseWith`.
-/
namespace Mime.JsonIdx
open Mime Mime.Gen.Json Mime.Json

/-! ### checked indexing -/

/-- the checked-indexing monad: `none` = the Go program panics here -/
abbrev G (α : Type) := Option α

/-- Go `b[i]`: fails iff `i < 0 ∨ i ≥ len(b)` -/
def elemAt {α : Type} (b : List α) (i : Int) : G α :=
  if 0 ≤ i ∧ i < (b.length : Int) then b[i.toNat]? else none

/-- Go `b[n:]`: fails iff `n < 0 ∨ n > len(b)` -/
def sliceFrom {α : Type} (b : List α) (n : Int) : G (List α) :=
  if 0 ≤ n ∧ n ≤ (b.length : Int) then some (b.drop n.toNat) else none

/-- Go `b[lo:hi]`: fails iff `lo < 0 ∨ lo > hi ∨ hi > len(b)`.  (Go checks `hi` against `cap(b)`,
    which is ≥ `len(b)`: the check here is the stricter one, so "no panic here" implies "no panic
    in Go" whatever the capacity of the slices passed in.) -/
def slice {α : Type} (b : List α) (lo hi : Int) : G (List α) :=
  if 0 ≤ lo ∧ lo ≤ hi ∧ hi ≤ (b.length : Int) then some ((b.take hi.toNat).drop lo.toNat) else none

/-- the three outcomes of a run -/
inductive Out (α : Type) where
  | ok (v : α)
  | /-- index / slice bounds out of range -/ panic
  | /-- the fuel of a loop or of the recursion ran out -/ fuel
  deriving Repr, DecidableEq

def Out.bind {α β : Type} : Out α → (α → Out β) → Out β
  | .ok v, f => f v
  | .panic, _ => .panic
  | .fuel, _ => .fuel

instance : Monad Out where
  pure := Out.ok
  bind := Out.bind

/-- a checked index expression inside a run -/
def liftG {α : Type} : G α → Out α
  | some v => .ok v
  | none => .panic

/-! ### parser state -/

/-- Go `parserState` -/
structure St where
  ib : Nat
  maxRecursion : Nat
  currPath : List Bytes
  firstToken : Nat
  querySatisfied : Bool
  complete : Bool
  deriving Repr, DecidableEq

/-- `p.ib++` -/
def St.incIb (p : St) : St := { p with ib := p.ib + 1 }
/-- `p.currPath = append(p.currPath, k)` -/
def St.push (p : St) (k : Bytes) : St := { p with currPath := p.currPath ++ [k] }
/-- `p.querySatisfied = true` -/
def St.satisfy (p : St) : St := { p with querySatisfied := true }

/-- `p.currPath = p.currPath[:len(p.currPath)-1]` (panics on an empty stack) -/
def popPath (p : St) : Out St := do
  let cp ← liftG (slice p.currPath 0 ((p.currPath.length : Int) - 1))
  pure { p with currPath := cp }

/-- the state after `p.reset()` on a parser taken from the pool (`maxRecursion` is set by the
    pool constructor and never written afterwards) -/
def St.afterReset (cap : Nat) : St :=
  { ib := 0, maxRecursion := cap, currPath := [], firstToken := tokInvalid,
    querySatisfied := false, complete := false }

/-! ### `consumeSpace` (parser.go:144) -/

/-- `for len(b) > 0 && isSpace(b[0]) { b = b[1:]; n++; p.ib++ }; return n` -/
def consumeSpaceLoop : Nat → Bytes → Nat → St → Out (Nat × St)
  | 0, _, _, _ => .fuel
  | fuel + 1, b, n, p =>
    if b.length > 0 then do
      let c ← liftG (elemAt b 0)                      -- b[0]
      if isSpace c then do
        let b' ← liftG (sliceFrom b 1)                -- b = b[1:]
        consumeSpaceLoop fuel b' (n + 1) p.incIb
      else pure (n, p)
    else pure (n, p)

def consumeSpace (b : Bytes) (p : St) : Out (Nat × St) :=
  consumeSpaceLoop (b.length + 1) b 0 p

/-! ### `consumeConst` (parser.go:153) -/

/-- `for i, c := range cnst { if lb > i && b[i] == c { p.ib++ } else { return 0 } }; return len(cnst)` -/
def consumeConstLoop : Nat → Bytes → Bytes → Nat → Nat → St → Out (Nat × St)
  | 0, _, _, _, _, _ => .fuel
  | fuel + 1, b, cnst, lb, i, p =>
    if i < cnst.length then do
      let c ← liftG (elemAt cnst i)                   -- the range element cnst[i]
      if lb > i then do
        let x ← liftG (elemAt b i)                    -- b[i]
        if x == c then consumeConstLoop fuel b cnst lb (i + 1) p.incIb
        else pure (0, p)
      else pure (0, p)
    else pure (cnst.length, p)

def consumeConst (b cnst : Bytes) (p : St) : Out (Nat × St) :=
  let lb := b.length
  consumeConstLoop (cnst.length + 1) b cnst lb 0 p

/-! ### `consumeString` (parser.go:165) -/

/-- `for j := 0; j < 4 && len(b[n:]) > 0; j++ { if !isXDigit(b[n]) { return 0 }; n++; p.ib++ }`;
    `none` = the `return 0` inside the loop, `some n` = the loop ended with cursor `n` -/
def hexLoop : Nat → Bytes → Nat → Nat → St → Out (Option Nat × St)
  | 0, _, _, _, _ => .fuel
  | fuel + 1, b, n, j, p =>
    if j < 4 then do
      let t ← liftG (sliceFrom b n)                   -- b[n:]
      if t.length > 0 then do
        let c ← liftG (elemAt b n)                    -- b[n]
        if !isXDigit c then pure (none, p)
        else hexLoop fuel b (n + 1) (j + 1) p.incIb
      else pure (some n, p)
    else pure (some n, p)

/-- the outer `for len(b[n:]) > 0 { … }; return 0` of `consumeString` -/
def consumeStringLoop : Nat → Bytes → Nat → St → Out (Nat × St)
  | 0, _, _, _ => .fuel
  | fuel + 1, b, n, p => do
    let t ← liftG (sliceFrom b n)                     -- b[n:]
    if t.length > 0 then do
      let c ← liftG (elemAt b n)                      -- c, n = b[n], n+1
      let n := n + 1
      let p := p.incIb
      if c == 0x5C then do                            -- case '\\'
        let t ← liftG (sliceFrom b n)                 -- b[n:]
        if t.length == 0 then pure (0, p)
        else do
          let e ← liftG (elemAt b n)                  -- switch b[n]
          if isSimpleEsc e then consumeStringLoop fuel b (n + 1) p.incIb
          else if e == 0x75 then do                   -- case 'u'
            let (r, p) ← hexLoop 5 b (n + 1) 0 p.incIb
            match r with
            | none => pure (0, p)
            | some n => consumeStringLoop fuel b n p
          else pure (0, p)
      else if c == 0x22 then pure (n, p)              -- case '"': return n
      else consumeStringLoop fuel b n p
    else pure (0, p)

def consumeString (b : Bytes) (p : St) : Out (Nat × St) :=
  consumeStringLoop (b.length + 1) b 0 p

/-! ### `consumeNumber` (parser.go:203)

  The Go function is straight-line code with three digit loops and `goto out`.  Here every
  `goto out` is a call of `numOut`, and the function is cut at four lines into `consumeNumber`,
  `numInt`, `numFrac`, `numTail`, `numExp`, each of which is "the rest of the function from that
  line on" with the live variables `b`, `i`, `got`, `p` as arguments. -/

/-- `for len(b) > 0 { if !isDigit(b[0]) { break }; got = true; b, i = b[1:], i+1; p.ib++ }` -/
def digitLoop : Nat → Bytes → Nat → Bool → St → Out (Bytes × Nat × Bool × St)
  | 0, _, _, _, _ => .fuel
  | fuel + 1, b, i, got, p =>
    if b.length > 0 then do
      let c ← liftG (elemAt b 0)                      -- b[0]
      if !isDigit c then pure (b, i, got, p)
      else do
        let b' ← liftG (sliceFrom b 1)                -- b[1:]
        digitLoop fuel b' (i + 1) true p.incIb
    else pure (b, i, got, p)

/-- `out: if got { return i }; return 0` -/
def numOut (got : Bool) (i : Nat) (p : St) : Out (Nat × St) := pure (if got then i else 0, p)

/-- the body of `if got && (b[0] == 'e' || b[0] == 'E') { … }` after the test -/
def numExp (b : Bytes) (i : Nat) (p : St) : Out (Nat × St) := do
  let b ← liftG (sliceFrom b 1)                       -- b, i = b[1:], i+1
  let i := i + 1
  let p := p.incIb
  let got := false
  if b.length == 0 then numOut got i p
  else do
    let c ← liftG (elemAt b 0)                        -- b[0]
    let (b, i, p) ←
      (if c == 0x2B || c == 0x2D then do
        let b' ← liftG (sliceFrom b 1)                -- b[1:]
        pure (b', i + 1, p.incIb)
       else pure (b, i, p) : Out (Bytes × Nat × St))
    let (_, i, got, p) ← digitLoop (b.length + 1) b i got p
    numOut got i p

/-- from `if len(b) == 0 { goto out }` (parser.go:238) to the end -/
def numTail (b : Bytes) (i : Nat) (got : Bool) (p : St) : Out (Nat × St) :=
  if b.length == 0 then numOut got i p
  else do
    let c ← liftG (elemAt b 0)                        -- b[0]
    if got && (c == 0x65 || c == 0x45) then numExp b i p
    else numOut got i p

/-- from `if b[0] == '.'` (parser.go:226) to the end -/
def numFrac (b : Bytes) (i : Nat) (got : Bool) (p : St) : Out (Nat × St) := do
  let c ← liftG (elemAt b 0)                          -- b[0]
  let (b, i, p) ←
    (if c == 0x2E then do
      let b' ← liftG (sliceFrom b 1)                  -- b[1:]
      pure (b', i + 1, p.incIb)
     else pure (b, i, p) : Out (Bytes × Nat × St))
  let (b, i, got, p) ← digitLoop (b.length + 1) b i got p
  numTail b i got p

/-- from the first digit loop (parser.go:215) to the end -/
def numInt (b : Bytes) (i : Nat) (got : Bool) (p : St) : Out (Nat × St) := do
  let (b, i, got, p) ← digitLoop (b.length + 1) b i got p
  if b.length == 0 then numOut got i p
  else numFrac b i got p

def consumeNumber (b : Bytes) (p : St) : Out (Nat × St) := do
  let got := false
  let i := 0
  if b.length == 0 then numOut got i p
  else do
    let c ← liftG (elemAt b 0)                        -- b[0]
    let (b, i, p) ←
      (if c == 0x2D then do
        let b' ← liftG (sliceFrom b 1)                -- b[1:]
        pure (b', i + 1, p.incIb)
       else pure (b, i, p) : Out (Bytes × Nat × St))
    numInt b i got p

/-! ### `eq`, `queryPathMatch` (parser.go:87, 308) -/

/-- `for i := range path1 { if !bytes.Equal(path1[i], path2[i]) { return false } }; return true` -/
def eqLoop : Nat → List Bytes → List Bytes → Nat → Out Bool
  | 0, _, _, _ => .fuel
  | fuel + 1, path1, path2, i =>
    if i < path1.length then do
      let x ← liftG (elemAt path1 i)                  -- path1[i]
      let y ← liftG (elemAt path2 i)                  -- path2[i]
      if !(decide (x = y)) then pure false
      else eqLoop fuel path1 path2 (i + 1)
    else pure true

def eqPath (path1 path2 : List Bytes) : Out Bool :=
  if path1.length != path2.length then pure false
  else eqLoop (path1.length + 1) path1 path2 0

/-- `for i := range qs { if eq(qs[i].SearchPath, path) { return i } }; return -1` -/
def queryPathMatchLoop : Nat → List Query → List Bytes → Nat → Out Int
  | 0, _, _, _ => .fuel
  | fuel + 1, qs, path, i =>
    if i < qs.length then do
      let q ← liftG (elemAt qs i)                     -- qs[i]
      let e ← eqPath q.path path
      if e then pure (i : Int)
      else queryPathMatchLoop fuel qs path (i + 1)
    else pure (-1)

def queryPathMatch (qs : List Query) (path : List Bytes) : Out Int :=
  queryPathMatchLoop (qs.length + 1) qs path 0

/-- parser.go:362–372: `if queryMatched != -1 { q := qs[queryMatched]; … }`; `val` is
    `b[n:n+valLen]`.  The `range q.SearchVals` loop uses no index: it is a fold.  (Go evaluates
    `b[n:n+valLen]` inside that loop, i.e. only when a query matched and has values; the caller
    below evaluates it always, which can only add panics, not hide one.) -/
def applyQuery (qs : List Query) (queryMatched : Int) (val : Bytes) (p : St) : Out St :=
  if queryMatched != -1 then do
    let q ← liftG (elemAt qs queryMatched)            -- qs[queryMatched]
    let p := if q.vals.length == 0 then p.satisfy else p
    pure (q.vals.foldl (fun p v => if decide (v = trimSpaces val) then p.satisfy else p) p)
  else pure p

/-! ### `consumeAny`, `consumeArray`, `consumeObject` (parser.go:395, 268, 317) -/

/-- `consumeArray(b, qs, lvl)`: the statements before the loop, then the loop.  (`loop` is
    `arrayLoop qs fuel` below: passing it as an argument keeps the recursion structural on the
    fuel without spending fuel on the three statements in front of the loop.) -/
def consumeArrayWith (loop : Bytes → Nat → Nat → St → Out (Nat × St)) (b : Bytes) (lvl : Nat) (p : St) :
    Out (Nat × St) :=
  let p := p.push [0x5B]                              -- p.currPath = append(p.currPath, []byte{'['})
  if b.length == 0 then pure (0, p)
  else loop b 0 lvl p

mutual
/-- `consumeAny(b, qs, lvl)` -/
def consumeAny (qs : List Query) : Nat → Bytes → Nat → St → Out (Nat × St)
  | 0, _, _, _ => .fuel
  | fuel + 1, b, lvl, p =>
    if p.maxRecursion != 0 && lvl > p.maxRecursion then pure (0, p)
    else do
      let n := 0
      let (k, p) ← consumeSpace b p
      let n := n + k
      let t ← liftG (sliceFrom b n)                   -- b[n:]
      if t.length == 0 then pure (0, p)
      else do
        let c ← liftG (elemAt b n)                    -- switch b[n]
        let (n, rv, tok, p) ←
          (if c == 0x22 then do
            let n := n + 1
            let p := p.incIb
            let t ← liftG (sliceFrom b n)             -- b[n:]
            let (rv, p) ← consumeString t p
            pure (n, rv, tokString, p)
          else if c == 0x5B then do
            let n := n + 1
            let p := p.incIb
            let t ← liftG (sliceFrom b n)             -- b[n:]
            let (rv, p) ← consumeArrayWith (arrayLoop qs fuel) t (lvl + 1) p
            pure (n, rv, tokArray, p)
          else if c == 0x7B then do
            let n := n + 1
            let p := p.incIb
            let t ← liftG (sliceFrom b n)             -- b[n:]
            let (rv, p) ← consumeObject qs fuel t 0 (lvl + 1) p
            pure (n, rv, tokObject, p)
          else if c == 0x74 then do
            let t ← liftG (sliceFrom b n)             -- b[n:]
            let (rv, p) ← consumeConst t wTrue p
            pure (n, rv, tokTrue, p)
          else if c == 0x66 then do
            let t ← liftG (sliceFrom b n)             -- b[n:]
            let (rv, p) ← consumeConst t wFalse p
            pure (n, rv, tokFalse, p)
          else if c == 0x6E then do
            let t ← liftG (sliceFrom b n)             -- b[n:]
            let (rv, p) ← consumeConst t wNull p
            pure (n, rv, tokNull, p)
          else do
            let t ← liftG (sliceFrom b n)             -- b[n:]
            let (rv, p) ← consumeNumber t p
            pure (n, rv, tokNumber, p) : Out (Nat × Nat × Nat × St))
        let p := if lvl == 0 then { p with firstToken := tok } else p
        let p := if qs.length == 0 then p.satisfy else p
        if rv ≤ 0 then
          (if lvl > 0 then pure (0, p) else pure (n, p))
        else do
          let p := if lvl == 0 then { p with complete := true } else p
          let n := n + rv
          let t ← liftG (sliceFrom b n)               -- b[n:]
          let (k, p) ← consumeSpace t p
          pure (n + k, p)
termination_by structural fuel => fuel

/-- `for n < len(b) { … }; return 0` of `consumeArray` -/
def arrayLoop (qs : List Query) : Nat → Bytes → Nat → Nat → St → Out (Nat × St)
  | 0, _, _, _, _ => .fuel
  | fuel + 1, b, n, lvl, p =>
    if n < b.length then do
      let t ← liftG (sliceFrom b n)                   -- b[n:]
      let (k, p) ← consumeSpace t p
      let n := n + k
      let t ← liftG (sliceFrom b n)                   -- b[n:]
      if t.length == 0 then pure (0, p)
      else do
        let c ← liftG (elemAt b n)                    -- b[n]
        if c == 0x5D then do
          let p ← popPath p.incIb
          pure (n + 1, p)
        else do
          let t ← liftG (sliceFrom b n)               -- b[n:]
          let (innerParsed, p) ← consumeAny qs fuel t lvl p
          if innerParsed == 0 then pure (0, p)
          else do
            let n := n + innerParsed
            let t ← liftG (sliceFrom b n)             -- b[n:]
            if t.length == 0 then pure (0, p)
            else do
              let d ← liftG (elemAt b n)              -- switch b[n]
              if d == 0x2C then arrayLoop qs fuel b (n + 1) lvl p.incIb
              else if d == 0x5D then do
                let p ← popPath p.incIb
                pure (n + 1, p)
              else pure (0, p)
    else pure (0, p)
termination_by structural fuel => fuel

/-- `consumeObject(b, qs, lvl)`: `for n < len(b) { … }; return 0` -/
def consumeObject (qs : List Query) : Nat → Bytes → Nat → Nat → St → Out (Nat × St)
  | 0, _, _, _, _ => .fuel
  | fuel + 1, b, n, lvl, p =>
    if n < b.length then do
      let t ← liftG (sliceFrom b n)                   -- b[n:]
      let (k, p) ← consumeSpace t p
      let n := n + k
      let t ← liftG (sliceFrom b n)                   -- b[n:]
      if t.length == 0 then pure (0, p)
      else do
        let c ← liftG (elemAt b n)                    -- b[n]
        if c == 0x7D then pure (n + 1, p.incIb)
        else if c != 0x22 then pure (0, p)
        else do
          let n := n + 1
          let p := p.incIb
          let queryMatched : Int := -1
          let t ← liftG (sliceFrom b n)               -- b[n:]
          let (keyLen, p) ← consumeString t p
          if keyLen == 0 then pure (0, p)
          else do
            let key ← liftG (slice b n ((n : Int) + keyLen - 1))   -- b[n:n+keyLen-1]
            let p := p.push key
            let queryMatched ←
              (if !p.querySatisfied then queryPathMatch qs p.currPath else pure queryMatched : Out Int)
            let n := n + keyLen
            let t ← liftG (sliceFrom b n)             -- b[n:]
            let (k, p) ← consumeSpace t p
            let n := n + k
            let t ← liftG (sliceFrom b n)             -- b[n:]
            if t.length == 0 then pure (0, p)
            else do
              let d ← liftG (elemAt b n)              -- b[n]
              if d != 0x3A then pure (0, p)
              else do
                let n := n + 1
                let p := p.incIb
                let t ← liftG (sliceFrom b n)         -- b[n:]
                let (k, p) ← consumeSpace t p
                let n := n + k
                let t ← liftG (sliceFrom b n)         -- b[n:]
                if t.length == 0 then pure (0, p)
                else do
                  let t ← liftG (sliceFrom b n)       -- b[n:]
                  let (valLen, p) ← consumeAny qs fuel t lvl p
                  if valLen == 0 then pure (0, p)
                  else do
                    let val ← liftG (slice b n ((n : Int) + valLen))   -- b[n:n+valLen]
                    let p ← applyQuery qs queryMatched val p
                    let n := n + valLen
                    let t ← liftG (sliceFrom b n)     -- b[n:]
                    if t.length == 0 then pure (0, p)
                    else do
                      let g ← liftG (elemAt b n)      -- switch b[n]
                      if g == 0x2C then do
                        let p ← popPath p
                        consumeObject qs fuel b (n + 1) lvl p.incIb
                      else if g == 0x7D then do
                        let p ← popPath p
                        pure (n + 1, p.incIb)
                      else pure (0, p)
    else pure (0, p)
termination_by structural fuel => fuel
end

/-- `consumeArray(b, qs, lvl)` -/
def consumeArray (qs : List Query) (fuel : Nat) (b : Bytes) (lvl : Nat) (p : St) : Out (Nat × St) :=
  consumeArrayWith (arrayLoop qs fuel) b lvl p

/-! ### `Parse` (parser.go:115) -/

/-- the body of `json.Parse` after `p.reset()`, with `p.maxRecursion = cap` and the queries of
    `queryType` already looked up -/
def parseIdx (qs : List Query) (cap : Nat) (raw : Bytes) : Out ParseResult := do
  let p := St.afterReset cap
  let (got, p) ← consumeAny qs (fuelFor raw) raw 0 p
  let got := if !p.complete then 0 else got
  pure { parsed := got, inspected := p.ib, firstToken := p.firstToken,
         querySatisfied := p.querySatisfied }

end Mime.JsonIdx
