import MimeModel.Model.Charset
/-
  Hand-written executable model of the part of the golang.org/x/net/html tokenizer
  (v0.39.0, `token.go`) that `internal/charset.fromHTML` depends on: the sequence of
  `(TagName(), [TagAttr() …])` of every StartTagToken / SelfClosingTagToken that
  `Tokenizer.Next` yields before the first ErrorToken, for a fresh
  `html.NewTokenizer(bytes.NewReader(content))` (no `SetMaxBuf`, `AllowCDATA(false)`).

  The tokenizer is written as ONE structural state machine that consumes one byte per
  step (`step : St → Nat → St × Option Tag`, `run : St → Bytes → List Tag`).  Every
  `z.raw.end--` ("reconsume") of token.go re-dispatches the byte to a handler of a state
  that consumes it, so no back-tracking is needed; the only multi-byte back-up
  (`readRawEndTag` succeeding: `z.raw.end -= 3 + len(z.rawTag)`) is followed by `Next`
  re-reading exactly the bytes just matched (`</` + rawTag, then the terminator), which is
  the `tagName` state of an end tag receiving the terminator.

  Text, comment, doctype and end-tag tokens are not reported (fromHTML ignores them), but
  their extent is modelled exactly since it decides where the next tag can start.
  End of input: `readByte` sets `z.err = io.EOF`; a start tag cut off by the end of input is
  NOT reported (`readStartTag` returns ErrorToken when `z.err != nil`), so `run _ [] = []`.

  Not modelled: `unescape` of attribute values (character references; 2231-entry entity
  table).  `startTags` answers `none` exactly when a reported attribute value contains `&`.
  Tag names and attribute keys are never unescaped by the tokenizer.
-/
namespace Mime.HtmlTok
open Mime Mime.Charset

deriving instance DecidableEq for Tag

/-- `'a' <= c && c <= 'z' || 'A' <= c && c <= 'Z'` -/
def isLetter (c : Nat) : Bool := (0x61 ≤ c && c ≤ 0x7A) || (0x41 ≤ c && c ≤ 0x5A)

/-- `case ' ', '\n', '\r', '\t', '\f', '/', '>'` -/
def isTerm (c : Nat) : Bool := isWS c || c == 0x2F || c == 0x3E

/-- `c == r || c == r - ('a'-'A')` for a lower-case letter `r` -/
def matchCI (r c : Nat) : Bool := c == r || c + 0x20 == r

/-- the tag being read by `readTag`: `start` = `saveAttr` (start tag vs end tag);
    keys are stored lower-cased (`TagAttr` returns `lower(key)`), values raw -/
structure TagAcc where
  start : Bool
  name : Bytes
  attrs : List (Bytes × Bytes)
  deriving DecidableEq, Repr

def kScript : Bytes := [115, 99, 114, 105, 112, 116]
def kPlaintext : Bytes := [112, 108, 97, 105, 110, 116, 101, 120, 116]
def kIframe : Bytes := [105, 102, 114, 97, 109, 101]
def kNoembed : Bytes := [110, 111, 101, 109, 98, 101, 100]
def kNoframes : Bytes := [110, 111, 102, 114, 97, 109, 101, 115]
def kNoscript : Bytes := [110, 111, 115, 99, 114, 105, 112, 116]
def kStyle : Bytes := [115, 116, 121, 108, 101]
def kTextarea : Bytes := [116, 101, 120, 116, 97, 114, 101, 97]
def kTitle : Bytes := [116, 105, 116, 108, 101]
def kXmp : Bytes := [120, 109, 112]

/-- the raw-text / RCDATA element names of `readStartTag` other than script and plaintext -/
def rawNames : List Bytes := [kIframe, kNoembed, kNoframes, kNoscript, kStyle, kTextarea, kTitle, kXmp]

inductive St
  /- `Next`'s main loop -/
  | data                      -- text
  | lt                        -- after `<`
  | endOpen                   -- after `</`
  /- `readTag` -/
  | tagName (t : TagAcc)                                  -- `readTagName`
  | beforeAttr (t : TagAcc)                               -- `skipWhiteSpace` + head of the attribute loop
  | attrKey (t : TagAcc) (k : Bytes)                      -- `readTagAttrKey`, `k` non-empty
  | afterKey (t : TagAcc) (k : Bytes)                     -- `readTagAttrVal` before `=`
  | beforeVal (t : TagAcc) (k : Bytes)                    -- `readTagAttrVal` after `=`
  | quoted (t : TagAcc) (k : Bytes) (q : Nat) (v : Bytes) -- quoted value
  | unquoted (t : TagAcc) (k : Bytes) (v : Bytes)         -- unquoted value
  /- `readMarkupDeclaration`, `readComment`, `readUntilCloseAngle` -/
  | md0                       -- after `<!`
  | md1                       -- after `<!-`
  | bogus                     -- `readUntilCloseAngle`
  | comment (dash : Nat) (beginning : Bool)   -- `readComment`; `dash` = min dashCount 2
  | commentBang               -- after `--!` inside a comment
  /- raw text -/
  | plaintext
  | rt (tag : Bytes)                  -- `readRawOrRCDATA` scanning
  | rtLt (tag : Bytes)                -- … after `<`
  | rtEnd (tag rem : Bytes)           -- `readRawEndTag`: `rem` still to be matched
  /- `readScript` -/
  | sData | sLt | sEnd (rem : Bytes)
  | sEscStart | sEscStartDash
  | sEsc | sEscDash | sEscDashDash | sEscLt | sEscEnd (rem : Bytes)
  | sDES (rem : Bytes)
  | sDE | sDEDash | sDEDashDash | sDELt | sDEEnd (rem : Bytes)
  deriving DecidableEq, Repr

abbrev Out := St × Option Tag

@[inline] def nx (s : St) : Out := (s, none)

/-- the state after a reported start tag: `z.rawTag` decides what the next `Next` does -/
def afterStart (n : Bytes) : St :=
  if n == kScript then .sData
  else if n == kPlaintext then .plaintext
  else if rawNames.contains n then .rt n
  else .data

/-- `>` closes the tag: start tags are reported with the lower-cased name -/
def emit (t : TagAcc) : Out :=
  if t.start then (afterStart (lowerASCII t.name), some { name := lowerASCII t.name, attrs := t.attrs })
  else (.data, none)

/-- `z.attr = append(z.attr, z.pendingAttr)` (the key is never empty here) -/
def save (t : TagAcc) (k v : Bytes) : TagAcc := { t with attrs := t.attrs ++ [(lowerASCII k, v)] }

def dataStep (c : Nat) : Out := if c == 0x3C then nx .lt else nx .data

def beforeAttrStep (t : TagAcc) (c : Nat) : Out :=
  if isWS c then nx (.beforeAttr t)
  else if c == 0x3E then emit t
  else if c == 0x2F then nx (.beforeAttr t)      -- empty key, `readTagAttrVal` eats the `/`
  else nx (.attrKey t [c])                       -- includes a leading `=`

def tagNameStep (t : TagAcc) (c : Nat) : Out :=
  if isWS c then nx (.beforeAttr t)
  else if c == 0x2F || c == 0x3E then beforeAttrStep t c
  else nx (.tagName { t with name := t.name ++ [c] })

def afterKeyStep (t : TagAcc) (k : Bytes) (c : Nat) : Out :=
  if isWS c then nx (.afterKey t k)
  else if c == 0x2F then nx (.beforeAttr (save t k []))
  else if c == 0x3D then nx (.beforeVal t k)
  else beforeAttrStep (save t k []) c

def attrKeyStep (t : TagAcc) (k : Bytes) (c : Nat) : Out :=
  if c == 0x3D || isWS c || c == 0x2F || c == 0x3E then afterKeyStep t k c
  else nx (.attrKey t (k ++ [c]))

def beforeValStep (t : TagAcc) (k : Bytes) (c : Nat) : Out :=
  if isWS c then nx (.beforeVal t k)
  else if c == 0x3E then emit (save t k [])
  else if c == 0x22 || c == 0x27 then nx (.quoted t k c [])
  else nx (.unquoted t k [c])

def quotedStep (t : TagAcc) (k : Bytes) (q : Nat) (v : Bytes) (c : Nat) : Out :=
  if c == q then nx (.beforeAttr (save t k v)) else nx (.quoted t k q (v ++ [c]))

def unquotedStep (t : TagAcc) (k v : Bytes) (c : Nat) : Out :=
  if isWS c then nx (.beforeAttr (save t k v))
  else if c == 0x3E then emit (save t k v)
  else nx (.unquoted t k (v ++ [c]))

def ltStep (c : Nat) : Out :=
  if isLetter c then nx (.tagName { start := true, name := [c], attrs := [] })
  else if c == 0x2F then nx .endOpen
  else if c == 0x21 then nx .md0
  else if c == 0x3F then nx .bogus
  else dataStep c

def endOpenStep (c : Nat) : Out :=
  if c == 0x3E then nx .data
  else if isLetter c then nx (.tagName { start := false, name := [c], attrs := [] })
  else nx .bogus

def bogusStep (c : Nat) : Out := if c == 0x3E then nx .data else nx .bogus

def md0Step (c : Nat) : Out := if c == 0x2D then nx .md1 else bogusStep c
def md1Step (c : Nat) : Out := if c == 0x2D then nx (.comment 0 true) else bogusStep c

def commentStep (dash : Nat) (beg : Bool) (c : Nat) : Out :=
  if c == 0x2D then nx (.comment (if dash ≥ 1 then 2 else 1) beg)
  else if c == 0x3E then (if dash ≥ 2 || beg then nx .data else nx (.comment 0 false))
  else if c == 0x21 then (if dash ≥ 2 then nx .commentBang else nx (.comment 0 false))
  else nx (.comment 0 false)

def commentBangStep (c : Nat) : Out :=
  if c == 0x3E then nx .data
  else if c == 0x2D then nx (.comment 1 false)
  else nx (.comment 0 false)

/- raw text / RCDATA (`readRawOrRCDATA`, `readRawEndTag`) -/
def rtStep (tag : Bytes) (c : Nat) : Out := if c == 0x3C then nx (.rtLt tag) else nx (.rt tag)

def rtLtStep (tag : Bytes) (c : Nat) : Out := if c == 0x2F then nx (.rtEnd tag tag) else rtStep tag c

/-- the end tag `</tag` + terminator `c` has been recognised: `Next` re-reads it as an end tag,
    whose name ends at `c` -/
def endTagFound (tag : Bytes) (c : Nat) : Out := tagNameStep { start := false, name := tag, attrs := [] } c

def rtEndStep (tag : Bytes) (rem : Bytes) (c : Nat) : Out :=
  match rem with
  | r :: rs => if matchCI r c then nx (.rtEnd tag rs) else rtStep tag c
  | [] => if isTerm c then endTagFound tag c else rtStep tag c

/- script (`readScript`) -/
def sDataStep (c : Nat) : Out := if c == 0x3C then nx .sLt else nx .sData

def sLtStep (c : Nat) : Out :=
  if c == 0x2F then nx (.sEnd kScript) else if c == 0x21 then nx .sEscStart else sDataStep c

def sEndStep (rem : Bytes) (c : Nat) : Out :=
  match rem with
  | r :: rs => if matchCI r c then nx (.sEnd rs) else sDataStep c
  | [] => if isTerm c then endTagFound kScript c else sDataStep c

def sEscStartStep (c : Nat) : Out := if c == 0x2D then nx .sEscStartDash else sDataStep c
def sEscStartDashStep (c : Nat) : Out := if c == 0x2D then nx .sEscDashDash else sDataStep c

def sEscStep (c : Nat) : Out :=
  if c == 0x2D then nx .sEscDash else if c == 0x3C then nx .sEscLt else nx .sEsc

def sEscDashStep (c : Nat) : Out :=
  if c == 0x2D then nx .sEscDashDash else if c == 0x3C then nx .sEscLt else nx .sEsc

def sEscDashDashStep (c : Nat) : Out :=
  if c == 0x2D then nx .sEscDashDash else if c == 0x3C then nx .sEscLt
  else if c == 0x3E then nx .sData else nx .sEsc

/-- `scriptDataDoubleEscapeStart`: matching `script` (either case) then a terminator -/
def sDESStep (rem : Bytes) (c : Nat) : Out :=
  match rem with
  | r :: rs => if matchCI r c then nx (.sDES rs) else sEscStep c
  | [] => if isTerm c then nx .sDE else sEscStep c

def sEscLtStep (c : Nat) : Out :=
  if c == 0x2F then nx (.sEscEnd kScript)
  else if isLetter c then sDESStep kScript c
  else sDataStep c            -- sic: token.go goes back to scriptData, not scriptDataEscaped

def sEscEndStep (rem : Bytes) (c : Nat) : Out :=
  match rem with
  | r :: rs => if matchCI r c then nx (.sEscEnd rs) else sEscStep c
  | [] => if isTerm c then endTagFound kScript c else sEscStep c

def sDEStep (c : Nat) : Out :=
  if c == 0x2D then nx .sDEDash else if c == 0x3C then nx .sDELt else nx .sDE

def sDEDashStep (c : Nat) : Out :=
  if c == 0x2D then nx .sDEDashDash else if c == 0x3C then nx .sDELt else nx .sDE

def sDEDashDashStep (c : Nat) : Out :=
  if c == 0x2D then nx .sDEDashDash else if c == 0x3C then nx .sDELt
  else if c == 0x3E then nx .sData else nx .sDE

def sDELtStep (c : Nat) : Out := if c == 0x2F then nx (.sDEEnd kScript) else sDEStep c

def sDEEndStep (rem : Bytes) (c : Nat) : Out :=
  match rem with
  | r :: rs => if matchCI r c then nx (.sDEEnd rs) else sDEStep c
  | [] => if isTerm c then nx .sEsc else sDEStep c

/-- one byte -/
def step : St → Nat → Out
  | .data, c => dataStep c
  | .lt, c => ltStep c
  | .endOpen, c => endOpenStep c
  | .tagName t, c => tagNameStep t c
  | .beforeAttr t, c => beforeAttrStep t c
  | .attrKey t k, c => attrKeyStep t k c
  | .afterKey t k, c => afterKeyStep t k c
  | .beforeVal t k, c => beforeValStep t k c
  | .quoted t k q v, c => quotedStep t k q v c
  | .unquoted t k v, c => unquotedStep t k v c
  | .md0, c => md0Step c
  | .md1, c => md1Step c
  | .bogus, c => bogusStep c
  | .comment d b, c => commentStep d b c
  | .commentBang, c => commentBangStep c
  | .plaintext, _ => nx .plaintext
  | .rt tag, c => rtStep tag c
  | .rtLt tag, c => rtLtStep tag c
  | .rtEnd tag rem, c => rtEndStep tag rem c
  | .sData, c => sDataStep c
  | .sLt, c => sLtStep c
  | .sEnd rem, c => sEndStep rem c
  | .sEscStart, c => sEscStartStep c
  | .sEscStartDash, c => sEscStartDashStep c
  | .sEsc, c => sEscStep c
  | .sEscDash, c => sEscDashStep c
  | .sEscDashDash, c => sEscDashDashStep c
  | .sEscLt, c => sEscLtStep c
  | .sEscEnd rem, c => sEscEndStep rem c
  | .sDES rem, c => sDESStep rem c
  | .sDE, c => sDEStep c
  | .sDEDash, c => sDEDashStep c
  | .sDEDashDash, c => sDEDashDashStep c
  | .sDELt, c => sDELtStep c
  | .sDEEnd rem, c => sDEEndStep rem c

/-- the reported start tags (lower-cased names and keys, raw values), in document order;
    whatever is pending at the end of the input is dropped -/
def run : St → Bytes → List Tag
  | _, [] => []
  | st, c :: cs =>
    match step st c with
    | (st', none) => run st' cs
    | (st', some t) => t :: run st' cs

/-- `convertNewlines`: `\r\n` and `\r` become `\n` (`afterCR`: the previous byte was `\r`) -/
def convNLAux (afterCR : Bool) : Bytes → Bytes
  | [] => []
  | c :: r =>
    if c == 0x0D then 0x0A :: convNLAux true r
    else if c == 0x0A && afterCR then convNLAux false r
    else c :: convNLAux false r

def convNL (b : Bytes) : Bytes := convNLAux false b

/-- the tokenizer would call `unescape` with something to do -/
def hasAmp (t : Tag) : Bool := t.attrs.any (fun kv => kv.2.contains 0x26)

/-- `TagAttr`: `unescape(convertNewlines(val), true)` for `&`-free values -/
def finishTag (t : Tag) : Tag := { name := t.name, attrs := t.attrs.map (fun kv => (kv.1, convNL kv.2)) }

def rawTags (content : Bytes) : List Tag := run .data content

/-- the `(TagName(), TagAttr()*)` of every start / self-closing tag token up to the first
    ErrorToken; `none` iff some reported attribute value contains `&` -/
def startTags (content : Bytes) : Option (List Tag) :=
  let ts := rawTags content
  if ts.any hasAmp then none else some (ts.map finishTag)

/-- `charset.FromHTML` on bytes -/
def fromHTMLBytes (content : Bytes) : Option Bytes := (startTags content).map (Charset.fromHTML content)

end Mime.HtmlTok
