import MimeModel.Model.Heap
/-
  The bottom-up construction of a detector tree with `newMIME` (tree.go).

  tree.go writes the built-in tree as `newMIME(mime, ext, detector, child1, child2, …)` where
  every child is itself the result of a `newMIME` call that has been evaluated before (Go
  evaluates the arguments of a call left to right before the call itself; a package-level
  variable is initialised only after the variables its initialiser mentions).  `build` is that
  construction for a value-level tree: the children first, left to right, then the node: a
  post-order allocation, the node of a sub-tree is allocated last.

  `Lemmas/HeapBuild.lean` proves that the heap so built represents the tree (`build_rep`).
-/
namespace Mime.HeapBuild
open Mime Mime.Heap

variable {α : Type}

mutual
/-- `newMIME(a, build(ts[0]), build(ts[1]), …)` on the heap `h`: the new heap and the address of
    the node -/
def build : Tree α → Heap α → Heap α × Ptr
  | .node a ts, h =>
    let r := buildList ts h
    newMIME r.1 a r.2
/-- the argument list `build(ts[0]), build(ts[1]), …`, evaluated left to right: the heap after
    all of them and the addresses they returned -/
def buildList : List (Tree α) → Heap α → Heap α × List Ptr
  | [], h => (h, [])
  | t :: ts, h =>
    let r1 := build t h
    let r2 := buildList ts r1.1
    (r2.1, r1.2 :: r2.2)
end

end Mime.HeapBuild
