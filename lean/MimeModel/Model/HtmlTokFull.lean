import MimeModel.Model.HtmlTok
import MimeModel.Model.HtmlUnescape
/-
  The tokenizer model of `HtmlTok.lean` with `Tokenizer.TagAttr` modelled in full:
  `lower(key), unescape(convertNewlines(val), true)`.  Only VALUES are unescaped: token.go calls
  `unescape` in exactly two places, `Text()` (`attribute = false`; text/comment/doctype tokens, which
  `fromHTML` never reads) and `TagAttr()` (the value); `TagName()` and the key are `lower(…)` only.

  `startTags` (an `Option`: `none` when a value contains `&`) is kept as it is; `startTagsFull` is total
  and agrees with it wherever it answers (`Lemmas/HtmlUnescape.lean`: `startTagsFull_of_startTags`).
-/
namespace Mime.HtmlTok
open Mime Mime.Charset Mime.HtmlEnt

/-- `TagAttr` on every attribute of a reported tag -/
def finishTagFull (t : Tag) : Tag :=
  { name := t.name, attrs := t.attrs.map (fun kv => (kv.1, unescape true (convNL kv.2))) }

/-- the `(TagName(), TagAttr()*)` of every start / self-closing tag token up to the first ErrorToken -/
def startTagsFull (content : Bytes) : List Tag := (rawTags content).map finishTagFull

/-- `charset.FromHTML` on bytes, total -/
def fromHTMLBytesFull (content : Bytes) : Bytes := Charset.fromHTML content (startTagsFull content)

end Mime.HtmlTok
