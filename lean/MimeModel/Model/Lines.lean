import MimeModel.Basic
/-
  Line helpers of internal/magic (text.go, text_csv.go): `dropLastLine`, `scanLine`.
-/
namespace Mime.Cust
open Mime

/-- `lastIdx c b`: the largest index holding `c` -/
def lastIdx (c : Nat) : Bytes → Option Nat
  | [] => none
  | a :: as =>
    match lastIdx c as with
    | some k => some (k + 1)
    | none => if a == c then some 0 else none

/-- text_csv.go `dropLastLine` -/
def dropLastLine (b : Bytes) (lim : Nat) : Bytes :=
  if lim == 0 || b.length < lim then b else
  match b with
  | [] => b
  | _ :: t =>
    match lastIdx 0x0A t with
    | some j => b.take (j + 1)
    | none => b

/-- `bytes.Cut(b, "\n")` -/
def cutNL : Bytes → Bytes × Bytes
  | [] => ([], [])
  | c :: cs => if c == 0x0A then ([], cs) else let (l, r) := cutNL cs; (c :: l, r)

def dropCR (l : Bytes) : Bytes := if l.getLast? == some 0x0D then l.dropLast else l

/-- text.go `scanLine` -/
def scanLine (b : Bytes) : Bytes × Bytes := let (l, r) := cutNL b; (dropCR l, r)

end Mime.Cust
