import MimeModel.Gen.Json
/-
  Hand-written executable model of internal/json/parser.go.

  Conventions: functions receive the *remaining* input and return the remaining
  input after what they consumed (`none` = Go's return value 0); Go's `p.ib`,
  `p.currPath`, `p.firstToken`, `p.querySatisfied` are threaded in `PState` and are
  updated exactly where the Go code updates them, including on failing paths.
  Byte-level scanners are structural, one list cell per step; containers recurse on
  an explicit fuel argument (`parse` supplies enough: see Lemmas/JsonFuel.lean).
-/
namespace Mime.Json
open Mime Mime.Gen.Json

def tokInvalid := 0
def tokNull := 2
def tokTrue := 4
def tokFalse := 8
def tokNumber := 16
def tokString := 32
def tokArray := 64
def tokObject := 128

structure PState where
  ib : Nat
  currPath : List Bytes
  firstToken : Nat
  querySatisfied : Bool
  /-- ghost (not in the Go struct): the largest `lvl` with which `consumeAny` was entered -/
  maxLvl : Nat := 0
  deriving Repr, DecidableEq

def PState.fresh : PState :=
  { ib := 0, currPath := [], firstToken := tokInvalid, querySatisfied := false, maxLvl := 0 }

def PState.enter (s : PState) (lvl : Nat) : PState := { s with maxLvl := max s.maxLvl lvl }

/-- `if lvl == 0 { p.firstToken = t }` -/
def PState.setFirst (s : PState) (lvl t : Nat) : PState := if lvl == 0 then { s with firstToken := t } else s
/-- `if len(qs) == 0 { p.querySatisfied = true }` -/
def PState.setQ (s : PState) (noQueries : Bool) : PState := if noQueries then { s with querySatisfied := true } else s


/-- `(*parserState).reset` -/
def PState.reset (_ : PState) : PState := PState.fresh

def PState.bump (s : PState) (k : Nat := 1) : PState := { s with ib := s.ib + k }
def PState.push (s : PState) (k : Bytes) : PState := { s with currPath := s.currPath ++ [k] }
def PState.pop (s : PState) : PState := { s with currPath := s.currPath.dropLast }

/-- `consumeSpace` -/
def consumeSpace : Bytes → PState → Bytes × PState
  | [], s => ([], s)
  | c :: cs, s => if isSpace c then consumeSpace cs s.bump else (c :: cs, s)

/-- `consumeConst(b, cnst)` -/
def consumeConst : Bytes → Bytes → PState → Option Bytes × PState
  | b, [], s => (some b, s)
  | [], _ :: _, s => (none, s)
  | x :: xs, c :: cs, s => if x == c then consumeConst xs cs s.bump else (none, s)

inductive SMode | norm | esc | hex (k : Nat)
  deriving Repr, DecidableEq

def isSimpleEsc (c : Nat) : Bool :=
  c == 0x22 || c == 0x5C || c == 0x2F || c == 0x62 || c == 0x66 || c == 0x6E || c == 0x72 || c == 0x74

/-- `consumeString`, called after the opening quote. `hex k`: k hex digits still expected (k ≥ 1). -/
def consumeString : SMode → Bytes → PState → Option Bytes × PState
  | _, [], s => (none, s)
  | .norm, c :: cs, s =>
    if c == 0x5C then consumeString .esc cs s.bump
    else if c == 0x22 then (some cs, s.bump)
    else consumeString .norm cs s.bump
  | .esc, c :: cs, s =>
    if isSimpleEsc c then consumeString .norm cs s.bump
    else if c == 0x75 then consumeString (.hex 4) cs s.bump
    else (none, s)
  | .hex k, c :: cs, s =>
    if isXDigit c then
      (if k ≤ 1 then consumeString .norm cs s.bump else consumeString (.hex (k - 1)) cs s.bump)
    else (none, s)

inductive NMode | start | int (got : Bool) | frac (got : Bool) | expSign | exp (got : Bool)
  deriving Repr, DecidableEq

def NMode.got : NMode → Bool
  | .start => false | .int g => g | .frac g => g | .expSign => false | .exp g => g

def isE (c : Nat) : Bool := c == 0x65 || c == 0x45

/-- one step of `consumeNumber`'s control flow; `none` = the scan stops in front of `c` -/
def numStep : NMode → Nat → Option NMode
  | .start, c =>
    if c == 0x2D then some (.int false)
    else if isDigit c then some (.int true)
    else if c == 0x2E then some (.frac false)
    else none
  | .int g, c =>
    if isDigit c then some (.int true)
    else if c == 0x2E then some (.frac g)
    else if g && isE c then some .expSign
    else none
  | .frac g, c =>
    if isDigit c then some (.frac true)
    else if g && isE c then some .expSign
    else none
  | .expSign, c =>
    if c == 0x2B || c == 0x2D then some (.exp false)
    else if isDigit c then some (.exp true)
    else none
  | .exp _, c => if isDigit c then some (.exp true) else none

/-- `consumeNumber` -/
def consumeNumber : NMode → Bytes → PState → Option Bytes × PState
  | m, [], s => (if m.got then some [] else none, s)
  | m, c :: cs, s =>
    match numStep m c with
    | some m' => consumeNumber m' cs s.bump
    | none => (if m.got then some (c :: cs) else none, s)

def pathEq (a b : List Bytes) : Bool := decide (a = b)

/-- `queryPathMatch` -/
def queryPathMatch : List Query → List Bytes → Option Query
  | [], _ => none
  | q :: qs, p => if pathEq q.path p then some q else queryPathMatch qs p

def trimSpaces (b : Bytes) : Bytes :=
  ((b.dropWhile isSpace).reverse.dropWhile isSpace).reverse

/-- the statements of `consumeObject` after a value of `valBytes` was consumed under a matched query -/
def applyQuery (q : Option Query) (valBytes : Bytes) (s : PState) : PState :=
  match q with
  | none => s
  | some q =>
    let s1 := if q.vals.isEmpty then { s with querySatisfied := true } else s
    if q.vals.any (fun v => decide (v = trimSpaces valBytes)) then { s1 with querySatisfied := true } else s1

/-- the bytes consumed between `b` and its suffix `rest` -/
def consumed (b rest : Bytes) : Bytes := b.take (b.length - rest.length)

/-- the `switch b[n]` of `consumeAny` -/
inductive Kind | str | arr | obj | litT | litF | litN | num
  deriving Repr, DecidableEq

def classify (c : Nat) : Kind :=
  if c == 0x22 then .str else if c == 0x5B then .arr else if c == 0x7B then .obj
  else if c == 0x74 then .litT else if c == 0x66 then .litF else if c == 0x6E then .litN else .num

def wTrue : Bytes := [0x74, 0x72, 0x75, 0x65]
def wFalse : Bytes := [0x66, 0x61, 0x6C, 0x73, 0x65]
def wNull : Bytes := [0x6E, 0x75, 0x6C, 0x6C]

def Kind.tok : Kind → Nat
  | .str => tokString | .arr => tokArray | .obj => tokObject | .litT => tokTrue | .litF => tokFalse
  | .litN => tokNull | .num => tokNumber

/-- the tail of `consumeAny` after the dispatched scanner returned: record the first token and
    the trivial query, and on success consume trailing white space -/
def finishAny (noQueries : Bool) (lvl t : Nat) (res : Option Bytes × PState) : Option Bytes × PState :=
  let s4 := (res.2.setFirst lvl t).setQ noQueries
  match res.1 with
  | none => (none, s4)
  | some r => let cr := consumeSpace r s4; (some cr.1, cr.2)

mutual
/-- `consumeAny(b, qs, lvl)`.  `none` = the value did not parse.  (Go returns 0 for a
    nested failure and, at the top level, the bytes consumed so far; `Parse` turns the
    latter into `parsed = 0` through the `complete` flag, so through `Parse` — the only way
    the detectors reach the scanner — a failed value is observed as "nothing parsed" at
    every level.) -/
def consumeAny (qs : List Query) (cap : Nat) : Nat → Nat → Bytes → PState → Option Bytes × PState
  | 0, _, _, s => (none, s)
  | fuel + 1, lvl, b, s =>
    let s := s.enter lvl
    if cap != 0 && lvl > cap then (none, s) else
    match consumeSpace b s with
    | ([], s1) => (none, s1)
    | (c :: cs, s1) =>
      finishAny qs.isEmpty lvl (classify c).tok
        (match classify c with
        | .str => consumeString .norm cs s1.bump
        | .arr =>
          -- consumeArray: push '[', fail on empty input, else loop
          if cs.isEmpty then (none, s1.bump.push [0x5B]) else arrayLoop qs cap fuel (lvl + 1) cs (s1.bump.push [0x5B])
        | .obj => objectLoop qs cap fuel (lvl + 1) cs s1.bump
        | .litT => consumeConst (c :: cs) wTrue s1
        | .litF => consumeConst (c :: cs) wFalse s1
        | .litN => consumeConst (c :: cs) wNull s1
        | .num => consumeNumber .start (c :: cs) s1)

/-- the `for n < len(b)` loop of `consumeArray` -/
def arrayLoop (qs : List Query) (cap : Nat) : Nat → Nat → Bytes → PState → Option Bytes × PState
  | 0, _, _, s => (none, s)
  | fuel + 1, lvl, b, s =>
    match consumeSpace b s with
    | ([], s1) => (none, s1)
    | (c :: cs, s1) =>
      if c == 0x5D then (some cs, s1.bump.pop) else
      match consumeAny qs cap fuel lvl (c :: cs) s1 with
      | (none, s2) => (none, s2)
      | (some [], s2) => (none, s2)
      | (some (d :: ds), s2) =>
        if d == 0x2C then arrayLoop qs cap fuel lvl ds s2.bump
        else if d == 0x5D then (some ds, s2.bump.pop)
        else (none, s2)

/-- `consumeObject(b, qs, lvl)`, `b` starting after `{` -/
def objectLoop (qs : List Query) (cap : Nat) : Nat → Nat → Bytes → PState → Option Bytes × PState
  | 0, _, _, s => (none, s)
  | fuel + 1, lvl, b, s =>
    match consumeSpace b s with
    | ([], s1) => (none, s1)
    | (c :: cs, s1) =>
      if c == 0x7D then (some cs, s1.bump) else
      if c != 0x22 then (none, s1) else
      match consumeString .norm cs s1.bump with
      | (none, s2) => (none, s2)
      | (some r, s2) =>
        let key := (consumed cs r).dropLast
        let s3 := s2.push key
        let qm := if s3.querySatisfied then none else queryPathMatch qs s3.currPath
        match consumeSpace r s3 with
        | ([], s4) => (none, s4)
        | (d :: ds, s4) =>
          if d != 0x3A then (none, s4) else
          match consumeSpace ds s4.bump with
          | ([], s5) => (none, s5)
          | (e :: es, s5) =>
            match consumeAny qs cap fuel lvl (e :: es) s5 with
            | (none, s6) => (none, s6)
            | (some r2, s6) =>
              let s7 := applyQuery qm (consumed (e :: es) r2) s6
              match r2 with
              | [] => (none, s7)
              | g :: gs =>
                if g == 0x2C then objectLoop qs cap fuel lvl gs s7.pop.bump
                else if g == 0x7D then (some gs, s7.pop.bump)
                else (none, s7)
end

def queriesOf (q : String) : List Query :=
  if q == "geo" then q_geo else if q == "har" then q_har else if q == "gltf" then q_gltf else q_json

def fuelFor (raw : Bytes) : Nat := 2 * raw.length + 4

structure ParseResult where
  parsed : Nat
  inspected : Nat
  firstToken : Nat
  querySatisfied : Bool
  deriving Repr, DecidableEq

/-- `json.Parse(queryType, raw)` run on a pooled state `s0` (reset first) -/
def parseWith (s0 : PState) (cap : Nat) (qs : List Query) (raw : Bytes) : ParseResult :=
  let (r, s) := consumeAny qs cap (fuelFor raw) 0 raw s0.reset
  { parsed := match r with | some rest => raw.length - rest.length | none => 0,
    inspected := s.ib, firstToken := s.firstToken,
    querySatisfied := s.querySatisfied }

def parse (qs : List Query) (raw : Bytes) : ParseResult :=
  parseWith PState.fresh maxRecursion qs raw

/-- `json.LooksLikeObjectOrArray` -/
def looksLikeObjectOrArray : Bytes → Bool
  | [] => false
  | c :: cs => if isSpace c then looksLikeObjectOrArray cs else c == 0x7B || c == 0x5B

/-- text.go `jsonHelper(raw, limit, q, wantTok)` with the recursion cap as a parameter -/
def jsonHelperCap (cap : Nat) (raw : Bytes) (limit : Nat) (qs : List Query) (wantTok : Nat) : Bool :=
  if !looksLikeObjectOrArray raw then false else
  let r := parseWith PState.fresh cap qs raw
  if !r.querySatisfied || (r.firstToken &&& wantTok) == 0 then false else
  if limit == 0 || raw.length < limit then r.parsed == raw.length
  else r.inspected == raw.length && raw.length > 0

/-- text.go `jsonHelper(raw, limit, q, wantTok)` -/
def jsonHelper (raw : Bytes) (limit : Nat) (qs : List Query) (wantTok : Nat) : Bool :=
  if !looksLikeObjectOrArray raw then false else
  let r := parse qs raw
  if !r.querySatisfied || (r.firstToken &&& wantTok) == 0 then false else
  if limit == 0 || raw.length < limit then r.parsed == raw.length
  else r.inspected == raw.length && raw.length > 0

end Mime.Json
