import MimeModel.Model.Prims
/-
  Signature-expression language.  The extractor (go/extract) translates the body of
  every translatable signature check of internal/magic into a `BExp`; `BExp.eval`
  is its checked semantics (`none` = Go would panic on an index/slice expression).

  Two static analyses are defined here and proved sound once, for every expression:
  * `BExp.safe e L`  — no index/slice of `e` can fail on an input of length ≥ L;
  * `BExp.pT e`      — a `true` verdict is preserved when the input is extended.
  The regenerated tables are then discharged by `decide`.
-/
namespace Mime

inductive Cmp | lt | le | eq | ne
  deriving Repr, DecidableEq

def Cmp.eval : Cmp → Nat → Nat → Bool
  | .lt, a, b => a < b
  | .le, a, b => a ≤ b
  | .eq, a, b => a == b
  | .ne, a, b => a != b

/-- integer-valued, length-free expressions over the input -/
inductive IExp
  | lit (n : Nat)
  | byte (i : Nat)                 -- raw[i]
  | u16be (o need : Nat)           -- binary.BigEndian.Uint16(raw[o:need'])   (need = highest index touched)
  | u16le (o need : Nat)
  | u32be (o need : Nat)
  | u32le (o need : Nat)
  | band (a : IExp) (m : Nat)      -- a & m
  deriving Repr, DecidableEq

def IExp.eval : IExp → Bytes → Option Nat
  | .lit n, _ => some n
  | .byte i, raw => if i < raw.length then some (raw.getD i 0) else none
  | .u16be o need, raw => if o + 2 ≤ raw.length ∧ need ≤ raw.length then some (Mime.u16be raw o) else none
  | .u16le o need, raw => if o + 2 ≤ raw.length ∧ need ≤ raw.length then some (Mime.u16le raw o) else none
  | .u32be o need, raw => if o + 4 ≤ raw.length ∧ need ≤ raw.length then some (Mime.u32be raw o) else none
  | .u32le o need, raw => if o + 4 ≤ raw.length ∧ need ≤ raw.length then some (Mime.u32le raw o) else none
  | .band a m, raw => (a.eval raw).map (fun v => v &&& m)

def IExp.safe : IExp → Nat → Bool
  | .lit _, _ => true
  | .byte i, L => i < L
  | .u16be o need, L => o + 2 ≤ L && need ≤ L
  | .u16le o need, L => o + 2 ≤ L && need ≤ L
  | .u32be o need, L => o + 4 ≤ L && need ≤ L
  | .u32le o need, L => o + 4 ≤ L && need ≤ L
  | .band a _, L => a.safe L

inductive Prim
  | oleClsid (clsid : Bytes)
  | zipContains (sig : Bytes) (mso : Bool)
  deriving Repr, DecidableEq

def Prim.eval : Prim → Bytes → Option Bool
  | .oleClsid c, raw => Mime.oleClsid raw c
  | .zipContains s m, raw => Mime.zipContains raw s m

inductive BExp
  | const (b : Bool)
  | lenGe (k : Nat)                         -- len(raw) >= k
  | cmp (op : Cmp) (a b : IExp)
  | prefixAt (off : Nat) (sig : Bytes)      -- bytes.HasPrefix(raw[off:], sig)
  | equalAt (lo hi : Nat) (sig : Bytes)     -- bytes.Equal(raw[lo:hi], sig)
  | containsUpTo (lo cap : Nat) (sig : Bytes) -- bytes.Contains(raw[lo:min(cap,len(raw))], sig)
  | containsAll (sig : Bytes)               -- bytes.Contains(raw, sig)
  | equalAll (sig : Bytes)                  -- bytes.Equal(raw, sig)
  | prim (p : Prim)
  | and (a b : BExp)
  | or (a b : BExp)
  | not (a : BExp)
  | ite (c t e : BExp)
  deriving Repr, DecidableEq

def BExp.eval : BExp → Bytes → Option Bool
  | .const b, _ => some b
  | .lenGe k, raw => some (decide (k ≤ raw.length))
  | .cmp op a b, raw =>
    match a.eval raw, b.eval raw with
    | some x, some y => some (op.eval x y)
    | _, _ => none
  | .prefixAt off sig, raw => if off ≤ raw.length then some (hasPrefix (raw.drop off) sig) else none
  | .equalAt lo hi sig, raw =>
    if lo ≤ hi ∧ hi ≤ raw.length then some (decide (slice raw lo hi = sig)) else none
  | .containsUpTo lo cap sig, raw =>
    if lo ≤ min cap raw.length then some (containsSub (slice raw lo (min cap raw.length)) sig) else none
  | .containsAll sig, raw => some (containsSub raw sig)
  | .equalAll sig, raw => some (decide (raw = sig))
  | .prim p, raw => p.eval raw
  | .and a b, raw =>
    match a.eval raw with
    | none => none
    | some false => some false
    | some true => b.eval raw
  | .or a b, raw =>
    match a.eval raw with
    | none => none
    | some true => some true
    | some false => b.eval raw
  | .not a, raw => (a.eval raw).map (!·)
  | .ite c t e, raw =>
    match c.eval raw with
    | none => none
    | some true => t.eval raw
    | some false => e.eval raw

mutual
/-- lower bound on `len(raw)` known when `e` evaluated to true -/
def BExp.lbT : BExp → Nat → Nat
  | .lenGe k, L => max L k
  | .and a b, L => b.lbT (a.lbT L)
  | .not a, L => a.lbF L
  | _, L => L
/-- lower bound on `len(raw)` known when `e` evaluated to false -/
def BExp.lbF : BExp → Nat → Nat
  | .or a b, L => b.lbF (a.lbF L)
  | .not a, L => a.lbT L
  | _, L => L
end

/-- static bounds check: with `len(raw) ≥ L` no index/slice expression of `e` can fail -/
def BExp.safe : BExp → Nat → Bool
  | .const _, _ => true
  | .lenGe _, _ => true
  | .cmp _ a b, L => a.safe L && b.safe L
  | .prefixAt off _, L => off ≤ L
  | .equalAt lo hi _, L => lo ≤ hi && hi ≤ L
  | .containsUpTo lo cap _, L => lo ≤ cap && lo ≤ L
  | .containsAll _, _ => true
  | .equalAll _, _ => true
  | .prim _, _ => true
  | .and a b, L => a.safe L && b.safe (a.lbT L)
  | .or a b, L => a.safe L && b.safe (a.lbF L)
  | .not a, L => a.safe L
  | .ite c t e, L => c.safe L && t.safe (c.lbT L) && e.safe (c.lbF L)

mutual
/-- `true` verdicts survive extension of the input -/
def BExp.pT : BExp → Bool
  | .const _ => true
  | .lenGe _ => true
  | .cmp _ _ _ => true
  | .prefixAt _ _ => true
  | .equalAt _ _ _ => true
  | .containsUpTo _ _ _ => true
  | .containsAll _ => true
  | .equalAll _ => false
  | .prim _ => false
  | .and a b => a.pT && b.pT
  | .or a b => a.pT && b.pT
  | .not a => a.pF
  | .ite c t e => c.pT && c.pF && t.pT && e.pT
/-- `false` verdicts survive extension of the input -/
def BExp.pF : BExp → Bool
  | .const _ => true
  | .lenGe _ => false
  | .cmp _ _ _ => true
  | .prefixAt _ _ => false
  | .equalAt _ _ _ => true
  | .containsUpTo _ _ _ => false
  | .containsAll _ => false
  | .equalAll _ => false
  | .prim _ => false
  | .and a b => a.pF && b.pF
  | .or a b => a.pF && b.pF
  | .not a => a.pT
  | .ite c t e => c.pT && c.pF && t.pF && e.pF
end

end Mime
