import MimeModel.Model.Json
import MimeModel.Model.Charset
import MimeModel.Gen.Sigs
import MimeModel.Model.Lines
import MimeModel.Model.Csv
import MimeModel.Model.Srt
/-
  Hand-written models of the signature checks the extractor cannot translate
  (`Det.custom`): Text, Php, JSON/GeoJSON/HAR/GLTF, NdJSON, Tar, CRX, WebM, Mkv, and
  the helpers `dropLastLine`, `scanLine`, `tarParseOctal`, `tarChksum`.
  (the line helpers are in Model/Lines.lean).  Csv and Tsv run the model of `encoding/csv` of
  Model/Csv.lean.  Srt runs the model of `time.Parse("15:04:05,000", ·)` of Model/Srt.lean.  No signature check
  of the current tree is left unmodelled (`.unknown` would be a check the extractor does not know).
-/
namespace Mime.Cust
open Mime Mime.Json Mime.Charset

/-- WHATWG binary data byte -/
def binaryByte (b : Nat) : Bool :=
  b ≤ 0x08 || b == 0x0B || (0x0E ≤ b && b ≤ 0x1A) || (0x1C ≤ b && b ≤ 0x1F)

/-- text.go `Text` -/
def text (raw : Bytes) : Bool :=
  if fromBOM raw != csNone then true else !(raw.any binaryByte)

/-- the loop of `NdJSON`; returns `none` when a line is rejected, else (lines, objOrArr) -/
def ndjsonLoop : Nat → Bytes → Nat → Nat → Option (Nat × Nat)
  | 0, _, lc, oa => some (lc, oa)
  | fuel + 1, raw, lc, oa =>
    if raw.isEmpty then some (lc, oa) else
    let (l, rest) := scanLine raw
    let r := Json.parse Gen.Json.q_json l
    let blank := r.firstToken == tokInvalid && l.length == r.inspected
    if l.length != r.parsed && !blank then none else
    let oa' := if r.firstToken == tokArray || r.firstToken == tokObject then oa + 1 else oa
    ndjsonLoop fuel rest (lc + 1) oa'

/-- text.go `NdJSON` -/
def ndjson (raw : Bytes) (lim : Nat) : Bool :=
  let raw := dropLastLine raw lim
  match ndjsonLoop (raw.length + 1) raw 0 0 with
  | none => false
  | some (lc, oa) => lc > 1 && oa > 0

def trimTar (b : Bytes) : Bytes :=
  let p := fun c => c == 0x20 || c == 0
  ((b.dropWhile p).reverse.dropWhile p).reverse

def octalLoop : Bytes → Nat → Option Nat
  | [], acc => some acc
  | c :: cs, acc =>
    if c == 0 then some acc
    else if c < 0x30 || c > 0x37 then none
    else octalLoop cs (acc * 8 + (c - 0x30))

/-- archive.go `tarParseOctal` (`none` = -1) -/
def tarParseOctal (b : Bytes) : Option Nat :=
  let t := trimTar b
  if t.isEmpty then none else octalLoop t 0

/-- byte `c` at index `i` as `tarChksum` sees it -/
def tarByte (i c : Nat) : Nat := if 148 ≤ i && i < 156 then 0x20 else c

def tarSumU : Nat → Bytes → Nat
  | _, [] => 0
  | i, c :: cs => tarByte i c + tarSumU (i + 1) cs

def int8 (c : Nat) : Int := if c < 128 then (c : Int) else (c : Int) - 256

def tarSumS : Nat → Bytes → Int
  | _, [] => 0
  | i, c :: cs => int8 (tarByte i c) + tarSumS (i + 1) cs

def gpkgMarker : Bytes := [0x2F, 0x67, 0x70, 0x6B, 0x67, 0x2D, 0x31, 0x00]   -- "/gpkg-1\x00"

/-- archive.go `Tar` -/
def tar (raw : Bytes) : Bool :=
  if raw.length < 512 then false else
  let blk := raw.take 512
  if containsSub (blk.take 100) gpkgMarker then false else
  match tarParseOctal (slice blk 148 156) with
  | none => false
  | some rec => rec == tarSumU 0 blk || (rec : Int) == tarSumS 0 blk

def evalExpr (d : Det) (raw : Bytes) : Option Bool :=
  match d with
  | .expr e => e.eval raw
  | _ => none

/-- archive.go `CRX` (`none` = a slice expression would panic) -/
def crx (raw : Bytes) : Option Bool :=
  if raw.length < 16 || !hasPrefix raw [0x43, 0x72, 0x32, 0x34] then some false else
  match getU32le raw 8, getU32le raw 12 with
  | some a, some b =>
    let off := (16 + a + b) % 4294967296
    if raw.length % 4294967296 < off then some false
    else if off ≤ raw.length then evalExpr Gen.d_Zip (raw.drop off) else none
  | _, _ => none

/-- video.go `vintWidth` on a byte -/
def vintWidth (v : Nat) : Nat :=
  if v ≥ 128 then 1 else if v ≥ 64 then 2 else if v ≥ 32 then 3 else if v ≥ 16 then 4
  else if v ≥ 8 then 5 else if v ≥ 4 then 6 else if v ≥ 2 then 7 else 8

/-- video.go `isMatroskaFileTypeMatched` -/
def matroska (raw flType : Bytes) : Option Bool :=
  if !hasPrefix raw [0x1A, 0x45, 0xDF, 0xA3] then some false else
  match indexOf [0x42, 0x82] (raw.take 4096) with
  | none => some false
  | some ind =>
    if ind > 0 && raw.length > ind + 2 then
      match getB raw (ind + 2) with
      | none => none
      | some v =>
        let n := vintWidth v
        if raw.length > ind + 2 + n then
          (if ind + 2 + n ≤ raw.length then some (hasPrefix (raw.drop (ind + 2 + n)) flType) else none)
        else some false
    else some false

def kWebm : Bytes := [119, 101, 98, 109]
def kMatroska : Bytes := [109, 97, 116, 114, 111, 115, 107, 97]

def noCustom : Custom → Bytes → Nat → Option Bool := fun _ _ _ => some false

/-- the hand models, by kind; `none` at the outer level = not modelled (external code) -/
def customModel : Custom → Option (Bytes → Nat → Option Bool)
  | .text => some (fun raw _ => some (text raw))
  | .php => some (fun raw lim =>
      match Gen.d_phpPageF.evalWith noCustom raw lim with
      | none => none
      | some true => some true
      | some false => Gen.d_phpScriptF.evalWith noCustom raw lim)
  | .json => some (fun raw lim => some (jsonHelper raw lim Gen.Json.q_json (tokObject ||| tokArray)))
  | .geojson => some (fun raw lim => some (jsonHelper raw lim Gen.Json.q_geo tokObject))
  | .har => some (fun raw lim => some (jsonHelper raw lim Gen.Json.q_har tokObject))
  | .gltf => some (fun raw lim => some (jsonHelper raw lim Gen.Json.q_gltf tokObject))
  | .ndjson => some (fun raw lim => some (ndjson raw lim))
  | .tar => some (fun raw _ => some (tar raw))
  | .crx => some (fun raw _ => crx raw)
  | .webm => some (fun raw _ => matroska raw kWebm)
  | .mkv => some (fun raw _ => matroska raw kMatroska)
  | .csv => some (fun raw lim => some (Csv.sv raw lim 0x2C))
  | .tsv => some (fun raw lim => some (Csv.sv raw lim 0x09))
  | .srt => some (fun raw _ => some (Srt.srt raw))
  | .unknown => none

/-- total evaluation used by theorems: unmodelled kinds are a parameter `ext` -/
def custEval (ext : Custom → Bytes → Nat → Bool) : Custom → Bytes → Nat → Option Bool :=
  fun c raw lim =>
    match customModel c with
    | some f => f raw lim
    | none => some (ext c raw lim)

/-- verdict of a detector descriptor; `none` = panic -/
def detEval (ext : Custom → Bytes → Nat → Bool) (d : Det) (raw : Bytes) (lim : Nat) : Option Bool :=
  d.evalWith (custEval ext) raw lim

end Mime.Cust
