import MimeModel.Model.Lines
/-
  Model of `encoding/csv` (Go 1.23, `reader.go`) in the one configuration used by
  `internal/magic/text_csv.go`:

      r.Comma = comma (`,` or TAB), r.Comment = '#', r.LazyQuotes = true,
      r.ReuseRecord = true, r.TrimLeadingSpace = false, r.FieldsPerRecord = 0 (initially)

  Only the NUMBER of fields of every record matters to `sv`, so fields are counted, not built.

  The reader is modelled in two phases.

  1. `norm` — what `readLine` does to the byte stream, line by line: a CR immediately
     before an LF is removed (`\r\n` → `\n`, once per line: `\r\r\n` keeps one CR), and a CR
     that is the very last byte of the input is removed ("drop trailing \r before EOF").
     `bufio.ErrBufferFull` only makes `readLine` concatenate pieces: no effect.

  2. `run` — `readRecord` as a one-byte-per-step machine over the normalised stream.
     Line boundaries need no separate bookkeeping: an LF always is the last byte of a
     line, `len(line) == 0` means end of input, and inside a quoted field the reader just
     appends the next line, so LF is an ordinary byte there.

  With LazyQuotes no `ErrQuote`/`ErrBareQuote` can arise, the source is a `bytes.Reader`
  (no I/O error), so the only errors `Read` can return are `io.EOF`, `ErrFieldCount`
  (modelled by `loop`) and `errInvalidDelim` (modelled by `validComma`).
-/
namespace Mime.Csv
open Mime

/-- `readLine`'s normalisation applied to the whole stream: CR before LF dropped, CR as the
    last byte of the input dropped -/
def norm : Bytes → Bytes
  | [] => []
  | c :: cs =>
    if c == 0x0D then
      match cs with
      | [] => []
      | d :: _ => if d == 0x0A then norm cs else c :: norm cs
    else c :: norm cs

/-- where `readRecord` stands; `k` = number of fields of the current record already closed -/
inductive Mode where
  | lineStart               -- between records, at the start of a line
  | comment                 -- inside a `#` line that is being skipped
  | fieldStart (k : Nat)    -- inside a record, at the first byte of a field
  | unq (k : Nat)           -- inside a non-quoted field
  | quoted (k : Nat)        -- inside a quoted field
  | afterQ (k : Nat)        -- inside a quoted field, just after a `"`
  deriving DecidableEq, Repr

/-- effect of one byte -/
inductive Act where
  | go (m : Mode)           -- continue in mode `m`
  | emit (k : Nat)          -- the record is complete with `k` fields; next byte starts a line
  deriving DecidableEq, Repr

/-- non-quoted field: `bytes.IndexRune(line, Comma)`, else the field runs to the end of line -/
def stepUnq (comma k c : Nat) : Act :=
  if c == comma then .go (.fieldStart (k + 1))
  else if c == 0x0A then .emit (k + 1)
  else .go (.unq k)

/-- `if len(line) == 0 || line[0] != '"'` -/
def stepField (comma k c : Nat) : Act :=
  if c == 0x22 then .go (.quoted k) else stepUnq comma k c

def step (comma : Nat) : Mode → Nat → Act
  | .lineStart, c =>
    if c == 0x23 then .go .comment            -- `nextRune(line) == r.Comment`
    else if c == 0x0A then .go .lineStart     -- `len(line) == lengthNL(line)`: empty line
    else stepField comma 0 c
  | .comment, c => if c == 0x0A then .go .lineStart else .go .comment
  | .fieldStart k, c => stepField comma k c
  | .unq k, c => stepUnq comma k c
  | .quoted k, c => if c == 0x22 then .go (.afterQ k) else .go (.quoted k)
  | .afterQ k, c =>
    if c == 0x22 then .go (.quoted k)                    -- `""`
    else if c == comma then .go (.fieldStart (k + 1))    -- `",`
    else if c == 0x0A then .emit (k + 1)                 -- `"\n`
    else .go (.quoted k)                                 -- lazy: bare quote, field goes on

/-- end of input -/
def atEnd : Mode → List Nat
  | .lineStart => []
  | .comment => []
  | .fieldStart k => [k + 1]     -- `a,` : a last, empty field
  | .unq k => [k + 1]
  | .quoted k => [k + 1]         -- unterminated quoted field: accepted (LazyQuotes)
  | .afterQ k => [k + 1]

/-- field counts of the records read from an already normalised stream -/
def run (comma : Nat) : Mode → Bytes → List Nat
  | m, [] => atEnd m
  | m, c :: cs =>
    match step comma m c with
    | .go m' => run comma m' cs
    | .emit k => k :: run comma .lineStart cs

/-- the field count of every record `csv.Reader.Read` returns, in order, until `io.EOF`
    (for a valid delimiter, see `validComma`) -/
def records (comma : Nat) (b : Bytes) : List Nat := run comma .lineStart (norm b)

/-- `validDelim(Comma)`, `Comma != Comment`, and the delimiter is one ASCII byte (the model is
    byte-wise; mimetype only uses `,` and TAB) -/
def validComma (comma : Nat) : Bool :=
  comma != 0 && comma != 0x22 && comma != 0x0D && comma != 0x0A && comma != 0x23 && comma < 0x80

/-- the `for { r.Read() }` loop of `sv` over the records: `fpr` is `r.FieldsPerRecord`,
    `lines` the counter; `none` = `ErrFieldCount` (the function returns false) -/
def loop : Nat → Nat → List Nat → Option (Nat × Nat)
  | fpr, lines, [] => some (fpr, lines)
  | fpr, lines, k :: ks =>
    if fpr == 0 then loop k (lines + 1) ks
    else if k == fpr then loop fpr (lines + 1) ks
    else none

/-- `sv` after `dropLastLine` -/
def svOn (comma : Nat) (b : Bytes) : Bool :=
  if validComma comma then
    match loop 0 0 (records comma b) with
    | none => false
    | some (fpr, lines) => decide (fpr > 1) && decide (lines > 1)
  else false      -- `errInvalidDelim` from the first `Read`

/-- text_csv.go `sv` -/
def sv (raw : Bytes) (lim : Nat) (comma : Nat) : Bool := svOn comma (Mime.Cust.dropLastLine raw lim)

/-- text_csv.go `Csv` -/
def csv (raw : Bytes) (lim : Nat) : Bool := sv raw lim 0x2C

/-- text_csv.go `Tsv` -/
def tsv (raw : Bytes) (lim : Nat) : Bool := sv raw lim 0x09

end Mime.Csv
