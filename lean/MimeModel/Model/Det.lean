import MimeModel.Model.Sig
/-
  Detector descriptors.  `Gen/Sigs.lean` (regenerated from internal/magic/*.go on every
  run) defines one `Det` per exported signature check.  Combinator kinds carry their
  extracted tables; `custom` kinds are the hand-modelled functions (Model/Custom.lean).
-/
namespace Mime

inductive Custom
  | text | php | json | geojson | har | gltf | ndjson | srt | csv | tsv | tar | crx | webm | mkv
  | unknown
  deriving Repr, DecidableEq

inductive Det
  | expr (e : BExp)
  | ciPrefix (sigs : List Bytes)
  | markup (sigs : List Bytes)
  | xml (sigs : List (Bytes × Bytes))     -- (localName incl. '<', xmlns)
  | shebang (sigs : List Bytes)
  | custom (c : Custom)
  deriving Repr, DecidableEq

/-- the case-insensitive comparison loop of `ciCheck` / `markupCheck`;
    `none` = `raw[i]` out of range -/
def ciMatch : Bytes → Bytes → Option Bool
  | [], _ => some true
  | _ :: _, [] => none
  | b :: bs, d :: ds =>
    let db := if 0x41 ≤ b ∧ b ≤ 0x5A then d &&& 0xDF else d
    if b != db then some false else ciMatch bs ds

/-- magic.go `ciCheck(sig, raw)` -/
def ciCheck (sig raw : Bytes) : Option Bool :=
  if raw.length < sig.length + 1 then some false else ciMatch sig raw

/-- magic.go `markupCheck(sig, raw)` -/
def markupCheck (sig raw : Bytes) : Option Bool :=
  if raw.length < sig.length + 1 then some false else
  match ciMatch sig raw with
  | none => none
  | some false => some false
  | some true =>
    match getB raw sig.length with
    | none => none
    | some db => some (!(db != 0x20 && db != 0x3E))

def utf8BOM : Bytes := [0xEF, 0xBB, 0xBF]

/-- first `some true`, propagating `none` (panic) as Go would at that iteration -/
def anyG {α} (f : α → Option Bool) : List α → Option Bool
  | [] => some false
  | a :: as =>
    match f a with
    | none => none
    | some true => some true
    | some false => anyG f as

def gt0 : Option Nat → Bool
  | some k => 0 < k
  | none => false

/-- magic.go `xmlCheck(sig, raw)` -/
def xmlCheck (sig : Bytes × Bytes) (raw : Bytes) : Bool :=
  let raw := raw.take 512
  if sig.1.isEmpty then gt0 (indexOf sig.2 raw)
  else if sig.2.isEmpty then gt0 (indexOf sig.1 raw)
  else match indexOf sig.1 raw with
    | none => false
    | some li => match indexOf sig.2 raw with
      | none => false
      | some xi => li < xi

/-- magic.go `firstLine` -/
def firstLine : Bytes → Bytes
  | [] => []
  | a :: as => if a == 0x0A then [] else a :: firstLine as

def dropTrailWS (b : Bytes) : Bytes := (b.reverse.dropWhile isWS).reverse

/-- magic.go `trimRWS`: the loop stops at index 0, so the first byte is never trimmed -/
def trimRWS : Bytes → Bytes
  | [] => []
  | a :: as => a :: dropTrailWS as

/-- magic.go `shebangCheck(sig, raw)` (raw is already the first line) -/
def shebangCheck (sig raw : Bytes) : Option Bool :=
  if raw.length < sig.length + 2 then some false else
  match getB raw 0, getB raw 1 with
  | some c0, some c1 =>
    if c0 != 0x23 || c1 != 0x21 then some false
    else some (decide (trimLWS (trimRWS (raw.drop 2)) = sig))
  | _, _ => none

/-- combinator kinds; custom kinds are supplied by the caller -/
def Det.evalWith (cust : Custom → Bytes → Nat → Option Bool) : Det → Bytes → Nat → Option Bool
  | .expr e, raw, _ => e.eval raw
  | .ciPrefix sigs, raw, _ => anyG (fun s => ciCheck s raw) sigs
  | .markup sigs, raw, _ =>
    let r := if hasPrefix raw utf8BOM then trimLWS (raw.drop 3) else trimLWS raw
    if r.isEmpty then some false else anyG (fun s => markupCheck s r) sigs
  | .xml sigs, raw, _ =>
    let r := trimLWS raw
    if r.isEmpty then some false else some (sigs.any (fun s => xmlCheck s r))
  | .shebang sigs, raw, _ => anyG (fun s => shebangCheck s (firstLine raw)) sigs
  | .custom c, raw, lim => cust c raw lim

end Mime
