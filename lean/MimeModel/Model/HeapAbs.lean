import MimeModel.Model.Heap
/-
  An executable abstraction function for the pointer-level model (`Model/Heap.lean`).

  `abs h root` walks the heap from `root` through the `children` fields, checks on the way what
  the representation invariant `Rep h root none t` demands (every address is allocated, every
  `parent` field is the node one came from, no address is met twice) and returns the inductive
  tree the heap represents.  `Lemmas/HeapAbs.lean` proves `abs h root = some t ↔ Rep h root none t`,
  so the invariant `WF h root` is decidable.

  Only `DecidableEq (Option Ptr)` and membership in a `List Ptr` are used; nothing is asked of
  the payload type.  Everything is structurally recursive (fuel, and the list of children), so
  `decide` and the kernel evaluate it.
-/
namespace Mime.HeapAbs
open Mime Mime.Heap

variable {α : Type}

/-- the loop over the children: `rec c seen` is the abstraction of the sub-heap at `c` given the
    addresses `seen` met so far (it returns the tree and the footprint of that sub-heap).
    Returns the forest and its footprint (the footprints of the children, in order). -/
def absList (rec : Ptr → List Ptr → Option (Tree α × List Ptr)) :
    List Ptr → List Ptr → Option (List (Tree α) × List Ptr)
  | [], _ => some ([], [])
  | c :: cs, seen =>
    match rec c seen with
    | none => none
    | some (t, fp1) =>
      match absList rec cs (fp1 ++ seen) with
      | none => none
      | some (ts, fp2) => some (t :: ts, fp1 ++ fp2)

/-- the abstraction of the sub-heap at `p`: `par` is what the node's `parent` field must be,
    `seen` are the addresses met so far (none of them may be met again).  Returns the tree and
    the pre-order footprint of the sub-heap.  `none`: a dangling pointer, a wrong parent pointer,
    an address met twice (a shared node or a cycle), or out of fuel (one unit per level). -/
def absF (h : Heap α) : Nat → Ptr → Option Ptr → List Ptr → Option (Tree α × List Ptr)
  | 0, _, _, _ => none
  | fuel + 1, p, par, seen =>
    match h[p]? with
    | none => none
    | some n =>
      if n.parent = par then
        if seen.contains p then none
        else
          match absList (fun c s => absF h fuel c (some p) s) n.children (p :: seen) with
          | none => none
          | some (ts, fps) => some (.node n.info ts, p :: fps)
      else none

/-- the list companion: the forest at the addresses `cps`, every root with parent pointer `par` -/
def absListF (h : Heap α) (fuel : Nat) (par : Option Ptr) (cps : List Ptr) (seen : List Ptr) :
    Option (List (Tree α) × List Ptr) :=
  absList (fun c s => absF h fuel c par s) cps seen

/-- the walk from `root` (which must have no parent) with fuel `h.length + 1`: the tree and its
    footprint -/
def absFp (h : Heap α) (root : Ptr) : Option (Tree α × List Ptr) :=
  absF h (h.length + 1) root none []

/-- **the abstraction function**: the tree the heap represents at `root`, if it represents one -/
def abs (h : Heap α) (root : Ptr) : Option (Tree α) :=
  (absF h (h.length + 1) root none []).map (·.1)

/-- the executable form of the invariant `WF h root` -/
def wfb (h : Heap α) (root : Ptr) : Bool := (abs h root).isSome

/-! ### equality of trees is decidable when equality of payloads is

  (`Model/Tree.lean` derives only `Repr`; the deriving handler for `DecidableEq` does not take
  the nested inductive.)  Used to compare the abstraction with an expected tree. -/

mutual
def treeDecEq [DecidableEq α] : (s t : Tree α) → Decidable (s = t)
  | .node a as, .node b bs =>
    if hab : a = b then
      match treeListDecEq as bs with
      | isTrue h => isTrue (by rw [hab, h])
      | isFalse h => isFalse (fun e => h (Tree.node.inj e).2)
    else isFalse (fun e => hab (Tree.node.inj e).1)
def treeListDecEq [DecidableEq α] : (ss ts : List (Tree α)) → Decidable (ss = ts)
  | [], [] => isTrue rfl
  | [], _ :: _ => isFalse (fun e => by cases e)
  | _ :: _, [] => isFalse (fun e => by cases e)
  | s :: ss, t :: ts =>
    match treeDecEq s t with
    | isFalse h => isFalse (fun e => h (List.cons.inj e).1)
    | isTrue h1 =>
      match treeListDecEq ss ts with
      | isTrue h2 => isTrue (by rw [h1, h2])
      | isFalse h => isFalse (fun e => h (List.cons.inj e).2)
end

instance instDecidableEqTree [DecidableEq α] : DecidableEq (Tree α) := treeDecEq

end Mime.HeapAbs
