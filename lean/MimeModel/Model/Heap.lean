import MimeModel.Model.Tree
/-
  A pointer-level model of the detector tree of mime.go.

  `Model/Tree.lean` models the tree as an inductive value.  The Go code works with pointers:
  every `*MIME` has a `parent *MIME` and a `children []*MIME`.  Here a heap is a list of nodes,
  an address is an index into it, allocation appends at the end, a load of an unallocated
  address fails.  The Go functions `newMIME`, `Extend`, `match`, `clone`, `cloneHierarchy`,
  `lookup`, `Parent` are transcribed statement by statement; loops run on explicit fuel.

  Result conventions
  * `Res β` (three-valued) for `matchH` / `cloneHierarchy`: `ok b`, `fault` (a nil / dangling
    pointer was dereferenced: a Go panic), `oof` (the fuel ran out: the Go loop would still be
    running).  The three are distinct constructors.
  * `Option` for `extend`, `clone` (no loop: `none` = fault), and for `parentChain` /
    `lookupH` (`none` = fault or out of fuel, never confused with a successful result; for
    `lookupH` the inner `Option` is Go's `nil` answer "not found").
  * stores go through `List.set` (`setParent`): a store to an unallocated address leaves the
    heap as it is (every store the Go code makes is to an address it has just loaded or
    allocated; `newMIME` is total for this reason, as its Go signature is).
-/
namespace Mime.Heap
open Mime

abbrev Ptr := Nat

/-- the fields of `MIME` that matter for the tree structure; `info` stands for
    `mime, aliases, extension, detector` -/
structure Node (α : Type) where
  info : α
  parent : Option Ptr
  children : List Ptr
  deriving DecidableEq, Repr

abbrev Heap (α : Type) := List (Node α)

/-- result of a fuelled Go function -/
inductive Res (β : Type) where
  | ok (b : β)
  | fault
  | oof
  deriving DecidableEq, Repr

variable {α : Type}

/-- `c.parent = p` -/
def setParent (h : Heap α) (c : Ptr) (p : Option Ptr) : Heap α :=
  match h[c]? with
  | none => h
  | some n => h.set c { n with parent := p }

/-- `for _, c := range children { c.parent = m }` -/
def setParents (h : Heap α) (p : Option Ptr) : List Ptr → Heap α
  | [] => h
  | c :: cs => setParents (setParent h c p) p cs

/-- mime.go `newMIME(mime, extension, detector, children...)`:
    `m := &MIME{…, children: children}` (parent: nil), then the loop over `children`,
    `return m` -/
def newMIME (h : Heap α) (a : α) (children : List Ptr) : Heap α × Ptr :=
  let m := h.length
  let h1 := h ++ [{ info := a, parent := none, children := children }]
  (setParents h1 (some m) children, m)

/-- mime.go `(*MIME).Extend`: `c := &MIME{…, parent: m}`;
    `m.children = append([]*MIME{c}, m.children...)`.
    `m` is a pointer the caller holds, so it is loaded from the heap before the allocation
    (it cannot be the node being allocated). -/
def extend (h : Heap α) (m : Ptr) (a : α) : Option (Heap α × Ptr) :=
  match h[m]? with
  | none => none
  | some n =>
    let c := h.length
    let h1 := h ++ [{ info := a, parent := some m, children := [] }]
    some (h1.set m { n with children := c :: n.children }, c)

/-- mime.go `(*MIME).clone(ps)`: a new node with `m`'s payload (altered by `f`: the optional
    parameters), no parent, no children (and no detector: part of the payload) -/
def clone (h : Heap α) (m : Ptr) (f : α → α) : Option (Heap α × Ptr) :=
  match h[m]? with
  | none => none
  | some n => some (h ++ [{ info := f n.info, parent := none, children := [] }], h.length)

/-- the loop of `cloneHierarchy`: `for p := …; p != nil; p = p.Parent()`.  `o` is the loop
    variable `p`, `last` is `lastChild`.  One unit of fuel per iteration; the final test
    `p != nil` needs none. -/
def cloneLoop (h : Heap α) : Option Ptr → Ptr → Nat → Res (Heap α)
  | none, _, _ => .ok h
  | some _, _, 0 => .oof
  | some p, last, fuel + 1 =>
    match clone h p id with                       -- pClone := p.clone(nil)
    | none => .fault
    | some (h1, pc) =>
      let h2 := setParent h1 last (some pc)       -- lastChild.parent = pClone
      match h2[p]? with                           -- p = p.Parent()
      | none => .fault
      | some n => cloneLoop h2 n.parent pc fuel   -- lastChild = pClone

/-- mime.go `(*MIME).cloneHierarchy(ps)`: `ret := m.clone(ps)`; `lastChild := ret`;
    the loop starting at `m.Parent()`; `return ret` -/
def cloneHierarchy (h : Heap α) (m : Ptr) (leafF : α → α) (fuel : Nat) : Res (Heap α × Ptr) :=
  match clone h m leafF with
  | none => .fault
  | some (h1, ret) =>
    match h1[m]? with                              -- m.Parent()
    | none => .fault
    | some n =>
      match cloneLoop h1 n.parent ret fuel with
      | .ok h2 => .ok (h2, ret)
      | .fault => .fault
      | .oof => .oof

/-- the loop of `match`: `for _, c := range m.children { if c.detector(in, l) { … } }`:
    the first child whose detector accepts (`some none`: the loop ran to its end) -/
def firstAcc (acc : α → Bool) (h : Heap α) : List Ptr → Option (Option Ptr)
  | [] => some none
  | c :: cs =>
    match h[c]? with
    | none => none
    | some n => if acc n.info then some (some c) else firstAcc acc h cs

/-- mime.go `(*MIME).match`: one unit of `fuel` per call of `match`; `chFuel` is the fuel of
    the `cloneHierarchy` at the leaf.  `leafF` stands for the `needsCharset` step. -/
def matchGo (acc : α → Bool) (leafF : α → α) (h : Heap α) (chFuel : Nat) : Ptr → Nat → Res (Heap α × Ptr)
  | _, 0 => .oof
  | m, fuel + 1 =>
    match h[m]? with
    | none => .fault
    | some n =>
      match firstAcc acc h n.children with
      | none => .fault
      | some (some c) => matchGo acc leafF h chFuel c fuel      -- return c.match(in, readLimit)
      | some none => cloneHierarchy h m leafF chFuel            -- return m.cloneHierarchy(ps)

/-- `m.match(in, readLimit)`: `fuel` bounds both the depth of the descent and the length of
    the parent chain followed by `cloneHierarchy` -/
def matchH (acc : α → Bool) (leafF : α → α) (h : Heap α) (m : Ptr) (fuel : Nat) : Res (Heap α × Ptr) :=
  matchGo acc leafF h fuel m fuel

/-- what a caller sees walking `Parent()` from `p` until nil: the payloads, `p`'s first.
    One unit of fuel per node visited. -/
def parentChain (h : Heap α) : Ptr → Nat → Option (List α)
  | _, 0 => none
  | p, fuel + 1 =>
    match h[p]? with
    | none => none
    | some n =>
      match n.parent with
      | none => some [n.info]
      | some q => (parentChain h q fuel).map (n.info :: ·)

/-- the loop of `lookup`: `for _, c := range m.children { if m := c.lookup(mime); m != nil { return m } }; return nil` -/
def lookupLoop (rec : Ptr → Option (Option Ptr)) : List Ptr → Option (Option Ptr)
  | [] => some none
  | c :: cs =>
    match rec c with
    | none => none
    | some (some r) => some (some r)
    | some none => lookupLoop rec cs

/-- mime.go `(*MIME).lookup`: `p` is "`m.mime == mime` or one of the aliases is".
    One unit of fuel per call. -/
def lookupH (p : α → Bool) (h : Heap α) : Ptr → Nat → Option (Option Ptr)
  | _, 0 => none
  | m, fuel + 1 =>
    match h[m]? with
    | none => none
    | some n => if p n.info then some (some m) else lookupLoop (fun c => lookupH p h c fuel) n.children

/-- the node reached from `p` by a child-index path (how a caller names a tree node) -/
def nodeAt (h : Heap α) : Ptr → List Nat → Option Ptr
  | p, [] => if p < h.length then some p else none
  | p, i :: is =>
    match h[p]? with
    | none => none
    | some n =>
      match n.children[i]? with
      | none => none
      | some c => nodeAt h c is

/-! ### the representation invariant -/

mutual
/-- `RepF h p parent t fp`: the sub-heap at `p` represents the tree `t`, its root has parent
    pointer `parent`, and `fp` lists the addresses it occupies (pre-order, like `flatten`).
    Every child's `parent` is the node itself; the footprints of the root and of the
    children's sub-heaps are pairwise disjoint (no node is reachable twice, no cycle). -/
def RepF (h : Heap α) : Ptr → Option Ptr → Tree α → List Ptr → Prop
  | p, par, .node a ts, fp =>
    ∃ cps fps, h[p]? = some ⟨a, par, cps⟩ ∧ RepListF h (some p) cps ts fps ∧ p ∉ fps ∧ fp = p :: fps
/-- the forest at the addresses `cps`, every root with parent pointer `par` -/
def RepListF (h : Heap α) : Option Ptr → List Ptr → List (Tree α) → List Ptr → Prop
  | _, cps, [], fp => cps = [] ∧ fp = []
  | par, cps, t :: ts, fp =>
    ∃ c cs fp1 fp2, cps = c :: cs ∧ RepF h c par t fp1 ∧ RepListF h par cs ts fp2 ∧
      (∀ x ∈ fp1, x ∉ fp2) ∧ fp = fp1 ++ fp2
end

/-- the sub-heap at `p` represents `t` and its root has parent pointer `parent` -/
def Rep (h : Heap α) (p : Ptr) (parent : Option Ptr) (t : Tree α) : Prop := ∃ fp, RepF h p parent t fp

/-- the representation invariant of the detector tree rooted at `root`; the abstraction is
    the witness `t` (unique: `HeapLemmas.rep_functional`) -/
def WF (h : Heap α) (root : Ptr) : Prop := ∃ t, Rep h root none t

/-- following `parent` from `o` visits the addresses `ps`, which carry the payloads `as`,
    and then reaches nil (fuel-free description of `parentChain`) -/
inductive Chain (h : Heap α) : Option Ptr → List Ptr → List α → Prop
  | nil : Chain h none [] []
  | cons {p : Ptr} {n : Node α} {ps : List Ptr} {as : List α} :
      h[p]? = some n → Chain h n.parent ps as → Chain h (some p) (p :: ps) (n.info :: as)

/-- the nodes `cloneHierarchy` allocates at address `base` for the payloads `l` (leaf first):
    each points to the next address, the last one has no parent -/
def cloneNodes (base : Nat) : List α → List (Node α)
  | [] => []
  | [a] => [⟨a, none, []⟩]
  | a :: b :: rest => ⟨a, some (base + 1), []⟩ :: cloneNodes (base + 1) (b :: rest)

/-- apply `f` to the first element -/
def applyHead (f : α → α) : List α → List α
  | [] => []
  | a :: l => f a :: l

end Mime.Heap
