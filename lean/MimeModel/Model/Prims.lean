import MimeModel.Basic
/-
  Hand models (checked indexing: `none` = Go would panic) of the two helper
  functions of internal/magic that the regenerated signature expressions call:
  `matchOleClsid` (ms_office.go) and `zipContains` (zip.go).
-/
namespace Mime

/-- checked `raw[i]` -/
def getB (raw : Bytes) (i : Nat) : Option Nat := if i < raw.length then some (raw.getD i 0) else none
/-- checked `binary.LittleEndian.Uint32(raw[o:])` -/
def getU32le (raw : Bytes) (o : Nat) : Option Nat :=
  if o + 4 ≤ raw.length then some (u32le raw o) else none

theorem getB_isSome {raw : Bytes} {i : Nat} (h : i < raw.length) : getB raw i = some (raw.getD i 0) := by
  simp [getB, h]
theorem getU32le_isSome {raw : Bytes} {o : Nat} (h : o + 4 ≤ raw.length) :
    getU32le raw o = some (u32le raw o) := by simp [getU32le, h]

/-- `clsidOffset := sectorLength*(1+firstSecID) + 80` -/
def oleOff (b26 b27 sec : Nat) : Nat := (if b26 == 4 && b27 == 0 then 4096 else 512) * (1 + sec) + 80

/-- ms_office.go `matchOleClsid(in, clsid)` -/
def oleClsid (raw clsid : Bytes) : Option Bool :=
  if raw.length < 512 then some false else
  match getB raw 26, getB raw 27, getU32le raw 48 with
  | some b26, some b27, some sec =>
    if raw.length ≤ oleOff b26 b27 sec + 16 then some false
    else if oleOff b26 b27 sec ≤ raw.length then some (hasPrefix (raw.drop (oleOff b26 b27 sec)) clsid) else none
  | _, _, _ => none

theorem oleClsid_total (raw clsid : Bytes) : ∃ v, oleClsid raw clsid = some v := by
  unfold oleClsid
  by_cases h : raw.length < 512
  · simp [h]
  · simp only [h, ↓reduceIte]
    rw [getB_isSome (by omega), getB_isSome (by omega), getU32le_isSome (by omega)]
    simp only
    generalize oleOff _ _ _ = off
    split
    · exact ⟨_, rfl⟩
    · split
      · exact ⟨_, rfl⟩
      · omega

def pk34 : Bytes := [0x50, 0x4B, 0x03, 0x04]

def msoSkipFiles : List Bytes :=
  [ofString "[Content_Types].xml", ofString "_rels/.rels", ofString "docProps",
   ofString "customXml", ofString "[trash]"]

/-- the `for i := 0; i < 4; i++` loop of zipContains, on the cursor `b` -/
def zipLoop (sig : Bytes) : Nat → Bytes → Bool
  | 0, _ => false
  | n + 1, b =>
    if b.length < 0x1A then false else
    let b1 := b.drop 0x1A
    match indexOf pk34 b1 with
    | none => false
    | some nh =>
      if b1.length < nh + 0x1E then false else
      let b2 := b1.drop (nh + 0x1E)
      if hasPrefix b2 sig then true else zipLoop sig n b2

/-- the walk of zip.go `zipContains` from the first entry on (everything after the guards) -/
def zipWalk (raw sig : Bytes) (mso : Bool) : Option Bool :=
  let b := raw.drop 0x1E
  if hasPrefix b sig then some true else
  if mso && !(msoSkipFiles.any (fun sf => hasPrefix b sf)) then some false else
  match getU32le raw 18 with
  | none => none
  | some cs =>
    let so := (cs + 49) % 4294967296
    if b.length < so then some false else
    let b1 := b.drop so
    if raw.length < so then none else
    match indexOf pk34 (raw.drop so) with
    | none => some false
    | some nh =>
      if b1.length < nh then some false else
      let b2 := b1.drop nh
      if hasPrefix b2 sig then some true else some (zipLoop sig 4 b2)

/-- zip.go `zipContains(raw, sig, msoCheck)`: at least a whole local header, which starts with the
    local-header signature (an archive without entries starts with the end-of-central-directory
    record and has no entry names), then the walk -/
def zipContains (raw sig : Bytes) (mso : Bool) : Option Bool :=
  if raw.length < 0x1E then some false else
  if !hasPrefix raw pk34 then some false else
  zipWalk raw sig mso

theorem zipWalk_total (raw sig : Bytes) (mso : Bool) (h : ¬ raw.length < 0x1E) : ∃ v, zipWalk raw sig mso = some v := by
  unfold zipWalk
  simp only
  split
  · exact ⟨_, rfl⟩
  · split
    · exact ⟨_, rfl⟩
    · rw [getU32le_isSome (by omega)]
      simp only
      split
      · exact ⟨_, rfl⟩
      · rename_i h2
        simp only [List.length_drop] at h2
        split
        · omega
        · split
          · exact ⟨_, rfl⟩
          · split
            · exact ⟨_, rfl⟩
            · split <;> exact ⟨_, rfl⟩

theorem zipContains_total (raw sig : Bytes) (mso : Bool) : ∃ v, zipContains raw sig mso = some v := by
  unfold zipContains
  by_cases h : raw.length < 0x1E
  · simp [h]
  · simp only [h, ↓reduceIte]
    split
    · exact ⟨_, rfl⟩
    · exact zipWalk_total raw sig mso h

/-- a positive verdict: the guards passed and the walk found the marker -/
theorem zipContains_true (raw sig : Bytes) (mso : Bool) (h : zipContains raw sig mso = some true) :
    ¬ raw.length < 0x1E ∧ hasPrefix raw pk34 = true ∧ zipWalk raw sig mso = some true := by
  unfold zipContains at h
  by_cases h0 : raw.length < 0x1E
  · simp [h0] at h
  · simp only [h0, ↓reduceIte] at h
    cases hp : hasPrefix raw pk34 with
    | false => simp [hp] at h
    | true => simp only [hp, Bool.not_true, Bool.false_eq_true, ↓reduceIte] at h; exact ⟨h0, rfl, h⟩

/-- on input that starts with a complete local header the verdict is the walk's -/
theorem zipContains_of_header (raw sig : Bytes) (mso : Bool) (hl : 0x1E ≤ raw.length) (hp : hasPrefix raw pk34 = true) :
    zipContains raw sig mso = zipWalk raw sig mso := by
  unfold zipContains
  have : ¬ raw.length < 0x1E := by omega
  simp [this, hp]

end Mime
