import MimeModel.Model.Custom
/-
  Index-level ("checked indexing") transliterations of the hand-coded byte scanners that the
  rest of the model has only as list functions:

    internal/charset/charset.go : FromBOM, FromPlain, latin, ascii, fromMetaElement,
                                  xmlEncoding, trimLWS
    internal/magic/magic.go     : trimLWS, trimRWS
    internal/magic/text_csv.go  : dropLastLine
    internal/magic/text.go      : dropCR, scanLine, NdJSON, Text
    internal/magic/archive.go   : Tar, tarParseOctal, tarChksum

  Every definition follows the Go source statement by statement and keeps the Go index
  arithmetic.  The result type is `Out α`:

    * `.ok v`   the Go function returns `v`;
    * `.panic`  an index or slice expression of the Go function is out of range;
    * `.fuel`   a loop was cut off by its fuel (so "the loop terminates" is the statement
                "the result is not `.fuel` once the fuel is at least <stated bound>").

  Conventions
    * `elemAt b i` is `b[i]` (panics iff `i ≥ len b`); `sliceFrom b n` is `b[n:]`, `sliceTo b n`
      is `b[:n]` (both panic iff `n > len b`), `slice b lo hi` is `b[lo:hi]` (panics iff
      `lo > hi ∨ hi > len b`).  For a Go `[]byte` the upper bound of a slice expression is the
      *capacity*, not the length; the checks here use the length, which is stricter, so
      "no `.panic`" here implies "no panic" in Go (and is exact for `string` operands).
      The variants `elemAtI`, `sliceFromI`, `sliceToI`, `sliceI` take `Int` operands and also
      panic on a negative one: they are used wherever the Go operand is computed by a
      subtraction (`len(b)-1`, a loop counter that is decremented).  Counters that can reach
      −1 are therefore `Int` (no offset encoding is used anywhere).
    * `textCharsAt b` is `textChars[b]`.  The Go index is a `byte` and the array has 256
      entries, so this cannot panic in Go; over `List Nat` it panics iff `b ≥ 256`, and the
      theorems that evaluate it on arbitrary elements carry the hypothesis `AllBytes`.
    * `for i, c := range s` is `forRange s body fuel 0 init`: the index loop
      `for i := 0; i < len(s); i++ { c := s[i]; … }` by which the Go specification defines it,
      run on fuel, with a checked `s[i]`.  The body answers `.next st` (go on with the new loop
      state) or `.ret r` (`break` / `return`: leave the loop with `r`).
    * other `for` loops are recursive functions on explicit fuel, named `…Loop`.
    * calls into the standard library (`bytes.HasPrefix`, `bytes.Contains`, `bytes.Cut`,
      `bytes.Trim`, `strings.Index`, `strings.IndexRune`, `strings.IndexAny`,
      `strings.TrimLeft`, `strings.HasPrefix`, `utf8.RuneStart`, `utf8.FullRune`, `utf8.Valid`,
      `json.Parse`) are their total list counterparts.
    * `int64` arithmetic (archive.go) wraps: `i64`; `uint32(len(b))` (text_csv.go) is
      `len % 2^32`.
-/
namespace Mime.Idx
open Mime Mime.Charset Mime.Cust Mime.Gen.Charset

/-- outcome of running a piece of Go code -/
inductive Out (α : Type) where
  | ok (v : α)
  | panic
  | fuel
  deriving DecidableEq, Repr

def Out.bind {α β : Type} : Out α → (α → Out β) → Out β
  | .ok v, f => f v
  | .panic, _ => .panic
  | .fuel, _ => .fuel

instance : Monad Out where
  pure := Out.ok
  bind := Out.bind

/-! ### checked primitives -/

/-- `l[i]` -/
def elemAt {α : Type} (l : List α) (i : Nat) : Out α :=
  match l[i]? with
  | some x => .ok x
  | none => .panic

/-- `b[n:]` -/
def sliceFrom (b : Bytes) (n : Nat) : Out Bytes := if n ≤ b.length then .ok (b.drop n) else .panic

/-- `b[:n]` -/
def sliceTo (b : Bytes) (n : Nat) : Out Bytes := if n ≤ b.length then .ok (b.take n) else .panic

/-- `b[lo:hi]` -/
def slice (b : Bytes) (lo hi : Nat) : Out Bytes :=
  if lo ≤ hi ∧ hi ≤ b.length then .ok ((b.take hi).drop lo) else .panic

/-- `l[i]`, `i` a Go `int` -/
def elemAtI {α : Type} (l : List α) (i : Int) : Out α := if i < 0 then .panic else elemAt l i.toNat

/-- `b[n:]`, `n` a Go `int` -/
def sliceFromI (b : Bytes) (n : Int) : Out Bytes := if n < 0 then .panic else sliceFrom b n.toNat

/-- `b[:n]`, `n` a Go `int` -/
def sliceToI (b : Bytes) (n : Int) : Out Bytes := if n < 0 then .panic else sliceTo b n.toNat

/-- `b[lo:hi]`, `lo`, `hi` Go `int`s -/
def sliceI (b : Bytes) (lo hi : Int) : Out Bytes :=
  if lo < 0 ∨ hi < 0 then .panic else slice b lo.toNat hi.toNat

/-- `textChars[b]` -/
def textCharsAt (b : Nat) : Out Nat := elemAt textChars b

/-! ### `for i, c := range s` -/

/-- what a loop body does next: `ret r` = leave the loop (`break`, `return`), `next s` = go on -/
inductive Step (ρ σ : Type) where
  | ret (r : ρ)
  | next (s : σ)
  deriving DecidableEq, Repr

/-- `for i, c := range l { body }` started at index `i` with loop state `s` -/
def forRange {α ρ σ : Type} (l : List α) (body : Nat → α → σ → Out (Step ρ σ)) :
    Nat → Nat → σ → Out (Step ρ σ)
  | 0, _, _ => .fuel
  | fuel + 1, i, s =>
    if i < l.length then
      match elemAt l i with
      | .ok c =>
        match body i c s with
        | .ok (.next s') => forRange l body fuel (i + 1) s'
        | .ok (.ret r) => .ok (.ret r)
        | .panic => .panic
        | .fuel => .fuel
      | .panic => .panic
      | .fuel => .fuel
    else .ok (.next s)

/-- the value of a loop whose `break` hands over the loop state -/
def Step.val {σ : Type} : Step σ σ → σ
  | .ret r => r
  | .next s => s

/-! ### internal/charset/charset.go -/

/-- charset.go:57 `FromBOM` -/
def fromBOMIdx (content : Bytes) : Out Bytes := do
  -- for _, b := range boms { if bytes.HasPrefix(content, b.bom) { return b.enc } }
  match ← forRange boms (fun _ b (_ : Unit) =>
      if hasPrefix content b.1 then .ok (.ret b.2) else .ok (.next ())) (boms.length + 1) 0 () with
  | .ret enc => pure enc
  | .next _ => pure []                       -- return ""

/-- charset.go:131 `ascii` -/
def asciiIdx (content : Bytes) : Out Bool := do
  match ← forRange content (fun _ b (_ : Unit) =>
      -- if b >= 0x80 || textChars[b] != T { return false }
      if b ≥ 0x80 then .ok (.ret false) else do
        let t ← textCharsAt b
        if t != cT then .ok (.ret false) else .ok (.next ())) (content.length + 1) 0 () with
  | .ret r => pure r
  | .next _ => pure true

/-- charset.go:111 `latin` -/
def latinIdx (content : Bytes) : Out Bytes := do
  match ← forRange content (fun _ b (hasControlBytes : Bool) => do
      let t ← textCharsAt b                                   -- t := textChars[b]
      if t != cT && t != cI then .ok (.ret csNone)            -- return ""
      else if b ≥ 0x80 && b ≤ 0x9F then .ok (.next true)      -- hasControlBytes = true
      else .ok (.next hasControlBytes)) (content.length + 1) 0 false with
  | .ret r => pure r
  | .next hasControlBytes => if hasControlBytes then pure csWin1252 else pure csLatin1

/-- charset.go:78 the loop `for i := len(content) - 1; i >= 0 && i > len(content)-4; i--`
    of `FromPlain`; the value is `content` after the loop.  `i` is an `Int` (it reaches −1 on
    inputs shorter than three bytes). -/
def stripLoop : Nat → Bytes → Int → Out Bytes
  | 0, _, _ => .fuel
  | fuel + 1, content, i =>
    if i ≥ 0 ∧ i > (content.length : Int) - 4 then do
      let b ← elemAtI content i                               -- b := content[i]
      if b < 0x80 then pure content                           -- break
      else if runeStart b then do
        let tl ← sliceFromI content i                         -- content[i:]
        if !fullRune tl then sliceToI content i               -- content = content[:i]; break
        else pure content                                     -- break
      else stripLoop fuel content (i - 1)
    else pure content

/-- charset.go:68 `FromPlain` -/
def fromPlainIdx (content : Bytes) : Out Bytes :=
  if content.length == 0 then pure csNone else do
  let cset ← fromBOMIdx content
  if cset != csNone then pure cset else do
  let origContent := content
  let content ← stripLoop 4 content ((content.length : Int) - 1)
  -- hasHighBit := false; for _, c := range content { if c >= 0x80 { hasHighBit = true; break } }
  let hasHighBit ← forRange content (fun _ c (hasHighBit : Bool) =>
      if c ≥ 0x80 then .ok (.ret true) else .ok (.next hasHighBit)) (content.length + 1) 0 false
  if hasHighBit.val && utf8Valid content then pure csUtf8 else do
  if (← asciiIdx origContent) then pure csUtf8 else
  latinIdx origContent

/-- `strings.IndexAny(s, chars)` for an ASCII `chars`, given as a predicate on bytes -/
def indexWhere (p : Nat → Bool) : Bytes → Option Nat
  | [] => none
  | c :: cs => if p c then some 0 else (indexWhere p cs).map (· + 1)

/-- charset.go:254 `fromMetaElement`; the fuel counts the iterations of `for s != ""` -/
def fromMetaElementIdx : (fuel : Nat) → Bytes → Out Bytes
  | 0, _ => .fuel
  | fuel + 1, s =>
    if s.length == 0 then pure [] else                         -- for s != "" … return ""
    match indexOf kwCharset s with                             -- csLoc := strings.Index(s, "charset")
    | none => pure []
    | some csLoc => do
      let s ← sliceFrom s (csLoc + kwCharset.length)           -- s = s[csLoc+len("charset"):]
      let s := s.dropWhile isMetaWS                            -- strings.TrimLeft(s, " \t\n\f\r")
      if !hasPrefix s [0x3D] then fromMetaElementIdx fuel s    -- continue
      else do
      let s ← sliceFrom s 1                                    -- s = s[1:]
      let s := s.dropWhile isMetaWS
      if s.length == 0 then pure [] else do
      let q ← elemAt s 0                                       -- q := s[0]
      if q == 0x22 || q == 0x27 then do
        let s ← sliceFrom s 1                                  -- s = s[1:]
        match indexByte q s with                               -- strings.IndexRune(s, rune(q))
        | none => pure []
        | some closeQuote => sliceTo s closeQuote              -- return s[:closeQuote]
      else
        -- end := strings.IndexAny(s, "; \t\n\f\r"); if end == -1 { end = len(s) }
        let end_ := (indexWhere (fun c => c == 0x3B || isMetaWS c) s).getD s.length
        sliceTo s end_                                         -- return s[:end]

/-- charset.go:288 `xmlEncoding` -/
def xmlEncodingIdx (s : Bytes) : Out Bytes :=
  match indexOf kwEncodingEq s with                            -- idx := strings.Index(s, param)
  | none => pure []
  | some idx => do
    let v ← sliceFrom s (idx + kwEncodingEq.length)            -- v := s[idx+len(param):]
    if v.length == 0 then pure [] else do
    let v0 ← elemAt v 0                                        -- v[0] != '\'' …
    let v0' ← elemAt v 0                                       -- … && v[0] != '"'
    if v0 != 0x27 && v0' != 0x22 then pure [] else do
    let v1 ← sliceFrom v 1                                     -- v[1:]
    let q ← elemAt v 0                                         -- rune(v[0])
    match indexByte q v1 with                                  -- idx = strings.IndexRune(v[1:], …)
    | none => pure []
    | some idx => slice v 1 (idx + 1)                          -- return v[1 : idx+1]

/-- the loop of `trimLWS`; the value is `firstNonWS` after the loop -/
def trimLWSLoop (inp : Bytes) : Nat → Nat → Out Nat
  | 0, _ => .fuel
  | fuel + 1, firstNonWS =>
    -- firstNonWS < len(in) && isWS(in[firstNonWS])
    if firstNonWS < inp.length then do
      let c ← elemAt inp firstNonWS
      if isWS c then trimLWSLoop inp fuel (firstNonWS + 1) else pure firstNonWS
    else pure firstNonWS

/-- charset.go:311 and magic.go:207 `trimLWS` (the two copies are identical) -/
def trimLWSIdx (inp : Bytes) : Out Bytes := do
  let firstNonWS ← trimLWSLoop inp (inp.length + 1) 0
  sliceFrom inp firstNonWS                                     -- return in[firstNonWS:]

/-! ### internal/magic/magic.go -/

/-- the loop of `trimRWS`; the value is `lastNonWS` after the loop (an `Int`: it starts at −1
    on the empty input) -/
def trimRWSLoop (inp : Bytes) : Nat → Int → Out Int
  | 0, _ => .fuel
  | fuel + 1, lastNonWS =>
    -- lastNonWS > 0 && isWS(in[lastNonWS])
    if lastNonWS > 0 then do
      let c ← elemAtI inp lastNonWS
      if isWS c then trimRWSLoop inp fuel (lastNonWS - 1) else pure lastNonWS
    else pure lastNonWS

/-- magic.go:216 `trimRWS` -/
def trimRWSIdx (inp : Bytes) : Out Bytes := do
  let lastNonWS ← trimRWSLoop inp (inp.length + 1) ((inp.length : Int) - 1)
  sliceToI inp (lastNonWS + 1)                                 -- return in[:lastNonWS+1]

/-! ### internal/magic/text_csv.go, text.go -/

/-- text_csv.go:71 the loop `for i := len(b) - 1; i > 0; i--` of `dropLastLine` (`i : Int`,
    −1 on the empty input) -/
def dropLastLineLoop (b : Bytes) : Nat → Int → Out Bytes
  | 0, _ => .fuel
  | fuel + 1, i =>
    if i > 0 then do
      let c ← elemAtI b i                                      -- b[i] == '\n'
      if c == 0x0A then sliceToI b i                           -- return b[:i]
      else dropLastLineLoop b fuel (i - 1)
    else pure b                                                -- return b

/-- text_csv.go:67 `dropLastLine`; `uint32(len(b))` is `len % 2^32` -/
def dropLastLineIdx (b : Bytes) (readLimit : Nat) : Out Bytes :=
  if readLimit == 0 || b.length % 4294967296 < readLimit then pure b else
  dropLastLineLoop b (b.length + 1) ((b.length : Int) - 1)

/-- text.go:303 `dropCR` -/
def dropCRIdx (data : Bytes) : Out Bytes :=
  if data.length > 0 then do
    let c ← elemAtI data ((data.length : Int) - 1)             -- data[len(data)-1] == '\r'
    if c == 0x0D then sliceI data 0 ((data.length : Int) - 1)  -- return data[0 : len(data)-1]
    else pure data
  else pure data

/-- text.go:309 `scanLine` -/
def scanLineIdx (b : Bytes) : Out (Bytes × Bytes) := do
  let (line, remainder) := cutNL b                             -- bytes.Cut(b, "\n")
  let line ← dropCRIdx line
  pure (line, remainder)

/-- text.go:212 the loop `for len(raw) != 0` of `NdJSON`, up to the final `return` -/
def ndjsonLoopIdx : Nat → Bytes → Nat → Nat → Out Bool
  | 0, _, _, _ => .fuel
  | fuel + 1, raw, lCount, objOrArr =>
    if raw.length != 0 then do
      let (l, raw) ← scanLineIdx raw
      let r := Json.parse Gen.Json.q_json l
      let blank := r.firstToken == Json.tokInvalid && l.length == r.inspected
      if l.length != r.parsed && !blank then pure false else
      let objOrArr :=
        if r.firstToken == Json.tokArray || r.firstToken == Json.tokObject then objOrArr + 1 else objOrArr
      ndjsonLoopIdx fuel raw (lCount + 1) objOrArr
    else pure (decide (lCount > 1) && decide (objOrArr > 0))

/-- text.go:208 `NdJSON` -/
def ndjsonIdx (raw : Bytes) (limit : Nat) : Out Bool := do
  let raw ← dropLastLineIdx raw limit
  ndjsonLoopIdx (raw.length + 1) raw 0 0

/-- text.go:129 `Text` -/
def textIdx (raw : Bytes) : Out Bool := do
  let cset ← fromBOMIdx raw
  if cset != csNone then pure true else
  match ← forRange raw (fun _ b (_ : Unit) =>
      if b ≤ 0x08 || b == 0x0B || (0x0E ≤ b && b ≤ 0x1A) || (0x1C ≤ b && b ≤ 0x1F)
      then .ok (.ret false) else .ok (.next ())) (raw.length + 1) 0 () with
  | .ret r => pure r
  | .next _ => pure true

/-! ### internal/magic/archive.go -/

/-- the `int64` whose bit pattern is the low 64 bits of `x` -/
def i64 (x : Int) : Int := (x + 9223372036854775808) % 18446744073709551616 - 9223372036854775808

/-- archive.go:126 `tarParseOctal`.  `ret` is kept as its 64-bit pattern (a `Nat` below 2^64):
    `<<` and `|` act on patterns, the conversion to the signed value is `i64` at the end. -/
def tarParseOctalIdx (b : Bytes) : Out Int := do
  let b := trimTar b                                           -- bytes.Trim(b, " \x00")
  if b.length == 0 then pure (-1) else
  match ← forRange b (fun _ c (ret : Nat) =>
      if c == 0 then .ok (.ret (some ret))                     -- break
      else if c < 0x30 || c > 0x37 then .ok (.ret none)        -- return -1
      else .ok (.next (((ret <<< 3) ||| (c - 0x30)) % 18446744073709551616)))
      (b.length + 1) 0 0 with
  | .ret (some ret) => pure (i64 ret)
  | .ret none => pure (-1)
  | .next ret => pure (i64 ret)

/-- archive.go:154 `tarChksum`; `tarByte i c` is `c` after
    `if 148 <= i && i < 156 { c = ' ' }` -/
def tarChksumIdx (b : Bytes) : Out (Int × Int) := do
  let r ← forRange b (fun i c (acc : Int × Int) =>
      -- unsigned += int64(c); signed += int64(int8(c))
      (.ok (.next (i64 (acc.1 + (tarByte i c : Nat)), i64 (acc.2 + int8 (tarByte i c)))) :
        Out (Step (Int × Int) (Int × Int))))
      (b.length + 1) 0 (0, 0)
  pure r.val

/-- archive.go:84 `Tar` -/
def tarIdx (raw : Bytes) : Out Bool :=
  if raw.length < 512 then pure false else do
  let raw ← sliceTo raw 512                                    -- raw = raw[:sizeRecord]
  let name ← sliceTo raw 100                                   -- raw[:100]
  if containsSub name gpkgMarker then pure false else do
  let field ← slice raw 148 156                                -- raw[148:156]
  let recsum ← tarParseOctalIdx field
  if recsum == -1 then pure false else do
  let (sum1, sum2) ← tarChksumIdx raw
  pure (recsum == sum1 || recsum == sum2)

end Mime.Idx
