import MimeModel.Model.XmlTok
import MimeModel.Model.ToLower
/-
  `charset.FromXML` / `fromXML` with the label lower-cased by the full model of Go's
  `strings.ToLower` (`Lower.goToLower`) instead of `Charset.lowerASCII`: exact for EVERY label,
  also one with bytes >= 0x80 (valid UTF-8 or not).  Same definitions as `Charset.fromXML`,
  `XmlTok.fromXMLDecl`, `XmlTok.fromXMLBytes` otherwise.

      return strings.ToLower(xmlEncoding(string(t.Inst)))        // internal/charset/charset.go
-/
namespace Mime.XmlFull
open Mime Mime.Charset Mime.XmlTok Mime.Lower

/-- `FromXML`; `inst` = `Inst` of the first raw token when it is a ProcInst -/
def fromXMLFull (content : Bytes) (inst : Option Bytes) : Bytes :=
  let x := match inst with
    | none => []
    | some i => goToLower (xmlEncoding i)
  if x != [] then x else fromPlain content

/-- the unexported `charset.fromXML(content)` -/
def fromXMLDeclFull (content : Bytes) : Bytes :=
  match firstProcInst (trimLWS content) with
  | none => []
  | some i => goToLower (xmlEncoding i)

/-- `charset.FromXML(content)` on bytes -/
def fromXMLBytesFull (content : Bytes) : Bytes :=
  fromXMLFull content (firstProcInst (trimLWS content))

end Mime.XmlFull
