import MimeModel.Model.MediaType
/-
  `mime.ParseMediaType` on ARBITRARY byte strings (go1.23.5: src/mime/mediatype.go,
  src/strings/strings.go, src/unicode/utf8/utf8.go, src/unicode/graphic.go, letter.go).

  `Mime.MT.parse` is exact for ASCII input only.  What differs for other input is

    mediatype = strings.TrimSpace(strings.ToLower(base))            -- Unicode on both counts
    v = strings.TrimLeftFunc(v, unicode.IsSpace)                    -- in the parameter loop
    strings.TrimSpace(rest) == ";"                                  -- trailing semicolons

  Everything else in the parser is byte-wise (`consumeToken` stops at the first byte >= 0x80 because
  every such byte starts a rune >= 0x80 or U+FFFD, neither of which is a token character; the
  attribute name handed to `strings.ToLower` is therefore pure ASCII; `consumeValue` indexes bytes).

  Two models are given:

  * `typeOfU` / `errU` (the OFFICIAL one, used by the theorems): a Go string that is about to be
    decoded is represented by the rune sequence `for _, c := range s` yields (`runes`; an invalid
    byte yields U+FFFD and advances by one byte).  `ToLower` maps that sequence rune by rune
    (`strings.Map` writes U+FFFD for invalid bytes, so its result is valid UTF-8 and IS its rune
    sequence), `TrimSpace` strips `unicode.IsSpace` runes at both ends, and the token check looks at
    runes.  When the check passes every rune is < 0x7F, so the rune sequence is the byte string.

  * `typeOfB` / `errB`: a literal byte-level transcription (UTF-8 *encoding* of the mapped runes,
    `TrimSpace` with its ASCII fast paths, `TrimRightFunc` with `utf8.DecodeLastRuneInString`
    walking backwards).  It exists to validate the representation argument above: both models are
    run against the real package (tools/mediatype_unicode_validation_test.go.txt) and must agree
    with it on every input.  Proved links between the two (Lemmas/MediaTypeU.lean): `decode1_encode`,
    `decode1_of_encode` (decoding and encoding are inverse on scalar values), `runes_lowerB`
    (`runes (lowerB s) = (runes s).map lowerRune`); the backward-walking `TrimRightFunc` is linked
    to `trimR` by validation only.

  DELIBERATE ABSTRACTION (the only one): `lowerRune` is `unicode.ToLower` on ASCII, U+212A and
  U+0130 and the IDENTITY elsewhere.  Exhaustively checked against go1.23.5's tables (TestFacts in
  the validation file): U+0130 -> 'i' and U+212A -> 'k' are the only runes >= 0x80 whose lower case
  is < 0x80; no ASCII rune leaves ASCII; `unicode.IsSpace(ToLower(r)) = unicode.IsSpace(r)`, white
  space is fixed by ToLower, and valid runes stay valid.  A rune >= 0x80 in the trimmed media type
  fails `checkMediaTypeDisposition` whatever its value, so the first return value and the error
  do not depend on the identity of those runes.
-/
namespace Mime.MTU
open Mime Mime.MT

/-! ### UTF-8 -/

/-- continuation byte `10xxxxxx` (`!utf8.RuneStart`) -/
def isCont (b : Nat) : Bool := 0x80 ≤ b && b ≤ 0xBF

/-- accept ranges of the second byte (utf8.go `acceptRanges`) -/
def lo3 (b0 : Nat) : Nat := if b0 == 0xE0 then 0xA0 else 0x80
def hi3 (b0 : Nat) : Nat := if b0 == 0xED then 0x9F else 0xBF
def lo4 (b0 : Nat) : Nat := if b0 == 0xF0 then 0x90 else 0x80
def hi4 (b0 : Nat) : Nat := if b0 == 0xF4 then 0x8F else 0xBF

/-- `utf8.DecodeRuneInString (b0 :: t)`: the rune and what follows it.  Anything that is not a
    shortest-form encoding of a scalar value gives `(U+FFFD, t)` (RuneError, width 1). -/
def decode1 (b0 : Nat) (t : Bytes) : Nat × Bytes :=
  if b0 < 0x80 then (b0, t)
  else if 0xC2 ≤ b0 && b0 ≤ 0xDF then
    match t with
    | b1 :: t1 => if isCont b1 then ((b0 - 0xC0) * 64 + (b1 - 0x80), t1) else (0xFFFD, t)
    | [] => (0xFFFD, t)
  else if 0xE0 ≤ b0 && b0 ≤ 0xEF then
    match t with
    | b1 :: b2 :: t2 =>
      if lo3 b0 ≤ b1 && b1 ≤ hi3 b0 && isCont b2 then
        (((b0 - 0xE0) * 64 + (b1 - 0x80)) * 64 + (b2 - 0x80), t2)
      else (0xFFFD, t)
    | _ => (0xFFFD, t)
  else if 0xF0 ≤ b0 && b0 ≤ 0xF4 then
    match t with
    | b1 :: b2 :: b3 :: t3 =>
      if lo4 b0 ≤ b1 && b1 ≤ hi4 b0 && isCont b2 && isCont b3 then
        ((((b0 - 0xF0) * 64 + (b1 - 0x80)) * 64 + (b2 - 0x80)) * 64 + (b3 - 0x80), t3)
      else (0xFFFD, t)
    | _ => (0xFFFD, t)
  else (0xFFFD, t)

/-- `for _, c := range s` (fuel = length) -/
def runesF : Nat → Bytes → List Nat
  | 0, _ => []
  | _, [] => []
  | f + 1, b0 :: t => (decode1 b0 t).1 :: runesF f (decode1 b0 t).2

def runes (s : Bytes) : List Nat := runesF s.length s

/-- `unicode.IsSpace` -/
def isSpaceRune (r : Nat) : Bool :=
  r == 0x20 || (0x09 ≤ r && r ≤ 0x0D) || r == 0x85 || r == 0xA0 || r == 0x1680 ||
  (0x2000 ≤ r && r ≤ 0x200A) || r == 0x2028 || r == 0x2029 || r == 0x202F || r == 0x205F || r == 0x3000

/-- `unicode.ToLower` on ASCII, U+212A KELVIN SIGN and U+0130; identity elsewhere (see the header) -/
def lowerRune (r : Nat) : Nat :=
  if 0x41 ≤ r && r ≤ 0x5A then r + 0x20
  else if r == 0x212A then 0x6B
  else if r == 0x130 then 0x69
  else r

/-- `strings.TrimSpace` on a rune sequence -/
def trimR (rs : List Nat) : List Nat := ((rs.dropWhile isSpaceRune).reverse.dropWhile isSpaceRune).reverse

/-- `strings.TrimLeftFunc(s, unicode.IsSpace)` on raw bytes (fuel = length) -/
def trimLeftF : Nat → Bytes → Bytes
  | 0, s => s
  | _, [] => []
  | f + 1, b0 :: t => if isSpaceRune (decode1 b0 t).1 then trimLeftF f (decode1 b0 t).2 else b0 :: t

def trimLeftU (s : Bytes) : Bytes := trimLeftF s.length s

/-! ### the parameter loop -/

/-- `consumeMediaParam` (`v` already left-trimmed or not: it trims again, as in Go) -/
def consumeParamU (v : Bytes) : Option (Bytes × Bytes × Bytes) :=
  match trimLeftU v with
  | 0x3B :: r =>
    let (p, r1) := consumeToken (trimLeftU r)
    if p.isEmpty then none else
    match trimLeftU r1 with
    | 0x3D :: r2 =>
      match consumeValue (trimLeftU r2) with
      | some (val, r3) => some (lower p, val, r3)
      | none => none
    | _ => none
  | _ => none

/-- the loop of `ParseMediaType`; `semiOnly rest` models `strings.TrimSpace(rest) == ";"` -/
def parseParamsU (semiOnly : Bytes → Bool) : Nat → Bytes → List (Bytes × Bytes) → PErr
  | 0, _, _ => .none
  | fuel + 1, v, acc =>
    let v1 := trimLeftU v
    if v1.isEmpty then .none else
    match consumeParamU v1 with
    | none => if semiOnly v1 then .none else .invalidParam
    | some (k, val, rest) =>
      if acc.any (fun q => q.1 == k && q.2 != val) then .duplicate
      else parseParamsU semiOnly fuel rest ((k, val) :: acc)

/-- `strings.TrimSpace(rest) == ";"` on the rune sequence of `rest` -/
def semiOnlyU (rest : Bytes) : Bool := trimR (runes rest) == [0x3B]

/-- `(mediatype, error class)` of `mime.ParseMediaType(string(v))` -/
def parseU (v : Bytes) : Bytes × PErr :=
  let (base, rest) := cutSemi v
  let mt := trimR ((runes base).map lowerRune)
  if !checkType mt then ([], .noType) else
  match parseParamsU semiOnlyU (v.length + 1) rest [] with
  | .invalidParam => (mt, .invalidParam)
  | .duplicate => ([], .duplicate)
  | _ => (mt, .none)

/-- the first return value of `mime.ParseMediaType(string(v))`, for every byte string `v` -/
def typeOfU (v : Bytes) : Bytes := (parseU v).1

/-- the error: `.none` = nil, `.invalidParam` = `mime.ErrInvalidMediaParameter`,
    `.noType` = one of the four `checkMediaTypeDisposition` errors, `.duplicate` -/
def errU (v : Bytes) : PErr := (parseU v).2

/-! ### literal byte-level transcription (validation only) -/

/-- `utf8.AppendRune` -/
def encodeRune (r : Nat) : Bytes :=
  if r < 0x80 then [r]
  else if r < 0x800 then [0xC0 + r / 64, 0x80 + r % 64]
  else if (0xD800 ≤ r && r ≤ 0xDFFF) || r > 0x10FFFF then [0xEF, 0xBF, 0xBD]
  else if r < 0x10000 then [0xE0 + r / 4096, 0x80 + r / 64 % 64, 0x80 + r % 64]
  else [0xF0 + r / 262144, 0x80 + r / 4096 % 64, 0x80 + r / 64 % 64, 0x80 + r % 64]

/-- `strings.ToLower` (up to the identity of cased runes >= 0x80 other than U+212A / U+0130) -/
def lowerB (s : Bytes) : Bytes := (runes s).flatMap (fun r => encodeRune (lowerRune r))

/-- `utf8.DecodeLastRuneInString` on the REVERSED string `r0 :: more`: rune and the reversed rest -/
def decodeLast (r0 : Nat) (more : Bytes) : Nat × Bytes :=
  let fin (d : Nat × Bytes) (restOk : Bytes) : Nat × Bytes :=
    if d.2.isEmpty then (d.1, restOk) else (0xFFFD, more)
  if r0 < 0x80 then (r0, more) else
  match more with
  | [] => (0xFFFD, more)
  | m0 :: t0 =>
    if !isCont m0 then fin (decode1 m0 [r0]) t0
    else match t0 with
      | [] => (0xFFFD, more)
      | m1 :: t1 =>
        if !isCont m1 then fin (decode1 m1 [m0, r0]) t1
        else match t1 with
          | [] => (0xFFFD, more)
          | m2 :: t2 =>
            if !isCont m2 then fin (decode1 m2 [m1, m0, r0]) t2 else (0xFFFD, more)

/-- `lastIndexFunc(s, unicode.IsSpace, false)` on the reversed string; `none` = -1 -/
def lastIdxF : Nat → Bytes → Option Nat
  | 0, _ => none
  | _, [] => none
  | f + 1, r0 :: more =>
    if isSpaceRune (decodeLast r0 more).1 then lastIdxF f (decodeLast r0 more).2
    else some (decodeLast r0 more).2.length

/-- `strings.TrimRightFunc(s, unicode.IsSpace)` -/
def trimRightB (s : Bytes) : Bytes :=
  match lastIdxF s.length s.reverse with
  | none => []
  | some i =>
    match s.drop i with
    | b0 :: t => if b0 ≥ 0x80 then s.take (i + (t.length + 1 - (decode1 b0 t).2.length)) else s.take (i + 1)
    | [] => s.take (i + 1)

/-- second loop of `strings.TrimSpace` on the reversed `s[start:]` -/
def tsRight : Bytes → Bytes
  | [] => []
  | c :: cs => if c ≥ 0x80 then trimRightB (c :: cs).reverse else if isSp c then tsRight cs else (c :: cs).reverse

/-- `strings.TrimSpace` with its ASCII fast paths -/
def trimSpaceB : Bytes → Bytes
  | [] => []
  | c :: cs =>
    if c ≥ 0x80 then trimRightB (trimLeftU (c :: cs))
    else if isSp c then trimSpaceB cs
    else tsRight (c :: cs).reverse

def semiOnlyB (rest : Bytes) : Bool := trimSpaceB rest == [0x3B]

def parseB (v : Bytes) : Bytes × PErr :=
  let (base, rest) := cutSemi v
  let mt := trimSpaceB (lowerB base)
  if !checkType mt then ([], .noType) else
  match parseParamsU semiOnlyB (v.length + 1) rest [] with
  | .invalidParam => (mt, .invalidParam)
  | .duplicate => ([], .duplicate)
  | _ => (mt, .none)

def typeOfB (v : Bytes) : Bytes := (parseB v).1
def errB (v : Bytes) : PErr := (parseB v).2

end Mime.MTU
