import MimeModel.Model.Charset
import MimeModel.Model.XmlNames
/-
  Model of the FIRST raw token of a fresh `encoding/xml` decoder (go 1.23.5,
  `/usr/lib/go-1.23/src/encoding/xml/xml.go`: `RawToken` → `rawToken`), as far as
  `internal/charset.fromXML` looks at it: is it a `ProcInst`, and what is its `Inst`.

  `rawToken` on a fresh decoder (no pushed-back byte, `d.err == nil`, `needClose == false`):

    * `getc` fails (empty input)                    → error (io.EOF)
    * first byte is not `<`                         → `text(-1,false)`: CharData or an error
    * `<` then EOF                                  → error (unexpected EOF)
    * `</`, `<!…`, `<name…`                         → EndElement / Comment / CDATA CharData /
                                                      Directive / StartElement or an error
    * `<?`                                          → the processing-instruction branch below

  None of the first four is ever a `ProcInst`, so they are all `none` here.  The `<?` branch:

    1. `d.name()`: `readName` copies bytes into `d.buf` up to (not including; it is pushed
       back with `ungetc`) the first byte `b < 0x80 && !isNameByte(b)`; bytes ≥ 0x80 are all
       accepted at this point.  EOF before such a byte is the error "unexpected EOF"; an empty
       name is "expected target name after <?".  Then `isName(d.buf)`: the bytes must be valid
       UTF-8 (`utf8.DecodeRune` never yields `(RuneError, 1)`), the first rune in the table
       `first`, the others in `first ∪ second` — else "invalid XML name".
    2. `d.space()` skips EVERY following ' ', '\r', '\n', '\t' (not just one; not '\f').
    3. bytes are copied (with `mustgetc`: NO character validity check whatsoever — NUL, control
       bytes, invalid UTF-8 all pass) until the first `?` immediately followed by `>`; EOF
       before that is the error "unexpected EOF".  `Inst` = the copied bytes without `?>`.
    4. only when the target is exactly `xml` (case-sensitive): `procInst("version", Inst)` must
       be "" or "1.0", else error "unsupported version".  `procInst("encoding", Inst)` other
       than utf-8 calls `d.CharsetReader` — `fromXML` installs a pass-through that never fails,
       and `switchToReader` only affects later reads — so the encoding never changes the token.
-/
namespace Mime.XmlTok
open Mime Mime.Charset Mime.XmlNames

/-- xml.isNameByte -/
def isNameByte (c : Nat) : Bool :=
  (0x41 ≤ c && c ≤ 0x5A) || (0x61 ≤ c && c ≤ 0x7A) || (0x30 ≤ c && c ≤ 0x39) ||
  c == 0x5F || c == 0x3A || c == 0x2E || c == 0x2D

/-- the byte that ends `readName`: `b < utf8.RuneSelf && !isNameByte(b)` -/
def nameStop (c : Nat) : Bool := c < 0x80 && !isNameByte c

/-- the bytes `d.space()` skips -/
def isXmlSpace (c : Nat) : Bool := c == 0x20 || c == 0x0D || c == 0x0A || c == 0x09

/-- `unicode.Is(tab, r)` for a table with only `R16` entries `(Lo, Hi, Stride)`, sorted and
    non-overlapping (checked by the generator), where linear and binary search agree -/
def inTab : List (Nat × Nat × Nat) → Nat → Bool
  | [], _ => false
  | (lo, hi, st) :: rest, r =>
    if r < lo then false
    else if r ≤ hi then (st == 1 || (r - lo) % st == 0)
    else inTab rest r

def runeError : Nat := 0xFFFD

/-- `utf8.DecodeRune(p)` = (rune, size); invalid encodings give `(RuneError, 1)` -/
def decodeRune : Bytes → Nat × Nat
  | [] => (runeError, 0)
  | b0 :: rest =>
    if b0 < 0x80 then (b0, 1)
    else if leadSize b0 == 2 then
      match rest with
      | b1 :: _ => if isCont b1 then ((b0 % 32) * 64 + b1 % 64, 2) else (runeError, 1)
      | _ => (runeError, 1)
    else if leadSize b0 == 3 then
      match rest with
      | b1 :: b2 :: _ =>
        if secondOk b0 b1 && isCont b2 then (((b0 % 16) * 64 + b1 % 64) * 64 + b2 % 64, 3)
        else (runeError, 1)
      | _ => (runeError, 1)
    else if leadSize b0 == 4 then
      match rest with
      | b1 :: b2 :: b3 :: _ =>
        if secondOk b0 b1 && isCont b2 && isCont b3 then
          ((((b0 % 8) * 64 + b1 % 64) * 64 + b2 % 64) * 64 + b3 % 64, 4)
        else (runeError, 1)
      | _ => (runeError, 1)
    else (runeError, 1)

/-- the `for n < len(s)` loop of `xml.isName` (fuel = number of bytes left + 1) -/
def nameCharsF : Nat → Bytes → Bool
  | 0, _ => false
  | fuel + 1, s =>
    if s.isEmpty then true else
    if (decodeRune s).1 == runeError && (decodeRune s).2 == 1 then false
    else if !(inTab firstTab (decodeRune s).1 || inTab secondTab (decodeRune s).1) then false
    else nameCharsF fuel (s.drop (decodeRune s).2)

/-- `xml.isName(s)` -/
def isName (s : Bytes) : Bool :=
  if s.isEmpty then false else
  if (decodeRune s).1 == runeError && (decodeRune s).2 == 1 then false
  else if !inTab firstTab (decodeRune s).1 then false
  else nameCharsF (s.length + 1) (s.drop (decodeRune s).2)

/-- `readName` on the remaining input: `(d.buf, rest)` where `rest` starts with the stop byte
    (which `ungetc` pushed back); `none` = EOF before a stop byte ("unexpected EOF").
    A stop byte in first position gives the empty name, which `name()` rejects -/
def readName : Bytes → Option (Bytes × Bytes)
  | [] => none
  | b :: rest =>
    if nameStop b then some ([], b :: rest) else
    match readName rest with
    | none => none
    | some (n, r) => some (b :: n, r)

def piEnd : Bytes := [0x3F, 0x3E]   -- "?>"

/-- the copy loop of the `?` branch: the bytes before the first `?>`; `none` = EOF first -/
def untilPIEnd : Bytes → Option Bytes
  | [] => none
  | a :: rest =>
    if hasPrefix (a :: rest) piEnd then some [] else
    match untilPIEnd rest with
    | none => none
    | some d => some (a :: d)

/-- the loop of `xml.procInst` with `param` already carrying its `=`:
    find `param`, look at the byte after it: a quote ends the search, anything else resumes the
    search AFTER that byte; then the value runs to the next same quote.  "" on anything else. -/
def procInstF : Nat → Bytes → Bytes → Bytes
  | 0, _, _ => []
  | fuel + 1, param, s =>
    if s.isEmpty then [] else            -- `for i < len(s)` ends with sep == 0
    match indexOf param s with
    | none => []
    | some k =>
      match s.drop (k + param.length) with
      | [] => []                          -- `lenp+k >= len(sub)`
      | c :: rest =>
        if c == 0x27 || c == 0x22 then
          (match indexByte c rest with
           | none => []
           | some j => rest.take j)
        else procInstF fuel param rest

def procInst (param s : Bytes) : Bytes := procInstF (s.length + 1) param s

def kwVersionEq : Bytes := [118, 101, 114, 115, 105, 111, 110, 61]   -- "version="
def v10 : Bytes := [0x31, 0x2E, 0x30]                                -- "1.0"
def tXml : Bytes := [0x78, 0x6D, 0x6C]                               -- "xml"

/-- the version check applied to the instruction of an `xml` target -/
def versionOk (data : Bytes) : Bool :=
  procInst kwVersionEq data == [] || procInst kwVersionEq data == v10

/-- the `?` branch of `rawToken`, on the input after `<?`: `(Target, Inst)` -/
def piToken (s : Bytes) : Option (Bytes × Bytes) :=
  match readName s with
  | none => none
  | some (target, r) =>
    if !isName target then none else
    match untilPIEnd (r.dropWhile isXmlSpace) with
    | none => none
    | some data =>
      if target == tXml && !versionOk data then none else some (target, data)

/-- `(Target, Inst)` when the first `RawToken()` of a fresh decoder over these bytes is a
    `ProcInst` (and `err == nil`) -/
def firstPI : Bytes → Option (Bytes × Bytes)
  | a :: b :: rest => if a == 0x3C && b == 0x3F then piToken rest else none
  | _ => none

/-- `Inst` of the first raw token when it is a `ProcInst`, else `none` -/
def firstProcInst (b : Bytes) : Option Bytes :=
  match firstPI b with
  | none => none
  | some p => some p.2

/-- the unexported `charset.fromXML(content)` -/
def fromXMLDecl (content : Bytes) : Bytes :=
  match firstProcInst (trimLWS content) with
  | none => []
  | some i => lowerASCII (xmlEncoding i)

/-- `charset.FromXML(content)` with the decoder modelled (`Charset.fromXML` took its answer as
    a parameter); note that the fall-back `FromPlain` sees the UNtrimmed content -/
def fromXMLBytes (content : Bytes) : Bytes :=
  Charset.fromXML content (firstProcInst (trimLWS content))

end Mime.XmlTok
