import MimeModel.Model.Detect
import MimeModel.Model.HtmlTokFull
import MimeModel.Model.XmlTok
import MimeModel.Gen.Tree
/-
  The closed model of `Detect`: no oracle parameter left.  Every signature check of the current
  tree has a model (`Cust.customModel` is defined for every kind the extractor emits), the HTML
  token stream comes from the tokenizer model and the XML processing instruction from the decoder
  model, character references in attribute values included (`HtmlTok.startTagsFull`).
-/
namespace Mime.Closed
open Mime Mime.Cust

def ext : Ext :=
  { cust := fun _ _ _ => false
    htmlToks := fun h => HtmlTok.startTagsFull h
    xmlInst := fun h => XmlTok.firstProcInst (trimLWS h) }

/-- `mimetype.Detect` on the built-in tree: the chain (leaf first) and the leaf's charset parameter -/
def detect (x : Bytes) (lim : Nat) : Result := Mime.detect ext Gen.builtin x lim

/-- the result as the strings `Detect(...).String()` and its `Parent()` chain give -/
def detectChain (x : Bytes) (lim : Nat) : List (Bytes × Bytes) := (detect x lim).chain.map (fun i => (i.mime, i.ext))

end Mime.Closed
