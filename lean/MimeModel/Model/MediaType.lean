import MimeModel.Basic
/-
  Byte-level model of Go's `mime.FormatMediaType` / `mime.ParseMediaType`
  (go1.23 src/mime/mediatype.go, grammar.go) restricted to what mimetype uses:
  one media type and at most one parameter on formatting; arbitrary input on parsing
  for the type/subtype part, ASCII white space only.
-/
namespace Mime.MT
open Mime

def tspecials : Bytes := [40, 41, 60, 62, 64, 44, 59, 58, 92, 34, 47, 91, 93, 63, 61]  -- ()<>@,;:\"/[]?=

def isTSpecial (c : Nat) : Bool := tspecials.contains c
def isTokenChar (c : Nat) : Bool := c > 0x20 && c < 0x7F && !isTSpecial c
def isToken (s : Bytes) : Bool := !s.isEmpty && s.all isTokenChar

/-- `needsEncoding` (byte-level: any byte ≥ 0x80 decodes to a rune > '~') -/
def needsEncoding (s : Bytes) : Bool := s.any (fun b => (b < 0x20 || b > 0x7E) && b != 0x09)

def upperHex (n : Nat) : Nat := if n < 10 then 48 + n else 55 + n

def pctEncodeChar (ch : Nat) : Bytes :=
  if ch ≤ 0x20 || ch ≥ 0x7F || ch == 0x2A || ch == 0x27 || ch == 0x25 || isTSpecial ch then
    [0x25, upperHex (ch / 16), upperHex (ch % 16)]
  else [ch]

def pctEncode (v : Bytes) : Bytes := v.flatMap pctEncodeChar

def quoteChar (c : Nat) : Bytes := if c == 0x22 || c == 0x5C then [0x5C, c] else [c]
def quoteBody (v : Bytes) : Bytes := v.flatMap quoteChar

def lower (b : Bytes) : Bytes := b.map (fun c => if 0x41 ≤ c && c ≤ 0x5A then c + 0x20 else c)

def utf8pp : Bytes := [117, 116, 102, 45, 56, 39, 39]  -- utf-8''

/-- the serialised value part after `attribute`: `=tok`, `="quoted"` or `*=utf-8''%XX` -/
def formatValue (v : Bytes) : Bytes :=
  if needsEncoding v then [0x2A, 0x3D] ++ utf8pp ++ pctEncode v
  else if isToken v then 0x3D :: v
  else [0x3D, 0x22] ++ quoteBody v ++ [0x22]

/-- split at the first '/' -/
def cutSlash : Bytes → Option (Bytes × Bytes)
  | [] => none
  | c :: cs => if c == 0x2F then some ([], cs) else (cutSlash cs).map (fun (a, b) => (c :: a, b))

/-- `FormatMediaType(t, {attr: v})` with one (ASCII token) attribute; `[]` = "" (failure) -/
def format1 (t attr v : Bytes) : Bytes :=
  let head : Option Bytes :=
    match cutSlash t with
    | none => if isToken t then some (lower t) else none
    | some (major, sub) => if isToken major && isToken sub then some (lower major ++ [0x2F] ++ lower sub) else none
  match head with
  | none => []
  | some h => if !isToken attr then [] else h ++ [0x3B, 0x20] ++ lower attr ++ formatValue v

def kCharset : Bytes := [99, 104, 97, 114, 115, 101, 116]

/-- `clone(ps)`: the leaf's String() -/
def withCharset (mime cs : Bytes) : Bytes := if cs.isEmpty then mime else format1 mime kCharset cs

/-! ### `mime.ParseMediaType` -/

def isSp (c : Nat) : Bool := c == 0x20 || c == 0x09 || c == 0x0A || c == 0x0B || c == 0x0C || c == 0x0D

def trimLeft (b : Bytes) : Bytes := b.dropWhile isSp
def trim (b : Bytes) : Bytes := ((b.dropWhile isSp).reverse.dropWhile isSp).reverse

/-- `consumeToken` -/
def consumeToken : Bytes → Bytes × Bytes
  | [] => ([], [])
  | c :: cs => if isTokenChar c then let (t, r) := consumeToken cs; (c :: t, r) else ([], c :: cs)

/-- `checkMediaTypeDisposition` -/
def checkType (s : Bytes) : Bool :=
  let (typ, rest) := consumeToken s
  if typ.isEmpty then false
  else if rest.isEmpty then true
  else match rest with
    | 0x2F :: r =>
      let (sub, rest2) := consumeToken r
      !sub.isEmpty && rest2.isEmpty
    | _ => false

def cutSemi : Bytes → Bytes × Bytes
  | [] => ([], [])
  | c :: cs => if c == 0x3B then ([], c :: cs) else let (a, b) := cutSemi cs; (c :: a, b)

/-- the quoted-string loop of `consumeValue` (after the opening quote); `none` = no closing quote / CR / LF -/
def unquote : Bytes → Bytes → Option (Bytes × Bytes)
  | [], _ => none
  | c :: cs, acc =>
    if c == 0x22 then some (acc.reverse, cs)
    else if c == 0x5C then
      match cs with
      | d :: ds => if isTSpecial d then unquote ds (d :: acc) else unquote (d :: ds) (c :: acc)
      | [] => unquote [] (c :: acc)
    else if c == 0x0D || c == 0x0A then none
    else unquote cs (c :: acc)

/-- `consumeValue` : `("", v)` on failure is rendered as `none` -/
def consumeValue (v : Bytes) : Option (Bytes × Bytes) :=
  match v with
  | [] => none
  | 0x22 :: r => unquote r []
  | _ =>
    let (t, r) := consumeToken v
    if t.isEmpty then none else some (t, r)

/-- `consumeMediaParam` -/
def consumeParam (v : Bytes) : Option (Bytes × Bytes × Bytes) :=
  match trimLeft v with
  | 0x3B :: r =>
    let (p, r1) := consumeToken (trimLeft r)
    if p.isEmpty then none else
    match trimLeft r1 with
    | 0x3D :: r2 =>
      match consumeValue (trimLeft r2) with
      | some (val, r3) => some (lower p, val, r3)
      | none => none
    | _ => none
  | _ => none

def unhex1 (c : Nat) : Option Nat :=
  if 0x30 ≤ c && c ≤ 0x39 then some (c - 0x30)
  else if 0x61 ≤ c && c ≤ 0x66 then some (c - 0x61 + 10)
  else if 0x41 ≤ c && c ≤ 0x46 then some (c - 0x41 + 10)
  else none

/-- `percentHexUnescape` -/
def pctDecode : Bytes → Option Bytes
  | [] => some []
  | 0x25 :: a :: b :: r =>
    match unhex1 a, unhex1 b, pctDecode r with
    | some x, some y, some t => some ((x * 16 + y) :: t)
    | _, _, _ => none
  | 0x25 :: _ => none
  | c :: r => (pctDecode r).map (c :: ·)

def splitQuote : Bytes → Option (Bytes × Bytes)
  | [] => none
  | c :: cs => if c == 0x27 then some ([], cs) else (splitQuote cs).map (fun (a, b) => (c :: a, b))

/-- `decode2231Enc` -/
def decode2231 (v : Bytes) : Option Bytes :=
  match splitQuote v with
  | none => none
  | some (cs, r) =>
    match splitQuote r with
    | none => none
    | some (_, enc) =>
      let c := lower cs
      if c.isEmpty then none
      else if c != [117, 115, 45, 97, 115, 99, 105, 105] && c != [117, 116, 102, 45, 56] then none
      else pctDecode enc

inductive PErr | none | invalidParam | noType | duplicate
  deriving Repr, DecidableEq

/-- the parameter loop: `.none` with the parameters, `.invalidParam`, or `.duplicate`
    (continuations `x*0` are not modelled) -/
def parseParams : Nat → Bytes → List (Bytes × Bytes) → PErr × List (Bytes × Bytes)
  | 0, _, acc => (.none, acc.reverse)
  | fuel + 1, v, acc =>
    let v1 := trimLeft v
    if v1.isEmpty then (.none, acc.reverse) else
    match consumeParam v1 with
    | none => if trim v1 == [0x3B] then (.none, acc.reverse) else (.invalidParam, [])
    | some (k, val, rest) =>
      if acc.any (fun q => q.1 == k && q.2 != val) then (.duplicate, [])
      else parseParams fuel rest ((k, val) :: acc)

/-- `mime.ParseMediaType(v)`: (mediatype, params, error class).  Parameter names ending in
    `*` are RFC 2231 single-part values and are decoded. -/
def parse (v : Bytes) : Bytes × List (Bytes × Bytes) × PErr :=
  let (base, rest) := cutSemi v
  let mt := trim (lower base)
  if !checkType mt then ([], [], .noType) else
  match parseParams (v.length + 1) rest [] with
  | (.invalidParam, _) => (mt, [], .invalidParam)
  | (.duplicate, _) => ([], [], .duplicate)
  | (_, ps) =>
    -- keys containing '*' are RFC 2231 pieces: `name*` is a single encoded value; anything
    -- else that is not a numbered continuation (`name*0`, not modelled) is dropped
    let decoded := ps.filterMap fun (k, val) =>
      if k.contains 0x2A then
        (if k.getLast? == some 0x2A && !(k.dropLast.contains 0x2A) then
          match decode2231 val with
          | some d => some (k.dropLast, d)
          | none => none
        else none)
      else some (k, val)
    (mt, decoded, .none)

/-- the type/subtype `Is` and `EqualsAny` compare -/
def typeOf (v : Bytes) : Bytes := (parse v).1

end Mime.MT
