import MimeModel.Basic
/-
  Byte-level model of Go's `mime.FormatMediaType` / `mime.ParseMediaType`
  (go1.23 src/mime/mediatype.go, grammar.go) restricted to what mimetype uses:
  one media type and at most one parameter on formatting; arbitrary input on parsing
  for the type/subtype part, ASCII white space only.
-/
namespace Mime.MT
open Mime

def tspecials : Bytes := [40, 41, 60, 62, 64, 44, 59, 58, 92, 34, 47, 91, 93, 63, 61]  -- ()<>@,;:\"/[]?=

def isTSpecial (c : Nat) : Bool := tspecials.contains c
def isTokenChar (c : Nat) : Bool := c > 0x20 && c < 0x7F && !isTSpecial c
def isToken (s : Bytes) : Bool := !s.isEmpty && s.all isTokenChar

/-- `needsEncoding` (byte-level: any byte ≥ 0x80 decodes to a rune > '~') -/
def needsEncoding (s : Bytes) : Bool := s.any (fun b => (b < 0x20 || b > 0x7E) && b != 0x09)

def upperHex (n : Nat) : Nat := if n < 10 then 48 + n else 55 + n

def pctEncodeChar (ch : Nat) : Bytes :=
  if ch ≤ 0x20 || ch ≥ 0x7F || ch == 0x2A || ch == 0x27 || ch == 0x25 || isTSpecial ch then
    [0x25, upperHex (ch / 16), upperHex (ch % 16)]
  else [ch]

def pctEncode (v : Bytes) : Bytes := v.flatMap pctEncodeChar

def quoteChar (c : Nat) : Bytes := if c == 0x22 || c == 0x5C then [0x5C, c] else [c]
def quoteBody (v : Bytes) : Bytes := v.flatMap quoteChar

def lower (b : Bytes) : Bytes := b.map (fun c => if 0x41 ≤ c && c ≤ 0x5A then c + 0x20 else c)

def utf8pp : Bytes := [117, 116, 102, 45, 56, 39, 39]  -- utf-8''

/-- the serialised value part after `attribute`: `=tok`, `="quoted"` or `*=utf-8''%XX` -/
def formatValue (v : Bytes) : Bytes :=
  if needsEncoding v then [0x2A, 0x3D] ++ utf8pp ++ pctEncode v
  else if isToken v then 0x3D :: v
  else [0x3D, 0x22] ++ quoteBody v ++ [0x22]

/-- split at the first '/' -/
def cutSlash : Bytes → Option (Bytes × Bytes)
  | [] => none
  | c :: cs => if c == 0x2F then some ([], cs) else (cutSlash cs).map (fun (a, b) => (c :: a, b))

/-- `FormatMediaType(t, {attr: v})` with one (ASCII token) attribute; `[]` = "" (failure) -/
def format1 (t attr v : Bytes) : Bytes :=
  let head : Option Bytes :=
    match cutSlash t with
    | none => if isToken t then some (lower t) else none
    | some (major, sub) => if isToken major && isToken sub then some (lower major ++ [0x2F] ++ lower sub) else none
  match head with
  | none => []
  | some h => if !isToken attr then [] else h ++ [0x3B, 0x20] ++ lower attr ++ formatValue v

def kCharset : Bytes := [99, 104, 97, 114, 115, 101, 116]

/-- `clone(ps)`: the leaf's String() -/
def withCharset (mime cs : Bytes) : Bytes := if cs.isEmpty then mime else format1 mime kCharset cs

end Mime.MT
