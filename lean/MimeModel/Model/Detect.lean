import MimeModel.Model.Tree
import MimeModel.Model.Custom
/-
  Model of `Detect` (mimetype.go) and `(*MIME).match` / `clone` / `cloneHierarchy`
  (mime.go) over an arbitrary tree of `Info` nodes.
-/
namespace Mime
open Mime.Cust

/-- external code the detection depends on: unmodelled signature checks and the two
    tokenizers used by charset detection -/
structure Ext where
  cust : Custom → Bytes → Nat → Bool
  htmlToks : Bytes → List Charset.Tag
  xmlInst : Bytes → Option Bytes

/-- does node `i`'s detector accept header `h` (a panic counts as "no") -/
def accepts (ext : Ext) (h : Bytes) (lim : Nat) (i : Info) : Bool :=
  detEval ext.cust i.det h lim == some true

def mimeTextPlain : Bytes := [116, 101, 120, 116, 47, 112, 108, 97, 105, 110]
def mimeTextHtml : Bytes := [116, 101, 120, 116, 47, 104, 116, 109, 108]
def mimeTextXml : Bytes := [116, 101, 120, 116, 47, 120, 109, 108]
def mimeOctet : Bytes :=
  [97, 112, 112, 108, 105, 99, 97, 116, 105, 111, 110, 47, 111, 99, 116, 101, 116, 45, 115, 116, 114, 101, 97, 109]

/-- the `needsCharset` step of `match` -/
def charsetFor (ext : Ext) (mime h : Bytes) : Bytes :=
  if mime == mimeTextPlain then Charset.fromPlain h
  else if mime == mimeTextHtml then Charset.fromHTML h (ext.htmlToks h)
  else if mime == mimeTextXml then Charset.fromXML h (ext.xmlInst h)
  else []

/-- a detection result: the cloned hierarchy (leaf first) and the leaf's charset parameter -/
structure Result where
  chain : List Info
  charset : Bytes

/-- `root.match(in, l)` after the slicing of `Detect`: the walked path reversed (leaf first) -/
def detect (ext : Ext) (T : Tree Info) (x : Bytes) (lim : Nat) : Result :=
  let h := header x lim
  let path := T.walk (accepts ext h lim)
  let chain := path.reverse
  { chain := chain
    charset := match chain with
      | [] => []
      | leaf :: _ => charsetFor ext leaf.mime h }

end Mime
