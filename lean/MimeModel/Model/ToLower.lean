import MimeModel.Model.ToLowerTable
import MimeModel.Model.MediaTypeU
import MimeModel.Model.Charset
/-
  `strings.ToLower` on ARBITRARY byte strings, as go1.23.5 computes it (src/strings/strings.go
  `ToLower`, `Map`; src/unicode/letter.go `ToLower`; Unicode 15.0.0 tables, regenerated into
  Model/ToLowerTable.lean by tools/gen_tolower.go.txt).

    func ToLower(s string) string {
        isASCII, hasUpper := ...                       // one pass over the BYTES
        if isASCII { if !hasUpper { return s }; ...'A'..'Z' += 'a'-'A'... }   -- `Charset.lowerASCII`
        return Map(unicode.ToLower, s)
    }

  `Map(mapping, s)` ranges over `s` as `for i, c := range s` does (`MTU.runes`: an invalid byte is
  U+FFFD of width 1).  Its first loop looks for the first rune that changes OR is an invalid byte
  (`c == RuneError` with `DecodeRuneInString` width 1); when there is none `s` itself is returned
  (then every rune is valid and unchanged, so re-encoding the rune sequence gives `s` back: this is
  `MTU.decode1_encode`); otherwise everything from that rune on is written with `WriteRune(mapping(c))`
  / `WriteByte`, an invalid byte as `WriteRune(U+FFFD)` = EF BF BD.  `unicode.ToLower` never returns
  a negative rune, so no rune is dropped.  Hence for every `s`

      ToLower(s) = concat [ utf8.AppendRune(unicode.ToLower(c)) | c <- runes s ]          (*)

  `goToLower` is written with the ASCII fast path, as Go is; `goToLower_eq_map` (Lemmas/ToLower.lean)
  proves that the fast path is an instance of (*), so (*) holds for every byte string.

  NOT a special-casing lower-caser: `unicode.ToLower` is the simple one-rune-to-one-rune mapping
  (no SpecialCasing.txt): U+0130 -> 'i' WITHOUT U+0307, final sigma is not contextual
  (U+03A3 -> U+03C3 always), no locale (Turkish I -> i).  The byte length can change:
  U+023A -> U+2C65 and U+023E -> U+2C66 grow from 2 to 3 bytes (the only two), 23 runes shrink
  (e.g. U+212A -> 'k', U+1E9E -> U+00DF, U+2C62 -> U+026B), and every invalid byte grows to 3.
-/
namespace Mime.Lower
open Mime Mime.MTU

/-- `List.lookup` with a structurally recursive, kernel-friendly definition -/
def lookupTab : List (Nat × Nat) → Nat → Option Nat
  | [], _ => none
  | (k, v) :: rest, r => if r == k then some v else lookupTab rest r

/-- `unicode.ToLower` (go1.23.5, Unicode 15.0.0) on every natural number: runes without an entry
    -- caseless or already lower case, surrogates, values > 0x10FFFF -- are fixed, as in Go -/
def toLowerRune (r : Nat) : Nat :=
  match lookupTab lowerTab r with
  | some l => l
  | none => r

/-- the general path: `strings.Map(unicode.ToLower, s)` -/
def mapLower (s : Bytes) : Bytes := (runes s).flatMap (fun r => encodeRune (toLowerRune r))

/-- `[]byte(strings.ToLower(string(s)))` -/
def goToLower (s : Bytes) : Bytes :=
  if s.all (fun b => b < 0x80) then Charset.lowerASCII s else mapLower s

end Mime.Lower
