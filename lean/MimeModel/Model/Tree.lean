import MimeModel.Model.Det
/-
  The detector tree and the operations of mime.go on it:
  `match` (walk), `flatten`, `lookup`, `Extend`.  Generic in the node payload.
-/
namespace Mime

inductive Tree (α : Type) where
  | node (a : α) (cs : List (Tree α))
  deriving Repr

namespace Tree
variable {α : Type}

def info : Tree α → α | .node a _ => a
def children : Tree α → List (Tree α) | .node _ cs => cs

mutual
/-- mime.go `(*MIME).match`: the path walked, root first.  `acc` is the verdict of a
    node's detector on the (fixed) examined header. -/
def walk (acc : α → Bool) : Tree α → List α
  | .node a cs => a :: walkList acc cs
def walkList (acc : α → Bool) : List (Tree α) → List α
  | [] => []
  | c :: cs => if acc c.info then walk acc c else walkList acc cs
end

mutual
/-- the same walk, also returning the detectors consulted, in order, with their verdicts -/
def walkTrace (acc : α → Bool) : Tree α → List (α × Bool)
  | .node _ cs => walkTraceList acc cs
def walkTraceList (acc : α → Bool) : List (Tree α) → List (α × Bool)
  | [] => []
  | c :: cs =>
    if acc c.info then (c.info, true) :: walkTrace acc c
    else (c.info, false) :: walkTraceList acc cs
end

mutual
/-- mime.go `flatten` -/
def flatten : Tree α → List α
  | .node a cs => a :: flattenList cs
def flattenList : List (Tree α) → List α
  | [] => []
  | c :: cs => flatten c ++ flattenList cs
end

mutual
/-- mime.go `lookup`: depth-first, first node for which `p` holds, with its ancestors
    (root first) -/
def lookup (p : α → Bool) : Tree α → Option (List α)
  | .node a cs => if p a then some [a] else (lookupList p cs).map (a :: ·)
def lookupList (p : α → Bool) : List (Tree α) → Option (List α)
  | [] => none
  | c :: cs => match lookup p c with
    | some r => some r
    | none => lookupList p cs
end

mutual
/-- `Extend` on the node reached by the child-index path: prepend `e` to its children.
    `none` when the path does not exist. -/
def extendAt (e : Tree α) : List Nat → Tree α → Option (Tree α)
  | [], .node a cs => some (.node a (e :: cs))
  | i :: is, .node a cs => (extendAtList e i is cs).map (.node a)
def extendAtList (e : Tree α) : Nat → List Nat → List (Tree α) → Option (List (Tree α))
  | _, _, [] => none
  | 0, is, c :: cs => (extendAt e is c).map (· :: cs)
  | i + 1, is, c :: cs => (extendAtList e i is cs).map (c :: ·)
end

mutual
def height : Tree α → Nat
  | .node _ cs => heightList cs + 1
def heightList : List (Tree α) → Nat
  | [] => 0
  | c :: cs => max (height c) (heightList cs)
end

end Tree

/-- payload of the built-in tree -/
structure Info where
  name : String          -- Go variable name (printing only)
  detName : String       -- magic function name (printing only)
  mime : Bytes
  ext : Bytes
  aliases : List Bytes
  det : Det
  deriving Repr

end Mime
