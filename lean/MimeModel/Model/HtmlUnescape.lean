import MimeModel.Model.HtmlEntities
/-
  Byte-level transliteration of `unescapeEntity(b, dst, src, attribute)` and
  `unescape(b, attribute)` of golang.org/x/net/html v0.39.0 (escape.go): character references.
  `Tokenizer.TagAttr` returns `unescape(convertNewlines(val), true)`; `Tokenizer.Text` and
  `html.UnescapeString` use `attribute = false`.  `attribute` is a parameter of the model.

  Imports only `MimeModel.Basic` (through the generated tables), so the tokenizer model can use it;
  the glue (`startTagsFull`, `fromHTMLBytesFull`) is in `MimeModel/Model/HtmlTokFull.lean`.

  The Go code works IN PLACE (`dst <= src` cursors into the same slice).  That is the same as
  the functional reading "output bytes, rest of the input" as long as no reference decodes to
  more bytes than it consumes (`TestEntityLength` of entity_test.go: that is why `nLt;` and
  `nGt;` are commented out of `entity2`; numeric: `&#0` (3 bytes) -> EF BF BD is the tight case).
  The model is the functional reading: `unescapeEntity attr s = (written bytes, i)` for
  `s = b[src:]`, `src1 = src + i`.

  Validated against the real tokenizer / `html.UnescapeString`
  (tools/html_unescape_validation_test.go.txt, UnescDriver.lean).
-/
namespace Mime.HtmlEnt
open Mime

/-- `'0' <= c && c <= '9'` -/
def isDigit (c : Nat) : Bool := 0x30 ≤ c && c ≤ 0x39

/-- `'a' <= c && c <= 'z' || 'A' <= c && c <= 'Z' || '0' <= c && c <= '9'` -/
def isAlnum (c : Nat) : Bool :=
  (0x61 ≤ c && c ≤ 0x7A) || (0x41 ≤ c && c ≤ 0x5A) || (0x30 ≤ c && c ≤ 0x39)

/-- the value of a digit of a numeric reference, `none` = not a digit in this base -/
def digitVal (hex : Bool) (c : Nat) : Option Nat :=
  if 0x30 ≤ c && c ≤ 0x39 then some (c - 0x30)
  else if hex && 0x61 ≤ c && c ≤ 0x66 then some (c - 0x61 + 10)
  else if hex && 0x41 ≤ c && c ≤ 0x46 then some (c - 0x41 + 10)
  else none

/-- `x` is a `rune` = int32 and `x = 16*x + …` wraps silently: the accumulator is kept as the
    32-bit pattern (two's complement), i.e. modulo 2^32 -/
def wrap32 (x : Nat) : Nat := x % 4294967296

/-- the digit loop of a numeric reference, from `s[i:]` on: the accumulated value and the number
    of bytes consumed, the terminating `;` included when there is one -/
def scanNum (hex : Bool) : Nat → Bytes → Nat × Nat
  | x, [] => (x, 0)
  | x, c :: r =>
    match digitVal hex c with
    | some d =>
      let p := scanNum hex (wrap32 ((if hex then 16 else 10) * x + d)) r
      (p.1, p.2 + 1)
    | none => if c == 0x3B then (x, 1) else (x, 0)

/-- `utf8.EncodeRune(p, r)` for `uint32(r) = i` (negative runes, surrogates and values above
    U+10FFFF are written as U+FFFD) -/
def encodeRune (i : Nat) : Bytes :=
  if i ≤ 0x7F then [i]
  else if i ≤ 0x7FF then [0xC0 + i / 64, 0x80 + i % 64]
  else if i > 0x10FFFF || (0xD800 ≤ i && i ≤ 0xDFFF) then [0xEF, 0xBF, 0xBD]
  else if i ≤ 0xFFFF then [0xE0 + i / 4096, 0x80 + i / 64 % 64, 0x80 + i % 64]
  else [0xF0 + i / 262144, 0x80 + i / 4096 % 64, 0x80 + i / 64 % 64, 0x80 + i % 64]

/-- the fix-up of a numeric reference; `x` is the 32-bit pattern of the int32 accumulator.
    A negative accumulator (`x ≥ 2^31`) passes all three signed comparisons of escape.go
    unchanged and is turned into U+FFFD by `utf8.EncodeRune`: same bytes. -/
def fixRune (x : Nat) : Nat :=
  if 0x80 ≤ x && x ≤ 0x9F then replacementTable.getD (x - 0x80) 0xFFFD
  else if x == 0 || (0xD800 ≤ x && x ≤ 0xDFFF) || x > 0x10FFFF then 0xFFFD
  else x

/-- the name loop: number of bytes of `[a-zA-Z0-9]*` plus one for a `;` that follows -/
def scanName : Bytes → Nat
  | [] => 0
  | c :: r => if isAlnum c then scanName r + 1 else if c == 0x3B then 1 else 0

/-- `for j := maxLen; j > 1; j-- { if x := entity[entityName[:j]]; x != 0 { … } }` -/
def prefixLoop (name : Bytes) : Nat → Option (Nat × Nat)
  | 0 => none
  | j + 1 =>
    if j + 1 > 1 then
      match entity.lookup (name.take (j + 1)) with
      | some x => some (x, j + 1)
      | none => prefixLoop name j
    else none

/-- `unescapeEntity(b, dst, src, attribute)` with `s = b[src:]` (`s[0] == '&'`):
    the bytes written at `dst` and `i = src1 - src` -/
def unescapeEntity (attr : Bool) (s : Bytes) : Bytes × Nat :=
  if s.length ≤ 1 then (s.take 1, 1)
  else if s.getD 1 0 == 0x23 then
    if s.length ≤ 3 then (s.take 1, 1)              -- "We need to have at least `&#.`" (sic: 4 bytes)
    else
      let hex := s.getD 2 0 == 0x78 || s.getD 2 0 == 0x58
      let i0 := if hex then 3 else 2
      let p := scanNum hex 0 (s.drop i0)
      let i := i0 + p.2
      if i ≤ 3 then (s.take 1, 1)                   -- "No characters matched." (sic: see the lemmas file)
      else (encodeRune (fixRune p.1), i)
  else
    let i := 1 + scanName (s.drop 1)
    let name := (s.take i).drop 1
    if name == [] then (s.take i, i)
    else if attr && name.getLast? != some 0x3B && s[i]? == some 0x3D then (s.take i, i)
    else
      match entity.lookup name with
      | some x => (encodeRune x, i)
      | none =>
        match entity2.lookup name with
        | some x => (encodeRune x.1 ++ encodeRune x.2, i)
        | none =>
          if !attr then
            match prefixLoop name (min (name.length - 1) longestEntityWithoutSemicolon) with
            | some (x, j) => (encodeRune x, j + 1)
            | none => (s.take i, i)
          else (s.take i, i)

/-- the copy loop of `unescape` from the first `&` on; `fuel ≥ b.length` is enough since
    `unescapeEntity` consumes at least one byte (`Lemmas/HtmlUnescape.lean`: `unescapeLoop_fuel`) -/
def unescapeLoop (attr : Bool) : Nat → Bytes → Bytes
  | 0, b => b
  | _ + 1, [] => []
  | fuel + 1, c :: r =>
    if c == 0x26 then
      let p := unescapeEntity attr (c :: r)
      p.1 ++ unescapeLoop attr fuel ((c :: r).drop p.2)
    else c :: unescapeLoop attr fuel r

/-- `unescape(b, attribute)`: `b` itself when it has no `&` -/
def unescape (attr : Bool) (b : Bytes) : Bytes :=
  if b.contains 0x26 then unescapeLoop attr b.length b else b

end Mime.HtmlEnt
