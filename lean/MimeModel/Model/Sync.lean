import MimeModel.Model.SyncEv
/-
  Abstract semantics of the locking protocol of mimetype.go / mime.go.

  Shared state: the detector tree (every `children` slice), guarded by one RWMutex; the
  read limit, touched only through sync/atomic.  A thread runs a program: a list of
  protocol steps.  The steps of an API function are obtained from the event list the
  extractor regenerates (`Gen/Sync.lean`) by `compile`, which moves deferred unlocks to the
  end and expands a call of `root.match` / `root.lookup` into a tree read, a call of
  `(*MIME).Extend`'s body into tree read + tree write.

  The interleaving semantics is the usual one: any enabled step of any thread.
-/
namespace Mime.Sync

inductive Step
  | rlock | runlock | lock | unlock
  | treeRead        -- reads some `children` slice / node field reachable from root
  | treeWrite       -- assigns some `children` slice
  | atomicLimit     -- atomic load/store of readLimit
  | localWork       -- touches only thread-local data
  deriving Repr, DecidableEq

structure Thread where
  prog : List Step
  holdsR : Bool
  holdsW : Bool
  deriving Repr

structure State where
  readers : Nat
  writer : Bool
  threads : List Thread
  deriving Repr

/-- is the next step of `t` enabled by the mutex -/
def enabled (σ : State) (t : Thread) : Bool :=
  match t.prog with
  | [] => false
  | .rlock :: _ => !σ.writer
  | .lock :: _ => !σ.writer && σ.readers == 0
  | _ :: _ => true

/-- effect of thread `i` taking its next step -/
def stepThread (σ : State) (t : Thread) : State × Thread :=
  match t.prog with
  | [] => (σ, t)
  | .rlock :: r => ({ σ with readers := σ.readers + 1 }, { t with prog := r, holdsR := true })
  | .runlock :: r => ({ σ with readers := σ.readers - 1 }, { t with prog := r, holdsR := false })
  | .lock :: r => ({ σ with writer := true }, { t with prog := r, holdsW := true })
  | .unlock :: r => ({ σ with writer := false }, { t with prog := r, holdsW := false })
  | _ :: r => (σ, { t with prog := r })

/-- one transition: thread number `i` moves -/
def step (σ : State) (i : Nat) : Option State :=
  match σ.threads[i]? with
  | none => none
  | some t =>
    if !enabled σ t then none else
    let (σ', t') := stepThread σ t
    some { σ' with threads := σ.threads.set i t' }

/-- a program respects the lock discipline, given what it holds at its start: tree reads
    only under the read or write lock, tree writes only under the write lock, locks are
    taken when not held and released when held, nothing is held at the end -/
def okProg : List Step → Bool → Bool → Bool
  | [], r, w => !r && !w
  | .rlock :: p, r, w => !r && !w && okProg p true w
  | .runlock :: p, r, w => r && okProg p false w
  | .lock :: p, r, w => !r && !w && okProg p r true
  | .unlock :: p, r, w => w && okProg p r false
  | .treeRead :: p, r, w => (r || w) && okProg p r w
  | .treeWrite :: p, r, w => w && okProg p r w
  | .atomicLimit :: p, r, w => okProg p r w
  | .localWork :: p, r, w => okProg p r w

def isTreeAccess : Step → Bool
  | .treeRead => true | .treeWrite => true | _ => false
def isTreeWrite : Step → Bool
  | .treeWrite => true | _ => false

/-- threads `i ≠ j` both have a tree access as their next step, at least one a write -/
def raceAt (σ : State) (i j : Nat) : Bool :=
  i != j &&
  match σ.threads[i]?, σ.threads[j]? with
  | some a, some b =>
    match a.prog, b.prog with
    | x :: _, y :: _ => isTreeAccess x && isTreeAccess y && (isTreeWrite x || isTreeWrite y)
    | _, _ => false
  | _, _ => false

/-- translation of the regenerated events of an API function into protocol steps -/
def compileEv : Ev → List Step
  | .atomicLoadLimit => [.atomicLimit]
  | .atomicStoreLimit => [.atomicLimit]
  | .rlock => [.rlock]
  | .runlock => [.runlock]
  | .lock => [.lock]
  | .unlock => [.unlock]
  | .callMatch => [.treeRead]
  | .callLookup => [.treeRead]
  | .readChildren => [.treeRead]
  | .readField _ _ => [.treeRead]
  | .writeField _ "children" => [.treeWrite]
  | .writeField _ _ => [.localWork]
  | .plainReadLimit => [.treeWrite]      -- a plain access to readLimit is treated as an unprotected write: never ok
  | .plainWriteLimit => [.treeWrite]
  | .appendToField _ => [.treeWrite]     -- append to a shared slice may write its backing array
  | .deferRUnlock => []
  | .deferUnlock => []
  | .callExtend => []
  | .callDetectReader => []

def deferred : List Ev → List Step
  | [] => []
  | .deferRUnlock :: r => deferred r ++ [.runlock]
  | .deferUnlock :: r => deferred r ++ [.unlock]
  | _ :: r => deferred r

def compile (evs : List Ev) : List Step := evs.flatMap compileEv ++ deferred evs

end Mime.Sync
