/-
  Synchronisation-relevant events of one API function body, in source order.
  `Gen/Sync.lean` (regenerated from mimetype.go / mime.go) lists them per function.
-/
namespace Mime

inductive Ev
  | atomicLoadLimit | atomicStoreLimit | plainReadLimit | plainWriteLimit
  | rlock | runlock | deferRUnlock | lock | unlock | deferUnlock
  | callMatch | callLookup | callExtend | callDetectReader
  | readChildren
  | writeField (recv field : String)
  | readField (recv field : String)
  | appendToField (field : String)
  deriving Repr, DecidableEq

end Mime
