import MimeModel.Model.Lines
/-
  internal/magic/text.go `Srt`, together with the part of Go's `time.Parse`
  (go 1.23.5, src/time/format.go) that it exercises.

  `Srt` calls `time.Parse("15:04:05,000", s)`.  `nextStdChunk` cuts that layout into

      prefix ""   stdHour                 ("15")   getnum(value, false): ONE or TWO digits
      prefix ":"  stdZeroMinute           ("04")   getnum(value, true) : exactly two digits
      prefix ":"  stdZeroSecond           ("05")   getnum(value, true) : exactly two digits
      prefix ""   stdFracSecond0(3, ',')  (",000") parseNanoseconds(value, 4)
      prefix ""   0                                "extra text" unless the value is used up

  The special case inside `stdZeroSecond` ("fractional second in the input but not in the
  layout") looks at the next chunk of the layout, finds `stdFracSecond0` and does nothing.
  The separator recorded in the std code is only used for formatting: the parser accepts both
  `,` and `.` (`commaOrPeriod`).  The three "digits" go through `atoi`, which accepts a sign.

  Everything is structural recursion (one byte per step) so that the kernel evaluates closed
  instances (`decide`).  Go strings are byte strings here: there is no UTF-8 decoding anywhere
  on this path, bytes >= 0x80 and NUL are ordinary non-digits.
-/
namespace Mime.Srt
open Mime Mime.Cust

/-- value of a digit byte -/
def dv (c : Nat) : Nat := c - 0x30

/-- format.go `getnum(s, fixed)`: `none` = errBad, `some (n, rest)` otherwise -/
def getnum (fixed : Bool) : Bytes → Option (Nat × Bytes)
  | [] => none
  | a :: rest =>
    if isDigit a then
      match rest with
      | [] => if fixed then none else some (dv a, [])
      | b :: rest' =>
        if isDigit b then some (dv a * 10 + dv b, rest')
        else if fixed then none else some (dv a, b :: rest')
    else none

/-- format.go `skip(value, prefix)` for a one-byte prefix that is not a space -/
def skipByte (c : Nat) : Bytes → Option Bytes
  | [] => none
  | a :: rest => if a == c then some rest else none

/-- format.go `leadingInt` restricted to its use in `atoi` (the remainder has to be empty):
    `none` = overflow or a non-digit, `some x` = the whole string is digits with value `x`.
    `x` is Go's uint64 accumulator; the two overflow tests are kept. -/
def leadingIntAll : Nat → Bytes → Option Nat
  | x, [] => some x
  | x, c :: cs =>
    if isDigit c then
      if x > 2^63 / 10 then none
      else
        let x' := x * 10 + dv c
        if x' > 2^63 then none else leadingIntAll x' cs
    else none

/-- format.go `atoi` -/
def atoi : Bytes → Option Int
  | [] => some 0
  | c :: cs =>
    if c == 0x2D then (leadingIntAll 0 cs).map (fun x => - (Int.ofNat x))
    else if c == 0x2B then (leadingIntAll 0 cs).map Int.ofNat
    else (leadingIntAll 0 (c :: cs)).map Int.ofNat

def commaOrPeriod (c : Nat) : Bool := c == 0x2E || c == 0x2C

/-- format.go `parseNanoseconds(value, nbytes)` (callers guarantee `nbytes ≤ len(value)`,
    `1 ≤ nbytes`); `none` = errBad or the range error "fractional second" -/
def parseNanoseconds (value : Bytes) (nbytes : Nat) : Option Nat :=
  match value with
  | [] => none
  | c :: rest =>
    if commaOrPeriod c then
      let nb := if nbytes > 10 then 10 else nbytes
      match atoi (rest.take (nb - 1)) with
      | none => none
      | some ns => if ns < 0 then none else some (ns.toNat * 10 ^ (10 - nb))
    else none

/-- `time.Parse("15:04:05,000", value)`: `some ns` = success, the result is
    0000-01-01 00:00:00 UTC plus `ns` nanoseconds; `none` = any error. -/
def parseClock (value : Bytes) : Option Nat :=
  -- stdHour
  match getnum false value with
  | none => none
  | some (hour, v1) =>
  if 24 ≤ hour then none else
  -- prefix ":" , stdZeroMinute
  match skipByte 0x3A v1 with
  | none => none
  | some v2 =>
  match getnum true v2 with
  | none => none
  | some (min, v3) =>
  if 60 ≤ min then none else
  -- prefix ":" , stdZeroSecond
  match skipByte 0x3A v3 with
  | none => none
  | some v4 =>
  match getnum true v4 with
  | none => none
  | some (sec, v5) =>
  if 60 ≤ sec then none else
  -- stdFracSecond0, three digits
  if v5.length < 4 then none else
  match parseNanoseconds v5 4 with
  | none => none
  | some nsec =>
  -- end of layout: extra text
  if (v5.drop 4).isEmpty then some (((hour * 60 + min) * 60 + sec) * 10 ^ 9 + nsec) else none

/-- `" --> "` -/
def sep : Bytes := [0x20, 0x2D, 0x2D, 0x3E, 0x20]

/-- the checks `Srt` performs on the second line -/
def line2ok (line : Bytes) : Bool :=
  if line.length != 29 then false else
  if (indexByte 0x2E line).isSome then false else
  match indexOf sep line with
  | none => false
  | some i =>
    match parseClock (line.take i) with
    | none => false
    | some t0 =>
      match parseClock (line.drop (i + 5)) with
      | none => false
      | some t1 => if t0 > t1 then false else true

/-- text.go `Srt` -/
def srt (raw : Bytes) : Bool :=
  if (scanLine raw).1 != [0x31] then false else
  if !line2ok (scanLine (scanLine raw).2).1 then false else
  !(scanLine (scanLine (scanLine raw).2).2).1.isEmpty

end Mime.Srt
