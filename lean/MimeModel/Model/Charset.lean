import MimeModel.Gen.Charset
/-
  Hand-written executable model of internal/charset/charset.go
  (`FromBOM`, `FromPlain`, `latin`, `ascii`, `fromMetaElement`, `xmlEncoding`, the
  meta prescan of `fromHTML` over a token stream) and of the parts of `unicode/utf8`
  it uses.  The tables `boms` and `textChars` come from `Gen/Charset.lean`.
-/
namespace Mime.Charset
open Mime Mime.Gen.Charset

def csNone : Bytes := []
def csUtf8 : Bytes := [117, 116, 102, 45, 56]                               -- "utf-8"
def csLatin1 : Bytes := [105, 115, 111, 45, 56, 56, 53, 57, 45, 49]         -- "iso-8859-1"
def csWin1252 : Bytes := [119, 105, 110, 100, 111, 119, 115, 45, 49, 50, 53, 50] -- "windows-1252"

/-- `FromBOM` over an explicit table (first match wins) -/
def fromBOMIn : List (Bytes × Bytes) → Bytes → Bytes
  | [], _ => csNone
  | (bom, enc) :: rest, content => if hasPrefix content bom then enc else fromBOMIn rest content

def fromBOM (content : Bytes) : Bytes := fromBOMIn boms content

def isCont (b : Nat) : Bool := 0x80 ≤ b && b ≤ 0xBF

/-- `utf8.RuneStart(b)` : `b&0xC0 != 0x80` -/
def runeStart (b : Nat) : Bool := !isCont b

/-- model of `utf8.Valid` (RFC 3629 well-formed byte sequences) -/
def utf8Valid : Bytes → Bool
  | [] => true
  | a :: rest =>
    if a < 0x80 then utf8Valid rest
    else if 0xC2 ≤ a && a ≤ 0xDF then
      match rest with
      | b :: r => isCont b && utf8Valid r
      | _ => false
    else if a == 0xE0 then
      match rest with
      | b :: c :: r => (0xA0 ≤ b && b ≤ 0xBF) && isCont c && utf8Valid r
      | _ => false
    else if (0xE1 ≤ a && a ≤ 0xEC) || a == 0xEE || a == 0xEF then
      match rest with
      | b :: c :: r => isCont b && isCont c && utf8Valid r
      | _ => false
    else if a == 0xED then
      match rest with
      | b :: c :: r => (0x80 ≤ b && b ≤ 0x9F) && isCont c && utf8Valid r
      | _ => false
    else if a == 0xF0 then
      match rest with
      | b :: c :: d :: r => (0x90 ≤ b && b ≤ 0xBF) && isCont c && isCont d && utf8Valid r
      | _ => false
    else if 0xF1 ≤ a && a ≤ 0xF3 then
      match rest with
      | b :: c :: d :: r => isCont b && isCont c && isCont d && utf8Valid r
      | _ => false
    else if a == 0xF4 then
      match rest with
      | b :: c :: d :: r => (0x80 ≤ b && b ≤ 0x8F) && isCont c && isCont d && utf8Valid r
      | _ => false
    else false

/-- number of bytes the lead byte announces (Go's `first[b] & 7`; invalid leads count 1) -/
def leadSize (b : Nat) : Nat :=
  if b < 0x80 then 1 else if 0xC2 ≤ b && b ≤ 0xDF then 2 else if 0xE0 ≤ b && b ≤ 0xEF then 3
  else if 0xF0 ≤ b && b ≤ 0xF4 then 4 else 1

/-- accepted range of the second byte (Go's `acceptRanges`) -/
def secondOk (b0 b1 : Nat) : Bool :=
  if b0 == 0xE0 then 0xA0 ≤ b1 && b1 ≤ 0xBF
  else if b0 == 0xED then 0x80 ≤ b1 && b1 ≤ 0x9F
  else if b0 == 0xF0 then 0x90 ≤ b1 && b1 ≤ 0xBF
  else if b0 == 0xF4 then 0x80 ≤ b1 && b1 ≤ 0x8F
  else isCont b1

/-- model of `utf8.FullRune(p)`: an invalid encoding counts as a full (error) rune -/
def fullRune : Bytes → Bool
  | [] => false
  | [b0] => leadSize b0 ≤ 1
  | [b0, b1] => leadSize b0 ≤ 2 || !secondOk b0 b1
  | b0 :: b1 :: b2 :: rest => leadSize b0 ≤ 3 + rest.length || !secondOk b0 b1 || !isCont b2

/-- the "eliminate any partial rune at the end" loop of `FromPlain`
    (`for i := len-1; i >= 0 && i > len-4; i--`): the last rune start among the final
    three bytes is dropped, with what follows it, when it does not start a full rune -/
def stripPartial (content : Bytes) : Bytes :=
  match content.reverse with
  | [] => content
  | b1 :: r1 =>
    if b1 < 0x80 then content else
    if runeStart b1 then (if fullRune [b1] then content else r1.reverse) else
    match r1 with
    | [] => content
    | b2 :: r2 =>
      if b2 < 0x80 then content else
      if runeStart b2 then (if fullRune [b2, b1] then content else r2.reverse) else
      match r2 with
      | [] => content
      | b3 :: r3 =>
        if b3 < 0x80 then content else
        if runeStart b3 then (if fullRune [b3, b2, b1] then content else r3.reverse) else content

def textClass (b : Nat) : Nat := textChars.getD b 0

/-- `ascii(content)` -/
def ascii (content : Bytes) : Bool := content.all (fun b => !(b ≥ 0x80) && textClass b == cT)

/-- `latin(content)` -/
def latin (content : Bytes) : Bytes :=
  if content.all (fun b => textClass b == cT || textClass b == cI) then
    (if content.any (fun b => 0x80 ≤ b && b ≤ 0x9F) then csWin1252 else csLatin1)
  else csNone

/-- `FromPlain` -/
def fromPlain (content : Bytes) : Bytes :=
  if content.isEmpty then csNone else
  let cset := fromBOM content
  if cset != csNone then cset else
  let c := stripPartial content
  if c.any (fun b => b ≥ 0x80) && utf8Valid c then csUtf8
  else if ascii content then csUtf8
  else latin content

def lowerASCII (b : Bytes) : Bytes := b.map (fun c => if 0x41 ≤ c && c ≤ 0x5A then c + 0x20 else c)

def isMetaWS (c : Nat) : Bool := c == 0x20 || c == 0x09 || c == 0x0A || c == 0x0C || c == 0x0D

def kwCharset : Bytes := [99, 104, 97, 114, 115, 101, 116]   -- "charset"

def takeUntil (p : Nat → Bool) : Bytes → Bytes
  | [] => []
  | c :: cs => if p c then [] else c :: takeUntil p cs

/-- `fromMetaElement(s)`; fuel bounds the `for s != ""` loop (every iteration removes ≥ 7 bytes) -/
def fromMetaElementF : Nat → Bytes → Bytes
  | 0, _ => []
  | fuel + 1, s =>
    if s.isEmpty then [] else
    match indexOf kwCharset s with
    | none => []
    | some loc =>
      let s1 := (s.drop (loc + 7)).dropWhile isMetaWS
      match s1 with
      | [] => []            -- `continue` with s == "" ends the loop
      | c :: rest =>
        if c != 0x3D then fromMetaElementF fuel s1 else
        let s2 := rest.dropWhile isMetaWS
        match s2 with
        | [] => []
        | q :: s3 =>
          if q == 0x22 || q == 0x27 then
            (match indexByte q s3 with
             | none => []
             | some k => s3.take k)
          else takeUntil (fun c => c == 0x3B || isMetaWS c) s2

def fromMetaElement (s : Bytes) : Bytes := fromMetaElementF (s.length + 1) s

def kwEncodingEq : Bytes := [101, 110, 99, 111, 100, 105, 110, 103, 61]  -- "encoding="

/-- `xmlEncoding(s)` -/
def xmlEncoding (s : Bytes) : Bytes :=
  match indexOf kwEncodingEq s with
  | none => []
  | some idx =>
    match s.drop (idx + 9) with
    | [] => []
    | q :: v =>
      if q != 0x27 && q != 0x22 then [] else
      match indexByte q v with
      | none => []
      | some k => v.take k

/-- a start / self-closing tag as delivered by the x/net/html tokenizer -/
structure Tag where
  name : Bytes
  attrs : List (Bytes × Bytes)
  deriving Repr

inductive Need | dontKnow | doNeed | doNot
  deriving DecidableEq

def kHttpEquiv : Bytes := [104, 116, 116, 112, 45, 101, 113, 117, 105, 118]
def kContent : Bytes := [99, 111, 110, 116, 101, 110, 116]
def kContentType : Bytes := [99, 111, 110, 116, 101, 110, 116, 45, 116, 121, 112, 101]
def kMeta : Bytes := [109, 101, 116, 97]
def kUtf16 : Bytes := [117, 116, 102, 45, 49, 54]

/-- the attribute loop of `fromHTML` for one `<meta>` tag -/
def metaAttrs : List (Bytes × Bytes) → List Bytes → Bool → Need → Bytes → Bool × Need × Bytes
  | [], _, gotPragma, need, name => (gotPragma, need, name)
  | (k, v) :: rest, seen, gotPragma, need, name =>
    if seen.contains k then metaAttrs rest seen gotPragma need name else
    let v := lowerASCII v
    let seen := k :: seen
    if k == kHttpEquiv then
      metaAttrs rest seen (if v == kContentType then true else gotPragma) need name
    else if k == kContent then
      let n := fromMetaElement v
      metaAttrs rest seen gotPragma (if n != [] then .doNeed else need) n
    else if k == kwCharset then
      metaAttrs rest seen gotPragma .doNot v
    else metaAttrs rest seen gotPragma need name

/-- the prescan of `fromHTML` over the start tags up to the first error token -/
def fromHTMLToks : List Tag → Bytes
  | [] => []
  | t :: ts =>
    if t.name != kMeta then fromHTMLToks ts else
    let (gotPragma, need, name) := metaAttrs t.attrs [] false .dontKnow []
    if need == .dontKnow || (need == .doNeed && !gotPragma) then fromHTMLToks ts
    else if hasPrefix name kUtf16 then csUtf8 else name

/-- `FromHTML`, the tokenizer's output being a parameter -/
def fromHTML (content : Bytes) (toks : List Tag) : Bytes :=
  let b := fromBOM content
  if b != csNone then b else
  let h := fromHTMLToks toks
  if h != [] then h else fromPlain content

/-- `FromXML`; `inst` = `Inst` of the first raw token when it is a ProcInst -/
def fromXML (content : Bytes) (inst : Option Bytes) : Bytes :=
  let x := match inst with
    | none => []
    | some i => lowerASCII (xmlEncoding i)
  if x != [] then x else fromPlain content

end Mime.Charset
