import MimeModel.Basic
/-
  Model of the reader path of `DetectReader` (mimetype.go): a scripted `io.Reader`,
  `io.ReadFull` (= `io.ReadAtLeast(r, buf, len(buf))`) and `io.ReadAll`.

  A script fixes the content, the maximal size of each successive `Read` (0 allowed;
  once the list is used up a `Read` delivers everything asked for), whether the final
  data arrives together with `io.EOF`, and optionally an offset at which the reader
  fails with a sentinel error distinct from `io.EOF` / `io.ErrUnexpectedEOF`.
-/
namespace Mime.Reader
open Mime

structure Script where
  content : Bytes
  chunks : List Nat
  eofWithData : Bool
  errAt : Option Nat
  deriving Repr

inductive RErr | eof | sentinel
  deriving Repr, DecidableEq

structure RState where
  pos : Nat
  chunks : List Nat
  deriving Repr

/-- bytes that can be delivered at `pos` before the end of input / the failure offset -/
def avail (s : Script) (pos : Nat) : Nat :=
  match s.errAt with
  | some e => if e > pos then min (s.content.length - pos) (e - pos) else s.content.length - pos
  | none => s.content.length - pos

/-- size cap of the next `Read` and the remaining chunk list -/
def chunkOf (st : RState) (k : Nat) : Nat × List Nat :=
  match st.chunks with
  | [] => (k, [])
  | c :: cs => (c, cs)

def readD (s : Script) (st : RState) (k : Nat) : Nat := min k (min (chunkOf st k).1 (avail s st.pos))

/-- one `Read(p)` with `len(p) = k > 0` -/
def read (s : Script) (st : RState) (k : Nat) : Nat × Option RErr × RState :=
  if s.errAt == some st.pos then (0, some .sentinel, st) else
  if st.pos ≥ s.content.length then (0, some .eof, st) else
  let d := readD s st k
  (d,
   (if s.eofWithData && d > 0 && st.pos + d == s.content.length && s.errAt != some (st.pos + d) then some .eof else none),
   { pos := st.pos + d, chunks := (chunkOf st k).2 })

/-- the loop of `io.ReadAtLeast(r, buf, min)` with `min = len(buf) = l`;
    returns bytes delivered and the error the loop ended with -/
def readFullLoop (s : Script) : Nat → RState → Nat → Nat → Nat × Option RErr
  | 0, _, n, _ => (n, none)
  | fuel + 1, st, n, l =>
    if n ≥ l then (n, none) else
    match read s st (l - n) with
    | (d, some e, _) => (n + d, some e)
    | (d, none, st') => readFullLoop s fuel st' (n + d) l

/-- `io.ReadFull`: `(n, err)` with Go's post-processing (`n >= min` clears the error;
    `io.EOF` after some data becomes `io.ErrUnexpectedEOF`, which we also class as `eof`) -/
def readFull (s : Script) (l : Nat) : Nat × Option RErr :=
  let (n, e) := readFullLoop s (s.chunks.length + s.content.length + 2) { pos := 0, chunks := s.chunks } 0 l
  if n ≥ l then (n, none) else (n, e)

/-- `io.ReadAll`: reads until an error; `io.EOF` is not an error.  The size of each
    request is Go's business (buffer growth); any positive request size gives the same
    bytes, so the model asks for everything that is left plus one. -/
def readAllLoop (s : Script) : Nat → RState → Nat → Nat × Option RErr
  | 0, _, n => (n, none)
  | fuel + 1, st, n =>
    match read s st (s.content.length + 1) with
    | (d, some .eof, _) => (n + d, none)
    | (d, some .sentinel, _) => (n + d, some .sentinel)
    | (d, none, st') => readAllLoop s fuel st' (n + d)

def readAll (s : Script) : Nat × Option RErr :=
  readAllLoop s (s.chunks.length + s.content.length + 2) { pos := 0, chunks := s.chunks } 0

/-- outcome of `DetectReader` up to the call of `match`: the bytes handed to `match`
    (`none`: `errMIME` is returned together with the sentinel error) and the number of
    bytes consumed from the reader -/
def detectReaderInput (s : Script) (lim : Nat) : Option Bytes × Nat :=
  if lim == 0 then
    match readAll s with
    | (n, some _) => (none, n)
    | (n, none) => (some (s.content.take n), n)
  else
    match readFull s lim with
    | (n, some .sentinel) => (none, n)
    | (n, _) => (some (s.content.take n), n)

end Mime.Reader
