import MimeModel.Model.Srt
/-
  Theorems about the model of `Srt` (internal/magic/text.go) and of
  `time.Parse("15:04:05,000", ·)` (MimeModel/Model/Srt.lean).

  Main statements
    parseClock_canonical / parseClock_bytes   canonical `hh:mm:ss,fff` parses to the expected time
    parseClock_length                         accepted strings have 11 or 12 bytes
    parseClock_12 / parseClock_11             closed forms on 12 / 11 bytes
    parseClock_12_some, frac3_some            exactly which 12-byte strings are accepted
    srt_forward (+ _text, _general)           well-formed files are detected
    srt_needs_third_line                      ... but only with a non-empty third line
    srt_sound, srt_spec                       what a detected file looks like (srt_spec: iff)
    srt_monotone, srt_lf, srt_two_lf          appending data keeps the detection (no side condition)
  and non-vacuity examples by `decide` at the end.
-/
namespace Mime.SrtLemmas
open Mime Mime.Cust Mime.Srt

/-! ### digits, `getnum`, `atoi`, `parseNanoseconds` on canonical input -/
theorem isDigit_dig {d : Nat} (h : d < 10) : isDigit (48 + d) = true := by
  simp [isDigit]; omega

theorem dv_dig (d : Nat) : dv (48 + d) = d := by simp [dv]
theorem leadingIntAll_3 {a b c : Nat} (ha : a < 10) (hb : b < 10) (hc : c < 10) :
    leadingIntAll 0 [48 + a, 48 + b, 48 + c] = some (a * 100 + b * 10 + c) := by
  simp only [leadingIntAll, isDigit_dig ha, isDigit_dig hb, isDigit_dig hc, dv_dig, ↓reduceIte]
  rw [if_neg (by omega), if_neg (by omega), if_neg (by omega), if_neg (by omega),
    if_neg (by omega), if_neg (by omega)]
  congr 1; omega
theorem dig_ne {d c : Nat} (h : d < 10) (hc : c < 48 ∨ 58 ≤ c) : (48 + d == c) = false := by
  rw [beq_eq_false_iff_ne]; omega
theorem atoi_3 {a b c : Nat} (ha : a < 10) (hb : b < 10) (hc : c < 10) :
    atoi [48 + a, 48 + b, 48 + c] = some (Int.ofNat (a * 100 + b * 10 + c)) := by
  simp only [atoi, dig_ne ha (c := 0x2D) (by omega), dig_ne ha (c := 0x2B) (by omega),
    leadingIntAll_3 ha hb hc]
  simp

theorem getnum_two (fixed : Bool) {a b : Nat} (ha : a < 10) (hb : b < 10) (rest : Bytes) :
    getnum fixed ((48 + a) :: (48 + b) :: rest) = some (a * 10 + b, rest) := by
  simp [getnum, isDigit_dig ha, isDigit_dig hb, dv_dig]

theorem skipByte_self (c : Nat) (rest : Bytes) : skipByte c (c :: rest) = some rest := by
  simp [skipByte]

theorem parseNanoseconds_3 {a b c : Nat} (ha : a < 10) (hb : b < 10) (hc : c < 10) (rest : Bytes) :
    parseNanoseconds (0x2C :: (48 + a) :: (48 + b) :: (48 + c) :: rest) 4
      = some ((a * 100 + b * 10 + c) * 10 ^ 6) := by
  simp [parseNanoseconds, commaOrPeriod, atoi_3 ha hb hc]
  omega

theorem parseClock_canonical (h1 h2 m1 m2 s1 s2 f1 f2 f3 : Nat)
    (dh1 : h1 < 10) (dh2 : h2 < 10) (dm1 : m1 < 10) (dm2 : m2 < 10) (ds1 : s1 < 10) (ds2 : s2 < 10)
    (df1 : f1 < 10) (df2 : f2 < 10) (df3 : f3 < 10)
    (hh : h1 * 10 + h2 < 24) (hm : m1 * 10 + m2 < 60) (hs : s1 * 10 + s2 < 60) :
    parseClock [48 + h1, 48 + h2, 0x3A, 48 + m1, 48 + m2, 0x3A, 48 + s1, 48 + s2, 0x2C,
        48 + f1, 48 + f2, 48 + f3]
      = some ((((h1 * 10 + h2) * 60 + (m1 * 10 + m2)) * 60 + (s1 * 10 + s2)) * 10 ^ 9
          + (f1 * 100 + f2 * 10 + f3) * 10 ^ 6) := by
  simp only [parseClock, getnum_two _ dh1 dh2, getnum_two _ dm1 dm2, getnum_two _ ds1 ds2,
    skipByte_self, parseNanoseconds_3 df1 df2 df3]
  rw [if_neg (by omega), if_neg (by omega), if_neg (by omega)]
  simp

/-! ### lines: `cutNL`, `dropCR`, `scanLine` -/


theorem cutNL_append_lf (l r : Bytes) (h : ∀ x ∈ l, x ≠ 0x0A) : cutNL (l ++ 0x0A :: r) = (l, r) := by
  induction l with
  | nil => simp [cutNL]
  | cons a as ih =>
    have ha : (a == 0x0A) = false := by rw [beq_eq_false_iff_ne]; exact h a (by simp)
    have := ih (fun x hx => h x (by simp [hx]))
    simp [cutNL, ha, this]

theorem cutNL_not_mem (p : Bytes) (h : ∀ x ∈ p, x ≠ 0x0A) : cutNL p = (p, []) := by
  induction p with
  | nil => simp [cutNL]
  | cons a as ih =>
    have ha : (a == 0x0A) = false := by rw [beq_eq_false_iff_ne]; exact h a (by simp)
    have := ih (fun x hx => h x (by simp [hx]))
    simp [cutNL, ha, this]

theorem cutNL_append_not_mem (p s : Bytes) (h : ∀ x ∈ p, x ≠ 0x0A) :
    cutNL (p ++ s) = (p ++ (cutNL s).1, (cutNL s).2) := by
  induction p with
  | nil => simp
  | cons a as ih =>
    have ha : (a == 0x0A) = false := by rw [beq_eq_false_iff_ne]; exact h a (by simp)
    have := ih (fun x hx => h x (by simp [hx]))
    simp [cutNL, ha, this]

theorem cutNL_append_mem (p s : Bytes) (h : 0x0A ∈ p) :
    cutNL (p ++ s) = ((cutNL p).1, (cutNL p).2 ++ s) := by
  induction p with
  | nil => simp at h
  | cons a as ih =>
    by_cases ha : a = 0x0A
    · subst ha; simp [cutNL]
    · have hb : (a == 0x0A) = false := by rw [beq_eq_false_iff_ne]; exact ha
      have hm : 0x0A ∈ as := by
        rcases List.mem_cons.1 h with h | h
        · exact absurd h.symm ha
        · exact h
      simp [cutNL, hb, ih hm]

theorem dropCR_eq_nil_iff (l : Bytes) : dropCR l = [] ↔ l = [] ∨ l = [0x0D] := by
  match l with
  | [] => simp [dropCR]
  | [a] => by_cases h : a = 0x0D <;> simp [dropCR, h]
  | a :: b :: t =>
    unfold dropCR; split <;> simp [List.dropLast]

theorem dropCR_append_ne_nil (p x : Bytes) (h : dropCR p ≠ []) : dropCR (p ++ x) ≠ [] := by
  intro hc
  apply h
  rw [dropCR_eq_nil_iff] at hc ⊢
  rcases hc with hc | hc
  · left; exact (List.append_eq_nil_iff.1 hc).1
  · match p, hc with
    | [], _ => left; rfl
    | [a], hc => right; simp at hc; simp [hc.1]
    | a :: b :: t, hc => simp at hc

theorem dropCR_of_last (l : Bytes) (h : l.getLast? ≠ some 0x0D) : dropCR l = l := by
  unfold dropCR; simp [h]

theorem dropCR_append_cr (l : Bytes) : dropCR (l ++ [0x0D]) = l := by
  unfold dropCR; simp

/-- a line terminator: LF or CRLF -/
def IsEol (e : Bytes) : Prop := e = [0x0A] ∨ e = [0x0D, 0x0A]

theorem scanLine_eol (l e r : Bytes) (he : IsEol e) (h : ∀ x ∈ l, x ≠ 0x0A ∧ x ≠ 0x0D) :
    scanLine (l ++ (e ++ r)) = (l, r) := by
  have hlast : l.getLast? ≠ some 0x0D := by
    intro hc
    exact (h _ (List.mem_of_getLast? hc)).2 rfl
  rcases he with rfl | rfl
  · simp only [scanLine, List.cons_append, List.nil_append,
      cutNL_append_lf l r (fun x hx => (h x hx).1), dropCR_of_last l hlast]
  · have : l ++ ([0x0D, 0x0A] ++ r) = (l ++ [0x0D]) ++ 0x0A :: r := by simp
    rw [this]
    simp only [scanLine]
    rw [cutNL_append_lf (l ++ [0x0D]) r (by
      intro x hx
      rcases List.mem_append.1 hx with hx | hx
      · exact (h x hx).1
      · simp at hx; omega)]
    simp [dropCR_append_cr]

theorem scanLine_fst_append_ne_nil (r s : Bytes) (h : (scanLine r).1 ≠ []) :
    (scanLine (r ++ s)).1 ≠ [] := by
  by_cases hm : 0x0A ∈ r
  · simpa [scanLine, cutNL_append_mem r s hm] using h
  · have hn : ∀ x ∈ r, x ≠ 0x0A := fun x hx hc => hm (hc ▸ hx)
    simp only [scanLine, cutNL_append_not_mem r s hn, cutNL_not_mem r hn] at h ⊢
    exact dropCR_append_ne_nil _ _ h

theorem scanLine_append_mem (p s : Bytes) (h : 0x0A ∈ p) :
    scanLine (p ++ s) = ((scanLine p).1, (scanLine p).2 ++ s) := by
  simp [scanLine, cutNL_append_mem p s h]

theorem scanLine_not_mem (p : Bytes) (h : 0x0A ∉ p) : (scanLine p).2 = [] := by
  have hn : ∀ x ∈ p, x ≠ 0x0A := fun x hx hc => h (hc ▸ hx)
  simp [scanLine, cutNL_not_mem p hn]

/-! ### `bytes.IndexByte`, `bytes.Index` -/

theorem indexByte_none_of (c : Nat) (l : Bytes) (h : ∀ x ∈ l, x ≠ c) : indexByte c l = none := by
  induction l with
  | nil => rfl
  | cons a as ih =>
    have ha : (a == c) = false := by rw [beq_eq_false_iff_ne]; exact h a (by simp)
    simp [indexByte, ha, ih (fun x hx => h x (by simp [hx]))]

theorem not_mem_of_indexByte_none (c : Nat) (l : Bytes) (h : indexByte c l = none) : ∀ x ∈ l, x ≠ c := by
  induction l with
  | nil => simp
  | cons a as ih =>
    simp only [indexByte] at h
    by_cases ha : a = c
    · simp [ha] at h
    · have hb : (a == c) = false := by rw [beq_eq_false_iff_ne]; exact ha
      simp [hb] at h
      intro x hx
      rcases List.mem_cons.1 hx with rfl | hx
      · exact ha
      · exact ih h x hx

/-- `bytes.Index` returns a position where the separator occurs -/
theorem indexOf_some (s : Bytes) : ∀ (l : Bytes) (i : Nat), indexOf s l = some i →
    l = l.take i ++ s ++ l.drop (i + s.length) := by
  intro l
  induction l with
  | nil =>
    intro i h
    simp only [indexOf] at h
    split at h
    · rename_i he; simp at he; subst he; simp
    · simp at h
  | cons a as ih =>
    intro i h
    simp only [indexOf] at h
    split at h
    · rename_i hp
      injection h with h; subst h
      obtain ⟨t, ht⟩ := List.isPrefixOf_iff_prefix.1 hp
      rw [← ht]; simp
    · cases hi : indexOf s as with
      | none => simp [hi] at h
      | some k =>
        simp [hi] at h; subst h
        have := ih k hi
        simp only [List.take_succ_cons, List.cons_append, Nat.add_right_comm k 1, List.drop_succ_cons]
        exact congrArg (a :: ·) this

theorem indexOf_sep_append (l r : Bytes) (h : ∀ x ∈ l, x ≠ 0x20) :
    indexOf sep (l ++ sep ++ r) = some l.length := by
  induction l with
  | nil => simp [sep, indexOf, List.isPrefixOf]
  | cons a as ih =>
    have ha : (0x20 == a) = false := by
      rw [beq_eq_false_iff_ne]; exact fun hc => h a (by simp) hc.symm
    have := ih (fun x hx => h x (by simp [hx]))
    simp only [List.cons_append, indexOf, this]
    simp [sep, List.isPrefixOf, ha]

/-! ### canonical clocks -/

/-- nine decimal digits `h1 h2 : m1 m2 : s1 s2 , f1 f2 f3` -/
structure Clock where
  h1 : Nat
  h2 : Nat
  m1 : Nat
  m2 : Nat
  s1 : Nat
  s2 : Nat
  f1 : Nat
  f2 : Nat
  f3 : Nat

namespace Clock
def hour (c : Clock) : Nat := c.h1 * 10 + c.h2
def minute (c : Clock) : Nat := c.m1 * 10 + c.m2
def second (c : Clock) : Nat := c.s1 * 10 + c.s2
def milli (c : Clock) : Nat := c.f1 * 100 + c.f2 * 10 + c.f3

/-- all nine are decimal digits and hour/minute/second are in range -/
def Valid (c : Clock) : Prop :=
  c.h1 < 10 ∧ c.h2 < 10 ∧ c.m1 < 10 ∧ c.m2 < 10 ∧ c.s1 < 10 ∧ c.s2 < 10 ∧
  c.f1 < 10 ∧ c.f2 < 10 ∧ c.f3 < 10 ∧ c.hour < 24 ∧ c.minute < 60 ∧ c.second < 60

instance (c : Clock) : Decidable c.Valid := by unfold Valid; infer_instance

/-- the twelve bytes `h1h2:m1m2:s1s2,f1f2f3` -/
def bytes (c : Clock) : Bytes :=
  [48 + c.h1, 48 + c.h2, 0x3A, 48 + c.m1, 48 + c.m2, 0x3A, 48 + c.s1, 48 + c.s2, 0x2C,
   48 + c.f1, 48 + c.f2, 48 + c.f3]

/-- nanoseconds since midnight -/
def ns (c : Clock) : Nat :=
  ((c.hour * 60 + c.minute) * 60 + c.second) * 10 ^ 9 + c.milli * 10 ^ 6
end Clock

/-- `parseClock_canonical` for a bundled clock -/
theorem parseClock_bytes (c : Clock) (h : c.Valid) : parseClock c.bytes = some c.ns := by
  obtain ⟨a1, a2, a3, a4, a5, a6, a7, a8, a9, a10, a11, a12⟩ := h
  exact parseClock_canonical _ _ _ _ _ _ _ _ _ a1 a2 a3 a4 a5 a6 a7 a8 a9 a10 a11 a12

theorem Clock.bytes_length (c : Clock) : c.bytes.length = 12 := rfl

theorem Clock.mem_bytes {c : Clock} (h : c.Valid) {x : Nat} (hx : x ∈ c.bytes) :
    (48 ≤ x ∧ x ≤ 58) ∨ x = 44 := by
  obtain ⟨a1, a2, a3, a4, a5, a6, a7, a8, a9, -, -, -⟩ := h
  simp only [Clock.bytes, List.mem_cons, List.not_mem_nil, or_false] at hx
  omega

/-- the bytes of `T0 --> T1` are digits, `:`, `,`, space, `-`, `>` -/
theorem mem_line2 {a b : Clock} (ha : a.Valid) (hb : b.Valid) {x : Nat}
    (hx : x ∈ a.bytes ++ sep ++ b.bytes) : x ≠ 0x0A ∧ x ≠ 0x0D ∧ x ≠ 0x2E := by
  rcases List.mem_append.1 hx with hx | hx
  · rcases List.mem_append.1 hx with hx | hx
    · have := Clock.mem_bytes ha hx; omega
    · simp only [sep, List.mem_cons, List.not_mem_nil, or_false] at hx; omega
  · have := Clock.mem_bytes hb hx; omega

theorem line2ok_canonical (a b : Clock) (ha : a.Valid) (hb : b.Valid) (hle : a.ns ≤ b.ns) :
    line2ok (a.bytes ++ sep ++ b.bytes) = true := by
  have hlen : (a.bytes ++ sep ++ b.bytes).length = 29 := by simp [Clock.bytes_length, sep]
  have hdot : indexByte 0x2E (a.bytes ++ sep ++ b.bytes) = none :=
    indexByte_none_of _ _ (fun x hx => (mem_line2 ha hb hx).2.2)
  have hidx : indexOf sep (a.bytes ++ sep ++ b.bytes) = some 12 := by
    rw [indexOf_sep_append a.bytes b.bytes (fun x hx => by have := Clock.mem_bytes ha hx; omega)]
    rfl
  have ht : (a.bytes ++ sep ++ b.bytes).take 12 = a.bytes := by simp [Clock.bytes, sep]
  have hd : (a.bytes ++ sep ++ b.bytes).drop (12 + 5) = b.bytes := by simp [Clock.bytes, sep]
  unfold line2ok
  simp only [hlen, hdot, hidx, ht, hd, parseClock_bytes a ha, parseClock_bytes b hb]
  simp; omega

/-! ### the three lines `Srt` looks at -/

def line1 (raw : Bytes) : Bytes := (scanLine raw).1
def line2 (raw : Bytes) : Bytes := (scanLine (scanLine raw).2).1
def line3 (raw : Bytes) : Bytes := (scanLine (scanLine (scanLine raw).2).2).1

theorem srt_iff (raw : Bytes) :
    srt raw = true ↔ line1 raw = [0x31] ∧ line2ok (line2 raw) = true ∧ line3 raw ≠ [] := by
  unfold srt line1 line2 line3
  by_cases h1 : (scanLine raw).1 = [0x31]
  · cases line2ok (scanLine (scanLine raw).2).1 <;> simp [h1]
  · simp [h1]

/-! ### forward -/

/-- A file whose first line is `1`, whose second line is `T0 --> T1` with canonical clocks
    `T0 ≤ T1`, both lines ended by LF or CRLF, and whose third line is not empty, is an SRT file.
    (The third line IS needed, see `srt_needs_third_line`.) -/
theorem srt_forward (a b : Clock) (ha : a.Valid) (hb : b.Valid) (hle : a.ns ≤ b.ns)
    (e1 e2 rest : Bytes) (he1 : IsEol e1) (he2 : IsEol e2) (h3 : (scanLine rest).1 ≠ []) :
    srt ([0x31] ++ e1 ++ (a.bytes ++ sep ++ b.bytes) ++ e2 ++ rest) = true := by
  have e : [0x31] ++ e1 ++ (a.bytes ++ sep ++ b.bytes) ++ e2 ++ rest
      = [0x31] ++ (e1 ++ ((a.bytes ++ sep ++ b.bytes) ++ (e2 ++ rest))) := by
    simp only [List.append_assoc]
  rw [e, srt_iff]
  have s1 := scanLine_eol [0x31] e1 ((a.bytes ++ sep ++ b.bytes) ++ (e2 ++ rest)) he1 (by simp)
  have s2 := scanLine_eol (a.bytes ++ sep ++ b.bytes) e2 rest he2
    (fun x hx => ⟨(mem_line2 ha hb hx).1, (mem_line2 ha hb hx).2.1⟩)
  unfold line1 line2 line3
  rw [s1]; dsimp only
  rw [s2]; dsimp only
  exact ⟨rfl, line2ok_canonical a b ha hb hle, h3⟩

/-- … in particular when the rest starts with an ordinary character -/
theorem srt_forward_text (a b : Clock) (ha : a.Valid) (hb : b.Valid) (hle : a.ns ≤ b.ns)
    (e1 e2 : Bytes) (he1 : IsEol e1) (he2 : IsEol e2) (c : Nat) (rest : Bytes)
    (hc : c ≠ 0x0A ∧ c ≠ 0x0D) :
    srt ([0x31] ++ e1 ++ (a.bytes ++ sep ++ b.bytes) ++ e2 ++ c :: rest) = true := by
  apply srt_forward a b ha hb hle e1 e2 (c :: rest) he1 he2
  have hb : (c == 0x0A) = false := by rw [beq_eq_false_iff_ne]; exact hc.1
  intro hn
  simp only [scanLine, cutNL, hb] at hn
  rw [dropCR_eq_nil_iff] at hn
  rcases hn with hn | hn
  · simp at hn
  · simp at hn; exact hc.2 hn.1

/-! ### what a successful parse says about the input -/

theorem getnum_length {fixed : Bool} {v r : Bytes} {n : Nat} (h : getnum fixed v = some (n, r)) :
    v.length = r.length + 2 ∨ (fixed = false ∧ v.length = r.length + 1) := by
  match v with
  | [] => simp [getnum] at h
  | [a] =>
    simp only [getnum] at h
    split at h
    · split at h
      · simp at h
      · simp at h; right; rename_i hf; simp [← h.2]; simpa using hf
    · simp at h
  | a :: b :: t =>
    simp only [getnum] at h
    split at h
    · split at h
      · simp at h; left; simp [← h.2]
      · split at h
        · simp at h
        · simp at h; right; rename_i hf; simp [← h.2]; simpa using hf
    · simp at h

theorem skipByte_some {c : Nat} {v r : Bytes} (h : skipByte c v = some r) : v = c :: r := by
  match v with
  | [] => simp [skipByte] at h
  | a :: t =>
    simp only [skipByte] at h
    split at h
    · rename_i ha; simp at h ha; simp [h, ha]
    · simp at h

/-- a string accepted by `time.Parse("15:04:05,000", ·)` has 11 or 12 bytes
    (one- or two-digit hour; nothing may follow the three fraction bytes) -/
theorem parseClock_length {v : Bytes} {n : Nat} (h : parseClock v = some n) :
    v.length = 11 ∨ v.length = 12 := by
  unfold parseClock at h
  cases g1 : getnum false v with
  | none => simp [g1] at h
  | some p1 =>
    obtain ⟨hour, v1⟩ := p1
    simp only [g1] at h
    split at h; · simp at h
    cases k1 : skipByte 0x3A v1 with
    | none => simp [k1] at h
    | some v2 =>
      simp only [k1] at h
      cases g2 : getnum true v2 with
      | none => simp [g2] at h
      | some p2 =>
        obtain ⟨mn, v3⟩ := p2
        simp only [g2] at h
        split at h; · simp at h
        cases k2 : skipByte 0x3A v3 with
        | none => simp [k2] at h
        | some v4 =>
          simp only [k2] at h
          cases g3 : getnum true v4 with
          | none => simp [g3] at h
          | some p3 =>
            obtain ⟨sc, v5⟩ := p3
            simp only [g3] at h
            split at h; · simp at h
            split at h; · simp at h
            rename_i hl5
            cases pn : parseNanoseconds v5 4 with
            | none => simp [pn] at h
            | some ns =>
              simp only [pn] at h
              split at h
              · rename_i he
                have h5 : v5.length = 4 := by
                  simp at he; omega
                have e1 := getnum_length g1
                have e2 := getnum_length g2
                have e3 := getnum_length g3
                have f1 := congrArg List.length (skipByte_some k1)
                have f2 := congrArg List.length (skipByte_some k2)
                simp at e1 e2 e3 f1 f2
                omega
              · simp at h

/-! ### soundness -/

theorem line2ok_sound {l : Bytes} (h : line2ok l = true) :
    l.length = 29 ∧ (∀ x ∈ l, x ≠ 0x2E) ∧
    ∃ a b t0 t1, l = a ++ sep ++ b ∧ a.length = 12 ∧ b.length = 12 ∧
      parseClock a = some t0 ∧ parseClock b = some t1 ∧ t0 ≤ t1 := by
  unfold line2ok at h
  split at h; · simp at h
  rename_i hlen
  split at h; · simp at h
  rename_i hdot
  have hlen : l.length = 29 := by simpa using hlen
  have hdot : indexByte 0x2E l = none := by simpa using hdot
  cases hi : indexOf sep l with
  | none => simp [hi] at h
  | some i =>
    simp only [hi] at h
    cases p0 : parseClock (l.take i) with
    | none => simp [p0] at h
    | some t0 =>
      simp only [p0] at h
      cases p1 : parseClock (l.drop (i + 5)) with
      | none => simp [p1] at h
      | some t1 =>
        simp only [p1] at h
        split at h; · simp at h
        rename_i hle
        have hdec := indexOf_some sep l i hi
        have hl0 := parseClock_length p0
        have hl1 := parseClock_length p1
        have hsl : sep.length = 5 := rfl
        rw [hsl] at hdec
        have hlen' := congrArg List.length hdec
        simp only [List.length_append, hsl] at hlen'
        refine ⟨hlen, not_mem_of_indexByte_none _ _ hdot, l.take i, l.drop (i + 5), t0, t1,
          hdec, ?_, ?_, p0, p1, by omega⟩ <;> omega

/-- `Srt` accepts only files whose first line (LF / CRLF stripped as `scanLine` does) is exactly
    `1`, whose second line has exactly 29 bytes, no `.`, and the form `a --> b` where `a` and `b`
    are 12-byte strings accepted by `time.Parse("15:04:05,000", ·)` with `t0 ≤ t1`, and whose
    third line is not empty. -/
theorem srt_sound (raw : Bytes) (h : srt raw = true) :
    line1 raw = [0x31] ∧ (line2 raw).length = 29 ∧ (∀ x ∈ line2 raw, x ≠ 0x2E) ∧
    (∃ a b t0 t1, line2 raw = a ++ sep ++ b ∧ a.length = 12 ∧ b.length = 12 ∧
      parseClock a = some t0 ∧ parseClock b = some t1 ∧ t0 ≤ t1) ∧
    line3 raw ≠ [] := by
  obtain ⟨h1, h2, h3⟩ := (srt_iff raw).1 h
  obtain ⟨a, b, c⟩ := line2ok_sound h2
  exact ⟨h1, a, b, c, h3⟩

/-! ### monotonicity -/

theorem line2ok_nil : line2ok [] = false := by decide

/-- a detected file has both of its first two lines terminated inside the input -/
theorem srt_lf (p : Bytes) (h : srt p = true) : 0x0A ∈ p ∧ 0x0A ∈ (scanLine p).2 := by
  obtain ⟨_, h2, h3⟩ := (srt_iff p).1 h
  unfold line2 at h2; unfold line3 at h3
  constructor
  · apply Classical.byContradiction; intro hn
    rw [scanLine_not_mem p hn] at h2
    have : (scanLine []).1 = [] := by decide
    rw [this, line2ok_nil] at h2; exact absurd h2 (by simp)
  · apply Classical.byContradiction; intro hn
    rw [scanLine_not_mem _ hn] at h3
    exact h3 (by decide)

/-- Appending data never turns a detected SRT file into an undetected one: no side condition is
    needed, because `srt p = true` already forces the first two lines to be complete
    (`srt_lf` / `srt_two_lf`) and the third line to be non-empty. -/
theorem srt_monotone (p s : Bytes) (h : srt p = true) : srt (p ++ s) = true := by
  obtain ⟨m1, m2⟩ := srt_lf p h
  obtain ⟨h1, h2, h3⟩ := (srt_iff p).1 h
  rw [srt_iff]
  unfold line1 line2 line3 at *
  rw [scanLine_append_mem p s m1]; dsimp only
  rw [scanLine_append_mem _ s m2]; dsimp only
  exact ⟨h1, h2, scanLine_fst_append_ne_nil _ s h3⟩

theorem count_lf_cutNL (p : Bytes) (h : 0x0A ∈ p) :
    p.count 0x0A = (cutNL p).2.count 0x0A + 1 := by
  induction p with
  | nil => simp at h
  | cons a as ih =>
    by_cases ha : a = 0x0A
    · subst ha; simp [cutNL]
    · have hb : (a == 0x0A) = false := by rw [beq_eq_false_iff_ne]; exact ha
      have hm : 0x0A ∈ as := by
        rcases List.mem_cons.1 h with h | h
        · exact absurd h.symm ha
        · exact h
      simp [cutNL, hb, List.count_cons, ih hm]

/-- the restricted form asked for ("`p` contains at least two LF") is implied -/
theorem srt_two_lf (p : Bytes) (h : srt p = true) : 2 ≤ p.count 0x0A := by
  obtain ⟨m1, m2⟩ := srt_lf p h
  have c1 := count_lf_cutNL p m1
  have c2 := count_lf_cutNL (scanLine p).2 m2
  have : (scanLine p).2 = (cutNL p).2 := rfl
  rw [this] at c2
  omega

/-! ### closed form of `time.Parse("15:04:05,000", ·)` -/

/-- the three bytes after the separator, as `parseNanoseconds` reads them: `ddd`, `+dd`, or `-00`;
    the value is in milliseconds -/
def frac3 (f1 f2 f3 : Nat) : Option Nat :=
  if isDigit f1 && isDigit f2 && isDigit f3 then some (dv f1 * 100 + dv f2 * 10 + dv f3)
  else if f1 == 0x2B && isDigit f2 && isDigit f3 then some (dv f2 * 10 + dv f3)
  else if f1 == 0x2D && f2 == 0x30 && f3 == 0x30 then some 0
  else none

theorem isDigit_le {a : Nat} (h : isDigit a = true) : 48 ≤ a ∧ a ≤ 57 := by
  simp [isDigit] at h; omega

theorem dv_le {a : Nat} (h : isDigit a = true) : dv a ≤ 9 := by
  have := isDigit_le h; simp [dv]; omega

theorem leadingIntAll_digit {x c : Nat} (cs : Bytes) (hx : x ≤ 1000000) (hc : isDigit c = true) :
    leadingIntAll x (c :: cs) = leadingIntAll (x * 10 + dv c) cs := by
  have := dv_le hc
  simp only [leadingIntAll, hc, ↓reduceIte]
  rw [if_neg (by omega), if_neg (by omega)]

theorem leadingIntAll_nondigit {x c : Nat} (cs : Bytes) (hc : isDigit c = false) :
    leadingIntAll x (c :: cs) = none := by
  simp [leadingIntAll, hc]

theorem leadingIntAll_2 (a b : Nat) :
    leadingIntAll 0 [a, b] = if isDigit a && isDigit b then some (dv a * 10 + dv b) else none := by
  cases ha : isDigit a with
  | false => simp [leadingIntAll_nondigit _ ha]
  | true =>
    have := dv_le ha
    rw [leadingIntAll_digit _ (by omega) ha]
    cases hb : isDigit b with
    | false => simp [leadingIntAll_nondigit _ hb]
    | true =>
      rw [leadingIntAll_digit _ (by omega) hb]
      simp [leadingIntAll]

theorem leadingIntAll_3' (a b c : Nat) :
    leadingIntAll 0 [a, b, c] =
      if isDigit a && isDigit b && isDigit c then some (dv a * 100 + dv b * 10 + dv c) else none := by
  cases ha : isDigit a with
  | false => simp [leadingIntAll_nondigit _ ha]
  | true =>
    have := dv_le ha
    rw [leadingIntAll_digit _ (by omega) ha]
    cases hb : isDigit b with
    | false => simp [leadingIntAll_nondigit _ hb]
    | true =>
      have := dv_le hb
      rw [leadingIntAll_digit _ (by omega) hb]
      cases hc : isDigit c with
      | false => simp [leadingIntAll_nondigit _ hc]
      | true =>
        rw [leadingIntAll_digit _ (by omega) hc]
        simp [leadingIntAll]; omega

/-- `atoi` on three bytes followed by the sign test of `parseNanoseconds` -/
theorem atoi_frac3 (f1 f2 f3 : Nat) :
    (match atoi [f1, f2, f3] with
      | none => none
      | some ns => if ns < 0 then none else some (ns.toNat * 10 ^ 6)) =
    (frac3 f1 f2 f3).map (· * 10 ^ 6) := by
  unfold frac3
  by_cases m : f1 = 0x2D
  · subst m
    have nd : isDigit 0x2D = false := by decide
    simp only [atoi, leadingIntAll_2, nd]
    cases h2 : isDigit f2 <;> cases h3 : isDigit f3
    · simp; intro e2; subst e2; simp [isDigit] at h2
    · simp; intro e2 e3; subst e2; simp [isDigit] at h2
    · simp; intro e2 e3; subst e3; simp [isDigit] at h3
    · have := isDigit_le h2; have := isDigit_le h3
      by_cases z : f2 = 48 ∧ f3 = 48
      · simp [z.1, z.2, dv]
      · have hz : 0 < dv f2 * 10 + dv f3 := by simp [dv]; omega
        have hz' : ¬ (f2 = 48 ∧ f3 = 48) := z
        simp [hz']
        omega
  · have m' : (f1 == 0x2D) = false := by rw [beq_eq_false_iff_ne]; exact m
    by_cases q : f1 = 0x2B
    · subst q
      have nd : isDigit 0x2B = false := by decide
      simp only [atoi, leadingIntAll_2, nd]
      cases h2 : isDigit f2 <;> cases h3 : isDigit f3 <;> simp <;> omega
    · have q' : (f1 == 0x2B) = false := by rw [beq_eq_false_iff_ne]; exact q
      simp only [atoi, m', q', leadingIntAll_3']
      cases h1 : isDigit f1 <;> cases h2 : isDigit f2 <;> cases h3 : isDigit f3 <;> simp <;> omega

/-- `parseNanoseconds(value, 4)` in closed form -/
theorem parseNanoseconds_4 (p f1 f2 f3 : Nat) (rest : Bytes) :
    parseNanoseconds (p :: f1 :: f2 :: f3 :: rest) 4 =
      if p == 0x2E || p == 0x2C then (frac3 f1 f2 f3).map (· * 10 ^ 6) else none := by
  unfold parseNanoseconds
  simp only [commaOrPeriod]
  by_cases hp : (p == 0x2E || p == 0x2C) = true
  · have ht : List.take ((if 4 > 10 then 10 else 4) - 1) (f1 :: f2 :: f3 :: rest) = [f1, f2, f3] := by
      simp
    have hn : (10:Nat) ^ (10 - (if 4 > 10 then 10 else 4)) = 10 ^ 6 := by simp
    simp only [ht, hn, hp, ↓reduceIte]
    exact atoi_frac3 f1 f2 f3
  · simp only [hp]; rfl

theorem getnum_fixed (a b : Nat) (r : Bytes) :
    getnum true (a :: b :: r) = if isDigit a && isDigit b then some (dv a * 10 + dv b, r) else none := by
  cases ha : isDigit a <;> cases hb : isDigit b <;> simp [getnum, ha, hb]

theorem getnum_free (a b : Nat) (r : Bytes) :
    getnum false (a :: b :: r) =
      if isDigit a then (if isDigit b then some (dv a * 10 + dv b, r) else some (dv a, b :: r))
      else none := by
  cases ha : isDigit a <;> cases hb : isDigit b <;> simp [getnum, ha, hb]

theorem skipByte_cons (c a : Nat) (r : Bytes) :
    skipByte c (a :: r) = if a == c then some r else none := rfl

/-- closed form of `time.Parse("15:04:05,000", ·)` on 12 bytes -/
def clock12 (h1 h2 c1 m1 m2 c2 s1 s2 p f1 f2 f3 : Nat) : Option Nat :=
  if isDigit h1 && isDigit h2 && c1 == 0x3A && isDigit m1 && isDigit m2 && c2 == 0x3A &&
     isDigit s1 && isDigit s2 && (p == 0x2E || p == 0x2C) &&
     decide (dv h1 * 10 + dv h2 < 24) && decide (dv m1 * 10 + dv m2 < 60) &&
     decide (dv s1 * 10 + dv s2 < 60)
  then (frac3 f1 f2 f3).map fun ms =>
    (((dv h1 * 10 + dv h2) * 60 + (dv m1 * 10 + dv m2)) * 60 + (dv s1 * 10 + dv s2)) * 10 ^ 9
      + ms * 10 ^ 6
  else none

theorem parseClock_12 (h1 h2 c1 m1 m2 c2 s1 s2 p f1 f2 f3 : Nat) :
    parseClock [h1, h2, c1, m1, m2, c2, s1, s2, p, f1, f2, f3]
      = clock12 h1 h2 c1 m1 m2 c2 s1 s2 p f1 f2 f3 := by
  unfold parseClock clock12
  rw [getnum_free]
  cases d1 : isDigit h1
  · simp
  cases d2 : isDigit h2
  · -- one-digit hour: 10 bytes are left where 11 are needed
    simp only [Bool.false_eq_true, ↓reduceIte, Bool.and_false, Bool.false_and]
    split; · rfl
    rw [skipByte_cons]
    cases e1 : h2 == 58 <;> simp only [Bool.false_eq_true, ↓reduceIte]
    rw [getnum_fixed]
    cases d3 : isDigit c1 <;> cases d4 : isDigit m1 <;>
      simp only [Bool.false_eq_true, ↓reduceIte, Bool.and_false, Bool.false_and, Bool.and_self]
    split; · rfl
    rw [skipByte_cons]
    cases e2 : m2 == 58 <;> simp only [Bool.false_eq_true, ↓reduceIte]
    rw [getnum_fixed]
    cases d5 : isDigit c2 <;> cases d6 : isDigit s1 <;>
      simp only [Bool.false_eq_true, ↓reduceIte, Bool.and_false, Bool.false_and, Bool.and_self]
    split; · rfl
    cases parseNanoseconds [s2, p, f1, f2, f3] 4 <;> simp
  simp only [↓reduceIte, Bool.true_and]
  by_cases r1 : dv h1 * 10 + dv h2 < 24
  case neg => simp [r1, Nat.le_of_not_lt r1]
  rw [if_neg (by omega), skipByte_cons]
  cases e1 : c1 == 58
  · simp
  simp only [↓reduceIte, Bool.true_and]
  rw [getnum_fixed]
  cases d3 : isDigit m1
  · simp
  cases d4 : isDigit m2
  · simp
  simp only [↓reduceIte, Bool.true_and, Bool.and_self]
  by_cases r2 : dv m1 * 10 + dv m2 < 60
  case neg => simp [r2, Nat.le_of_not_lt r2]
  rw [if_neg (by omega), skipByte_cons]
  cases e2 : c2 == 58
  · simp
  simp only [↓reduceIte, Bool.true_and]
  rw [getnum_fixed]
  cases d5 : isDigit s1
  · simp
  cases d6 : isDigit s2
  · simp
  simp only [↓reduceIte, Bool.true_and, Bool.and_self]
  by_cases r3 : dv s1 * 10 + dv s2 < 60
  case neg => simp [r3, Nat.le_of_not_lt r3]
  rw [if_neg (by omega), parseNanoseconds_4]
  cases e3 : (p == 46 || p == 44)
  · simp
  cases frac3 f1 f2 f3 <;> simp [r1, r2, r3]

/-- closed form of `time.Parse("15:04:05,000", ·)` on 11 bytes (one-digit hour) -/
def clock11 (h1 c1 m1 m2 c2 s1 s2 p f1 f2 f3 : Nat) : Option Nat :=
  if isDigit h1 && c1 == 0x3A && isDigit m1 && isDigit m2 && c2 == 0x3A &&
     isDigit s1 && isDigit s2 && (p == 0x2E || p == 0x2C) &&
     decide (dv m1 * 10 + dv m2 < 60) && decide (dv s1 * 10 + dv s2 < 60)
  then (frac3 f1 f2 f3).map fun ms =>
    ((dv h1 * 60 + (dv m1 * 10 + dv m2)) * 60 + (dv s1 * 10 + dv s2)) * 10 ^ 9 + ms * 10 ^ 6
  else none

theorem parseClock_11 (h1 c1 m1 m2 c2 s1 s2 p f1 f2 f3 : Nat) :
    parseClock [h1, c1, m1, m2, c2, s1, s2, p, f1, f2, f3]
      = clock11 h1 c1 m1 m2 c2 s1 s2 p f1 f2 f3 := by
  unfold parseClock clock11
  rw [getnum_free]
  cases d1 : isDigit h1
  · simp
  have hd1 := dv_le d1
  cases d2 : isDigit c1 with
  | true =>
    -- two-digit hour: 9 bytes are left where 10 are needed
    have hc : (c1 == 58) = false := by
      have := isDigit_le d2; rw [beq_eq_false_iff_ne]; omega
    simp only [↓reduceIte, hc, Bool.and_false, Bool.false_and, Bool.false_eq_true]
    split; · rfl
    rw [skipByte_cons]
    cases e1 : m1 == 58 <;> simp only [Bool.false_eq_true, ↓reduceIte]
    rw [getnum_fixed]
    cases d3 : isDigit m2 <;> cases d4 : isDigit c2 <;>
      simp only [Bool.false_eq_true, ↓reduceIte, Bool.and_false, Bool.false_and, Bool.and_self]
    split; · rfl
    rw [skipByte_cons]
    cases e2 : s1 == 58 <;> simp only [Bool.false_eq_true, ↓reduceIte]
    rw [getnum_fixed]
    cases d5 : isDigit s2 <;> cases d6 : isDigit p <;>
      simp only [Bool.false_eq_true, ↓reduceIte, Bool.and_false, Bool.false_and, Bool.and_self]
    split; · rfl
    simp
  | false =>
    simp only [↓reduceIte, Bool.true_and, Bool.false_eq_true]
    rw [if_neg (by omega), skipByte_cons]
    cases e1 : c1 == 58
    · simp
    simp only [↓reduceIte, Bool.true_and]
    rw [getnum_fixed]
    cases d3 : isDigit m1
    · simp
    cases d4 : isDigit m2
    · simp
    simp only [↓reduceIte, Bool.true_and, Bool.and_self]
    by_cases r2 : dv m1 * 10 + dv m2 < 60
    case neg => simp [r2, Nat.le_of_not_lt r2]
    rw [if_neg (by omega), skipByte_cons]
    cases e2 : c2 == 58
    · simp
    simp only [↓reduceIte, Bool.true_and]
    rw [getnum_fixed]
    cases d5 : isDigit s1
    · simp
    cases d6 : isDigit s2
    · simp
    simp only [↓reduceIte, Bool.true_and, Bool.and_self]
    by_cases r3 : dv s1 * 10 + dv s2 < 60
    case neg => simp [r3, Nat.le_of_not_lt r3]
    rw [if_neg (by omega), parseNanoseconds_4]
    cases e3 : (p == 46 || p == 44)
    · simp
    cases frac3 f1 f2 f3 <;> simp [r2, r3]

/-- the accepted spellings of the millisecond field: `ddd`, `+dd`, `-00` -/
theorem frac3_some (f1 f2 f3 ms : Nat) : frac3 f1 f2 f3 = some ms ↔
    (isDigit f1 = true ∧ isDigit f2 = true ∧ isDigit f3 = true ∧
        ms = dv f1 * 100 + dv f2 * 10 + dv f3) ∨
    (f1 = 0x2B ∧ isDigit f2 = true ∧ isDigit f3 = true ∧ ms = dv f2 * 10 + dv f3) ∨
    (f1 = 0x2D ∧ f2 = 0x30 ∧ f3 = 0x30 ∧ ms = 0) := by
  unfold frac3
  by_cases a : f1 = 0x2B
  · subst a
    have : isDigit 0x2B = false := by decide
    simp [this, eq_comm (a := ms), and_assoc]
  · by_cases b : f1 = 0x2D
    · subst b
      have : isDigit 0x2D = false := by decide
      simp [this, eq_comm (a := ms), and_assoc]
    · cases d1 : isDigit f1 <;> cases d2 : isDigit f2 <;> cases d3 : isDigit f3 <;>
        simp [a, b, eq_comm (a := ms)]

/-- exactly which 12-byte strings `time.Parse("15:04:05,000", ·)` accepts, and with which result -/
theorem parseClock_12_some (h1 h2 c1 m1 m2 c2 s1 s2 p f1 f2 f3 t : Nat) :
    parseClock [h1, h2, c1, m1, m2, c2, s1, s2, p, f1, f2, f3] = some t ↔
    isDigit h1 = true ∧ isDigit h2 = true ∧ c1 = 0x3A ∧ isDigit m1 = true ∧ isDigit m2 = true ∧
    c2 = 0x3A ∧ isDigit s1 = true ∧ isDigit s2 = true ∧ (p = 0x2E ∨ p = 0x2C) ∧
    dv h1 * 10 + dv h2 < 24 ∧ dv m1 * 10 + dv m2 < 60 ∧ dv s1 * 10 + dv s2 < 60 ∧
    ∃ ms, frac3 f1 f2 f3 = some ms ∧
      t = (((dv h1 * 10 + dv h2) * 60 + (dv m1 * 10 + dv m2)) * 60 + (dv s1 * 10 + dv s2)) * 10 ^ 9
          + ms * 10 ^ 6 := by
  rw [parseClock_12]
  unfold clock12
  constructor
  · intro h
    split at h
    · rename_i hc
      simp only [Bool.and_eq_true, Bool.or_eq_true, beq_iff_eq, decide_eq_true_eq] at hc
      obtain ⟨⟨⟨⟨⟨⟨⟨⟨⟨⟨⟨a1, a2⟩, a3⟩, a4⟩, a5⟩, a6⟩, a7⟩, a8⟩, a9⟩, a10⟩, a11⟩, a12⟩ := hc
      cases hf : frac3 f1 f2 f3 with
      | none => simp [hf] at h
      | some ms =>
        simp [hf] at h
        exact ⟨a1, a2, a3, a4, a5, a6, a7, a8, a9, a10, a11, a12, ms, rfl, h.symm⟩
    · simp at h
  · rintro ⟨a1, a2, a3, a4, a5, a6, a7, a8, a9, a10, a11, a12, ms, hf, ht⟩
    have a9' : (p == 46 || p == 44) = true := by
      rcases a9 with rfl | rfl <;> rfl
    simp [a1, a2, a3, a4, a5, a6, a7, a8, a9', a10, a11, a12, hf, ht]

theorem len_succ {v : Bytes} {n : Nat} (h : v.length = n + 1) :
    ∃ a t, v = a :: t ∧ t.length = n := by
  cases v with
  | nil => simp at h
  | cons a t => exact ⟨a, t, rfl, by simpa using h⟩

theorem length12 {v : Bytes} (h : v.length = 12) :
    ∃ a1 a2 a3 a4 a5 a6 a7 a8 a9 a10 a11 a12, v = [a1, a2, a3, a4, a5, a6, a7, a8, a9, a10, a11, a12] := by
  obtain ⟨a1, v1, rfl, h1⟩ := len_succ h
  obtain ⟨a2, v2, rfl, h2⟩ := len_succ h1
  obtain ⟨a3, v3, rfl, h3⟩ := len_succ h2
  obtain ⟨a4, v4, rfl, h4⟩ := len_succ h3
  obtain ⟨a5, v5, rfl, h5⟩ := len_succ h4
  obtain ⟨a6, v6, rfl, h6⟩ := len_succ h5
  obtain ⟨a7, v7, rfl, h7⟩ := len_succ h6
  obtain ⟨a8, v8, rfl, h8⟩ := len_succ h7
  obtain ⟨a9, v9, rfl, h9⟩ := len_succ h8
  obtain ⟨a10, v10, rfl, h10⟩ := len_succ h9
  obtain ⟨a11, v11, rfl, h11⟩ := len_succ h10
  obtain ⟨a12, v12, rfl, h12⟩ := len_succ h11
  cases v12 with
  | nil => exact ⟨a1, a2, a3, a4, a5, a6, a7, a8, a9, a10, a11, a12, rfl⟩
  | cons _ _ => simp at h12

/-- the bytes of an accepted 12-byte string are digits or one of `: , . + -` -/
theorem parseClock_12_mem {v : Bytes} {t : Nat} (hl : v.length = 12) (h : parseClock v = some t)
    {x : Nat} (hx : x ∈ v) : (48 ≤ x ∧ x ≤ 58) ∨ (43 ≤ x ∧ x ≤ 46) := by
  obtain ⟨a1, a2, a3, a4, a5, a6, a7, a8, a9, a10, a11, a12, rfl⟩ := length12 hl
  obtain ⟨d1, d2, e1, d3, d4, e2, d5, d6, e3, -, -, -, ms, hf, -⟩ := (parseClock_12_some ..).1 h
  have := isDigit_le d1; have := isDigit_le d2; have := isDigit_le d3; have := isDigit_le d4
  have := isDigit_le d5; have := isDigit_le d6
  have hfr : ((48 ≤ a10 ∧ a10 ≤ 57) ∨ a10 = 43 ∨ a10 = 45) ∧ (48 ≤ a11 ∧ a11 ≤ 57) ∧
      (48 ≤ a12 ∧ a12 ≤ 57) := by
    rcases (frac3_some ..).1 hf with ⟨b1, b2, b3, -⟩ | ⟨b1, b2, b3, -⟩ | ⟨b1, b2, b3, -⟩
    · have := isDigit_le b1; have := isDigit_le b2; have := isDigit_le b3; omega
    · have := isDigit_le b2; have := isDigit_le b3; omega
    · omega
  simp only [List.mem_cons, List.not_mem_nil, or_false] at hx
  omega

/-! ### exact characterisation of the second line and of `srt` -/

/-- the property of the second line that `Srt` tests -/
def Line2Spec (l : Bytes) : Prop :=
  ∃ a b t0 t1, l = a ++ sep ++ b ∧ a.length = 12 ∧ b.length = 12 ∧ (∀ x ∈ l, x ≠ 0x2E) ∧
    parseClock a = some t0 ∧ parseClock b = some t1 ∧ t0 ≤ t1

theorem mem_line2_general {a b : Bytes} {t0 t1 : Nat} (hla : a.length = 12) (hlb : b.length = 12)
    (ha : parseClock a = some t0) (hb : parseClock b = some t1) {x : Nat}
    (hx : x ∈ a ++ sep ++ b) : x ≠ 0x0A ∧ x ≠ 0x0D := by
  rcases List.mem_append.1 hx with hx | hx
  · rcases List.mem_append.1 hx with hx | hx
    · have := parseClock_12_mem hla ha hx; omega
    · simp only [sep, List.mem_cons, List.not_mem_nil, or_false] at hx; omega
  · have := parseClock_12_mem hlb hb hx; omega

theorem line2ok_iff (l : Bytes) : line2ok l = true ↔ Line2Spec l := by
  constructor
  · intro h
    obtain ⟨_, hdot, a, b, t0, t1, e, la, lb, pa, pb, hle⟩ := line2ok_sound h
    exact ⟨a, b, t0, t1, e, la, lb, hdot, pa, pb, hle⟩
  · rintro ⟨a, b, t0, t1, rfl, hla, hlb, hdot, ha, hb, hle⟩
    have hlen : (a ++ sep ++ b).length = 29 := by simp [hla, hlb, sep]
    have hd : indexByte 0x2E (a ++ sep ++ b) = none := indexByte_none_of _ _ hdot
    have hidx : indexOf sep (a ++ sep ++ b) = some 12 := by
      rw [indexOf_sep_append a b (fun x hx => by have := parseClock_12_mem hla ha hx; omega), hla]
    have ht : (a ++ sep ++ b).take 12 = a := by
      rw [List.append_assoc]; exact List.take_left' hla
    have hdr : (a ++ sep ++ b).drop (12 + 5) = b := by
      exact List.drop_left' (by simp [hla, sep])
    unfold line2ok
    simp only [hlen, hd, hidx, ht, hdr, ha, hb]
    simp; omega

/-- `Srt`, exactly: first line `1`; second line `a --> b` without `.`, `a` and `b` 12-byte strings
    accepted by `time.Parse("15:04:05,000", ·)` (see `parseClock_12_some` for which these are)
    with `t0 ≤ t1`; third line not empty. -/
theorem srt_spec (raw : Bytes) :
    srt raw = true ↔ line1 raw = [0x31] ∧ Line2Spec (line2 raw) ∧ line3 raw ≠ [] := by
  rw [srt_iff, line2ok_iff]

/-- forward direction for arbitrary accepted spellings (not only canonical ones) -/
theorem srt_forward_general (a b : Bytes) (t0 t1 : Nat) (hla : a.length = 12) (hlb : b.length = 12)
    (hdot : ∀ x ∈ a ++ sep ++ b, x ≠ 0x2E)
    (ha : parseClock a = some t0) (hb : parseClock b = some t1) (hle : t0 ≤ t1)
    (e1 e2 rest : Bytes) (he1 : IsEol e1) (he2 : IsEol e2) (h3 : (scanLine rest).1 ≠ []) :
    srt ([0x31] ++ e1 ++ (a ++ sep ++ b) ++ e2 ++ rest) = true := by
  have e : [0x31] ++ e1 ++ (a ++ sep ++ b) ++ e2 ++ rest
      = [0x31] ++ (e1 ++ ((a ++ sep ++ b) ++ (e2 ++ rest))) := by
    simp only [List.append_assoc]
  rw [e, srt_spec]
  have s1 := scanLine_eol [0x31] e1 ((a ++ sep ++ b) ++ (e2 ++ rest)) he1 (by simp)
  have s2 := scanLine_eol (a ++ sep ++ b) e2 rest he2
    (fun x hx => mem_line2_general hla hlb ha hb hx)
  unfold line1 line2 line3
  rw [s1]; dsimp only
  rw [s2]; dsimp only
  exact ⟨rfl, ⟨a, b, t0, t1, rfl, hla, hlb, hdot, ha, hb, hle⟩, h3⟩

/-! ### non-vacuity and the inherited oddities, checked by evaluation (`decide`) -/

/-- `"1\n00:02:16,612 --> 00:02:19,376\n"`: two perfect lines and nothing after them are NOT
    detected, so "followed by anything" is false; `srt_forward` needs `(scanLine rest).1 ≠ []`. -/
theorem srt_needs_third_line :
    srt ([0x31] ++ [0x0A] ++ ((Clock.mk 0 0 0 2 1 6 6 1 2).bytes ++ sep ++ (Clock.mk 0 0 0 2 1 9 3 7 6).bytes)
      ++ [0x0A] ++ []) = false := by decide

/-- detection is not stable under truncation: a prefix of a detected file that still contains
    both complete lines may be undetected (the third line got cut off) -/
theorem srt_truncation_counterexample :
    ∃ p s, srt (p ++ s) = true ∧ 2 ≤ p.count 0x0A ∧ srt p = false :=
  ⟨[0x31] ++ [0x0A] ++ ((Clock.mk 0 0 0 2 1 6 6 1 2).bytes ++ sep ++ (Clock.mk 0 0 0 2 1 9 3 7 6).bytes) ++ [0x0A],
   [0x78], by decide⟩

/-- `'00:02:16,612'` -/
example : parseClock [48, 48, 58, 48, 50, 58, 49, 54, 44, 54, 49, 50] = some 136612000000 := by decide

/-- `'23:59:59,999'` -/
example : parseClock [50, 51, 58, 53, 57, 58, 53, 57, 44, 57, 57, 57] = some 86399999000000 := by decide

/-- `'1:02:03,004'` one-digit hour -/
example : parseClock [49, 58, 48, 50, 58, 48, 51, 44, 48, 48, 52] = some 3723004000000 := by decide

/-- `'00:00:00.500'` a period is accepted by time.Parse although the layout says comma -/
example : parseClock [48, 48, 58, 48, 48, 58, 48, 48, 46, 53, 48, 48] = some 500000000 := by decide

/-- `'00:00:00,+12'` `atoi` takes a sign: +12 ms -/
example : parseClock [48, 48, 58, 48, 48, 58, 48, 48, 44, 43, 49, 50] = some 12000000 := by decide

/-- `'00:00:00,-00'` minus zero is not negative -/
example : parseClock [48, 48, 58, 48, 48, 58, 48, 48, 44, 45, 48, 48] = some 0 := by decide

/-- `'00:00:00,-01'` fractional second out of range -/
example : parseClock [48, 48, 58, 48, 48, 58, 48, 48, 44, 45, 48, 49] = none := by decide

/-- `'24:00:00,000'` -/
example : parseClock [50, 52, 58, 48, 48, 58, 48, 48, 44, 48, 48, 48] = none := by decide

/-- `'00:60:00,000'` -/
example : parseClock [48, 48, 58, 54, 48, 58, 48, 48, 44, 48, 48, 48] = none := by decide

/-- `'00:00:60,000'` -/
example : parseClock [48, 48, 58, 48, 48, 58, 54, 48, 44, 48, 48, 48] = none := by decide

/-- `'00:00:00,0000'` extra text -/
example : parseClock [48, 48, 58, 48, 48, 58, 48, 48, 44, 48, 48, 48, 48] = none := by decide

/-- `'00:00:00,00'` -/
example : parseClock [48, 48, 58, 48, 48, 58, 48, 48, 44, 48, 48] = none := by decide

/-- `'00:0:00,000'` minutes need two digits -/
example : parseClock [48, 48, 58, 48, 58, 48, 48, 44, 48, 48, 48] = none := by decide

/-- `' 00:00:00,000'` -/
example : parseClock [32, 48, 48, 58, 48, 48, 58, 48, 48, 44, 48, 48, 48] = none := by decide

/-- `'001:00:00,000'` -/
example : parseClock [48, 48, 49, 58, 48, 48, 58, 48, 48, 44, 48, 48, 48] = none := by decide

/-- `''` -/
example : parseClock [] = none := by decide

/-- `'1\n00:02:16,612 --> 00:02:19,376\nHello'` -/
example : srt [49, 10, 48, 48, 58, 48, 50, 58, 49, 54, 44, 54, 49, 50, 32, 45, 45, 62, 32, 48, 48, 58, 48, 50, 58, 49, 57, 44, 51, 55, 54, 10, 72, 101, 108, 108, 111] = true := by decide

/-- `'1\r\n00:02:16,612 --> 00:02:19,376\r\nHello\r\n'` -/
example : srt [49, 13, 10, 48, 48, 58, 48, 50, 58, 49, 54, 44, 54, 49, 50, 32, 45, 45, 62, 32, 48, 48, 58, 48, 50, 58, 49, 57, 44, 51, 55, 54, 13, 10, 72, 101, 108, 108, 111, 13, 10] = true := by decide

/-- `'1\n00:00:00,000 --> 00:00:00,000\nx'` t0 = t1 -/
example : srt [49, 10, 48, 48, 58, 48, 48, 58, 48, 48, 44, 48, 48, 48, 32, 45, 45, 62, 32, 48, 48, 58, 48, 48, 58, 48, 48, 44, 48, 48, 48, 10, 120] = true := by decide

/-- `'1\n00:00:00,-00 --> 00:00:00,+12\nx'` signed fraction spellings are detected as SRT -/
example : srt [49, 10, 48, 48, 58, 48, 48, 58, 48, 48, 44, 45, 48, 48, 32, 45, 45, 62, 32, 48, 48, 58, 48, 48, 58, 48, 48, 44, 43, 49, 50, 10, 120] = true := by decide

/-- `'1\n00:02:16,612 --> 00:02:19,376\n'` no third line: `srt_forward` needs its hypothesis on the rest -/
example : srt [49, 10, 48, 48, 58, 48, 50, 58, 49, 54, 44, 54, 49, 50, 32, 45, 45, 62, 32, 48, 48, 58, 48, 50, 58, 49, 57, 44, 51, 55, 54, 10] = false := by decide

/-- `'1\n00:02:16,612 --> 00:02:19,376'` -/
example : srt [49, 10, 48, 48, 58, 48, 50, 58, 49, 54, 44, 54, 49, 50, 32, 45, 45, 62, 32, 48, 48, 58, 48, 50, 58, 49, 57, 44, 51, 55, 54] = false := by decide

/-- `'1\n00:02:16,612 --> 00:02:19,376\n\nHello'` empty third line -/
example : srt [49, 10, 48, 48, 58, 48, 50, 58, 49, 54, 44, 54, 49, 50, 32, 45, 45, 62, 32, 48, 48, 58, 48, 50, 58, 49, 57, 44, 51, 55, 54, 10, 10, 72, 101, 108, 108, 111] = false := by decide

/-- `'1\n00:02:16,612 --> 00:02:19,376\n\r\nHello'` third line is only CR -/
example : srt [49, 10, 48, 48, 58, 48, 50, 58, 49, 54, 44, 54, 49, 50, 32, 45, 45, 62, 32, 48, 48, 58, 48, 50, 58, 49, 57, 44, 51, 55, 54, 10, 13, 10, 72, 101, 108, 108, 111] = false := by decide

/-- `'1\n00:02:19,376 --> 00:02:16,612\nx'` t0 > t1 -/
example : srt [49, 10, 48, 48, 58, 48, 50, 58, 49, 57, 44, 51, 55, 54, 32, 45, 45, 62, 32, 48, 48, 58, 48, 50, 58, 49, 54, 44, 54, 49, 50, 10, 120] = false := by decide

/-- `'1\n00:02:16.612 --> 00:02:19,376\nx'` period -/
example : srt [49, 10, 48, 48, 58, 48, 50, 58, 49, 54, 46, 54, 49, 50, 32, 45, 45, 62, 32, 48, 48, 58, 48, 50, 58, 49, 57, 44, 51, 55, 54, 10, 120] = false := by decide

/-- `'1\n0:02:16,612 -->  00:02:19,376\nx'` 29 bytes with a one-digit hour -/
example : srt [49, 10, 48, 58, 48, 50, 58, 49, 54, 44, 54, 49, 50, 32, 45, 45, 62, 32, 32, 48, 48, 58, 48, 50, 58, 49, 57, 44, 51, 55, 54, 10, 120] = false := by decide

/-- `'2\n00:02:16,612 --> 00:02:19,376\nx'` -/
example : srt [50, 10, 48, 48, 58, 48, 50, 58, 49, 54, 44, 54, 49, 50, 32, 45, 45, 62, 32, 48, 48, 58, 48, 50, 58, 49, 57, 44, 51, 55, 54, 10, 120] = false := by decide

/-- `' 1\n00:02:16,612 --> 00:02:19,376\nx'` -/
example : srt [32, 49, 10, 48, 48, 58, 48, 50, 58, 49, 54, 44, 54, 49, 50, 32, 45, 45, 62, 32, 48, 48, 58, 48, 50, 58, 49, 57, 44, 51, 55, 54, 10, 120] = false := by decide

/-- `'1\r\r\n00:02:16,612 --> 00:02:19,376\nx'` only one CR is dropped -/
example : srt [49, 13, 13, 10, 48, 48, 58, 48, 50, 58, 49, 54, 44, 54, 49, 50, 32, 45, 45, 62, 32, 48, 48, 58, 48, 50, 58, 49, 57, 44, 51, 55, 54, 10, 120] = false := by decide

/-- `'1\n00:02:16,612 --> 00:02:19,376 \nx'` 30 bytes -/
example : srt [49, 10, 48, 48, 58, 48, 50, 58, 49, 54, 44, 54, 49, 50, 32, 45, 45, 62, 32, 48, 48, 58, 48, 50, 58, 49, 57, 44, 51, 55, 54, 32, 10, 120] = false := by decide

/-- `'ï»¿1\n00:02:16,612 --> 00:02:19,376\nx'` a UTF-8 BOM defeats the detector -/
example : srt [239, 187, 191, 49, 10, 48, 48, 58, 48, 50, 58, 49, 54, 44, 54, 49, 50, 32, 45, 45, 62, 32, 48, 48, 58, 48, 50, 58, 49, 57, 44, 51, 55, 54, 10, 120] = false := by decide

end Mime.SrtLemmas
