import MimeModel.Lemmas.JsonPrefix
import MimeModel.Lemmas.JsonForward
/-
  Prefix laws for the container scanners (`consumeAny`, `arrayLoop`, `objectLoop`), by
  induction on fuel: each function is written as a sequence of smaller scanners, and the
  law follows from `seq_law`, `peek_law`, `last_byte_law` and the leaf laws.
-/
namespace Mime.JsonPrefix
open Mime Mime.Json Mime.Spec Mime.JsonLeaf

variable (qs : List Mime.Gen.Json.Query) (cap : Nat)

/-! ### continuation scanners -/

/-- `arrayLoop` after a value -/
def arrAfter (fuel lvl : Nat) : Scan := fun r2 s2 =>
  match r2 with
  | [] => (none, s2)
  | d :: ds =>
    if d == 0x2C then arrayLoop qs cap fuel lvl ds s2.bump
    else if d == 0x5D then (some ds, s2.bump.pop)
    else (none, s2)

/-- `arrayLoop` after the leading white space -/
def arrHead (fuel lvl : Nat) : Scan := fun y s1 =>
  match y with
  | [] => (none, s1)
  | c :: cs =>
    if c == 0x5D then (some cs, s1.bump.pop) else
    match consumeAny qs cap fuel lvl (c :: cs) s1 with
    | (some r2, s2) => arrAfter qs cap fuel lvl r2 s2
    | (none, s2) => (none, s2)

theorem arrayLoop_eq (fuel lvl : Nat) (b : Bytes) (s : PState) :
    arrayLoop qs cap (fuel + 1) lvl b s =
      match spaceScan b s with
      | (some y, s1) => arrHead qs cap fuel lvl y s1
      | (none, s1) => (none, s1) := by
  rw [arrayLoop]
  simp only [spaceScan]
  generalize consumeSpace b s = res
  obtain ⟨y, s1⟩ := res
  cases y with
  | nil => rfl
  | cons c cs =>
    simp only [arrHead]
    split
    · rfl
    · generalize consumeAny qs cap fuel lvl (c :: cs) s1 = res2
      obtain ⟨o, s2⟩ := res2
      cases o with
      | none => rfl
      | some r2 => cases r2 <;> rfl

/-- `objectLoop` after a member value; `tag` = the bytes of the value -/
def objAfterVal (fuel lvl : Nat) (qm : Option Mime.Gen.Json.Query) (tag : Bytes) : Scan := fun r2 s6 =>
  match r2 with
  | [] => (none, applyQuery qm tag s6)
  | g :: gs =>
    if g == 0x2C then objectLoop qs cap fuel lvl gs (applyQuery qm tag s6).pop.bump
    else if g == 0x7D then (some gs, (applyQuery qm tag s6).pop.bump)
    else (none, applyQuery qm tag s6)

def objValue (fuel lvl : Nat) (qm : Option Mime.Gen.Json.Query) : Scan := fun y s5 =>
  match y with
  | [] => (none, s5)
  | e :: es =>
    match consumeAny qs cap fuel lvl (e :: es) s5 with
    | (some r2, s6) => objAfterVal qs cap fuel lvl qm (consumed (e :: es) r2) r2 s6
    | (none, s6) => (none, s6)

def objColon (fuel lvl : Nat) (qm : Option Mime.Gen.Json.Query) : Scan := fun y s4 =>
  match y with
  | [] => (none, s4)
  | d :: ds =>
    if d != 0x3A then (none, s4) else
    match spaceScan ds s4.bump with
    | (some z, s5) => objValue qs cap fuel lvl qm z s5
    | (none, s5) => (none, s5)

/-- after the key string; `tag` = the bytes of the key including the closing quote -/
def objAfterKey (fuel lvl : Nat) (tag : Bytes) : Scan := fun r s2 =>
  let s3 := s2.push tag.dropLast
  let qm := if s3.querySatisfied then none else queryPathMatch qs s3.currPath
  match spaceScan r s3 with
  | (some y, s4) => objColon qs cap fuel lvl qm y s4
  | (none, s4) => (none, s4)

def objHead (fuel lvl : Nat) : Scan := fun y s1 =>
  match y with
  | [] => (none, s1)
  | c :: cs =>
    if c == 0x7D then (some cs, s1.bump) else
    if c != 0x22 then (none, s1) else
    match consumeString .norm cs s1.bump with
    | (some r, s2) => objAfterKey qs cap fuel lvl (consumed cs r) r s2
    | (none, s2) => (none, s2)

theorem objectLoop_eq (fuel lvl : Nat) (b : Bytes) (s : PState) :
    objectLoop qs cap (fuel + 1) lvl b s =
      match spaceScan b s with
      | (some y, s1) => objHead qs cap fuel lvl y s1
      | (none, s1) => (none, s1) := by
  rw [objectLoop]
  simp only [spaceScan]
  generalize consumeSpace b s = res
  obtain ⟨y, s1⟩ := res
  cases y with
  | nil => rfl
  | cons c cs =>
    simp only [objHead]
    split
    · rfl
    split
    · rfl
    generalize consumeString .norm cs s1.bump = res2
    obtain ⟨o, s2⟩ := res2
    cases o with
    | none => rfl
    | some r =>
      simp only [objAfterKey, spaceScan]
      generalize consumeSpace r _ = res3
      obtain ⟨y3, s4⟩ := res3
      cases y3 with
      | nil => rfl
      | cons d ds =>
        simp only [objColon]
        split
        · rfl
        simp only [spaceScan]
        generalize consumeSpace ds _ = res4
        obtain ⟨y4, s5⟩ := res4
        cases y4 with
        | nil => rfl
        | cons e es =>
          simp only [objValue]
          generalize consumeAny qs cap fuel lvl (e :: es) s5 = res5
          obtain ⟨o5, s6⟩ := res5
          cases o5 with
          | none => rfl
          | some r2 => cases r2 <;> rfl

/-! ### `consumeAny` as a sequence -/

/-- the dispatched scanner of `consumeAny`, as a function of the whole rest (first byte included) -/
def kindScan (fuel lvl : Nat) : Kind → Scan
  | .str => fun y st => match y with
    | [] => (none, st)
    | _ :: cs => consumeString .norm cs st.bump
  | .arr => fun y st => match y with
    | [] => (none, st)
    | _ :: cs => if cs.isEmpty then (none, st.bump.push [0x5B]) else arrayLoop qs cap fuel (lvl + 1) cs (st.bump.push [0x5B])
  | .obj => fun y st => match y with
    | [] => (none, st)
    | _ :: cs => objectLoop qs cap fuel (lvl + 1) cs st.bump
  | .litT => fun y st => consumeConst y wTrue st
  | .litF => fun y st => consumeConst y wFalse st
  | .litN => fun y st => consumeConst y wNull st
  | .num => fun y st => consumeNumber .start y st

def finishScan (lvl t : Nat) (G : Scan) : Scan := fun y st => finishAny qs.isEmpty lvl t (G y st)

def anyHead (fuel lvl : Nat) : Scan := fun y s1 =>
  match y with
  | [] => (none, s1)
  | c :: cs => finishScan qs lvl (classify c).tok (kindScan qs cap fuel lvl (classify c)) (c :: cs) s1

theorem consumeAny_eq (fuel lvl : Nat) (b : Bytes) (s : PState) :
    consumeAny qs cap (fuel + 1) lvl b s =
      if cap != 0 && lvl > cap then (none, s.enter lvl) else
      match spaceScan b (s.enter lvl) with
      | (some y, s1) => anyHead qs cap fuel lvl y s1
      | (none, s1) => (none, s1) := by
  rw [consumeAny]
  simp only [spaceScan]
  split
  · rfl
  generalize consumeSpace b _ = res
  obtain ⟨y, s1⟩ := res
  cases y with
  | nil => rfl
  | cons c cs =>
    simp only [anyHead, finishScan]
    congr 1
    cases classify c <;> rfl

theorem consumeAny_nil (fuel lvl : Nat) (s : PState) : (consumeAny qs cap fuel lvl [] s).1 = none := by
  cases fuel with
  | zero => rfl
  | succ f => rw [consumeAny]; simp only [consumeSpace]; split <;> rfl

theorem arrayLoop_nil (fuel lvl : Nat) (s : PState) : (arrayLoop qs cap fuel lvl [] s).1 = none := by
  cases fuel with
  | zero => rfl
  | succ f => rw [arrayLoop]; rfl

theorem objectLoop_nil (fuel lvl : Nat) (s : PState) : (objectLoop qs cap fuel lvl [] s).1 = none := by
  cases fuel with
  | zero => rfl
  | succ f => rw [objectLoop]; rfl

theorem consumeConst_some (w : Bytes) : ∀ (b r : Bytes) (s s' : PState),
    consumeConst b w s = (some r, s') → b = w ++ r ∧ s' = s.bump w.length := by
  induction w with
  | nil => intro b r s s' h; simp [consumeConst] at h; simp [h.1, ← h.2]
  | cons x xs ih =>
    intro b r s s' h
    cases b with
    | nil => simp [consumeConst] at h
    | cons c cs =>
      rw [consumeConst] at h
      split at h
      · rename_i hc
        obtain ⟨e1, e2⟩ := ih _ _ _ _ h
        simp only [beq_iff_eq] at hc
        subst hc
        exact ⟨by rw [e1]; rfl, by rw [e2]; simp [Nat.add_comm]⟩
      · cases h

/-- the three container laws at one fuel -/
def PAny (f : Nat) : Prop := ∀ lvl b s r s', consumeAny qs cap f lvl b s = (some r, s') → PrefixLaw (consumeAny qs cap f lvl) b s r s'
def PArr (f : Nat) : Prop := ∀ lvl b s r s', arrayLoop qs cap f lvl b s = (some r, s') → PrefixLaw (arrayLoop qs cap f lvl) b s r s'
def PObj (f : Nat) : Prop := ∀ lvl b s r s', objectLoop qs cap f lvl b s = (some r, s') → PrefixLaw (objectLoop qs cap f lvl) b s r s'

/-! ### arrays -/

theorem arrAfter_law (f lvl : Nat) (hA : PArr qs cap f) (r2 : Bytes) (s2 : PState) (r : Bytes) (s' : PState)
    (h : arrAfter qs cap f lvl r2 s2 = (some r, s')) : PrefixLaw (arrAfter qs cap f lvl) r2 s2 r s' := by
  cases r2 with
  | nil => cases h
  | cons d ds =>
    have h0 : (arrAfter qs cap f lvl [] s2).2.ib = s2.ib ∧ EndsEmpty (arrAfter qs cap f lvl [] s2).1 := ⟨rfl, Or.inl rfl⟩
    by_cases hd : d = 0x2C
    · subst hd
      have hF : ∀ x, arrAfter qs cap f lvl (0x2C :: x) s2 = arrayLoop qs cap f lvl x s2.bump := fun x => by simp [arrAfter]
      rw [hF] at h
      exact peek_law _ _ _ _ hF h0 _ _ _ (hA _ _ _ _ _ h)
    · by_cases hd2 : d = 0x5D
      · subst hd2
        have hF : ∀ x, arrAfter qs cap f lvl (0x5D :: x) s2 = (some x, s2.bump.pop) := fun x => by simp [arrAfter]
        rw [hF] at h
        cases h
        exact last_byte_law _ _ _ _ (by simp) hF h0 _
      · simp [arrAfter, hd, hd2] at h

/-- `G ; H` with a fixed continuation -/
def seqScan (G : Scan) (H : Bytes → Scan) : Scan := fun y st =>
  match G y st with
  | (some r2, s2) => H (consumed y r2) r2 s2
  | (none, s2) => (none, s2)

theorem seqScan_law (G : Scan) (H : Bytes → Scan) (b : Bytes) (s : PState) (r1 : Bytes) (s1 : PState) (r : Bytes) (s' : PState)
    (lG : PrefixLaw G b s r1 s1) (lH : PrefixLaw (H (consumed b r1)) r1 s1 r s') (hE : ∀ tag, NoProgressOnEmpty (H tag)) :
    PrefixLaw (seqScan G H) b s r s' :=
  seq_law G H id (seqScan G H) (fun _ => rfl) b s r1 s1 r s' (fun _ => rfl) lG lH hE

theorem seqScan_nil (G : Scan) (H : Bytes → Scan) (s : PState) (h : (G [] s).1 = none) : (seqScan G H [] s).1 = none := by
  unfold seqScan
  generalize G [] s = res at h
  obtain ⟨o, x⟩ := res
  simp only at h
  subst h
  rfl

theorem arrAfter_empty (f lvl : Nat) : NoProgressOnEmpty (arrAfter qs cap f lvl) := fun _ => ⟨rfl, Or.inl rfl⟩

theorem arrHead_law (f lvl : Nat) (hV : PAny qs cap f) (hA : PArr qs cap f) (y : Bytes) (s1 : PState) (r : Bytes) (s' : PState)
    (h : arrHead qs cap f lvl y s1 = (some r, s')) : PrefixLaw (arrHead qs cap f lvl) y s1 r s' := by
  cases y with
  | nil => cases h
  | cons c cs =>
    have h0 : (arrHead qs cap f lvl [] s1).2.ib = s1.ib ∧ EndsEmpty (arrHead qs cap f lvl [] s1).1 := ⟨rfl, Or.inl rfl⟩
    by_cases hc : c = 0x5D
    · subst hc
      have hF : ∀ x, arrHead qs cap f lvl (0x5D :: x) s1 = (some x, s1.bump.pop) := fun x => by simp [arrHead]
      rw [hF] at h
      cases h
      exact last_byte_law _ _ _ _ (by simp) hF h0 _
    · -- a value, then the separator
      have hF : ∀ x, arrHead qs cap f lvl (c :: x) s1 = seqScan (consumeAny qs cap f lvl) (fun _ => arrAfter qs cap f lvl) (c :: x) s1 := by
        intro x
        simp only [arrHead, seqScan]
        rw [if_neg (by simpa using hc)]
      rw [hF] at h
      simp only [seqScan] at h
      generalize hres : consumeAny qs cap f lvl (c :: cs) s1 = res at h
      obtain ⟨o, s2⟩ := res
      cases o with
      | none => cases h
      | some r2 =>
        simp only at h
        apply law_congr _ (seqScan (consumeAny qs cap f lvl) (fun _ => arrAfter qs cap f lvl)) s1 s1 rfl
        · intro k hk
          obtain ⟨k', rfl⟩ : ∃ k', k = k' + 1 := ⟨k - 1, by omega⟩
          rw [take_cons_succ, hF]
        · exact h0
        · exact seqScan_nil _ _ _ (consumeAny_nil qs cap f lvl s1)
        · exact seqScan_law _ _ _ _ _ _ _ _ (hV _ _ _ _ _ hres) (arrAfter_law qs cap f lvl hA _ _ _ _ h) (fun _ => arrAfter_empty qs cap f lvl)

theorem spaceThen_law (H : Scan) (b : Bytes) (s : PState) (r : Bytes) (s' : PState) (hE : NoProgressOnEmpty H)
    (lH : PrefixLaw H (J.skipWs b) (s.bump (b.length - (J.skipWs b).length)) r s') :
    PrefixLaw (seqScan spaceScan (fun _ => H)) b s r s' :=
  seqScan_law _ _ _ _ _ _ _ _ (spaceScan_law b s) lH (fun _ => hE)

theorem spaceScan_val (b : Bytes) (s : PState) : spaceScan b s = (some (J.skipWs b), s.bump (b.length - (J.skipWs b).length)) :=
  law_whole _ _ _ _ _ (spaceScan_law b s)

theorem arr_step (f : Nat) (hV : PAny qs cap f) (hA : PArr qs cap f) : PArr qs cap (f + 1) := by
  intro lvl b s r s' h
  have hE : ∀ x, arrayLoop qs cap (f + 1) lvl x s = seqScan spaceScan (fun _ => arrHead qs cap f lvl) x s := by
    intro x; rw [arrayLoop_eq]; rfl
  rw [hE, seqScan, spaceScan_val] at h
  simp only at h
  apply law_congr_all _ _ s s rfl _ _ _ hE
  exact spaceThen_law _ _ _ _ _ (fun _ => ⟨rfl, Or.inl rfl⟩) (arrHead_law qs cap f lvl hV hA _ _ _ _ h)

/-! ### objects -/

theorem objAfterVal_law (f lvl : Nat) (qm : Option Mime.Gen.Json.Query) (tag : Bytes) (hO : PObj qs cap f)
    (r2 : Bytes) (s6 : PState) (r : Bytes) (s' : PState)
    (h : objAfterVal qs cap f lvl qm tag r2 s6 = (some r, s')) : PrefixLaw (objAfterVal qs cap f lvl qm tag) r2 s6 r s' := by
  cases r2 with
  | nil => cases h
  | cons g gs =>
    have h0 : (objAfterVal qs cap f lvl qm tag [] s6).2.ib = s6.ib ∧ EndsEmpty (objAfterVal qs cap f lvl qm tag [] s6).1 :=
      ⟨by simp [objAfterVal], Or.inl rfl⟩
    by_cases hg : g = 0x2C
    · subst hg
      have hF : ∀ x, objAfterVal qs cap f lvl qm tag (0x2C :: x) s6 =
          (fun x (_ : PState) => objectLoop qs cap f lvl x ((applyQuery qm tag s6).pop.bump)) x s6.bump := fun x => by simp [objAfterVal]
      rw [hF] at h
      apply peek_law _ (fun x (_ : PState) => objectLoop qs cap f lvl x ((applyQuery qm tag s6).pop.bump)) _ _ hF h0
      exact law_congr_all (fun x (_ : PState) => objectLoop qs cap f lvl x ((applyQuery qm tag s6).pop.bump))
        (objectLoop qs cap f lvl) s6.bump ((applyQuery qm tag s6).pop.bump) (by simp) _ _ _ (fun _ => rfl) (hO _ _ _ _ _ h)
    · by_cases hg2 : g = 0x7D
      · subst hg2
        have hF : ∀ x, objAfterVal qs cap f lvl qm tag (0x7D :: x) s6 = (some x, (applyQuery qm tag s6).pop.bump) := fun x => by simp [objAfterVal]
        rw [hF] at h
        cases h
        exact last_byte_law _ _ _ _ (by simp) hF h0 _
      · simp [objAfterVal, hg, hg2] at h

theorem objAfterVal_empty (f lvl : Nat) (qm : Option Mime.Gen.Json.Query) (tag : Bytes) :
    NoProgressOnEmpty (objAfterVal qs cap f lvl qm tag) := fun _ => ⟨by simp [objAfterVal], Or.inl rfl⟩

theorem objValue_law (f lvl : Nat) (qm : Option Mime.Gen.Json.Query) (hV : PAny qs cap f) (hO : PObj qs cap f)
    (y : Bytes) (s5 : PState) (r : Bytes) (s' : PState)
    (h : objValue qs cap f lvl qm y s5 = (some r, s')) : PrefixLaw (objValue qs cap f lvl qm) y s5 r s' := by
  cases y with
  | nil => cases h
  | cons e es =>
    have h0 : (objValue qs cap f lvl qm [] s5).2.ib = s5.ib ∧ EndsEmpty (objValue qs cap f lvl qm [] s5).1 := ⟨rfl, Or.inl rfl⟩
    have hF : ∀ x, objValue qs cap f lvl qm (e :: x) s5 = seqScan (consumeAny qs cap f lvl) (objAfterVal qs cap f lvl qm) (e :: x) s5 := fun x => rfl
    rw [hF] at h
    simp only [seqScan] at h
    generalize hres : consumeAny qs cap f lvl (e :: es) s5 = res at h
    obtain ⟨o, s6⟩ := res
    cases o with
    | none => cases h
    | some r2 =>
      simp only at h
      apply law_congr _ (seqScan (consumeAny qs cap f lvl) (objAfterVal qs cap f lvl qm)) s5 s5 rfl
      · intro k hk
        obtain ⟨k', rfl⟩ : ∃ k', k = k' + 1 := ⟨k - 1, by omega⟩
        rw [take_cons_succ, hF]
      · exact h0
      · exact seqScan_nil _ _ _ (consumeAny_nil qs cap f lvl s5)
      · exact seqScan_law _ _ _ _ _ _ _ _ (hV _ _ _ _ _ hres) (objAfterVal_law qs cap f lvl qm _ hO _ _ _ _ h)
          (fun tag => objAfterVal_empty qs cap f lvl qm tag)

theorem objColon_law (f lvl : Nat) (qm : Option Mime.Gen.Json.Query) (hV : PAny qs cap f) (hO : PObj qs cap f)
    (y : Bytes) (s4 : PState) (r : Bytes) (s' : PState)
    (h : objColon qs cap f lvl qm y s4 = (some r, s')) : PrefixLaw (objColon qs cap f lvl qm) y s4 r s' := by
  cases y with
  | nil => cases h
  | cons d ds =>
    have h0 : (objColon qs cap f lvl qm [] s4).2.ib = s4.ib ∧ EndsEmpty (objColon qs cap f lvl qm [] s4).1 := ⟨rfl, Or.inl rfl⟩
    by_cases hd : d = 0x3A
    · subst hd
      have hF : ∀ x, objColon qs cap f lvl qm (0x3A :: x) s4 = seqScan spaceScan (fun _ => objValue qs cap f lvl qm) x s4.bump := fun x => by
        simp [objColon, seqScan]
      rw [hF, seqScan, spaceScan_val] at h
      simp only at h
      apply peek_law _ _ _ _ hF h0
      exact spaceThen_law _ _ _ _ _ (fun _ => ⟨rfl, Or.inl rfl⟩) (objValue_law qs cap f lvl qm hV hO _ _ _ _ h)
    · simp [objColon, hd] at h

theorem objAfterKey_law (f lvl : Nat) (tag : Bytes) (hV : PAny qs cap f) (hO : PObj qs cap f)
    (r1 : Bytes) (s2 : PState) (r : Bytes) (s' : PState)
    (h : objAfterKey qs cap f lvl tag r1 s2 = (some r, s')) : PrefixLaw (objAfterKey qs cap f lvl tag) r1 s2 r s' := by
  have hF : ∀ x, objAfterKey qs cap f lvl tag x s2 =
      seqScan spaceScan (fun _ => objColon qs cap f lvl
        (if (s2.push tag.dropLast).querySatisfied then none else queryPathMatch qs (s2.push tag.dropLast).currPath)) x (s2.push tag.dropLast) := fun x => rfl
  rw [hF, seqScan, spaceScan_val] at h
  simp only at h
  apply law_congr_all _ _ s2 (s2.push tag.dropLast) rfl _ _ _ hF
  exact spaceThen_law _ _ _ _ _ (fun _ => ⟨rfl, Or.inl rfl⟩) (objColon_law qs cap f lvl _ hV hO _ _ _ _ h)

theorem objAfterKey_empty (f lvl : Nat) (tag : Bytes) : NoProgressOnEmpty (objAfterKey qs cap f lvl tag) := by
  intro x
  simp only [objAfterKey, spaceScan, consumeSpace, objColon]
  exact ⟨rfl, Or.inl rfl⟩

theorem consumeString_nil (m : SMode) (s : PState) : consumeString m [] s = (none, s) := by
  cases m <;> rfl

theorem objHead_law (f lvl : Nat) (hV : PAny qs cap f) (hO : PObj qs cap f) (y : Bytes) (s1 : PState) (r : Bytes) (s' : PState)
    (h : objHead qs cap f lvl y s1 = (some r, s')) : PrefixLaw (objHead qs cap f lvl) y s1 r s' := by
  cases y with
  | nil => cases h
  | cons c cs =>
    have h0 : (objHead qs cap f lvl [] s1).2.ib = s1.ib ∧ EndsEmpty (objHead qs cap f lvl [] s1).1 := ⟨rfl, Or.inl rfl⟩
    by_cases hc : c = 0x7D
    · subst hc
      have hF : ∀ x, objHead qs cap f lvl (0x7D :: x) s1 = (some x, s1.bump) := fun x => by simp [objHead]
      rw [hF] at h
      cases h
      exact last_byte_law _ _ _ _ (by simp) hF h0 _
    · by_cases hq : c = 0x22
      · subst hq
        have hF : ∀ x, objHead qs cap f lvl (0x22 :: x) s1 = seqScan (consumeString .norm) (objAfterKey qs cap f lvl) x s1.bump := fun x => by
          simp [objHead, seqScan]
        rw [hF] at h
        apply peek_law _ _ _ _ hF h0
        simp only [seqScan] at h
        generalize hres : consumeString .norm cs s1.bump = res at h
        obtain ⟨o, s2⟩ := res
        cases o with
        | none => cases h
        | some r1 =>
          simp only at h
          exact seqScan_law _ _ _ _ _ _ _ _ (consumeString_prefix _ _ _ _ _ hres) (objAfterKey_law qs cap f lvl _ hV hO _ _ _ _ h)
            (fun tag => objAfterKey_empty qs cap f lvl tag)
      · simp [objHead, hc, hq] at h

theorem obj_step (f : Nat) (hV : PAny qs cap f) (hO : PObj qs cap f) : PObj qs cap (f + 1) := by
  intro lvl b s r s' h
  have hE : ∀ x, objectLoop qs cap (f + 1) lvl x s = seqScan spaceScan (fun _ => objHead qs cap f lvl) x s := by
    intro x; rw [objectLoop_eq]; rfl
  rw [hE, seqScan, spaceScan_val] at h
  simp only at h
  apply law_congr_all _ _ s s rfl _ _ _ hE
  exact spaceThen_law _ _ _ _ _ (fun _ => ⟨rfl, Or.inl rfl⟩) (objHead_law qs cap f lvl hV hO _ _ _ _ h)

/-! ### values -/

theorem kindScan_nil (f lvl : Nat) (k : Kind) (st : PState) : (kindScan qs cap f lvl k [] st).1 = none := by
  cases k <;> rfl

theorem kindScan_nil_ib (f lvl : Nat) (k : Kind) (st : PState) : (kindScan qs cap f lvl k [] st).2.ib = st.ib := by
  cases k <;> rfl

theorem kindScan_law (f lvl : Nat) (hA : PArr qs cap f) (hO : PObj qs cap f) (k : Kind) (c : Nat) (cs : Bytes) (s1 : PState)
    (r : Bytes) (s' : PState) (h : kindScan qs cap f lvl k (c :: cs) s1 = (some r, s')) :
    PrefixLaw (kindScan qs cap f lvl k) (c :: cs) s1 r s' := by
  have h0 : (kindScan qs cap f lvl k [] s1).2.ib = s1.ib ∧ EndsEmpty (kindScan qs cap f lvl k [] s1).1 :=
    ⟨kindScan_nil_ib qs cap f lvl k s1, Or.inl (kindScan_nil qs cap f lvl k s1)⟩
  cases k with
  | str =>
    exact peek_law _ (consumeString .norm) c s1 (fun _ => rfl) h0 _ _ _ (consumeString_prefix _ _ _ _ _ h)
  | arr =>
    have hF : ∀ x, kindScan qs cap f lvl .arr (c :: x) s1 =
        (fun x st => if x.isEmpty then (none, st.push [0x5B]) else arrayLoop qs cap f (lvl + 1) x (st.push [0x5B])) x s1.bump := fun _ => rfl
    rw [hF] at h
    apply peek_law _ (fun x st => if x.isEmpty then (none, st.push [0x5B]) else arrayLoop qs cap f (lvl + 1) x (st.push [0x5B])) c s1 hF h0
    cases cs with
    | nil => simp at h
    | cons d ds =>
      simp only [List.isEmpty_cons, Bool.false_eq_true, if_false] at h
      apply law_congr (fun x st => if x.isEmpty then (none, st.push [0x5B]) else arrayLoop qs cap f (lvl + 1) x (st.push [0x5B]))
        (arrayLoop qs cap f (lvl + 1)) s1.bump (s1.bump.push [0x5B]) rfl
      · intro k hk
        obtain ⟨k', rfl⟩ : ∃ k', k = k' + 1 := ⟨k - 1, by omega⟩
        rfl
      · exact ⟨rfl, Or.inl rfl⟩
      · exact arrayLoop_nil qs cap f _ _
      · exact hA _ _ _ _ _ h
  | obj =>
    exact peek_law _ (objectLoop qs cap f (lvl + 1)) c s1 (fun _ => rfl) h0 _ _ _ (hO _ _ _ _ _ h)
  | litT =>
    obtain ⟨e1, e2⟩ := consumeConst_some _ _ _ _ _ h
    rw [e1, e2]; exact consumeConst_prefix wTrue r s1
  | litF =>
    obtain ⟨e1, e2⟩ := consumeConst_some _ _ _ _ _ h
    rw [e1, e2]; exact consumeConst_prefix wFalse r s1
  | litN =>
    obtain ⟨e1, e2⟩ := consumeConst_some _ _ _ _ _ h
    rw [e1, e2]; exact consumeConst_prefix wNull r s1
  | num => exact consumeNumber_prefix _ _ _ _ _ h

/-- the tail of `consumeAny`: flags, then trailing white space -/
theorem finishScan_law (lvl t : Nat) (G : Scan) (b : Bytes) (s : PState) (r1 : Bytes) (s1 : PState)
    (lG : PrefixLaw G b s r1 s1) :
    PrefixLaw (finishScan qs lvl t G) b s (J.skipWs r1)
      (((s1.setFirst lvl t).setQ qs.isEmpty).bump (r1.length - (J.skipWs r1).length)) := by
  have hib : ∀ x : PState, ((x.setFirst lvl t).setQ qs.isEmpty).ib = x.ib := by
    intro x; unfold PState.setFirst PState.setQ; split <;> split <;> rfl
  apply seq_law G (fun _ r st => spaceScan r ((st.setFirst lvl t).setQ qs.isEmpty))
    (fun st => (st.setFirst lvl t).setQ qs.isEmpty) _ hib b s r1 s1
  · intro k
    simp only [finishScan, finishAny, spaceScan]
    generalize G (b.take k) s = res
    obtain ⟨o, x⟩ := res
    cases o <;> rfl
  · exact lG
  · exact law_congr_all _ spaceScan _ _ (hib s1) _ _ _ (fun _ => rfl) (spaceScan_law r1 _)
  · intro _ x
    exact ⟨by simp only [spaceScan, consumeSpace]; exact hib x, Or.inr rfl⟩

theorem finishScan_val (lvl t : Nat) (G : Scan) (b : Bytes) (s : PState) (r1 : Bytes) (s1 : PState)
    (h : G b s = (some r1, s1)) :
    finishScan qs lvl t G b s = (some (J.skipWs r1), ((s1.setFirst lvl t).setQ qs.isEmpty).bump (r1.length - (J.skipWs r1).length)) := by
  simp only [finishScan, finishAny, h, consumeSpace_spec]

theorem anyHead_law (f lvl : Nat) (hA : PArr qs cap f) (hO : PObj qs cap f) (y : Bytes) (s1 : PState) (r : Bytes) (s' : PState)
    (h : anyHead qs cap f lvl y s1 = (some r, s')) : PrefixLaw (anyHead qs cap f lvl) y s1 r s' := by
  cases y with
  | nil => cases h
  | cons c cs =>
    have hF : ∀ x, anyHead qs cap f lvl (c :: x) s1 =
        finishScan qs lvl (classify c).tok (kindScan qs cap f lvl (classify c)) (c :: x) s1 := fun _ => rfl
    rw [hF] at h
    generalize hres : kindScan qs cap f lvl (classify c) (c :: cs) s1 = res
    obtain ⟨o, s2⟩ := res
    cases o with
    | none => simp [finishScan, finishAny, hres] at h
    | some r1 =>
      rw [finishScan_val qs lvl _ _ _ _ _ _ hres] at h
      cases h
      apply law_congr _ (finishScan qs lvl (classify c).tok (kindScan qs cap f lvl (classify c))) s1 s1 rfl
      · intro k hk
        obtain ⟨k', rfl⟩ : ∃ k', k = k' + 1 := ⟨k - 1, by omega⟩
        rw [take_cons_succ, hF]
      · exact ⟨rfl, Or.inl rfl⟩
      · have := kindScan_nil qs cap f lvl (classify c) s1
        generalize hz : kindScan qs cap f lvl (classify c) [] s1 = z at this
        obtain ⟨o, x⟩ := z
        simp only at this
        subst this
        simp [finishScan, finishAny, hz]
      · exact finishScan_law qs lvl _ _ _ _ _ _ (kindScan_law qs cap f lvl hA hO _ _ _ _ _ _ hres)

theorem any_step (f : Nat) (hA : PArr qs cap f) (hO : PObj qs cap f) : PAny qs cap (f + 1) := by
  intro lvl b s r s' h
  by_cases hcap : (cap != 0 && decide (lvl > cap)) = true
  · rw [consumeAny_eq, if_pos hcap] at h; cases h
  · have hE : ∀ x, consumeAny qs cap (f + 1) lvl x s = seqScan spaceScan (fun _ => anyHead qs cap f lvl) x (s.enter lvl) := by
      intro x; rw [consumeAny_eq, if_neg hcap]; rfl
    rw [hE, seqScan, spaceScan_val] at h
    simp only at h
    apply law_congr_all _ _ s (s.enter lvl) rfl _ _ _ hE
    exact spaceThen_law _ _ _ _ _ (fun _ => ⟨rfl, Or.inl rfl⟩) (anyHead_law qs cap f lvl hA hO _ _ _ _ h)

/-- **the prefix law of the three container scanners, for every fuel** -/
theorem prefix_all : ∀ f, PAny qs cap f ∧ PArr qs cap f ∧ PObj qs cap f := by
  intro f
  induction f with
  | zero =>
    refine ⟨?_, ?_, ?_⟩ <;> intro lvl b s r s' h
    · rw [consumeAny] at h; cases h
    · rw [arrayLoop] at h; cases h
    · rw [objectLoop] at h; cases h
  | succ f ih =>
    obtain ⟨hV, hA, hO⟩ := ih
    exact ⟨any_step qs cap f hA hO, arr_step qs cap f hV hA, obj_step qs cap f hV hO⟩

end Mime.JsonPrefix
