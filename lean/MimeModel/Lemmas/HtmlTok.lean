import MimeModel.Model.HtmlTok
import MimeModel.Props.C12
/-
  Theorems about the byte-level tokenizer model `Mime.HtmlTok` (x/net/html as driven by
  `charset.fromHTML`; the model is validated against the real tokenizer by ValidateHtml.lean).

  * `run_attrs`, `run_startTag`             a well-formed attribute list / start tag is read as written
  * `meta_first_tag_raw`, `meta_first_tag`, `meta_first_tag_some`
                                            `<meta ws attrs>` is the first reported tag, parsed attributes
  * `Prologue`, `Prologue.skips`            text, comments, doctype, ordinary start/end tags are skipped
  * `declared_charset_reported`, `declared_charset_simple`
                                            C12 (HTML clause) at byte level: the declared label is the answer
  * `script_hides_meta`, `rawtext_hides_meta`, `comment_hides_meta`
                                            a `<meta>` inside script / title & co. / a comment is no tag
  * `startTags_covered`                     inputs without `&` are always covered (`startTags ≠ none`)
  * `no_tag_without_gt`, `plaintext_swallows`, `rawTags_prefix`
                                            end of input inside a tag, plaintext, truncation
  * examples by `decide`                    non-vacuity and the odd corners of the tokenizer
-/
namespace Mime.HtmlTokLemmas
open Mime Mime.Charset Mime.HtmlTok

/-! ### running the machine -/

/-- continue after one step -/
def run' : Out → Bytes → List Tag
  | (s, none), cs => run s cs
  | (s, some t), cs => t :: run s cs

theorem run_cons (st : St) (c : Nat) (cs : Bytes) : run st (c :: cs) = run' (step st c) cs := by
  rw [run]
  rcases step st c with ⟨s, _ | t⟩ <;> rfl

@[simp] theorem run'_nx (s : St) (cs : Bytes) : run' (nx s) cs = run s cs := rfl

/-! ### character classes -/

/-- a byte that can continue an attribute key -/
def keyChar (c : Nat) : Bool := !(isWS c || c == 0x2F || c == 0x3D || c == 0x3E)

/-- a byte that can continue an unquoted value -/
def bareChar (c : Nat) : Bool := !(isWS c || c == 0x3E)

/-- a byte that can continue a tag name -/
def nameChar (c : Nat) : Bool := !(isWS c || c == 0x2F || c == 0x3E)

theorem isLetter_nameChar {c : Nat} (h : isLetter c = true) : nameChar c = true := by
  simp only [isLetter, Bool.or_eq_true, Bool.and_eq_true, decide_eq_true_eq] at h
  simp only [nameChar, isWS, Bool.not_eq_true', Bool.or_eq_false_iff, beq_eq_false_iff_ne, ne_eq]
  omega

theorem isLetter_keyChar {c : Nat} (h : isLetter c = true) : keyChar c = true := by
  simp only [isLetter, Bool.or_eq_true, Bool.and_eq_true, decide_eq_true_eq] at h
  simp only [keyChar, isWS, Bool.not_eq_true', Bool.or_eq_false_iff, beq_eq_false_iff_ne, ne_eq]
  omega

/-! ### inside a tag -/

theorem run_beforeAttr_ws (t : TagAcc) (ws rest : Bytes) (h : ∀ c ∈ ws, isWS c = true) :
    run (.beforeAttr t) (ws ++ rest) = run (.beforeAttr t) rest := by
  induction ws with
  | nil => rfl
  | cons c cs ih =>
    have hc := h c (List.mem_cons_self ..)
    rw [List.cons_append, run_cons]
    simp only [step, beforeAttrStep, hc, ↓reduceIte, run'_nx]
    exact ih (fun y hy => h y (List.mem_cons_of_mem _ hy))

theorem run_beforeAttr_gt (t : TagAcc) (rest : Bytes) :
    run (.beforeAttr t) (0x3E :: rest) = run' (emit t) rest := by
  rw [run_cons]
  have : isWS 0x3E = false := by decide
  simp [step, beforeAttrStep, this]

/-- the tag name: bytes up to white space / `/` / `>` -/
theorem run_tagName_chars (t : TagAcc) (cs rest : Bytes) (h : ∀ c ∈ cs, nameChar c = true) :
    run (.tagName t) (cs ++ rest) = run (.tagName { t with name := t.name ++ cs }) rest := by
  induction cs generalizing t with
  | nil => cases t; simp
  | cons c cs ih =>
    have hc := h c (List.mem_cons_self ..)
    simp only [nameChar, Bool.not_eq_true', Bool.or_eq_false_iff] at hc
    rw [List.cons_append, run_cons]
    simp only [step, tagNameStep, hc, Bool.false_eq_true, ↓reduceIte, Bool.or_self, run'_nx]
    rw [ih _ (fun y hy => h y (List.mem_cons_of_mem _ hy))]
    simp [List.append_assoc]

theorem run_tagName_ws (t : TagAcc) (w : Nat) (rest : Bytes) (h : isWS w = true) :
    run (.tagName t) (w :: rest) = run (.beforeAttr t) rest := by
  rw [run_cons]; simp [step, tagNameStep, h]

theorem run_tagName_gt (t : TagAcc) (rest : Bytes) :
    run (.tagName t) (0x3E :: rest) = run' (emit t) rest := by
  rw [run_cons]
  have : isWS 0x3E = false := by decide
  simp [step, tagNameStep, beforeAttrStep, this]

/-- key bytes accumulate -/
theorem run_attrKey_chars (t : TagAcc) (k cs rest : Bytes) (h : ∀ c ∈ cs, keyChar c = true) :
    run (.attrKey t k) (cs ++ rest) = run (.attrKey t (k ++ cs)) rest := by
  induction cs generalizing k with
  | nil => simp
  | cons c cs ih =>
    have hc := h c (List.mem_cons_self ..)
    simp only [keyChar, Bool.not_eq_true', Bool.or_eq_false_iff] at hc
    rw [List.cons_append, run_cons]
    simp only [step, attrKeyStep, hc, Bool.false_eq_true, ↓reduceIte, Bool.or_self, run'_nx]
    rw [ih _ (fun y hy => h y (List.mem_cons_of_mem _ hy))]
    simp [List.append_assoc]

/-- `key=` : from the attribute loop head to the value -/
theorem run_key_eq (t : TagAcc) (k rest : Bytes) (hne : k ≠ []) (h : ∀ c ∈ k, keyChar c = true) :
    run (.beforeAttr t) (k ++ 0x3D :: rest) = run (.beforeVal t k) rest := by
  cases k with
  | nil => exact absurd rfl hne
  | cons c cs =>
    have hc := h c (List.mem_cons_self ..)
    simp only [keyChar, Bool.not_eq_true', Bool.or_eq_false_iff] at hc
    rw [List.cons_append, run_cons]
    simp only [step, beforeAttrStep, hc, Bool.false_eq_true, ↓reduceIte, run'_nx]
    rw [run_attrKey_chars t [c] cs _ (fun y hy => h y (List.mem_cons_of_mem _ hy)), run_cons]
    have : isWS 0x3D = false := by decide
    simp [step, attrKeyStep, afterKeyStep, this]

theorem run_quoted_chars (t : TagAcc) (k : Bytes) (q : Nat) (v cs rest : Bytes) (h : ∀ c ∈ cs, c ≠ q) :
    run (.quoted t k q v) (cs ++ q :: rest) = run (.beforeAttr (save t k (v ++ cs))) rest := by
  induction cs generalizing v with
  | nil => rw [List.nil_append, run_cons]; simp [step, quotedStep]
  | cons c cs ih =>
    have hc : (c == q) = false := by simpa using h c (List.mem_cons_self ..)
    rw [List.cons_append, run_cons]
    simp only [step, quotedStep, hc, Bool.false_eq_true, ↓reduceIte, run'_nx]
    rw [ih _ (fun y hy => h y (List.mem_cons_of_mem _ hy))]
    simp [List.append_assoc]

/-- a quoted value -/
theorem run_val_quoted (t : TagAcc) (k : Bytes) (q : Nat) (v rest : Bytes) (hq : q = 0x22 ∨ q = 0x27)
    (h : ∀ c ∈ v, c ≠ q) :
    run (.beforeVal t k) (q :: (v ++ q :: rest)) = run (.beforeAttr (save t k v)) rest := by
  rw [run_cons]
  have e : step (.beforeVal t k) q = nx (.quoted t k q []) := by
    rcases hq with rfl | rfl <;> rfl
  rw [e, run'_nx, run_quoted_chars t k q [] v rest h]
  simp

theorem run_unquoted_chars (t : TagAcc) (k v cs rest : Bytes) (h : ∀ c ∈ cs, bareChar c = true) :
    run (.unquoted t k v) (cs ++ rest) = run (.unquoted t k (v ++ cs)) rest := by
  induction cs generalizing v with
  | nil => simp
  | cons c cs ih =>
    have hc := h c (List.mem_cons_self ..)
    simp only [bareChar, Bool.not_eq_true', Bool.or_eq_false_iff] at hc
    rw [List.cons_append, run_cons]
    simp only [step, unquotedStep, hc, Bool.false_eq_true, ↓reduceIte, run'_nx]
    rw [ih _ (fun y hy => h y (List.mem_cons_of_mem _ hy))]
    simp [List.append_assoc]

/-- an unquoted value: non-empty, no white space or `>`, not starting with a quote -/
theorem run_val_bare (t : TagAcc) (k : Bytes) (c : Nat) (cs rest : Bytes)
    (h : ∀ x ∈ c :: cs, bareChar x = true) (h1 : c ≠ 0x22) (h2 : c ≠ 0x27) :
    run (.beforeVal t k) (c :: (cs ++ rest)) = run (.unquoted t k (c :: cs)) rest := by
  have hc := h c (List.mem_cons_self ..)
  simp only [bareChar, Bool.not_eq_true', Bool.or_eq_false_iff] at hc
  have e1 : (c == 0x22) = false := by simpa using h1
  have e2 : (c == 0x27) = false := by simpa using h2
  rw [run_cons]
  simp only [step, beforeValStep, hc, e1, e2, Bool.false_eq_true, ↓reduceIte, Bool.or_self, run'_nx]
  rw [run_unquoted_chars t k [c] cs rest (fun y hy => h y (List.mem_cons_of_mem _ hy))]
  rfl

theorem run_unquoted_ws (t : TagAcc) (k v : Bytes) (w : Nat) (rest : Bytes) (h : isWS w = true) :
    run (.unquoted t k v) (w :: rest) = run (.beforeAttr (save t k v)) rest := by
  rw [run_cons]; simp [step, unquotedStep, h]

theorem run_unquoted_gt (t : TagAcc) (k v rest : Bytes) :
    run (.unquoted t k v) (0x3E :: rest) = run' (emit (save t k v)) rest := by
  rw [run_cons]
  have : isWS 0x3E = false := by decide
  simp [step, unquotedStep, this]

/-! ### an attribute grammar -/

inductive ValForm | dq | sq | bare
  deriving DecidableEq

/-- `key=value` followed by white space `sep` -/
structure AttrSrc where
  key : Bytes
  form : ValForm
  val : Bytes
  sep : Bytes

def AttrSrc.valText (a : AttrSrc) : Bytes :=
  match a.form with
  | .dq => 0x22 :: a.val ++ [0x22]
  | .sq => 0x27 :: a.val ++ [0x27]
  | .bare => a.val

def AttrSrc.text (a : AttrSrc) : Bytes := a.key ++ 0x3D :: (a.valText ++ a.sep)

/-- keys: non-empty, no white space `/` `=` `>`; values: quoted without that quote, or unquoted
    non-empty without white space / `>` and not starting with a quote; `sep`: white space -/
def AttrSrc.wf (a : AttrSrc) : Prop :=
  a.key ≠ [] ∧ (∀ c ∈ a.key, keyChar c = true) ∧ (∀ c ∈ a.sep, isWS c = true) ∧
  match a.form with
  | .dq => ∀ c ∈ a.val, c ≠ 0x22
  | .sq => ∀ c ∈ a.val, c ≠ 0x27
  | .bare => a.val ≠ [] ∧ (∀ c ∈ a.val, bareChar c = true) ∧ a.val.head? ≠ some 0x22 ∧ a.val.head? ≠ some 0x27

def attrsText : List AttrSrc → Bytes
  | [] => []
  | a :: as => a.text ++ attrsText as

/-- every attribute is well formed, and an unquoted value is followed by white space unless it
    is the last thing before `>` -/
def attrsWf : List AttrSrc → Prop
  | [] => True
  | a :: as => a.wf ∧ (a.form = .bare → a.sep = [] → as = []) ∧ attrsWf as

/-- what the tokenizer reports: lower-cased keys, literal values -/
def parsed (as : List AttrSrc) : List (Bytes × Bytes) := as.map (fun a => (lowerASCII a.key, a.val))

theorem run_attrs (as : List AttrSrc) (hwf : attrsWf as) (t : TagAcc) (rest : Bytes) :
    run (.beforeAttr t) (attrsText as ++ 0x3E :: rest) =
      run' (emit { t with attrs := t.attrs ++ parsed as }) rest := by
  induction as generalizing t with
  | nil =>
    simp only [attrsText, List.nil_append, parsed, List.map_nil, List.append_nil]
    exact run_beforeAttr_gt t rest
  | cons a as ih =>
    obtain ⟨⟨hk, hkc, hsep, hval⟩, hlast, hwf'⟩ := hwf
    have hattrs : ∀ v, (save t a.key v).attrs ++ parsed as = t.attrs ++ (lowerASCII a.key, v) :: parsed as := by
      intro v; simp [save, List.append_assoc]
    obtain ⟨key, form, val, sep⟩ := a
    simp only at hk hkc hsep hval hlast hattrs
    simp only [attrsText, AttrSrc.text, List.append_assoc, List.cons_append]
    rw [run_key_eq t key _ hk hkc]
    cases form with
    | dq =>
      simp only [AttrSrc.valText, List.cons_append, List.append_assoc, List.nil_append]
      rw [run_val_quoted t key 0x22 val _ (Or.inl rfl) hval, run_beforeAttr_ws _ sep _ hsep, ih hwf']
      simp [save, parsed, List.append_assoc]
    | sq =>
      simp only [AttrSrc.valText, List.cons_append, List.append_assoc, List.nil_append]
      rw [run_val_quoted t key 0x27 val _ (Or.inr rfl) hval, run_beforeAttr_ws _ sep _ hsep, ih hwf']
      simp [save, parsed, List.append_assoc]
    | bare =>
      obtain ⟨hne, hbc, hq1, hq2⟩ := hval
      cases val with
      | nil => exact absurd rfl hne
      | cons c cs =>
        simp only [AttrSrc.valText, List.cons_append]
        rw [run_val_bare t key c cs _ hbc (by simpa using hq1) (by simpa using hq2)]
        cases sep with
        | nil =>
          have := hlast rfl rfl
          subst this
          simp only [attrsText, List.nil_append, parsed, List.map_cons, List.map_nil]
          rw [run_unquoted_gt]
          simp [save]
        | cons w ws =>
          rw [List.cons_append, run_unquoted_ws _ _ _ _ _ (hsep w (List.mem_cons_self ..)),
            run_beforeAttr_ws _ ws _ (fun y hy => hsep y (List.mem_cons_of_mem _ hy)), ih hwf']
          simp [save, parsed, List.append_assoc]

/-! ### a whole start tag -/

/-- letter-case variants of a lower-case keyword consist of letters -/
theorem letters_of_lower (nm kw : Bytes) (h : lowerASCII nm = kw) (hk : ∀ c ∈ kw, 0x61 ≤ c ∧ c ≤ 0x7A) :
    ∀ c ∈ nm, isLetter c = true := by
  intro c hc
  have : (if (0x41 ≤ c && c ≤ 0x5A) = true then c + 0x20 else c) ∈ kw := by
    rw [← h]; exact List.mem_map.mpr ⟨c, hc, rfl⟩
  have hb := hk _ this
  simp only [isLetter, Bool.or_eq_true, Bool.and_eq_true, decide_eq_true_eq]
  split at hb
  · rename_i h1
    simp only [Bool.and_eq_true, decide_eq_true_eq] at h1
    omega
  · omega

/-- `<name ws attrs >` read from the text state: the start tag is complete -/
theorem run_startTag (c : Nat) (cs ws0 : Bytes) (as : List AttrSrc) (rest : Bytes)
    (hc : isLetter c = true) (hcs : ∀ x ∈ cs, nameChar x = true)
    (hws : ∀ x ∈ ws0, isWS x = true) (hws0 : ws0 = [] → as = []) (hwf : attrsWf as) :
    run .data (0x3C :: (c :: cs) ++ ws0 ++ attrsText as ++ 0x3E :: rest) =
      run' (emit { start := true, name := c :: cs, attrs := parsed as }) rest := by
  have hlt : isLetter 0x3C = false := by decide
  simp only [List.cons_append, List.append_assoc]
  rw [run_cons]
  simp only [step, dataStep, beq_self_eq_true, ↓reduceIte, run'_nx]
  rw [run_cons]
  simp only [step, ltStep, hc, ↓reduceIte, run'_nx]
  rw [run_tagName_chars _ cs _ hcs]
  simp only [List.cons_append, List.nil_append]
  cases ws0 with
  | nil =>
    rw [hws0 rfl]
    simp only [List.nil_append, attrsText, parsed, List.map_nil]
    rw [run_tagName_gt]
  | cons w ws =>
    rw [List.cons_append, run_tagName_ws _ _ _ (hws w (List.mem_cons_self ..)),
      run_beforeAttr_ws _ ws _ (fun y hy => hws y (List.mem_cons_of_mem _ hy)), run_attrs as hwf]
    simp

theorem afterStart_meta : afterStart kMeta = .data := by decide

theorem kMeta_lower : ∀ c ∈ kMeta, 0x61 ≤ c ∧ c ≤ 0x7A := by decide

/-- the source text of a start tag -/
def tagText (nm ws0 : Bytes) (as : List AttrSrc) : Bytes := 0x3C :: nm ++ ws0 ++ attrsText as ++ [0x3E]

/-- **meta_first_tag** (raw level): a well-formed `<meta …>` (any letter case) at the start of
    the text is the first reported tag, with the lower-cased keys and the literal values, and
    tokenization continues in the text state right after its `>` -/
theorem meta_first_tag_raw (nm ws0 : Bytes) (as : List AttrSrc) (rest : Bytes)
    (hnm : lowerASCII nm = kMeta) (hws : ∀ x ∈ ws0, isWS x = true) (hws0 : ws0 = [] → as = [])
    (hwf : attrsWf as) :
    rawTags (tagText nm ws0 as ++ rest) = { name := kMeta, attrs := parsed as } :: rawTags rest := by
  have hl := letters_of_lower nm kMeta hnm kMeta_lower
  cases nm with
  | nil => exact absurd hnm (by decide)
  | cons c cs =>
    have := run_startTag c cs ws0 as rest (hl c (List.mem_cons_self ..))
      (fun x hx => isLetter_nameChar (hl x (List.mem_cons_of_mem _ hx))) hws hws0 hwf
    simp only [rawTags, tagText, List.append_assoc, List.cons_append, List.nil_append] at this ⊢
    rw [this]
    simp only [emit, ↓reduceIte, hnm, afterStart_meta, run']

/-! ### from raw tags to `startTags` -/

theorem convNL_id (v : Bytes) (h : ∀ c ∈ v, c ≠ 0x0D) : convNL v = v := by
  unfold convNL
  induction v with
  | nil => rfl
  | cons c cs ih =>
    have hc : (c == 0x0D) = false := by simpa using h c (List.mem_cons_self ..)
    simp only [convNLAux, hc, Bool.false_eq_true, ↓reduceIte, Bool.and_false]
    rw [ih (fun y hy => h y (List.mem_cons_of_mem _ hy))]

/-- no `&` (nothing to unescape) and no CR (nothing to convert) in any value -/
def cleanVals (attrs : List (Bytes × Bytes)) : Prop := ∀ kv ∈ attrs, ∀ c ∈ kv.2, c ≠ 0x26 ∧ c ≠ 0x0D

theorem hasAmp_clean (n : Bytes) (attrs : List (Bytes × Bytes)) (h : cleanVals attrs) :
    hasAmp { name := n, attrs := attrs } = false := by
  simp only [hasAmp, List.any_eq_false]
  intro kv hkv
  simp only [List.contains_eq_any_beq, List.any_eq_true, not_exists, not_and, beq_iff_eq]
  intro c hc e
  exact (h kv hkv c hc).1 e.symm

theorem finishTag_clean (n : Bytes) (attrs : List (Bytes × Bytes)) (h : cleanVals attrs) :
    finishTag { name := n, attrs := attrs } = { name := n, attrs := attrs } := by
  simp only [finishTag, Tag.mk.injEq, true_and]
  induction attrs with
  | nil => rfl
  | cons kv kvs ih =>
    simp only [List.map_cons, List.cons.injEq]
    constructor
    · rw [convNL_id kv.2 (fun c hc => (h kv (List.mem_cons_self ..) c hc).2)]
    · exact ih (fun x hx => h x (List.mem_cons_of_mem _ hx))

theorem startTags_cons (doc rest : Bytes) (t : Tag) (h : rawTags doc = t :: rawTags rest) (ha : hasAmp t = false) :
    startTags doc = (startTags rest).map (finishTag t :: ·) := by
  simp only [startTags, h, List.any_cons, ha, Bool.false_or, List.map_cons]
  split <;> simp

/-- **meta_first_tag**: for `doc = "<meta" ws attrs ">" rest` with a well-formed attribute list
    whose values contain no `&` / CR, the tokenizer's first start tag is
    `meta` with exactly the parsed attributes; the tags of `rest` follow
    (`startTags doc = some (⟨"meta", parsed⟩ :: more)` whenever `startTags rest = some more`) -/
theorem meta_first_tag (nm ws0 : Bytes) (as : List AttrSrc) (rest : Bytes)
    (hnm : lowerASCII nm = kMeta) (hws : ∀ x ∈ ws0, isWS x = true) (hws0 : ws0 = [] → as = [])
    (hwf : attrsWf as) (hclean : cleanVals (parsed as)) :
    startTags (tagText nm ws0 as ++ rest) =
      (startTags rest).map ({ name := kMeta, attrs := parsed as } :: ·) := by
  rw [startTags_cons _ rest _ (meta_first_tag_raw nm ws0 as rest hnm hws hws0 hwf) (hasAmp_clean _ _ hclean),
    finishTag_clean _ _ hclean]

/-- `meta_first_tag` in the shape `startTags doc = some (⟨"meta", parsed⟩ :: more)`: it holds
    whenever the rest of the document is covered by the model (for instance contains no `&`) -/
theorem meta_first_tag_some (nm ws0 : Bytes) (as : List AttrSrc) (rest : Bytes)
    (hnm : lowerASCII nm = kMeta) (hws : ∀ x ∈ ws0, isWS x = true) (hws0 : ws0 = [] → as = [])
    (hwf : attrsWf as) (hclean : cleanVals (parsed as)) (hrest : startTags rest ≠ none) :
    ∃ more, startTags rest = some more ∧
      startTags (tagText nm ws0 as ++ rest) = some ({ name := kMeta, attrs := parsed as } :: more) := by
  rw [meta_first_tag nm ws0 as rest hnm hws hws0 hwf hclean]
  cases h : startTags rest with
  | none => exact absurd h hrest
  | some more => exact ⟨more, rfl, rfl⟩

/-! ### things in front of the declaration that the prescan skips -/

/-- `P` is tokenized on its own (the machine is back in the text state after it) and reports
    only tags other than `meta` -/
def Skips (P : Bytes) : Prop :=
  ∃ T : List Tag, (∀ t ∈ T, t.name ≠ kMeta) ∧ ∀ rest, run .data (P ++ rest) = T ++ run .data rest

theorem Skips.nil : Skips [] := ⟨[], by simp, fun _ => rfl⟩

theorem Skips.append {P Q : Bytes} (hP : Skips P) (hQ : Skips Q) : Skips (P ++ Q) := by
  obtain ⟨T, hT, h1⟩ := hP
  obtain ⟨U, hU, h2⟩ := hQ
  refine ⟨T ++ U, ?_, fun rest => ?_⟩
  · intro t ht
    rcases List.mem_append.mp ht with h | h
    · exact hT t h
    · exact hU t h
  · rw [List.append_assoc, h1, h2, List.append_assoc]

/-- text without `<` -/
theorem skips_text (w : Bytes) (h : ∀ c ∈ w, c ≠ 0x3C) : Skips w := by
  refine ⟨[], by simp, fun rest => ?_⟩
  induction w with
  | nil => rfl
  | cons c cs ih =>
    have hc : (c == 0x3C) = false := by simpa using h c (List.mem_cons_self ..)
    rw [List.cons_append, run_cons]
    simp only [step, dataStep, hc, Bool.false_eq_true, ↓reduceIte, run'_nx]
    exact ih (fun y hy => h y (List.mem_cons_of_mem _ hy))

/-- no two adjacent dashes (`prevDash`: the byte before was a dash) -/
def noDD (prevDash : Bool) : Bytes → Bool
  | [] => true
  | c :: r => if c == 0x2D then !prevDash && noDD true r else noDD false r

theorem commentStep_dash (d : Nat) (b : Bool) :
    commentStep d b 0x2D = nx (.comment (if d ≥ 1 then 2 else 1) b) := by
  simp [commentStep]

theorem commentStep_other (d : Nat) (b : Bool) (x : Nat) (h1 : (x == 0x2D) = false) (hd : d < 2)
    (h2 : (x == 0x3E) = false ∨ b = false) : commentStep d b x = nx (.comment 0 false) := by
  have hd' : ¬ d ≥ 2 := by omega
  simp only [commentStep, h1, Bool.false_eq_true, ↓reduceIte, hd', decide_false, Bool.false_or]
  rcases h2 with h2 | h2
  · simp only [h2, Bool.false_eq_true, ↓reduceIte]
    split <;> rfl
  · subst h2
    simp only [Bool.false_eq_true, ↓reduceIte]
    split
    · rfl
    · split <;> rfl

theorem run_comment_close (d : Nat) (b : Bool) (rest : Bytes) :
    run (.comment d b) (0x2D :: 0x2D :: 0x3E :: rest) = run .data rest := by
  rw [run_cons, step, commentStep_dash, run'_nx, run_cons, step, commentStep_dash, run'_nx, run_cons, step]
  have : (if (if d ≥ 1 then 2 else 1) ≥ 1 then 2 else 1) = 2 := by
    split <;> simp_all
  rw [this]
  simp [commentStep]

theorem run_comment_body (pd : Bool) (c rest : Bytes) (h : noDD pd c = true) :
    run (.comment (if pd then 1 else 0) false) (c ++ 0x2D :: 0x2D :: 0x3E :: rest) = run .data rest := by
  induction c generalizing pd with
  | nil => exact run_comment_close _ _ rest
  | cons x xs ih =>
    rw [List.cons_append, run_cons, step]
    simp only [noDD] at h
    by_cases hx : x = 0x2D
    · subst hx
      simp only [beq_self_eq_true, ↓reduceIte, Bool.and_eq_true, Bool.not_eq_true'] at h
      obtain ⟨hpd, h⟩ := h
      subst hpd
      have := ih true h
      simp only [↓reduceIte] at this
      rw [commentStep_dash, run'_nx]
      simpa using this
    · have e : (x == 0x2D) = false := by simpa using hx
      simp only [e, Bool.false_eq_true, ↓reduceIte] at h
      have := ih false h
      simp only [Bool.false_eq_true, ↓reduceIte] at this
      rw [commentStep_other _ _ x e (by cases pd <;> simp) (Or.inr rfl), run'_nx, this]

/-- a comment body that `-->` (and nothing earlier) closes: no `--` inside, and not starting
    with `>` or `->` (the "abrupt closing of empty comment" cases `<!-->`, `<!--->`) -/
def commentBodyOk (c : Bytes) : Bool :=
  noDD false c && !(hasPrefix c [0x3E]) && !(hasPrefix c [0x2D, 0x3E])

def commentText (c : Bytes) : Bytes := [0x3C, 0x21, 0x2D, 0x2D] ++ c ++ [0x2D, 0x2D, 0x3E]

theorem run_comment_open (rest : Bytes) :
    run .data (0x3C :: 0x21 :: 0x2D :: 0x2D :: rest) = run (.comment 0 true) rest := by
  rw [run_cons, step]; simp only [dataStep, beq_self_eq_true, ↓reduceIte, run'_nx]
  rw [run_cons, step]
  have e1 : ltStep 0x21 = nx .md0 := by decide
  rw [e1, run'_nx, run_cons, step]
  have e2 : md0Step 0x2D = nx .md1 := by decide
  rw [e2, run'_nx, run_cons, step]
  have e3 : md1Step 0x2D = nx (.comment 0 true) := by decide
  rw [e3, run'_nx]

theorem run_comment (c rest : Bytes) (h : commentBodyOk c = true) :
    run .data (commentText c ++ rest) = run .data rest := by
  simp only [commentText, List.cons_append, List.nil_append, List.append_assoc]
  rw [run_comment_open]
  simp only [commentBodyOk, Bool.and_eq_true, Bool.not_eq_true'] at h
  obtain ⟨⟨hdd, hgt⟩, hdgt⟩ := h
  cases c with
  | nil => exact run_comment_close _ _ rest
  | cons x xs =>
    rw [List.cons_append, run_cons, step]
    by_cases hx : x = 0x2D
    · subst hx
      simp only [noDD, beq_self_eq_true, ↓reduceIte, Bool.not_false, Bool.true_and] at hdd
      rw [commentStep_dash, run'_nx]
      cases xs with
      | nil => exact run_comment_close _ _ rest
      | cons y ys =>
        simp only [noDD] at hdd
        have hy : (y == 0x2D) = false := by
          cases hyy : (y == 0x2D) with
          | false => rfl
          | true => simp [hyy] at hdd
        have hy2 : (y == 0x3E) = false := by
          cases hyy : (y == 0x3E) with
          | false => rfl
          | true =>
            have : y = 0x3E := by simpa using hyy
            subst this
            simp [hasPrefix, List.isPrefixOf] at hdgt
        simp only [hy, Bool.false_eq_true, ↓reduceIte] at hdd
        rw [List.cons_append, run_cons, step, commentStep_other _ _ y hy (by simp) (Or.inl hy2), run'_nx]
        exact run_comment_body false ys rest hdd
    · have e : (x == 0x2D) = false := by simpa using hx
      have e' : (x == 0x3E) = false := by
        cases hxx : (x == 0x3E) with
        | false => rfl
        | true =>
          have : x = 0x3E := by simpa using hxx
          subst this
          simp [hasPrefix, List.isPrefixOf] at hgt
      simp only [noDD, e, Bool.false_eq_true, ↓reduceIte] at hdd
      rw [commentStep_other _ _ x e (by simp) (Or.inl e'), run'_nx]
      exact run_comment_body false xs rest hdd

theorem skips_comment (c : Bytes) (h : commentBodyOk c = true) : Skips (commentText c) :=
  ⟨[], by simp, fun rest => run_comment c rest h⟩

theorem run_bogus (d rest : Bytes) (h : ∀ c ∈ d, c ≠ 0x3E) : run .bogus (d ++ 0x3E :: rest) = run .data rest := by
  induction d with
  | nil => rw [List.nil_append, run_cons]; simp [step, bogusStep]
  | cons c cs ih =>
    have hc : (c == 0x3E) = false := by simpa using h c (List.mem_cons_self ..)
    rw [List.cons_append, run_cons]
    simp only [step, bogusStep, hc, Bool.false_eq_true, ↓reduceIte, run'_nx]
    exact ih (fun y hy => h y (List.mem_cons_of_mem _ hy))

/-- `<!` … `>`: a doctype (any letter case) or any other markup declaration that is not a
    comment: no `>` inside and not starting with `--` -/
def declText (d : Bytes) : Bytes := [0x3C, 0x21] ++ d ++ [0x3E]

theorem run_decl (d rest : Bytes) (h : ∀ c ∈ d, c ≠ 0x3E) (hc : hasPrefix d [0x2D, 0x2D] = false) :
    run .data (declText d ++ rest) = run .data rest := by
  simp only [declText, List.cons_append, List.nil_append, List.append_assoc]
  rw [run_cons, step]; simp only [dataStep, beq_self_eq_true, ↓reduceIte, run'_nx]
  rw [run_cons, step]
  have e1 : ltStep 0x21 = nx .md0 := by decide
  rw [e1, run'_nx]
  cases d with
  | nil => rw [List.nil_append, run_cons]; simp [step, md0Step, bogusStep]
  | cons x xs =>
    have hx : (x == 0x3E) = false := by simpa using h x (List.mem_cons_self ..)
    have hxs : ∀ c ∈ xs, c ≠ 0x3E := fun y hy => h y (List.mem_cons_of_mem _ hy)
    rw [List.cons_append, run_cons, step]
    by_cases hd : x = 0x2D
    · subst hd
      have e2 : md0Step 0x2D = nx .md1 := by decide
      rw [e2, run'_nx]
      cases xs with
      | nil => rw [List.nil_append, run_cons]; simp [step, md1Step, bogusStep]
      | cons y ys =>
        have hy : (y == 0x3E) = false := by simpa using hxs y (List.mem_cons_self ..)
        have hy2 : (y == 0x2D) = false := by
          cases hyy : (y == 0x2D) with
          | false => rfl
          | true =>
            have : y = 0x2D := by simpa using hyy
            subst this
            simp [hasPrefix, List.isPrefixOf] at hc
        rw [List.cons_append, run_cons]
        simp only [step, md1Step, bogusStep, hy, hy2, Bool.false_eq_true, ↓reduceIte, run'_nx]
        exact run_bogus ys rest (fun z hz => hxs z (List.mem_cons_of_mem _ hz))
    · have e : (x == 0x2D) = false := by simpa using hd
      simp only [md0Step, bogusStep, e, hx, Bool.false_eq_true, ↓reduceIte, run'_nx]
      exact run_bogus xs rest hxs

theorem skips_decl (d : Bytes) (h : ∀ c ∈ d, c ≠ 0x3E) (hc : hasPrefix d [0x2D, 0x2D] = false) :
    Skips (declText d) := ⟨[], by simp, fun rest => run_decl d rest h hc⟩

/-- a start tag that is neither `meta` nor a raw-text element -/
theorem skips_startTag (nm ws0 : Bytes) (as : List AttrSrc)
    (hne : nm ≠ []) (hl : ∀ c ∈ nm, isLetter c = true)
    (hnm : lowerASCII nm ≠ kMeta) (hraw : afterStart (lowerASCII nm) = .data)
    (hws : ∀ x ∈ ws0, isWS x = true) (hws0 : ws0 = [] → as = []) (hwf : attrsWf as) :
    Skips (tagText nm ws0 as) := by
  cases nm with
  | nil => exact absurd rfl hne
  | cons c cs =>
    refine ⟨[{ name := lowerASCII (c :: cs), attrs := parsed as }], ?_, fun rest => ?_⟩
    · intro t ht
      simp only [List.mem_singleton] at ht
      subst ht
      exact hnm
    · have := run_startTag c cs ws0 as rest (hl c (List.mem_cons_self ..))
        (fun x hx => isLetter_nameChar (hl x (List.mem_cons_of_mem _ hx))) hws hws0 hwf
      simp only [tagText, List.append_assoc, List.cons_append, List.nil_append] at this ⊢
      rw [this]
      simp only [emit, ↓reduceIte, hraw, run']

/-- `</name ws>` -/
def endTagText (nm ws0 : Bytes) : Bytes := [0x3C, 0x2F] ++ nm ++ ws0 ++ [0x3E]

theorem skips_endTag (nm ws0 : Bytes) (hne : nm ≠ []) (hl : ∀ c ∈ nm, isLetter c = true)
    (hws : ∀ x ∈ ws0, isWS x = true) : Skips (endTagText nm ws0) := by
  cases nm with
  | nil => exact absurd rfl hne
  | cons c cs =>
    refine ⟨[], by simp, fun rest => ?_⟩
    have hc := hl c (List.mem_cons_self ..)
    simp only [endTagText, List.cons_append, List.nil_append, List.append_assoc]
    rw [run_cons, step]; simp only [dataStep, beq_self_eq_true, ↓reduceIte, run'_nx]
    rw [run_cons, step]
    have e1 : ltStep 0x2F = nx .endOpen := by decide
    rw [e1, run'_nx, run_cons, step]
    have e2 : (c == 0x3E) = false := by
      have := isLetter_nameChar hc
      simp only [nameChar, Bool.not_eq_true', Bool.or_eq_false_iff] at this
      exact this.2
    simp only [endOpenStep, e2, hc, Bool.false_eq_true, ↓reduceIte, run'_nx]
    rw [run_tagName_chars _ cs _ (fun x hx => isLetter_nameChar (hl x (List.mem_cons_of_mem _ hx)))]
    simp only [List.cons_append, List.nil_append]
    cases ws0 with
    | nil => rw [List.nil_append, run_tagName_gt]; simp [emit, run']
    | cons w ws =>
      rw [List.cons_append, run_tagName_ws _ _ _ (hws w (List.mem_cons_self ..)),
        run_beforeAttr_ws _ ws _ (fun y hy => hws y (List.mem_cons_of_mem _ hy)), run_beforeAttr_gt]
      simp [emit, run']

/-- the prologue grammar: text without `<` (white space in particular), comments, doctype /
    markup declarations, start tags of ordinary elements other than `meta`, end tags -/
inductive Prologue : Bytes → Prop
  | nil : Prologue []
  | text (w P : Bytes) : (∀ c ∈ w, c ≠ 0x3C) → Prologue P → Prologue (w ++ P)
  | comment (c P : Bytes) : commentBodyOk c = true → Prologue P → Prologue (commentText c ++ P)
  | decl (d P : Bytes) : (∀ c ∈ d, c ≠ 0x3E) → hasPrefix d [0x2D, 0x2D] = false → Prologue P →
      Prologue (declText d ++ P)
  | startTag (nm ws0 : Bytes) (as : List AttrSrc) (P : Bytes) :
      nm ≠ [] → (∀ c ∈ nm, isLetter c = true) → lowerASCII nm ≠ kMeta → afterStart (lowerASCII nm) = .data →
      (∀ x ∈ ws0, isWS x = true) → (ws0 = [] → as = []) → attrsWf as → Prologue P →
      Prologue (tagText nm ws0 as ++ P)
  | endTag (nm ws0 P : Bytes) : nm ≠ [] → (∀ c ∈ nm, isLetter c = true) → (∀ x ∈ ws0, isWS x = true) →
      Prologue P → Prologue (endTagText nm ws0 ++ P)

theorem Prologue.skips {P : Bytes} (h : Prologue P) : Skips P := by
  induction h with
  | nil => exact Skips.nil
  | text w P hw _ ih => exact (skips_text w hw).append ih
  | comment c P hc _ ih => exact (skips_comment c hc).append ih
  | decl d P h1 h2 _ ih => exact (skips_decl d h1 h2).append ih
  | startTag nm ws0 as P h1 h2 h3 h4 h5 h6 h7 _ ih => exact (skips_startTag nm ws0 as h1 h2 h3 h4 h5 h6 h7).append ih
  | endTag nm ws0 P h1 h2 h3 _ ih => exact (skips_endTag nm ws0 h1 h2 h3).append ih

/-! ### the declared charset is reported (C12, HTML clause, at byte level) -/

/-- the normalisation `fromHTMLToks` applies to a declared label: ASCII lower-casing, and a
    label starting with `utf-16` is replaced by `utf-8` -/
def norm (L : Bytes) : Bytes := C12.finalLabel (lowerASCII L)

/-- an attribute key the meta prescan ignores -/
def inertKey (k : Bytes) : Prop := lowerASCII k ≠ kContent ∧ lowerASCII k ≠ kwCharset ∧ lowerASCII k ≠ kHttpEquiv

theorem fromHTMLToks_skip (T ts : List Tag) (h : ∀ t ∈ T, t.name ≠ kMeta) :
    fromHTMLToks (T ++ ts) = fromHTMLToks ts := by
  induction T with
  | nil => rfl
  | cons t T ih =>
    rw [List.cons_append, C12.prescan_skips_non_meta t _ (h t (List.mem_cons_self ..))]
    exact ih (fun x hx => h x (List.mem_cons_of_mem _ hx))

theorem norm_ne_nil (L : Bytes) (h : L ≠ []) : norm L ≠ [] := by
  unfold norm C12.finalLabel
  split
  · decide
  · cases L with
    | nil => exact absurd rfl h
    | cons c cs => simp [lowerASCII]

theorem startTags_of_covered (doc : Bytes) (h : startTags doc ≠ none) :
    startTags doc = some ((rawTags doc).map finishTag) := by
  unfold startTags at h ⊢
  simp only at h ⊢
  split
  · rename_i h'; simp [h'] at h
  · rfl

/-- the source of the deciding attribute `charset=L` in the three quoting styles -/
def charsetAttr (cs : Bytes) (form : ValForm) (L sep : Bytes) : AttrSrc :=
  { key := cs, form := form, val := L, sep := sep }

/-- the common step: behind a prologue, a well-formed `<meta …>` whose (finished) attribute list
    makes the prescan answer a non-empty `result` whatever tags follow, decides `FromHTML` -/
theorem fromHTMLBytes_meta_decides (P nm ws0 : Bytes) (as : List AttrSrc) (rest result : Bytes)
    (hP : Prologue P) (hnm : lowerASCII nm = kMeta)
    (hws : ∀ x ∈ ws0, isWS x = true) (hws0 : ws0 = [] → as = []) (hwf : attrsWf as)
    (hres : ∀ more, fromHTMLToks (finishTag { name := kMeta, attrs := parsed as } :: more) = result)
    (hne : result ≠ [])
    (hbom : fromBOM (P ++ tagText nm ws0 as ++ rest) = csNone)
    (hcov : startTags (P ++ tagText nm ws0 as ++ rest) ≠ none) :
    fromHTMLBytes (P ++ tagText nm ws0 as ++ rest) = some result := by
  obtain ⟨T, hT, hrun⟩ := hP.skips
  have hraw : rawTags (P ++ tagText nm ws0 as ++ rest) =
      T ++ { name := kMeta, attrs := parsed as } :: rawTags rest := by
    have := meta_first_tag_raw nm ws0 as rest hnm hws hws0 hwf
    simp only [rawTags] at this ⊢
    rw [List.append_assoc, hrun, this]
  unfold fromHTMLBytes
  rw [startTags_of_covered _ hcov, hraw, Option.map_some]
  congr 1
  unfold fromHTML
  simp only [hbom, bne_self_eq_false, Bool.false_eq_true, ↓reduceIte]
  have hskip : ∀ t ∈ T.map finishTag, t.name ≠ kMeta := by
    intro t ht
    obtain ⟨u, hu, rfl⟩ := List.mem_map.mp ht
    exact hT u hu
  have hval : fromHTMLToks (List.map finishTag
      (T ++ { name := kMeta, attrs := parsed as } :: rawTags rest)) = result := by
    rw [List.map_append, fromHTMLToks_skip _ _ hskip, List.map_cons]
    exact hres _
  rw [hval]
  have : (result != []) = true := by simpa using hne
  simp [this]

theorem inert_finished (l : List AttrSrc) (hl : ∀ a ∈ l, inertKey a.key) :
    ∀ p ∈ (parsed l).map (fun kv => (kv.1, convNL kv.2)),
      p.1 ≠ kContent ∧ p.1 ≠ kwCharset ∧ p.1 ≠ kHttpEquiv := by
  intro p hp
  simp only [parsed, List.map_map, List.mem_map, Function.comp] at hp
  obtain ⟨a, ha, rfl⟩ := hp
  exact hl a ha

/-- **declared_charset_reported**.  `doc = P ++ "<meta" ws pre… charset=L post… ">" ++ rest`:
    behind a prologue `P` of text without `<` (white space), comments, a doctype / markup
    declarations, ordinary non-`meta` start tags and end tags, a `<meta>` (any letter case) whose
    attribute list carries `charset=L` (key in any letter case; `L` double-quoted, single-quoted
    or bare; other attributes inert) makes `FromHTML` answer the normalised label — provided no
    BOM is present and the input is covered by the model (no `&` in a reported attribute value). -/
theorem declared_charset_reported (P nm ws0 : Bytes) (pre post : List AttrSrc)
    (cs : Bytes) (form : ValForm) (L sep rest : Bytes)
    (hP : Prologue P) (hnm : lowerASCII nm = kMeta)
    (hws : ∀ x ∈ ws0, isWS x = true) (hws0 : ws0 ≠ [])
    (hcs : lowerASCII cs = kwCharset)
    (hwf : attrsWf (pre ++ charsetAttr cs form L sep :: post))
    (hpre : ∀ a ∈ pre, inertKey a.key) (hpost : ∀ a ∈ post, inertKey a.key)
    (hL : L ≠ []) (hcr : ∀ c ∈ L, c ≠ 0x0D)
    (hbom : fromBOM (P ++ tagText nm ws0 (pre ++ charsetAttr cs form L sep :: post) ++ rest) = csNone)
    (hcov : startTags (P ++ tagText nm ws0 (pre ++ charsetAttr cs form L sep :: post) ++ rest) ≠ none) :
    fromHTMLBytes (P ++ tagText nm ws0 (pre ++ charsetAttr cs form L sep :: post) ++ rest) = some (norm L) := by
  refine fromHTMLBytes_meta_decides P nm ws0 _ rest (norm L) hP hnm hws (fun h => absurd h hws0) hwf ?_
    (norm_ne_nil L hL) hbom hcov
  intro more
  have hparsed : (parsed (pre ++ charsetAttr cs form L sep :: post)).map (fun kv => (kv.1, convNL kv.2)) =
      (parsed pre).map (fun kv => (kv.1, convNL kv.2)) ++ (kwCharset, L) ::
        (parsed post).map (fun kv => (kv.1, convNL kv.2)) := by
    simp [parsed, charsetAttr, hcs, convNL_id L hcr]
  simp only [finishTag, hparsed]
  exact C12.meta_charset_anywhere L _ _ _ (inert_finished pre hpre) (inert_finished post hpost)

/-- **declared pragma**.  `<meta http-equiv="Content-Type" content="…charset=ℓ…" post…>` (names in
    any letter case, either order of the two attributes, any quoting, inert attributes after
    them) behind a prologue: `FromHTML` answers the label `fromMetaElement` extracts from the
    lower-cased `content` value (utf-8 for utf-16 labels) -/
theorem declared_pragma_reported (P nm ws0 : Bytes) (a1 a2 : AttrSrc) (post : List AttrSrc) (rest : Bytes)
    (hP : Prologue P) (hnm : lowerASCII nm = kMeta)
    (hws : ∀ x ∈ ws0, isWS x = true) (hws0 : ws0 ≠ [])
    (hk : (lowerASCII a1.key = kHttpEquiv ∧ lowerASCII a2.key = kContent ∧
            lowerASCII a1.val = kContentType ∧ fromMetaElement (lowerASCII a2.val) ≠ [] ∧
            (∀ c ∈ a1.val, c ≠ 0x0D) ∧ (∀ c ∈ a2.val, c ≠ 0x0D)))
    (hwf : attrsWf (a1 :: a2 :: post) ∧ attrsWf (a2 :: a1 :: post))
    (hpost : ∀ a ∈ post, inertKey a.key) :
    (fromBOM (P ++ tagText nm ws0 (a1 :: a2 :: post) ++ rest) = csNone →
     startTags (P ++ tagText nm ws0 (a1 :: a2 :: post) ++ rest) ≠ none →
     fromHTMLBytes (P ++ tagText nm ws0 (a1 :: a2 :: post) ++ rest) =
       some (C12.finalLabel (fromMetaElement (lowerASCII a2.val)))) ∧
    (fromBOM (P ++ tagText nm ws0 (a2 :: a1 :: post) ++ rest) = csNone →
     startTags (P ++ tagText nm ws0 (a2 :: a1 :: post) ++ rest) ≠ none →
     fromHTMLBytes (P ++ tagText nm ws0 (a2 :: a1 :: post) ++ rest) =
       some (C12.finalLabel (fromMetaElement (lowerASCII a2.val)))) := by
  obtain ⟨hk1, hk2, hv1, hv2, hc1, hc2⟩ := hk
  have hne : C12.finalLabel (fromMetaElement (lowerASCII a2.val)) ≠ [] := by
    unfold C12.finalLabel
    split
    · decide
    · exact hv2
  have hpr := fun ts => C12.meta_pragma a1.val a2.val ((parsed post).map (fun kv => (kv.1, convNL kv.2))) ts hv1 hv2
    (inert_finished post hpost)
  constructor
  · intro hbom hcov
    refine fromHTMLBytes_meta_decides P nm ws0 _ rest _ hP hnm hws (fun h => absurd h hws0) hwf.1 ?_ hne hbom hcov
    intro more
    simp only [finishTag, parsed, List.map_cons, hk1, hk2, convNL_id _ hc1, convNL_id _ hc2]
    exact (hpr more).1
  · intro hbom hcov
    refine fromHTMLBytes_meta_decides P nm ws0 _ rest _ hP hnm hws (fun h => absurd h hws0) hwf.2 ?_ hne hbom hcov
    intro more
    simp only [finishTag, parsed, List.map_cons, hk1, hk2, convNL_id _ hc1, convNL_id _ hc2]
    exact (hpr more).2

/-! ### raw text hides tags: `<script>`, `<title>` & co., comments -/

/-- `w` starts with `pat` up to ASCII letter case (`pat` lower-case letters) -/
def ciPrefix : Bytes → Bytes → Bool
  | [], _ => true
  | _ :: _, [] => false
  | r :: rs, c :: cs => matchCI r c && ciPrefix rs cs

def lowerLetters (pat : Bytes) : Prop := ∀ r ∈ pat, 0x61 ≤ r ∧ r ≤ 0x7A

theorem matchCI_not_lt (r c : Nat) (hr : 0x61 ≤ r ∧ r ≤ 0x7A) (h : matchCI r c = true) : (c == 0x3C) = false := by
  simp only [matchCI, Bool.or_eq_true, beq_iff_eq] at h
  simp only [beq_eq_false_iff_ne, ne_eq]
  omega

/-- the tail of the closing tag: from the tag-name state of an end tag to the text state -/
theorem run_endTag_tail (t : TagAcc) (ht : t.start = false) (ws0 rest : Bytes) (hws : ∀ x ∈ ws0, isWS x = true) :
    run (.tagName t) (ws0 ++ 0x3E :: rest) = run .data rest := by
  cases ws0 with
  | nil => rw [List.nil_append, run_tagName_gt]; simp [emit, run', ht]
  | cons w ws =>
    rw [List.cons_append, run_tagName_ws _ _ _ (hws w (List.mem_cons_self ..)),
      run_beforeAttr_ws _ ws _ (fun y hy => hws y (List.mem_cons_of_mem _ hy)), run_beforeAttr_gt]
    simp [emit, run', ht]

theorem head_isTerm (ws0 rest : Bytes) (hws : ∀ x ∈ ws0, isWS x = true) :
    ∃ c r, ws0 ++ 0x3E :: rest = c :: r ∧ isTerm c = true := by
  cases ws0 with
  | nil => exact ⟨0x3E, rest, rfl, by decide⟩
  | cons w ws => exact ⟨w, ws ++ 0x3E :: rest, rfl, by simp [isTerm, hws w (List.mem_cons_self ..)]⟩

theorem matchCI_of_lower (r c : Nat) (_hr : 0x61 ≤ r ∧ r ≤ 0x7A)
    (h : (if (0x41 ≤ c && c ≤ 0x5A) = true then c + 0x20 else c) = r) : matchCI r c = true := by
  simp only [matchCI, Bool.or_eq_true, beq_iff_eq]
  split at h
  · right; exact h
  · left; exact h

/-! #### script -/

/-- failing to close, `readRawEndTag` leaves the machine where plain scanning would be: the
    bytes it matched are letters, not `<` -/
theorem run_sEnd_fail (rem w : Bytes) (hrem : lowerLetters rem) (h : ciPrefix rem w = false) :
    run (.sEnd rem) w = run .sData w := by
  induction rem generalizing w with
  | nil => simp [ciPrefix] at h
  | cons r rs ih =>
    cases w with
    | nil => rfl
    | cons c cs =>
      rw [run_cons, step]
      simp only [sEndStep]
      cases hm : matchCI r c with
      | false => simp only [Bool.false_eq_true, ↓reduceIte]; rw [← step, ← run_cons]
      | true =>
        simp only [↓reduceIte, run'_nx]
        simp only [ciPrefix, hm, Bool.true_and] at h
        rw [ih cs (fun x hx => hrem x (List.mem_cons_of_mem _ hx)) h, run_cons (St.sData) c, step]
        simp [sDataStep, matchCI_not_lt r c (hrem r (List.mem_cons_self ..)) hm]

theorem run_sEscStart_fail (w : Bytes) (h : hasPrefix w [0x2D, 0x2D] = false) :
    run .sEscStart w = run .sData w := by
  cases w with
  | nil => rfl
  | cons c cs =>
    rw [run_cons, step]
    simp only [sEscStartStep]
    by_cases hc : c = 0x2D
    · subst hc
      simp only [beq_self_eq_true, ↓reduceIte, run'_nx]
      rw [run_cons .sData, step]
      simp only [sDataStep, show ((0x2D : Nat) == 0x3C) = false by decide, Bool.false_eq_true, ↓reduceIte, run'_nx]
      cases cs with
      | nil => rfl
      | cons d ds =>
        have hd : (d == 0x2D) = false := by
          cases hdd : (d == 0x2D) with
          | false => rfl
          | true =>
            have : d = 0x2D := by simpa using hdd
            subst this
            simp [hasPrefix, List.isPrefixOf] at h
        rw [run_cons, step]
        simp only [sEscStartDashStep, hd, Bool.false_eq_true, ↓reduceIte]
        rw [← step, ← run_cons]
    · have e : (c == 0x2D) = false := by simpa using hc
      simp only [e, Bool.false_eq_true, ↓reduceIte]
      rw [← step, ← run_cons]

/-- what must not follow a `<` inside the script text: `/script` (any case) or `!--` -/
def scriptBad (w : Bytes) : Bool :=
  (match w with
   | c :: w' => c == 0x2F && ciPrefix kScript w'
   | [] => false) || hasPrefix w [0x21, 0x2D, 0x2D]

theorem kScript_lower : lowerLetters kScript := by unfold lowerLetters; decide

theorem run_sLt_fail (w : Bytes) (h : scriptBad w = false) : run .sLt w = run .sData w := by
  cases w with
  | nil => rfl
  | cons c cs =>
    simp only [scriptBad, Bool.or_eq_false_iff, Bool.and_eq_false_iff] at h
    obtain ⟨h1, h2⟩ := h
    rw [run_cons, step]
    simp only [sLtStep]
    by_cases hc : c = 0x2F
    · subst hc
      simp only [beq_self_eq_true, ↓reduceIte, run'_nx]
      have h1' : ciPrefix kScript cs = false := by simpa using h1
      rw [run_sEnd_fail kScript cs kScript_lower h1', run_cons .sData, step]
      simp [sDataStep]
    · have e : (c == 0x2F) = false := by simpa using hc
      simp only [e, Bool.false_eq_true, ↓reduceIte]
      by_cases hb : c = 0x21
      · subst hb
        simp only [beq_self_eq_true, ↓reduceIte, run'_nx]
        have h2' : hasPrefix cs [0x2D, 0x2D] = false := by
          simpa [hasPrefix, List.isPrefixOf] using h2
        rw [run_sEscStart_fail cs h2', run_cons .sData, step]
        simp [sDataStep]
      · have e2 : (c == 0x21) = false := by simpa using hb
        simp only [e2, Bool.false_eq_true, ↓reduceIte]
        rw [← step, ← run_cons]

/-- the script text contains neither `</script` (any letter case) nor `<!--` -/
def scriptBodyOk : Bytes → Bool
  | [] => true
  | c :: cs => !(c == 0x3C && scriptBad cs) && scriptBodyOk cs

theorem ciPrefix_cut (pat a t : Bytes) (hp : lowerLetters pat) (h : ciPrefix pat (a ++ 0x3C :: t) = true) :
    ciPrefix pat a = true := by
  induction pat generalizing a with
  | nil => rfl
  | cons r rs ih =>
    cases a with
    | nil =>
      simp only [List.nil_append, ciPrefix, Bool.and_eq_true] at h
      have := matchCI_not_lt r 0x3C (hp r (List.mem_cons_self ..)) h.1
      simp at this
    | cons c cs =>
      simp only [List.cons_append, ciPrefix, Bool.and_eq_true] at h ⊢
      exact ⟨h.1, ih cs (fun x hx => hp x (List.mem_cons_of_mem _ hx)) h.2⟩

theorem scriptBad_cut (a t : Bytes) (h : scriptBad a = false) : scriptBad (a ++ 0x3C :: t) = false := by
  cases hb : scriptBad (a ++ 0x3C :: t) with
  | false => rfl
  | true =>
    exfalso
    simp only [scriptBad, Bool.or_eq_true] at hb
    simp only [scriptBad, Bool.or_eq_false_iff] at h
    rcases hb with hb | hb
    · cases a with
      | nil => simp at hb
      | cons c cs =>
        simp only [List.cons_append, Bool.and_eq_true] at hb
        have := ciPrefix_cut kScript cs t kScript_lower hb.2
        simp [hb.1, this] at h
    · match a, h, hb with
      | [], _, hb => simp [hasPrefix, List.isPrefixOf] at hb
      | [x], _, hb => simp [hasPrefix, List.isPrefixOf] at hb
      | [x, y], _, hb => simp [hasPrefix, List.isPrefixOf] at hb
      | x :: y :: z :: r, h, hb =>
        simp only [hasPrefix, List.cons_append, List.isPrefixOf, Bool.and_eq_true, Bool.and_true] at hb h
        simp [hb] at h

/-- scanning the script text: nothing in it closes the element or starts an escape -/
theorem run_script_body (body t : Bytes) (h : scriptBodyOk body = true) :
    run .sData (body ++ 0x3C :: t) = run .sData (0x3C :: t) := by
  induction body with
  | nil => rfl
  | cons c cs ih =>
    simp only [scriptBodyOk, Bool.and_eq_true, Bool.not_eq_true', Bool.and_eq_false_iff] at h
    obtain ⟨h1, h2⟩ := h
    rw [List.cons_append, run_cons, step]
    simp only [sDataStep]
    by_cases hc : c = 0x3C
    · subst hc
      simp only [beq_self_eq_true, ↓reduceIte, run'_nx]
      have hb : scriptBad cs = false := by simpa using h1
      rw [run_sLt_fail _ (scriptBad_cut cs t hb)]
      exact ih h2
    · have e : (c == 0x3C) = false := by simpa using hc
      simp only [e, Bool.false_eq_true, ↓reduceIte, run'_nx]
      exact ih h2

theorem run_sEnd_match (rem nm : Bytes) (c : Nat) (rest : Bytes) (hrem : lowerLetters rem)
    (h : lowerASCII nm = rem) (hc : isTerm c = true) :
    run (.sEnd rem) (nm ++ c :: rest) = run (.tagName { start := false, name := kScript, attrs := [] }) (c :: rest) := by
  induction rem generalizing nm with
  | nil =>
    cases nm with
    | nil =>
      rw [List.nil_append, run_cons, step]
      simp only [sEndStep, hc, ↓reduceIte, endTagFound]
      rw [run_cons, step]
    | cons x xs => simp [lowerASCII] at h
  | cons r rs ih =>
    cases nm with
    | nil => simp [lowerASCII] at h
    | cons x xs =>
      simp only [lowerASCII, List.map_cons, List.cons.injEq] at h
      rw [List.cons_append, run_cons, step]
      simp only [sEndStep, matchCI_of_lower r x (hrem r (List.mem_cons_self ..)) h.1, ↓reduceIte, run'_nx]
      exact ih xs (fun y hy => hrem y (List.mem_cons_of_mem _ hy)) h.2

theorem afterStart_script : afterStart kScript = .sData := by decide

/-- **script_hides_meta** (script): between `<script …>` and `</script …>` (any letter case)
    nothing is a tag — a `<meta charset=X>` in a script text that contains neither `</script`
    nor `<!--` contributes nothing; the only tag reported is `script` itself -/
theorem script_hides_meta (nm ws0 : Bytes) (as : List AttrSrc) (body cnm cws rest : Bytes)
    (hnm : lowerASCII nm = kScript) (hws : ∀ x ∈ ws0, isWS x = true) (hws0 : ws0 = [] → as = [])
    (hwf : attrsWf as) (hbody : scriptBodyOk body = true)
    (hcnm : lowerASCII cnm = kScript) (hcws : ∀ x ∈ cws, isWS x = true) :
    rawTags (tagText nm ws0 as ++ body ++ endTagText cnm cws ++ rest) =
      { name := kScript, attrs := parsed as } :: rawTags rest := by
  have hl := letters_of_lower nm kScript hnm kScript_lower
  cases nm with
  | nil => exact absurd hnm (by decide)
  | cons c cs =>
    have := run_startTag c cs ws0 as (body ++ endTagText cnm cws ++ rest) (hl c (List.mem_cons_self ..))
      (fun x hx => isLetter_nameChar (hl x (List.mem_cons_of_mem _ hx))) hws hws0 hwf
    simp only [rawTags, tagText, List.append_assoc, List.cons_append, List.nil_append] at this ⊢
    rw [this]
    simp only [emit, ↓reduceIte, hnm, afterStart_script, run', List.cons.injEq, true_and]
    simp only [endTagText, List.cons_append, List.nil_append, List.append_assoc]
    rw [run_script_body body _ hbody, run_cons, step]
    simp only [sDataStep, beq_self_eq_true, ↓reduceIte, run'_nx]
    rw [run_cons, step]
    have e1 : sLtStep 0x2F = nx (.sEnd kScript) := by decide
    rw [e1, run'_nx]
    obtain ⟨d, r, hd, hterm⟩ := head_isTerm cws rest hcws
    rw [hd, run_sEnd_match kScript cnm d r kScript_lower hcnm hterm, ← hd]
    exact run_endTag_tail _ rfl cws rest hcws

/-! #### title, textarea, style, xmp, iframe, noembed, noframes, noscript -/

theorem run_rtEnd_fail (tag rem w : Bytes) (hrem : lowerLetters rem) (h : ciPrefix rem w = false) :
    run (.rtEnd tag rem) w = run (.rt tag) w := by
  induction rem generalizing w with
  | nil => simp [ciPrefix] at h
  | cons r rs ih =>
    cases w with
    | nil => rfl
    | cons c cs =>
      rw [run_cons, step]
      simp only [rtEndStep]
      cases hm : matchCI r c with
      | false => simp only [Bool.false_eq_true, ↓reduceIte]; rw [← step, ← run_cons]
      | true =>
        simp only [↓reduceIte, run'_nx]
        simp only [ciPrefix, hm, Bool.true_and] at h
        rw [ih cs (fun x hx => hrem x (List.mem_cons_of_mem _ hx)) h, run_cons (St.rt tag) c, step]
        simp [rtStep, matchCI_not_lt r c (hrem r (List.mem_cons_self ..)) hm]

/-- what must not follow a `<` inside the raw text of element `tag`: `/tag` (any case) -/
def rtBad (tag w : Bytes) : Bool :=
  match w with
  | c :: w' => c == 0x2F && ciPrefix tag w'
  | [] => false

theorem run_rtLt_fail (tag w : Bytes) (htag : lowerLetters tag) (h : rtBad tag w = false) :
    run (.rtLt tag) w = run (.rt tag) w := by
  cases w with
  | nil => rfl
  | cons c cs =>
    simp only [rtBad, Bool.and_eq_false_iff] at h
    rw [run_cons, step]
    simp only [rtLtStep]
    by_cases hc : c = 0x2F
    · subst hc
      simp only [beq_self_eq_true, ↓reduceIte, run'_nx]
      have h1' : ciPrefix tag cs = false := by simpa using h
      rw [run_rtEnd_fail tag tag cs htag h1', run_cons (.rt tag), step]
      simp [rtStep]
    · have e : (c == 0x2F) = false := by simpa using hc
      simp only [e, Bool.false_eq_true, ↓reduceIte]
      rw [← step, ← run_cons]

/-- the raw text contains no `</tag` (any letter case) -/
def rawBodyOk (tag : Bytes) : Bytes → Bool
  | [] => true
  | c :: cs => !(c == 0x3C && rtBad tag cs) && rawBodyOk tag cs

theorem rtBad_cut (tag a t : Bytes) (htag : lowerLetters tag) (h : rtBad tag a = false) :
    rtBad tag (a ++ 0x3C :: t) = false := by
  cases hb : rtBad tag (a ++ 0x3C :: t) with
  | false => rfl
  | true =>
    exfalso
    cases a with
    | nil => simp [rtBad] at hb
    | cons c cs =>
      simp only [rtBad, List.cons_append, Bool.and_eq_true] at hb
      have := ciPrefix_cut tag cs t htag hb.2
      simp [rtBad, hb.1, this] at h

theorem run_raw_body (tag body t : Bytes) (htag : lowerLetters tag) (h : rawBodyOk tag body = true) :
    run (.rt tag) (body ++ 0x3C :: t) = run (.rt tag) (0x3C :: t) := by
  induction body with
  | nil => rfl
  | cons c cs ih =>
    simp only [rawBodyOk, Bool.and_eq_true, Bool.not_eq_true', Bool.and_eq_false_iff] at h
    obtain ⟨h1, h2⟩ := h
    rw [List.cons_append, run_cons, step]
    simp only [rtStep]
    by_cases hc : c = 0x3C
    · subst hc
      simp only [beq_self_eq_true, ↓reduceIte, run'_nx]
      have hb : rtBad tag cs = false := by simpa using h1
      rw [run_rtLt_fail tag _ htag (rtBad_cut tag cs t htag hb)]
      exact ih h2
    · have e : (c == 0x3C) = false := by simpa using hc
      simp only [e, Bool.false_eq_true, ↓reduceIte, run'_nx]
      exact ih h2

theorem run_rtEnd_match (tag rem nm : Bytes) (c : Nat) (rest : Bytes) (hrem : lowerLetters rem)
    (h : lowerASCII nm = rem) (hc : isTerm c = true) :
    run (.rtEnd tag rem) (nm ++ c :: rest) = run (.tagName { start := false, name := tag, attrs := [] }) (c :: rest) := by
  induction rem generalizing nm with
  | nil =>
    cases nm with
    | nil =>
      rw [List.nil_append, run_cons, step]
      simp only [rtEndStep, hc, ↓reduceIte, endTagFound]
      rw [run_cons, step]
    | cons x xs => simp [lowerASCII] at h
  | cons r rs ih =>
    cases nm with
    | nil => simp [lowerASCII] at h
    | cons x xs =>
      simp only [lowerASCII, List.map_cons, List.cons.injEq] at h
      rw [List.cons_append, run_cons, step]
      simp only [rtEndStep, matchCI_of_lower r x (hrem r (List.mem_cons_self ..)) h.1, ↓reduceIte, run'_nx]
      exact ih xs (fun y hy => hrem y (List.mem_cons_of_mem _ hy)) h.2

theorem rawNames_ok : ∀ tag ∈ rawNames, afterStart tag = .rt tag ∧ ∀ r ∈ tag, 0x61 ≤ r ∧ r ≤ 0x7A := by decide

/-- **script_hides_meta** (title, textarea, style, xmp, iframe, noembed, noframes, noscript):
    between `<tag …>` and `</tag …>` (any letter case) nothing is a tag — a `<meta charset=X>`
    in a raw text without `</tag` contributes nothing -/
theorem rawtext_hides_meta (tag nm ws0 : Bytes) (as : List AttrSrc) (body cnm cws rest : Bytes)
    (htag : tag ∈ rawNames)
    (hnm : lowerASCII nm = tag) (hws : ∀ x ∈ ws0, isWS x = true) (hws0 : ws0 = [] → as = [])
    (hwf : attrsWf as) (hbody : rawBodyOk tag body = true)
    (hcnm : lowerASCII cnm = tag) (hcws : ∀ x ∈ cws, isWS x = true) :
    rawTags (tagText nm ws0 as ++ body ++ endTagText cnm cws ++ rest) =
      { name := tag, attrs := parsed as } :: rawTags rest := by
  obtain ⟨hafter, hlow⟩ := rawNames_ok tag htag
  have hl := letters_of_lower nm tag hnm hlow
  cases nm with
  | nil =>
    exfalso
    have : tag = [] := by simpa [lowerASCII] using hnm.symm
    subst this
    revert htag; decide
  | cons c cs =>
    have := run_startTag c cs ws0 as (body ++ endTagText cnm cws ++ rest) (hl c (List.mem_cons_self ..))
      (fun x hx => isLetter_nameChar (hl x (List.mem_cons_of_mem _ hx))) hws hws0 hwf
    simp only [rawTags, tagText, List.append_assoc, List.cons_append, List.nil_append] at this ⊢
    rw [this]
    simp only [emit, ↓reduceIte, hnm, hafter, run', List.cons.injEq, true_and]
    simp only [endTagText, List.cons_append, List.nil_append, List.append_assoc]
    rw [run_raw_body tag body _ hlow hbody, run_cons, step]
    simp only [rtStep, beq_self_eq_true, ↓reduceIte, run'_nx]
    rw [run_cons, step]
    simp only [rtLtStep, beq_self_eq_true, ↓reduceIte, run'_nx]
    obtain ⟨d, r, hd, hterm⟩ := head_isTerm cws rest hcws
    rw [hd, run_rtEnd_match tag tag cnm d r hlow hcnm hterm, ← hd]
    exact run_endTag_tail _ rfl cws rest hcws

/-- **script_hides_meta** (comment): a comment whose body has no `--` (and does not start with
    `>` / `->`) contributes no tag whatever tags its body spells -/
theorem comment_hides_meta (c rest : Bytes) (h : commentBodyOk c = true) :
    rawTags (commentText c ++ rest) = rawTags rest := run_comment c rest h

/-! ### coverage: an input without `&` is always covered by the model -/

def valAmp (v : Bytes) : Bool := v.contains 0x26
def accAmp (t : TagAcc) : Bool := t.attrs.any (fun kv => kv.2.contains 0x26)

/-- some value held in the state contains `&` -/
def stAmp : St → Bool
  | .tagName t | .beforeAttr t | .attrKey t _ | .afterKey t _ | .beforeVal t _ => accAmp t
  | .quoted t _ _ v | .unquoted t _ v => accAmp t || valAmp v
  | _ => false

def Good (o : Out) : Prop := stAmp o.1 = false ∧ ∀ t, o.2 = some t → hasAmp t = false

theorem good_nx (s : St) (h : stAmp s = false) : Good (nx s) := ⟨h, fun _ ht => by simp [nx] at ht⟩

theorem stAmp_afterStart (n : Bytes) : stAmp (afterStart n) = false := by
  unfold afterStart
  repeat' split
  all_goals rfl

theorem good_emit (t : TagAcc) (h : accAmp t = false) : Good (emit t) := by
  unfold emit
  split
  · refine ⟨stAmp_afterStart _, fun x hx => ?_⟩
    simp only [Option.some.injEq] at hx
    subst hx
    exact h
  · exact ⟨rfl, fun _ ht => by simp at ht⟩

theorem valAmp_snoc (v : Bytes) (c : Nat) (hc : c ≠ 0x26) (h : valAmp v = false) : valAmp (v ++ [c]) = false := by
  simp only [valAmp, List.contains_eq_any_beq, List.any_append, List.any_cons, List.any_nil, Bool.or_false,
    Bool.or_eq_false_iff] at h ⊢
  exact ⟨h, by simpa using fun e => hc e.symm⟩

theorem accAmp_save (t : TagAcc) (k v : Bytes) (h : accAmp t = false) (hv : valAmp v = false) :
    accAmp (save t k v) = false := by
  simp only [accAmp, save, List.any_append, List.any_cons, List.any_nil, Bool.or_false, Bool.or_eq_false_iff]
  exact ⟨h, hv⟩

theorem valAmp_nil : valAmp [] = false := rfl
theorem valAmp_single (c : Nat) (hc : c ≠ 0x26) : valAmp [c] = false := valAmp_snoc [] c hc rfl

theorem good_beforeAttrStep (t : TagAcc) (c : Nat) (h : accAmp t = false) : Good (beforeAttrStep t c) := by
  unfold beforeAttrStep
  repeat' split
  all_goals first | exact good_nx _ h | exact good_emit _ h

theorem good_tagNameStep (t : TagAcc) (c : Nat) (h : accAmp t = false) : Good (tagNameStep t c) := by
  unfold tagNameStep
  repeat' split
  all_goals first | exact good_nx _ h | exact good_beforeAttrStep _ _ h

theorem good_afterKeyStep (t : TagAcc) (k : Bytes) (c : Nat) (h : accAmp t = false) : Good (afterKeyStep t k c) := by
  unfold afterKeyStep
  repeat' split
  all_goals first
    | exact good_nx _ h
    | exact good_nx _ (accAmp_save t k [] h valAmp_nil)
    | exact good_beforeAttrStep _ _ (accAmp_save t k [] h valAmp_nil)

theorem good_attrKeyStep (t : TagAcc) (k : Bytes) (c : Nat) (h : accAmp t = false) : Good (attrKeyStep t k c) := by
  unfold attrKeyStep
  split
  · exact good_afterKeyStep t k c h
  · exact good_nx _ h

theorem good_beforeValStep (t : TagAcc) (k : Bytes) (c : Nat) (hc : c ≠ 0x26) (h : accAmp t = false) :
    Good (beforeValStep t k c) := by
  unfold beforeValStep
  repeat' split
  · exact good_nx _ h
  · exact good_emit _ (accAmp_save t k [] h valAmp_nil)
  · exact good_nx _ (by simp [stAmp, h, valAmp_nil])
  · exact good_nx _ (by simp [stAmp, h, valAmp_single c hc])

theorem good_quotedStep (t : TagAcc) (k : Bytes) (q : Nat) (v : Bytes) (c : Nat) (hc : c ≠ 0x26)
    (h : accAmp t = false) (hv : valAmp v = false) : Good (quotedStep t k q v c) := by
  unfold quotedStep
  split
  · exact good_nx _ (accAmp_save t k v h hv)
  · exact good_nx _ (by simp [stAmp, h, valAmp_snoc v c hc hv])

theorem good_unquotedStep (t : TagAcc) (k v : Bytes) (c : Nat) (hc : c ≠ 0x26)
    (h : accAmp t = false) (hv : valAmp v = false) : Good (unquotedStep t k v c) := by
  unfold unquotedStep
  repeat' split
  · exact good_nx _ (accAmp_save t k v h hv)
  · exact good_emit _ (accAmp_save t k v h hv)
  · exact good_nx _ (by simp [stAmp, h, valAmp_snoc v c hc hv])

theorem good_endTagFound (tag : Bytes) (c : Nat) : Good (endTagFound tag c) :=
  good_tagNameStep _ _ rfl

/-- every state without a pending tag steps to a state without a pending `&` -/
theorem good_step (st : St) (c : Nat) (hc : c ≠ 0x26) (h : stAmp st = false) : Good (step st c) := by
  cases st with
  | tagName t => exact good_tagNameStep t c h
  | beforeAttr t => exact good_beforeAttrStep t c h
  | attrKey t k => exact good_attrKeyStep t k c h
  | afterKey t k => exact good_afterKeyStep t k c h
  | beforeVal t k => exact good_beforeValStep t k c hc h
  | quoted t k q v =>
    simp only [stAmp, Bool.or_eq_false_iff] at h
    exact good_quotedStep t k q v c hc h.1 h.2
  | unquoted t k v =>
    simp only [stAmp, Bool.or_eq_false_iff] at h
    exact good_unquotedStep t k v c hc h.1 h.2
  | rtEnd tag rem =>
    simp only [step, rtEndStep, rtStep]
    repeat' split
    all_goals first | exact good_nx _ rfl | exact good_endTagFound _ _
  | sEnd rem =>
    simp only [step, sEndStep, sDataStep]
    repeat' split
    all_goals first | exact good_nx _ rfl | exact good_endTagFound _ _
  | sEscEnd rem =>
    simp only [step, sEscEndStep, sEscStep]
    repeat' split
    all_goals first | exact good_nx _ rfl | exact good_endTagFound _ _
  | sDES rem =>
    simp only [step, sDESStep, sEscStep]
    repeat' split
    all_goals exact good_nx _ rfl
  | sDEEnd rem =>
    simp only [step, sDEEndStep, sDEStep]
    repeat' split
    all_goals exact good_nx _ rfl
  | _ =>
    simp only [step, dataStep, ltStep, endOpenStep, bogusStep, md0Step, md1Step, commentStep, commentBangStep,
      rtStep, rtLtStep, sDataStep, sLtStep, sEscStartStep, sEscStartDashStep, sEscStep, sEscDashStep,
      sEscDashDashStep, sEscLtStep, sDESStep, sDEStep, sDEDashStep, sDEDashDashStep, sDELtStep]
    repeat' split
    all_goals exact good_nx _ rfl

theorem run_noamp (w : Bytes) (hw : ∀ c ∈ w, c ≠ 0x26) (st : St) (h : stAmp st = false) :
    ∀ t ∈ run st w, hasAmp t = false := by
  induction w generalizing st with
  | nil => intro t ht; simp [run] at ht
  | cons c cs ih =>
    have hg := good_step st c (hw c (List.mem_cons_self ..)) h
    rw [run_cons]
    rcases hs : step st c with ⟨s', _ | u⟩
    · rw [hs] at hg
      simp only [run']
      exact ih (fun y hy => hw y (List.mem_cons_of_mem _ hy)) s' hg.1
    · rw [hs] at hg
      simp only [run']
      intro t ht
      rcases List.mem_cons.mp ht with rfl | ht
      · exact hg.2 _ rfl
      · exact ih (fun y hy => hw y (List.mem_cons_of_mem _ hy)) s' hg.1 t ht

/-- **coverage**: the model answers (`startTags ≠ none`) for every input without `&` -/
theorem startTags_covered (doc : Bytes) (h : ∀ c ∈ doc, c ≠ 0x26) : startTags doc ≠ none := by
  have := run_noamp doc h .data rfl
  unfold startTags
  simp only [rawTags]
  have e : (run .data doc).any hasAmp = false := by
    rw [List.any_eq_false]
    intro t ht
    simp [this t ht]
  simp [e]

/-! ### the end of the input, truncation -/

/-- a tag is only ever reported on a `>` -/
theorem step_emits_on_gt (st : St) (c : Nat) (hc : c ≠ 0x3E) : (step st c).2 = none := by
  have e : (c == 0x3E) = false := by simpa using hc
  have e2 : ∀ t : TagAcc, (beforeAttrStep t c).2 = none := by
    intro t; simp only [beforeAttrStep, e, Bool.false_eq_true, ↓reduceIte]; repeat' split
    all_goals rfl
  have e3 : ∀ t : TagAcc, (tagNameStep t c).2 = none := by
    intro t; simp only [tagNameStep]; repeat' split
    all_goals first | rfl | exact e2 _
  have e4 : ∀ (t : TagAcc) (k : Bytes), (afterKeyStep t k c).2 = none := by
    intro t k; simp only [afterKeyStep]; repeat' split
    all_goals first | rfl | exact e2 _
  cases st with
  | tagName t => exact e3 t
  | beforeAttr t => exact e2 t
  | attrKey t k => simp only [step, attrKeyStep]; split; exact e4 t k; rfl
  | afterKey t k => exact e4 t k
  | beforeVal t k =>
    simp only [step, beforeValStep, e, Bool.false_eq_true, ↓reduceIte]; repeat' split
    all_goals rfl
  | quoted t k q v => simp only [step, quotedStep]; split <;> rfl
  | unquoted t k v =>
    simp only [step, unquotedStep, e, Bool.false_eq_true, ↓reduceIte]; repeat' split
    all_goals rfl
  | rtEnd tag rem =>
    simp only [step, rtEndStep, rtStep, endTagFound]; repeat' split
    all_goals first | rfl | exact e3 _
  | sEnd rem =>
    simp only [step, sEndStep, sDataStep, endTagFound]; repeat' split
    all_goals first | rfl | exact e3 _
  | sEscEnd rem =>
    simp only [step, sEscEndStep, sEscStep, endTagFound]; repeat' split
    all_goals first | rfl | exact e3 _
  | sDES rem => simp only [step, sDESStep, sEscStep]; repeat' split
                all_goals rfl
  | sDEEnd rem => simp only [step, sDEEndStep, sDEStep]; repeat' split
                  all_goals rfl
  | _ =>
    simp only [step, dataStep, ltStep, endOpenStep, bogusStep, md0Step, md1Step, commentStep, commentBangStep,
      rtStep, rtLtStep, sDataStep, sLtStep, sEscStartStep, sEscStartDashStep, sEscStep, sEscDashStep,
      sEscDashDashStep, sEscLtStep, sDESStep, sDEStep, sDEDashStep, sDEDashDashStep, sDELtStep]
    repeat' split
    all_goals rfl

/-- **no `>`, no tag**: whatever the state, input without `>` reports nothing — in particular a
    start tag cut off by the end of the input (inside its name, a key or a value) is not reported -/
theorem no_tag_without_gt (w : Bytes) (h : ∀ c ∈ w, c ≠ 0x3E) (st : St) : run st w = [] := by
  induction w generalizing st with
  | nil => rfl
  | cons c cs ih =>
    have := step_emits_on_gt st c (h c (List.mem_cons_self ..))
    rw [run_cons]
    rcases hs : step st c with ⟨s', o⟩
    rw [hs] at this
    simp only at this
    subst this
    exact ih (fun y hy => h y (List.mem_cons_of_mem _ hy)) s'

/-- `<plaintext>` swallows the rest of the document -/
theorem plaintext_swallows (w : Bytes) : run .plaintext w = [] := by
  induction w with
  | nil => rfl
  | cons c cs ih => rw [run_cons]; exact ih

/-- **truncation**: the tags reported for a prefix of the input are a prefix of the tags
    reported for the whole input (detection on a truncated header sees nothing spurious) -/
theorem run_prefix (a b : Bytes) (st : St) : ∃ more, run st (a ++ b) = run st a ++ more := by
  induction a generalizing st with
  | nil => exact ⟨run st b, rfl⟩
  | cons c cs ih =>
    rw [List.cons_append, run_cons, run_cons]
    rcases step st c with ⟨s', _ | t⟩
    · exact ih s'
    · obtain ⟨m, hm⟩ := ih s'
      exact ⟨m, by simp only [run', hm, List.cons_append]⟩

theorem rawTags_prefix (a b : Bytes) : ∃ more, rawTags (a ++ b) = rawTags a ++ more := run_prefix a b .data

/-! ### the simple form of the declaration -/

theorem fromBOM_head (c : Nat) (r : Bytes) (h : c ≠ 0 ∧ c ≠ 0xEF ∧ c ≠ 0xFE ∧ c ≠ 0xFF) :
    fromBOM (c :: r) = csNone := by
  obtain ⟨h0, h1, h2, h3⟩ := h
  have e0 : ((0:Nat) == c) = false := by simpa using fun e => h0 e.symm
  have e1 : ((0xEF:Nat) == c) = false := by simpa using fun e => h1 e.symm
  have e2 : ((0xFE:Nat) == c) = false := by simpa using fun e => h2 e.symm
  have e3 : ((0xFF:Nat) == c) = false := by simpa using fun e => h3 e.symm
  simp [fromBOM, Gen.Charset.boms, fromBOMIn, hasPrefix, List.isPrefixOf, e0, e1, e2, e3]

/-- a document starting with `<` has no BOM -/
theorem fromBOM_lt (r : Bytes) : fromBOM (0x3C :: r) = csNone := fromBOM_head 0x3C r (by decide)

/-- label bytes: no white space, `>`, quotes or `&` -/
def tokenChar (c : Nat) : Bool := !(isWS c || c == 0x3E || c == 0x22 || c == 0x27 || c == 0x26)

theorem kwCharset_lower : ∀ c ∈ kwCharset, 0x61 ≤ c ∧ c ≤ 0x7A := by decide

theorem isLetter_ne_amp {c : Nat} (h : isLetter c = true) : c ≠ 0x26 := by
  simp only [isLetter, Bool.or_eq_true, Bool.and_eq_true, decide_eq_true_eq] at h
  omega

/-- **declared_charset_reported**, the plain form `P ++ "<meta charset=" q L q ">" ++ rest`
    (`meta` / `charset` in any letter case; `q` = `"`, `'` or nothing; `L` a non-empty label of
    token bytes): when no BOM is present and neither the prologue nor the rest contains `&`,
    `FromHTML` answers the lower-cased label (utf-8 for utf-16 labels). -/
theorem declared_charset_simple (P nm cs : Bytes) (form : ValForm) (L rest : Bytes)
    (hP : Prologue P) (hnm : lowerASCII nm = kMeta) (hcs : lowerASCII cs = kwCharset)
    (hL : L ≠ []) (htok : ∀ c ∈ L, tokenChar c = true)
    (hbom : fromBOM (P ++ tagText nm [0x20] [charsetAttr cs form L []] ++ rest) = csNone)
    (hamp : ∀ c ∈ P ++ rest, c ≠ 0x26) :
    fromHTMLBytes (P ++ tagText nm [0x20] [charsetAttr cs form L []] ++ rest) = some (norm L) := by
  have hcsl := letters_of_lower cs kwCharset hcs kwCharset_lower
  have hnml := letters_of_lower nm kMeta hnm kMeta_lower
  have htok' : ∀ c ∈ L, isWS c = false ∧ c ≠ 0x3E ∧ c ≠ 0x22 ∧ c ≠ 0x27 ∧ c ≠ 0x26 := by
    intro c hc
    have := htok c hc
    simp only [tokenChar, Bool.not_eq_true', Bool.or_eq_false_iff, beq_eq_false_iff_ne, ne_eq] at this
    exact ⟨this.1.1.1.1, this.1.1.1.2, this.1.1.2, this.1.2, this.2⟩
  have hwf : attrsWf ([] ++ charsetAttr cs form L [] :: []) := by
    refine ⟨⟨?_, fun c hc => isLetter_keyChar (hcsl c hc), by simp [charsetAttr], ?_⟩, by simp, trivial⟩
    · intro e
      simp only [charsetAttr] at e
      rw [e] at hcs
      exact absurd hcs (by decide)
    · cases form with
      | dq => exact fun c hc => (htok' c hc).2.2.1
      | sq => exact fun c hc => (htok' c hc).2.2.2.1
      | bare =>
        refine ⟨hL, fun c hc => ?_, ?_, ?_⟩
        · simp [bareChar, (htok' c hc).1, (htok' c hc).2.1]
        · cases L with
          | nil => exact absurd rfl hL
          | cons x xs => simpa [charsetAttr] using (htok' x (List.mem_cons_self ..)).2.2.1
        · cases L with
          | nil => exact absurd rfl hL
          | cons x xs => simpa [charsetAttr] using (htok' x (List.mem_cons_self ..)).2.2.2.1
  have key : ∀ l : Bytes, (∀ c ∈ l, c ≠ 0x26) ↔ l.all (· != 0x26) = true := by
    intro l; simp [List.all_eq_true]
  have hcov : startTags (P ++ tagText nm [0x20] ([] ++ charsetAttr cs form L [] :: []) ++ rest) ≠ none := by
    apply startTags_covered
    have h1 : P.all (· != 0x26) = true := (key P).mp (fun c hc => hamp c (List.mem_append_left _ hc))
    have h2 : rest.all (· != 0x26) = true := (key rest).mp (fun c hc => hamp c (List.mem_append_right _ hc))
    have h3 : nm.all (· != 0x26) = true := (key nm).mp (fun c hc => isLetter_ne_amp (hnml c hc))
    have h4 : cs.all (· != 0x26) = true := (key cs).mp (fun c hc => isLetter_ne_amp (hcsl c hc))
    have h5 : L.all (· != 0x26) = true := (key L).mp (fun c hc => (htok' c hc).2.2.2.2)
    rw [key]
    cases form <;>
    · simp only [tagText, attrsText, AttrSrc.text, AttrSrc.valText, charsetAttr, List.nil_append, List.append_nil,
        List.all_append, List.all_cons, List.all_nil, Bool.and_eq_true, Bool.and_true, h1, h2, h3, h4, h5]
      decide
  exact declared_charset_reported P nm [0x20] [] [] cs form L [] rest hP hnm (by decide) (by decide) hcs hwf
    (by simp) (by simp) hL (fun c hc => by have := (htok' c hc).1; intro e; subst e; simp [isWS] at this) hbom hcov

/-! ### non-vacuity and the odd corners, by evaluation in the kernel -/

/-- the prologue grammar is inhabited by a realistic prologue:
    `\n<!-- c --><!DOCTYPE html><html lang=en></p>` -/
example : Prologue ([0x0A] ++ (commentText [32, 99, 32] ++ (declText [68, 79, 67, 84, 89, 80, 69, 32, 104, 116, 109, 108] ++
    (tagText [104, 116, 109, 108] [0x20] [{ key := [108, 97, 110, 103], form := .bare, val := [101, 110], sep := [] }] ++
    (endTagText [0x70] [] ++ []))))) := by
  refine .text _ _ (by decide) (.comment _ _ (by decide) (.decl _ _ (by decide) (by decide)
    (.startTag _ _ _ _ (by decide) (by decide) (by decide) (by decide) (by decide) (by decide) ?_
    (.endTag _ _ _ (by decide) (by decide) (by decide) .nil))))
  exact ⟨⟨by decide, by decide, by decide, by decide, by decide, by decide, by decide⟩, by decide, trivial⟩

/-- `<meta charset=x>` is an admissible script text, raw text and comment body -/
example : scriptBodyOk [60, 109, 101, 116, 97, 32, 99, 104, 97, 114, 115, 101, 116, 61, 120, 62] = true := by decide
example : rawBodyOk kTitle [60, 109, 101, 116, 97, 32, 99, 104, 97, 114, 115, 101, 116, 61, 120, 62] = true := by decide
example : commentBodyOk [60, 109, 101, 116, 97, 32, 99, 104, 97, 114, 115, 101, 116, 61, 120, 62] = true := by decide

/-- `declared_charset_simple` applies: `<!--x--><MeTa CHARSET='Latin1'>…` -/
example (rest : Bytes) (h : ∀ c ∈ rest, c ≠ 0x26) :
    fromHTMLBytes (commentText [0x78] ++ tagText [77, 101, 84, 97] [0x20] [charsetAttr [67, 72, 65, 82, 83, 69, 84] .sq [76, 97, 116, 105, 110, 49] []] ++ rest)
      = some [108, 97, 116, 105, 110, 49] := by
  have hP : Prologue (commentText [0x78] ++ []) := .comment _ _ (by decide) .nil
  rw [List.append_nil] at hP
  have := declared_charset_simple (commentText [0x78]) [77, 101, 84, 97] [67, 72, 65, 82, 83, 69, 84] .sq [76, 97, 116, 105, 110, 49] rest hP
    (by decide) (by decide) (by decide) (by decide) (fromBOM_lt _)
    (fun c hc => by
      rcases List.mem_append.mp hc with h1 | h1
      · exact (by decide : ∀ c ∈ commentText [0x78], c ≠ 0x26) c h1
      · exact h c h1)
  rw [this]
  decide

/-- `<meta charset=x>` -/
example : startTags [60, 109, 101, 116, 97, 32, 99, 104, 97, 114, 115, 101, 116, 61, 120, 62] =
    some [{ name := [109, 101, 116, 97], attrs := [([99, 104, 97, 114, 115, 101, 116], [120])] }] := by decide

/-- `<META Charset="UTF-8" a='b' C>` -/
example : startTags [60, 77, 69, 84, 65, 32, 67, 104, 97, 114, 115, 101, 116, 61, 34, 85, 84, 70, 45, 56, 34, 32, 97, 61, 39, 98, 39, 32, 67, 62] =
    some [{ name := [109, 101, 116, 97], attrs := [([99, 104, 97, 114, 115, 101, 116], [85, 84, 70, 45, 56]), ([97], [98]), ([99], [])] }] := by decide

/-- `<meta charset=x  (cut off by the end of input: not reported)` -/
example : startTags [60, 109, 101, 116, 97, 32, 99, 104, 97, 114, 115, 101, 116, 61, 120] =
    some [] := by decide

/-- `<meta charset="x  (unterminated quote swallows the rest)` -/
example : startTags [60, 109, 101, 116, 97, 32, 99, 104, 97, 114, 115, 101, 116, 61, 34, 120, 62, 60, 112, 62] =
    some [] := by decide

/-- `<script><meta charset=x></script><meta charset=y>` -/
example : startTags [60, 115, 99, 114, 105, 112, 116, 62, 60, 109, 101, 116, 97, 32, 99, 104, 97, 114, 115, 101, 116, 61, 120, 62, 60, 47, 115, 99, 114, 105, 112, 116, 62, 60, 109, 101, 116, 97, 32, 99, 104, 97, 114, 115, 101, 116, 61, 121, 62] =
    some [{ name := [115, 99, 114, 105, 112, 116], attrs := [] }, { name := [109, 101, 116, 97], attrs := [([99, 104, 97, 114, 115, 101, 116], [121])] }] := by decide

/-- `<TITLE><meta charset=x></title ><meta charset=y>` -/
example : startTags [60, 84, 73, 84, 76, 69, 62, 60, 109, 101, 116, 97, 32, 99, 104, 97, 114, 115, 101, 116, 61, 120, 62, 60, 47, 116, 105, 116, 108, 101, 32, 62, 60, 109, 101, 116, 97, 32, 99, 104, 97, 114, 115, 101, 116, 61, 121, 62] =
    some [{ name := [116, 105, 116, 108, 101], attrs := [] }, { name := [109, 101, 116, 97], attrs := [([99, 104, 97, 114, 115, 101, 116], [121])] }] := by decide

/-- `<title><meta charset=x></titlex><meta charset=y>  (</titlex does not close)` -/
example : startTags [60, 116, 105, 116, 108, 101, 62, 60, 109, 101, 116, 97, 32, 99, 104, 97, 114, 115, 101, 116, 61, 120, 62, 60, 47, 116, 105, 116, 108, 101, 120, 62, 60, 109, 101, 116, 97, 32, 99, 104, 97, 114, 115, 101, 116, 61, 121, 62] =
    some [{ name := [116, 105, 116, 108, 101], attrs := [] }] := by decide

/-- `<!--<meta charset=x>--><meta charset=y>` -/
example : startTags [60, 33, 45, 45, 60, 109, 101, 116, 97, 32, 99, 104, 97, 114, 115, 101, 116, 61, 120, 62, 45, 45, 62, 60, 109, 101, 116, 97, 32, 99, 104, 97, 114, 115, 101, 116, 61, 121, 62] =
    some [{ name := [109, 101, 116, 97], attrs := [([99, 104, 97, 114, 115, 101, 116], [121])] }] := by decide

/-- `<!--><meta charset=y>  (`<!-->` is a complete comment)` -/
example : startTags [60, 33, 45, 45, 62, 60, 109, 101, 116, 97, 32, 99, 104, 97, 114, 115, 101, 116, 61, 121, 62] =
    some [{ name := [109, 101, 116, 97], attrs := [([99, 104, 97, 114, 115, 101, 116], [121])] }] := by decide

/-- `<!---><meta charset=y>-->  (`<!--->` too)` -/
example : startTags [60, 33, 45, 45, 45, 62, 60, 109, 101, 116, 97, 32, 99, 104, 97, 114, 115, 101, 116, 61, 121, 62, 45, 45, 62] =
    some [{ name := [109, 101, 116, 97], attrs := [([99, 104, 97, 114, 115, 101, 116], [121])] }] := by decide

/-- `<!-- --!><meta charset=y>  (`--!>` closes)` -/
example : startTags [60, 33, 45, 45, 32, 45, 45, 33, 62, 60, 109, 101, 116, 97, 32, 99, 104, 97, 114, 115, 101, 116, 61, 121, 62] =
    some [{ name := [109, 101, 116, 97], attrs := [([99, 104, 97, 114, 115, 101, 116], [121])] }] := by decide

/-- `<plaintext></plaintext><meta charset=y>  (plaintext never ends)` -/
example : startTags [60, 112, 108, 97, 105, 110, 116, 101, 120, 116, 62, 60, 47, 112, 108, 97, 105, 110, 116, 101, 120, 116, 62, 60, 109, 101, 116, 97, 32, 99, 104, 97, 114, 115, 101, 116, 61, 121, 62] =
    some [{ name := [112, 108, 97, 105, 110, 116, 101, 120, 116], attrs := [] }] := by decide

/-- `<a b=c/>  (the slash belongs to the unquoted value)` -/
example : startTags [60, 97, 32, 98, 61, 99, 47, 62] =
    some [{ name := [97], attrs := [([98], [99, 47])] }] := by decide

/-- `<a b/c =d e = "f" =g>  (`/` separates; a leading `=` starts a key)` -/
example : startTags [60, 97, 32, 98, 47, 99, 32, 61, 100, 32, 101, 32, 61, 32, 34, 102, 34, 32, 61, 103, 62] =
    some [{ name := [97], attrs := [([98], []), ([99], [100]), ([101], [102]), ([61, 103], [])] }] := by decide

/-- `<a b=1 B=2>  (duplicates are all returned)` -/
example : startTags [60, 97, 32, 98, 61, 49, 32, 66, 61, 50, 62] =
    some [{ name := [97], attrs := [([98], [49]), ([98], [50])] }] := by decide

/-- `<a b="x\r\ny\rz">  (CR LF and CR become LF inside values)` -/
example : startTags [60, 97, 32, 98, 61, 34, 120, 13, 10, 121, 13, 122, 34, 62] =
    some [{ name := [97], attrs := [([98], [120, 10, 121, 10, 122])] }] := by decide

/-- `<a\0B \0=\0>  (NUL is kept; no lower-casing beyond A-Z)` -/
example : startTags [60, 97, 0, 66, 32, 0, 61, 0, 62] =
    some [{ name := [97, 0, 98], attrs := [([0], [0])] }] := by decide

/-- `<a b="&amp;">  (character references: not modelled)` -/
example : startTags [60, 97, 32, 98, 61, 34, 38, 97, 109, 112, 59, 34, 62] = none := by decide

/-- `</a b="&amp;"><i>  (end tags do not matter)` -/
example : startTags [60, 47, 97, 32, 98, 61, 34, 38, 97, 109, 112, 59, 34, 62, 60, 105, 62] =
    some [{ name := [105], attrs := [] }] := by decide

/-- `<script><!--<script></script>--></script><b>  (double escape)` -/
example : startTags [60, 115, 99, 114, 105, 112, 116, 62, 60, 33, 45, 45, 60, 115, 99, 114, 105, 112, 116, 62, 60, 47, 115, 99, 114, 105, 112, 116, 62, 45, 45, 62, 60, 47, 115, 99, 114, 105, 112, 116, 62, 60, 98, 62] =
    some [{ name := [115, 99, 114, 105, 112, 116], attrs := [] }, { name := [98], attrs := [] }] := by decide

/-- `<script><!--<1<script></script><b>  (sic: `<1` leaves the escaped state)` -/
example : startTags [60, 115, 99, 114, 105, 112, 116, 62, 60, 33, 45, 45, 60, 49, 60, 115, 99, 114, 105, 112, 116, 62, 60, 47, 115, 99, 114, 105, 112, 116, 62, 60, 98, 62] =
    some [{ name := [115, 99, 114, 105, 112, 116], attrs := [] }, { name := [98], attrs := [] }] := by decide

/-- `<script><!--<script></script><b>  (without it the end tag is swallowed)` -/
example : startTags [60, 115, 99, 114, 105, 112, 116, 62, 60, 33, 45, 45, 60, 115, 99, 114, 105, 112, 116, 62, 60, 47, 115, 99, 114, 105, 112, 116, 62, 60, 98, 62] =
    some [{ name := [115, 99, 114, 105, 112, 116], attrs := [] }] := by decide

/-- `<!DOCTYPE html><html><head><meta charset="UTF-16">` -/
example : fromHTMLBytes [60, 33, 68, 79, 67, 84, 89, 80, 69, 32, 104, 116, 109, 108, 62, 60, 104, 116, 109, 108, 62, 60, 104, 101, 97, 100, 62, 60, 109, 101, 116, 97, 32, 99, 104, 97, 114, 115, 101, 116, 61, 34, 85, 84, 70, 45, 49, 54, 34, 62] = some [117, 116, 102, 45, 56] := by decide

/-- `<meta http-equiv=Content-Type content="text/html; charset=KOI8-R">` -/
example : fromHTMLBytes [60, 109, 101, 116, 97, 32, 104, 116, 116, 112, 45, 101, 113, 117, 105, 118, 61, 67, 111, 110, 116, 101, 110, 116, 45, 84, 121, 112, 101, 32, 99, 111, 110, 116, 101, 110, 116, 61, 34, 116, 101, 120, 116, 47, 104, 116, 109, 108, 59, 32, 99, 104, 97, 114, 115, 101, 116, 61, 75, 79, 73, 56, 45, 82, 34, 62] = some [107, 111, 105, 56, 45, 114] := by decide

/-- `<title><meta charset=x></title>  (hidden declaration: falls back to the plain-text guess)` -/
example : fromHTMLBytes [60, 116, 105, 116, 108, 101, 62, 60, 109, 101, 116, 97, 32, 99, 104, 97, 114, 115, 101, 116, 61, 120, 62, 60, 47, 116, 105, 116, 108, 101, 62] = some [117, 116, 102, 45, 56] := by decide

end Mime.HtmlTokLemmas
