import MimeModel.Model.Charset
import MimeModel.Spec.Utf8
/-
  The table-driven model of Go's `utf8.Valid` (second-byte ranges per lead byte) accepts
  exactly the RFC 3629 well-formed sequences of Spec/Utf8.lean (decode the scalar value,
  require the shortest form, no surrogates, at most U+10FFFF).
-/
namespace Mime.Utf8
open Mime Mime.Charset Mime.Spec

theorem cont_eq (b : Nat) : U.cont b = isCont b := rfl

/-- model-style character length -/
def mlen : Bytes → Option Nat
  | [] => none
  | a :: rest =>
    if a < 0x80 then some 1
    else if 0xC2 ≤ a && a ≤ 0xDF then
      match rest with
      | b :: _ => if isCont b then some 2 else none
      | _ => none
    else if a == 0xE0 then
      match rest with
      | b :: c :: _ => if (0xA0 ≤ b && b ≤ 0xBF) && isCont c then some 3 else none
      | _ => none
    else if (0xE1 ≤ a && a ≤ 0xEC) || a == 0xEE || a == 0xEF then
      match rest with
      | b :: c :: _ => if isCont b && isCont c then some 3 else none
      | _ => none
    else if a == 0xED then
      match rest with
      | b :: c :: _ => if (0x80 ≤ b && b ≤ 0x9F) && isCont c then some 3 else none
      | _ => none
    else if a == 0xF0 then
      match rest with
      | b :: c :: d :: _ => if (0x90 ≤ b && b ≤ 0xBF) && isCont c && isCont d then some 4 else none
      | _ => none
    else if 0xF1 ≤ a && a ≤ 0xF3 then
      match rest with
      | b :: c :: d :: _ => if isCont b && isCont c && isCont d then some 4 else none
      | _ => none
    else if a == 0xF4 then
      match rest with
      | b :: c :: d :: _ => if (0x80 ≤ b && b ≤ 0x8F) && isCont c && isCont d then some 4 else none
      | _ => none
    else none

theorem valid_mlen (a : Nat) (rest : Bytes) :
    utf8Valid (a :: rest) = (match mlen (a :: rest) with | some k => utf8Valid ((a :: rest).drop k) | none => false) := by
  rw [utf8Valid.eq_def]
  simp only [mlen]
  split
  · rfl
  split
  · split
    · split <;> simp_all <;> (rename_i h; obtain ⟨_, rfl⟩ := h; rfl)
    · simp_all
  split
  · split
    · split <;> simp_all <;> (rename_i h; obtain ⟨_, rfl⟩ := h; rfl)
    · simp_all
  split
  · split
    · split <;> simp_all <;> (rename_i h; obtain ⟨_, rfl⟩ := h; rfl)
    · simp_all
  split
  · split
    · split <;> simp_all <;> (rename_i h; obtain ⟨_, rfl⟩ := h; rfl)
    · simp_all
  split
  · split
    · split <;> simp_all <;> (rename_i h; obtain ⟨_, rfl⟩ := h; rfl)
    · simp_all
  split
  · split
    · split <;> simp_all <;> (rename_i h; obtain ⟨_, rfl⟩ := h; rfl)
    · simp_all
  split
  · split
    · split <;> simp_all <;> (rename_i h; obtain ⟨_, rfl⟩ := h; rfl)
    · simp_all
  rfl

theorem mlen_eq (x : Bytes) : mlen x = U.charLen x := by
  cases x with
  | nil => rfl
  | cons a rest =>
    by_cases h1 : a < 0x80
    · simp [mlen, U.charLen, h1]
    by_cases hC0 : a < 0xC0
    · -- stray continuation byte
      have e1 : ¬ (0xC2 ≤ a) := by omega
      have e2 : ¬ (0xC0 ≤ a) := by omega
      have e3 : ¬ (0xE0 ≤ a) := by omega
      have e4 : ¬ (0xF0 ≤ a) := by omega
      have e5 : ¬ (0xE1 ≤ a) := by omega
      have e6 : ¬ (0xF1 ≤ a) := by omega
      have n1 : a ≠ 0xE0 := by omega
      have n2 : a ≠ 0xEE := by omega
      have n3 : a ≠ 0xEF := by omega
      have n4 : a ≠ 0xED := by omega
      have n5 : a ≠ 0xF0 := by omega
      have n6 : a ≠ 0xF4 := by omega
      simp [mlen, U.charLen, h1, e1, e2, e3, e4, e5, e6, n1, n2, n3, n4, n5, n6]
    by_cases hDF : a ≤ 0xDF
    · -- two-byte lead
      have g0 : 0xC0 ≤ a := by omega
      have e3 : ¬ (0xE0 ≤ a) := by omega
      have e4 : ¬ (0xF0 ≤ a) := by omega
      have e5 : ¬ (0xE1 ≤ a) := by omega
      have e6 : ¬ (0xF1 ≤ a) := by omega
      have n1 : a ≠ 0xE0 := by omega
      have n2 : a ≠ 0xEE := by omega
      have n3 : a ≠ 0xEF := by omega
      have n4 : a ≠ 0xED := by omega
      have n5 : a ≠ 0xF0 := by omega
      have n6 : a ≠ 0xF4 := by omega
      cases rest with
      | nil => simp [mlen, U.charLen, h1, g0, hDF, e3, e4, e5, e6, n1, n2, n3, n4, n5, n6]
      | cons b r =>
        by_cases hb : isCont b = true
        · have hb' : U.cont b = true := hb
          by_cases hC2 : 0xC2 ≤ a
          · have hcp : 0x80 ≤ (a % 32) * 64 + b % 64 := by omega
            simp [mlen, U.charLen, h1, g0, hDF, hC2, hb, hb', hcp]
          · have hcp : ¬ (0x80 ≤ (a % 32) * 64 + b % 64) := by omega
            simp [mlen, U.charLen, h1, g0, hDF, hC2, hb, hb', hcp, e3, e4, e5, e6, n1, n2, n3, n4, n5, n6]
        · have hb1 : isCont b = false := by simpa using hb
          have hb' : U.cont b = false := hb1
          simp [mlen, U.charLen, h1, g0, hDF, hb1, hb', e3, e4, e5, e6, n1, n2, n3, n4, n5, n6]
    have c2 : (decide (0xC2 ≤ a) && decide (a ≤ 0xDF)) = false := by simp; omega
    have d2 : (decide (0xC0 ≤ a) && decide (a ≤ 0xDF)) = false := by simp; omega
    by_cases hEF : a ≤ 0xEF
    · -- three-byte lead
      have d3 : (decide (0xE0 ≤ a) && decide (a ≤ 0xEF)) = true := by simp; omega
      have hshort : ∀ l : Bytes, l.length < 2 → mlen (a :: l) = none ∧ U.charLen (a :: l) = none := by
        intro l hl
        match l, hl with
        | [], _ => constructor <;> simp only [mlen, U.charLen, h1, c2, d2, d3, Bool.false_eq_true, ↓reduceIte] <;> (repeat' split) <;> rfl
        | [b], _ => constructor <;> simp only [mlen, U.charLen, h1, c2, d2, d3, Bool.false_eq_true, ↓reduceIte] <;> (repeat' split) <;> rfl
      match rest with
      | [] => rw [(hshort [] (by simp)).1, (hshort [] (by simp)).2]
      | [b] => rw [(hshort [b] (by simp)).1, (hshort [b] (by simp)).2]
      | b :: c :: r =>
        simp only [mlen, U.charLen, h1, c2, d2, d3, Bool.false_eq_true, ↓reduceIte]
        repeat' split
        all_goals first
          | rfl
          | (exfalso
             simp only [isCont, U.cont, Bool.and_eq_true, Bool.or_eq_true, decide_eq_true_eq, beq_iff_eq, Bool.not_eq_true',
               decide_eq_false_iff_not, ge_iff_le, Bool.and_eq_false_iff, Bool.or_eq_false_iff] at *
             omega)
    have d3 : (decide (0xE0 ≤ a) && decide (a ≤ 0xEF)) = false := by simp; omega
    by_cases hF7 : a ≤ 0xF7
    · -- four-byte lead
      have d4 : (decide (0xF0 ≤ a) && decide (a ≤ 0xF7)) = true := by simp; omega
      have m1 : (a == 0xE0) = false := by simp; omega
      have m2 : (decide (0xE1 ≤ a) && decide (a ≤ 0xEC) || a == 0xEE || a == 0xEF) = false := by simp; omega
      have m3 : (a == 0xED) = false := by simp; omega
      have hshort : ∀ l : Bytes, l.length < 3 → mlen (a :: l) = none ∧ U.charLen (a :: l) = none := by
        intro l hl
        match l, hl with
        | [], _ => constructor <;> simp only [mlen, U.charLen, h1, c2, d2, d3, d4, m1, m2, m3, Bool.false_eq_true, ↓reduceIte] <;> (repeat' split) <;> rfl
        | [b], _ => constructor <;> simp only [mlen, U.charLen, h1, c2, d2, d3, d4, m1, m2, m3, Bool.false_eq_true, ↓reduceIte] <;> (repeat' split) <;> rfl
        | [b, c], _ => constructor <;> simp only [mlen, U.charLen, h1, c2, d2, d3, d4, m1, m2, m3, Bool.false_eq_true, ↓reduceIte] <;> (repeat' split) <;> rfl
      match rest with
      | [] => rw [(hshort [] (by simp)).1, (hshort [] (by simp)).2]
      | [b] => rw [(hshort [b] (by simp)).1, (hshort [b] (by simp)).2]
      | [b, c] => rw [(hshort [b, c] (by simp)).1, (hshort [b, c] (by simp)).2]
      | b :: c :: d :: r =>
        simp only [mlen, U.charLen, h1, c2, d2, d3, d4, m1, m2, m3, Bool.false_eq_true, ↓reduceIte]
        repeat' split
        all_goals first
          | rfl
          | (exfalso
             simp only [isCont, U.cont, Bool.and_eq_true, Bool.or_eq_true, decide_eq_true_eq, beq_iff_eq, Bool.not_eq_true',
               decide_eq_false_iff_not, ge_iff_le, Bool.and_eq_false_iff, Bool.or_eq_false_iff] at *
             omega)
    · -- not a lead byte
      have d4 : (decide (0xF0 ≤ a) && decide (a ≤ 0xF7)) = false := by simp; omega
      have m1 : (a == 0xE0) = false := by simp; omega
      have m2 : (decide (0xE1 ≤ a) && decide (a ≤ 0xEC) || a == 0xEE || a == 0xEF) = false := by simp; omega
      have m3 : (a == 0xED) = false := by simp; omega
      have m4 : (a == 0xF0) = false := by simp; omega
      have m5 : (decide (0xF1 ≤ a) && decide (a ≤ 0xF3)) = false := by simp; omega
      have m6 : (a == 0xF4) = false := by simp; omega
      simp only [mlen, U.charLen, h1, c2, d2, d3, d4, m1, m2, m3, m4, m5, m6, Bool.false_eq_true, ↓reduceIte]


theorem charLen_pos (b : Bytes) (k : Nat) (h : U.charLen b = some k) : 1 ≤ k := by
  rw [← mlen_eq] at h
  unfold mlen at h
  repeat' split at h
  all_goals first | (cases h; done) | (simp only [Option.some.injEq] at h; omega)

/-- **`utf8.Valid` = RFC 3629** -/
theorem valid_eq : ∀ (fuel : Nat) (b : Bytes), b.length < fuel → U.valid fuel b = utf8Valid b := by
  intro fuel
  induction fuel with
  | zero => intro b h; omega
  | succ fuel ih =>
    intro b h
    cases b with
    | nil => simp [U.valid, utf8Valid]
    | cons a rest =>
      rw [valid_mlen, mlen_eq, U.valid]
      · cases hk : U.charLen (a :: rest) with
        | none => rfl
        | some k =>
          simp only
          have := charLen_pos _ _ hk
          exact ih _ (by simp only [List.length_drop, List.length_cons] at h ⊢; omega)
      · intro hne; cases hne

theorem utf8Valid_eq_spec (b : Bytes) : utf8Valid b = U.validUtf8 b :=
  (valid_eq (b.length + 1) b (by omega)).symm

macro "boolnorm" : tactic => `(tactic| simp only [Bool.and_eq_true, Bool.or_eq_true, decide_eq_true_eq, beq_iff_eq, Bool.not_eq_true',
  decide_eq_false_iff_not, ge_iff_le, Bool.and_eq_false_iff, Bool.or_eq_false_iff, Bool.not_eq_true, Bool.not_eq_false', Bool.not_eq_false] at *)

theorem trunc2 (b0 b1 : Nat) (h1 : isCont b1 = true) (h0 : 0xC0 ≤ b0) (hf : fullRune [b0, b1] = false) :
    U.truncSeq [b0, b1] = true := by
  simp only [fullRune, leadSize, secondOk, isCont] at hf h1
  simp only [U.truncSeq, U.cont]
  repeat' split at hf
  all_goals (boolnorm; omega)

theorem trunc3 (b0 b1 b2 : Nat) (h1 : isCont b1 = true) (h2 : isCont b2 = true) (h0 : 0xC0 ≤ b0)
    (hf : fullRune [b0, b1, b2] = false) : U.truncSeq [b0, b1, b2] = true := by
  simp only [fullRune, leadSize, secondOk, isCont, List.length_nil] at hf h1 h2
  simp only [U.truncSeq, U.cont]
  repeat' split at hf
  all_goals (boolnorm; omega)

theorem trunc1_inv (b0 : Nat) (h : U.truncSeq [b0] = true) :
    ¬ b0 < 0x80 ∧ runeStart b0 = true ∧ fullRune [b0] = false := by
  simp only [U.truncSeq] at h
  simp only [runeStart, isCont, fullRune, leadSize]
  boolnorm
  refine ⟨by omega, by omega, ?_⟩
  repeat' split
  all_goals first | omega | (boolnorm; omega)

theorem trunc2_inv (b0 b1 : Nat) (h : U.truncSeq [b0, b1] = true) :
    ¬ b1 < 0x80 ∧ runeStart b1 = false ∧ ¬ b0 < 0x80 ∧ runeStart b0 = true ∧ fullRune [b0, b1] = false := by
  simp only [U.truncSeq, U.cont] at h
  simp only [runeStart, isCont, fullRune, leadSize, secondOk]
  boolnorm
  refine ⟨by omega, by omega, by omega, by omega, ?_⟩
  constructor
  · repeat' split
    all_goals first | omega | (boolnorm; omega)
  · repeat' split
    all_goals first | omega | (boolnorm; omega)

theorem trunc3_inv (b0 b1 b2 : Nat) (h : U.truncSeq [b0, b1, b2] = true) :
    ¬ b2 < 0x80 ∧ runeStart b2 = false ∧ ¬ b1 < 0x80 ∧ runeStart b1 = false ∧
    ¬ b0 < 0x80 ∧ runeStart b0 = true ∧ fullRune [b0, b1, b2] = false := by
  simp only [U.truncSeq, U.cont] at h
  simp only [runeStart, isCont, fullRune, leadSize, secondOk, List.length_nil]
  boolnorm
  refine ⟨by omega, by omega, by omega, by omega, by omega, by omega, ?_⟩
  refine ⟨⟨?_, ?_⟩, by omega⟩
  · repeat' split
    all_goals first | omega | (boolnorm; omega)
  · repeat' split
    all_goals first | omega | (boolnorm; omega)

theorem mlen_shape (l : Bytes) (k : Nat) (h : mlen l = some k) :
    (k = 1 ∧ ∃ a r, l = a :: r ∧ a < 0x80) ∨
    (k = 2 ∧ ∃ a b r, l = a :: b :: r ∧ 0xC2 ≤ a ∧ a ≤ 0xDF ∧ isCont b = true) ∨
    (k = 3 ∧ ∃ a b c r, l = a :: b :: c :: r ∧ 0xE0 ≤ a ∧ a ≤ 0xEF ∧ isCont b = true ∧ isCont c = true) ∨
    (k = 4 ∧ ∃ a b c d r, l = a :: b :: c :: d :: r ∧ 0xF0 ≤ a ∧ a ≤ 0xF4 ∧ isCont b = true ∧ isCont c = true ∧ isCont d = true) := by
  unfold mlen at h
  repeat' split at h
  all_goals try (cases h; done)
  all_goals (simp only [Option.some.injEq] at h; subst h; simp only [isCont, Bool.and_eq_true, Bool.or_eq_true, decide_eq_true_eq, beq_iff_eq] at *)
  all_goals first
    | (left; refine ⟨trivial, _, _, rfl, ?_⟩; omega)
    | (right; left; refine ⟨trivial, _, _, _, rfl, ?_⟩; omega)
    | (right; right; left; refine ⟨trivial, _, _, _, _, rfl, ?_⟩; omega)
    | (right; right; right; refine ⟨trivial, _, _, _, _, _, rfl, ?_⟩; omega)

theorem valid_cons_inv (a : Nat) (rest : Bytes) (h : utf8Valid (a :: rest) = true) :
    ∃ k, mlen (a :: rest) = some k ∧ utf8Valid ((a :: rest).drop k) = true := by
  rw [valid_mlen] at h
  cases hk : mlen (a :: rest) with
  | none => rw [hk] at h; cases h
  | some k => rw [hk] at h; exact ⟨k, rfl, h⟩

theorem cont_lt (a : Nat) (h : isCont a = true) : a < 0xC0 := by
  simp only [isCont, Bool.and_eq_true, decide_eq_true_eq] at h; omega

theorem leadSize_two (a : Nat) (h1 : 0xC2 ≤ a) (h2 : a ≤ 0xDF) : leadSize a = 2 := by
  unfold leadSize
  repeat' split
  all_goals first | rfl | omega | (simp only [Bool.and_eq_true, decide_eq_true_eq] at *; omega)

theorem leadSize_three (a : Nat) (h1 : 0xE0 ≤ a) (h2 : a ≤ 0xEF) : leadSize a = 3 := by
  unfold leadSize
  repeat' split
  all_goals first | rfl | omega | (simp only [Bool.and_eq_true, decide_eq_true_eq] at *; omega)

theorem leadSize_four (a : Nat) (h1 : 0xF0 ≤ a) (h2 : a ≤ 0xF4) : leadSize a = 4 := by
  unfold leadSize
  repeat' split
  all_goals first | rfl | omega | (simp only [Bool.and_eq_true, decide_eq_true_eq] at *; omega)

/-- in a valid sequence, a lead byte `n` positions from the end announces at most `n` bytes -/
theorem lead_fits : ∀ (n : Nat) (q t : Bytes), q.length = n → utf8Valid (q ++ t) = true →
    ∀ a t', t = a :: t' → 0xC0 ≤ a → leadSize a ≤ t.length := by
  intro n
  induction n using Nat.strongRecOn with
  | _ n ih =>
    intro q t hq hv a t' ht ha
    subst ht
    cases q with
    | nil =>
      simp only [List.nil_append] at hv
      obtain ⟨k, hk, _⟩ := valid_cons_inv _ _ hv
      rcases mlen_shape _ _ hk with ⟨_, a', r, e, h1⟩ | ⟨_, a', b, r, e, h1, h2, _⟩ | ⟨_, a', b, c, r, e, h1, h2, _⟩ | ⟨_, a', b, c, d, r, e, h1, h2, _⟩
      · simp only [List.cons.injEq] at e; omega
      · simp only [List.cons.injEq] at e
        obtain ⟨rfl, rfl⟩ := e
        rw [leadSize_two a h1 h2]; simp only [List.length_cons]; omega
      · simp only [List.cons.injEq] at e
        obtain ⟨rfl, rfl⟩ := e
        rw [leadSize_three a h1 h2]; simp only [List.length_cons]; omega
      · simp only [List.cons.injEq] at e
        obtain ⟨rfl, rfl⟩ := e
        rw [leadSize_four a h1 h2]; simp only [List.length_cons]; omega
    | cons c q' =>
      simp only [List.cons_append] at hv
      simp only [List.length_cons] at hq
      obtain ⟨k, hk, hd⟩ := valid_cons_inv _ _ hv
      rcases mlen_shape _ _ hk with ⟨rfl, a', r, e, h1⟩ | ⟨rfl, a', b, r, e, h1, h2, hb⟩ | ⟨rfl, a', b, c2, r, e, h1, h2, hb, hc⟩ | ⟨rfl, a', b, c2, d, r, e, h1, h2, hb, hc, hd'⟩
      · simp only [List.drop_succ_cons, List.drop_zero] at hd
        exact ih q'.length (by omega) q' (a :: t') rfl hd a t' rfl ha
      · simp only [List.cons.injEq] at e
        obtain ⟨rfl, e2⟩ := e
        cases q' with
        | nil =>
          simp only [List.nil_append, List.cons.injEq] at e2
          have := cont_lt b hb; omega
        | cons x q'' =>
          simp only [List.cons_append, List.drop_succ_cons, List.drop_zero] at hd
          exact ih q''.length (by simp only [List.length_cons] at hq; omega) q'' (a :: t') rfl hd a t' rfl ha
      · simp only [List.cons.injEq] at e
        obtain ⟨rfl, e2⟩ := e
        match q', e2, hd, hq with
        | [], e2, _, _ =>
          simp only [List.nil_append, List.cons.injEq] at e2
          have := cont_lt b hb; omega
        | [x], e2, _, _ =>
          simp only [List.cons_append, List.nil_append, List.cons.injEq] at e2
          have := cont_lt c2 hc; omega
        | x :: y :: q'', _, hd, hq =>
          simp only [List.cons_append, List.drop_succ_cons, List.drop_zero] at hd
          exact ih q''.length (by simp only [List.length_cons] at hq; omega) q'' (a :: t') rfl hd a t' rfl ha
      · simp only [List.cons.injEq] at e
        obtain ⟨rfl, e2⟩ := e
        match q', e2, hd, hq with
        | [], e2, _, _ =>
          simp only [List.nil_append, List.cons.injEq] at e2
          have := cont_lt b hb; omega
        | [x], e2, _, _ =>
          simp only [List.cons_append, List.nil_append, List.cons.injEq] at e2
          have := cont_lt c2 hc; omega
        | [x, y], e2, _, _ =>
          simp only [List.cons_append, List.nil_append, List.cons.injEq] at e2
          have := cont_lt d hd'; omega
        | x :: y :: z :: q'', _, hd, hq =>
          simp only [List.cons_append, List.drop_succ_cons, List.drop_zero] at hd
          exact ih q''.length (by simp only [List.length_cons] at hq; omega) q'' (a :: t') rfl hd a t' rfl ha

theorem of_reverse_cons {α} (x : List α) (b : α) (r : List α) (h : x.reverse = b :: r) : x = r.reverse ++ [b] := by
  have := congrArg List.reverse h
  simpa using this

theorem lead_of_runeStart (b : Nat) (h1 : ¬ b < 0x80) (h2 : runeStart b = true) : 0xC0 ≤ b := by
  simp only [runeStart, isCont, Bool.not_eq_true', Bool.and_eq_false_iff, decide_eq_false_iff_not] at h2
  omega

/-- `FromPlain` strips nothing from valid UTF-8 -/
theorem valid_strip (p : Bytes) (hv : utf8Valid p = true) : stripPartial p = p := by
  unfold stripPartial
  split
  · rfl
  · rename_i b1 r1 hrev
    have e1 := of_reverse_cons p b1 r1 hrev
    split
    · rfl
    split
    · rename_i hlt hrs
      have := lead_fits _ r1.reverse [b1] rfl (by rw [← e1]; exact hv) b1 [] rfl (lead_of_runeStart b1 hlt hrs)
      have hf : fullRune [b1] = true := by simpa [fullRune] using this
      rw [if_pos hf]
    · split
      · rfl
      · rename_i b2 r2
        have e2 : p = r2.reverse ++ [b2, b1] := by rw [e1]; simp
        split
        · rfl
        split
        · rename_i hlt hrs
          have := lead_fits _ r2.reverse [b2, b1] rfl (by rw [← e2]; exact hv) b2 [b1] rfl (lead_of_runeStart b2 hlt hrs)
          have hf : fullRune [b2, b1] = true := by
            simp only [fullRune, Bool.or_eq_true, decide_eq_true_eq]
            left; simpa using this
          rw [if_pos hf]
        · split
          · rfl
          · rename_i b3 r3
            have e3 : p = r3.reverse ++ [b3, b2, b1] := by rw [e2]; simp
            split
            · rfl
            split
            · rename_i hlt hrs
              have := lead_fits _ r3.reverse [b3, b2, b1] rfl (by rw [← e3]; exact hv) b3 [b2, b1] rfl (lead_of_runeStart b3 hlt hrs)
              have hf : fullRune [b3, b2, b1] = true := by
                simp only [fullRune, Bool.or_eq_true, decide_eq_true_eq, List.length_nil]
                left; left; simpa using this
              rw [if_pos hf]
            · rfl


/-- when `FromPlain` strips, what it strips is the start of a well-formed multi-byte character -/
theorem strip_spec (x : Bytes) : stripPartial x = x ∨ ∃ s, x = stripPartial x ++ s ∧ U.truncSeq s = true := by
  unfold stripPartial
  split
  · left; rfl
  · rename_i b1 r1 hrev
    have e1 := of_reverse_cons x b1 r1 hrev
    split
    · left; rfl
    split
    · rename_i hlt hrs
      split
      · left; rfl
      · rename_i hf
        right
        refine ⟨[b1], e1, ?_⟩
        simp only [fullRune, leadSize, decide_eq_true_eq] at hf
        simp only [U.truncSeq, Bool.and_eq_true, decide_eq_true_eq]
        repeat' split at hf
        all_goals first | omega | (boolnorm; omega)
    · rename_i hlt1 hrs1
      have hc1 : isCont b1 = true := by simpa [runeStart] using hrs1
      split
      · left; rfl
      · rename_i b2 r2
        have e2 : x = r2.reverse ++ [b2, b1] := by rw [e1]; simp
        split
        · left; rfl
        split
        · rename_i hlt hrs
          split
          · left; rfl
          · rename_i hf
            right
            exact ⟨[b2, b1], e2, trunc2 b2 b1 hc1 (lead_of_runeStart b2 hlt hrs) (by simpa using hf)⟩
        · rename_i hlt2 hrs2
          have hc2 : isCont b2 = true := by simpa [runeStart] using hrs2
          split
          · left; rfl
          · rename_i b3 r3
            have e3 : x = r3.reverse ++ [b3, b2, b1] := by rw [e2]; simp
            split
            · left; rfl
            split
            · rename_i hlt hrs
              split
              · left; rfl
              · rename_i hf
                right
                exact ⟨[b3, b2, b1], e3, trunc3 b3 b2 b1 hc2 hc1 (lead_of_runeStart b3 hlt hrs) (by simpa using hf)⟩
            · left; rfl

/-- the cut-off start of a character at the very end is exactly what `FromPlain` strips -/
theorem strip_trunc (p s : Bytes) (h : U.truncSeq s = true) : stripPartial (p ++ s) = p := by
  match s, h with
  | [b0], h =>
    obtain ⟨h1, h2, h3⟩ := trunc1_inv b0 h
    simp [stripPartial, h1, h2, h3]
  | [b0, b1], h =>
    obtain ⟨g1, g2, h1, h2, h3⟩ := trunc2_inv b0 b1 h
    simp [stripPartial, g1, g2, h1, h2, h3]
  | [b0, b1, b2], h =>
    obtain ⟨f1, f2, g1, g2, h1, h2, h3⟩ := trunc3_inv b0 b1 b2 h
    simp [stripPartial, f1, f2, g1, g2, h1, h2, h3]
  | [], h => simp [U.truncSeq] at h
  | _ :: _ :: _ :: _ :: _, h => simp [U.truncSeq] at h

theorem ascii_valid (x : Bytes) (h : ∀ b ∈ x, b < 0x80) : utf8Valid x = true := by
  induction x with
  | nil => rfl
  | cons a r ih =>
    have ha := h a (List.mem_cons_self ..)
    rw [utf8Valid.eq_def]
    simp only [ha, ↓reduceIte]
    exact ih (fun b hb => h b (List.mem_cons_of_mem _ hb))

end Mime.Utf8
