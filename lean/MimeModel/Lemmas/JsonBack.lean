import MimeModel.Lemmas.JsonLeaf
/-
  Backward simulation, leaf level: what the scanner model accepts, the relaxed reference
  grammar (`Spec.J … false`) accepts with the same rest; and when the scanner gives up having
  inspected every byte, the reference says "input ended inside the construct" (`more`).
-/
namespace Mime.JsonBack
open Mime Mime.Json Mime.Spec Mime.JsonLeaf

/-- the scanner's result `res` on input `b` from state `s` agrees with the reference outcome -/
def Back {α : Type} (res : Option Bytes × PState) (s : PState) (b : Bytes) (spec : J.R α) : Prop :=
  match res with
  | (some r, s') => (∃ v, spec = .ok v r) ∧ s'.ib + r.length = s.ib + b.length ∧ r.length ≤ b.length
  | (none, s') => s'.ib ≤ s.ib + b.length ∧ (s'.ib = s.ib + b.length → spec = .more)

theorem Back.shift {α : Type} (res : Option Bytes × PState) (s : PState) (k : Nat) (b b' : Bytes) (spec : J.R α)
    (h : Back res (s.bump k) b' spec) (hb : b.length = k + b'.length) : Back res s b spec := by
  obtain ⟨o, s'⟩ := res
  cases o with
  | none =>
    obtain ⟨h1, h2⟩ := h
    simp only [bump_ib] at h1 h2
    exact ⟨by omega, fun e => h2 (by omega)⟩
  | some r =>
    obtain ⟨h1, h2, h3⟩ := h
    simp only [bump_ib] at h2
    exact ⟨h1, by omega, by omega⟩

/-- the same, for any two states whose counters differ by the bytes skipped -/
theorem Back.rebase {α : Type} (res : Option Bytes × PState) (s s0 : PState) (b b' : Bytes) (spec : J.R α)
    (h : Back res s0 b' spec) (hib : s0.ib + b'.length = s.ib + b.length) (hle : b'.length ≤ b.length) : Back res s b spec := by
  obtain ⟨o, s'⟩ := res
  cases o with
  | none =>
    obtain ⟨h1, h2⟩ := h
    exact ⟨by omega, fun e => h2 (by omega)⟩
  | some r =>
    obtain ⟨h1, h2, h3⟩ := h
    exact ⟨h1, by omega, by omega⟩

/-- a failure that did not inspect everything needs no justification -/
theorem Back.fail_early {α : Type} (s s' : PState) (b : Bytes) (spec : J.R α) (h : s'.ib < s.ib + b.length) :
    Back (none, s') s b spec := ⟨by omega, fun e => by omega⟩

theorem Back.fail_all {α : Type} (s s' : PState) (b : Bytes) (spec : J.R α) (h : s'.ib = s.ib + b.length)
    (hs : spec = .more) : Back (none, s') s b spec := ⟨by omega, fun _ => hs⟩

/-! ### strings -/

theorem hex_short : ∀ (l : Bytes) (k : Nat) (s : PState), l.length < k → l.all J.hexd = true →
    consumeString (.hex k) l s = (none, s.bump l.length) := by
  intro l
  induction l with
  | nil => intro k s _ _; rw [cs_nil]; simp
  | cons c cs ih =>
    intro k s hk hall
    simp only [List.all_cons, Bool.and_eq_true] at hall
    rw [cs_hex_ok k c cs s hall.1]
    simp only [List.length_cons] at hk
    rw [if_neg (by omega), ih (k - 1) s.bump (by omega) hall.2]
    simp [Nat.add_comm]

theorem hex_fail : ∀ (l : Bytes) (k : Nat) (s : PState), (l.take k).all J.hexd = false →
    ∃ s', consumeString (.hex k) l s = (none, s') ∧ s'.ib < s.ib + l.length := by
  intro l
  induction l with
  | nil => intro k s h; simp at h
  | cons c cs ih =>
    intro k s h
    cases k with
    | zero => simp at h
    | succ k =>
      simp only [List.take_succ_cons, List.all_cons] at h
      by_cases hc : J.hexd c = true
      · simp only [hc, Bool.true_and] at h
        rw [cs_hex_ok (k + 1) c cs s hc]
        by_cases hk : k + 1 ≤ 1
        · have : k = 0 := by omega
          subst this
          simp at h
        · rw [if_neg hk]
          obtain ⟨s', e1, e2⟩ := ih k s.bump h
          exact ⟨s', by simpa using e1, by simp only [bump_ib, List.length_cons] at e2 ⊢; omega⟩
      · have hc' : isXDigit c = false := by rw [isXDigit_eq_hexd]; simpa using hc
        rw [cs_hex_bad (k + 1) c cs s hc']
        exact ⟨s, rfl, by simp⟩

theorem short_of_not_four (l : Bytes) (h : ∀ (h1 h2 h3 h4 : Nat) (r : List Nat), l = h1 :: h2 :: h3 :: h4 :: r → False) :
    l.length < 4 := by
  match l with
  | [] => simp
  | [_] => simp
  | [_, _] => simp
  | [_, _, _] => simp
  | a :: b :: c :: d :: r => exact (h a b c d r rfl).elim

/-- **strings, backward** -/
theorem str_back (cs acc : Bytes) : ∀ (s : PState),
    Back (consumeString .norm cs s) s cs (J.str false cs acc) := by
  fun_induction J.str false cs acc with
  | case1 => intro s; rw [cs_nil]; exact Back.fail_all _ _ _ _ (by simp) rfl
  | case2 c cs acc hq =>
    intro s
    have hc : c = 0x22 := by simpa using hq
    subst hc
    rw [cs_norm_quote]
    exact ⟨⟨_, rfl⟩, by simp; omega, by simp⟩
  | case3 c acc hq hb =>
    intro s
    have hc : c = 0x5C := by simpa using hb
    subst hc
    rw [cs_norm_bs, cs_nil]
    exact Back.fail_all _ _ _ _ (by simp) rfl
  | case4 c acc hq hb e es he ih =>
    intro s
    have hc : c = 0x5C := by simpa using hb
    subst hc
    rw [cs_norm_bs, cs_esc_simple e es _ he]
    exact Back.shift _ s 2 _ es _ (by simpa using ih s.bump.bump) (by simp; omega)
  | case5 c acc hq hb e he hu h1 h2 h3 h4 r' hh ih =>
    intro s
    have hc : c = 0x5C := by simpa using hb
    subst hc
    have hue : e = 0x75 := by simpa using hu
    subst hue
    rw [cs_norm_bs, cs_esc_u, consumeString_hex4 h1 h2 h3 h4 r' _ hh]
    exact Back.shift _ s 6 _ r' _ (by simpa using ih (s.bump.bump.bump 4)) (by simp; omega)
  | case6 c acc hq hb e he hu h1 h2 h3 h4 r' hh =>
    intro s
    have hc : c = 0x5C := by simpa using hb
    subst hc
    have hue : e = 0x75 := by simpa using hu
    subst hue
    rw [cs_norm_bs, cs_esc_u]
    obtain ⟨s', e1, e2⟩ := hex_fail (h1 :: h2 :: h3 :: h4 :: r') 4 s.bump.bump (by simpa using hh)
    rw [e1]
    exact Back.fail_early _ _ _ _ (by simp only [bump_ib, List.length_cons] at e2 ⊢; omega)
  | case7 c acc hq hb e he hu l hl hall =>
    intro s
    have hc : c = 0x5C := by simpa using hb
    subst hc
    have hue : e = 0x75 := by simpa using hu
    subst hue
    rw [cs_norm_bs, cs_esc_u, hex_short l 4 _ (short_of_not_four l hl) hall]
    exact Back.fail_all _ _ _ _ (by simp; omega) rfl
  | case8 c acc hq hb e he hu l hl hall =>
    intro s
    have hc : c = 0x5C := by simpa using hb
    subst hc
    have hue : e = 0x75 := by simpa using hu
    subst hue
    rw [cs_norm_bs, cs_esc_u]
    have hlen := short_of_not_four l hl
    obtain ⟨s', e1, e2⟩ := hex_fail l 4 s.bump.bump (by rw [List.take_of_length_le (by omega)]; simpa using hall)
    rw [e1]
    exact Back.fail_early _ _ _ _ (by simp only [bump_ib, List.length_cons] at e2 ⊢; omega)
  | case9 c acc hq hb e es he hu =>
    intro s
    have hc : c = 0x5C := by simpa using hb
    subst hc
    rw [cs_norm_bs, cs_esc_bad e es _ (by simpa [isSimpleEsc] using he) (by simpa using hu)]
    exact Back.fail_early _ _ _ _ (by simp)
  | case10 c cs acc hq hb hctl => simp at hctl
  | case11 c cs acc hq hb hctl ih =>
    intro s
    have h1 : (c == 0x5C) = false := by simpa using hb
    have h2 : (c == 0x22) = false := by simpa using hq
    rw [cs_norm_other c cs s h1 h2]
    exact Back.shift _ s 1 _ cs _ (ih s.bump) (by simp; omega)

/-! ### literals -/

theorem lit_cons_same (x : Nat) (xs ys : Bytes) : J.lit (x :: xs) (x :: ys) = J.lit xs ys := by
  simp [J.lit, List.isPrefixOf]

theorem lit_back (w : Bytes) : ∀ (b : Bytes) (s : PState), Back (consumeConst b w s) s b (J.lit w b) := by
  induction w with
  | nil =>
    intro b s
    have : consumeConst b [] s = (some b, s) := by cases b <;> simp [consumeConst]
    rw [this]
    exact ⟨⟨(), by simp [J.lit]⟩, rfl, Nat.le_refl _⟩
  | cons x xs ih =>
    intro b s
    cases b with
    | nil =>
      simp only [consumeConst]
      exact Back.fail_all _ _ _ _ (by simp) (by simp [J.lit, List.isPrefixOf])
    | cons y ys =>
      rw [consumeConst]
      split
      · rename_i hy
        have : y = x := by simpa using hy
        subst this
        rw [lit_cons_same]
        exact Back.shift _ s 1 _ ys _ (ih ys s.bump) (by simp; omega)
      · exact Back.fail_early _ _ _ _ (by simp)

/-! ### numbers -/

theorem start_eq_int (b : Bytes) (s : PState) (h : b.head? ≠ some 0x2D) :
    consumeNumber .start b s = consumeNumber (.int false) b s := by
  cases b with
  | nil => rw [cn_nil, cn_nil]; rfl
  | cons c cs =>
    have hc : (c == 0x2D) = false := by simpa using h
    rw [consumeNumber, consumeNumber]
    simp only [numStep, hc, Bool.false_eq_true, ↓reduceIte, Bool.false_and, NMode.got]

theorem expSign_eq_exp (t : Bytes) (s : PState) (h : ∀ c ∈ t.head?, (c == 0x2B || c == 0x2D) = false) :
    consumeNumber .expSign t s = consumeNumber (.exp false) t s := by
  cases t with
  | nil => rw [cn_nil, cn_nil]; rfl
  | cons c cs =>
    have hc := h c (by simp)
    rw [consumeNumber, consumeNumber]
    simp only [numStep, hc, Bool.false_eq_true, ↓reduceIte, NMode.got]

theorem digit_not (c : Nat) (h : J.digit c = false) : isDigit c = false := by rw [isDigit_eq_digit]; exact h

/-- the digits of an exponent -/
theorem exp_tail (t : Bytes) (s : PState) : Back (consumeNumber (.exp false) t s) s t (J.digits1 t) := by
  obtain ⟨ds, e1, e2, e3, e4⟩ := digits_spec t
  unfold J.digits1
  generalize J.digits t = p at e1 e2 e4
  obtain ⟨n, r⟩ := p
  simp only at e1 e2 e4 ⊢
  subst e1
  rw [exp_run ds e3 false r s]
  cases ds with
  | nil =>
    simp only [List.length_nil] at e2
    subst e2
    simp only [List.isEmpty_nil, Bool.not_true, Bool.or_self, List.length_nil, bump_zero, List.nil_append, beq_self_eq_true, ↓reduceIte]
    cases r with
    | nil => rw [cn_nil]; exact Back.fail_all _ _ _ _ (by simp) (by simp)
    | cons c cs =>
      have hc := e4 c (by simp)
      rw [cn_stop (.exp false) c cs s (by simp [numStep, digit_not c hc])]
      exact Back.fail_early _ _ _ _ (by simp [NMode.got])
  | cons d ds =>
    simp only [List.length_cons] at e2
    have hn : (n == 0) = false := by simp; omega
    simp only [hn, Bool.false_eq_true, ↓reduceIte, List.isEmpty_cons, Bool.not_false, Bool.or_true]
    rw [stop_at (.exp true) rfl r _ (fun c hc => by simp [numStep, digit_not c (e4 c hc)])]
    exact ⟨⟨(), rfl⟩, by simp; omega, by simp; omega⟩

/-- the exponent part, entered in a mode that has seen a digit, in front of a non-digit -/
theorem exp_back (m : NMode) (hm : m = .int true ∨ m = .frac true) (r3 : Bytes) (s : PState)
    (hnd : ∀ c ∈ r3.head?, J.digit c = false) (hdot : m = .int true → ∀ c ∈ r3.head?, (c == 0x2E) = false) :
    Back (consumeNumber m r3 s) s r3 (J.expPart r3) := by
  have hgot : m.got = true := by rcases hm with rfl | rfl <;> rfl
  cases r3 with
  | nil =>
    rw [cn_nil]
    simp only [hgot, ↓reduceIte, J.expPart]
    exact ⟨⟨(), rfl⟩, rfl, Nat.le_refl _⟩
  | cons e t =>
    have hd := hnd e (by simp)
    by_cases he : J.isExpChar e = true
    · have hstep : numStep m e = some .expSign := by
        have he' : isE e = true := he
        have hdd := digit_not e hd
        rcases hm with rfl | rfl
        · have := hdot rfl e (by simp)
          simp [numStep, hdd, this, he']
        · simp [numStep, hdd, he']
      rw [cn_step m .expSign e t s hstep]
      simp only [J.expPart, he, ↓reduceIte]
      apply Back.shift _ s 1 _ t _ _ (by simp; omega)
      -- the optional sign
      cases t with
      | nil =>
        rw [cn_nil]
        simp only [NMode.got, Bool.false_eq_true, ↓reduceIte, J.dropSign]
        exact Back.fail_all _ _ _ _ (by simp) (by simp [J.digits1, J.digits])
      | cons sg t' =>
        by_cases hs : (sg == 0x2B || sg == 0x2D) = true
        · rw [cn_step .expSign (.exp false) sg t' _ (by simp only [numStep, hs, ↓reduceIte])]
          simp only [J.dropSign, hs, ↓reduceIte]
          exact Back.shift _ s.bump 1 _ t' _ (exp_tail t' _) (by simp; omega)
        · have hs' : (sg == 0x2B || sg == 0x2D) = false := by simpa using hs
          rw [expSign_eq_exp _ _ (fun c hc => by simp at hc; subst hc; exact hs')]
          simp only [J.dropSign, hs', Bool.false_eq_true, ↓reduceIte]
          exact exp_tail _ _
    · have he' : isE e = false := by rw [← isExpChar_eq]; simpa using he
      have hstep : numStep m e = none := by
        have hdd := digit_not e hd
        rcases hm with rfl | rfl
        · have := hdot rfl e (by simp)
          simp [numStep, hdd, this, he']
        · simp [numStep, hdd, he']
      rw [cn_stop m e t s hstep]
      simp only [hgot, ↓reduceIte, J.expPart, he, Bool.false_eq_true]
      exact ⟨⟨(), rfl⟩, rfl, Nat.le_refl _⟩

/-- `numRelaxed` after the integer digits -/
def relaxedTail (n1 : Nat) (r1 : Bytes) : J.R Unit :=
  match r1 with
  | 0x2E :: r2 =>
    if n1 + (J.digits r2).1 == 0 then (if (J.digits r2).2.isEmpty then .more else .bad) else J.expPart (J.digits r2).2
  | _ => if n1 == 0 then (if r1.isEmpty then .more else .bad) else J.expPart r1

theorem numRelaxed_eq (b : Bytes) :
    J.numRelaxed b = relaxedTail (J.digits (J.dropMinus b)).1 (J.digits (J.dropMinus b)).2 := by
  unfold J.numRelaxed relaxedTail
  simp only []
  generalize J.digits (J.dropMinus b) = p
  obtain ⟨n1, r1⟩ := p
  simp only
  split <;> simp_all

theorem relaxedTail_dot (n1 : Nat) (r2 : Bytes) : relaxedTail n1 (0x2E :: r2) =
    if n1 + (J.digits r2).1 == 0 then (if (J.digits r2).2.isEmpty then .more else .bad) else J.expPart (J.digits r2).2 := rfl

theorem relaxedTail_nodot (n1 : Nat) (r1 : Bytes) (h : ∀ c ∈ r1.head?, (c == 0x2E) = false) : relaxedTail n1 r1 =
    if n1 == 0 then (if r1.isEmpty then .more else .bad) else J.expPart r1 := by
  unfold relaxedTail
  split
  · have := h 0x2E (by simp)
    simp at this
  · rfl

/-- a mode that has seen no digit, in front of a non-digit (and, for `int`, not a dot): the number fails -/
theorem no_digit_back (m : NMode) (hm : m = .int false ∨ m = .frac false) (r3 : Bytes) (s : PState)
    (hnd : ∀ c ∈ r3.head?, J.digit c = false) (hdot : m = .int false → ∀ c ∈ r3.head?, (c == 0x2E) = false) :
    Back (consumeNumber m r3 s) s r3 (if r3.isEmpty then (.more : J.R Unit) else .bad) := by
  have hgot : m.got = false := by rcases hm with rfl | rfl <;> rfl
  cases r3 with
  | nil => rw [cn_nil]; simp only [hgot]; exact Back.fail_all _ _ _ _ (by simp) (by simp)
  | cons c cs =>
    have hdd := digit_not c (hnd c (by simp))
    have hstep : numStep m c = none := by
      rcases hm with rfl | rfl
      · have := hdot rfl c (by simp)
        simp [numStep, hdd, this]
      · simp [numStep, hdd]
    rw [cn_stop m c cs s hstep]
    simp only [hgot]
    exact Back.fail_early _ _ _ _ (by simp)

theorem int_back (b1 : Bytes) (s : PState) :
    Back (consumeNumber (.int false) b1 s) s b1 (relaxedTail (J.digits b1).1 (J.digits b1).2) := by
  obtain ⟨ds1, e1, e2, e3, e4⟩ := digits_spec b1
  generalize J.digits b1 = p at e1 e2 e4 ⊢
  obtain ⟨n1, r1⟩ := p
  simp only at e1 e2 e4 ⊢
  subst e1
  rw [int_run ds1 e3 false r1 s]
  apply Back.shift _ s ds1.length _ r1 _ _ (by simp)
  simp only [Bool.false_or]
  -- is there a fraction
  by_cases hdotc : ∃ r2, r1 = 0x2E :: r2
  · obtain ⟨r2, rfl⟩ := hdotc
    rw [relaxedTail_dot]
    obtain ⟨ds2, f1, f2, f3, f4⟩ := digits_spec r2
    generalize J.digits r2 = q at f1 f2 f4 ⊢
    obtain ⟨n2, r3⟩ := q
    simp only at f1 f2 f4 ⊢
    subst f1
    rw [cn_step (.int (!ds1.isEmpty)) (.frac (!ds1.isEmpty)) 0x2E _ _ (by simp [numStep, isDigit]),
      frac_run ds2 f3 _ r3 _]
    have key : Back (consumeNumber (.frac (!ds1.isEmpty || !ds2.isEmpty)) r3 (((s.bump ds1.length).bump).bump ds2.length))
        (((s.bump ds1.length).bump).bump ds2.length) r3
        (if (n1 + n2 == 0) = true then (if r3.isEmpty = true then (.more : J.R Unit) else .bad) else J.expPart r3) := by
      by_cases hz : n1 + n2 = 0
      · have h1 : ds1 = [] := by cases ds1 <;> simp_all <;> omega
        have h2 : ds2 = [] := by cases ds2 <;> simp_all <;> omega
        subst h1; subst h2
        simp only [hz, beq_self_eq_true, ↓reduceIte, List.isEmpty_nil, Bool.not_true, Bool.or_self]
        exact no_digit_back (.frac false) (Or.inr rfl) r3 _ f4 (fun h => by cases h)
      · have hg : (!ds1.isEmpty || !ds2.isEmpty) = true := by
          cases ds1 <;> cases ds2 <;> simp_all
        have hz' : (n1 + n2 == 0) = false := by simpa using hz
        simp only [hz', Bool.false_eq_true, ↓reduceIte, hg]
        exact exp_back (.frac true) (Or.inr rfl) r3 _ f4 (fun h => by cases h)
    exact Back.rebase _ _ _ _ r3 _ key (by simp; omega) (by simp; omega)
  · -- no fraction
    have hnd : ∀ c ∈ r1.head?, (c == 0x2E) = false := by
      intro c hc
      cases r1 with
      | nil => simp at hc
      | cons x xs =>
        simp at hc; subst hc
        by_cases hx : x = 0x2E
        · exact (hdotc ⟨xs, by rw [hx]⟩).elim
        · simpa using hx
    rw [relaxedTail_nodot n1 r1 hnd]
    by_cases hz : n1 = 0
    · have h1 : ds1 = [] := by cases ds1 <;> simp_all
      subst h1
      simp only [hz, beq_self_eq_true, ↓reduceIte, List.isEmpty_nil, Bool.not_true]
      exact no_digit_back (.int false) (Or.inl rfl) r1 _ e4 (fun _ => hnd)
    · have hg : (!ds1.isEmpty) = true := by cases ds1 <;> simp_all
      have hz' : (n1 == 0) = false := by simpa using hz
      simp only [hz', Bool.false_eq_true, ↓reduceIte, hg]
      exact exp_back (.int true) (Or.inl rfl) r1 _ e4 (fun _ => hnd)

/-- **numbers, backward** -/
theorem num_back (b : Bytes) (s : PState) : Back (consumeNumber .start b s) s b (J.numRelaxed b) := by
  rw [numRelaxed_eq]
  by_cases hm : ∃ b1, b = 0x2D :: b1
  · obtain ⟨b1, rfl⟩ := hm
    rw [cn_step .start (.int false) 0x2D b1 s (by simp [numStep])]
    simp only [J.dropMinus]
    exact Back.shift _ s 1 _ b1 _ (int_back b1 _) (by simp; omega)
  · have hh : b.head? ≠ some 0x2D := by
      intro h
      cases b with
      | nil => simp at h
      | cons x xs => simp at h; exact hm ⟨xs, by rw [h]⟩
    have hd : J.dropMinus b = b := by
      unfold J.dropMinus
      split
      · rename_i r; exact (hm ⟨r, rfl⟩).elim
      · rfl
    rw [start_eq_int b s hh, hd]
    exact int_back b s

end Mime.JsonBack
