import MimeModel.Model.Tree
/-
  Generic lemmas about the first-match walk, for every tree and every verdict function.
-/
namespace Mime.Tree
variable {α : Type}

theorem walk_eq (acc : α → Bool) (a : α) (cs : List (Tree α)) :
    walk acc (.node a cs) = a :: walkList acc cs := by simp [walk]

theorem walk_ne_nil (acc : α → Bool) (t : Tree α) : walk acc t ≠ [] := by
  cases t; simp [walk]

theorem walk_head (acc : α → Bool) (t : Tree α) : (walk acc t).head? = some t.info := by
  cases t; simp [walk, info]

/-- every node below the starting node on the walked path was accepted, and
    `walkList` only returns nodes of the forest -/
theorem walk_accepted (acc : α → Bool) :
    (∀ t : Tree α, ∀ i ∈ (walk acc t).tail, acc i = true) ∧
    (∀ cs : List (Tree α), ∀ i ∈ walkList acc cs, acc i = true) := by
  have key : ∀ n : Nat,
      (∀ t : Tree α, sizeOf t ≤ n → ∀ i ∈ (walk acc t).tail, acc i = true) ∧
      (∀ cs : List (Tree α), sizeOf cs ≤ n → ∀ i ∈ walkList acc cs, acc i = true) := by
    intro n
    induction n with
    | zero =>
      constructor
      · intro t h; cases t; simp at h
      · intro cs h
        cases cs with
        | nil => intro i hi; simp [walkList] at hi
        | cons c cs => simp at h
    | succ n ih =>
      constructor
      · intro t h i hi
        cases t with
        | node a cs =>
          simp only [walk, List.tail_cons] at hi
          simp at h
          exact ih.2 cs (by omega) i hi
      · intro cs h i hi
        cases cs with
        | nil => simp [walkList] at hi
        | cons c cs =>
          simp only [walkList] at hi
          simp at h
          split at hi
          · rename_i hc
            cases c with
            | node a ds =>
              simp only [walk, List.mem_cons] at hi
              cases hi with
              | inl h1 => subst h1; simpa [info] using hc
              | inr h2 =>
                simp at h
                exact ih.2 ds (by omega) i h2
          · exact ih.2 cs (by omega) i hi
  exact ⟨fun t => (key (sizeOf t)).1 t (Nat.le_refl _), fun cs => (key (sizeOf cs)).2 cs (Nat.le_refl _)⟩

theorem walkList_ne_nil_of_exists (acc : α → Bool) (cs : List (Tree α))
    (h : ∃ c ∈ cs, acc c.info = true) : walkList acc cs ≠ [] := by
  induction cs with
  | nil => obtain ⟨c, hc, _⟩ := h; cases hc
  | cons c cs ih =>
    simp only [walkList]
    split
    · exact walk_ne_nil acc c
    · rename_i hn
      apply ih
      obtain ⟨d, hd, ha⟩ := h
      cases hd with
      | head => exact absurd ha hn
      | tail _ hd' => exact ⟨d, hd', ha⟩

theorem walkList_eq_nil_of_none (acc : α → Bool) (cs : List (Tree α))
    (h : ∀ c ∈ cs, acc c.info = false) : walkList acc cs = [] := by
  induction cs with
  | nil => simp [walkList]
  | cons c cs ih =>
    simp only [walkList]
    have hc := h c (List.mem_cons_self ..)
    simp only [hc, Bool.false_eq_true, ↓reduceIte]
    exact ih (fun d hd => h d (List.mem_cons_of_mem _ hd))

/-- the walked path only contains nodes of the tree -/
theorem walk_sub_flatten (acc : α → Bool) :
    (∀ t : Tree α, ∀ i ∈ walk acc t, i ∈ flatten t) ∧
    (∀ cs : List (Tree α), ∀ i ∈ walkList acc cs, i ∈ flattenList cs) := by
  have key : ∀ n : Nat,
      (∀ t : Tree α, sizeOf t ≤ n → ∀ i ∈ walk acc t, i ∈ flatten t) ∧
      (∀ cs : List (Tree α), sizeOf cs ≤ n → ∀ i ∈ walkList acc cs, i ∈ flattenList cs) := by
    intro n
    induction n with
    | zero =>
      constructor
      · intro t h; cases t; simp at h
      · intro cs h
        cases cs with
        | nil => intro i hi; simp [walkList] at hi
        | cons c cs => simp at h
    | succ n ih =>
      constructor
      · intro t h i hi
        cases t with
        | node a cs =>
          simp only [walk, List.mem_cons] at hi
          simp only [flatten, List.mem_cons]
          simp at h
          cases hi with
          | inl h1 => exact Or.inl h1
          | inr h2 => exact Or.inr (ih.2 cs (by omega) i h2)
      · intro cs h i hi
        cases cs with
        | nil => simp [walkList] at hi
        | cons c cs =>
          simp only [walkList] at hi
          simp only [flattenList, List.mem_append]
          simp at h
          split at hi
          · exact Or.inl (ih.1 c (by omega) i hi)
          · exact Or.inr (ih.2 cs (by omega) i hi)
  exact ⟨fun t => (key (sizeOf t)).1 t (Nat.le_refl _), fun cs => (key (sizeOf cs)).2 cs (Nat.le_refl _)⟩

end Mime.Tree
