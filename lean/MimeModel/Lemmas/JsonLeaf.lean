import MimeModel.Model.Json
import MimeModel.Spec.Json
/-
  Leaf-level lemmas relating the scanner model (Model/Json.lean) to the reference
  recogniser (Spec/Json.lean): white space, literals, strings, numbers.
-/
namespace Mime.JsonLeaf
open Mime Mime.Json Mime.Spec

theorem isSpace_eq_ws (c : Nat) : isSpace c = J.ws c := by
  unfold isSpace J.ws
  cases (c == 0x20) <;> cases (c == 0x09) <;> cases (c == 0x0A) <;> cases (c == 0x0D) <;> rfl

/-- `consumeSpace` skips exactly the white space the reference `skipWs` skips, and counts it -/
theorem consumeSpace_spec (b : Bytes) (s : PState) :
    consumeSpace b s = (J.skipWs b, s.bump (b.length - (J.skipWs b).length)) := by
  induction b generalizing s with
  | nil => simp [consumeSpace, J.skipWs, PState.bump]
  | cons c cs ih =>
    simp only [consumeSpace, J.skipWs, isSpace_eq_ws]
    split
    · rw [ih]
      have hle : (J.skipWs cs).length ≤ cs.length := by
        clear ih
        induction cs with
        | nil => simp [J.skipWs]
        | cons d ds ihd => simp only [J.skipWs]; split <;> simp <;> omega
      simp only [PState.bump, List.length_cons, Prod.mk.injEq, true_and]
      congr 1; omega
    · simp [PState.bump]

theorem skipWs_length_le (b : Bytes) : (J.skipWs b).length ≤ b.length := by
  induction b with
  | nil => simp [J.skipWs]
  | cons d ds ihd => simp only [J.skipWs]; split <;> simp <;> omega

theorem skipWs_idem (b : Bytes) : J.skipWs (J.skipWs b) = J.skipWs b := by
  induction b with
  | nil => rfl
  | cons d ds ih =>
    simp only [J.skipWs]
    split
    · exact ih
    · rename_i h; simp [J.skipWs, h]

theorem skipWs_head (b : Bytes) (c : Nat) (cs : Bytes) (h : J.skipWs b = c :: cs) : J.ws c = false := by
  induction b with
  | nil => simp [J.skipWs] at h
  | cons d ds ih =>
    simp only [J.skipWs] at h
    split at h
    · exact ih h
    · rename_i hd
      simp only [List.cons.injEq] at h
      rw [← h.1]; simpa using hd

@[simp] theorem bump_ib (s : PState) (k : Nat) : (s.bump k).ib = s.ib + k := rfl
@[simp] theorem bump_bump (s : PState) (a b : Nat) : (s.bump a).bump b = s.bump (a + b) := by
  simp [PState.bump, Nat.add_assoc]
@[simp] theorem bump_zero (s : PState) : s.bump 0 = s := by cases s; rfl

/-- `consumeConst` on a word that is a prefix of the input -/
theorem consumeConst_ok (w : Bytes) : ∀ (b r : Bytes) (s : PState), b = w ++ r →
    consumeConst b w s = (some r, s.bump w.length) := by
  induction w with
  | nil =>
    intro b r s h
    simp only [List.nil_append] at h
    subst h
    cases b <;> simp [consumeConst]
  | cons x xs ih =>
    intro b r s h
    subst h
    simp only [List.cons_append, consumeConst, beq_self_eq_true, ↓reduceIte]
    rw [ih (xs ++ r) r s.bump rfl]
    simp [Nat.add_comm]

theorem lit_ok_iff (w b r : Bytes) (h : J.lit w b = .ok () r) : b = w ++ r := by
  unfold J.lit at h
  split at h
  · rename_i hp
    simp only [J.R.ok.injEq, true_and] at h
    rw [List.isPrefixOf_iff_prefix] at hp
    obtain ⟨t, ht⟩ := hp
    subst ht; subst h; simp
  · split at h <;> cases h

end Mime.JsonLeaf

namespace Mime.JsonLeaf
open Mime Mime.Json Mime.Spec

theorem isXDigit_eq_hexd (c : Nat) : isXDigit c = J.hexd c := rfl
theorem isDigit_eq_digit (c : Nat) : isDigit c = J.digit c := rfl

/-! one-step unfoldings of `consumeString` -/
theorem cs_norm_bs (cs : Bytes) (s : PState) : consumeString .norm (0x5C :: cs) s = consumeString .esc cs s.bump := by
  rw [consumeString]; simp
theorem cs_norm_quote (cs : Bytes) (s : PState) : consumeString .norm (0x22 :: cs) s = (some cs, s.bump) := by
  rw [consumeString]; simp
theorem cs_norm_other (c : Nat) (cs : Bytes) (s : PState) (h1 : (c == 0x5C) = false) (h2 : (c == 0x22) = false) :
    consumeString .norm (c :: cs) s = consumeString .norm cs s.bump := by
  rw [consumeString]; simp [h1, h2]
theorem cs_esc_simple (e : Nat) (cs : Bytes) (s : PState) (h : isSimpleEsc e = true) :
    consumeString .esc (e :: cs) s = consumeString .norm cs s.bump := by
  rw [consumeString]; simp [h]
theorem cs_esc_u (cs : Bytes) (s : PState) : consumeString .esc (0x75 :: cs) s = consumeString (.hex 4) cs s.bump := by
  rw [consumeString]; simp [isSimpleEsc]
theorem cs_esc_bad (e : Nat) (cs : Bytes) (s : PState) (h : isSimpleEsc e = false) (hu : (e == 0x75) = false) :
    consumeString .esc (e :: cs) s = (none, s) := by
  rw [consumeString]; simp [h, hu]
theorem cs_hex_ok (k c : Nat) (cs : Bytes) (s : PState) (h : isXDigit c = true) :
    consumeString (.hex k) (c :: cs) s =
      if k ≤ 1 then consumeString .norm cs s.bump else consumeString (.hex (k - 1)) cs s.bump := by
  rw [consumeString]; simp [h]
theorem cs_hex_bad (k c : Nat) (cs : Bytes) (s : PState) (h : isXDigit c = false) :
    consumeString (.hex k) (c :: cs) s = (none, s) := by
  rw [consumeString]; simp [h]
theorem cs_nil (m : SMode) (s : PState) : consumeString m [] s = (none, s) := by
  rw [consumeString]

/-- four hex digits in `hex 4` mode -/
theorem consumeString_hex4 (h1 h2 h3 h4 : Nat) (r : Bytes) (s : PState)
    (hh : (J.hexd h1 && J.hexd h2 && J.hexd h3 && J.hexd h4) = true) :
    consumeString (.hex 4) (h1 :: h2 :: h3 :: h4 :: r) s = consumeString .norm r (s.bump 4) := by
  simp only [Bool.and_eq_true] at hh
  obtain ⟨⟨⟨a, b⟩, c⟩, d⟩ := hh
  rw [cs_hex_ok 4 h1 _ _ a]; simp only [show ¬ (4 ≤ 1) by omega, ↓reduceIte]
  rw [cs_hex_ok 3 h2 _ _ b]; simp only [show ¬ (3 ≤ 1) by omega, ↓reduceIte]
  rw [cs_hex_ok 2 h3 _ _ c]; simp only [show ¬ (2 ≤ 1) by omega, ↓reduceIte]
  rw [cs_hex_ok 1 h4 _ _ d]; simp

/-- **strings, forward**: a string body the reference recogniser accepts (strict or relaxed)
    is consumed by the scanner up to and including the closing quote, every byte counted -/
theorem str_forward (strict : Bool) (cs acc : Bytes) : ∀ (body r : Bytes) (s : PState),
    J.str strict cs acc = .ok body r →
    consumeString .norm cs s = (some r, s.bump (cs.length - r.length)) ∧ r.length < cs.length := by
  fun_induction J.str strict cs acc with
  | case1 => intro body r s h; cases h
  | case2 c cs acc hq =>
    intro body r s h
    simp only [J.R.ok.injEq] at h
    obtain ⟨_, rfl⟩ := h
    have hc : c = 0x22 := by simpa using hq
    subst hc
    rw [cs_norm_quote]; simp
  | case3 => intro body r s h; cases h
  | case4 c acc hq hb e es he ih =>
    intro body r s h
    have hc : c = 0x5C := by simpa using hb
    subst hc
    obtain ⟨h1, h2⟩ := ih body r s.bump.bump h
    rw [cs_norm_bs, cs_esc_simple e es _ he, h1]
    simp only [List.length_cons, bump_bump, Prod.mk.injEq, true_and]
    exact ⟨by congr 1; omega, by omega⟩
  | case5 c acc hq hb e he hu h1 h2 h3 h4 r' hh ih =>
    intro body r s h
    have hc : c = 0x5C := by simpa using hb
    subst hc
    have hue : e = 0x75 := by simpa using hu
    subst hue
    obtain ⟨i1, i2⟩ := ih body r (s.bump.bump.bump 4) h
    rw [cs_norm_bs, cs_esc_u, consumeString_hex4 h1 h2 h3 h4 r' _ hh, i1]
    simp only [List.length_cons, bump_bump, Prod.mk.injEq, true_and]
    exact ⟨by congr 1; omega, by omega⟩
  | case6 => intro body r s h; cases h
  | case7 => intro body r s h; cases h
  | case8 => intro body r s h; cases h
  | case9 => intro body r s h; cases h
  | case10 => intro body r s h; cases h
  | case11 c cs acc hq hb hctl ih =>
    intro body r s h
    obtain ⟨i1, i2⟩ := ih body r s.bump h
    have h1 : (c == 0x5C) = false := by simpa using hb
    have h2 : (c == 0x22) = false := by simpa using hq
    rw [cs_norm_other c cs s h1 h2, i1]
    simp only [List.length_cons, bump_bump, Prod.mk.injEq, true_and]
    exact ⟨by congr 1; omega, by omega⟩

end Mime.JsonLeaf

namespace Mime.JsonLeaf
open Mime Mime.Json Mime.Spec

/-! ### numbers -/

theorem cn_nil (m : NMode) (s : PState) : consumeNumber m [] s = (if m.got then some [] else none, s) := by
  rw [consumeNumber]
theorem cn_step (m m' : NMode) (c : Nat) (cs : Bytes) (s : PState) (h : numStep m c = some m') :
    consumeNumber m (c :: cs) s = consumeNumber m' cs s.bump := by
  rw [consumeNumber]; simp [h]
theorem cn_stop (m : NMode) (c : Nat) (cs : Bytes) (s : PState) (h : numStep m c = none) :
    consumeNumber m (c :: cs) s = (if m.got then some (c :: cs) else none, s) := by
  rw [consumeNumber]; simp [h]

/-- what `J.digits` computes -/
theorem digits_spec (b : Bytes) : ∃ ds, b = ds ++ (J.digits b).2 ∧ ds.length = (J.digits b).1 ∧
    (∀ d ∈ ds, J.digit d = true) ∧ (∀ c ∈ (J.digits b).2.head?, J.digit c = false) := by
  induction b with
  | nil => exact ⟨[], by simp [J.digits]⟩
  | cons c cs ih =>
    simp only [J.digits]
    split
    · rename_i hd
      obtain ⟨ds, h1, h2, h3, h4⟩ := ih
      refine ⟨c :: ds, ?_, ?_, ?_, ?_⟩
      · simp only [List.cons_append]; congr 1
      · simp [h2]
      · intro d hd'
        cases hd' with
        | head => exact hd
        | tail _ h' => exact h3 d h'
      · exact h4
    · rename_i hd
      exact ⟨[], by simp, by simp, by simp, by simpa using hd⟩

/-- a run of digits in one of the three digit-consuming modes -/
theorem int_run (ds : Bytes) (hds : ∀ d ∈ ds, J.digit d = true) : ∀ (g : Bool) (r : Bytes) (s : PState),
    consumeNumber (.int g) (ds ++ r) s = consumeNumber (.int (g || !ds.isEmpty)) r (s.bump ds.length) := by
  induction ds with
  | nil => intro g r s; simp
  | cons d ds ih =>
    intro g r s
    have hd : isDigit d = true := hds d (List.mem_cons_self ..)
    rw [List.cons_append, cn_step (.int g) (.int true) d _ s (by simp [numStep, hd])]
    rw [ih (fun x hx => hds x (List.mem_cons_of_mem _ hx))]
    simp [Nat.add_comm]

theorem frac_run (ds : Bytes) (hds : ∀ d ∈ ds, J.digit d = true) : ∀ (g : Bool) (r : Bytes) (s : PState),
    consumeNumber (.frac g) (ds ++ r) s = consumeNumber (.frac (g || !ds.isEmpty)) r (s.bump ds.length) := by
  induction ds with
  | nil => intro g r s; simp
  | cons d ds ih =>
    intro g r s
    have hd : isDigit d = true := hds d (List.mem_cons_self ..)
    rw [List.cons_append, cn_step (.frac g) (.frac true) d _ s (by simp [numStep, hd])]
    rw [ih (fun x hx => hds x (List.mem_cons_of_mem _ hx))]
    simp [Nat.add_comm]

theorem exp_run (ds : Bytes) (hds : ∀ d ∈ ds, J.digit d = true) : ∀ (g : Bool) (r : Bytes) (s : PState),
    consumeNumber (.exp g) (ds ++ r) s = consumeNumber (.exp (g || !ds.isEmpty)) r (s.bump ds.length) := by
  induction ds with
  | nil => intro g r s; simp
  | cons d ds ih =>
    intro g r s
    have hd : isDigit d = true := hds d (List.mem_cons_self ..)
    rw [List.cons_append, cn_step (.exp g) (.exp true) d _ s (by simp [numStep, hd])]
    rw [ih (fun x hx => hds x (List.mem_cons_of_mem _ hx))]
    simp [Nat.add_comm]

/-- the byte after a number in a document: not something the liberal scanner would swallow -/
def Delim (r : Bytes) : Prop := ∀ c ∈ r.head?, J.digit c = false ∧ c ≠ 0x2E ∧ isE c = false

/-- stopping in a mode whose `got` flag is set, in front of a delimiter -/
theorem stop_at (m : NMode) (hm : m.got = true) (r : Bytes) (s : PState)
    (hr : ∀ c ∈ r.head?, numStep m c = none) : consumeNumber m r s = (some r, s) := by
  cases r with
  | nil => rw [cn_nil]; simp [hm]
  | cons c cs => rw [cn_stop m c cs s (hr c (by simp))]; simp [hm]

end Mime.JsonLeaf

namespace Mime.JsonLeaf
open Mime Mime.Json Mime.Spec

theorem isExpChar_eq (c : Nat) : J.isExpChar c = isE c := rfl

theorem expChar_not_digit (e : Nat) (h : J.isExpChar e = true) : J.digit e = false ∧ (e == 0x2E) = false ∧ (e == 0x2D) = false := by
  simp only [J.isExpChar, Bool.or_eq_true, beq_iff_eq] at h
  rcases h with h | h <;> subst h <;> decide

theorem digits1_ok (t r : Bytes) (h : J.digits1 t = .ok () r) :
    ∃ d ds, t = (d :: ds) ++ r ∧ (∀ x ∈ d :: ds, J.digit x = true) ∧ (∀ c ∈ r.head?, J.digit c = false) := by
  unfold J.digits1 at h
  obtain ⟨ds, h1, h2, h3, h4⟩ := digits_spec t
  generalize hd : J.digits t = p at h h1 h2 h4
  obtain ⟨n, r'⟩ := p
  simp only at h h1 h2 h4
  split at h
  · split at h <;> cases h
  · rename_i hn
    simp only [J.R.ok.injEq, true_and] at h
    subst h
    cases ds with
    | nil => simp at h2; simp [← h2] at hn
    | cons d ds => exact ⟨d, ds, h1, h3, h4⟩

/-- optional exponent, from a mode in which the mantissa has digits -/
theorem expPart_forward (m : NMode) (hm : m = .int true ∨ m = .frac true) (r2 r : Bytes) (s : PState)
    (h : J.expPart r2 = .ok () r) (hd : Delim r) :
    consumeNumber m r2 s = (some r, s.bump (r2.length - r.length)) ∧ r.length ≤ r2.length := by
  have hgot : m.got = true := by rcases hm with rfl | rfl <;> rfl
  cases r2 with
  | nil =>
    simp only [J.expPart, J.R.ok.injEq, true_and] at h
    subst h
    rw [cn_nil]; simp [hgot]
  | cons e t =>
    simp only [J.expPart] at h
    split at h
    · rename_i he
      obtain ⟨hnd, hndot, _⟩ := expChar_not_digit e he
      have hstep : numStep m e = some .expSign := by
        have hE : isE e = true := he
        rcases hm with rfl | rfl <;> simp [numStep, isDigit_eq_digit, hnd, hndot, hE]
      rw [cn_step m .expSign e t s hstep]
      obtain ⟨d, ds, ht, hds, hr⟩ := digits1_ok _ r h
      have hdd : J.digit d = true := hds d (List.mem_cons_self ..)
      -- after the optional sign we are at `d :: ds ++ r`
      have main : ∀ (mm : NMode) (st : PState), (mm = .expSign ∨ mm = .exp false) →
          consumeNumber mm ((d :: ds) ++ r) st = (some r, st.bump (d :: ds).length) := by
        intro mm st hmm
        have hs1 : numStep mm d = some (.exp true) := by
          have hne1 : (d == 0x2B) = false := by
            cases hq : (d == 0x2B) with
            | false => rfl
            | true => have : d = 0x2B := by simpa using hq
                      subst this; simp [J.digit] at hdd
          have hne2 : (d == 0x2D) = false := by
            cases hq : (d == 0x2D) with
            | false => rfl
            | true => have : d = 0x2D := by simpa using hq
                      subst this; simp [J.digit] at hdd
          rcases hmm with rfl | rfl <;> simp [numStep, isDigit_eq_digit, hdd, hne1, hne2]
        rw [List.cons_append, cn_step mm (.exp true) d _ st hs1]
        rw [exp_run ds (fun x hx => hds x (List.mem_cons_of_mem _ hx))]
        rw [stop_at (.exp (true || !ds.isEmpty)) (by simp [NMode.got]) r _ (by
          intro c hc
          have := hr c hc
          simp [numStep, isDigit_eq_digit, this])]
        simp [Nat.add_comm]
      -- sign or no sign
      cases t with
      | nil => simp [J.dropSign] at ht
      | cons sg t' =>
        simp only [J.dropSign] at ht
        split at ht
        · rename_i hsg
          have hs2 : numStep .expSign sg = some (.exp false) := by
            simp only [numStep, hsg, ↓reduceIte]
          rw [cn_step .expSign (.exp false) sg t' _ hs2, ht, main (.exp false) _ (Or.inr rfl)]
          simp only [List.length_cons, List.length_append, bump_bump, Prod.mk.injEq, true_and]
          exact ⟨by congr 1; omega, by omega⟩
        · rw [ht, main .expSign _ (Or.inl rfl)]
          have hl : (sg :: t').length = ((d :: ds) ++ r).length := by rw [ht]
          simp only [List.length_cons, List.length_append] at hl ⊢
          simp only [bump_bump, Prod.mk.injEq, true_and]
          exact ⟨by congr 1; omega, by omega⟩
    · rename_i he
      simp only [J.R.ok.injEq, true_and] at h
      subst h
      have hde := hd e (by simp)
      have hE : isE e = false := hde.2.2
      have hstep : numStep m e = none := by
        have h2e : (e == 0x2E) = false := by simpa using hde.2.1
        rcases hm with rfl | rfl <;> simp [numStep, isDigit_eq_digit, hde.1, h2e, hE]
      rw [cn_stop m e t s hstep]
      simp [hgot]

end Mime.JsonLeaf

namespace Mime.JsonLeaf
open Mime Mime.Json Mime.Spec

/-- `fracStrict` from mode `int true`: afterwards the scanner is in a mode with digits seen -/
theorem fracStrict_forward (r1 r2 : Bytes) (s : PState) (h : J.fracStrict r1 = .ok () r2) :
    ∃ m, (m = .int true ∨ m = .frac true) ∧ r2.length ≤ r1.length ∧
      ∀ (k : NMode → Bytes → PState → Option Bytes × PState),
        consumeNumber (.int true) r1 s = consumeNumber m r2 (s.bump (r1.length - r2.length)) := by
  cases r1 with
  | nil =>
    simp only [J.fracStrict, J.R.ok.injEq, true_and] at h
    subst h
    exact ⟨.int true, Or.inl rfl, by simp, fun _ => by simp⟩
  | cons c t =>
    by_cases hc : c = 0x2E
    · subst hc
      simp only [J.fracStrict] at h
      obtain ⟨d, ds, ht, hds, hr⟩ := digits1_ok t r2 h
      refine ⟨.frac true, Or.inr rfl, by rw [ht]; simp; omega, fun _ => ?_⟩
      rw [cn_step (.int true) (.frac true) 0x2E t s (by simp [numStep, isDigit])]
      rw [ht, frac_run (d :: ds) hds]
      simp only [List.length_cons, List.length_append, Bool.true_or, bump_bump]
      congr 1; congr 1; omega
    · have : J.fracStrict (c :: t) = .ok () (c :: t) := by
        simp only [J.fracStrict]
        split
        · rename_i heq; simp only [List.cons.injEq] at heq; exact absurd heq.1 hc
        · rfl
      rw [this] at h
      simp only [J.R.ok.injEq, true_and] at h
      subst h
      exact ⟨.int true, Or.inl rfl, by simp, fun _ => by simp⟩

/-- **numbers, forward**: an RFC 8259 number followed by a delimiter is consumed exactly -/
theorem numStrict_forward (b r : Bytes) (s : PState) (h : J.numStrict b = .ok () r) (hd : Delim r) :
    consumeNumber .start b s = (some r, s.bump (b.length - r.length)) ∧ r.length < b.length := by
  -- the integer part: both with and without a leading minus we reach `int true` after the first digit
  have core : ∀ (c : Nat) (cs : Bytes) (st : PState) (m0 : NMode), (m0 = .start ∨ m0 = .int false) →
      J.digit c = true →
      J.andThen (J.fracStrict (if c == 0x30 then cs else (J.digits cs).2)) J.expPart = .ok () r →
      consumeNumber m0 (c :: cs) st = (some r, st.bump ((c :: cs).length - r.length)) ∧ r.length < (c :: cs).length := by
    intro c cs st m0 hm0 hdc hh
    have hs0 : numStep m0 c = some (.int true) := by
      have : (c == 0x2D) = false := by
        cases hq : (c == 0x2D) with
        | false => rfl
        | true => have : c = 0x2D := by simpa using hq
                  subst this; simp [J.digit] at hdc
      rcases hm0 with rfl | rfl <;> simp [numStep, isDigit_eq_digit, hdc, this]
    rw [cn_step m0 (.int true) c cs st hs0]
    -- digits of the integer part the strict grammar does not take (only for a leading non-zero digit)
    obtain ⟨ds, hcs, _, hds, hhead⟩ := digits_spec cs
    generalize hai : (if c == 0x30 then cs else (J.digits cs).2) = afterInt at hh
    -- in both cases the scanner, in mode `int true`, reaches `afterInt` after |cs| - |afterInt| bytes
    have reach : consumeNumber (.int true) cs st.bump =
        consumeNumber (.int true) afterInt (st.bump.bump (cs.length - afterInt.length)) ∧ afterInt.length ≤ cs.length := by
      by_cases hz : (c == 0x30) = true
      · simp only [hz, ↓reduceIte] at hai
        subst hai; simp
      · simp only [hz, Bool.false_eq_true, ↓reduceIte] at hai
        subst hai
        constructor
        · conv => lhs; rw [hcs]
          rw [int_run ds hds]
          have hl : cs.length = ds.length + (J.digits cs).2.length := by
            conv => lhs; rw [hcs]
            simp
          simp only [Bool.true_or]
          congr 1; congr 1; omega
        · have hl : cs.length = ds.length + (J.digits cs).2.length := by
            conv => lhs; rw [hcs]
            simp
          omega
    rw [reach.1]
    -- fraction, exponent
    cases hf : J.fracStrict afterInt with
    | more => simp [hf, J.andThen] at hh
    | bad => simp [hf, J.andThen] at hh
    | ok u r2 =>
      simp only [hf, J.andThen] at hh
      obtain ⟨m, hm, hle, hrun⟩ := fracStrict_forward afterInt r2 (st.bump.bump (cs.length - afterInt.length)) hf
      rw [hrun (fun _ _ s => (none, s))]
      obtain ⟨he1, he2⟩ := expPart_forward m hm r2 r _ hh hd
      rw [he1]
      simp only [List.length_cons, bump_bump, Prod.mk.injEq, true_and]
      have := reach.2
      exact ⟨by congr 1; omega, by omega⟩
  unfold J.numStrict at h
  cases b with
  | nil => simp [J.dropMinus] at h
  | cons x xs =>
    by_cases hx : x = 0x2D
    · subst hx
      simp only [J.dropMinus] at h
      cases xs with
      | nil => simp at h
      | cons c cs =>
        simp only at h
        split at h
        · cases h
        · rename_i hdc
          have hdc' : J.digit c = true := by simpa using hdc
          rw [cn_step .start (.int false) 0x2D (c :: cs) s (by simp [numStep])]
          obtain ⟨k1, k2⟩ := core c cs s.bump (.int false) (Or.inr rfl) hdc' h
          rw [k1]
          simp only [List.length_cons, bump_bump, Prod.mk.injEq, true_and]
          simp only [List.length_cons] at k2
          exact ⟨by congr 1; omega, by omega⟩
    · have hdm : J.dropMinus (x :: xs) = x :: xs := by
        simp only [J.dropMinus]
        split
        · rename_i heq; simp only [List.cons.injEq] at heq; exact absurd heq.1 hx
        · rfl
      rw [hdm] at h
      simp only at h
      split at h
      · cases h
      · rename_i hdc
        have hdc' : J.digit x = true := by simpa using hdc
        exact core x xs s .start (Or.inl rfl) hdc' h

end Mime.JsonLeaf
