import MimeModel.Model.Custom
import MimeModel.Lemmas.DetectTie
import MimeModel.Spec.All
import MimeModel.Lemmas.JsonBackC
import MimeModel.Props.C08
/-
  C13 — line-oriented formats survive truncation and require well-formed lines.
-/
namespace Mime.C13Base
open Mime Mime.Cust Mime.Json Mime.Spec Mime.JsonLeaf Mime.JsonBack

/-- whole input (limit 0, or shorter than the limit): nothing is dropped -/
theorem dropLastLine_whole (b : Bytes) (lim : Nat) (h : lim = 0 ∨ b.length < lim) : dropLastLine b lim = b := by
  unfold dropLastLine
  rcases h with h | h
  · simp [h]
  · simp [h]

/-- truncated input: the result is a prefix of the input -/
theorem dropLastLine_prefix (b : Bytes) (lim : Nat) : dropLastLine b lim <+: b := by
  unfold dropLastLine
  split
  · exact List.prefix_refl _
  · split
    · exact List.prefix_refl _
    · split
      · exact List.take_prefix _ _
      · exact List.prefix_refl _

/-! ### NDJSON: reported only for well-formed streams -/

/-- the lines of a byte string: split at LF, one trailing CR dropped per line; text after the
    last LF is a line only when it is not empty -/
def linesAux : Nat → Bytes → List Bytes
  | 0, _ => []
  | f + 1, b => if b.isEmpty then [] else (scanLine b).1 :: linesAux f (scanLine b).2

def lines (b : Bytes) : List Bytes := linesAux (b.length + 1) b

/-- a line the stream may contain: blank, or one complete JSON value of the relaxed grammar
    with only white space around it -/
def LineOK (l : Bytes) : Prop := isBlankLine l = true ∨ ∃ v, lineValue l = some v

def ContainerLine (l : Bytes) : Prop := ∃ v, lineValue l = some v ∧ isContainer v = true

theorem skipWs_nil_blank (l : Bytes) (h : J.skipWs l = []) : isBlankLine l = true := by
  induction l with
  | nil => rfl
  | cons c cs ih =>
    simp only [J.skipWs] at h
    split at h
    · rename_i hw
      simp only [isBlankLine, List.all_cons, hw, Bool.true_and]
      exact ih h
    · cases h

theorem tok_ne_invalid (c : Nat) : (classify c).tok ≠ tokInvalid := by
  rcases JsonForward.classify_cases c with ⟨_, h⟩ | ⟨_, h⟩ | ⟨_, h⟩ | ⟨_, h⟩ | ⟨_, h⟩ | ⟨_, h⟩ | ⟨_, _, _, _, _, _, h⟩ <;>
    rw [h] <;> decide

theorem tok_container (c : Nat) : ((classify c).tok == tokArray || (classify c).tok == tokObject) = (c == 0x5B || c == 0x7B) := by
  rcases JsonForward.classify_cases c with ⟨rfl, h⟩ | ⟨rfl, h⟩ | ⟨rfl, h⟩ | ⟨rfl, h⟩ | ⟨rfl, h⟩ | ⟨rfl, h⟩ | ⟨_, n2, n3, _, _, _, h⟩
  all_goals (rw [h]; try decide)
  have e2 : (c == 0x5B) = false := by simpa using n2
  have e3 : (c == 0x7B) = false := by simpa using n3
  rw [e2, e3]; decide

/-- the kind of value the reference builds is decided by the first non-space byte -/
theorem value_container (strict : Bool) (f : Nat) (l : Bytes) (c : Nat) (cs : Bytes) (v : J.JVal) (r : Bytes)
    (hsk : J.skipWs l = c :: cs) (hv : J.value strict f l = .ok v r) :
    isContainer v = (c == 0x5B || c == 0x7B) := by
  cases f with
  | zero => simp [J.value] at hv
  | succ f =>
    simp only [J.value, hsk] at hv
    split at hv
    · rename_i hc
      have : c = 0x22 := by simpa using hc
      subst this
      cases hs : J.str strict cs [] <;> simp only [hs] at hv
      · simp only [J.R.ok.injEq] at hv; rw [← hv.1]; rfl
      · cases hv
      · cases hv
    split at hv
    · rename_i hc
      obtain ⟨xs, rfl⟩ := JsonForward.items_arr strict _ _ _ _ _ _ hv
      simp [isContainer, hc]
    split at hv
    · rename_i _ hc
      obtain ⟨ms, rfl⟩ := JsonForward.members_obj strict _ _ _ _ _ _ hv
      simp [isContainer, hc]
    rename_i n1 n2 n3
    have e2 : (c == 0x5B) = false := by simpa using n2
    have e3 : (c == 0x7B) = false := by simpa using n3
    rw [e2, e3]
    split at hv
    · split at hv
      · simp only [J.R.ok.injEq] at hv; rw [← hv.1]; rfl
      · cases hv
      · cases hv
    split at hv
    · split at hv
      · simp only [J.R.ok.injEq] at hv; rw [← hv.1]; rfl
      · cases hv
      · cases hv
    split at hv
    · split at hv
      · simp only [J.R.ok.injEq] at hv; rw [← hv.1]; rfl
      · cases hv
      · cases hv
    split at hv
    · simp only [J.R.ok.injEq] at hv; rw [← hv.1]; rfl
    · cases hv
    · cases hv

/-- what acceptance of one line by the loop of `NdJSON` means -/
theorem line_accepted (l : Bytes)
    (h : (l.length != (Json.parse Gen.Json.q_json l).parsed &&
          !((Json.parse Gen.Json.q_json l).firstToken == tokInvalid && l.length == (Json.parse Gen.Json.q_json l).inspected)) = false) :
    LineOK l ∧ (((Json.parse Gen.Json.q_json l).firstToken == tokArray || (Json.parse Gen.Json.q_json l).firstToken == tokObject) = true →
      ContainerLine l) := by
  -- the first non-space byte decides the flags
  cases hsk : J.skipWs l with
  | nil =>
    have hb := skipWs_nil_blank l hsk
    refine ⟨Or.inl hb, ?_⟩
    intro hc
    exfalso
    -- a blank line leaves firstToken invalid
    have hq : Gen.Json.q_json = [] := rfl
    simp only [Json.parse, parseWith, fuelFor, hq] at hc
    rw [show 2 * l.length + 4 = (2 * l.length + 3) + 1 from rfl, consumeAny] at hc
    simp only [consumeSpace_spec, hsk] at hc
    have hcap : (Gen.Json.maxRecursion != 0 && decide (0 > Gen.Json.maxRecursion)) = false := by decide
    simp only [hcap, Bool.false_eq_true, ↓reduceIte] at hc
    simp [PState.bump, PState.enter, PState.reset, PState.fresh, tokInvalid, tokArray, tokObject] at hc
  | cons c cs =>
    have hflags := C08.top_flags Gen.Json.maxRecursion (2 * l.length + 3) l PState.fresh.reset c cs hsk (by decide)
    have hq : Gen.Json.q_json = [] := rfl
    have hft : (Json.parse Gen.Json.q_json l).firstToken = (classify c).tok := by
      simp only [Json.parse, parseWith, fuelFor, hq]
      exact hflags.1
    rw [hft] at h ⊢
    have hne : ((classify c).tok == tokInvalid) = false := by
      simpa using tok_ne_invalid c
    simp only [hne, Bool.false_and, Bool.not_false, Bool.and_true, bne_eq_false_iff_eq] at h
    -- the whole line was parsed
    have hlne : l ≠ [] := by intro e; subst e; simp [J.skipWs] at hsk
    have hpos : 0 < l.length := List.length_pos_iff.mpr hlne
    have hb := (back_all Gen.Json.q_json Gen.Json.maxRecursion (fuelFor l)).1 0 l PState.fresh.reset (by simp [fuelFor])
    simp only [Json.parse, parseWith] at h
    generalize consumeAny Gen.Json.q_json Gen.Json.maxRecursion (fuelFor l) 0 l PState.fresh.reset = run at h hb
    obtain ⟨o, s'⟩ := run
    cases o with
    | none => simp only at h; omega
    | some rest =>
      simp only at h
      obtain ⟨⟨v, hv⟩, _, h3⟩ := hb
      have hrest : rest = [] := List.eq_nil_of_length_eq_zero (by omega)
      subst hrest
      rcases valueWs_cases (fuelFor l) l with ⟨v', r0, e1, e2⟩ | ⟨e1, e2⟩ | ⟨e1, e2⟩
      · rw [e2] at hv
        simp only [J.R.ok.injEq] at hv
        have hlv : lineValue l = some v' := by
          unfold lineValue
          have hff : J.fuelFor l = fuelFor l := rfl
          rw [hff, e1]
          simp [hv.2]
        refine ⟨Or.inr ⟨v', hlv⟩, ?_⟩
        intro hc
        refine ⟨v', hlv, ?_⟩
        rw [value_container false (fuelFor l) l c cs v' r0 hsk e1, ← tok_container]
        exact hc
      · rw [e2] at hv; cases hv
      · rw [e2] at hv; cases hv

/-- the loop of `NdJSON`: every line it walks over is acceptable, it counts the lines, and it
    counts a line as object/array only if it is one -/
theorem loop_sound : ∀ (f : Nat) (b : Bytes) (lc oa lc' oa' : Nat),
    ndjsonLoop f b lc oa = some (lc', oa') →
    lc' = lc + (linesAux f b).length ∧ (∀ l ∈ linesAux f b, LineOK l) ∧
    (oa < oa' → ∃ l ∈ linesAux f b, ContainerLine l) := by
  intro f
  induction f with
  | zero =>
    intro b lc oa lc' oa' h
    simp only [ndjsonLoop, Option.some.injEq, Prod.mk.injEq] at h
    obtain ⟨rfl, rfl⟩ := h
    simp [linesAux]
  | succ f ih =>
    intro b lc oa lc' oa' h
    rw [ndjsonLoop] at h
    by_cases hb : b.isEmpty = true
    · simp only [hb, ↓reduceIte, Option.some.injEq, Prod.mk.injEq] at h
      obtain ⟨rfl, rfl⟩ := h
      simp [linesAux, hb]
    · simp only [hb, Bool.false_eq_true, ↓reduceIte] at h
      split at h
      · cases h
      · rename_i hacc
        have hacc' := line_accepted (scanLine b).1 (by simpa using hacc)
        obtain ⟨i1, i2, i3⟩ := ih _ _ _ _ _ h
        simp only [linesAux, hb, Bool.false_eq_true, ↓reduceIte, List.length_cons, List.mem_cons, forall_eq_or_imp]
        refine ⟨by omega, ⟨hacc'.1, i2⟩, ?_⟩
        intro hlt
        by_cases hc : (((Json.parse Gen.Json.q_json (scanLine b).1).firstToken == tokArray ||
            (Json.parse Gen.Json.q_json (scanLine b).1).firstToken == tokObject) = true)
        · exact ⟨_, Or.inl rfl, hacc'.2 hc⟩
        · simp only [hc, Bool.false_eq_true, ↓reduceIte] at i3
          obtain ⟨l, hl, hcl⟩ := i3 hlt
          exact ⟨l, Or.inr hl, hcl⟩

/-- **C13 (NDJSON, converse)**: NDJSON is reported only if, among the complete lines of the
    examined bytes (the cut-off last line dropped in truncated mode), there are at least two,
    every one is blank or a complete JSON value, and at least one is an object or array -/
theorem ndjson_sound (raw : Bytes) (lim : Nat) (h : ndjson raw lim = true) :
    let ls := lines (dropLastLine raw lim)
    2 ≤ ls.length ∧ (∀ l ∈ ls, LineOK l) ∧ ∃ l ∈ ls, ContainerLine l := by
  unfold ndjson at h
  simp only at h
  split at h
  · cases h
  · rename_i lc oa hloop
    simp only [Bool.and_eq_true, decide_eq_true_eq] at h
    obtain ⟨i1, i2, i3⟩ := loop_sound _ _ _ _ _ _ hloop
    exact ⟨by simp only [lines]; omega, i2, i3 (by omega)⟩

/-! ### NDJSON: well-formed streams are reported, cut or not -/

def joinLF : List Bytes → Bytes
  | [] => []
  | [l] => l
  | l :: l2 :: ls => l ++ 0x0A :: joinLF (l2 :: ls)

def NoLF (l : Bytes) : Prop := ∀ c ∈ l, c ≠ 0x0A

/-- a record: after removing the CR of a CRLF terminator, one RFC 8259 value (any kind, depth
    within the cap) with only white space around it -/
def RecordOK (l : Bytes) : Prop :=
  ∃ v r, J.value true (J.fuelFor (dropCR l)) (dropCR l) = .ok v r ∧ J.skipWs r = [] ∧ J.depth v ≤ Gen.Json.maxRecursion

def RecordContainer (l : Bytes) : Prop :=
  ∃ v r, J.value true (J.fuelFor (dropCR l)) (dropCR l) = .ok v r ∧ isContainer v = true

def tokFlag (l : Bytes) : Bool :=
  (Json.parse Gen.Json.q_json (dropCR l)).firstToken == tokArray || (Json.parse Gen.Json.q_json (dropCR l)).firstToken == tokObject

theorem cutNL_noLF (l : Bytes) (h : NoLF l) : cutNL l = (l, []) := by
  induction l with
  | nil => rfl
  | cons c cs ih =>
    have hc : (c == 0x0A) = false := by simpa using h c (List.mem_cons_self ..)
    simp only [cutNL, hc, Bool.false_eq_true, ↓reduceIte, ih (fun x hx => h x (List.mem_cons_of_mem _ hx))]

theorem cutNL_line (l r : Bytes) (h : NoLF l) : cutNL (l ++ 0x0A :: r) = (l, r) := by
  induction l with
  | nil => simp [cutNL]
  | cons c cs ih =>
    have hc : (c == 0x0A) = false := by simpa using h c (List.mem_cons_self ..)
    simp only [List.cons_append, cutNL, hc, Bool.false_eq_true, ↓reduceIte, ih (fun x hx => h x (List.mem_cons_of_mem _ hx))]

/-- the scanner on a record: all of it parsed -/
theorem record_parsed (l : Bytes) (h : RecordOK l) :
    (Json.parse Gen.Json.q_json (dropCR l)).parsed = (dropCR l).length ∧ dropCR l ≠ [] := by
  obtain ⟨v, r, hv, hr, hd⟩ := h
  have hne : dropCR l ≠ [] := by
    intro e
    rw [e] at hv
    simp [J.value, J.fuelFor, J.skipWs] at hv
  refine ⟨?_, hne⟩
  have hfw := (JsonForward.forward_all Gen.Json.q_json Gen.Json.maxRecursion (J.fuelFor (dropCR l))).1 0 (dropCR l) v r
    PState.fresh.reset hv (JsonForward.delim_of_ws_only r (by simp [hr])) (Or.inr (by omega))
  obtain ⟨f1, _, _⟩ := hfw
  rw [hr] at f1
  simp only [Json.parse, parseWith]
  have hff : fuelFor (dropCR l) = J.fuelFor (dropCR l) := rfl
  rw [hff]
  generalize consumeAny Gen.Json.q_json Gen.Json.maxRecursion (J.fuelFor (dropCR l)) 0 (dropCR l) PState.fresh.reset = res at f1
  obtain ⟨o, s'⟩ := res
  simp only at f1
  subst f1
  simp

theorem record_flag (l : Bytes) (h : RecordContainer l) : tokFlag l = true := by
  obtain ⟨v, r, hv, hc⟩ := h
  cases hsk : J.skipWs (dropCR l) with
  | nil =>
    have : J.value true (J.fuelFor (dropCR l)) (dropCR l) = .more := by
      simp [J.fuelFor, J.value, hsk]
    rw [this] at hv; cases hv
  | cons c cs =>
    have hflags := C08.top_flags Gen.Json.maxRecursion (2 * (dropCR l).length + 3) (dropCR l) PState.fresh.reset c cs hsk (by decide)
    have hq : Gen.Json.q_json = [] := rfl
    have hft : (Json.parse Gen.Json.q_json (dropCR l)).firstToken = (classify c).tok := by
      simp only [Json.parse, parseWith, fuelFor, hq]
      exact hflags.1
    unfold tokFlag
    rw [hft, tok_container, ← value_container true _ _ c cs v r hsk hv]
    exact hc

/-- the loop of `NdJSON` on a stream of records -/
theorem loop_forward : ∀ (ls : List Bytes), ls ≠ [] → (∀ l ∈ ls, NoLF l ∧ RecordOK l) →
    ∀ (f lc oa : Nat) (tail : Bytes), (tail = [] ∨ tail = [0x0A]) → (joinLF ls ++ tail).length < f →
    ndjsonLoop f (joinLF ls ++ tail) lc oa = some (lc + ls.length, oa + (ls.filter tokFlag).length) := by
  intro ls
  induction ls with
  | nil => intro h; exact absurd rfl h
  | cons l rest ih =>
    intro _ hall f lc oa tail htail hf
    obtain ⟨hnolf, hrec⟩ := hall l (List.mem_cons_self ..)
    obtain ⟨hparsed, hne⟩ := record_parsed l hrec
    have hlne : l ≠ [] := by
      intro e; subst e; exact hne (by simp [dropCR])
    obtain ⟨f', rfl⟩ : ∃ f', f = f' + 1 := ⟨f - 1, by omega⟩
    -- one iteration
    have step : ∀ (rest' : Bytes), cutNL (joinLF (l :: rest) ++ tail) = (l, rest') →
        ndjsonLoop (f' + 1) (joinLF (l :: rest) ++ tail) lc oa =
          ndjsonLoop f' rest' (lc + 1) (if tokFlag l then oa + 1 else oa) := by
      intro rest' hcut
      rw [ndjsonLoop]
      have hb : (joinLF (l :: rest) ++ tail).isEmpty = false := by
        cases rest with
        | nil => cases l with
          | nil => exact absurd rfl hlne
          | cons _ _ => rfl
        | cons _ _ => cases l <;> rfl
      simp only [hb, Bool.false_eq_true, ↓reduceIte, scanLine, hcut]
      have hacc : ((dropCR l).length != (Json.parse Gen.Json.q_json (dropCR l)).parsed &&
          !((Json.parse Gen.Json.q_json (dropCR l)).firstToken == tokInvalid &&
            (dropCR l).length == (Json.parse Gen.Json.q_json (dropCR l)).inspected)) = false := by
        rw [hparsed]; simp
      rw [if_neg (by rw [hacc]; simp)]
      rfl
    cases rest with
    | nil =>
      have hcut : cutNL (joinLF [l] ++ tail) = (l, []) := by
        rcases htail with rfl | rfl
        · simpa [joinLF] using cutNL_noLF l hnolf
        · simpa [joinLF] using cutNL_line l [] hnolf
      rw [step [] hcut]
      have : ∀ (a b : Nat), ndjsonLoop f' [] a b = some (a, b) := by
        intro a b; cases f' <;> simp [ndjsonLoop]
      rw [this]
      simp only [List.length_cons, List.length_nil, List.filter_cons, List.filter_nil]
      split <;> simp
    | cons l2 rest2 =>
      have hcut : cutNL (joinLF (l :: l2 :: rest2) ++ tail) = (l, joinLF (l2 :: rest2) ++ tail) := by
        simpa [joinLF] using cutNL_line l (joinLF (l2 :: rest2) ++ tail) hnolf
      rw [step _ hcut]
      have hlen : (joinLF (l2 :: rest2) ++ tail).length < f' := by
        simp only [joinLF, List.append_assoc, List.length_append, List.length_cons] at hf ⊢
        omega
      rw [ih (by simp) (fun x hx => hall x (List.mem_cons_of_mem _ hx)) f' _ _ tail htail hlen]
      simp only [List.length_cons, List.filter_cons]
      split <;> simp <;> omega

theorem lastIdx_noLF (p : Bytes) (h : NoLF p) : lastIdx 0x0A p = none := by
  induction p with
  | nil => rfl
  | cons c cs ih =>
    have hc : (c == 0x0A) = false := by simpa using h c (List.mem_cons_self ..)
    simp [lastIdx, ih (fun x hx => h x (List.mem_cons_of_mem _ hx)), hc]

theorem lastIdx_last (a p : Bytes) (h : NoLF p) : lastIdx 0x0A (a ++ 0x0A :: p) = some a.length := by
  induction a with
  | nil => simp [lastIdx, lastIdx_noLF p h]
  | cons c cs ih => simp [lastIdx, ih]

/-- truncated mode drops exactly the incomplete last line -/
theorem dropLastLine_cut (a p : Bytes) (lim : Nat) (ha : a ≠ []) (hp : NoLF p) (hl : lim ≠ 0)
    (hlen : lim ≤ (a ++ 0x0A :: p).length) : dropLastLine (a ++ 0x0A :: p) lim = a := by
  unfold dropLastLine
  have hc : (lim == 0 || decide ((a ++ 0x0A :: p).length < lim)) = false := by
    simp only [Bool.or_eq_false_iff, beq_eq_false_iff_ne, decide_eq_false_iff_not]
    exact ⟨hl, by omega⟩
  rw [if_neg (by rw [hc]; simp)]
  cases a with
  | nil => exact absurd rfl ha
  | cons x xs =>
    simp only [List.cons_append]
    rw [lastIdx_last xs p hp]
    simp

/-- **C13 (NDJSON, forward)**: a stream of at least two records, one per line (LF or CRLF),
    at least one of them an object or array, is reported: when examined whole (with or without
    a final newline), and when the limit cuts it anywhere after these lines — `partial` is the
    incomplete last line, which is ignored -/
theorem ndjson_complete (ls : List Bytes) (h2 : 2 ≤ ls.length) (hall : ∀ l ∈ ls, NoLF l ∧ RecordOK l)
    (hcont : ∃ l ∈ ls, RecordContainer l) :
    (∀ tail lim, (tail = [] ∨ tail = [0x0A]) → (lim = 0 ∨ (joinLF ls ++ tail).length < lim) →
      ndjson (joinLF ls ++ tail) lim = true) ∧
    (∀ part lim, NoLF part → lim ≠ 0 → lim ≤ (joinLF ls ++ 0x0A :: part).length →
      ndjson (joinLF ls ++ 0x0A :: part) lim = true) := by
  have hne : ls ≠ [] := by intro e; subst e; simp at h2
  have hcount : 0 < (ls.filter tokFlag).length := by
    obtain ⟨l, hl, hc⟩ := hcont
    exact List.length_pos_iff.mpr (List.ne_nil_of_mem (List.mem_filter.mpr ⟨hl, record_flag l hc⟩))
  have hrun : ∀ tail, (tail = [] ∨ tail = [0x0A]) →
      ndjsonLoop ((joinLF ls ++ tail).length + 1) (joinLF ls ++ tail) 0 0 = some (ls.length, (ls.filter tokFlag).length) := by
    intro tail ht
    have := loop_forward ls hne hall ((joinLF ls ++ tail).length + 1) 0 0 tail ht (by omega)
    simpa using this
  constructor
  · intro tail lim ht hw
    unfold ndjson
    rw [dropLastLine_whole _ _ hw]
    simp only [hrun tail ht, Bool.and_eq_true, decide_eq_true_eq]
    omega
  · intro part lim hp hl hlen
    have hjne : joinLF ls ≠ [] := by
      match ls, h2, hall with
      | l :: l2 :: rest, _, _ => simp [joinLF]
    unfold ndjson
    rw [dropLastLine_cut (joinLF ls) part lim hjne hp hl hlen]
    have := hrun [] (Or.inl rfl)
    simp only [List.append_nil] at this
    simp only [this, Bool.and_eq_true, decide_eq_true_eq]
    omega

/- non-vacuity: a two-line stream {"a":1} LF 2 -/
example : ndjson [0x7B, 0x22, 0x61, 0x22, 0x3A, 0x31, 0x7D, 0x0A, 0x32] 0 = true := by decide

/-- regenerated tie: `Detect` / `DetectReader` load the limit once, atomically (see Lemmas/DetectTie.lean) -/
theorem tie_single_limit : Mime.DetectTie.SingleLimit := Mime.DetectTie.single_limit

end Mime.C13Base
