import MimeModel.Model.HeapAbs
import MimeModel.Lemmas.Heap
/-
  The executable abstraction function `HeapAbs.abs` (`Model/HeapAbs.lean`) is sound and complete
  for the representation invariant of `Model/Heap.lean`:

    `abs h root = some t ↔ Rep h root none t`        (`abs_iff`)
    `(abs h root).isSome ↔ WF h root`                (`abs_isSome_iff`), `Decidable (WF h root)`

  and the footprint it returns is the pre-order list of the addresses of the tree
  (`abs_flatten`).
-/
namespace Mime.HeapAbs
open Mime Mime.Tree Mime.Heap Mime.HeapLemmas
variable {α : Type}

/-! ### unfolding -/

theorem absList_nil (rec : Ptr → List Ptr → Option (Tree α × List Ptr)) (seen : List Ptr) :
    absList rec [] seen = some ([], []) := rfl

/-- the successful runs of the loop over a non-empty list of children -/
theorem absList_cons_some {rec : Ptr → List Ptr → Option (Tree α × List Ptr)} {c : Ptr} {cs seen : List Ptr}
    {r : List (Tree α) × List Ptr} (hr : absList rec (c :: cs) seen = some r) :
    ∃ t fp1 ts fp2, rec c seen = some (t, fp1) ∧ absList rec cs (fp1 ++ seen) = some (ts, fp2) ∧
      r = (t :: ts, fp1 ++ fp2) := by
  simp only [absList] at hr
  split at hr
  · cases hr
  · rename_i t fp1 h1
    split at hr
    · cases hr
    · rename_i ts fp2 h2
      simp only [Option.some.injEq] at hr
      exact ⟨t, fp1, ts, fp2, h1, h2, hr.symm⟩

theorem absList_cons_of {rec : Ptr → List Ptr → Option (Tree α × List Ptr)} {c : Ptr} {cs seen : List Ptr}
    {t : Tree α} {fp1 : List Ptr} {ts : List (Tree α)} {fp2 : List Ptr}
    (h1 : rec c seen = some (t, fp1)) (h2 : absList rec cs (fp1 ++ seen) = some (ts, fp2)) :
    absList rec (c :: cs) seen = some (t :: ts, fp1 ++ fp2) := by
  simp only [absList, h1, h2]

theorem absF_zero (h : Heap α) (p : Ptr) (par : Option Ptr) (seen : List Ptr) :
    absF h 0 p par seen = none := rfl

/-- the successful runs of `absF` -/
theorem absF_succ_some {h : Heap α} {fuel : Nat} {p : Ptr} {par : Option Ptr} {seen : List Ptr}
    {r : Tree α × List Ptr} (hr : absF h (fuel + 1) p par seen = some r) :
    ∃ n ts fps, h[p]? = some n ∧ n.parent = par ∧ p ∉ seen ∧
      absListF h fuel (some p) n.children (p :: seen) = some (ts, fps) ∧
      r = (.node n.info ts, p :: fps) := by
  simp only [absF] at hr
  split at hr
  · cases hr
  · rename_i n hn
    split at hr
    · rename_i hpar
      split at hr
      · cases hr
      · rename_i hseen
        split at hr
        · cases hr
        · rename_i ts fps hl
          simp only [Option.some.injEq] at hr
          refine ⟨n, ts, fps, hn, hpar, ?_, hl, hr.symm⟩
          intro hm
          exact hseen (List.contains_iff_mem.mpr hm)
    · cases hr

theorem absF_succ_of {h : Heap α} {fuel : Nat} {p : Ptr} {par : Option Ptr} {seen : List Ptr}
    {n : Node α} {ts : List (Tree α)} {fps : List Ptr}
    (hn : h[p]? = some n) (hpar : n.parent = par) (hseen : p ∉ seen)
    (hl : absListF h fuel (some p) n.children (p :: seen) = some (ts, fps)) :
    absF h (fuel + 1) p par seen = some (.node n.info ts, p :: fps) := by
  have hc : seen.contains p = false := by
    cases hb : seen.contains p with
    | false => rfl
    | true => exact absurd (List.contains_iff_mem.mp hb) hseen
  unfold absListF at hl
  simp only [absF, hn, hpar, if_true, hc, hl]
  simp

/-! ### soundness -/

/-- the loop over the children is sound when its body is -/
theorem absList_sound {h : Heap α} {par : Option Ptr} {rec : Ptr → List Ptr → Option (Tree α × List Ptr)}
    (hrec : ∀ c s t fp, rec c s = some (t, fp) → RepF h c par t fp ∧ ∀ x ∈ fp, x ∉ s) :
    ∀ (cps seen : List Ptr) (ts : List (Tree α)) (fp : List Ptr),
      absList rec cps seen = some (ts, fp) → RepListF h par cps ts fp ∧ ∀ x ∈ fp, x ∉ seen
  | [], seen, ts, fp, hr => by
    rw [absList_nil] at hr
    simp only [Option.some.injEq, Prod.mk.injEq] at hr
    obtain ⟨rfl, rfl⟩ := hr
    exact ⟨repListF_nil.mpr ⟨rfl, rfl⟩, fun x hx => by cases hx⟩
  | c :: cs, seen, ts, fp, hr => by
    obtain ⟨t, fp1, ts', fp2, h1, h2, he⟩ := absList_cons_some hr
    simp only [Prod.mk.injEq] at he
    obtain ⟨rfl, rfl⟩ := he
    obtain ⟨r1, d1⟩ := hrec c seen t fp1 h1
    obtain ⟨r2, d2⟩ := absList_sound hrec cs (fp1 ++ seen) ts' fp2 h2
    refine ⟨repListF_cons.mpr ⟨c, cs, fp1, fp2, rfl, r1, r2, ?_, rfl⟩, ?_⟩
    · intro x hx hx2
      exact d2 x hx2 (List.mem_append_left _ hx)
    · intro x hx
      rcases List.mem_append.mp hx with hx | hx
      · exact d1 x hx
      · exact fun hs => d2 x hx (List.mem_append_right _ hs)

/-- **soundness of the walk**: what it returns is represented, with the returned footprint, and
    the footprint avoids the addresses met before -/
theorem absF_sound {h : Heap α} : ∀ (fuel : Nat) (p : Ptr) (par : Option Ptr) (seen : List Ptr)
    (t : Tree α) (fp : List Ptr),
    absF h fuel p par seen = some (t, fp) → RepF h p par t fp ∧ ∀ x ∈ fp, x ∉ seen
  | 0, p, par, seen, t, fp, hr => by rw [absF_zero] at hr; cases hr
  | fuel + 1, p, par, seen, t, fp, hr => by
    obtain ⟨n, ts, fps, hn, hpar, hseen, hl, he⟩ := absF_succ_some hr
    simp only [Prod.mk.injEq] at he
    obtain ⟨rfl, rfl⟩ := he
    obtain ⟨r, d⟩ := absList_sound (par := some p)
      (fun c s t fp hc => absF_sound fuel c (some p) s t fp hc) n.children (p :: seen) ts fps hl
    refine ⟨repF_node.mpr ⟨n.children, fps, ?_, r, ?_, rfl⟩, ?_⟩
    · rw [hn, ← hpar]
    · exact fun hm => d p hm (List.mem_cons_self ..)
    · intro x hx
      rcases List.mem_cons.mp hx with rfl | hx
      · exact hseen
      · exact fun hs => d x hx (List.mem_cons_of_mem _ hs)

theorem absListF_sound {h : Heap α} {fuel : Nat} {par : Option Ptr} {cps seen : List Ptr}
    {ts : List (Tree α)} {fp : List Ptr} (hr : absListF h fuel par cps seen = some (ts, fp)) :
    RepListF h par cps ts fp ∧ ∀ x ∈ fp, x ∉ seen :=
  absList_sound (fun c s t fp hc => absF_sound fuel c par s t fp hc) cps seen ts fp hr

/-! ### completeness -/

mutual
/-- **completeness of the walk**: a represented tree is found, with its footprint, from any set
    of addresses met before that avoids the footprint, with fuel at least its height -/
theorem absF_complete {h : Heap α} : ∀ (t : Tree α) {p : Ptr} {par : Option Ptr} {fp : List Ptr}
    (seen : List Ptr) (fuel : Nat), RepF h p par t fp → (∀ x ∈ fp, x ∉ seen) → t.height ≤ fuel →
    absF h fuel p par seen = some (t, fp)
  | .node a ts, p, par, fp, seen, fuel, hr, hd, hf => by
    obtain ⟨cps, fps, hp, hl, hn, rfl⟩ := repF_node.mp hr
    cases fuel with
    | zero => simp only [height] at hf; omega
    | succ fuel =>
      have hf' : heightList ts ≤ fuel := by simp only [height] at hf; omega
      have hd' : ∀ x ∈ fps, x ∉ p :: seen := by
        intro x hx hm
        rcases List.mem_cons.mp hm with rfl | hm
        · exact hn hx
        · exact hd x (List.mem_cons_of_mem _ hx) hm
      have hl' := absListF_complete ts (p :: seen) fuel hl hd' hf'
      exact absF_succ_of (n := ⟨a, par, cps⟩) hp rfl (hd p (List.mem_cons_self ..)) hl'
theorem absListF_complete {h : Heap α} : ∀ (ts : List (Tree α)) {par : Option Ptr} {cps fp : List Ptr}
    (seen : List Ptr) (fuel : Nat), RepListF h par cps ts fp → (∀ x ∈ fp, x ∉ seen) →
    heightList ts ≤ fuel → absListF h fuel par cps seen = some (ts, fp)
  | [], par, cps, fp, seen, fuel, hr, _, _ => by
    obtain ⟨rfl, rfl⟩ := repListF_nil.mp hr
    rfl
  | t :: ts, par, cps, fp, seen, fuel, hr, hd, hf => by
    obtain ⟨c, cs, fp1, fp2, rfl, h1, h2, hdis, rfl⟩ := repListF_cons.mp hr
    have hf1 : t.height ≤ fuel := by simp only [heightList] at hf; omega
    have hf2 : heightList ts ≤ fuel := by simp only [heightList] at hf; omega
    have e1 := absF_complete t seen fuel h1 (fun x hx => hd x (List.mem_append_left _ hx)) hf1
    have hd2 : ∀ x ∈ fp2, x ∉ fp1 ++ seen := by
      intro x hx hm
      rcases List.mem_append.mp hm with hm | hm
      · exact hdis x hm hx
      · exact hd x (List.mem_append_right _ hx) hm
    have e2 := absListF_complete ts (fp1 ++ seen) fuel h2 hd2 hf2
    unfold absListF at e2 ⊢
    exact absList_cons_of e1 e2
end

/-! ### the abstraction function -/

theorem abs_eq_some {h : Heap α} {root : Ptr} {t : Tree α} :
    abs h root = some t ↔ ∃ fp, absFp h root = some (t, fp) := by
  unfold abs absFp
  constructor
  · intro ha
    cases hr : absF h (h.length + 1) root none [] with
    | none => rw [hr] at ha; cases ha
    | some r =>
      obtain ⟨t', fp⟩ := r
      rw [hr] at ha
      simp only [Option.map_some, Option.some.injEq] at ha
      subst ha
      exact ⟨fp, rfl⟩
  · rintro ⟨fp, hr⟩
    rw [hr]; rfl

/-- the walk from the root returns exactly the represented tree with its footprint -/
theorem absFp_iff {h : Heap α} {root : Ptr} {t : Tree α} {fp : List Ptr} :
    absFp h root = some (t, fp) ↔ RepF h root none t fp := by
  constructor
  · intro hr
    exact (absF_sound _ _ _ _ _ _ hr).1
  · intro hr
    have hh : t.height ≤ h.length + 1 := Nat.le_succ_of_le (rep_height_le ⟨fp, hr⟩)
    exact absF_complete t [] _ hr (fun x _ hm => by cases hm) hh

/-- **soundness**: the tree returned is represented by the heap -/
theorem abs_sound {h : Heap α} {root : Ptr} {t : Tree α} (ha : abs h root = some t) : Rep h root none t := by
  obtain ⟨fp, hr⟩ := abs_eq_some.mp ha
  exact ⟨fp, absFp_iff.mp hr⟩

/-- **completeness**: a represented tree is returned (fuel `h.length + 1` is enough:
    `rep_height_le`) -/
theorem abs_complete {h : Heap α} {root : Ptr} {t : Tree α} (hr : Rep h root none t) : abs h root = some t := by
  obtain ⟨fp, hr⟩ := hr
  exact abs_eq_some.mpr ⟨fp, absFp_iff.mpr hr⟩

/-- `abs` is the abstraction function of the representation invariant -/
theorem abs_iff {h : Heap α} {root : Ptr} {t : Tree α} : abs h root = some t ↔ Rep h root none t :=
  ⟨abs_sound, abs_complete⟩

theorem abs_wf {h : Heap α} {root : Ptr} {t : Tree α} (ha : abs h root = some t) : WF h root :=
  ⟨t, abs_sound ha⟩

/-- the invariant holds exactly when the walk succeeds -/
theorem abs_isSome_iff {h : Heap α} {root : Ptr} : (abs h root).isSome = true ↔ WF h root := by
  constructor
  · intro hs
    cases ha : abs h root with
    | none => rw [ha] at hs; cases hs
    | some t => exact abs_wf ha
  · rintro ⟨t, hr⟩
    rw [abs_complete hr]; rfl

theorem wfb_iff {h : Heap α} {root : Ptr} : wfb h root = true ↔ WF h root := abs_isSome_iff

theorem abs_none_iff {h : Heap α} {root : Ptr} : abs h root = none ↔ ¬ WF h root := by
  rw [← abs_isSome_iff]
  cases abs h root <;> simp

/-- **the representation invariant is decidable** -/
instance instDecidableWF (h : Heap α) (root : Ptr) : Decidable (WF h root) :=
  decidable_of_iff ((abs h root).isSome = true) abs_isSome_iff

/-- for a payload type with decidable equality, so is "the heap represents `t`" -/
instance instDecidableRep [DecidableEq (Tree α)] (h : Heap α) (root : Ptr) (t : Tree α) :
    Decidable (Rep h root none t) :=
  decidable_of_iff (abs h root = some t) abs_iff

/-! ### the footprint -/

mutual
/-- the payloads found at the footprint are the payloads of the tree, in pre-order -/
theorem repF_flatten {h : Heap α} : ∀ (t : Tree α) {p : Ptr} {par : Option Ptr} {fp : List Ptr},
    RepF h p par t fp → fp.map (fun x => h[x]?.map (·.info)) = (flatten t).map some
  | .node a ts, p, par, fp, hr => by
    obtain ⟨cps, fps, hp, hl, _, rfl⟩ := repF_node.mp hr
    simp only [List.map_cons, flatten, hp, Option.map_some]
    rw [repListF_flatten ts hl]
theorem repListF_flatten {h : Heap α} : ∀ (ts : List (Tree α)) {par : Option Ptr} {cps fp : List Ptr},
    RepListF h par cps ts fp → fp.map (fun x => h[x]?.map (·.info)) = (flattenList ts).map some
  | [], par, cps, fp, hr => by
    obtain ⟨_, rfl⟩ := repListF_nil.mp hr
    rfl
  | t :: ts, par, cps, fp, hr => by
    obtain ⟨c, cs, fp1, fp2, _, h1, h2, _, rfl⟩ := repListF_cons.mp hr
    simp only [List.map_append, flattenList]
    rw [repF_flatten t h1, repListF_flatten ts h2]
end

/-- **what the harness uses**: when the walk succeeds with tree `t` and footprint `fp`, then
    `fp` is duplicate-free, all its addresses are allocated, it starts at the root, it has one
    address per node of `t`, and the payloads stored at `fp` are the pre-order payloads
    `flatten t` -/
theorem abs_flatten {h : Heap α} {root : Ptr} {t : Tree α} {fp : List Ptr}
    (ha : absFp h root = some (t, fp)) :
    abs h root = some t ∧ fp.Nodup ∧ (∀ x : Nat, x ∈ fp → x < h.length) ∧ fp.head? = some root ∧
    fp.length = (flatten t).length ∧
    fp.map (fun x => h[x]?.map (·.info)) = (flatten t).map some := by
  have hr := absFp_iff.mp ha
  have hfl := repF_flatten t hr
  refine ⟨abs_eq_some.mpr ⟨fp, ha⟩, repF_nodup t hr, repF_lt t hr, ?_, ?_, hfl⟩
  · cases t with
    | node a ts =>
      obtain ⟨_, fps, _, _, _, rfl⟩ := repF_node.mp hr
      rfl
  · have := congrArg List.length hfl
    simpa only [List.length_map] using this

/-- the same from `abs`: a footprint with these properties exists (and `absFp` computes it) -/
theorem abs_flatten' {h : Heap α} {root : Ptr} {t : Tree α} (ha : abs h root = some t) :
    ∃ fp, absFp h root = some (t, fp) ∧ fp.Nodup ∧ (∀ x : Nat, x ∈ fp → x < h.length) ∧
      fp.map (fun x => h[x]?.map (·.info)) = (flatten t).map some := by
  obtain ⟨fp, hr⟩ := abs_eq_some.mp ha
  obtain ⟨_, h1, h2, _, _, h3⟩ := abs_flatten hr
  exact ⟨fp, hr, h1, h2, h3⟩

/-- fuel beyond the height changes nothing (so the walk with fuel `h.length + 1` is the walk
    with any larger fuel) -/
theorem absF_fuel_irrelevant {h : Heap α} {fuel fuel' : Nat} {p : Ptr} {par : Option Ptr} {seen : List Ptr}
    {t : Tree α} {fp : List Ptr} (hr : absF h fuel p par seen = some (t, fp)) (hf : t.height ≤ fuel') :
    absF h fuel' p par seen = some (t, fp) := by
  obtain ⟨r, d⟩ := absF_sound _ _ _ _ _ _ hr
  exact absF_complete t seen fuel' r d hf

/-! ### examples (all by kernel evaluation) -/

section Examples

/-- the four-node heap of `Lemmas/Heap.lean` (root at 3, children 1 and 2, grandchild 0) -/
example : abs exHeap 3 = some exTree := by decide
example : absFp exHeap 3 = some (exTree, [3, 1, 0, 2]) := by decide
example : WF exHeap 3 := by decide
example : Rep exHeap 3 none exTree := by decide
/-- garbage (here: the nodes a detection has allocated) is ignored -/
example : abs exHeap1 3 = some exTree := by decide
example : abs exHeap2 3 = some (.node 0 [.node 1 [.node 9 [], .node 3 []], .node 2 []]) := by decide
/-- fuel: one unit per level -/
example : absF exHeap 3 3 none [] = some (exTree, [3, 1, 0, 2]) := by decide
example : absF exHeap 2 3 none [] = none := by decide
/-- a sub-heap is not a detector tree (its root has a parent), but it is represented as a subtree -/
example : abs exHeap 1 = none := by decide
example : ¬ WF exHeap 1 := by decide
example : absF exHeap 5 1 (some 3) [] = some (.node 1 [.node 3 []], [1, 0]) := by decide

/-- a wrong parent pointer: node 2 names 1 as its parent, it is a child of 3 -/
def badParent : Heap Nat :=
  [⟨3, some 1, []⟩, ⟨1, some 3, [0]⟩, ⟨2, some 1, []⟩, ⟨0, none, [1, 2]⟩]
example : abs badParent 3 = none := by decide
example : ¬ WF badParent 3 := by decide

/-- the root has a parent pointer -/
def badRoot : Heap Nat :=
  [⟨3, some 1, []⟩, ⟨1, some 3, [0]⟩, ⟨2, some 3, []⟩, ⟨0, some 0, [1, 2]⟩]
example : abs badRoot 3 = none := by decide

/-- node 0 is a child of 1 and of 2 (its parent pointer can only name one of them, so the
    parent check refuses it; `matchH` on such a heap: `exBad` of `Lemmas/Heap.lean`) -/
def shared : Heap Nat :=
  [⟨3, some 1, []⟩, ⟨1, some 3, [0]⟩, ⟨2, some 3, [0]⟩, ⟨0, none, [1, 2]⟩]
example : abs shared 3 = none := by decide
example : ¬ WF shared 3 := by decide

/-- node 0 is twice a child of 1: every parent pointer is right, only the footprint check
    (`seen`) refuses it -/
def twice : Heap Nat :=
  [⟨3, some 1, []⟩, ⟨1, some 3, [0, 0]⟩, ⟨2, some 3, []⟩, ⟨0, none, [1, 2]⟩]
example : abs twice 3 = none := by decide
example : ¬ WF twice 3 := by decide
/-- the same with an empty `seen` for the second visit would be accepted: the check matters -/
example : absF twice 5 0 (some 1) [] = some (.node 3 [], [0]) := by decide
example : absF twice 5 0 (some 1) [0, 1, 3] = none := by decide

/-- a cycle below the root: 3 → 1 → 0 → 1 -/
def cyc : Heap Nat :=
  [⟨3, some 1, [1]⟩, ⟨1, some 3, [0]⟩, ⟨2, some 3, []⟩, ⟨0, none, [1, 2]⟩]
example : abs cyc 3 = none := by decide
example : ¬ WF cyc 3 := by decide
/-- the two-node cycle of `Lemmas/Heap.lean` (`cloneHierarchy` does not terminate on it): from
    either node, with any expected parent, with much fuel -/
example : abs cycleHeap 0 = none := by decide
example : abs cycleHeap 1 = none := by decide
/-- a cycle all of whose parent pointers are right (0 and 1 are each other's only child and
    parent): refused by the footprint check, not by lack of fuel -/
def cyc2 : Heap Nat := [⟨10, some 1, [1]⟩, ⟨11, some 0, [0]⟩]
example : absF cyc2 100 0 (some 1) [] = none := by decide
example : abs cyc2 0 = none := by decide

/-- a dangling child: 7 is not allocated -/
def dangling : Heap Nat :=
  [⟨3, some 1, []⟩, ⟨1, some 3, [0, 7]⟩, ⟨2, some 3, []⟩, ⟨0, none, [1, 2]⟩]
example : abs dangling 3 = none := by decide
example : ¬ WF dangling 3 := by decide
/-- a dangling root; the empty heap -/
example : abs exHeap 4 = none := by decide
example : abs ([] : Heap Nat) 0 = none := by decide

/-- a heap that is one path (the height is the size: fuel `h.length` is needed) -/
def pathHeap : Heap Nat := [⟨0, none, [1]⟩, ⟨1, some 0, [2]⟩, ⟨2, some 1, [3]⟩, ⟨3, some 2, []⟩]
example : abs pathHeap 0 = some (.node 0 [.node 1 [.node 2 [.node 3 []]]]) := by decide
example : absF pathHeap 4 0 none [] = some (.node 0 [.node 1 [.node 2 [.node 3 []]]], [0, 1, 2, 3]) := by decide
example : absF pathHeap 3 0 none [] = none := by decide

/-- the abstraction commutes with the calls: `Extend` on the heap, `extendAt` on the tree -/
example : (extend exHeap 1 9).bind (fun r => abs r.1 3) = Tree.extendAt (.node 9 []) [0] exTree := by decide

end Examples

end Mime.HeapAbs
